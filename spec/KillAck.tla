------------------------------ MODULE KillAck ------------------------------
(***************************************************************************)
(* Beyond the listed properties (DESIGN.md section 5): the kill             *)
(* acknowledgement protocol.                                               *)
(*  - common/utils/safeacks/safeacks.go: RegisterAck / TrySendAck /         *)
(*    TryReceiveAck / ExpectsAck over per-key channel pairs (ack: an        *)
(*    unbuffered rendezvous; stop: closed when the ack has been received)   *)
(*  - core/task/manager.go KillTasks: register an ack for every task it     *)
(*    selected, send KILL for the ACTIVE ones, wait for the ack of each     *)
(*    task it killed; updateTaskStatus: a status update for a task that is  *)
(*    no longer in the roster tries to send the ack.                        *)
(* One action per linearization point.  An operation instance is a          *)
(* "thread" with a program counter; a thread that fetched the channels of   *)
(* a registration keeps talking to THAT registration (generation) even if   *)
(* the key is registered again.  TryReceiveAck is three steps in the code   *)
(* (<-ack; close(stop); deleteKey) and three actions here.                  *)
(***************************************************************************)
EXTENDS Naturals, FiniteSets, Sequences, TLC

CONSTANTS Keys,         \* task ids
          Threads,      \* operation instances
          MaxGen,       \* bound on registrations per key (model finiteness)
          OneReceiver   \* TRUE: the documented usage (N senders, ONE receiver per registration) is assumed

VARIABLES
  reg,      \* reg[k] = generation currently registered for key k (0 = not registered)
  gen,      \* gen[k] = number of registrations of k so far
  stopped,  \* set of <<k, g>> whose stop channel is closed (ack received)
  th,       \* th[t] = [op, k, g, pc, res]; op: none|register|send|recv|expects; pc: idle|waiting|got|closed|done
  consumed  \* history: set of <<k, g, sender thread, receiver thread>> acks actually handed over

vars == <<reg, gen, stopped, th, consumed>>

AnyKey == CHOOSE k \in Keys : TRUE
Idle == [op |-> "none", k |-> AnyKey, g |-> 0, pc |-> "idle", res |-> "none"]

Init ==
  /\ reg = [k \in Keys |-> 0] /\ gen = [k \in Keys |-> 0] /\ stopped = {}
  /\ th = [t \in Threads |-> Idle] /\ consumed = {}

Free(t) == th[t].pc = "idle" /\ th[t].op = "none"

\* RegisterAck: under the mutex; fails if the key is registered
Register(t, k) ==
  /\ Free(t) /\ gen[k] < MaxGen
  /\ IF reg[k] # 0
       THEN /\ th' = [th EXCEPT ![t] = [op |-> "register", k |-> k, g |-> 0, pc |-> "done", res |-> "error"]]
            /\ UNCHANGED <<reg, gen>>
       ELSE /\ gen' = [gen EXCEPT ![k] = @ + 1] /\ reg' = [reg EXCEPT ![k] = gen[k] + 1]
            /\ th' = [th EXCEPT ![t] = [op |-> "register", k |-> k, g |-> gen[k] + 1, pc |-> "done", res |-> "ok"]]
  /\ UNCHANGED <<stopped, consumed>>

\* ExpectsAck
Expects(t, k) ==
  /\ Free(t)
  /\ th' = [th EXCEPT ![t] = [op |-> "expects", k |-> k, g |-> reg[k], pc |-> "done", res |-> IF reg[k] # 0 THEN "true" ELSE "false"]]
  /\ UNCHANGED <<reg, gen, stopped, consumed>>

Receiving(k, g) == {r \in Threads : th[r].op = "recv" /\ th[r].k = k /\ th[r].g = g /\ th[r].pc \in {"waiting", "got", "closed"}}

\* TrySendAck / TryReceiveAck, step 1: getValue under the mutex
Fetch(t, k, op) ==
  /\ Free(t) /\ op \in {"send", "recv"}
  /\ (OneReceiver /\ op = "recv" /\ reg[k] # 0) => Receiving(k, reg[k]) = {}
  /\ IF reg[k] = 0
       THEN th' = [th EXCEPT ![t] = [op |-> op, k |-> k, g |-> 0, pc |-> "done", res |-> IF op = "send" THEN "nil" ELSE "false"]]
       ELSE th' = [th EXCEPT ![t] = [op |-> op, k |-> k, g |-> reg[k], pc |-> "waiting", res |-> "none"]]
  /\ UNCHANGED <<reg, gen, stopped, consumed>>

\* a sender whose registration has been consumed sees the closed stop channel
SendStopped(t) ==
  /\ th[t].op = "send" /\ th[t].pc = "waiting" /\ <<th[t].k, th[t].g>> \in stopped
  /\ th' = [th EXCEPT ![t].pc = "done", ![t].res = "error"]
  /\ UNCHANGED <<reg, gen, stopped, consumed>>

\* rendezvous on the ack channel of one registration: one sender, one receiver.  The sender's select may take
\* this branch even when stop is closed as well (both ready: Go chooses at random).
Rendezvous(s, r) ==
  /\ th[s].op = "send" /\ th[s].pc = "waiting" /\ th[r].op = "recv" /\ th[r].pc = "waiting"
  /\ th[s].k = th[r].k /\ th[s].g = th[r].g
  /\ consumed' = consumed \cup {<<th[s].k, th[s].g, s, r>>}
  /\ th' = [th EXCEPT ![s].pc = "done", ![s].res = "nil", ![r].pc = "got"]
  /\ UNCHANGED <<reg, gen, stopped>>

\* receiver: close(stop) - closing a closed channel panics
CloseStop(r) ==
  /\ th[r].op = "recv" /\ th[r].pc = "got"
  /\ IF <<th[r].k, th[r].g>> \in stopped
       THEN th' = [th EXCEPT ![r].pc = "done", ![r].res = "panic"] /\ UNCHANGED stopped
       ELSE th' = [th EXCEPT ![r].pc = "closed"] /\ stopped' = stopped \cup {<<th[r].k, th[r].g>>}
  /\ UNCHANGED <<reg, gen, consumed>>

\* receiver: deleteKey (deletes whatever is registered under the key now)
DeleteKey(r) ==
  /\ th[r].op = "recv" /\ th[r].pc = "closed"
  /\ reg' = [reg EXCEPT ![th[r].k] = 0]
  /\ th' = [th EXCEPT ![r].pc = "done", ![r].res = "true"]
  /\ UNCHANGED <<gen, stopped, consumed>>

\* a finished operation instance can be reused for another call
Reuse(t) ==
  /\ th[t].pc = "done"
  /\ th' = [th EXCEPT ![t] = Idle]
  /\ UNCHANGED <<reg, gen, stopped, consumed>>

Auto == \/ \E t \in Threads : SendStopped(t) \/ CloseStop(t) \/ DeleteKey(t)
        \/ \E s, r \in Threads : Rendezvous(s, r)

Next ==
  \/ \E t \in Threads, k \in Keys : Register(t, k) \/ Expects(t, k) \/ Fetch(t, k, "send") \/ Fetch(t, k, "recv")
  \/ \E t \in Threads : Reuse(t)
  \/ Auto

Spec == Init /\ [][Next]_vars
FairSpec == Spec /\ \A t \in Threads : WF_vars(SendStopped(t))

(* ------------------------------ properties ----------------------------- *)
TypeOK == \A k \in Keys : reg[k] \in 0..MaxGen /\ gen[k] \in 0..MaxGen /\ reg[k] <= gen[k]
\* at most one acknowledgement is consumed per registration ("the first sender succeeds")
AtMostOneAck == \A c1, c2 \in consumed : (c1[1] = c2[1] /\ c1[2] = c2[2]) => c1 = c2
\* close(stop) never runs twice (it would crash the core)
NoPanic == \A t \in Threads : th[t].res # "panic"
\* the key stays registered until the receiver that consumed its ack removed it, and deleteKey removes the
\* receiver's OWN registration: a registered generation is never a closed one once its receiver is done
ReceiveDeletesOwn ==
  \A k \in Keys : (reg[k] # 0 /\ <<k, reg[k]>> \in stopped) => \E r \in Threads : th[r].op = "recv" /\ th[r].k = k /\ th[r].g = reg[k] /\ th[r].pc = "closed"
\* a sender returns nil only if nothing was registered or its ack was consumed by a receiver
SenderNilMeansDelivered ==
  \A t \in Threads : (th[t].op = "send" /\ th[t].pc = "done" /\ th[t].res = "nil" /\ th[t].g # 0)
                        => \E c \in consumed : c[1] = th[t].k /\ c[2] = th[t].g /\ c[3] = t
\* liveness (FairSpec): a sender of a consumed registration does not stay blocked
SendersOfConsumedReturn ==
  \A t \in Threads : (th[t].op = "send" /\ th[t].pc = "waiting" /\ <<th[t].k, th[t].g>> \in stopped) ~> (th[t].pc # "waiting")

\* A sender of a registration that nobody receives stays blocked (KillTasks registers an ack for every selected
\* task but waits only for those it sent a KILL for; a late status update for one of the others parks its
\* goroutine for ever).  Not a listed property; the trace specification accepts such a thread as "blocked".
=============================================================================
