---------------------------- MODULE RunStartGen -----------------------------
(* Scenario generator for RunStart: only the requests, the faults of the counter   *)
(* service and the foreign writes are chosen; what the core does on its own (the   *)
(* counter step, the rest of the transition) is taken first, except that a second   *)
(* START may be submitted while another one is in flight (concurrent starts).       *)
(* Faults and foreign writes happen at quiescent points only, so that the outcome   *)
(* the model predicts for a request does not depend on the interleaving.            *)
EXTENDS RunStart
Auto == \E e \in Envs : Obtain(e) \/ ObtainFails(e) \/ EndStart(e) \/ StartFailsLater(e)
Quiet == ~ENABLED Auto
InFlight == {e \in Envs : est[e] = "STARTING"}
G_Start(e) == /\ (Quiet \/ (Cardinality(InFlight) = 1 /\ \A x \in InFlight : ~got[x])) /\ BeginStart(e)
G_Stop(e) == Quiet /\ Stop(e)
G_Fault(b) == Quiet /\ SetFault(b)
G_Foreign(by) == Quiet /\ Foreign(by)
G_Obtain(e) == Obtain(e)
G_ObtainFails(e) == ObtainFails(e)
G_EndStart(e) == EndStart(e)
G_StartFailsLater(e) == StartFailsLater(e)
GenNext ==
  \/ \E e \in Envs : G_Start(e) \/ G_Stop(e) \/ G_Obtain(e) \/ G_ObtainFails(e) \/ G_EndStart(e) \/ G_StartFailsLater(e)
  \/ \E b \in BOOLEAN : G_Fault(b)
  \/ \E by \in 1..2 : G_Foreign(by)
GenSpec == Init /\ [][GenNext]_vars
=============================================================================
