------------------------------ MODULE RoleTree ------------------------------
(***************************************************************************)
(* C11 - a role's state and status are the fold of its subtree.            *)
(*                                                                         *)
(* Code: core/task/sm/state.go (State.X), core/task/status.go              *)
(* (STATUS_PRODUCT), core/workflow/safestate.go (aggregateState, merge),    *)
(* safestatus.go (aggregateStatus, merge), taskrole.go / callrole.go       *)
(* (updateState / updateStatus), aggregatorrole.go (updateState /          *)
(* updateStatus; includeRole embeds aggregatorRole), parentadapter.go.      *)
(*                                                                         *)
(* A tree ("shape") is a record  [parent, kind, crit]  of equally long      *)
(* tuples: node 1 is the root, parent[1] = 0 is the ParentAdapter; children *)
(* of a node are listed in increasing id order.                             *)
(*                                                                         *)
(* One update of a leaf climbs the tree as a "thread":                      *)
(*   Begin      leaf.merge (the leaf stores what it is told) and, when the   *)
(*              role forwards (status: always, state: critical only), the    *)
(*              call parent.update(v) is pending   (taskrole.go:updateState) *)
(*   MergeEnter   aggregator.merge(carried): lock(role), read the cache, compute  *)
(*                the new value (shortcut or walk over the children); when    *)
(*                another update holds the role's lock the thread is blocked   *)
(*                (MergeUnblock = the same once the lock is free)             *)
(*   MergeAssign  store the computed value, unlock(role)                      *)
(*                (safestate.go:merge / safestatus.go:merge; the lock is an    *)
(*                explicit variable; MergeAtomic = FALSE models a merge that   *)
(*                computes outside the lock and locks only the assignment)     *)
(*   ReadCache  the aggregator reads its own cache outside the lock and      *)
(*              calls its parent with it  (aggregatorrole.go: r.parent.      *)
(*              updateState(r.state.get()))                                  *)
(*   Deliver    ParentAdapter.updateState / updateStatus receives the value  *)
(* Sequential = one thread at a time; concurrent = two.                     *)
(***************************************************************************)
EXTENDS Naturals, Sequences, FiniteSets, TLC

CONSTANTS
  ShapeNames,     \* shapes explored (subset of DOMAIN Shapes)
  Kinds,          \* subset of {"state", "status"}
  TaskStates,     \* states a task role may be told
  CallStates,     \* states a call role may be told
  LeafStatuses,   \* statuses a leaf may be told
  MaxThreads,     \* 1 = sequential, 2 = two concurrent updates
  MaxEpisodes,    \* how often a second update may start while another one is in flight
  NoOpinionInit,  \* FALSE: code as is (every role starts STANDBY)
                  \* TRUE : repaired (an aggregator without critical descendant starts INVARIANT)
  TrustCarried,   \* TRUE : code as is (merge takes the carried MIXED / ERROR / UNDEFINED at face value)
                  \* FALSE: repaired (merge always recomputes from the children's current values)
  MergeAtomic,    \* TRUE : code as is (the role's lock is held from the read of the cache to the assignment)
                  \* FALSE: a broken merge (read + compute without the lock, only the assignment locked)
  PropagateAlways,\* TRUE : code as is (an aggregator ALWAYS passes its value on to its parent after a merge)
                  \* FALSE: a broken aggregator (passes it on only when it differs from the value sampled before the merge)
  SampleStep,     \* TRUE : the sample of the old value (oldState / oldStatus, read before the merge, outside the lock)
                  \*        is a step of its own (the granularity of the gates); FALSE: taken together with MergeEnter
                  \*        (equivalent when PropagateAlways: the sample is then used for the role events only)
  OnlyChildShortcut \* FALSE: code as is (a merge that recomputes walks over the children, also when there is one)
                  \* TRUE : a broken merge (an aggregator with exactly one child takes the forwarded value as its own)

VARIABLES shape, cS, cT, thr, last, episodes,
          lock    \* lock[kind][role] = thread holding the role's state / status mutex (0 = free)
vars == <<shape, cS, cT, thr, last, episodes, lock>>

(* ------------------------------------------------------------------------ *)
(* The two products                                                         *)
(* ------------------------------------------------------------------------ *)
States == {"UNKNOWN", "STANDBY", "CONFIGURED", "RUNNING", "ERROR", "DONE", "MIXED", "INVARIANT"}
Statuses == {"UNDEFINED", "INACTIVE", "PARTIAL", "ACTIVE", "UNDEPLOYABLE"}

\* sm/state.go: func (s State) X(other State) State
XS(s, o) ==
  IF s = o THEN s
  ELSE IF s = "ERROR" \/ o = "ERROR" THEN "ERROR"
  ELSE IF s = "INVARIANT" THEN o
  ELSE IF o = "INVARIANT" THEN s
  ELSE "MIXED"

\* task/status.go: STATUS_PRODUCT (row = receiver, column = argument)
StatusOrder == <<"UNDEFINED", "INACTIVE", "PARTIAL", "ACTIVE", "UNDEPLOYABLE">>
StatusProduct ==
  [UNDEFINED    |-> <<"UNDEFINED", "UNDEFINED",    "UNDEFINED",    "UNDEFINED",    "UNDEFINED">>,
   INACTIVE     |-> <<"UNDEFINED", "INACTIVE",     "PARTIAL",      "PARTIAL",      "UNDEPLOYABLE">>,
   PARTIAL      |-> <<"UNDEFINED", "PARTIAL",      "PARTIAL",      "PARTIAL",      "UNDEPLOYABLE">>,
   ACTIVE       |-> <<"UNDEFINED", "PARTIAL",      "PARTIAL",      "ACTIVE",       "UNDEPLOYABLE">>,
   UNDEPLOYABLE |-> <<"UNDEFINED", "UNDEPLOYABLE", "UNDEPLOYABLE", "UNDEPLOYABLE", "UNDEPLOYABLE">>]
StatusIdx(x) == CHOOSE i \in 1..5 : StatusOrder[i] = x
XT(s, o) == StatusProduct[s][StatusIdx(o)]

(* The algebra the property states, decided by exhaustive evaluation.       *)
Healthy == States \ {"ERROR", "INVARIANT", "MIXED"}
AlgebraStateOK ==
  /\ \A a, b \in States : XS(a, b) = XS(b, a)
  /\ \A a, b, c \in States : XS(XS(a, b), c) = XS(a, XS(b, c))
  /\ \A a \in States : XS(a, a) = a /\ XS(a, "ERROR") = "ERROR" /\ XS(a, "INVARIANT") = a
  \* differing healthy states give MIXED; MIXED absorbs everything but ERROR
  /\ \A a, b \in Healthy \cup {"MIXED"} : a # b => XS(a, b) = "MIXED"
AlgebraStatusOK ==
  /\ \A a, b \in Statuses : XT(a, b) = XT(b, a)
  /\ \A a, b, c \in Statuses : XT(XT(a, b), c) = XT(a, XT(b, c))
  /\ \A a \in Statuses : XT(a, a) = a /\ XT(a, "UNDEFINED") = "UNDEFINED"
  /\ \A a \in Statuses \ {"UNDEFINED"} : XT(a, "UNDEPLOYABLE") = "UNDEPLOYABLE"
  /\ \A a, b \in Statuses : (XT(a, b) = "ACTIVE") <=> (a = "ACTIVE" /\ b = "ACTIVE")
  \* anything missing makes it PARTIAL
  /\ \A a, b \in {"INACTIVE", "PARTIAL", "ACTIVE"} :
        (a # b \/ a = "PARTIAL") => XT(a, b) = "PARTIAL"
ASSUME AlgebraStateOK
ASSUME AlgebraStatusOK

(* ------------------------------------------------------------------------ *)
(* Tree shapes                                                              *)
(* ------------------------------------------------------------------------ *)
T == TRUE
F == FALSE
\* (src: for every node its id in the workflow template it comes from - the identity here)
Sh(p, k, c) == [parent |-> p, kind |-> k, crit |-> c, src |-> [i \in 1..Len(p) |-> i]]
ShP(p, k, c, o) == [parent |-> p, kind |-> k, crit |-> c, src |-> o]
Shapes ==
  [ \* flat
    S01 |-> Sh(<<0, 1, 1>>, <<"agg", "task", "task">>, <<T, T, T>>),
    S02 |-> Sh(<<0, 1, 1>>, <<"agg", "task", "task">>, <<T, T, F>>),
    \* nested aggregator next to a task
    S03 |-> Sh(<<0, 1, 2, 2, 1>>, <<"agg", "agg", "task", "task", "task">>, <<T, T, T, T, T>>),
    \* aggregator without critical descendant next to a critical one (the repository's role_test tree)
    S04 |-> Sh(<<0, 1, 2, 2, 1, 5>>, <<"agg", "agg", "task", "task", "agg", "task">>, <<T, T, T, T, T, F>>),
    \* tasks and calls, critical and not
    S05 |-> Sh(<<0, 1, 2, 2, 1, 5, 5>>, <<"agg", "agg", "task", "call", "agg", "task", "task">>,
               <<T, T, T, T, T, T, F>>),
    \* depth 3
    S06 |-> Sh(<<0, 1, 2, 3, 3, 2, 1>>, <<"agg", "agg", "agg", "task", "task", "task", "task">>,
               <<T, T, T, T, T, T, T>>),
    \* include role with a non-critical task
    S07 |-> Sh(<<0, 1, 2, 2, 1>>, <<"agg", "inc", "task", "task", "task">>, <<T, T, T, F, T>>),
    \* nothing critical at all (aggregator of non-critical tasks, include of a non-critical call)
    S08 |-> Sh(<<0, 1, 2, 2, 1, 5>>, <<"agg", "agg", "task", "task", "inc", "call">>, <<T, T, F, F, T, F>>),
    \* nested aggregators without critical descendant
    S09 |-> Sh(<<0, 1, 2, 3, 1>>, <<"agg", "agg", "agg", "task", "task">>, <<T, T, T, F, T>>),
    \* calls and a task directly under the root
    S10 |-> Sh(<<0, 1, 1, 1>>, <<"agg", "call", "call", "task">>, <<T, T, F, T>>),
    \* three single-child aggregators
    S11 |-> Sh(<<0, 1, 2, 1, 4, 1, 6>>, <<"agg", "agg", "task", "agg", "task", "inc", "task">>,
               <<T, T, T, T, T, T, T>>),
    \* five leaves
    S12 |-> Sh(<<0, 1, 2, 2, 2, 1, 6, 6>>, <<"agg", "agg", "task", "task", "call", "agg", "task", "task">>,
               <<T, T, T, T, T, T, T, F>>),
    \* a single non-critical task
    S13 |-> Sh(<<0, 1>>, <<"agg", "task">>, <<T, F>>),
    \* include inside an aggregator inside an include, depth 3, mixed criticality
    S14 |-> Sh(<<0, 1, 2, 3, 3, 2, 1>>, <<"agg", "inc", "agg", "task", "call", "task", "task">>,
               <<T, T, T, T, F, F, T>>),
    \* what the loader leaves of the templates Sources (below) whose roles are partly disabled: written
    \* out (TLC evaluates a literal table once) and ASSUMEd equal to Prune(Sources[s])
    S15 |-> ShP(<<0, 1, 2, 2, 1, 5>>, <<"agg", "agg", "task", "task", "agg", "task">>, <<T, T, T, T, T, F>>,
                <<1, 2, 3, 4, 5, 7>>),
    S16 |-> ShP(<<0, 1, 2, 1, 4>>, <<"agg", "agg", "task", "inc", "call">>, <<T, T, T, T, F>>, <<1, 2, 3, 6, 7>>),
    S17 |-> ShP(<<0, 1, 2, 2, 1>>, <<"agg", "agg", "task", "call", "task">>, <<T, T, T, F, F>>, <<1, 2, 4, 5, 6>>),
    S18 |-> ShP(<<0, 1>>, <<"agg", "task">>, <<T, F>>, <<1, 3>>),
    S19 |-> ShP(<<0, 1, 2, 1>>, <<"agg", "agg", "task", "task">>, <<T, T, F, T>>, <<1, 5, 6, 8>>),
    \* three tasks under one non-root aggregator (three overlapping updates passing through it)
    S20 |-> Sh(<<0, 1, 2, 2, 2>>, <<"agg", "agg", "task", "task", "task">>, <<T, T, T, T, T>>),
    \* roles generated by `for:` iterators (see Iterated): two copies of an aggregator template, two copies
    \* of a call template, and a task outside the iterators
    S21 |-> Sh(<<0, 1, 2, 1, 4, 1, 1, 1>>, <<"agg", "agg", "task", "agg", "task", "call", "call", "task">>,
               <<T, T, T, T, T, T, T, T>>),
    \* two copies of an aggregator template without critical descendant, next to a critical task
    S22 |-> Sh(<<0, 1, 2, 1, 4, 1>>, <<"agg", "agg", "task", "agg", "task", "task">>, <<T, T, F, T, F, T>>),
    \* hook tasks: task roles with a trigger ("hook"; they come and go while the workflow runs)
    S23 |-> Sh(<<0, 1, 2, 2, 1>>, <<"agg", "agg", "hook", "task", "task">>, <<T, T, T, T, T>>),
    S24 |-> Sh(<<0, 1, 1, 1>>, <<"agg", "hook", "task", "hook">>, <<T, F, T, T>>),
    \* a chain of single-child aggregators (root, include) above a multi-child one
    S25 |-> Sh(<<0, 1, 2, 3, 3>>, <<"agg", "inc", "agg", "task", "task">>, <<T, T, T, T, T>>)
  ]

(* Which sibling roles of a shape the workflow template expresses as ONE `for:` iterator over a role    *)
(* template (iteratorrole.go: expandTemplate generates the copies with copy(); they become ordinary     *)
(* children of the enclosing aggregator - GetRoles flattens iterators - and start like any loaded role). *)
Iterated ==
  [ S11 |-> << <<2, 4>> >>,
    S21 |-> << <<2, 4>>, <<6, 7>> >>,
    S22 |-> << <<2, 4>> >> ]
ASSUME \A s \in DOMAIN Iterated : s \in DOMAIN Shapes /\
         \A i \in 1..Len(Iterated[s]) : \A j \in 1..Len(Iterated[s][i]) :
            LET g == Iterated[s][i] sh == Shapes[s] IN
              sh.parent[g[j]] = sh.parent[g[1]] /\ sh.kind[g[j]] = sh.kind[g[1]] /\ sh.crit[g[j]] = sh.crit[g[1]]

(* Workflow templates with roles disabled by their `enabled` field. The loader (ProcessTemplates) *)
(* prunes a disabled role with its subtree, and an aggregator / include left without roles; the   *)
(* role tree the property speaks of is the tree AFTER pruning: "has a critical descendant" and     *)
(* the folds are decided on the surviving leaves only (aggregatorrole.go: ProcessTemplates).       *)
Src(p, k, c, e) == [parent |-> p, kind |-> k, crit |-> c, en |-> e]
Sources ==
  [ \* the only critical leaf of b is disabled, a non-critical sibling remains: b has no opinion
    S15 |-> Src(<<0, 1, 2, 2, 1, 5, 5>>, <<"agg", "agg", "task", "task", "agg", "task", "task">>,
                <<T, T, T, T, T, T, F>>, <<T, T, T, T, T, F, T>>),
    \* nothing remains of b (pruned with its disabled task); the include keeps a non-critical call only
    S16 |-> Src(<<0, 1, 2, 1, 4, 1, 6, 6>>, <<"agg", "agg", "task", "agg", "task", "inc", "call", "task">>,
                <<T, T, T, T, T, T, F, T>>, <<T, T, T, T, F, T, T, F>>),
    \* a critical leaf is disabled, another critical leaf of the same aggregator remains
    S17 |-> Src(<<0, 1, 2, 2, 2, 1>>, <<"agg", "agg", "task", "task", "call", "task">>,
                <<T, T, T, T, F, F>>, <<T, T, F, T, T, T>>),
    \* the root itself is left with a non-critical task only (its critical call is disabled)
    S18 |-> Src(<<0, 1, 1>>, <<"agg", "call", "task">>, <<T, T, F>>, <<T, F, T>>),
    \* a disabled aggregator goes with its critical tasks; a disabled non-critical leaf changes nothing
    S19 |-> Src(<<0, 1, 2, 2, 1, 5, 5, 1>>, <<"agg", "agg", "task", "task", "agg", "task", "task", "task">>,
                <<T, T, T, T, T, F, F, T>>, <<T, F, T, T, T, T, F, T>>)
  ]

Prune(src) ==
  LET n == Len(src.parent)
      isleaf(m) == src.kind[m] \in {"task", "call", "hook"}
      RECURSIVE anc(_)
      anc(m) == IF m = 0 THEN {} ELSE {m} \cup anc(src.parent[m])
      \* a leaf survives when it and all its ancestors are enabled; an aggregator when a leaf below it does
      liveLeaf(l) == isleaf(l) /\ \A m \in anc(l) : src.en[m]
      alive == {m \in 1..n : \E l \in 1..n : liveLeaf(l) /\ m \in anc(l)}
      idx(m) == Cardinality({x \in alive : x <= m})
      nth(i) == CHOOSE m \in alive : idx(m) = i
      k == Cardinality(alive)
  IN [parent |-> [i \in 1..k |-> IF src.parent[nth(i)] = 0 THEN 0 ELSE idx(src.parent[nth(i)])],
      kind |-> [i \in 1..k |-> src.kind[nth(i)]],
      crit |-> [i \in 1..k |-> src.crit[nth(i)]],
      src |-> [i \in 1..k |-> nth(i)]]

ASSUME \A s \in DOMAIN Sources : s \in DOMAIN Shapes /\ Shapes[s] = Prune(Sources[s])

Tree == Shapes[shape]
N == Len(Tree.parent)
Nodes == 1..N
Root == 1
Parent(n) == Tree.parent[n]
IsLeaf(n) == Tree.kind[n] \in {"task", "call", "hook"}
Leaves == {n \in Nodes : IsLeaf(n)}
Aggs == Nodes \ Leaves
Crit(n) == Tree.crit[n]
Children(n) == SelectSeq([i \in 1..N |-> i], LAMBDA i : Tree.parent[i] = n)

RECURSIVE AncSelf(_)
AncSelf(n) == IF n = 0 THEN {} ELSE {n} \cup AncSelf(Parent(n))
LeavesUnder(n) == {l \in Leaves : n \in AncSelf(l)}
CritLeavesUnder(n) == {l \in LeavesUnder(n) : Crit(l)}

\* well-formed: parents precede children, leaves have no children, aggregators have some
ShapeOK(s) ==
  LET sh == Shapes[s] n == Len(sh.parent) IN
    /\ Len(sh.kind) = n /\ Len(sh.crit) = n /\ sh.parent[1] = 0 /\ sh.kind[1] = "agg"
    /\ \A i \in 2..n : sh.parent[i] \in 1..(i - 1) /\ sh.kind[sh.parent[i]] \in {"agg", "inc"}
    /\ \A i \in 1..n : sh.kind[i] \in {"agg", "inc"} => \E j \in 1..n : sh.parent[j] = i
ASSUME \A s \in DOMAIN Shapes : ShapeOK(s)
ASSUME ShapeNames \subseteq DOMAIN Shapes

(* ------------------------------------------------------------------------ *)
(* The property's folds (order-free: over SETS of leaves)                   *)
(* ------------------------------------------------------------------------ *)
RECURSIVE FoldXS(_, _)
FoldXS(c, L) == IF L = {} THEN "INVARIANT"
                ELSE LET l == CHOOSE x \in L : TRUE IN XS(c[l], FoldXS(c, L \ {l}))
RECURSIVE FoldXT(_, _)
FoldXT(c, L) == LET l == CHOOSE x \in L : TRUE IN
                  IF L = {l} THEN c[l] ELSE XT(c[l], FoldXT(c, L \ {l}))

\* a leaf reports what it was told; an aggregator the product over its CRITICAL leaf
\* descendants ("no opinion" = INVARIANT when there is none)
FoldState(c, n) == IF IsLeaf(n) THEN c[n] ELSE FoldXS(c, CritLeavesUnder(n))
\* status: over ALL leaf descendants
FoldStatus(c, n) == IF IsLeaf(n) THEN c[n] ELSE FoldXT(c, LeavesUnder(n))

\* what the code as it is computes at quiescence when started from the YAML-loaded tree:
\* an aggregator without critical descendant keeps its initial STANDBY for ever (nothing is
\* ever forwarded to it) and aggregateState does not skip it (known deviation)
HasDeadAgg(n) == \E a \in Aggs : n \in AncSelf(a) /\ CritLeavesUnder(a) = {}
FoldStateAsIs(c, n) ==
  IF IsLeaf(n) THEN c[n]
  ELSE XS(FoldXS(c, CritLeavesUnder(n)), IF HasDeadAgg(n) THEN "STANDBY" ELSE "INVARIANT")

(* ------------------------------------------------------------------------ *)
(* The implementation's incremental merge                                   *)
(* ------------------------------------------------------------------------ *)
\* safestate.go: aggregateState(roles): left fold from INVARIANT in listed order, skipping
\* non-critical task / call roles (aggregators and includes are never skipped)
RECURSIVE AggStateFrom(_, _, _, _)
AggStateFrom(c, ch, i, acc) ==
  IF i > Len(ch) THEN acc
  ELSE IF IsLeaf(ch[i]) /\ ~Crit(ch[i]) THEN AggStateFrom(c, ch, i + 1, acc)
  ELSE AggStateFrom(c, ch, i + 1, XS(acc, c[ch[i]]))
AggState(c, n) == AggStateFrom(c, Children(n), 1, "INVARIANT")

\* safestate.go: SafeState.merge for an aggregator / include role
MergeState(c, n, s) ==
  IF c[n] = s THEN c[n]
  ELSE IF TrustCarried /\ s = "MIXED" /\ c[n] # "ERROR" THEN "MIXED"
  ELSE IF TrustCarried /\ s = "ERROR" THEN "ERROR"
  ELSE IF OnlyChildShortcut /\ Len(Children(n)) = 1 THEN s
  ELSE AggState(c, n)

\* safestatus.go: aggregateStatus(roles): no roles => UNDEFINED; first child, then X with the
\* others in listed order, returning early on UNDEFINED
RECURSIVE AggStatusFrom(_, _, _, _)
AggStatusFrom(c, ch, i, acc) ==
  IF i > Len(ch) \/ acc = "UNDEFINED" THEN acc
  ELSE AggStatusFrom(c, ch, i + 1, XT(acc, c[ch[i]]))
AggStatus(c, n) ==
  LET ch == Children(n) IN
    IF Len(ch) = 0 THEN "UNDEFINED" ELSE AggStatusFrom(c, ch, 2, c[ch[1]])

\* safestatus.go: SafeStatus.merge for an aggregator / include role
MergeStatus(c, n, s) ==
  IF c[n] = s THEN c[n]
  ELSE IF TrustCarried /\ s = "UNDEFINED" THEN "UNDEFINED"
  ELSE IF OnlyChildShortcut /\ Len(Children(n)) = 1 THEN s
  ELSE AggStatus(c, n)

Idle == [kind |-> "-", leaf |-> 0, at |-> 0, carried |-> "-", newv |-> "-", old |-> "-", wait |-> "-", pc |-> "idle"]
Threads == 1..MaxThreads
Active == {t \in Threads : thr[t].pc # "idle"}
Quiescent == Active = {}

LeafValues(l, k) ==
  IF k = "status" THEN LeafStatuses
  ELSE IF Tree.kind[l] = "call" THEN CallStates ELSE TaskStates

InitState(s, n) ==
  LET sh == Shapes[s]
      isleaf(m) == sh.kind[m] \in {"task", "call", "hook"}
      RECURSIVE anc(_)
      anc(m) == IF m = 0 THEN {} ELSE {m} \cup anc(sh.parent[m])
      critUnder == {m \in 1..Len(sh.parent) : isleaf(m) /\ sh.crit[m] /\ n \in anc(m)}
  IN IF NoOpinionInit /\ ~isleaf(n) /\ critUnder = {} THEN "INVARIANT" ELSE "STANDBY"

\* rolebase.go: roleBase.UnmarshalYAML: every role starts STANDBY / INACTIVE
Init ==
  /\ shape \in ShapeNames
  /\ cS = [n \in 1..Len(Shapes[shape].parent) |-> InitState(shape, n)]
  /\ cT = [n \in 1..Len(Shapes[shape].parent) |-> "INACTIVE"]
  /\ thr = [t \in Threads |-> Idle]
  /\ last = [state |-> "none", status |-> "none"]
  /\ episodes = 0
  /\ lock = [k \in {"state", "status"} |-> [n \in 1..Len(Shapes[shape].parent) |-> 0]]

\* taskrole.go / callrole.go: updateState, updateStatus
Begin(t, l, k, v) ==
  /\ thr[t].pc = "idle"
  /\ \A u \in Threads : u < t => thr[u].pc # "idle"       \* symmetry: lowest idle thread id
  /\ l \in Leaves /\ k \in Kinds /\ v \in LeafValues(l, k)
  /\ \A u \in Active : thr[u].leaf # l                      \* updates of DIFFERENT tasks overlap
  /\ IF Active # {} THEN episodes < MaxEpisodes /\ episodes' = episodes + 1
                    ELSE UNCHANGED episodes
  /\ IF k = "state" THEN cS' = [cS EXCEPT ![l] = v] /\ UNCHANGED cT
                    ELSE cT' = [cT EXCEPT ![l] = v] /\ UNCHANGED cS
  /\ IF k = "state" /\ ~Crit(l)
       THEN UNCHANGED thr                                   \* only critical roles forward state
       ELSE thr' = [thr EXCEPT ![t] = [kind |-> k, leaf |-> l, at |-> Parent(l), carried |-> v, newv |-> "-", old |-> "-", wait |-> "-", pc |-> "call"]]
  /\ UNCHANGED <<shape, last, lock>>

\* safestate.go / safestatus.go: merge, from lock(role) to the point where the new value is known.
\* Equal value: nothing to do (lock and unlock within the step).
CacheOf(t) == IF thr[t].kind = "state" THEN cS[thr[t].at] ELSE cT[thr[t].at]
Locked(t) == MergeAtomic /\ lock[thr[t].kind][thr[t].at] # 0

\* aggregatorrole.go: oldState := r.state.get() / oldStatus := r.status.get(): a read under the role's
\* read lock, before the merge
SampleBody(t) == thr' = [thr EXCEPT ![t].old = CacheOf(t), ![t].pc = "sampled", ![t].wait = "-"] /\ UNCHANGED lock

EnterBody(t) ==
  LET n == thr[t].at
      s == thr[t].carried
      k == thr[t].kind
      cur == CacheOf(t)
      o == IF SampleStep THEN thr[t].old ELSE IF PropagateAlways THEN "-" ELSE cur   \* ("-": never looked at)
  IN IF cur = s
       THEN thr' = [thr EXCEPT ![t].pc = "merged", ![t].old = o, ![t].wait = "-"] /\ UNCHANGED lock
       ELSE /\ thr' = [thr EXCEPT ![t].pc = "computed", ![t].old = o, ![t].wait = "-",
                                  ![t].newv = IF k = "state" THEN MergeState(cS, n, s) ELSE MergeStatus(cT, n, s)]
            /\ lock' = IF MergeAtomic THEN [lock EXCEPT ![k][n] = t] ELSE lock

\* the thread leaves its gate at the entry of updateState / updateStatus and samples the old value - or
\* waits for the role's lock when another update is inside the merge
Sample(t) ==
  /\ SampleStep
  /\ thr[t].pc = "call" /\ thr[t].at # 0
  /\ IF Locked(t)
       THEN thr' = [thr EXCEPT ![t].pc = "blocked", ![t].wait = "sample"] /\ UNCHANGED lock
       ELSE SampleBody(t)
  /\ UNCHANGED <<shape, cS, cT, last, episodes>>

\* aggregatorrole.go: updateState / updateStatus call merge: the thread either gets the role's lock or
\* waits for it
MergeEnter(t) ==
  /\ thr[t].pc = (IF SampleStep THEN "sampled" ELSE "call") /\ thr[t].at # 0
  /\ IF Locked(t)
       THEN thr' = [thr EXCEPT ![t].pc = "blocked", ![t].wait = "enter"] /\ UNCHANGED lock
       ELSE EnterBody(t)
  /\ UNCHANGED <<shape, cS, cT, last, episodes>>

\* the lock became free: the waiting thread goes on by itself
MergeUnblock(t) ==
  /\ thr[t].pc = "blocked" /\ lock[thr[t].kind][thr[t].at] = 0
  /\ IF thr[t].wait = "sample" THEN SampleBody(t) ELSE EnterBody(t)
  /\ UNCHANGED <<shape, cS, cT, last, episodes>>

\* t.state = <computed value>; unlock(role)
MergeAssign(t) ==
  /\ thr[t].pc = "computed"
  /\ LET n == thr[t].at IN
       /\ IF thr[t].kind = "state"
            THEN cS' = [cS EXCEPT ![n] = thr[t].newv] /\ UNCHANGED cT
            ELSE cT' = [cT EXCEPT ![n] = thr[t].newv] /\ UNCHANGED cS
       /\ lock' = IF MergeAtomic THEN [lock EXCEPT ![thr[t].kind][n] = 0] ELSE lock
  /\ thr' = [thr EXCEPT ![t].pc = "merged", ![t].newv = "-"]
  /\ UNCHANGED <<shape, last, episodes>>

\* aggregatorrole.go: r.parent.updateState(r.state.get()): the cache is read again, outside the lock
\* (a broken aggregator - PropagateAlways = FALSE - stops here when the value equals the one it sampled)
ReadCache(t) ==
  /\ thr[t].pc = "merged"
  /\ LET n == thr[t].at IN
       IF ~PropagateAlways /\ thr[t].old = CacheOf(t)
         THEN thr' = [thr EXCEPT ![t] = Idle]
         ELSE thr' = [thr EXCEPT ![t].carried = CacheOf(t), ![t].at = Parent(n), ![t].pc = "call", ![t].old = "-"]
  /\ UNCHANGED <<shape, cS, cT, last, episodes, lock>>

\* parentadapter.go: updateState / updateStatus
Deliver(t) ==
  /\ thr[t].pc = "call" /\ thr[t].at = 0
  /\ last' = [last EXCEPT ![thr[t].kind] = thr[t].carried]
  /\ thr' = [thr EXCEPT ![t] = Idle]
  /\ UNCHANGED <<shape, cS, cT, episodes, lock>>

Next ==
  \/ \E t \in Threads, l \in Leaves, k \in Kinds : \E v \in LeafValues(l, k) : Begin(t, l, k, v)
  \/ \E t \in Threads : Sample(t) \/ MergeEnter(t) \/ MergeUnblock(t) \/ MergeAssign(t) \/ ReadCache(t) \/ Deliver(t)

Spec == Init /\ [][Next]_vars

(* ------------------------------------------------------------------------ *)
(* A whole update run to completion alone, as a function (for OrderIndependent) *)
(* ------------------------------------------------------------------------ *)
RECURSIVE ClimbS(_, _, _)
ClimbS(c, n, s) ==   \* merge s at n, then carry n's cache to n's parent
  IF n = 0 THEN c
  ELSE LET c2 == [c EXCEPT ![n] = MergeState(c, n, s)] IN ClimbS(c2, Parent(n), c2[n])
SeqState(c, l, v) ==
  LET c1 == [c EXCEPT ![l] = v] IN IF Crit(l) THEN ClimbS(c1, Parent(l), v) ELSE c1
RECURSIVE ClimbT(_, _, _)
ClimbT(c, n, s) ==
  IF n = 0 THEN c
  ELSE LET c2 == [c EXCEPT ![n] = MergeStatus(c, n, s)] IN ClimbT(c2, Parent(n), c2[n])
SeqStatus(c, l, v) == ClimbT([c EXCEPT ![l] = v], Parent(l), v)

(* ------------------------------------------------------------------------ *)
(* Properties                                                               *)
(* ------------------------------------------------------------------------ *)
TypeOK ==
  /\ \A n \in Nodes : cS[n] \in States /\ cT[n] \in Statuses
  /\ \A t \in Threads : thr[t].pc \in {"idle", "call", "sampled", "blocked", "computed", "merged"}
  \* a lock is held exactly by the thread that computed and has not assigned yet
  /\ \A k \in {"state", "status"}, n \in Nodes :
        lock[k][n] # 0 <=> (MergeAtomic /\ \E t \in Threads : t = lock[k][n] /\ thr[t].pc = "computed"
                                                             /\ thr[t].kind = k /\ thr[t].at = n)

FoldStateInv == Quiescent => \A n \in Nodes : cS[n] = FoldState(cS, n)
FoldStatusInv == Quiescent => \A n \in Nodes : cT[n] = FoldStatus(cT, n)
FoldInv == FoldStateInv /\ FoldStatusInv
\* the same with the known deviation taken as given (used to show it is the ONLY deviation)
FoldStateAsIsInv == Quiescent => \A n \in Nodes : cS[n] = FoldStateAsIs(cS, n)

CritError == \E l \in CritLeavesUnder(Root) : cS[l] = "ERROR"
ErrorNotLost == (Quiescent /\ CritError) => cS[Root] = "ERROR"
ErrorNotInvented == (Quiescent /\ cS[Root] = "ERROR") => CritError
\* stronger, at every instant: an ERROR at the root always has a cause that is or was just there
ErrorNotInventedEver == (cS[Root] = "ERROR") => (CritError \/ ~Quiescent)

OrderIndependent ==
  Quiescent =>
    /\ "state" \in Kinds =>
         \A l1, l2 \in Leaves : l1 # l2 =>
           \A v1 \in LeafValues(l1, "state"), v2 \in LeafValues(l2, "state") :
             SeqState(SeqState(cS, l1, v1), l2, v2) = SeqState(SeqState(cS, l2, v2), l1, v1)
    /\ "status" \in Kinds =>
         \A l1, l2 \in Leaves : l1 # l2 =>
           \A v1 \in LeafValues(l1, "status"), v2 \in LeafValues(l2, "status") :
             SeqStatus(SeqStatus(cT, l1, v1), l2, v2) = SeqStatus(SeqStatus(cT, l2, v2), l1, v1)

\* what the ParentAdapter received last is the root's value (observation, not part of C11)
AdapterFresh ==
  Quiescent => /\ last.state # "none" => last.state = cS[Root]
               /\ last.status # "none" => last.status = cT[Root]

\* view that forgets what the adapter saw (for runs that do not check AdapterFresh)
ViewNoLast == <<shape, cS, cT, thr, episodes, lock>>
=============================================================================
