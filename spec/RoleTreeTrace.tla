---------------------------- MODULE RoleTreeTrace ----------------------------
(***************************************************************************)
(* Trace specification binding spec/RoleTree.tla to recorded executions of  *)
(* real core/workflow role trees (harness/cmd/roletree).                    *)
(*                                                                         *)
(*  - conformance (strict): every recorded step must be the RoleTree action  *)
(*    it names and the recorded caches of ALL roles, the place where the     *)
(*    update is parked, the value it carries and what the ParentAdapter      *)
(*    received must equal the model's next state; otherwise DRIFT, and the   *)
(*    run is followed in "lost" mode until the next Reset;                   *)
(*  - the monitor: independent of the model state, the property formulas     *)
(*    are evaluated on the recorded facts: at every quiescent line the       *)
(*    recorded caches must be the TLA+ folds of the recorded leaf values     *)
(*    (FoldInv), ERROR at the root iff a critical leaf is in ERROR; a leaf   *)
(*    reports what it was told; the real product tables equal XS / XT.       *)
(*    Each VIOL carries a class computed from recorded facts only:           *)
(*      aggregator-without-critical-descendant : the whole cache vector is   *)
(*        what FoldStateAsIs predicts (initial STANDBY never replaced)       *)
(*      stale-carried-value : earlier in the run a merge stored a value that *)
(*        is not the product of the children's values at that moment, the    *)
(*        carried value being different from the sender's cache              *)
(*      free-concurrent : free-running run with several goroutines           *)
(*      other                                                                *)
(***************************************************************************)
EXTENDS RoleTree, Integers, Json, IOUtils

Trace == ndJsonDeserialize(IOEnv.TRACE_FILE)

VARIABLES l, mode, scn, nviol,
          mkind, mcar, msrc,   \* monitor: per thread, kind / value carried / node it comes from
          mbad,                \* monitor: a merge inconsistent with the children was recorded
          mpc, mat,            \* monitor: per thread, where it was last recorded (pc, role)
          movr,                \* monitor: a merge was recorded inside another update's compute-assign window
          mnop,                \* monitor: an update was recorded ending below the root without entering the parent
          mlast                \* monitor: last value the adapter received, per kind

tvars == <<l, mode, scn, nviol, mkind, mcar, msrc, mbad, mpc, mat, movr, mnop, mlast>>
allvars == <<vars, tvars>>

Line == Trace[l]

Soft(name, cond, detail) ==
  IF cond THEN 0
  ELSE IF PrintT(<<"VIOL", name, scn, l, detail>>) THEN 1 ELSE 1
Note(name, cond, detail) == IF cond THEN TRUE ELSE PrintT(<<"NOTE", name, scn, l, detail>>)

TIds == 1..MaxThreads

(* ---------------- monitor formulas on a recorded cache vector ---------------- *)
NodesOf(cs) == 1..Len(cs)
SizeOK(cs) == Len(cs) = N
BadStateNodes(cs) == {n \in Nodes : cs[n] # FoldState(cs, n)}
BadStatusNodes(ct) == {n \in Nodes : ct[n] # FoldStatus(ct, n)}
AsIsExplains(cs) == \A n \in Nodes : cs[n] = FoldStateAsIs(cs, n)
Min(S) == CHOOSE x \in S : \A y \in S : x <= y

\* some role reports the product of its children (it is right given them) while its parent does not
\* report the product of ITS children: the parent was not told
StaleAncestorS(cs) == \E n \in Aggs : Parent(n) # 0 /\ cs[n] = AggState(cs, n) /\ cs[Parent(n)] # AggState(cs, Parent(n))
StaleAncestorT(ct) == \E n \in Aggs : Parent(n) # 0 /\ ct[n] = AggStatus(ct, n) /\ ct[Parent(n)] # AggStatus(ct, Parent(n))

Class(cs, free, nthreads) ==
  IF AsIsExplains(cs) THEN "aggregator-without-critical-descendant"
  ELSE IF free THEN (IF nthreads > 1 THEN "free-concurrent" ELSE "other")
  ELSE IF movr THEN "non-atomic-merge"
  ELSE IF mnop THEN "update-not-propagated"
  ELSE IF mbad THEN "stale-carried-value"
  ELSE "other"
\* (status: with the statuses the free-running runs send no known deviation exists - nothing may be
\* attributed to the open free-run findings)
ClassT(ct, free, nthreads) ==
  IF free THEN (IF StaleAncestorT(ct) THEN "update-not-propagated"
                ELSE IF nthreads > 1 THEN "free-concurrent-status" ELSE "other")
  ELSE IF movr THEN "non-atomic-merge"
  ELSE IF mnop THEN "update-not-propagated"
  ELSE IF mbad THEN "stale-carried-value" ELSE "other"

CritErrorIn(cs) == \E x \in CritLeavesUnder(Root) : cs[x] = "ERROR"

\* the property at a quiescent instant, on recorded facts
QuiescentChecks(cs, ct, free, nthreads) ==
  IF ~(SizeOK(cs) /\ SizeOK(ct)) THEN Soft("Harness", FALSE, "cache vector size")
  ELSE
    LET bs == BadStateNodes(cs)
        bt == BadStatusNodes(ct)
    IN  Soft("FoldInv", bs = {},
             IF bs = {} THEN <<>> ELSE
               <<"state", Class(cs, free, nthreads), Min(bs), cs[Min(bs)], FoldState(cs, Min(bs)), cs>>)
      + Soft("FoldInv", bt = {},
             IF bt = {} THEN <<>> ELSE
               <<"status", ClassT(ct, free, nthreads), Min(bt), ct[Min(bt)], FoldStatus(ct, Min(bt)), ct>>)
      + Soft("ErrorNotLost", CritErrorIn(cs) => cs[Root] = "ERROR", <<"state", Class(cs, free, nthreads), cs>>)
      + Soft("ErrorNotInvented", cs[Root] = "ERROR" => CritErrorIn(cs), <<"state", Class(cs, free, nthreads), cs>>)

(* ---------------- model step named by the line ---------------- *)
IsStep == Line.ev \in {"Begin", "Sample", "MergeEnter", "MergeUnblock", "MergeAssign", "ReadCache", "Deliver"}

ModelAct ==
  LET a == Line.ev IN
  CASE a = "Begin" -> Begin(Line.t, Line.leaf, Line.kind, Line.v)
    [] a = "Sample" -> Sample(Line.t)
    [] a = "MergeEnter" -> MergeEnter(Line.t)
    [] a = "MergeUnblock" -> MergeUnblock(Line.t)
    [] a = "MergeAssign" -> MergeAssign(Line.t)
    [] a = "ReadCache" -> ReadCache(Line.t)
    [] a = "Deliver" -> Deliver(Line.t)
    [] OTHER -> FALSE

HeldSet(k) == {n \in Nodes : lock'[k][n] # 0}
SeqToSet(q) == {q[i] : i \in 1..Len(q)}
ObsMatchNext ==
  /\ Line.ok
  /\ Line.t \in TIds
  /\ cS' = Line.cs /\ cT' = Line.ct
  /\ thr'[Line.t].pc = Line.pc
  /\ Line.pc # "idle" => thr'[Line.t].at = Line.at
  /\ Line.pc = "call" => thr'[Line.t].carried = Line.carried
  \* at role.sampled the hook reports the old value read before the merge
  /\ Line.pc = "sampled" => thr'[Line.t].old = Line.carried
  \* at merge.computed the hook reports the value about to be assigned
  /\ Line.pc = "computed" => thr'[Line.t].newv = Line.carried
  \* at role.merged the hook reports the cache of the role just merged ("-": the thread's arrival at
  \* that gate was not awaited, it may have to wait for the role's next holder)
  /\ (Line.pc = "merged" /\ Line.carried # "-") =>
       Line.carried = (IF thr'[Line.t].kind = "state" THEN cS'[Line.at] ELSE cT'[Line.at])
  /\ Line.recv = (IF Line.ev = "Deliver" THEN <<  <<thr[Line.t].kind, thr[Line.t].carried>>  >> ELSE <<>>)
  /\ Line.q = (\A t \in Threads : thr'[t].pc = "idle")
  \* the roles whose lock cannot be had right now are exactly those an update is parked in
  \* (handover: the assignment was observed only once the thread that waited for the role's lock had
  \* taken it - that lock belongs to the next line)
  /\ LET ho == IF Line.handover THEN {Line.at} ELSE {} IN
       /\ SeqToSet(Line.lks) \ ho = HeldSet("state") \ ho
       /\ SeqToSet(Line.lkt) \ ho = HeldSet("status") \ ho

Matched == ModelAct /\ ObsMatchNext

(* ---------------- monitor bookkeeping on a step line ---------------- *)
\* a merge that computed (or kept) something else than the product of the children's recorded values,
\* with a carried value that is not the sender's recorded cache: the recorded signature of a stale value
MergeLine == Line.ev \in {"MergeEnter", "MergeUnblock"} /\ Line.ok /\ Line.pc \in {"computed", "merged"}
               /\ Line.t \in TIds /\ Line.at \in Nodes /\ SizeOK(Line.cs) /\ SizeOK(Line.ct)
BadMerge ==
  /\ MergeLine
  /\ msrc[Line.t] \in Nodes
  /\ LET newv == IF Line.pc = "computed" THEN Line.carried
                  ELSE IF mkind[Line.t] = "state" THEN Line.cs[Line.at] ELSE Line.ct[Line.at]
     IN IF mkind[Line.t] = "state"
          THEN newv # AggState(Line.cs, Line.at) /\ mcar[Line.t] # Line.cs[msrc[Line.t]]
          ELSE newv # AggStatus(Line.ct, Line.at) /\ mcar[Line.t] # Line.ct[msrc[Line.t]]
\* an update that had merged into a role below the root came to its end instead of entering the parent:
\* the role's value was not passed up
NotPropagated ==
  /\ Line.ev = "ReadCache" /\ Line.ok /\ Line.pc = "idle" /\ Line.t \in TIds
  /\ mat[Line.t] \in Nodes /\ Parent(mat[Line.t]) # 0
\* a thread got through the merge of a role while another update of the same kind was recorded between
\* computing and assigning in that very role: the merge is not atomic (the role's lock is not held)
Overrun ==
  /\ MergeLine
  /\ \E u \in TIds : u # Line.t /\ mpc[u] = "computed" /\ mat[u] = Line.at /\ mkind[u] = mkind[Line.t]

MonitorStep ==
  LET t == Line.t
      tracked == t \in TIds
      newlast == [k \in {"state", "status"} |->
                    LET rs == SelectSeq(Line.recv, LAMBDA r : r[1] = k)
                    IN IF Len(rs) = 0 THEN mlast[k] ELSE rs[Len(rs)][2]]
  IN
  /\ mkind' = IF tracked /\ Line.ev = "Begin" THEN [mkind EXCEPT ![t] = Line.kind] ELSE mkind
  /\ mcar' = IF tracked /\ Line.pc = "call" THEN [mcar EXCEPT ![t] = Line.carried] ELSE mcar
  /\ msrc' = IF tracked /\ Line.ev = "Begin" THEN [msrc EXCEPT ![t] = Line.leaf]
             ELSE IF tracked /\ Line.ev = "ReadCache" THEN [msrc EXCEPT ![t] = mat[t]] ELSE msrc
  /\ mpc' = IF tracked THEN [mpc EXCEPT ![t] = Line.pc] ELSE mpc
  /\ mat' = IF tracked /\ Line.pc \in {"call", "sampled", "blocked", "computed", "merged"} THEN [mat EXCEPT ![t] = Line.at] ELSE mat
  /\ mbad' = (mbad \/ BadMerge)
  /\ movr' = (movr \/ Overrun)
  /\ mnop' = (mnop \/ NotPropagated)
  /\ mlast' = newlast
  /\ nviol' = nviol
       + (IF Line.ev = "Begin" /\ SizeOK(Line.cs) /\ Line.leaf \in Nodes
            THEN Soft("LeafStores",
                      IF Line.kind = "state" THEN Line.cs[Line.leaf] = Line.v ELSE Line.ct[Line.leaf] = Line.v,
                      <<Line.leaf, Line.kind, Line.v>>)
            ELSE 0)
       + (IF Line.q THEN QuiescentChecks(Line.cs, Line.ct, FALSE, 1) ELSE 0)
  /\ (Line.q /\ SizeOK(Line.cs)) =>
        /\ Note("AdapterStale", newlast["state"] \in {"none", Line.cs[Root]}, <<"state", newlast["state"], Line.cs[Root]>>)
        /\ Note("AdapterStale", newlast["status"] \in {"none", Line.ct[Root]}, <<"status", newlast["status"], Line.ct[Root]>>)

TStepOk ==
  /\ l <= Len(Trace) /\ IsStep /\ mode = "ok"
  /\ Matched
  /\ MonitorStep
  /\ l' = l + 1 /\ UNCHANGED <<mode, scn>>

TStepDrift ==
  /\ l <= Len(Trace) /\ IsStep /\ mode = "ok"
  /\ ~ENABLED Matched
  /\ PrintT(<<"DRIFT", scn, l, Line.ev>>)
  /\ MonitorStep
  /\ mode' = "lost" /\ l' = l + 1 /\ UNCHANGED <<vars, scn>>

TStepLost ==
  /\ l <= Len(Trace) /\ IsStep /\ mode = "lost"
  /\ MonitorStep
  /\ l' = l + 1 /\ UNCHANGED <<vars, mode, scn>>

\* the driver could not execute a step of the scenario (the real code is somewhere else than the
\* model says): nothing was executed, nothing is judged
TAbandon ==
  /\ l <= Len(Trace) /\ Line.ev = "Abandon"
  /\ IF mode = "ok" THEN PrintT(<<"DRIFT", scn, l, <<"Abandon", Line.a, Line.why>> >>) ELSE TRUE
  /\ mode' = "lost"
  /\ l' = l + 1 /\ UNCHANGED <<vars, scn, nviol, mkind, mcar, msrc, mbad, mpc, mat, movr, mnop, mlast>>

\* end of a scheduled run: everything still in flight was released and ran to completion on its
\* own; the tree is quiescent. Judged by the monitor; strict only when the model is quiescent too.
TSettle ==
  /\ l <= Len(Trace) /\ Line.ev = "Settle"
  /\ LET newlast == [k \in {"state", "status"} |->
                      LET rs == SelectSeq(Line.recv, LAMBDA r : r[1] = k)
                      IN IF Len(rs) = 0 THEN mlast[k] ELSE rs[Len(rs)][2]]
     IN
     /\ nviol' = nviol + Soft("Harness", Line.ok /\ Line.inflight = 0, "updates in flight could not be driven to completion")
                       + (IF Line.ok /\ Line.inflight = 0 THEN QuiescentChecks(Line.cs, Line.ct, FALSE, 1) ELSE 0)
     /\ mlast' = newlast
     /\ (Line.ok /\ SizeOK(Line.cs) /\ SizeOK(Line.ct)) =>
           /\ Note("AdapterStale", newlast["state"] \in {"none", Line.cs[Root]}, <<"state", newlast["state"], Line.cs[Root]>>)
           /\ Note("AdapterStale", newlast["status"] \in {"none", Line.ct[Root]}, <<"status", newlast["status"], Line.ct[Root]>>)
  /\ IF mode = "ok" /\ Quiescent /\ ~(Line.ok /\ Line.inflight = 0 /\ Line.cs = cS /\ Line.ct = cT /\ Line.recv = <<>>)
       THEN PrintT(<<"DRIFT", scn, l, "Settle">>) ELSE TRUE
  /\ mode' = "lost"
  /\ l' = l + 1 /\ UNCHANGED <<vars, scn, mkind, mcar, msrc, mbad, mpc, mat, movr, mnop>>

\* a new run: the model starts from RoleTree!Init for the recorded shape
TReset ==
  /\ l <= Len(Trace) /\ Line.ev = "Reset"
  /\ LET s == IF Line.shape \in DOMAIN Shapes THEN Line.shape ELSE "S01" IN
       /\ shape' = s
       /\ cS' = [n \in 1..Len(Shapes[s].parent) |-> InitState(s, n)]
       /\ cT' = [n \in 1..Len(Shapes[s].parent) |-> "INACTIVE"]
  /\ thr' = [t \in Threads |-> Idle]
  /\ last' = [state |-> "none", status |-> "none"]
  /\ episodes' = 0
  /\ scn' = Line.scn
  /\ IF Line.mode = "sched" /\ Line.loaded /\ Line.shape \in DOMAIN Shapes
       THEN mode' = "ok"
       ELSE /\ mode' = "lost"
            /\ IF Line.mode = "algebra" \/ (Line.mode = "free" /\ Line.loaded /\ Line.shape \in DOMAIN Shapes)
                 THEN TRUE
                 ELSE PrintT(<<"DRIFT", Line.scn, l, "Reset: tree not loaded or unknown shape">>)
  /\ mkind' = [t \in TIds |-> "-"] /\ mcar' = [t \in TIds |-> "-"] /\ msrc' = [t \in TIds |-> 0]
  /\ mbad' = FALSE /\ mlast' = [state |-> "none", status |-> "none"]
  /\ mpc' = [t \in TIds |-> "idle"] /\ mat' = [t \in TIds |-> 0] /\ movr' = FALSE /\ mnop' = FALSE
  /\ lock' = [k \in {"state", "status"} |->
               [n \in 1..Len(Shapes[IF Line.shape \in DOMAIN Shapes THEN Line.shape ELSE "S01"].parent) |-> 0]]
  /\ l' = l + 1 /\ UNCHANGED nviol

\* the tree as the real code sees it after loading, and its initial caches
StructureOK ==
  /\ Len(Line.par) = N /\ Len(Line.kinds) = N /\ Len(Line.crit) = N
  /\ \A n \in Nodes : /\ Line.par[n] = Tree.parent[n]
                      /\ Line.kinds[n] = Tree.kind[n]
                      /\ IsLeaf(n) => Line.crit[n] = Tree.crit[n]
TLoaded ==
  /\ l <= Len(Trace) /\ Line.ev = "Loaded"
  /\ IF StructureOK /\ (mode = "ok" => (Line.cs = cS /\ Line.ct = cT))
       THEN UNCHANGED mode
       ELSE PrintT(<<"DRIFT", scn, l, "Loaded: structure or initial caches differ from the model">>) /\ mode' = "lost"
  /\ nviol' = nviol + (IF StructureOK THEN QuiescentChecks(Line.cs, Line.ct, FALSE, 1) ELSE 0)
  /\ l' = l + 1 /\ UNCHANGED <<vars, scn, mkind, mcar, msrc, mbad, mpc, mat, movr, mnop, mlast>>

\* end of a free-running run
TFreeEnd ==
  /\ l <= Len(Trace) /\ Line.ev = "FreeEnd"
  /\ nviol' = nviol
       + Soft("Harness", Line.ok, "free run did not finish")
       + (IF SizeOK(Line.cs) /\ Len(Line.told) = N /\ Len(Line.toldt) = N
            THEN Soft("LeafStores",
                      \A n \in Nodes : /\ Line.told[n] # "" => Line.cs[n] = Line.told[n]
                                       /\ Line.toldt[n] # "" => Line.ct[n] = Line.toldt[n],
                      <<"free", Line.cs, Line.told, Line.ct, Line.toldt>>)
            ELSE 0)
       + QuiescentChecks(Line.cs, Line.ct, TRUE, Line.nthreads)
  /\ (SizeOK(Line.cs) /\ SizeOK(Line.ct)) =>
        /\ Note("AdapterStale", Line.lasts \in {"none", Line.cs[Root]}, <<"state", Line.lasts, Line.cs[Root]>>)
        /\ Note("AdapterStale", Line.lastt \in {"none", Line.ct[Root]}, <<"status", Line.lastt, Line.ct[Root]>>)
  /\ l' = l + 1 /\ UNCHANGED <<vars, mode, scn, mkind, mcar, msrc, mbad, mpc, mat, movr, mnop, mlast>>

\* the real product tables, pair by pair
TProd ==
  /\ l <= Len(Trace) /\ Line.ev \in {"ProdS", "ProdT"}
  /\ nviol' = nviol
       + Soft("ProductTable",
              IF Line.ev = "ProdS" THEN XS(Line.a, Line.b) = Line.r ELSE XT(Line.a, Line.b) = Line.r,
              <<Line.ev, Line.a, Line.b, Line.r>>)
  /\ l' = l + 1 /\ UNCHANGED <<vars, mode, scn, mkind, mcar, msrc, mbad, mpc, mat, movr, mnop, mlast>>

TraceInit ==
  /\ Init
  /\ l = 1 /\ mode = "lost" /\ scn = -1 /\ nviol = 0
  /\ mkind = [t \in TIds |-> "-"] /\ mcar = [t \in TIds |-> "-"] /\ msrc = [t \in TIds |-> 0]
  /\ mbad = FALSE /\ mlast = [state |-> "none", status |-> "none"]
  /\ mpc = [t \in TIds |-> "idle"] /\ mat = [t \in TIds |-> 0] /\ movr = FALSE /\ mnop = FALSE

TraceNext == TStepOk \/ TStepDrift \/ TStepLost \/ TReset \/ TLoaded \/ TFreeEnd \/ TProd \/ TAbandon \/ TSettle

TraceSpec == TraceInit /\ [][TraceNext]_allvars

Done == l = Len(Trace) + 1
PrintEnd == Done => PrintT(<<"END", Len(Trace), nviol>>)
=============================================================================
