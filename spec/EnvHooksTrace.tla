--------------------------- MODULE EnvHooksTrace ---------------------------
(***************************************************************************)
(* Trace specification for C08 / C09 / C10 over runs of the real core       *)
(* (coresim), projected by lib/props/envhooks_common.py to:                 *)
(*  Reset{scn, model: {hooks: [{id, tm, tw, am, aw, crit, fails}],           *)
(*                     pred: [{ev, ok, st}]}}   (pred = EnvHooks' prediction)*)
(*  Acq{what, st} Rel{what, st}          transition lock sections            *)
(*  Step{tx, m, k, phase: start|end, err, named}  published step events      *)
(*  HS{hook, m, w, rn, sosor, eosor, soeor, eoeor} a probe hook starts       *)
(*     (run values as the hook sees them; timestamps rank-compressed)        *)
(*  HE{hook, ok}                          the hook's call returns            *)
(*  Cmd{tx}                               a task command of transition tx    *)
(*  Run{rn, tx, status}                   published run events               *)
(*  Reply{op, code, st, rn, named}        ControlEnvironment replies         *)
(* Monitor (soft invariants named after the properties) + strict            *)
(* comparison of each reply with the model's prediction.                    *)
(***************************************************************************)
EXTENDS Integers, Sequences, FiniteSets, TLC, Json, IOUtils

Trace == ndJsonDeserialize(IOEnv.TRACE_FILE)

VARIABLES l, scn, hooks, pred, reqi, tx, acq, step, lastw, pendA, pendN, failedH, okH, open, cancelled, cmds, laterStart, lateErr, sawAfter,
          inWin, winStarted, outStarted, run, runView, seen, pg, ended, endS, endC, rnZ, nviol

vars == <<l, scn, hooks, pred, reqi, tx, acq, step, lastw, pendA, pendN, failedH, okH, open, cancelled, cmds, laterStart, lateErr, sawAfter, inWin, winStarted, outStarted, run, runView, seen, pg, ended, endS, endC, rnZ, nviol>>

Line == Trace[l]
Soft(name, cond, detail) == IF cond THEN 0 ELSE IF PrintT(<<"VIOL", name, scn, l, detail>>) THEN 1 ELSE 1
Drift(cond, detail) == IF cond THEN 0 ELSE IF PrintT(<<"DRIFT", scn, l, detail>>) THEN 0 ELSE 0

HookIds == {hooks[i].id : i \in 1..Len(hooks)}
HK(h) == CHOOSE r \in {hooks[i] : i \in 1..Len(hooks)} : r.id = h
Dst(op) == CASE op = "START_ACTIVITY" -> "RUNNING" [] op = "STOP_ACTIVITY" -> "CONFIGURED" [] op = "RESET" -> "DEPLOYED"
             [] op = "CONFIGURE" -> "CONFIGURED" [] op = "GO_ERROR" -> "ERROR" [] OTHER -> ""
\* cf: a failed critical call was collected in this step; st: hooks started in this step; fw: weights of this step at which the
\* failure of a critical hook was collected
NoStep == [m |-> "", k |-> "", tx |-> "", cf |-> FALSE, st |-> {}, fw |-> {}]
NoView == [rn |-> 0, sosor |-> 0]
NoSeen == [sosor |-> 0, eosor |-> 0, soeor |-> 0, eoeor |-> 0]

Init ==
  /\ l = 1 /\ scn = -1 /\ hooks = <<>> /\ pred = <<>> /\ reqi = 0 /\ tx = "" /\ acq = "" /\ step = NoStep /\ lastw = -100000
  /\ open = {} /\ pendA = {} /\ pendN = <<>> /\ failedH = {} /\ okH = {} /\ cancelled = FALSE /\ cmds = 0 /\ laterStart = FALSE /\ lateErr = FALSE /\ sawAfter = FALSE
  /\ inWin = FALSE /\ winStarted = {} /\ outStarted = {}
  /\ run = 0 /\ runView = NoView /\ seen = NoSeen /\ pg = {} /\ ended = TRUE /\ endS = 0 /\ endC = 0 /\ rnZ = FALSE /\ nviol = 0

TReset ==
  /\ Line.ev = "Reset"
  /\ scn' = Line.scn /\ hooks' = Line.model.hooks /\ pred' = Line.model.pred /\ reqi' = 0 /\ tx' = "" /\ acq' = ""
  /\ step' = NoStep /\ lastw' = -100000 /\ open' = {} /\ pendA' = {} /\ pendN' = <<>> /\ failedH' = {} /\ okH' = {} /\ cancelled' = FALSE /\ cmds' = 0 /\ laterStart' = FALSE /\ lateErr' = FALSE /\ sawAfter' = FALSE
  /\ inWin' = FALSE /\ winStarted' = {} /\ outStarted' = {}
  /\ run' = 0 /\ runView' = NoView /\ seen' = NoSeen /\ pg' = {} /\ ended' = TRUE /\ endS' = 0 /\ endC' = 0 /\ rnZ' = FALSE
  /\ UNCHANGED nviol

TAcq ==
  /\ Line.ev = "Acq"
  /\ tx' = Line.what /\ acq' = Line.st /\ cancelled' = FALSE /\ cmds' = 0 /\ laterStart' = FALSE /\ lateErr' = FALSE /\ sawAfter' = FALSE
  /\ UNCHANGED <<scn, hooks, pred, reqi, step, lastw, pendA, pendN, failedH, okH, open, inWin, winStarted, outStarted, run, runView, seen, pg, ended, endS, endC, rnZ, nviol>>

\* end of a transition: the C09 clauses about what a failure at each moment means
TRel ==
  /\ Line.ev = "Rel"
  /\ nviol' = nviol
       + Soft("CancelBefore", cancelled => (Line.st = acq /\ cmds = 0 /\ ~laterStart), <<tx, acq, Line.st, cmds, laterStart>>)
       \* C09: a failure at enter_/after_ keeps the destination state and the remaining moments still run
       + Soft("KeepAfter", lateErr => (Line.st = Dst(tx) /\ sawAfter), <<tx, Line.st, sawAfter>>)
       \* C10: a hook outside the run window saw a run number that no SOSOR of this transition explains
       + Soft("Gone", pg = {}, pg)
  /\ pg' = {}
  /\ tx' = "" /\ acq' = "" /\ cancelled' = FALSE /\ cmds' = 0 /\ laterStart' = FALSE /\ lateErr' = FALSE /\ sawAfter' = FALSE
  /\ UNCHANGED <<scn, hooks, pred, reqi, step, lastw, pendA, pendN, failedH, okH, open, inWin, winStarted, outStarted, run, runView, seen, ended, endS, endC, rnZ>>

\* started and not yet collected instances per hook (a hook may be started again before it was collected)
Cnt(f, h) == IF h \in DOMAIN f THEN f[h] ELSE 0
Occ(seq, h) == Cardinality({i \in 1..Len(seq) : seq[i] = h})
AddN(f, seq) == [h \in DOMAIN f \cup {seq[i] : i \in 1..Len(seq)} |-> Cnt(f, h) + Occ(seq, h)]
SubN(f, seq) == [h \in DOMAIN f \cup {seq[i] : i \in 1..Len(seq)} |-> IF Cnt(f, h) > Occ(seq, h) THEN Cnt(f, h) - Occ(seq, h) ELSE 0]

Sgn(w) == IF w < 0 THEN -1 ELSE 1
Skipped(w, k) == \E f \in step.fw : f < w /\ (k \in {"before", "leave"} \/ Sgn(f) = Sgn(w))

AwaitHere(h, m) == HK(h).am = m /\ (HK(h).tm # m \/ HK(h).aw >= HK(h).tw)

TStep ==
  /\ Line.ev = "Step"
  /\ IF Line.phase = "start"
       THEN /\ step' = [m |-> Line.m, k |-> Line.k, tx |-> Line.tx, cf |-> FALSE, st |-> {}, fw |-> {}] /\ lastw' = -100000
            /\ laterStart' = (laterStart \/ cancelled)
            /\ sawAfter' = (sawAfter \/ Line.k = "after")
            /\ nviol' = nviol
            /\ UNCHANGED <<cancelled, lateErr>>
       ELSE /\ step' = NoStep /\ lastw' = -100000
            /\ cancelled' = (cancelled \/ (Line.err /\ Line.k \in {"before", "leave"}))
            /\ lateErr' = (lateErr \/ (Line.err /\ Line.k = "enter"))
            /\ UNCHANGED <<laterStart, sawAfter>>
            /\ nviol' = nviol
                 \* C08 Barrier: the moment ends and a call awaited in it has not returned
                 \* (a weight is legitimately not reached after the failure of a critical hook at an earlier weight: in a
                 \*  before_/leave_ moment the transition is cancelled there; in an enter_/after_ moment only the rest of
                 \*  that pass - weights of the same sign - is given up, the other pass still runs)
                 + Soft("Barrier", \A h \in pendA : AwaitHere(h, Line.m) => Skipped(HK(h).aw, Line.k), <<Line.m, pendA, step.fw>>)
                 \* C08: every hook declared at this moment was started, unless its weight was legitimately not reached
                 + Soft("AtTrigger", step.m = Line.m =>
                            \A h \in HookIds : (HK(h).tm = Line.m /\ step.tx = Line.tx) => (h \in step.st \/ Skipped(HK(h).tw, Line.k)),
                        <<Line.m, "not started", {h \in HookIds : HK(h).tm = Line.m} \ step.st, step.fw>>)
                 \* C09: a critical hook that was started, has failed and is awaited in this moment makes the moment fail
                 + Soft("CriticalFailureReported",
                        (\E h \in failedH : HK(h).crit /\ AwaitHere(h, Line.m) /\ Line.tx = tx) => Line.err,
                        <<Line.m, failedH>>)
                 \* ... at whatever weight it was collected: the moment's error is the union of what its passes reported
                 + Soft("CriticalFailureReported", (step.cf /\ step.m = Line.m) => Line.err, <<Line.m, "collected failure dropped">>)
                 \* C09: the reported error names critical hooks only
                 + Soft("NonCriticalSilent", \A i \in 1..Len(Line.named) : Line.named[i] \in HookIds => HK(Line.named[i]).crit,
                        <<Line.m, Line.named>>)
                 \* C09: a failure at enter_/after_ does not stop the remaining moments (checked at the reply) and at
                 \* before_/leave_ it is a cancellation: an error there must come from a failing critical hook awaited there
                 + Soft("OnlyCriticalFailuresAffect",
                        (Line.err /\ Line.k # "tasks") =>
                           \E h \in HookIds : HK(h).crit /\ HK(h).fails /\ (Line.k \in {"enter", "after"} \/ HK(h).am = Line.m),
                        <<Line.m, Line.k>>)
  \* (StartActivityTransition.do gives the number back when the tasks could not be started: the GO_ERROR that follows reports 0)
  /\ rnZ' = (rnZ \/ (Line.phase = "end" /\ Line.k = "tasks" /\ Line.tx = "START_ACTIVITY" /\ Line.err))
  /\ inWin' = IF Line.phase = "end" /\ Line.m = "after_STOP_ACTIVITY" THEN FALSE ELSE inWin
  /\ winStarted' = IF Line.phase = "end" /\ Line.m = "after_STOP_ACTIVITY" THEN {} ELSE winStarted
  /\ UNCHANGED <<scn, hooks, pred, reqi, tx, acq, pendA, pendN, failedH, okH, open, cmds, outStarted, run, runView, seen, pg, ended, endS, endC>>

\* a probe hook starts: where, in which order, and what it sees of the run
THS ==
  /\ Line.ev = "HS"
  /\ open' = open \cup {Line.hook}
  \* A call reads its variables asynchronously, some time between its trigger (HStart line) and this line.
  \* It is judged only when both lie on the same side of the run window [SOSOR, end of after_STOP_ACTIVITY].
  \* (a call started in the last moment of the window and awaited only later - or never - reads them while the core goes on
  \*  to the end of that moment, where the run number is dropped: it is not judged as "inside")
  /\ LET lastMoment == Line.hook \in HookIds /\ HK(Line.hook).tm = "after_STOP_ACTIVITY" /\ HK(Line.hook).am # "after_STOP_ACTIVITY"
         inside == inWin /\ Line.hook \in winStarted /\ ~lastMoment
         outside == ~inWin /\ Line.hook \in outStarted
         SameRun == Line.sosor # 0 /\ (seen.sosor = 0 \/ seen.sosor = Line.sosor)
     IN
     /\ runView' = IF inside /\ runView.rn = 0 THEN [rn |-> Line.rn, sosor |-> Line.sosor] ELSE runView
     \* what the hooks of one run (same start time) have seen of its four stamps so far
     /\ pg' = IF outside /\ Line.rn # 0 THEN pg \cup {<<Line.hook, Line.rn>>} ELSE pg
     /\ seen' = IF SameRun THEN [f \in DOMAIN NoSeen |-> IF seen[f] = 0 THEN Line[f] ELSE seen[f]] ELSE seen
     /\ nviol' = nviol
          \* C10: each stamp is set at most once per run: two hooks of one run never see two different values of a stamp
          + Soft("SetOnce", SameRun => \A f \in DOMAIN NoSeen : (seen[f] # 0 /\ Line[f] # 0) => Line[f] = seen[f],
                 <<Line.hook, seen, Line.sosor, Line.eosor, Line.soeor, Line.eoeor>>)
          \* C10: between SOSOR and the end of after_STOP_ACTIVITY every hook sees this run's number and start time
          + Soft("SetBetween", inside => (Line.rn = run /\ Line.sosor # 0), <<Line.hook, Line.rn, run, Line.sosor>>)
          \* C10: the completion stamps are set between the negative and the non-negative after_ hooks - whatever the negative
          \* ones (or the enter_ hooks before them) reported
          + Soft("SetBetween", (Line.m = "after_STOP_ACTIVITY" /\ Line.w >= 0 /\ tx = "STOP_ACTIVITY") => (Line.soeor # 0 /\ Line.eoeor # 0),
                 <<Line.hook, "end stamps at after_STOP_ACTIVITY+", Line.soeor, Line.eoeor>>)
          + Soft("SetBetween", (Line.m = "after_START_ACTIVITY" /\ Line.w >= 0 /\ tx = "START_ACTIVITY") => Line.eosor # 0,
                 <<Line.hook, "start completion at after_START_ACTIVITY+", Line.eosor>>)
          + Soft("Stable", (inside /\ runView.rn # 0) => (Line.rn = runView.rn /\ Line.sosor = runView.sosor), <<Line.hook, Line.rn, Line.sosor, runView>>)
          \* C10: before SOSOR / after the end of after_STOP_ACTIVITY no run number is visible
          \* (a call reads its variables a little after it was started: a hook started just before SOSOR may already see the
          \* number of the run that is being opened; such a claim is discharged by that run's SOSOR event, else it is
          \* judged at the end of the transition - see TRun / TRel)
          + Soft("Gone", TRUE, <<>>)
          \* C10: the four stamps are ordered where set (a stamp of a previous run would precede this run's SOSOR)
          + Soft("StampOrder", /\ (Line.eosor # 0 => Line.sosor # 0 /\ Line.sosor <= Line.eosor)
                               /\ (Line.soeor # 0 => Line.sosor # 0 /\ Line.sosor <= Line.soeor)
                               /\ (Line.soeor # 0 /\ Line.eosor # 0 => Line.eosor <= Line.soeor)
                               /\ (Line.eoeor # 0 => Line.soeor # 0 /\ Line.soeor <= Line.eoeor),
                 <<Line.hook, Line.sosor, Line.eosor, Line.soeor, Line.eoeor>>)
  /\ UNCHANGED <<scn, hooks, pred, reqi, tx, acq, step, lastw, pendA, pendN, failedH, okH, cancelled, cmds, laterStart, lateErr, sawAfter, inWin, winStarted, outStarted, run, ended, endS, endC, rnZ>>

\* handleHooks starts the calls triggered at (moment, weight)   [hook point env.hooks.start]
THStart ==
  /\ Line.ev = "HStart"
  /\ LET C == {Line.calls[i] : i \in 1..Len(Line.calls)} \cap HookIds IN
     /\ pendA' = pendA \cup C
     /\ pendN' = AddN(pendN, Line.calls)
     /\ step' = [step EXCEPT !.st = @ \cup C]
     \* (within one weight the calls are started first, then the calls due there are awaited, then the hook tasks run:
     \*  key = 3*weight + 0 | 1 | 2)
     /\ lastw' = 3 * Line.w + (IF Line.kind = "tasks" THEN 2 ELSE 0)
     /\ winStarted' = IF inWin THEN winStarted \cup C ELSE winStarted \ C
     /\ outStarted' = IF inWin THEN outStarted \ C ELSE outStarted \cup C
     /\ nviol' = nviol
          \* (TeardownEnvironment runs the leave_<state> hooks itself, outside of a transition step)
          + Soft("AtTrigger", (step.m = Line.m \/ tx = "DESTROY") /\ \A c \in C : HK(c).tm = Line.m /\ HK(c).tw = Line.w, <<Line.m, Line.w, C, step.m>>)
          + Soft("Ordered", 3 * Line.w + (IF Line.kind = "tasks" THEN 2 ELSE 0) > lastw, <<Line.m, Line.w, Line.kind, lastw>>)
          \* C09: after a critical failure at before_/leave_ no later hook of that transition is started
          + Soft("CancelBefore", ~cancelled, <<Line.m, Line.w, C>>)
  /\ UNCHANGED <<scn, hooks, pred, reqi, tx, acq, failedH, okH, open, cancelled, cmds, laterStart, lateErr, sawAfter, inWin, run, runView, seen, pg, ended, endS, endC, rnZ>>

\* handleHooks has awaited the calls due at (moment, weight)   [hook point env.hooks.awaited]
THAwaited ==
  /\ Line.ev = "HAwaited"
  /\ LET C == {Line.calls[i] : i \in 1..Len(Line.calls)} \cap HookIds IN
     /\ pendA' = pendA \ C
     /\ pendN' = SubN(pendN, Line.calls)
     /\ failedH' = failedH \ C
     /\ okH' = okH \ C
     /\ lastw' = 3 * Line.w + (IF Line.kind = "tasks" THEN 2 ELSE 1)
     /\ cancelled' = (cancelled \/ (step.k \in {"before", "leave"} /\ \E c \in C : HK(c).crit /\ HK(c).fails /\ (HK(c).once => c \in failedH)))
     /\ step' = [step EXCEPT !.cf = @ \/ (step.m = Line.m /\ \E c \in C \cap failedH : HK(c).crit),
                             \* (a hook TASK that never ends has no end event: its failure is the core's timeout, counted in Line.errors)
                             !.fw = IF \E c \in C : HK(c).crit /\ (c \in failedH \/ (Line.kind = "tasks" /\ HK(c).fails /\ Line.errors > 0))
                                      THEN @ \cup {Line.w} ELSE @]
     /\ nviol' = nviol
          \* collected at the declared await point, and only calls that were started and not collected before
          + Soft("Barrier", \A c \in C : HK(c).am = Line.m /\ HK(c).aw = Line.w, <<Line.m, Line.w, C>>)
          \* C08: the await points of a moment are passed in weight order too: nothing of a later weight was started before
          + Soft("Ordered", IF Line.kind = "tasks" THEN 3 * Line.w + 2 >= lastw ELSE 3 * Line.w + 1 > lastw, <<Line.m, Line.w, "await", lastw>>)
          + Soft("OnceOrCancelled", C \subseteq pendA, <<C, pendA>>)
          \* ... exactly once: no more instances of a hook are collected here than were started and not collected before
          + Soft("OnceOrCancelled", \A c \in C : Occ(Line.calls, c) <= Cnt(pendN, c), <<"collected again", Line.calls, pendN>>)
          \* C08: collecting a call means taking its result: every awaited call that has failed counts as an error here
          + Soft("OnceOrCancelled", Line.errors >= Cardinality(C \cap failedH), <<"result dropped", C \cap failedH, Line.errors>>)
          \* ... and a hook that has ended well before it was collected is not an error (its result is what is collected)
          \* (counted with multiplicity: a hook started in two attempts of one event is collected twice at its await point)
          + Soft("OnceOrCancelled", Line.errors <= Cardinality({i \in 1..Len(Line.calls) : Line.calls[i] \notin okH}),
                 <<"good result replaced by an error", C \cap okH, Line.errors>>)
          \* C09 (and C08: the call's result is collected, not dropped): the failure of a critical call that was
          \* started and has failed is reported where the call is awaited
          + Soft("CriticalFailureReported", (\E c \in C \cap failedH : HK(c).crit) => Line.errors > 0, <<Line.m, C \cap failedH, Line.errors>>)
  /\ UNCHANGED <<scn, hooks, pred, reqi, tx, acq, open, cmds, laterStart, lateErr, sawAfter, inWin, winStarted, outStarted, run, runView, seen, pg, ended, endS, endC, rnZ>>

THE ==
  /\ Line.ev = "HE"
  /\ open' = open \ {Line.hook}
  /\ failedH' = IF Line.ok THEN failedH ELSE failedH \cup ({Line.hook} \cap pendA)   \* failed and not yet collected
  /\ okH' = IF Line.ok THEN okH \cup ({Line.hook} \cap pendA) ELSE okH
  /\ UNCHANGED <<scn, hooks, pred, reqi, tx, acq, step, lastw, pendA, pendN, cancelled, cmds, laterStart, lateErr, sawAfter, inWin, winStarted, outStarted, run, runView, seen, pg, ended, endS, endC, rnZ, nviol>>

TCmd ==
  /\ Line.ev = "Cmd"
  /\ cmds' = IF Line.tx = tx THEN cmds + 1 ELSE cmds
  \* C10: values of a previous run are never visible in the next: after the START command a task holds no end-of-run time
  /\ nviol' = nviol + Soft("NoLeak", (Line.tx = "START_ACTIVITY") => ~Line.held, <<Line.tx, "task still holds run_end_time_ms of the previous run">>)
  /\ UNCHANGED <<scn, hooks, pred, reqi, tx, acq, step, lastw, pendA, pendN, failedH, okH, open, cancelled, laterStart, lateErr, sawAfter, inWin, winStarted, outStarted, run, runView, seen, pg, ended, endS, endC, rnZ>>

\* published run events: SOSOR (START STARTED) opens a run; the end-of-run pair must occur exactly once per run
TRun ==
  /\ Line.ev = "Run"
  /\ LET isStart == Line.tx = "START_ACTIVITY" /\ Line.status = "STARTED"
         isEndS == Line.tx \in {"STOP_ACTIVITY", "GO_ERROR"} /\ Line.status = "STARTED"
         isEndC == Line.tx \in {"STOP_ACTIVITY", "GO_ERROR"} /\ Line.status \in {"DONE_OK", "DONE_ERROR"}
         isTd == Line.tx = "TEARDOWN"
         \* after_START_ACTIVITY was reached: the environment is RUNNING, the run really began
         isStartDone == Line.tx = "START_ACTIVITY" /\ Line.status \in {"DONE_OK", "DONE_ERROR"}
     IN /\ inWin' = (inWin \/ isStart)
        /\ winStarted' = IF isStart THEN {} ELSE winStarted
        /\ outStarted' = IF isStart THEN {} ELSE outStarted
        /\ run' = IF isStart THEN Line.rn ELSE run
        /\ runView' = IF isStart THEN NoView ELSE runView
        /\ seen' = IF isStart THEN NoSeen ELSE seen
        /\ pg' = IF isStart THEN {c \in pg : c[2] # Line.rn} ELSE pg
        \* "ended" = no run is open.  A run is open from its SOSOR event (number drawn, start time set and published) - also
        \* when the START that opened it fails afterwards (critical hook at weight >= 0, failing task transition): "however
        \* the run ends"
        /\ ended' = IF isStart THEN FALSE ELSE ended
        /\ endS' = IF isStart THEN 0 ELSE IF isEndS \/ (isTd /\ endS = 0) THEN endS + 1 ELSE endS
        /\ endC' = IF isStart THEN 0 ELSE IF isEndC \/ (isTd /\ endS # 0) THEN endC + 1 ELSE endC
        /\ rnZ' = IF isStart THEN FALSE ELSE rnZ
        /\ nviol' = nviol
             \* C10: the number stays with the run until its end is recorded: the end-of-run events name it (0 only after a
             \* START whose task step failed)
             + Soft("Stable", ((isEndS \/ isEndC) /\ Line.rn = 0 /\ run # 0) => rnZ, <<Line.tx, Line.status, "run number 0 in the end-of-run event of run", run>>)
             \* (a START cancelled before the environment was RUNNING is not a run whose end must be recorded)
             + Soft("EndExactlyOnce", isStart => (run = 0 \/ ended \/ (endS = 1 /\ endC = 1)), <<run, endS, endC>>)
             + Soft("EndExactlyOnce", ((isEndS \/ isEndC \/ isTd) /\ Line.rn # 0) => Line.rn = run, <<Line.tx, Line.rn, run>>)
             \* an end of run is recorded only for a run that was opened (SOSOR published)
             + Soft("EndExactlyOnce", (isEndS \/ isEndC) => run # 0, <<Line.tx, Line.status, "end-of-run record without a run">>)
  /\ UNCHANGED <<scn, hooks, pred, reqi, tx, acq, step, lastw, pendA, pendN, failedH, okH, open, cancelled, cmds, laterStart, lateErr, sawAfter>>

\* a ControlEnvironment reply: compared with the model's prediction; the run is over after a successful STOP,
\* a failed START or any transition that ended in ERROR
TReply ==
  /\ Line.ev = "Reply"
  /\ reqi' = reqi + 1
  /\ LET i == reqi + 1
         p == IF i <= Len(pred) THEN pred[i] ELSE [ev |-> "", ok |-> FALSE, st |-> ""]
         ok == Line.code = "OK" /\ Line.st = Dst(Line.op)
         over == Line.op = "STOP_ACTIVITY" /\ ok
     IN /\ UNCHANGED ended
        /\ nviol' = nviol
             + Drift(i <= Len(pred) /\ p.ev = Line.op /\ p.ok = ok /\ (p.ok => p.st = Line.st), <<i, p, Line.op, Line.code, Line.st>>)
             \* C09: failures of non-critical hooks are never reported as transition errors
             + Soft("NonCriticalSilent", \A k \in 1..Len(Line.named) : Line.named[k] \in HookIds => HK(Line.named[k]).crit, Line.named)
             \* C10: the run number is gone after a successful STOP and reported while RUNNING
             + Soft("Gone", over => Line.rn = 0, <<Line.op, Line.st, Line.rn>>)
             + Soft("SetBetween", (Line.code = "OK" /\ Line.st = "RUNNING") => Line.rn = run, <<Line.op, Line.rn, run>>)
  /\ UNCHANGED <<scn, hooks, pred, tx, acq, step, lastw, pendA, pendN, failedH, okH, open, cancelled, cmds, laterStart, lateErr, sawAfter, inWin, winStarted, outStarted, run, runView, seen, pg, endS, endC, rnZ>>

\* end of a scenario: every run that was started has been ended exactly once
TEnd ==
  /\ Line.ev = "End"
  /\ nviol' = nviol + Soft("EndExactlyOnce", run = 0 \/ ended \/ (endS = 1 /\ endC = 1), <<run, endS, endC>>)
  /\ UNCHANGED <<scn, hooks, pred, reqi, tx, acq, step, lastw, pendA, pendN, failedH, okH, open, cancelled, cmds, laterStart, lateErr, sawAfter, inWin, winStarted, outStarted, run, runView, seen, pg, ended, endS, endC, rnZ>>

\* after the teardown: no started call is left waiting to hand over its result (each was collected, or cancelled at teardown)
TPending ==
  /\ Line.ev = "Pending"
  /\ nviol' = nviol + Soft("OnceOrCancelled", Line.n = 0, <<"calls still pending after teardown", Line.n>>)
  /\ UNCHANGED <<scn, hooks, pred, reqi, tx, acq, step, lastw, pendA, pendN, failedH, okH, open, cancelled, cmds, laterStart, lateErr, sawAfter, inWin, winStarted, outStarted, run, runView, seen, pg, ended, endS, endC, rnZ>>

\* the scenario waited, while one call of a (moment, weight) was held at its gate, for its companion of the same (moment,
\* weight) to begin executing: hooks started together do not wait for each other
THookSeen ==
  /\ Line.ev = "HookSeen"
  /\ nviol' = nviol + Soft("AtTrigger", Line.ok, <<Line.hook, "not started while the call started together with it was in flight">>)
  /\ UNCHANGED <<scn, hooks, pred, reqi, tx, acq, step, lastw, pendA, pendN, failedH, okH, open, cancelled, cmds, laterStart, lateErr, sawAfter, inWin, winStarted, outStarted, run, runView, seen, pg, ended, endS, endC, rnZ>>

TOther ==
  /\ Line.ev \notin {"Reset", "Acq", "Rel", "Step", "HS", "HStart", "HAwaited", "HE", "Cmd", "Run", "Reply", "End", "Pending", "HookSeen"}
  /\ UNCHANGED <<scn, hooks, pred, reqi, tx, acq, step, lastw, pendA, pendN, failedH, okH, open, cancelled, cmds, laterStart, lateErr, sawAfter, inWin, winStarted, outStarted, run, runView, seen, pg, ended, endS, endC, rnZ, nviol>>

TraceNext ==
  /\ l <= Len(Trace)
  /\ (TReset \/ TAcq \/ TRel \/ TStep \/ THS \/ THStart \/ THAwaited \/ THE \/ TCmd \/ TRun \/ TReply \/ TEnd \/ TPending \/ THookSeen \/ TOther)
  /\ l' = l + 1

TraceSpec == Init /\ [][TraceNext]_vars
PrintEnd == (l = Len(Trace) + 1) => PrintT(<<"END", Len(Trace), nviol>>)
=============================================================================
