------------------------------ MODULE OdcRunGen -----------------------------
(* Scenario generator for OdcRun (X07): every action of the model is something the harness can impose on the real plugin       *)
(* (harness/cmd/odcrun parks every request in the fake ODC server and lets it take effect with the scripted outcome; device      *)
(* crashes, the poller's Status snapshot and the moment its GetState answers arrive are steps of the scenario).  A behaviour     *)
(* (tlc -simulate) is a scenario.  The guards only shape the random walk: faults, crashes, errors and cleanups are thinned out   *)
(* so that complete lifecycles occur as well.                                                                                    *)
EXTENDS OdcRun
Lv == TLCGet("level")
Gate(f) == f = "none" \/ Lv >= 5 * (nf + 1)
G_HookCall(e, fn, f, c) == /\ Gate(f)
                           /\ (fn \in Cleanups => (Lv % 5 = 0 \/ ph[e] = "err"))
                           /\ (fn = "PartitionTerminate" /\ ph[e] = "new" => Lv % 6 = 0)
                           /\ HookCall(e, fn, f, c)
G_NextCall(e, f, c) == Gate(f) /\ NextCall(e, f, c)
G_CleanShutdown(e, p, f, c) == Gate(f) /\ CleanShutdown(e, p, f, c)
G_NewRun(e) == NewRun(e)
G_GoError(e) == Lv % 7 = 0 /\ GoError(e)
G_Destroy(e) == Destroy(e)
G_Fail(p) == Lv % 5 = 1 /\ Fail(p)
G_PollQuery(f) == (Lv % 3 = 0 \/ f = "none") /\ Gate(f) /\ (Listing # None \/ cache.st # None) /\ PollQuery(f)
G_PollStore == PollStore
GenNext ==
  \/ \E e \in Envs :
       \/ \E fn \in Fns, f \in Fs, c \in {"go", "err"} : G_HookCall(e, fn, f, c)
       \/ \E f \in Fs, c \in {"go", "err"} : G_NextCall(e, f, c) \/ (\E p \in Envs : G_CleanShutdown(e, p, f, c))
       \/ G_NewRun(e) \/ G_GoError(e) \/ G_Destroy(e) \/ G_Fail(e)
  \/ (\E f \in {"none", "err"} : G_PollQuery(f)) \/ G_PollStore
GenSpec == Init /\ [][GenNext]_vars
=============================================================================
