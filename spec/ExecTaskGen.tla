---------------------------- MODULE ExecTaskGen ----------------------------
(***************************************************************************)
(* Scenario generator for ExecTask: TLC enumerates EXHAUSTIVELY             *)
(*   kind x child behaviour x (request, instant) x (second request,         *)
(*   instant, how close to the first)                                       *)
(* and, for each such plan, the behaviour of the model in which the         *)
(* environment (the driver of the real code) issues its requests exactly at *)
(* the planned instants and otherwise lets the executor run: steps the      *)
(* executor takes on its own are given priority over the next request,      *)
(* except the one step a planned instant is meant to race with (the RUNNING *)
(* timer for "launching", the reaper for "exiting", the rest of a Kill for  *)
(* "now" / "mid").  The history of model actions is a variable, so every    *)
(* behaviour ends in its own state; finished behaviours are printed as      *)
(* <<"SCN", ...>> records together with the property violations the model   *)
(* predicts for them.                                                       *)
(***************************************************************************)
EXTENDS ExecTask, TLC

CONSTANT Seconds   \* TRUE: also plans with a second request

VARIABLES plan,   \* sequence of probes [r, when, at]
          deep,   \* ctl: CONFIGURE and START before the probes at "running"
          tmo,    \* let the 30 s start-up timeouts of a controllable task expire at the end
          pi,     \* next probe
          hist,   \* actions so far
          bad,    \* violations predicted so far: <<inv, r, inst, nth>>
          fin     \* behaviour complete

VARIABLE second   \* afterwards the same executor is given a second task (launch, kill): it must go on working
VARIABLE down     \* the agent refuses the executor's UPDATE calls (a fault the model does not depend on)
VARIABLE usr      \* the task has a `user` configured (TaskCommandInfo.user): a configuration the model does not depend on

gvars == <<vars, plan, deep, tmo, usr, down, second, pi, hist, bad, fin>>

Rank(w) == CASE w \in {"launching", "starting"} -> 0
             [] w \in {"nochild", "polling"} -> 1
             [] w = "running" -> 2
             [] w = "exiting" -> 3
             [] w = "reaped" -> 4
             [] OTHER -> 5

Whens(k, b) ==
  IF k = "ctl"
    THEN CASE b = "noready" -> {"starting"}
           [] b = "stuck" -> {"polling"}
           [] b \in {"exit0", "exit3"} -> {"running", "exiting", "reaped", "gone"}
           [] OTHER -> {"running"}      \* (sleep, ignore, fork, done0, done3, donesig, nodone)
    ELSE CASE b = "crash" -> {"launching", "nochild", "exiting", "reaped"}
           [] b \in {"exit0", "exit3", "fork"} -> {"launching", "nochild", "running", "exiting", "reaped"}
           [] OTHER -> {"launching", "nochild", "running"}

FirstReqs(k) == CASE k = "basic" -> {"STOP", "Kill", "CONFIGURE"}
                  [] k = "hook" -> {"Kill", "Trigger"}
                  [] OTHER -> {"Kill", "CONFIGURE"}
SecondReqs(k) == IF k = "basic" THEN {"STOP", "Kill"} ELSE {"Kill"}

Firsts(k, b) == {[r |-> r, when |-> w, at |-> "calm"] : r \in FirstReqs(k), w \in Whens(k, b)}
Seconds2(k, b, p) ==
  {q \in [r : SecondReqs(k), when : Whens(k, b), at : {"calm", "now", "mid"}] :
     /\ Rank(q.when) >= Rank(p.when)
     /\ (q.at = "now" => q.when = p.when /\ q.r = p.r)
     /\ (q.at = "mid" => k = "ctl" /\ p.r = "Kill" /\ q.when = p.when)}
Plans(k, b) ==
  LET F == {f \in Firsts(k, b) : f.r = "Trigger" => f.when = "launching"} IN
  {<<>>} \cup {<<p>> : p \in F}
  \cup (IF Seconds THEN UNION {{<<p, q>> : q \in Seconds2(k, b, p)} : p \in F} ELSE {})

(* ----- what the executor would do next on its own (fixed order: the driver awaits these) ----- *)
NP == IF pi <= Len(plan) THEN plan[pi] ELSE [r |-> "none", when |-> "none", at |-> "none"]
SuppressTimer == NP.when = "launching"
SuppressReap == NP.when = "exiting" /\ Inst(S) = "exiting"
SuppressTerm == NP.at = "mid"
SuppressBodies == NP.at = "now" /\ pi > 1

Step(a, r, succ) == [a |-> a, r |-> r, succ |-> succ]
None == Step("none", "", {})

FirstBody(s) ==
  LET idx == {i \in 1..Len(s.hs) :
                 DoNoopBody(s, i) \cup DoRespond(s, i) \cup DoStartBody(s, i) \cup DoStopBody(s, i) \cup DoStopPush(s, i) \cup DoStopKill(s, i) \cup DoKillBodyBasic(s, i)
                 \cup DoKPush(s, i) \cup (IF SuppressTerm THEN {} ELSE DoKGrace(s, i)) \cup DoKillSend(s, i) \cup DoTransBody(s, i) \cup DoTransCommit(s, i) \cup DoKBody(s, i) \cup DoKClose(s, i)
                 \cup (IF SuppressTerm THEN {} ELSE DoKTerm(s, i)) \cup DoKInt(s, i) \cup DoKKill9(s, i)
                 \cup DoKEnd(s, i) # {}}
  IN IF idx = {} \/ SuppressBodies THEN None
     ELSE LET i == CHOOSE j \in idx : \A m \in idx : j <= m
              h == s.hs[i]
          IN CASE DoKBody(s, i) # {} -> Step("KWalk", IF s.rpc = "up" /\ Listening(s) /\ Walkable(s.dev) /\ s.beh \notin {"nodone", "fmq"} THEN "EXIT" ELSE "", DoKBody(s, i))
               [] DoKClose(s, i) # {} -> Step("KClose", "", DoKClose(s, i))
               [] DoKPush(s, i) # {} -> Step("Nop", "", DoKPush(s, i))
               [] (~SuppressTerm) /\ DoKGrace(s, i) # {} -> Step("Nop", "", DoKGrace(s, i))
               [] (~SuppressTerm) /\ DoKTerm(s, i) # {} -> Step("KSig", IF s.child = "running" THEN "TERM" ELSE "", DoKTerm(s, i))
               [] DoKInt(s, i) # {} -> Step("KSig", IF s.child = "running" THEN "INT" ELSE "", DoKInt(s, i))
               [] DoKKill9(s, i) # {} -> Step("KSig", "KILL", DoKKill9(s, i))
               [] DoKEnd(s, i) # {} -> Step("KEnd", "", DoKEnd(s, i))
               [] DoTransBody(s, i) # {} -> Step(IF s.rpc = "up" THEN "Nop" ELSE "Settle", "", DoTransBody(s, i))
               [] DoTransCommit(s, i) # {} -> Step("Nop", "", DoTransCommit(s, i))
               [] DoRespond(s, i) # {} -> Step("Body", h.r, DoRespond(s, i))
               [] DoKillBodyBasic(s, i) # {} -> Step("Nop", "", DoKillBodyBasic(s, i))
               [] DoKillSend(s, i) # {} -> Step("Body", "Kill", DoKillSend(s, i))
               [] OTHER -> Step("Nop", "", DoNoopBody(s, i) \cup DoStartBody(s, i) \cup DoStopBody(s, i) \cup DoStopPush(s, i)
                                             \cup DoStopKill(s, i))

Eager(s) ==
  LET b == FirstBody(s) IN
  IF DoDoneExit(s) # {} THEN Step("Nop", "", DoDoneExit(s))
  ELSE IF b.a # "none" THEN b
  ELSE IF DoReaperStart(s) # {} THEN Step("Nop", "", DoReaperStart(s))
  ELSE IF DoProc(s) # {} /\ ~NextHeld(s) THEN Step("Proc", "", DoProc(s))
  ELSE IF DoLDial(s) # {} THEN Step("LDial", "", DoLDial(s))
  ELSE IF DoLPoll(s) # {} THEN Step("LPoll", "", DoLPoll(s))
  ELSE IF DoWaitRet(s) # {} /\ ~SuppressReap THEN Step("Nop", "", DoWaitRet(s))
  ELSE IF DoReap(s) # {} THEN Step("Reap", "", DoReap(s))
  ELSE IF DoLWaitRet(s) # {} /\ ~SuppressReap THEN Step("Nop", "", DoLWaitRet(s))
  ELSE IF DoLWait(s) # {} THEN Step("LWait", "", DoLWait(s))
  ELSE IF DoTimer(s) # {} /\ ~SuppressTimer THEN Step("Timer", "", DoTimer(s))
  ELSE None

(* ----- requests that only move the task along its normal life, towards the next planned instant ----- *)
Advance(s) ==
  LET w == NP.when
      i == Inst(s) IN
  IF NP.r = "none" \/ Rank(w) <= Rank(i) THEN
       \* controllable: optionally walk the device to RUNNING before probing at "running"
       IF s.kind = "ctl" /\ deep /\ i = "running" /\ NP.r # "none" /\ w = "running" /\ s.cnt["CONFIGURE"] = 0 /\ NP.r # "CONFIGURE"
         THEN Step("Req", "CONFIGURE", DoReq(s, "CONFIGURE"))
       ELSE IF s.kind = "ctl" /\ deep /\ i = "running" /\ NP.r # "none" /\ w = "running" /\ s.cnt["START"] = 0 /\ NP.r # "CONFIGURE"
         THEN Step("Req", "START", DoReq(s, "START"))
       ELSE None
  ELSE IF s.kind = "basic" /\ i = "nochild" /\ s.cnt["CONFIGURE"] = 0 THEN Step("Req", "CONFIGURE", DoReq(s, "CONFIGURE"))
  ELSE IF s.kind = "basic" /\ i = "nochild" /\ s.cnt["START"] = 0 THEN Step("Req", "START", DoReq(s, "START"))
  ELSE IF s.kind = "hook" /\ i = "nochild" /\ s.cnt["Trigger"] = 0 THEN Step("Req", "Trigger", DoReq(s, "Trigger"))
  ELSE IF i = "running" /\ DoRelease(s) # {} THEN Step("Release", "", DoRelease(s))
  ELSE None

ProbeNow(s) ==
  \/ NP.at = "now" /\ pi > 1
  \/ NP.at = "mid" /\ \E j \in 1..Len(s.hs) : s.hs[j].r = "Kill" /\ s.hs[j].pc \in {"grace", "term"}

Choice(s) ==
  IF ~Ok(s) THEN None
  ELSE IF ~s.launched THEN Step("Launch", "", DoLaunch(s))
  ELSE IF NP.r # "none" /\ ProbeNow(s) /\ DoReq(s, NP.r) # {} THEN Step("Probe", NP.r, DoReq(s, NP.r))
  ELSE IF Eager(s).a # "none" THEN Eager(s)
  ELSE IF Advance(s).a # "none" /\ Advance(s).succ # {} THEN Advance(s)
  ELSE IF NP.r # "none" /\ NP.at = "calm" /\ Inst(s) = NP.when /\ DoReq(s, NP.r) # {} THEN Step("Probe", NP.r, DoReq(s, NP.r))
  ELSE IF NP.r = "none" /\ NextHeld(s) THEN Step("ProcHeld", "", DoProc(s))
  ELSE IF NP.r = "none" /\ tmo /\ DoLDialTimeout(s) # {} THEN Step("LFail", "", DoLDialTimeout(s))
  ELSE IF NP.r = "none" /\ tmo /\ DoLPollTimeout(s) # {} THEN Step("LFail", "", DoLPollTimeout(s))
  ELSE None

ViolOf(t) ==
  (IF OneTerminalOf(t.sent) THEN {} ELSE {<<"OneTerminal", t.termBy.r, t.termBy.inst, t.termBy.nth>>})
  \cup (IF KilledNotFailedOf(t.sent, t.killAt, Own(t)) THEN {} ELSE {<<"KilledNotFailed", t.killBy.r, t.killBy.inst, t.killBy.nth>>})
  \cup (IF t.skDone => (t.child # "running" /\ ~t.grand) THEN {} ELSE {<<"NoSurvivors", t.doneBy.r, t.doneBy.inst, t.doneBy.nth>>})
  \cup (IF t.exec = "ok" THEN {} ELSE {<<"ExecutorSurvives", t.panBy.r, t.panBy.inst, t.panBy.nth>>})

GenInit ==
  /\ Init
  /\ plan \in Plans(kind, beh)
  /\ (beh = "slow" => Len(plan) <= 1)     \* (12 s of real time per CONFIGURE: a request on its own is enough)
  \* the event loop serves agent events before a queued terminal status: needed to send a request to a controllable
  \* task that is "reaped", and explored for a second Kill of a basic / hook task that comes after the first one is done
  /\ hold \in (IF kind = "ctl" THEN {\E j \in 1..Len(plan) : plan[j].when = "reaped"}
               ELSE IF Len(plan) = 2 /\ plan[1].r = "Kill" /\ plan[2].r = "Kill" /\ plan[2].at = "calm"
                       /\ plan[1].when = plan[2].when THEN {FALSE, TRUE}
               ELSE {FALSE})
  /\ deep \in (IF kind = "ctl" /\ beh \notin {"noready", "stuck", "midstate", "slow"} THEN BOOLEAN ELSE {FALSE})
  /\ tmo \in (IF kind = "ctl" /\ beh \in {"noready", "stuck"} /\ Len(plan) = 0 THEN {TRUE} ELSE {FALSE})
  \* stop / kill of a running child, once more for a task with a configured user
  /\ usr \in (IF Len(plan) = 1 /\ plan[1].when = "running" /\ plan[1].r \in {"STOP", "Kill"}
                 /\ (kind # "ctl" \/ (~deep /\ beh \in {"sleep", "fork"})) THEN BOOLEAN ELSE {FALSE})
  \* a request for a task whose terminal status the loop has processed, also with an agent that refuses the update
  /\ down \in (IF ~deep /\ \E j \in 1..Len(plan) : plan[j].when = "gone" THEN BOOLEAN ELSE {FALSE})
  \* after a request for a task that is gone (controllable: its terminal status processed; basic / hook: killed)
  /\ second = (\/ kind = "ctl" /\ ~deep /\ ~down /\ \E j \in 1..Len(plan) : plan[j].when = "gone"
               \/ kind # "ctl" /\ ~hold /\ Len(plan) = 2 /\ plan[1].r = "Kill" /\ plan[2].at = "calm" /\ plan[1].when = plan[2].when)
  /\ pi = 1 /\ hist = <<>> /\ bad = {} /\ fin = FALSE

GenStep ==
  /\ ~fin
  /\ LET c == Choice(S) IN
     IF c.a = "none" \/ c.succ = {}
       THEN fin' = TRUE /\ UNCHANGED <<vars, plan, deep, tmo, usr, down, second, pi, hist, bad>>
       ELSE \E t \in c.succ :
              /\ Set(t)
              /\ hist' = Append(hist, [a |-> IF c.a = "Probe" THEN "Req" ELSE c.a, r |-> c.r])
              /\ pi' = IF c.a = "Probe" THEN pi + 1 ELSE pi
              /\ bad' = bad \cup ViolOf(t)
              /\ UNCHANGED <<plan, deep, tmo, usr, down, second, fin>>

GenSpec == GenInit /\ [][GenStep]_gvars

Complete == fin /\ pi > Len(plan)
PrintScn ==
  Complete => PrintT(<<"SCN", [kind |-> kind, beh |-> beh, hold |-> hold, deep |-> deep, usr |-> usr, down |-> down, second |-> second, plan |-> plan,
                               hist |-> hist, bad |-> bad, exec |-> exec, sent |-> sent]>>)
=============================================================================
