--------------------------- MODULE WorkflowLoadTrace ---------------------------
(***************************************************************************)
(* Trace specification binding spec/WorkflowLoad.tla to recorded loads of   *)
(* the real core/workflow code (harness/cmd/wfload).                        *)
(*                                                                         *)
(* One line per case: the abstract template T and user variables uv, the    *)
(* DISTINCT outcomes `outs` observed over all loads of the case (ok flag,   *)
(* hash of the full canonical dump, projected tree) and `runs`, one entry   *)
(* <<sw1, sw2, sw3, rep, sched, outcome index, gated>> per load (the three  *)
(* concurrency switches, repetition, schedule).                             *)
(*                                                                         *)
(*  - monitor (decides the verdict), evaluated with the statement           *)
(*    Load(T, uv, NoDev):                                                   *)
(*      Determinism   all loads of the case gave one and the same outcome    *)
(*      Spec          no error expected => the load succeeded with exactly   *)
(*                    the tree Load computes                                *)
(*      LoaderSurvives no load crashed the loader                            *)
(*      AllOrNothing  error expected (a template error is reached in an     *)
(*                    enabled subtree) => the load failed and gave no tree   *)
(*  - strict conformance: every outcome equals Load(T, uv, dev) for the      *)
(*    deviations that are open (the model of the code as it is), or, while   *)
(*    the shared-err deviation is open, is a swallowed error under           *)
(*    concurrent iterator processing; a mismatch prints DRIFT.  The property *)
(*    is functional, so conformance is the same equality as Spec, only       *)
(*    against the as-is model.                                              *)
(* A VIOL record names the modelled deviation that explains the offending   *)
(* outcome, or "unexplained".                                               *)
(***************************************************************************)
EXTENDS WorkflowLoad, Json, IOUtils

CONSTANTS DevIter,    \* IterEnabledFromTemplate open   (model of the code as it is, for conformance)
          DevEnErr,   \* EnabledErrorMasked open
          DevShared   \* shared `err` of the iterator's child goroutines open (WorkflowLoadErr, SharedErr)

Trace == ndJsonDeserialize(IOEnv.TRACE_FILE)

VARIABLES l, nviol
tvars == <<l, nviol>>

Line == Trace[l]

Soft(name, cond, detail) ==
  IF cond THEN 0
  ELSE IF PrintT(<<"VIOL", name, Line.scn, l, detail>>) THEN 1 ELSE 1

Conforms(o, exp) == IF exp.err THEN ~o.ok /\ o.tree = <<>>
                               ELSE o.ok /\ o.tree = Strip(exp.out)

RunsOf(oi) == SelectSeq(Line.runs, LAMBDA r : r[6] = oi)
Brief(rs) == SubSeq(rs, 1, IF Len(rs) < 3 THEN Len(rs) ELSE 3)

RECURSIVE SumSeq(_)
SumSeq(s) == IF s = <<>> THEN 0 ELSE Head(s) + SumSeq(Tail(s))

\* the outcome is a load that succeeded although an error was due, and every load that gave it ran the
\* iterator children concurrently: what the shared `err` (WorkflowLoadErr with SharedErr) permits
SwallowedInIterator(oi, exp) ==
  /\ exp.err /\ Line.outs[oi].ok
  /\ \A q \in 1..Len(RunsOf(oi)) : RunsOf(oi)[q][2] = 1
  /\ \E i \in 1..Len(Line.T) : Line.T[i].for # <<>> \/ Line.T[i].k = "inc"

TCase ==
  /\ l <= Len(Trace) /\ Line.ev = "Case"
  /\ LET ideal == Load(Line.T, Line.uv, NoDev)
         asis  == Load(Line.T, Line.uv, [iter |-> DevIter, enerr |-> DevEnErr])
         withI == Load(Line.T, Line.uv, [iter |-> TRUE, enerr |-> FALSE])
         withE == Load(Line.T, Line.uv, [iter |-> FALSE, enerr |-> TRUE])
         withB == Load(Line.T, Line.uv, AllDev)
         outs  == Line.outs
         \* which modelled deviation explains an offending outcome (labels only)
         ExplSpec(oi) == IF Conforms(outs[oi], withI) THEN "iterator-enabled-from-template" ELSE "unexplained"
         ExplAoN(oi) == IF Conforms(outs[oi], withE) \/ Conforms(outs[oi], withB) THEN "enabled-error-masked"
                        ELSE IF SwallowedInIterator(oi, withB) THEN "iter-shared-err"
                        ELSE "unexplained"
         \* a crash of the loader (a panic, possibly in one of its child goroutines, takes the whole process down; the
         \* harness records which load was running) is never acceptable, whatever the template
         PerOut(oi) ==
           IF outs[oi].crashed
             THEN Soft("LoaderSurvives", FALSE, <<oi, "loader crashed", Len(RunsOf(oi)), Brief(RunsOf(oi))>>)
             ELSE
             Soft("AllOrNothing", ideal.err => (~outs[oi].ok /\ outs[oi].tree = <<>>),
                  <<oi, ExplAoN(oi), Len(RunsOf(oi)), Brief(RunsOf(oi))>>)
           + Soft("Spec", ~ideal.err => Conforms(outs[oi], ideal),
                  <<oi, ExplSpec(oi), Len(RunsOf(oi)), Brief(RunsOf(oi))>>)
         nconf == Cardinality({oi \in 1..Len(outs) : ~outs[oi].crashed /\ Conforms(outs[oi], ideal)})
         StrictOk(oi) == ~outs[oi].crashed /\ (Conforms(outs[oi], asis) \/ (DevShared /\ SwallowedInIterator(oi, asis)))
     IN /\ IF \A oi \in 1..Len(outs) : StrictOk(oi) THEN TRUE
           ELSE PrintT(<<"DRIFT", Line.scn, l, "Case">>)
        /\ nviol' = nviol + SumSeq([oi \in 1..Len(outs) |-> PerOut(oi)])
                          + Soft("Determinism", Len(outs) = 1, <<Len(outs), nconf>>)
  /\ l' = l + 1

TraceInit == l = 1 /\ nviol = 0
TraceNext == TCase
TraceSpec == TraceInit /\ [][TraceNext]_tvars

Done == l = Len(Trace) + 1
PrintEnd == Done => PrintT(<<"END", Len(Trace), nviol>>)
=============================================================================
