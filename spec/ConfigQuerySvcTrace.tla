------------------------- MODULE ConfigQuerySvcTrace -------------------------
(***************************************************************************)
(* Trace specification binding spec/ConfigQuerySvc.tla to recorded request  *)
(* sequences against ONE real apricot/local.Service per scenario            *)
(* (harness/cmd/configquery -scenarios): "Reset" (new service, new backend   *)
(* with the recorded content), then one line per call with what it returned. *)
(*  - conformance (strict): each line must be the ConfigQuerySvc action it    *)
(*    names and the recorded answer must equal the model's out'; a mismatch   *)
(*    prints DRIFT and the scenario continues in "lost" mode until Reset;     *)
(*  - monitor: independent of the model's service state, the property is      *)
(*    evaluated on the recorded facts alone - mcontent is the content the      *)
(*    harness wrote (Reset, Update lines), and the recorded payload must be    *)
(*    Expected(mcontent, this request): a function of the CURRENT request's    *)
(*    variables and the CURRENT content, whatever was asked before            *)
(*    (RequestLocal).  The documented protocol (invalidate after an update)    *)
(*    is part of the property's assumption: a processed request recorded       *)
(*    while an update is pending invalidation is not judged.                   *)
(*    mstore is what the harness wrote into the backing store behind the       *)
(*    service's back (Reset, ExternalEdit lines): a recorded resolution must   *)
(*    be the most specific entry existing NOW (ResolvedExistsNow,              *)
(*    MostSpecificNow) and a plain get must return what is stored NOW          *)
(*    (PayloadNow).  A resolution recorded while the harness made existence    *)
(*    checks of the backend fail (field f: broken file / scripted HTTP 500)    *)
(*    must fail or name an entry that exists (FaultNeverInventsEntry).         *)
(***************************************************************************)
EXTENDS ConfigQuerySvc, Integers, Json, IOUtils

Trace == ndJsonDeserialize(IOEnv.TRACE_FILE)

VARIABLES l, mode, scn,
          mcontent,   \* monitor: what the harness stored in the backend
          mdirty,     \* monitor: an Update line since the last Invalidate/Reset line
          mstore,     \* monitor: the candidate entries the harness stored (Reset) or edited from outside (ExternalEdit)
          nviol

tvars == <<l, mode, scn, mcontent, mdirty, mstore, nviol>>
allvars == <<svars, tvars>>

Line == Trace[l]

Soft(name, cond, detail) ==
  IF cond THEN 0
  ELSE IF PrintT(<<"VIOL", name, scn, l, detail>>) THEN 1 ELSE 1

Answer == [ok |-> Line.ok, out |-> IF Line.ok THEN Line.payload ELSE ""]
IsCall == Line.ev \in {"Process", "Raw", "Invalidate", "Update", "ExternalEdit", "Resolve", "GetX"}

TablesOk ==
  CASE Line.ev = "Process" -> /\ Len(Line.varsReal) = Len(Line.vars)
                              /\ \A i \in 1..Len(Line.vars) : Line.varsReal[i] = <<Line.vars[i][1], ValStr(Line.vars[i][2])>>
    [] Line.ev = "Update"  -> Line.src = Source(Line.parts) /\ Line.ok
    [] OTHER -> TRUE

ModelAct ==
  CASE Line.ev = "Process"    -> Process(Line.e, Line.vars) /\ out' = Answer
    [] Line.ev = "Raw"        -> Raw(Line.e) /\ out' = Answer
    [] Line.ev = "Invalidate" -> Invalidate
    [] Line.ev = "Update"     -> Update(Line.e, Line.parts)
    [] Line.ev = "ExternalEdit" -> ExternalEdit(Line.e, Line.v)
    [] Line.ev = "Resolve"    -> Resolve(Line.e, Range(Line.f)) /\ out' = Answer
    [] Line.ev = "GetX"       -> GetX(Line.e, Range(Line.f)) /\ out' = Answer
    [] OTHER -> FALSE

Matched == TablesOk /\ ModelAct

LineReq == [op |-> Line.ev,
            e |-> IF "e" \in DOMAIN Line THEN Line.e ELSE "",
            vars |-> IF Line.ev = "Process" THEN Line.vars ELSE <<>>,
            parts |-> <<>>,
            f |-> IF "f" \in DOMAIN Line THEN Range(Line.f) ELSE {}]

MonitorStep ==
  LET c2 == IF Line.ev = "Update" THEN [mcontent EXCEPT ![Line.e] = Line.parts] ELSE mcontent
      d2 == CASE Line.ev = "Update" -> TRUE [] Line.ev = "Invalidate" -> FALSE [] OTHER -> mdirty
      s2 == IF Line.ev = "ExternalEdit" THEN [mstore EXCEPT ![Line.e] = Line.v] ELSE mstore
      judged == Line.ev = "Raw" \/ (Line.ev = "Process" /\ ~mdirty)
      cause == IF judged /\ Answer = Expected(mcontent, mstore, LineReq, TRUE) THEN "html-escape" ELSE "history-or-other"
      rr == IF Line.ev = "Resolve" /\ Line.ok
              THEN [comp |-> Line.res.comp, rt |-> Line.res.rt, role |-> Line.res.role, entry |-> Line.res.entry]
              ELSE NotFound
      what == <<"store-now", Line.ev, IF "e" \in DOMAIN Line THEN Line.e ELSE "", mstore>>
  IN /\ mcontent' = c2 /\ mdirty' = d2 /\ mstore' = s2
     /\ nviol' = nviol
          + Soft("RequestLocal", judged => Answer = Expected(mcontent, mstore, LineReq, FALSE),
                 <<cause, Line.ev, IF "e" \in DOMAIN Line THEN Line.e ELSE "", LineReq.vars>>)
          + Soft("ResolvedExistsNow", Line.ev = "Resolve" /\ LineReq.f = {} => ResolvedExists(XQ(Line.e), Existing(mstore), rr), what)
          + Soft("MostSpecificNow", Line.ev = "Resolve" /\ LineReq.f = {} => MostSpecific(XQ(Line.e), Existing(mstore), rr), what)
          + Soft("FaultNeverInventsEntry",
                 Line.ev = "Resolve" /\ LineReq.f # {} => ResolvedExists(XQ(Line.e), Existing(mstore), rr), what)
          + Soft("PayloadNow", Line.ev = "GetX" => Acceptable(mcontent, mstore, LineReq, FALSE, Answer), what)

TStepOk ==
  /\ l <= Len(Trace) /\ IsCall /\ mode = "ok"
  /\ Matched
  /\ MonitorStep
  /\ l' = l + 1 /\ UNCHANGED <<mode, scn>>

TStepDrift ==
  /\ l <= Len(Trace) /\ IsCall /\ mode = "ok"
  /\ ~ENABLED Matched
  /\ PrintT(<<"DRIFT", scn, l, Line.ev>>)
  /\ MonitorStep
  /\ mode' = "lost" /\ l' = l + 1 /\ UNCHANGED <<svars, scn>>

TStepLost ==
  /\ l <= Len(Trace) /\ IsCall /\ mode = "lost"
  /\ MonitorStep
  /\ l' = l + 1 /\ UNCHANGED <<svars, mode, scn>>

TReset ==
  /\ l <= Len(Trace) /\ Line.ev = "Reset"
  /\ content' = [e \in Entries |-> Line.content[e]]
  /\ compiled' = [e \in Entries |-> NoSnap]
  /\ store' = [k \in Keys |-> Line.store[k]] /\ tree' = [k \in Keys |-> Line.store[k]] /\ backend' = Line.backend
  /\ nbrs' = Range(Line.nbrs)
  /\ dirty' = FALSE /\ req' = NoReq /\ out' = Nothing /\ n' = 0
  /\ mode' = "ok" /\ scn' = Line.scn
  /\ mcontent' = [e \in Entries |-> Line.content[e]] /\ mdirty' = FALSE /\ mstore' = [k \in Keys |-> Line.store[k]]
  /\ l' = l + 1 /\ UNCHANGED nviol

TSkip ==      \* "Corner" measurements
  /\ l <= Len(Trace) /\ ~IsCall /\ Line.ev # "Reset"
  /\ l' = l + 1 /\ UNCHANGED <<svars, mode, scn, mcontent, mdirty, mstore, nviol>>

TraceInit == /\ Init /\ store = [k \in Keys |-> 0]
             /\ l = 1 /\ mode = "lost" /\ scn = -1 /\ mcontent = InitContent /\ mdirty = FALSE
             /\ mstore = [k \in Keys |-> 0] /\ nviol = 0
TraceNext == TStepOk \/ TStepDrift \/ TStepLost \/ TReset \/ TSkip
TraceSpec == TraceInit /\ [][TraceNext]_allvars

Done == l = Len(Trace) + 1
PrintEnd == Done => PrintT(<<"END", Len(Trace), nviol>>)
=============================================================================
