------------------------------ MODULE DdRunGen ------------------------------
(* Scenario generator for DdRun (X06): every action of the model is something the harness can impose on the real plugin     *)
(* (harness/cmd/ddrun parks every request in the fake DD scheduler and lets it take effect with the scripted outcome; the    *)
(* scheduler's own steps, the deadline while a status call is under way and the deadline during the sleep after an "in       *)
(* progress" answer are steps of the scenario).  A behaviour (tlc -simulate) is a scenario.  The guards only shape the random *)
(* walk: faults, deadlines and errors of the scheduler are thinned out so that complete lifecycles occur as well.             *)
EXTENDS DdRun
Lv == TLCGet("level")
Gate(f) == f = "none" \/ Lv >= 5 * (nf + 1)
G_InitCall(e, f, c) == Gate(f) /\ InitCall(e, f, c)
G_TermCall(e, f, c) == Gate(f) /\ TermCall(e, f, c)
G_EnsureStatus(e, f, c) == Gate(f) /\ (ph[e] \in {"new", "up"} => Lv % 4 = 0) /\ EnsureStatus(e, f, c)
G_EnsureTerm(e, f, c) == Gate(f) /\ EnsureTerm(e, f, c)
G_Poll(e, f, t, c) == Gate(f) /\ (t = "sleep" => Lv % 9 = 0) /\ Poll(e, f, t, c)
G_PollTimeout(e, c) == Lv % 12 = 0 /\ PollTimeout(e, c)
G_Progress(e) == Progress(e)
G_Fail(e) == Lv % 5 = 0 /\ Fail(e)
G_GoError(e) == Lv % 7 = 0 /\ GoError(e)
G_Destroy(e) == (ph[e] = "err" \/ ninit[e] >= MaxInit) /\ Destroy(e)
G_GetData(fs) == Lv % 5 = 2 /\ GetData(fs)
GenNext ==
  \/ \E e \in Envs :
       \/ \E f \in Fs, c \in {"go", "err"} : G_InitCall(e, f, c) \/ G_TermCall(e, f, c) \/ G_EnsureStatus(e, f, c) \/ G_EnsureTerm(e, f, c)
       \/ \E f \in Fs, t \in {"no", "sleep"}, c \in {"go", "err"} : G_Poll(e, f, t, c)
       \/ \E c \in {"go", "err"} : G_PollTimeout(e, c)
       \/ G_Progress(e) \/ G_Fail(e) \/ G_GoError(e) \/ G_Destroy(e)
  \/ \E fs \in [Envs -> {"none", "err"}] : G_GetData(fs)
GenSpec == Init /\ [][GenNext]_vars
=============================================================================
