--------------------------- MODULE AutoStopTrace ----------------------------
(* Trace specification for AutoStop over runs of the real core (coresim): the check expands what the harness did     *)
(* into the model's primitive actions (a request that returns = ApiBegin, ApiEnd; a STOP held inside its transition   *)
(* across the timer's deadline = ApiBegin, TimerFires, ApiEnd, AutoStopRuns; waiting for the timer = TimerFires,      *)
(* AutoStopRuns) and interleaves Obs{st} lines with the environment state the core reported at quiescence.  Each      *)
(* action line must be enabled in the model (else DRIFT) and each observation must equal the model's state.           *)
EXTENDS AutoStop, Integers, Sequences, Json, IOUtils, TLC
Trace == ndJsonDeserialize(IOEnv.TRACE_FILE)
VARIABLES l, scn, lost, ndrift
Line == Trace[l]
Drift(d) == PrintT(<<"DRIFT", scn, l, d>>)
Act == CASE Line.a = "ApiBegin" -> ApiBegin(Line.op)
         [] Line.a = "ApiEnd" -> ApiEnd
         [] Line.a = "TimerFires" -> TimerFires
         [] Line.a = "AutoStopRuns" -> \E r \in 1..MaxRuns : AutoStopRuns(r)
         [] OTHER -> FALSE
TReset == /\ Line.ev = "Reset" /\ scn' = Line.scn /\ lost' = FALSE
          /\ st' = "CONFIGURED" /\ lock' = "none" /\ op' = "" /\ run' = 0 /\ nruns' = 0 /\ timer' = "off" /\ trun' = 0 /\ fired' = {} /\ hist' = {}
          /\ UNCHANGED ndrift
TActOk == /\ Line.ev = "Act" /\ ~lost /\ Act /\ UNCHANGED <<scn, lost, ndrift>>
TActDrift == /\ Line.ev = "Act" /\ ~lost /\ ~ENABLED Act /\ Drift(<<"action not enabled", Line.a, st, timer, fired>>)
             /\ lost' = TRUE /\ ndrift' = ndrift + 1 /\ UNCHANGED <<vars, scn>>
TObs == /\ Line.ev = "Obs" /\ ~lost
        /\ IF Line.st = st THEN UNCHANGED <<lost, ndrift>>
           ELSE Drift(<<"state", Line.st, st>>) /\ lost' = TRUE /\ ndrift' = ndrift + 1
        /\ UNCHANGED <<vars, scn>>
TSkip == /\ (Line.ev \notin {"Reset", "Act", "Obs"} \/ (lost /\ Line.ev # "Reset")) /\ UNCHANGED <<vars, scn, lost, ndrift>>
TraceInit == Init /\ l = 1 /\ scn = -1 /\ lost = FALSE /\ ndrift = 0
TraceNext == l <= Len(Trace) /\ (TReset \/ TActOk \/ TActDrift \/ TObs \/ TSkip) /\ l' = l + 1
TraceSpec == TraceInit /\ [][TraceNext]_<<vars, l, scn, lost, ndrift>>
PrintEnd == (l = Len(Trace) + 1) => PrintT(<<"END", Len(Trace), ndrift>>)
=============================================================================
