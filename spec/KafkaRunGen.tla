----------------------------- MODULE KafkaRunGen -----------------------------
(* Scenario generator for KafkaRun (X09): every action of the model is something the harness can impose on the real plugin      *)
(* (harness/cmd/kafkarun: the environment's state, run number and transition point are what the driver puts into the VarStack;   *)
(* the fake broker fails the scripted writes).  A behaviour (tlc -simulate) is a scenario.  The guards only shape the walk       *)
(* (faults, missing variables, errors and exits are thinned out).                                                                *)
EXTENDS KafkaRun
Lv == TLCGet("level")
G_Begin(e, t) == (t \in {"err", "exit"} => Lv % 5 = 0) /\ Begin(e, t)
G_Adv(e) == (~called[e] => Lv % 3 = 0) /\ Adv(e)
G_Hook(e, f, miss) == (f # "ok" => Lv % 3 = 1) /\ (miss => Lv % 7 = 2) /\ Hook(e, f, miss)
GenNext == \E e \in Envs : \/ \E t \in {"start", "stop", "err", "exit"} : G_Begin(e, t)
                           \/ G_Adv(e)
                           \/ \E f \in Faults, miss \in BOOLEAN : G_Hook(e, f, miss)
GenSpec == Init /\ [][GenNext]_vars
=============================================================================
