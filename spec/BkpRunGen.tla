------------------------------ MODULE BkpRunGen -----------------------------
(* Scenario generator for BkpRun (X08): every action of the model is something the harness can impose on the real plugin       *)
(* (harness/cmd/bkprun parks every request in the fake Bookkeeping service and lets it take effect with the scripted outcome;   *)
(* run numbers, timestamp variables and the state machine's state are set by the driver).  A behaviour (tlc -simulate) is a     *)
(* scenario.  The guards only shape the random walk (faults and environment calls are thinned out).                             *)
EXTENDS BkpRun
Lv == TLCGet("level")
Gate(f) == f = "none" \/ Lv >= 4 * (nf + 1)
G_NewRun(e) == NewRun(e)
G_EndRun(e) == (rph[e] # "new" \/ Lv % 5 = 0) /\ EndRun(e)
G_SetTime(e, k) == SetTime(e, k)
G_SetState(e, s) == Lv % 4 = 0 /\ SetState(e, s)
G_SorCreate(e, f) == Gate(f) /\ SorCreate(e, f)
G_SorLog(e, f) == Gate(f) /\ SorLog(e, f)
G_SorFlp(e, f) == Gate(f) /\ SorFlp(e, f)
G_UrsFirst(e, f) == Gate(f) /\ UrsFirst(e, f)
G_UrsSecond(e, f) == Gate(f) /\ UrsSecond(e, f)
G_UrstFirst(e, trig, f) == Gate(f) /\ (trig # "STOP_ACTIVITY" => Lv % 3 = 0) /\ UrstFirst(e, trig, f)
G_UrstSecond(e, f) == Gate(f) /\ UrstSecond(e, f)
G_EnvCall(e, fn, trig, f) == Gate(f) /\ Lv % 3 = 1 /\ EnvCall(e, fn, trig, f)
GenNext == \E e \in Envs :
   \/ G_NewRun(e) \/ G_EndRun(e) \/ (\E k \in Kinds : G_SetTime(e, k)) \/ (\E s \in States : G_SetState(e, s))
   \/ \E f \in Fs : G_SorCreate(e, f) \/ G_SorLog(e, f) \/ G_SorFlp(e, f) \/ G_UrsFirst(e, f) \/ G_UrsSecond(e, f) \/ G_UrstSecond(e, f)
   \/ \E f \in Fs, trig \in Triggers : G_UrstFirst(e, trig, f)
   \/ \E f \in Fs, fn \in {"CreateEnv", "UpdateEnv"}, trig \in EnvTriggers : G_EnvCall(e, fn, trig, f)
GenSpec == Init /\ [][GenNext]_vars
=============================================================================
