----------------------------- MODULE DcsRunGen ------------------------------
(* Scenario generator for DcsRun (X05): every action of the model is something the harness can impose on the real plugin   *)
(* (harness/cmd/dcsrun scripts every event and every end of every stream of the fake DCS gateway and knows when the hook    *)
(* has taken it).  A behaviour (tlc -simulate) is a scenario.  The guards below only shape the random walk: Subscribe       *)
(* events, closed gates (each costs the plugin's own 1 s sleep), faults and non-acknowledging events are thinned out so     *)
(* that calls which succeed, calls which fail late and calls which fail early all occur.                                    *)
EXTENDS DcsRun
Lv == TLCGet("level")
G_Heartbeat(d, p, s) == Lv % 4 = 1 /\ d \in D1 \cup D2 /\ p # "null" /\ s # "null" /\ ((p = "no" \/ s = "no") => Lv % 16 = 1) /\ Heartbeat(d, p, s)
G_StateChange(d, w, v) == Lv % 8 = 5 /\ d \in D1 \cup D2 /\ (v = "no" => Lv % 16 = 5) /\ StateChange(d, w, v)
G_NewRun(e) == NewRun(e)
G_EndRun(e) == EndRun(e)
G_GoError(e) == Lv % 5 = 0 /\ GoError(e)
G_Destroy(e) == (ph[e] = "err" \/ nextrun > MaxRun) /\ Destroy(e)
G_Open(e, fn, f, c) == /\ (f = "fail" => Lv >= 6 * (nf + 1))
                       /\ (fn = "Cleanup" => (ph[e] # "conf" \/ pend[e] # 0))
                       /\ Open(e, fn, f, c)
G_Event(e, d, s) == /\ ~Idle(e)
                    /\ (s # "OK" => Lv % 3 = 0)
                    /\ (d \notin call[e].req => Lv % 4 = 0)
                    /\ Event(e, d, s)
G_End(e, how, c) == (how # "eof" => Lv % 2 = 0) /\ End(e, how, c)
GenNext ==
  \/ \E e \in Envs :
       \/ \E fn \in Fns, f \in {"ok", "fail"}, c \in {"go", "err"} : G_Open(e, fn, f, c)
       \/ \E d \in AllDets \cup {"DCS"}, s \in EvStates : G_Event(e, d, s)
       \/ \E how \in Ends, c \in {"go", "err"} : G_End(e, how, c)
       \/ G_NewRun(e) \/ G_EndRun(e) \/ G_GoError(e) \/ G_Destroy(e)
  \/ \E d \in AllDets : \/ \E p \in Avail, s \in Avail : G_Heartbeat(d, p, s)
                        \/ \E w \in {"pfr", "sor"}, v \in {"yes", "no"} : G_StateChange(d, w, v)
GenSpec == Init /\ [][GenNext]_vars
=============================================================================
