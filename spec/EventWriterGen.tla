--------------------------- MODULE EventWriterGen ---------------------------
(* Scenario generator for EventWriter: the same actions, with the steps the   *)
(* implementation takes on its own (a woken writer popping, the batching loop *)
(* receiving from a non-empty channel, Close returning) given priority, so    *)
(* that every generated behaviour is a schedule the gated harness can impose. *)
(* Each action is wrapped in a named operator G_<Action> so that TLC labels   *)
(* the steps of the behaviours it writes.                                     *)
EXTENDS EventWriter

CONSTANT Burst  \* "none" | "pop": everything is published and buffered before the writer moves |
                \* "close": ... and the batching loop has finished (Close called) before the writer moves

P1 == wpc = "wait" /\ woken
P2 == ~P1 /\ bpc = "idle" /\ chan # <<>>
P3 == ~P1 /\ ~P2 /\ cpc = "waiting" /\ bpc = "exited" /\ wpc = "exited"
Low == ~P1 /\ ~P2 /\ ~P3
Filling == Burst # "none" /\ ((\E p \in Producers : prod[p] < NEvents) \/ chan # <<>> \/ bpc = "recv")
Closing == Burst = "close" /\ ~Filling /\ bpc # "exited"   \* the writer waits until the batching loop is gone
LowW == Low /\ ~Filling   \* close / batching-loop steps
LowWr == LowW /\ ~Closing  \* writer steps

G_WriterWake == P1 /\ WriterWake
G_BatchRecv == P2 /\ BatchRecv
G_CloseEnd == P3 /\ CloseEnd
G_Write(p) == Low /\ Write(p)
G_BatchPush == Low /\ BatchPush
G_BatchSeesClosed == LowW /\ BatchSeesClosed
G_BatchSignal == LowW /\ BatchSignal
G_BatchRelease == LowW /\ BatchRelease
G_BatchExit == LowW /\ BatchExit
G_WriterSelectDone == LowWr /\ WriterSelectDone
G_WriterSelectDefault == LowWr /\ WriterSelectDefault
G_WriterPopEnter == LowWr /\ WriterPopEnter
G_BrokerAck == LowWr /\ BrokerAck
G_WriterExit == LowWr /\ WriterExit
G_CloseBegin == LowW /\ CloseBegin

GenNext ==
  \/ G_WriterWake \/ G_BatchRecv \/ G_CloseEnd
  \/ \E p \in Producers : G_Write(p)
  \/ G_BatchPush \/ G_BatchSeesClosed \/ G_BatchSignal \/ G_BatchRelease \/ G_BatchExit
  \/ G_WriterSelectDone \/ G_WriterSelectDefault \/ G_WriterPopEnter \/ G_BrokerAck
  \/ G_WriterExit \/ G_CloseBegin

GenSpec == Init /\ [][GenNext]_vars
=============================================================================
