-------------------------------- MODULE Repos --------------------------------
(* X10: the repository manager of the core (core/repos: repomanager.go, reposervice.go, repo.go).                                *)
(* State: the manager's repo list (identifier -> default revision; which one is the default repo; the revision each repo is       *)
(* left on by workflow lookups = Repo.Revision), the manager's map defaultRevisions, and what survives a restart: the runtime KV   *)
(* written through the RepoService (o2/runtime/aliecs/default_repo, default_revisions) and the clone directories on disk (the     *)
(* list of repos is NOT in the KV: initializeRepos rediscovers it from the filesystem, discoverRepos).                             *)
(* One action per public operation of RepoManager as the code does it, each with its error outcomes; f = the runtime KV refuses    *)
(* writes during the operation.  Indexes are positions in GetOrderedRepolistKeys (sorted identifiers), from 0.                      *)
(* The initial state is a freshly started manager on an empty KV with the configured default repo Cfg (viper defaultRepo).          *)
(* Repositories: Has(n) = the revisions (branches) the upstream of n has; the global default revision G is in all of them.           *)
(* Code_* constants: TRUE = the code as it is, FALSE = the repaired design (under which the property it refutes holds).             *)
EXTENDS Naturals, Integers, Sequences, FiniteSets, TLC

CONSTANTS N,                          \* number of repositories (the first N of NameSeq)
          Faults,                     \* the values f may take (BOOLEAN; {FALSE} = a KV that never refuses)
          Code_PersistFailureIgnored, \* setDefaultRepo only logs a failed NewDefaultRepo: the operation succeeds, the KV keeps the old default
          Code_NotAtomic,             \* AddRepo / RemoveRepoByIndex / UpdateDefaultRevisionByIndex change the manager (and the disk) first and
                                      \* return the error of SetRepoDefaultRevisions afterwards: a failed operation has happened
          Code_NegIndexPanics,        \* a negative index passes the bounds checks (index >= len / len-1 >= index): keys[-1] panics
          Code_StickyRevision         \* GetWorkflow without @revision "uses the default revision" by a no-op (setDefaultRevision(GetDefaultRevision()))
                                      \* and checks out Repo.Revision = whatever the last lookup asked for, valid or not

ASSUME \A k \in 1..8 : TLCSet(k, 0)
Once(k, P) == P \/ TLCGet(k) = 1 \/ (TLCSet(k, 1) /\ FALSE)

NameSeq == <<"r1", "r2", "r3">>
Names == {NameSeq[k] : k \in 1..N}
Revs == {"master", "dev"}
G == "master"
Cfg == "r1"
Has(n) == IF n = "r3" THEN {"master"} ELSE Revs

VARIABLES list, def, drev, cur, mrevs, kdef, krevs, disk, last
SVars == <<list, def, drev, cur, mrevs, kdef, krevs, disk>>
vars == <<list, def, drev, cur, mrevs, kdef, krevs, disk, last>>

KeysOf(S) == SelectSeq(NameSeq, LAMBDA x : x \in S)
Keys == KeysOf(list)
Snap == [list |-> list, def |-> def, drev |-> drev, kdef |-> kdef, krevs |-> krevs, disk |-> disk]
NoRevs == [n \in Names |-> "none"]
L(op, n, i, r, f, res, s1, b1, t) ==
   [op |-> op, n |-> n, i |-> i, r |-> r, f |-> f, res |-> res, s1 |-> s1, b1 |-> b1, t |-> t, pre |-> Snap, precur |-> cur]
Refuse(op, n, i, r, f, res) == UNCHANGED SVars /\ last' = L(op, n, i, r, f, res, "", FALSE, "")
\* the default revision a repo ends up with: the requested one ("" = the global default) if the upstream has it, else the global
\* default (checkAndSetDefaultRevision; the master / main fallbacks behind it are not reachable here: every upstream has G)
Fix(n, r) == LET e == IF r = "" THEN G ELSE r IN IF e \in Has(n) THEN e ELSE G
BadIdx(i) == IF i < 0 THEN (IF Code_NegIndexPanics THEN "panic" ELSE "err") ELSE IF i >= Len(Keys) THEN "err" ELSE "ok"

Init == /\ list = {Cfg} /\ def = Cfg /\ disk = {Cfg} /\ kdef = Cfg
        /\ drev = [NoRevs EXCEPT ![Cfg] = G] /\ cur = [NoRevs EXCEPT ![Cfg] = G]
        /\ mrevs = [NoRevs EXCEPT ![Cfg] = G] /\ krevs = [NoRevs EXCEPT ![Cfg] = G]
        /\ last = [op |-> "start", n |-> "", i |-> 0, r |-> "", f |-> FALSE, res |-> "ok", s1 |-> "", b1 |-> FALSE, t |-> "",
                   pre |-> [list |-> {}, def |-> "none", drev |-> NoRevs, kdef |-> "none", krevs |-> NoRevs, disk |-> {}], precur |-> NoRevs]

\* ---------- AddRepo(repoPath, defaultRevision): n = "bad" is a path that does not resolve ----------
Add(n, r, f) ==
   IF n \notin Names \/ n \in list THEN Refuse("add", n, 0, r, f, "err")     \* "repo path resolution failed" / "Repo already present"
   ELSE LET d == Fix(n, r)
            first == list = {}
        IN IF f /\ ((first /\ ~Code_PersistFailureIgnored) \/ ~Code_NotAtomic) THEN Refuse("add", n, 0, r, f, "err")
           ELSE /\ list' = list \cup {n} /\ disk' = disk \cup {n}
                /\ drev' = [drev EXCEPT ![n] = d] /\ cur' = [cur EXCEPT ![n] = d] /\ mrevs' = [mrevs EXCEPT ![n] = d]
                /\ def' = IF first THEN n ELSE def                          \* len(repoList) == 1: setDefaultRepo
                /\ kdef' = IF first /\ ~f THEN n ELSE kdef
                /\ krevs' = IF f THEN krevs ELSE mrevs'                     \* SetRepoDefaultRevisions(manager.defaultRevisions)
                /\ last' = L("add", n, 0, r, f, IF f THEN "err" ELSE "ok", IF f THEN "" ELSE d, ~f /\ d = G, "")

\* ---------- RemoveRepoByIndex ----------
Remove(i, f) ==
   IF BadIdx(i) # "ok" THEN Refuse("remove", "", i, "", f, BadIdx(i))
   ELSE LET n == Keys[i + 1]
            rest == list \ {n}
            elect == def = n /\ rest # {}                                    \* "the repo sitting on top of the list"
            m == IF elect THEN KeysOf(rest)[1] ELSE "none"
            touchesDef == elect \/ rest = {}
        IN IF f /\ ((touchesDef /\ ~Code_PersistFailureIgnored) \/ ~Code_NotAtomic) THEN Refuse("remove", "", i, "", f, "err")
           ELSE /\ list' = rest /\ disk' = disk \ {n}                        \* os.RemoveAll(clone dir)
                /\ drev' = [drev EXCEPT ![n] = "none"] /\ cur' = [cur EXCEPT ![n] = "none"] /\ mrevs' = [mrevs EXCEPT ![n] = "none"]
                /\ def' = IF elect THEN m ELSE IF rest = {} THEN "none" ELSE def
                /\ kdef' = IF f THEN kdef ELSE IF elect THEN m ELSE IF rest = {} THEN Cfg ELSE kdef   \* empty list: the configured default
                /\ krevs' = IF f THEN krevs ELSE mrevs'
                /\ last' = L("remove", "", i, "", f, IF f THEN "err" ELSE "ok", IF f \/ ~elect THEN "" ELSE m, FALSE, n)

\* ---------- UpdateDefaultRepoByIndex / UpdateDefaultRepo ----------
DefSet(op, nm, i, n, f) ==
   IF n = def THEN Refuse(op, nm, i, "", f, "err")                           \* "is already the default repo"
   ELSE IF f /\ ~Code_PersistFailureIgnored THEN Refuse(op, nm, i, "", f, "err")
   ELSE /\ def' = n /\ kdef' = IF f THEN kdef ELSE n
        /\ UNCHANGED <<list, drev, cur, mrevs, krevs, disk>>
        /\ last' = L(op, nm, i, "", f, "ok", "", FALSE, n)
DefIdx(i, f) == IF BadIdx(i) # "ok" THEN Refuse("defidx", "", i, "", f, BadIdx(i)) ELSE DefSet("defidx", "", i, Keys[i + 1], f)
DefName(n, f) == IF n \notin list THEN Refuse("defname", n, 0, "", f, "err") ELSE DefSet("defname", n, 0, n, f)

\* ---------- UpdateDefaultRevisionByIndex ----------
RevIdx(i, r, f) ==
   IF BadIdx(i) # "ok" THEN Refuse("revidx", "", i, r, f, BadIdx(i))
   ELSE LET n == Keys[i + 1]
        IN IF r \notin Has(n) THEN Refuse("revidx", "", i, r, f, "err")      \* "revision not found" (+ the available ones)
           ELSE IF f /\ ~Code_NotAtomic THEN Refuse("revidx", "", i, r, f, "err")
           ELSE /\ drev' = [drev EXCEPT ![n] = r] /\ mrevs' = [mrevs EXCEPT ![n] = r]
                /\ krevs' = IF f THEN krevs ELSE mrevs'
                /\ UNCHANGED <<list, def, cur, kdef, disk>>                  \* Repo.Revision is not touched
                /\ last' = L("revidx", "", i, r, f, IF f THEN "err" ELSE "ok", "", FALSE, n)

\* ---------- RefreshRepos / RefreshRepoByIndex: the upstreams do not move, nothing of the abstract state changes ----------
Refresh == UNCHANGED SVars /\ last' = L("refresh", "", 0, "", FALSE, "ok", "", FALSE, "")
RefreshIdx(i) == Refuse("refreshidx", "", i, "", FALSE, BadIdx(i))

\* ---------- GetWorkflow("<repo>/workflows/wf[@r]" | "wf[@r]"): n = "" is the default repo ----------
GetWf(n, r) ==
   LET t == IF n = "" THEN def ELSE n
   IN IF t \notin list THEN Refuse("getwf", n, 0, r, FALSE, "err")           \* unknown repo / the removed last repo still pointed to
      ELSE LET c2 == IF r # "" THEN r ELSE IF Code_StickyRevision THEN cur[t] ELSE drev[t]
               good == c2 \in Has(t)
           IN /\ cur' = IF good \/ Code_StickyRevision THEN [cur EXCEPT ![t] = c2] ELSE cur
              /\ UNCHANGED <<list, def, drev, mrevs, kdef, krevs, disk>>
              /\ last' = L("getwf", n, 0, r, FALSE, IF good THEN "ok" ELSE "err", IF good THEN c2 ELSE "", FALSE, t)

\* ---------- restart: a new manager from what is persisted (initializeRepos) ----------
Restart ==
   LET dflt == IF kdef = "none" THEN Cfg ELSE kdef
       lst == disk \cup {dflt}                                               \* the default repo is cloned again if need be
       rv(n) == Fix(n, IF krevs[n] = "none" THEN "" ELSE krevs[n])
   IN /\ list' = lst /\ disk' = lst /\ def' = dflt /\ kdef' = dflt
      /\ drev' = [n \in Names |-> IF n \in lst THEN rv(n) ELSE "none"] /\ cur' = drev'
      /\ mrevs' = [n \in Names |-> IF n \in lst THEN rv(n) ELSE krevs[n]] /\ krevs' = mrevs'
      /\ last' = L("restart", "", 0, "", FALSE, "ok", "", FALSE, "")

Idx == -1..N
AddNames == Names \cup {"bad"}
AddRevs == Revs \cup {"", "nope"}
Next == \/ \E n \in AddNames, r \in AddRevs, f \in Faults : Add(n, r, f)
        \/ \E i \in Idx, f \in Faults : Remove(i, f) \/ DefIdx(i, f)
        \/ \E n \in AddNames, f \in Faults : DefName(n, f)
        \/ \E i \in Idx, r \in Revs \cup {"nope"}, f \in Faults : RevIdx(i, r, f)
        \/ Refresh
        \/ \E i \in Idx : RefreshIdx(i)
        \/ \E n \in Names \cup {""}, r \in AddRevs : GetWf(n, r)
        \/ Restart
Spec == Init /\ [][Next]_vars

\* ---------- properties ----------
RevX == Revs \cup {"none"}
TypeOK == /\ list \subseteq Names /\ disk \subseteq Names /\ def \in Names \cup {"none"} /\ kdef \in Names \cup {"none"}
          /\ drev \in [Names -> RevX] /\ mrevs \in [Names -> RevX] /\ krevs \in [Names -> RevX] /\ cur \in [Names -> RevX \cup {"nope"}]
          /\ \A n \in Names : (n \in list) = (drev[n] # "none")
\* exactly one default repo whenever the list is not empty
OneDefault == IF list = {} THEN def = "none" ELSE def \in list
\* every repo's default revision is one its upstream has; the manager's own map says the same
RevisionsValid == \A n \in list : drev[n] \in Has(n) /\ mrevs[n] = drev[n]
\* removing the default repo elects another one (the first of the rest), says so and persists it
RemoveElects == last.op = "remove" /\ last.res = "ok" /\ last.pre.def \notin list /\ list # {}
                   => def \in list /\ def = KeysOf(list)[1] /\ last.s1 = def /\ kdef = def
\* the clones on disk are the list (what a restart rediscovers)
DiskIsList == disk = list
\* after every successful operation the persisted default is the manager's default (empty list: the configured default) ...
PersistedDefaultMatches == last.res = "ok" => kdef = IF list = {} THEN Cfg ELSE def
\* ... and so are the persisted default revisions
PersistedRevsMatch == last.res = "ok" => \A n \in list : krevs[n] = drev[n]
\* a failed operation changes nothing
FailedChangesNothing == last.res # "ok" => Snap = last.pre
\* a bad argument is an error, not a crash
NoPanic == last.res # "panic"
\* a restart restores the same list, default and default revisions
RestartRestores == last.op = "restart" /\ last.pre.list # {}
                      => list = last.pre.list /\ def = last.pre.def /\ \A n \in list : drev[n] = last.pre.drev[n]
\* a workflow looked up without a revision comes from the repo's default revision
WorkflowUsesDefault == last.op = "getwf" /\ last.r = "" /\ last.t # "" => last.res = "ok" /\ last.s1 = drev[last.t]
\* ... with a revision, from that one; a failed lookup leaves no trace
WorkflowRevisionRight == last.op = "getwf" /\ last.r # "" /\ last.res = "ok" => last.s1 = last.r
FailedLookupNoEffect == last.op = "getwf" /\ last.res # "ok" => cur = last.precur

W_PersistedDefaultMatches == Once(1, PersistedDefaultMatches)
W_PersistedRevsMatch == Once(2, PersistedRevsMatch)
W_FailedChangesNothing == Once(3, FailedChangesNothing)
W_NoPanic == Once(4, NoPanic)
W_RestartRestores == Once(5, RestartRestores)
W_WorkflowUsesDefault == Once(6, WorkflowUsesDefault)
W_FailedLookupNoEffect == Once(7, FailedLookupNoEffect)
=============================================================================
