----------------------------- MODULE OdcRunTrace ----------------------------
(***************************************************************************)
(* Trace specification for OdcRun (X07) over runs of the real ODC plugin    *)
(* against the fake ODC server (harness/cmd/odcrun).  Lines (lib/props/     *)
(* X07.py joins a request / Skip line with the Ret line that follows it):    *)
(*   Reset{scn, envs}                                                        *)
(*   Req{src, e, fn, first, m, p, runnr, f, res, before, after, [list],      *)
(*       ret, [failed, c]}   a request at the moment it takes effect (src    *)
(*                           hook | poll); ret: the hook returned on it      *)
(*   Skip{e, fn, failed, c}  a hook that returned without sending anything   *)
(*   Own{p} / Ecs{a, e, r} / PollStore                                       *)
(*   Obs{odc, hp, hpl, pp, gd, polled, notes, pub, stray}  after every step  *)
(*   Mismatch / Fin                                                          *)
(* Conformance (strict): DRIFT.  Monitor on the recorded facts only: VIOL;    *)
(* a failure a Code_* constant explains is printed as OBS.                    *)
(***************************************************************************)
EXTENDS OdcRun, Integers, Json, IOUtils

Trace == ndJsonDeserialize(IOEnv.TRACE_FILE)

VARIABLES l, scn, drifted, nviol, ndrift, mon
tvars == <<l, scn, drifted, nviol, ndrift, mon>>
Line == Trace[l]

Chk(name, cond, exempt, detail) ==
  IF cond THEN 0 ELSE IF exempt THEN (IF PrintT(<<"OBS", name, scn, l, detail>>) THEN 0 ELSE 0)
  ELSE IF PrintT(<<"VIOL", name, scn, l, detail>>) THEN 1 ELSE 1
Drift(detail) == PrintT(<<"DRIFT", scn, l, detail>>)
SeqSet(s) == {s[i] : i \in 1..Len(s)}
Pairs(s) == {<<s[i][1], s[i][2]>> : i \in 1..Len(s)}
ListOf(r) == [p \in Envs |-> IF p \in DOMAIN r THEN r[p] ELSE "-"]

(* ------------------------------ conformance ------------------------------ *)
Cont == IF Line.c = "err" THEN "err" ELSE "go"
HookReq(e) ==
  IF Idle(e) THEN Line.first /\ HookCall(e, Line.fn, Line.f, Cont)
  ELSE ~Line.first /\ (IF hook[e].todo # <<>> THEN NextCall(e, Line.f, Cont) ELSE CleanShutdown(e, Line.p, Line.f, Cont))
ReqMatch(e) ==
  /\ last'.fn = Line.fn /\ last'.m = Line.m /\ last'.res = Line.res /\ last'.runnr = Line.runnr
  /\ (Line.m # "Status" => (last'.p = Line.p /\ last'.before = Line.before /\ odc'[Line.p] = Line.after))
  /\ (last'.kind = "ret") = Line.ret
  /\ Line.ret => last'.ok = ~Line.failed
Parked(e) == IF Idle(e) THEN {} ELSE IF hook[e].todo # <<>> THEN {Head(hook[e].todo)} ELSE {"Shutdown:" \o p : p \in hook[e].tgts}

Explained ==
  CASE Line.ev = "Req" /\ Line.src = "hook" -> HookReq(Line.e) /\ ReqMatch(Line.e)
    [] Line.ev = "Req" /\ Line.src = "poll" -> PollQuery(Line.f) /\ snap'.st = ListOf(Line.list) /\ snap'.ok = (Line.res = "ok")
    [] Line.ev = "Skip" -> HookCall(Line.e, Line.fn, "none", Cont) /\ last'.kind = "ret" /\ last'.m = "none" /\ last'.ok = ~Line.failed
    [] Line.ev = "Own" -> Fail(Line.p)
    [] Line.ev = "Ecs" -> (CASE Line.a = "NewRun" -> NewRun(Line.e) /\ rn'[Line.e] = Line.r
                             [] Line.a = "GoError" -> GoError(Line.e)
                             [] Line.a = "Destroy" -> Destroy(Line.e)
                             [] OTHER -> FALSE)
    [] Line.ev = "PollStore" -> PollStore
    [] Line.ev = "Obs" -> /\ \A e \in Envs : Line.odc[e] = odc[e] /\ SeqSet(Line.hp[e]) = Parked(e) /\ Line.gd[e] = GetData[e]
                          /\ Line.pp = (IF pc = "idle" THEN "Status" ELSE "snap") /\ Line.stray = 0
                          /\ (Line.polled => (last.kind = "polls" /\ Pairs(Line.notes) = last.notes))
                          /\ UNCHANGED vars
    [] Line.ev = "Fin" -> UNCHANGED vars
    [] OTHER -> FALSE

(* ------------------------------ monitor (recorded facts only) ------------------------------ *)
MonInit == [live |-> Envs, rn |-> [e \in Envs |-> 0], odc |-> [e \in Envs |-> "none"],
            fn |-> [e \in Envs |-> "none"],        \* the hook in progress
            bad |-> [e \in Envs |-> FALSE],        \* a call of the invocation in progress has failed
            rdy |-> [e \in Envs |-> FALSE],        \* the partition was READY when the invocation in progress began
            shut |-> {},                            \* partitions whose last Shutdown succeeded, not Run since
            seen |-> None, snapst |-> None, snapok |-> FALSE]

MonHookReq ==
  LET e == Line.e
      p == Line.p
      failed == Line.res # "ok"
      bad0 == IF Line.first THEN FALSE ELSE mon.bad[e]
      bad2 == bad0 \/ failed
      rdy == IF Line.first THEN Line.before = "READY" ELSE mon.rdy[e]
      own == IF Line.m = "Status" THEN mon.odc[e] ELSE IF p = e THEN Line.after ELSE mon.odc[e]      \* the caller's partition after this call
      v == (IF Line.m # "Status"
              THEN Chk("RequestNamesCaller",
                       /\ (p = e \/ (Line.fn = "EnsureCleanup" /\ Line.m = "Shutdown" /\ p \notin mon.live))
                       /\ (Line.fn \in {"Start", "Stop"} => Line.runnr = mon.rn[e]),
                       FALSE, <<e, Line.fn, Line.m, p, Line.runnr, mon.rn[e]>>)
              ELSE 0)
         + (IF Line.fn \notin Cleanups
              THEN Chk("FailStopsSequence", ~bad0, Code_StopIgnoresSetProperties /\ Line.fn = "Stop" /\ Line.m = "Stop", <<e, Line.fn, Line.m>>) ELSE 0)
         + (IF Line.m = "Start" THEN Chk("StartOnlyReady", rdy, Code_NoStateCheck, <<e, Line.before>>) ELSE 0)
         + (IF Line.m = "Shutdown"
              THEN Chk("ShutdownAtMostOnce", p \notin mon.shut, Code_CleanupShutsDownAgain /\ Line.fn \in Cleanups, <<e, Line.fn, p>>) ELSE 0)
         + (IF Line.ret
              THEN Chk("OkImpliesCallsOk", Line.failed \/ ~bad2,
                       (Code_StopIgnoresSetProperties /\ Line.fn = "Stop") \/ (Code_CleanupClobbersErrors /\ Line.fn \in Cleanups), <<e, Line.fn>>)
                   + Chk("CallsOkImpliesOk", bad2 \/ ~Line.failed, FALSE, <<e, Line.fn>>)
                   + (IF Line.fn \in Cleanups /\ ~Line.failed
                        THEN Chk("CleanupLeavesNothing", own = "none", Code_CleanupClobbersErrors /\ bad2, <<e, Line.fn, own>>) ELSE 0)
                   + (IF Line.fn = "PartitionTerminate" /\ ~Line.failed
                        THEN Chk("TerminateLeavesNothing", own = "none", FALSE, <<e, own>>) ELSE 0)
              ELSE 0)
  IN /\ nviol' = nviol + v
     /\ mon' = [mon EXCEPT !.bad = [@ EXCEPT ![e] = bad2], !.rdy = [@ EXCEPT ![e] = rdy], !.fn = [@ EXCEPT ![e] = IF Line.ret THEN "none" ELSE Line.fn],
                           !.odc = IF Line.m = "Status" THEN @ ELSE [@ EXCEPT ![p] = Line.after],
                           !.shut = IF Line.m = "Shutdown" /\ Line.res = "ok" THEN @ \cup {p}
                                    ELSE IF Line.m = "Run" /\ Line.after # Line.before THEN @ \ {p} ELSE @]

MonObs ==
  LET notes == Pairs(Line.notes)
      v == IF ~Line.polled THEN 0
           ELSE Chk("NotifiedAsPublished", Pairs(Line.pub) = notes, FALSE, <<Line.pub, Line.notes>>)
              + Chk("NotifyOnlyOnChange", \A n \in notes : n[1] \in Envs /\ mon.snapst[n[1]] = n[2] /\ mon.seen[n[1]] # n[2], FALSE, <<Line.notes, mon.snapst, mon.seen>>)
              + (IF mon.snapok
                   THEN Chk("NotifyAcrossFailedPoll",
                            \A p \in Envs : (mon.snapst[p] = "ERROR" /\ mon.seen[p] \notin {"-", "ERROR"}) => <<p, "ERROR">> \in notes,
                            Code_FailedPollWipesCache, <<Line.notes, mon.snapst, mon.seen>>)
                      + Chk("NotifyOnFirstSighting",
                            \A p \in Envs : (mon.snapst[p] = "ERROR" /\ mon.seen[p] = "-") => <<p, "ERROR">> \in notes,
                            Code_FirstSightingSilent, <<Line.notes, mon.snapst, mon.seen>>)
                      + Chk("CacheFaithful", \A p \in Envs : Line.gd[p] = mon.snapst[p], FALSE, <<Line.gd, mon.snapst>>)
                   ELSE 0)
      \* requests the hooks have SENT and that are parked in the server (they are judged when sent, not only when they take effect)
      u == LET Pk(i) == Line.hpl[i]      \* <<caller, hook, method, partition>>
           IN Chk("RequestNamesCaller",
                  \A i \in 1..Len(Line.hpl) : Pk(i)[3] = "Status" \/ Pk(i)[4] = Pk(i)[1]
                                                \/ (Pk(i)[2] = "EnsureCleanup" /\ Pk(i)[3] = "Shutdown" /\ Pk(i)[4] \notin mon.live),
                  FALSE, <<"sent", Line.hpl, mon.live>>)
            + Chk("FailStopsSequence",
                  \A i \in 1..Len(Line.hpl) :
                      (Pk(i)[1] \in Envs /\ mon.bad[Pk(i)[1]] /\ mon.fn[Pk(i)[1]] = Pk(i)[2])
                        => (Pk(i)[2] \in Cleanups \/ (Code_StopIgnoresSetProperties /\ Pk(i)[2] = "Stop")),
                  FALSE, <<"sent", Line.hpl>>)
  IN /\ nviol' = nviol + v + u
     /\ mon' = [mon EXCEPT !.odc = [e \in Envs |-> Line.odc[e]],
                           !.seen = IF Line.polled /\ mon.snapok THEN mon.snapst ELSE @]

Mon ==
  CASE Line.ev = "Req" /\ Line.src = "hook" -> MonHookReq
    [] Line.ev = "Req" /\ Line.src = "poll" -> mon' = [mon EXCEPT !.snapst = ListOf(Line.list), !.snapok = (Line.res = "ok")] /\ UNCHANGED nviol
    [] Line.ev = "Obs" -> MonObs
    [] Line.ev = "Ecs" -> /\ mon' = [mon EXCEPT !.rn = IF Line.a = "NewRun" THEN [@ EXCEPT ![Line.e] = Line.r] ELSE @,
                                                !.live = IF Line.a = "Destroy" THEN @ \ {Line.e} ELSE @]
                          /\ UNCHANGED nviol
    [] OTHER -> UNCHANGED <<mon, nviol>>

(* ------------------------------ the trace behaviour ------------------------------ *)
TReset ==
  /\ Line.ev = "Reset"
  /\ scn' = Line.scn /\ drifted' = FALSE /\ mon' = MonInit
  /\ odc' = [p \in Envs |-> "none"] /\ ph' = [e \in Envs |-> "new"] /\ rn' = [e \in Envs |-> 0] /\ nextrun' = 1
  /\ pinit' = [e \in Envs |-> FALSE] /\ hook' = [e \in Envs |-> NoHook]
  /\ pc' = "idle" /\ snap' = [ok |-> FALSE, st |-> None] /\ cache' = [has |-> FALSE, ok |-> FALSE, st |-> None]
  /\ seen' = None /\ shut' = {} /\ nf' = 0 /\ nown' = 0 /\ npoll' = 0 /\ nclean' = 0 /\ last' = NoStep
  /\ UNCHANGED <<nviol, ndrift>>
TOk == /\ Line.ev # "Reset" /\ ~drifted /\ Explained /\ Mon /\ UNCHANGED <<scn, drifted, ndrift>>
TDrift == /\ Line.ev # "Reset" /\ ~drifted /\ ~ENABLED Explained
          /\ Drift(<<Line.ev, odc, ph, [e \in Envs |-> Parked(e)], pc, GetData, IF Line.ev = "Mismatch" THEN Line.why ELSE "", last.notes>>)
          /\ drifted' = TRUE /\ ndrift' = ndrift + 1 /\ Mon /\ UNCHANGED <<vars, scn>>
TLost == /\ Line.ev # "Reset" /\ drifted /\ Mon /\ UNCHANGED <<vars, scn, drifted, ndrift>>

TraceInit == Init /\ l = 1 /\ scn = -1 /\ drifted = FALSE /\ nviol = 0 /\ ndrift = 0 /\ mon = MonInit
TraceNext == l <= Len(Trace) /\ (TReset \/ TOk \/ TDrift \/ TLost) /\ l' = l + 1
TraceSpec == TraceInit /\ [][TraceNext]_<<vars, tvars>>
PrintEnd == (l = Len(Trace) + 1) => PrintT(<<"END", Len(Trace), nviol>>)
=============================================================================
