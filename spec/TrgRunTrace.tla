---------------------------- MODULE TrgRunTrace -----------------------------
(***************************************************************************)
(* Trace specification for TrgRun (X04) over runs of the real TRG plugin    *)
(* against the fake trigger service (harness/cmd/trgrun).  Lines:           *)
(*   Reset{scn, glob, spaced}                                               *)
(*   Ecs{a, e, r}            NewRun | EndRun | GoError | Destroy             *)
(*   Req{src, e, fn, c, m, r, glb, f, res, tbl}   a request at the moment it *)
(*                           takes effect in the service (src hook | poll)   *)
(*   Skip{e, fn, c}          a hook that returned without sending anything   *)
(*   PollReply               the RunList reply was delivered                 *)
(*   Obs{pstop, punl, stray, tbl, pp, cache, emap, edata, hret, he, hfn}     *)
(*                           after every step: the plugin's pending maps,    *)
(*                           the service's table, the request the poller is  *)
(*                           parked at, GetData, GetEnvironmentsData, how    *)
(*                           the hook returned (none = still in progress)    *)
(*   Mismatch{why}           the driver could not perform the step           *)
(*   End                                                                     *)
(* Conformance (strict): every line must be the model action it names, with  *)
(* the recorded request / result / table, and every observation must equal   *)
(* the model's state; otherwise DRIFT and the run is lost until the next     *)
(* Reset.  Monitor: the properties are evaluated on the RECORDED facts only  *)
(* (variable mon), independent of the model state, as soft invariants: VIOL. *)
(* A failure that one of the Code_* constants explains (the code as it is)   *)
(* is printed as OBS instead: the deviation reproduced on the real code.     *)
(***************************************************************************)
EXTENDS TrgRun, Integers, Json, IOUtils, TLC

Trace == ndJsonDeserialize(IOEnv.TRACE_FILE)

VARIABLES l, scn, drifted, nviol, ndrift, mon
tvars == <<l, scn, drifted, nviol, ndrift, mon>>
Line == Trace[l]

Chk(name, cond, exempt, detail) ==
  IF cond THEN 0 ELSE IF exempt THEN (IF PrintT(<<"OBS", name, scn, l, detail>>) THEN 0 ELSE 0)
  ELSE IF PrintT(<<"VIOL", name, scn, l, detail>>) THEN 1 ELSE 1
Drift(detail) == PrintT(<<"DRIFT", scn, l, detail>>)

SeqSet(s) == {s[i] : i \in 1..Len(s)}
Triples(t) == {<<t[i][1], t[i][2], t[i][3]>> : i \in 1..Len(t)}
Val(n) == IF n = 0 THEN {} ELSE {n}

(* ------------------------------ conformance ------------------------------ *)
HookAct(fn, e, f, c) ==
  CASE fn = "PrepareForRun" -> Prepare(e, f, c)
    [] fn = "RunLoad" -> LoadHook(e, f, c)
    [] fn = "RunStart" -> StartHook(e, f, c)
    [] fn = "RunStop" -> StopHook(e, f, c)
    [] fn = "RunUnload" -> UnloadHook(e, f, c)
    [] fn = "Cleanup" -> IF cl[e] = <<>> THEN CleanupFirst(e, f) ELSE CleanupNext(e, f)
    [] OTHER -> FALSE
\* a continuation is recorded only where the scenario had one
Cont == IF Line.c = "err" THEN "err" ELSE "go"
ReqMatch == /\ last'.m = Line.m /\ last'.r = Line.r /\ last'.res = Line.res
            /\ (Line.m \in {"RunStart", "RunStop"} => last'.glb = Line.glb)
            /\ {<<r, card'[r], tbl'[r]>> : r \in {x \in Runs : tbl'[x] # "none"}} = Triples(Line.tbl)

PollerAt == CASE pc = "idle" -> <<"RunList", 0>>
              [] pc = "reply" -> <<"held", 0>>
              [] OTHER -> IF Head(todo).st = "R" THEN <<"RunStop", Head(todo).r>> ELSE <<"RunUnload", Head(todo).r>>
HookRet == IF Line.he = "" THEN "none"
           ELSE IF last.e # Line.he THEN "?" ELSE IF ~last.done THEN "none" ELSE IF last.cerr THEN "fail" ELSE "ok"
ObsMatch ==
  /\ \A e \in Envs : Val(Line.pstop[e]) = pstop[e] /\ Val(Line.punl[e]) = punl[e] /\ Line.emap[e] = emap[e]
  /\ Line.stray = 0
  /\ Triples(Line.tbl) = Snapshot
  /\ Line.pp = PollerAt
  /\ Triples(Line.cache) = cache
  /\ SeqSet(Line.edata) = EnvData
  /\ Line.hret = HookRet

\* the model step that explains the line
Explained ==
  CASE Line.ev = "Req" /\ Line.src = "hook" -> HookAct(Line.fn, Line.e, Line.f, Cont) /\ ReqMatch
    [] Line.ev = "Req" /\ Line.src = "poll" ->
         (CASE Line.m = "RunList" -> PollQuery(Line.f)
            [] Line.m = "RunStop" -> RecStop(Line.f) /\ ReqMatch
            [] Line.m = "RunUnload" -> RecUnload(Line.f) /\ ReqMatch
            [] OTHER -> FALSE)
    [] Line.ev = "Skip" -> HookAct(Line.fn, Line.e, "none", "go") /\ last'.m = "none"
    [] Line.ev = "Ecs" ->
         (CASE Line.a = "NewRun" -> NewRun(Line.e) /\ rn'[Line.e] = Line.r
            [] Line.a = "EndRun" -> EndRun(Line.e)
            [] Line.a = "GoError" -> GoError(Line.e)
            [] Line.a = "Destroy" -> Destroy(Line.e)
            [] OTHER -> FALSE)
    [] Line.ev = "PollReply" -> PollReply
    [] Line.ev = "Obs" -> ObsMatch /\ UNCHANGED vars
    [] Line.ev = "End" -> UNCHANGED vars
    [] OTHER -> FALSE     \* Mismatch, Stuck, anything unknown

(* ------------------------------ monitor (recorded facts only) ------------------------------ *)
MonInit(g, sp) ==
  [glob |-> g, spaced |-> sp, rn |-> [e \in Envs |-> 0], live |-> Envs, own |-> {}, stH |-> {}, stP |-> {},
   ps |-> [e \in Envs |-> 0], pu |-> [e \in Envs |-> 0], ps0 |-> [e \in Envs |-> 0], pu0 |-> [e \in Envs |-> 0],
   tbl |-> {}, nofail |-> TRUE, lostE |-> {}, incl |-> {}, cok |-> [e \in Envs |-> TRUE], cfail |-> {},
   snap |-> {}, qok |-> FALSE, fresh |-> FALSE, prev |-> <<0, "na">>, okS |-> {}, okL |-> {}]

OwnerOf(r) == IF \E p \in mon.own : p[1] = r THEN (CHOOSE p \in mon.own : p[1] = r)[2] ELSE NoEnv
RunsOfEnv(e) == {p[1] : p \in {q \in mon.own : q[2] = e}}
MaxOf(S) == CHOOSE x \in S : \A y \in S : y <= x
MonActive == {mon.rn[e] : e \in mon.live} \ {0}

\* a request line
MonReq ==
  LET e == Line.e
      r == Line.r
      hook == Line.src = "hook"
      first == hook /\ e \notin mon.incl                       \* first request of this hook invocation
      p0s == IF first THEN mon.ps[e] ELSE mon.ps0[e]            \* the pending maps when the invocation began
      p0u == IF first THEN mon.pu[e] ELSE mon.pu0[e]
      t == Triples(Line.tbl)
      v == (IF Line.m = "RunStop"
              THEN Chk("NoStopAfterStopped", r \notin (mon.stH \cup mon.stP),
                       \/ (~hook /\ Code_ReconcileStaleList)
                       \/ (hook /\ Line.fn = "Cleanup" /\ Code_ReconcileKeepsPending /\ r \in mon.stP /\ r \notin mon.stH),
                       <<Line.src, Line.fn, r>>)
              ELSE 0)
         + (IF hook /\ Line.m \in {"RunStop", "RunUnload"}
              THEN Chk("StopOnlyPending", IF Line.m = "RunStop" THEN p0s = r ELSE p0u = r,
                       Code_StopHookUnconditional /\ Line.fn \in {"RunStop", "RunUnload"}, <<Line.fn, Line.m, r, p0s, p0u>>)
              ELSE 0)
         + (IF Line.m \in {"RunLoad", "RunUnload"}
              THEN Chk("StandaloneNeverLoaded", OwnerOf(r) # NoEnv /\ mon.glob[OwnerOf(r)], FALSE, <<Line.src, Line.fn, Line.m, r>>)
              ELSE 0)
         + (IF ~hook /\ Line.m \in {"RunStop", "RunUnload"}
              THEN Chk("ReconcileSparesActive", r \notin MonActive, FALSE, <<Line.m, r, MonActive>>)
                   + (IF Line.m = "RunUnload" /\ mon.prev[1] = r
                        THEN Chk("ReconcileUnloadsStoppedOnly", mon.prev[2] = "ok", Code_ReconcileIgnoresRc, <<r, mon.prev[2]>>)
                        ELSE 0)
              ELSE 0)
  IN /\ nviol' = nviol + v
     /\ mon' = [mon EXCEPT
          !.tbl = IF Line.m = "RunList" THEN @ ELSE t,
          !.snap = IF Line.m = "RunList" THEN t ELSE @,
          !.qok = IF Line.m = "RunList" THEN Line.res = "ok" ELSE @,
          !.nofail = @ /\ (Line.m = "RunList" \/ Line.res = "ok"),
          !.stH = IF hook /\ Line.m = "RunStop" /\ Line.res = "ok" THEN @ \cup {r} ELSE @,
          !.stP = IF ~hook /\ Line.m = "RunStop" /\ Line.res = "ok" THEN @ \cup {r} ELSE @,
          !.prev = IF ~hook /\ Line.m = "RunStop" THEN <<r, Line.res>> ELSE IF ~hook THEN <<0, "na">> ELSE @,
          !.lostE = IF hook /\ Line.f = "lost" /\ Line.m # "PrepareForRun" THEN @ \cup {e} ELSE @,
          !.incl = IF hook THEN @ \cup {e} ELSE @,
          !.ps0 = IF first THEN [@ EXCEPT ![e] = mon.ps[e]] ELSE @,
          !.pu0 = IF first THEN [@ EXCEPT ![e] = mon.pu[e]] ELSE @,
          !.cok = IF hook THEN [@ EXCEPT ![e] = (IF first THEN TRUE ELSE @) /\ Line.res = "ok"] ELSE @,
          !.cfail = IF hook /\ Line.fn = "Cleanup" /\ Line.res # "ok" THEN @ \cup {r} ELSE @,
          !.okS = IF Line.m = "RunStart" /\ Line.res = "ok" THEN @ \cup {<<r, e>>} ELSE @,
          !.okL = IF Line.m = "RunLoad" /\ Line.res = "ok" THEN @ \cup {<<r, e>>} ELSE @,
          !.fresh = FALSE]

\* an observation line
MonObs ==
  LET t == Triples(Line.tbl)
      retE == IF Line.he # "" /\ Line.hret # "none" THEN {Line.he} ELSE {}     \* the hook of this environment has returned
      incl2 == mon.incl \ retE
      Left(e) == {x \in t : OwnerOf(x[1]) = e}
      stable == {e \in mon.live : e \notin incl2}
      Kept(e, x) == (x[3] = "R" => Line.pstop[e] = x[1]) /\ (x[2] = "G" => Line.punl[e] = x[1])
      v == Chk("PendingExact",
               mon.nofail => \A e \in stable :
                  /\ Val(Line.pstop[e]) = {x[1] : x \in {y \in Left(e) : y[3] = "R"}}
                  /\ Val(Line.punl[e]) = {x[1] : x \in {y \in Left(e) : y[2] = "G"}},
               FALSE, <<Line.pstop, Line.punl, t>>)
         + Chk("PendingJustified",
               \A e \in Envs : /\ (Line.pstop[e] # 0 => <<Line.pstop[e], e>> \in mon.okS)
                                /\ (Line.punl[e] # 0 => <<Line.punl[e], e>> \in mon.okL),
               FALSE, <<Line.pstop, Line.punl, mon.okS, mon.okL>>)
         + Chk("NothingForgotten",
               \A e \in stable \ mon.lostE : \A x \in {y \in Left(e) : y[1] \notin mon.cfail} : Kept(e, x),
               Code_OnePendingPerEnv /\ \A e \in stable \ mon.lostE : \A x \in {y \in Left(e) : y[1] \notin mon.cfail} :
                                            Kept(e, x) \/ x[1] # MaxOf(RunsOfEnv(e)),
               <<Line.pstop, Line.punl, t>>)
         + Chk("NothingForgottenByCleanup",
               \A e \in stable \ mon.lostE : \A x \in {y \in Left(e) : y[1] \in mon.cfail} : Kept(e, x),
               Code_CleanupForgetsFirst, <<Line.pstop, Line.punl, t, mon.cfail>>)
         + (IF mon.fresh /\ mon.qok
              THEN Chk("CacheFaithful", Triples(Line.cache) = mon.snap,
                       Code_ListParserDropsSpaced /\ mon.spaced /\ Triples(Line.cache) = {x \in mon.snap : x[2] # "G"},
                       <<Line.cache, mon.snap>>)
              ELSE 0)
         + (IF mon.fresh
              THEN Chk("EnvDataMeaningful", SeqSet(Line.edata) = {e \in Envs : Line.emap[e] # 0},
                       Code_EnvDataInverted /\ SeqSet(Line.edata) = {e \in Envs : Line.emap[e] = 0}, <<Line.edata, Line.emap>>)
              ELSE 0)
      \* the request the poller has sent and is parked at (it is judged when it is sent, not only when it takes effect)
      u == IF Line.pp[1] \in {"RunStop", "RunUnload"}
             THEN Chk("ReconcileSparesActive", Line.pp[2] \notin MonActive, FALSE, <<"sent", Line.pp[1], Line.pp[2], MonActive>>)
                  + (IF Line.pp[1] = "RunUnload"
                       THEN Chk("StandaloneNeverLoaded", OwnerOf(Line.pp[2]) # NoEnv /\ mon.glob[OwnerOf(Line.pp[2])], FALSE,
                                <<"poll", "sent", Line.pp[1], Line.pp[2]>>)
                       ELSE 0)
             ELSE 0
      \* a Cleanup all of whose calls succeeded has just returned: nothing of the environment may be left
      \* (unless a reply to the environment was lost before: then the plugin cannot know)
      w == IF retE # {} /\ Line.hfn = "Cleanup" /\ mon.cok[Line.he] /\ Line.he \notin mon.lostE
             THEN LET e == Line.he
                      left == {x[1] : x \in Left(e)}
                  IN Chk("CleanupLeavesNothing", left = {},
                         \A r \in left : \/ (Code_CleanupForgetsFirst /\ r \in mon.cfail)
                                         \/ (Code_OnePendingPerEnv /\ r # MaxOf(RunsOfEnv(e))),
                         <<e, left, mon.cfail>>)
             ELSE 0
  IN /\ mon' = [mon EXCEPT !.ps = Line.pstop, !.pu = Line.punl, !.tbl = t, !.incl = incl2, !.fresh = FALSE]
     /\ nviol' = nviol + v + w + u

MonEcs ==
  /\ mon' = [mon EXCEPT
       !.rn = CASE Line.a = "NewRun" -> [@ EXCEPT ![Line.e] = Line.r]
                [] Line.a \in {"EndRun", "Destroy"} -> [@ EXCEPT ![Line.e] = 0]
                [] OTHER -> @,
       !.own = IF Line.a = "NewRun" THEN @ \cup {<<Line.r, Line.e>>} ELSE @,
       !.live = IF Line.a = "Destroy" THEN @ \ {Line.e} ELSE @]
  /\ UNCHANGED nviol

Mon ==
  CASE Line.ev = "Req" -> MonReq
    [] Line.ev = "Obs" -> MonObs
    [] Line.ev = "Ecs" -> MonEcs
    [] Line.ev = "Skip" -> mon' = [mon EXCEPT !.incl = @ \cup {Line.e}, !.cok = [@ EXCEPT ![Line.e] = TRUE],
                                              !.ps0 = [@ EXCEPT ![Line.e] = mon.ps[Line.e]], !.pu0 = [@ EXCEPT ![Line.e] = mon.pu[Line.e]]]
                           /\ UNCHANGED nviol
    [] Line.ev = "PollReply" -> mon' = [mon EXCEPT !.fresh = TRUE] /\ UNCHANGED nviol
    [] OTHER -> UNCHANGED <<mon, nviol>>

(* ------------------------------ the trace behaviour ------------------------------ *)
TReset ==
  /\ Line.ev = "Reset"
  /\ scn' = Line.scn /\ drifted' = FALSE /\ mon' = MonInit(Line.glob, Line.spaced)
  /\ glob' = [e \in Envs |-> Line.glob[e]] /\ spaced' = Line.spaced
  /\ ph' = [e \in Envs |-> "conf"] /\ rn' = [e \in Envs |-> 0] /\ nextrun' = 1 /\ owner' = [r \in Runs |-> NoEnv]
  /\ pstop' = [e \in Envs |-> {}] /\ punl' = [e \in Envs |-> {}] /\ cl' = [e \in Envs |-> <<>>] /\ cok' = [e \in Envs |-> TRUE]
  /\ tbl' = [r \in Runs |-> "none"] /\ card' = [r \in Runs |-> "-"]
  /\ pc' = "idle" /\ infl' = {} /\ qok' = FALSE /\ polled' = FALSE /\ cache' = {} /\ emap' = [e \in Envs |-> 0] /\ todo' = <<>>
  /\ nf' = 0 /\ nofail' = TRUE /\ lost' = [e \in Envs |-> FALSE] /\ clean' = [e \in Envs |-> FALSE] /\ stopped' = {} /\ cfail' = {} /\ okStart' = {} /\ okLoad' = {}
  /\ last' = NoStep
  /\ UNCHANGED <<nviol, ndrift>>

TOk == /\ Line.ev # "Reset" /\ ~drifted /\ Explained /\ Mon /\ UNCHANGED <<scn, drifted, ndrift>>
TDrift == /\ Line.ev # "Reset" /\ ~drifted /\ ~ENABLED Explained
          /\ Drift(<<Line.ev, IF Line.ev = "Obs" THEN <<pstop, punl, Snapshot, PollerAt, cache, emap, EnvData, HookRet>>
                               ELSE IF Line.ev = "Mismatch" THEN <<Line.why>> ELSE <<ph, pc, todo>>>>)
          /\ drifted' = TRUE /\ ndrift' = ndrift + 1 /\ Mon /\ UNCHANGED <<vars, scn>>
TLost == /\ Line.ev # "Reset" /\ drifted /\ Mon /\ UNCHANGED <<vars, scn, drifted, ndrift>>

TraceInit == Init /\ l = 1 /\ scn = -1 /\ drifted = FALSE /\ nviol = 0 /\ ndrift = 0
             /\ mon = MonInit([e \in Envs |-> FALSE], FALSE)
TraceNext == l <= Len(Trace) /\ (TReset \/ TOk \/ TDrift \/ TLost) /\ l' = l + 1
TraceSpec == TraceInit /\ [][TraceNext]_<<vars, tvars>>
PrintEnd == (l = Len(Trace) + 1) => PrintT(<<"END", Len(Trace), nviol>>)
=============================================================================
