------------------------------- MODULE TrgRun -------------------------------
(***************************************************************************)
(* Beyond the listed properties (DESIGN.md section 5), X04: the run         *)
(* lifecycle the TRG integration plugin drives on the trigger service.      *)
(*   core/integration/trg/plugin.go                                         *)
(*     CallStack: PrepareForRun, RunLoad, RunStart, RunStop, RunUnload,     *)
(*       Cleanup (there is no EnsureRunStop / EnsureRunUnload)               *)
(*     bookkeeping: pendingRunStops, pendingRunUnloads (envId -> run)        *)
(*     Init: polling goroutine { queryRunList(); reconcile() }               *)
(*     queryRunList: RunList -> parseRunList (trgutil.go) -> cachedStatus    *)
(*     reconcile: RunStop / RunUnload for every cached run whose number is   *)
(*       not the current run number of an environment of the manager         *)
(*     GetData / GetEnvironmentsData: what the GUI is shown                  *)
(* and the trigger service's own run table.                                  *)
(*                                                                           *)
(* One action per linearization point: one gRPC call = one action (the       *)
(* request takes effect in the service, the reply is processed by the        *)
(* plugin); a failure of the service is a separate outcome (parameter f) of  *)
(* that action:  none - the run table decides (legal: rc 0, else refused     *)
(* with rc # 0);  rc - refused although legal;  err - gRPC error, no effect; *)
(* lost - executed, but the reply is a gRPC error.  RunList is two points:   *)
(* the snapshot in the service (PollQuery) and the arrival of the reply,     *)
(* after which the poller reads the active run numbers (PollReply).          *)
(*                                                                           *)
(* The environment is an abstraction of docs/handbook/operation_order.md:    *)
(* conf -NewRun-> sor -RunLoad-> loaded -RunStart-> run -RunStop-> eor       *)
(* -RunUnload-> eor2 -EndRun-> conf; a failed hook either lets the           *)
(* transition go on (non-critical, c = "go") or sends the environment to     *)
(* ERROR (c = "err"); GO_ERROR at any time in a run (the run number stays:   *)
(* environment.go clears it after STOP_ACTIVITY only); Cleanup once the stop *)
(* hook is past, in CONFIGURED and in ERROR; Destroy from CONFIGURED/ERROR.  *)
(*                                                                           *)
(* Deviations of the code from the ideal are behind Code_* constants (TRUE = *)
(* the code as it is).                                                       *)
(***************************************************************************)
EXTENDS Naturals, FiniteSets, Sequences, TLC

CONSTANTS Envs,        \* environment ids
          GlobalSets,  \* which environments run global runs: one element of this set of subsets of Envs is chosen initially
          FaultKinds,  \* the faults the service may show besides "none": subset of {"rc", "err", "lost"}
          MaxRun,      \* run numbers 1..MaxRun are handed out (model finiteness)
          MaxFaults,   \* bound on injected faults (rc/err/lost) per behaviour (finite by construction)
          SpacedChoices,  \* subset of BOOLEAN: RunList separates detectors with ", " (TRUE, what ctpd prints) or "," (FALSE)
          Code_StopHookUnconditional,
              \* RunStop / RunUnload hooks send their request for run_number whatever pendingRunStops / pendingRunUnloads say
          Code_CleanupForgetsFirst,
              \* Cleanup deletes the pending entry BEFORE the call and ignores the outcome: a failed stop/unload is forgotten
          Code_OnePendingPerEnv,
              \* the pending maps hold one run per environment: a later run of the environment overwrites an entry that a failed
              \* stop/unload left behind, and a successful stop/unload deletes the environment's entry whatever run it names
          Code_ReconcileStaleList,
              \* reconcile acts on the list cached by the last poll without looking at the service again: a run the environment
              \* has stopped and left in the meantime is stopped/unloaded a second time
          Code_ReconcileIgnoresRc,
              \* reconcile checks only the gRPC error of its RunStop ("TODO: Response's RC should also be checked"): after a
              \* refused stop of a global run it goes on to unload it
          Code_ReconcileKeepsPending,
              \* reconcile does not touch the pending maps: a run it has stopped/unloaded stays pending, and a later Cleanup of the
              \* environment sends the request again
          Code_ListParserDropsSpaced,
              \* parseRunLine splits the line at white space first: with the documented ", " between detectors the fourth column
              \* is "its," and the empty name after the comma is no detector - the whole line is dropped
          Code_EnvDataInverted
              \* GetEnvironmentsData: `if run, ok := envMap[envId]; !ok` - answers for the environments that are NOT in the map

Runs == 1..MaxRun
Faults == {"none"} \cup FaultKinds
NoEnv == "-"

VARIABLES
  glob,     \* glob[e]: the environment's runs are global (trg_global_run_enabled = "true", two detectors); else standalone
  spaced,   \* format of RunList replies in this behaviour
  ph,       \* ph[e]: conf | sor | loaded | run | eor | eor2 | err | gone
  rn,       \* rn[e]: current run number as the environment manager reports it (0 = none)
  nextrun,  \* next fresh run number
  owner,    \* owner[r]: the environment run r was given to (history)
  pstop,    \* pstop[e]: runs in pendingRunStops for e (as is: at most one)
  punl,     \* punl[e]: runs in pendingRunUnloads for e
  cl,       \* cl[e]: what a Cleanup in progress has still to do: sequence of <<"stop"|"unl", r>>; cok[e]: its calls so far succeeded
  cok,
  tbl,      \* the service's run table: tbl[r] in none | L | R
  card,     \* card[r] in - | S | G
  pc,       \* poller: idle (RunList under way) | reply (RunList has taken effect, reply in flight) | rec (reconciling)
  infl,     \* the RunList reply in flight: set of <<r, card, state>>
  qok,      \* ... and whether it is a reply at all
  polled,   \* cachedStatus is not nil
  cache,    \* cachedStatus.Structured: set of <<r, card, state>>
  emap,     \* cachedStatus.EnvMap: emap[e] = run (0 = no entry)
  todo,     \* reconcile: cached runs still to be treated, each [r, card, st, prev]; st is the loop's local copy of the state
  nf,       \* faults injected so far
  nofail,   \* no request has failed so far (history)
  lost,     \* lost[e]: a reply to one of e's hook requests was lost (history)
  clean,    \* clean[e]: the last thing e did was a Cleanup all of whose calls succeeded (history)
  stopped,  \* runs for which the plugin has seen a successful RunStop (history)
  cfail,    \* runs for which a request of a Cleanup failed (history)
  okStart,  \* runs whose RunStart / RunLoad the plugin has seen succeed (history)
  okLoad,
  last      \* the step just taken (history; the request-level properties speak about it)

vars == <<glob, spaced, ph, rn, nextrun, owner, pstop, punl, cl, cok, tbl, card, pc, infl, qok, polled, cache, emap, todo, nf, nofail,
          lost, clean, stopped, cfail, okStart, okLoad, last>>

NoStep == [src |-> "none", e |-> NoEnv, fn |-> "none", m |-> "none", r |-> 0, glb |-> FALSE, res |-> "none",
           wasPend |-> TRUE, wasStopped |-> FALSE, wasActive |-> FALSE, prev |-> "na", done |-> TRUE, cerr |-> FALSE, snap |-> {}]

Init ==
  /\ \E G \in GlobalSets : glob = [e \in Envs |-> e \in G]
  /\ spaced \in SpacedChoices
  /\ ph = [e \in Envs |-> "conf"] /\ rn = [e \in Envs |-> 0] /\ nextrun = 1 /\ owner = [r \in Runs |-> NoEnv]
  /\ pstop = [e \in Envs |-> {}] /\ punl = [e \in Envs |-> {}] /\ cl = [e \in Envs |-> <<>>] /\ cok = [e \in Envs |-> TRUE]
  /\ tbl = [r \in Runs |-> "none"] /\ card = [r \in Runs |-> "-"]
  /\ pc = "idle" /\ infl = {} /\ qok = FALSE /\ polled = FALSE /\ cache = {} /\ emap = [e \in Envs |-> 0] /\ todo = <<>>
  /\ nf = 0 /\ nofail = TRUE /\ lost = [e \in Envs |-> FALSE] /\ clean = [e \in Envs |-> FALSE] /\ stopped = {} /\ cfail = {} /\ okStart = {} /\ okLoad = {}
  /\ last = NoStep

(* ------------------------------ the trigger service ------------------------------ *)
\* glb: the request is in the global form (RunStart/RunStop with detector "")
Legal(m, r, glb) ==
  CASE m \in {"PrepareForRun", "RunList"} -> TRUE
    [] r = 0 -> FALSE
    [] m = "RunLoad" -> tbl[r] = "none"
    [] m = "RunStart" -> IF glb THEN tbl[r] = "L" /\ card[r] = "G" ELSE tbl[r] = "none"
    [] m = "RunStop" -> tbl[r] = "R"
    [] m = "RunUnload" -> tbl[r] = "L" /\ card[r] = "G"
    [] OTHER -> FALSE
Executes(m, r, glb, f) == Legal(m, r, glb) /\ f \in {"none", "lost"}
\* what the caller sees
Result(m, r, glb, f) == IF f \in {"err", "lost"} THEN "err" ELSE IF f = "rc" \/ ~Legal(m, r, glb) THEN "rc" ELSE "ok"
TblAfter(m, r, glb, f) ==
  IF ~Executes(m, r, glb, f) \/ m \in {"PrepareForRun", "RunList"} THEN tbl
  ELSE [tbl EXCEPT ![r] = CASE m = "RunLoad" -> "L"
                            [] m = "RunStart" -> "R"
                            [] m = "RunStop" -> IF card[r] = "G" THEN "L" ELSE "none"
                            [] OTHER -> "none"]
CardAfter(m, r, glb, f) ==
  IF ~Executes(m, r, glb, f) \/ m \in {"PrepareForRun", "RunList"} THEN card
  ELSE [card EXCEPT ![r] = CASE m = "RunLoad" -> "G"
                             [] m = "RunStart" -> IF glb THEN "G" ELSE "S"
                             [] m = "RunStop" -> IF card[r] = "G" THEN "G" ELSE "-"
                             [] OTHER -> "-"]
FaultOk(f) == f \in Faults /\ (f # "none" => nf < MaxFaults)
Snapshot == {<<r, card[r], tbl[r]>> : r \in {x \in Runs : tbl[x] # "none"}}
Active == {rn[e] : e \in {x \in Envs : ph[x] # "gone"}} \ {0}

\* a request by a hook of e: service side and the history every request leaves
Call(src, e, fn, m, r, glb, f, pend, prev) ==
  /\ tbl' = TblAfter(m, r, glb, f) /\ card' = CardAfter(m, r, glb, f)
  /\ nf' = IF f = "none" THEN nf ELSE nf + 1
  /\ nofail' = (nofail /\ Result(m, r, glb, f) = "ok")
  /\ stopped' = IF m = "RunStop" /\ Result(m, r, glb, f) = "ok" THEN stopped \cup {r} ELSE stopped
  /\ lost' = IF src = "hook" /\ f = "lost" /\ Legal(m, r, glb) /\ m # "PrepareForRun" THEN [lost EXCEPT ![e] = TRUE] ELSE lost
  /\ cfail' = IF fn = "Cleanup" /\ Result(m, r, glb, f) # "ok" THEN cfail \cup {r} ELSE cfail
  /\ okStart' = IF m = "RunStart" /\ Result(m, r, glb, f) = "ok" THEN okStart \cup {r} ELSE okStart
  /\ okLoad' = IF m = "RunLoad" /\ Result(m, r, glb, f) = "ok" THEN okLoad \cup {r} ELSE okLoad

Step(src, e, fn, m, r, glb, res, pend, prev, done, cerr) ==
  [src |-> src, e |-> e, fn |-> fn, m |-> m, r |-> r, glb |-> glb, res |-> res, wasPend |-> pend, wasStopped |-> r \in stopped,
   wasActive |-> r \in Active, prev |-> prev, done |-> done, cerr |-> cerr, snap |-> {}]

\* a hook invocation that sends nothing
NoCall(e, fn) ==
  /\ last' = Step("hook", e, fn, "none", 0, FALSE, "none", TRUE, "na", TRUE, FALSE)
  /\ UNCHANGED <<tbl, card, nf, nofail, stopped, lost, cfail, okStart, okLoad>>

PollerUnchanged == UNCHANGED <<pc, infl, qok, polled, cache, emap, todo>>
Next1(p, ok, c) == IF ok \/ c = "go" THEN p ELSE "err"   \* where the environment goes after a hook

(* ------------------------------ the environment and its hooks ------------------------------ *)
Free(e) == cl[e] = <<>>

\* trg.PrepareForRun (before_START_ACTIVITY-200, no run number yet)
Prepare(e, f, c) ==
  /\ ph[e] = "conf" /\ Free(e) /\ FaultOk(f) /\ c \in {"go", "err"}
  /\ Call("hook", e, "PrepareForRun", "PrepareForRun", 0, TRUE, f, TRUE, "na")
  /\ LET res == Result("PrepareForRun", 0, TRUE, f) IN
     /\ last' = Step("hook", e, "PrepareForRun", "PrepareForRun", 0, TRUE, res, TRUE, "na", TRUE, res # "ok")
     /\ ph' = [ph EXCEPT ![e] = Next1("conf", res = "ok", c)]
  /\ clean' = [clean EXCEPT ![e] = FALSE]
  /\ UNCHANGED <<glob, spaced, rn, nextrun, owner, pstop, punl, cl, cok>> /\ PollerUnchanged

\* the environment obtains a run number ("run_number" is set)
NewRun(e) ==
  /\ ph[e] = "conf" /\ Free(e) /\ nextrun <= MaxRun
  /\ rn' = [rn EXCEPT ![e] = nextrun] /\ owner' = [owner EXCEPT ![nextrun] = e] /\ nextrun' = nextrun + 1
  /\ ph' = [ph EXCEPT ![e] = "sor"] /\ clean' = [clean EXCEPT ![e] = FALSE]
  /\ last' = [NoStep EXCEPT !.src = "ecs", !.e = e, !.fn = "NewRun", !.r = nextrun]
  /\ UNCHANGED <<glob, spaced, pstop, punl, cl, cok, tbl, card, nf, nofail, lost, stopped, cfail, okStart, okLoad>> /\ PollerUnchanged

\* trg.RunLoad: global runs only; success caches the run number in pendingRunUnloads
LoadHook(e, f, c) ==
  /\ ph[e] = "sor" /\ Free(e) /\ c \in {"go", "err"}
  /\ IF ~glob[e]
       THEN /\ f = "none" /\ c = "go" /\ NoCall(e, "RunLoad") /\ ph' = [ph EXCEPT ![e] = "loaded"] /\ UNCHANGED punl
       ELSE /\ FaultOk(f)
            /\ Call("hook", e, "RunLoad", "RunLoad", rn[e], TRUE, f, TRUE, "na")
            /\ LET res == Result("RunLoad", rn[e], TRUE, f) IN
               /\ last' = Step("hook", e, "RunLoad", "RunLoad", rn[e], TRUE, res, TRUE, "na", TRUE, res # "ok")
               /\ punl' = IF res = "ok" THEN [punl EXCEPT ![e] = IF Code_OnePendingPerEnv THEN {rn[e]} ELSE @ \cup {rn[e]}] ELSE punl
               /\ ph' = [ph EXCEPT ![e] = Next1("loaded", res = "ok", c)]
  /\ UNCHANGED <<glob, spaced, rn, nextrun, owner, pstop, cl, cok, clean>> /\ PollerUnchanged

\* trg.RunStart: detector "" for a global run, the detector for a standalone one; success caches the number in pendingRunStops
StartHook(e, f, c) ==
  /\ ph[e] = "loaded" /\ Free(e) /\ FaultOk(f) /\ c \in {"go", "err"}
  /\ Call("hook", e, "RunStart", "RunStart", rn[e], glob[e], f, TRUE, "na")
  /\ LET res == Result("RunStart", rn[e], glob[e], f) IN
     /\ last' = Step("hook", e, "RunStart", "RunStart", rn[e], glob[e], res, TRUE, "na", TRUE, res # "ok")
     /\ pstop' = IF res = "ok" THEN [pstop EXCEPT ![e] = IF Code_OnePendingPerEnv THEN {rn[e]} ELSE @ \cup {rn[e]}] ELSE pstop
     /\ ph' = [ph EXCEPT ![e] = Next1("run", res = "ok", c)]
  /\ UNCHANGED <<glob, spaced, rn, nextrun, owner, punl, cl, cok, clean>> /\ PollerUnchanged

\* trg.RunStop: success pops the environment's entry
StopHook(e, f, c) ==
  /\ ph[e] = "run" /\ Free(e) /\ c \in {"go", "err"}
  /\ IF ~Code_StopHookUnconditional /\ rn[e] \notin pstop[e]
       THEN /\ f = "none" /\ c = "go" /\ NoCall(e, "RunStop") /\ ph' = [ph EXCEPT ![e] = "eor"] /\ UNCHANGED pstop
       ELSE /\ FaultOk(f)
            /\ Call("hook", e, "RunStop", "RunStop", rn[e], glob[e], f, rn[e] \in pstop[e], "na")
            /\ LET res == Result("RunStop", rn[e], glob[e], f) IN
               /\ last' = Step("hook", e, "RunStop", "RunStop", rn[e], glob[e], res, rn[e] \in pstop[e], "na", TRUE, res # "ok")
               /\ pstop' = IF res = "ok" THEN [pstop EXCEPT ![e] = IF Code_OnePendingPerEnv THEN {} ELSE @ \ {rn[e]}] ELSE pstop
               /\ ph' = [ph EXCEPT ![e] = Next1("eor", res = "ok", c)]
  /\ UNCHANGED <<glob, spaced, rn, nextrun, owner, punl, cl, cok, clean>> /\ PollerUnchanged

\* trg.RunUnload: global runs only; success pops the environment's entry
UnloadHook(e, f, c) ==
  /\ ph[e] = "eor" /\ Free(e) /\ c \in {"go", "err"}
  /\ IF ~glob[e] \/ (~Code_StopHookUnconditional /\ rn[e] \notin punl[e])
       THEN /\ f = "none" /\ c = "go" /\ NoCall(e, "RunUnload") /\ ph' = [ph EXCEPT ![e] = "eor2"] /\ UNCHANGED punl
       ELSE /\ FaultOk(f)
            /\ Call("hook", e, "RunUnload", "RunUnload", rn[e], TRUE, f, rn[e] \in punl[e], "na")
            /\ LET res == Result("RunUnload", rn[e], TRUE, f) IN
               /\ last' = Step("hook", e, "RunUnload", "RunUnload", rn[e], TRUE, res, rn[e] \in punl[e], "na", TRUE, res # "ok")
               /\ punl' = IF res = "ok" THEN [punl EXCEPT ![e] = IF Code_OnePendingPerEnv THEN {} ELSE @ \ {rn[e]}] ELSE punl
               /\ ph' = [ph EXCEPT ![e] = Next1("eor2", res = "ok", c)]
  /\ UNCHANGED <<glob, spaced, rn, nextrun, owner, pstop, cl, cok, clean>> /\ PollerUnchanged

\* after STOP_ACTIVITY the environment removes its run number
EndRun(e) ==
  /\ ph[e] = "eor2" /\ Free(e)
  /\ rn' = [rn EXCEPT ![e] = 0] /\ ph' = [ph EXCEPT ![e] = "conf"]
  /\ last' = [NoStep EXCEPT !.src = "ecs", !.e = e, !.fn = "EndRun"]
  /\ UNCHANGED <<glob, spaced, nextrun, owner, pstop, punl, cl, cok, tbl, card, nf, nofail, lost, clean, stopped, cfail, okStart, okLoad>> /\ PollerUnchanged

\* anything else fails: the environment goes to ERROR and keeps its run number
GoError(e) ==
  /\ ph[e] \in {"sor", "loaded", "run", "eor", "eor2"} /\ Free(e)
  /\ ph' = [ph EXCEPT ![e] = "err"]
  /\ last' = [NoStep EXCEPT !.src = "ecs", !.e = e, !.fn = "GoError"]
  /\ UNCHANGED <<glob, spaced, rn, nextrun, owner, pstop, punl, cl, cok, tbl, card, nf, nofail, lost, clean, stopped, cfail, okStart, okLoad>> /\ PollerUnchanged

Destroy(e) ==
  /\ ph[e] \in {"conf", "err"} /\ Free(e)
  /\ ph' = [ph EXCEPT ![e] = "gone"] /\ rn' = [rn EXCEPT ![e] = 0]
  /\ last' = [NoStep EXCEPT !.src = "ecs", !.e = e, !.fn = "Destroy"]
  /\ UNCHANGED <<glob, spaced, nextrun, owner, pstop, punl, cl, cok, tbl, card, nf, nofail, lost, clean, stopped, cfail, okStart, okLoad>> /\ PollerUnchanged

\* trg.Cleanup: RunStop for the pending stop, then RunUnload for the pending unload
RECURSIVE SeqOf(_)
SeqOf(S) == IF S = {} THEN <<>> ELSE LET m == CHOOSE x \in S : \A y \in S : x <= y IN <<m>> \o SeqOf(S \ {m})
Ops(e) == [i \in 1..Cardinality(pstop[e]) |-> <<"stop", SeqOf(pstop[e])[i]>>]
          \o (IF glob[e] THEN [i \in 1..Cardinality(punl[e]) |-> <<"unl", SeqOf(punl[e])[i]>>] ELSE <<>>)
CleanupPhase(e) == ph[e] \in {"conf", "eor", "eor2", "err"}

\* one call of a Cleanup: op = <<kind, r>>, rest = what remains afterwards; ps/pu = the pending sets before the call's own bookkeeping
CleanupCall(e, f, op, rest, ps, pu, okSoFar) ==
  LET m == IF op[1] = "stop" THEN "RunStop" ELSE "RunUnload"
      g == IF op[1] = "stop" THEN glob[e] ELSE TRUE
      res == Result(m, op[2], g, f)
      okNow == okSoFar /\ res = "ok"
  IN /\ FaultOk(f)
     /\ Call("hook", e, "Cleanup", m, op[2], g, f, TRUE, "na")
     /\ last' = Step("hook", e, "Cleanup", m, op[2], g, res, TRUE, "na", rest = <<>>, ~okNow)
     /\ pstop' = [pstop EXCEPT ![e] = IF op[1] = "stop" /\ res = "ok" THEN ps \ {op[2]} ELSE ps]
     /\ punl' = [punl EXCEPT ![e] = IF op[1] = "unl" /\ res = "ok" THEN pu \ {op[2]} ELSE pu]
     /\ cl' = [cl EXCEPT ![e] = rest] /\ cok' = [cok EXCEPT ![e] = okNow]
     /\ clean' = [clean EXCEPT ![e] = (rest = <<>>) /\ okNow]

CleanupFirst(e, f) ==
  /\ CleanupPhase(e) /\ Free(e)
  /\ LET ops == Ops(e)
         \* as is: both entries are deleted before their call (the second one while the first reply is being processed)
         ps == IF Code_CleanupForgetsFirst THEN {} ELSE pstop[e]
         pu == IF Code_CleanupForgetsFirst THEN {} ELSE punl[e]
     IN IF ops = <<>>
          THEN /\ f = "none" /\ NoCall(e, "Cleanup")
               /\ pstop' = [pstop EXCEPT ![e] = ps] /\ punl' = [punl EXCEPT ![e] = pu]
               /\ clean' = [clean EXCEPT ![e] = TRUE] /\ UNCHANGED <<cl, cok>>
          ELSE CleanupCall(e, f, Head(ops), Tail(ops), ps, pu, TRUE)
  /\ UNCHANGED <<glob, spaced, ph, rn, nextrun, owner>> /\ PollerUnchanged

\* (repaired design: an entry that reconcile has cleared in the meantime is not sent again)
StillPending(e, op) == Code_CleanupForgetsFirst \/ (IF op[1] = "stop" THEN op[2] \in pstop[e] ELSE op[2] \in punl[e])
CleanupNext(e, f) ==
  /\ cl[e] # <<>>
  /\ IF StillPending(e, Head(cl[e]))
       THEN CleanupCall(e, f, Head(cl[e]), Tail(cl[e]), pstop[e], punl[e], cok[e])
       ELSE /\ f = "none"
            /\ last' = Step("hook", e, "Cleanup", "none", 0, FALSE, "none", TRUE, "na", Tail(cl[e]) = <<>>, ~cok[e])
            /\ cl' = [cl EXCEPT ![e] = Tail(cl[e])] /\ clean' = [clean EXCEPT ![e] = (Tail(cl[e]) = <<>>) /\ cok[e]]
            /\ UNCHANGED <<tbl, card, nf, nofail, stopped, lost, cfail, okStart, okLoad, pstop, punl, cok>>
  /\ UNCHANGED <<glob, spaced, ph, rn, nextrun, owner>> /\ PollerUnchanged

(* ------------------------------ the polling goroutine ------------------------------ *)
EnvUnchanged == UNCHANGED <<glob, spaced, ph, rn, nextrun, owner, pstop, punl, cl, cok, clean>>

\* RunList takes effect in the service (f: none | err)
PollQuery(f) ==
  /\ pc = "idle" /\ f \in {"none", "err"} /\ FaultOk(f)   \* (FaultOk: "err" only if it is among FaultKinds)
  /\ infl' = (IF f = "none" THEN Snapshot ELSE {}) /\ qok' = (f = "none") /\ pc' = "reply"
  /\ nf' = IF f = "none" THEN nf ELSE nf + 1
  /\ last' = [NoStep EXCEPT !.src = "poll", !.m = "RunList", !.res = IF f = "none" THEN "ok" ELSE "err"]
  /\ UNCHANGED <<tbl, card, nofail, lost, stopped, cfail, okStart, okLoad, polled, cache, emap, todo>> /\ EnvUnchanged

\* what parseRunList makes of the reply
Visible(x) == ~(spaced /\ Code_ListParserDropsSpaced /\ x[2] = "G")
Parse(S) == {x \in S : Visible(x)}
RunsOf(S) == {x[1] : x \in S}
Entry(S, r) == CHOOSE x \in S : x[1] = r
One(S) == CHOOSE x \in S : TRUE

\* the reply arrives: queryRunList stores cachedStatus (EnvMap from the pending maps), reconcile reads the active run numbers
PollReply ==
  /\ pc = "reply"
  /\ LET c == Parse(infl)
         work == SeqOf(RunsOf(c) \ Active)
     IN /\ cache' = c /\ polled' = TRUE
        /\ emap' = [e \in Envs |-> IF punl[e] \cap RunsOf(c) # {} THEN One(punl[e] \cap RunsOf(c))
                                   ELSE IF pstop[e] \cap RunsOf(c) # {} THEN One(pstop[e] \cap RunsOf(c)) ELSE 0]
        /\ todo' = [i \in 1..Len(work) |-> [r |-> work[i], card |-> Entry(c, work[i])[2], st |-> Entry(c, work[i])[3], prev |-> "na"]]
        /\ pc' = IF work = <<>> THEN "idle" ELSE "rec"
        /\ last' = [NoStep EXCEPT !.src = "poll", !.m = "PollReply", !.res = IF qok THEN "ok" ELSE "err", !.snap = infl]
  /\ UNCHANGED <<tbl, card, nf, nofail, lost, stopped, cfail, okStart, okLoad, infl, qok>> /\ EnvUnchanged

Advance(rest) == /\ todo' = rest /\ pc' = IF rest = <<>> THEN "idle" ELSE "rec"

\* reconcile, repaired design only: a cached entry that no longer matches the service is skipped
RecSkip ==
  /\ pc = "rec" /\ ~Code_ReconcileStaleList
  /\ LET h == Head(todo) IN tbl[h.r] # h.st /\ h.prev = "na"
  /\ Advance(Tail(todo))
  /\ last' = [NoStep EXCEPT !.src = "poll", !.m = "RecSkip"]
  /\ UNCHANGED <<tbl, card, nf, nofail, lost, stopped, cfail, okStart, okLoad, infl, qok, polled, cache, emap>> /\ EnvUnchanged

RecFresh(h) == Code_ReconcileStaleList \/ h.prev # "na" \/ tbl[h.r] = h.st

\* reconcile: RunStop for a cached RUNNING run (detector "" for both cardinalities)
RecStop(f) ==
  /\ pc = "rec" /\ FaultOk(f)
  /\ LET h == Head(todo)
         res == Result("RunStop", h.r, TRUE, f)
         success == IF Code_ReconcileIgnoresRc THEN res # "err" ELSE res = "ok"
     IN /\ h.st = "R" /\ RecFresh(h)
        /\ Call("poll", NoEnv, "reconcile", "RunStop", h.r, TRUE, f, TRUE, "na")
        /\ last' = Step("poll", NoEnv, "reconcile", "RunStop", h.r, TRUE, res, TRUE, "na", TRUE, FALSE)
        /\ IF success /\ h.card = "G"
             THEN todo' = <<[h EXCEPT !.st = "L", !.prev = res]>> \o Tail(todo) /\ UNCHANGED pc
             ELSE Advance(Tail(todo))
        /\ pstop' = IF Code_ReconcileKeepsPending \/ res # "ok" THEN pstop ELSE [e \in Envs |-> pstop[e] \ {h.r}]
  /\ UNCHANGED <<infl, qok, polled, cache, emap>> /\ UNCHANGED <<glob, spaced, ph, rn, nextrun, owner, punl, cl, cok, clean>>

\* reconcile: RunUnload for a LOADED global run
RecUnload(f) ==
  /\ pc = "rec" /\ FaultOk(f)
  /\ LET h == Head(todo)
         res == Result("RunUnload", h.r, TRUE, f)
     IN /\ h.st = "L" /\ h.card = "G" /\ RecFresh(h)
        /\ Call("poll", NoEnv, "reconcile", "RunUnload", h.r, TRUE, f, TRUE, h.prev)
        /\ last' = Step("poll", NoEnv, "reconcile", "RunUnload", h.r, TRUE, res, TRUE, h.prev, TRUE, FALSE)
        /\ Advance(Tail(todo))
        /\ punl' = IF Code_ReconcileKeepsPending \/ res # "ok" THEN punl ELSE [e \in Envs |-> punl[e] \ {h.r}]
  /\ UNCHANGED <<infl, qok, polled, cache, emap>> /\ UNCHANGED <<glob, spaced, ph, rn, nextrun, owner, pstop, cl, cok, clean>>

EnvNext(e) == \/ \E f \in Faults, c \in {"go", "err"} : Prepare(e, f, c) \/ LoadHook(e, f, c) \/ StartHook(e, f, c) \/ StopHook(e, f, c)
                                                        \/ UnloadHook(e, f, c)
              \/ NewRun(e) \/ EndRun(e) \/ GoError(e) \/ Destroy(e)
              \/ \E f \in Faults : CleanupFirst(e, f) \/ CleanupNext(e, f)
PollNext == (\E f \in {"none", "err"} : PollQuery(f)) \/ PollReply \/ RecSkip \/ (\E f \in Faults : RecStop(f) \/ RecUnload(f))
Next == (\E e \in Envs : EnvNext(e)) \/ PollNext
Spec == Init /\ [][Next]_vars

(* ------------------------------ what the GUI is shown ------------------------------ *)
EnvData == IF ~polled THEN {} ELSE IF Code_EnvDataInverted THEN {e \in Envs : emap[e] = 0} ELSE {e \in Envs : emap[e] # 0}

(* ------------------------------ properties ------------------------------ *)
TypeOK ==
  /\ \A e \in Envs : ph[e] \in {"conf", "sor", "loaded", "run", "eor", "eor2", "err", "gone"} /\ rn[e] \in 0..MaxRun
                     /\ pstop[e] \subseteq Runs /\ punl[e] \subseteq Runs
  /\ \A r \in Runs : tbl[r] \in {"none", "L", "R"} /\ card[r] \in {"-", "S", "G"} /\ (tbl[r] = "none" <=> card[r] = "-")
                     /\ (card[r] = "S" => tbl[r] = "R")
  /\ pc \in {"idle", "reply", "rec"} /\ (pc = "rec" <=> todo # <<>>) /\ nf <= MaxFaults
  /\ Code_OnePendingPerEnv => \A e \in Envs : Cardinality(pstop[e]) <= 1 /\ Cardinality(punl[e]) <= 1

\* a run is stopped at most once per successful start: no RunStop is sent for a run the plugin has already seen stopped
\* (a stop that failed may be tried again)
NoStopAfterStopped == last.m = "RunStop" => ~last.wasStopped
NoHookStopAfterStopped == (last.m = "RunStop" /\ last.src = "hook") => ~last.wasStopped        \* ... by a hook
NoReconcileStopAfterStopped == (last.m = "RunStop" /\ last.src = "poll") => ~last.wasStopped   \* ... by reconcile
\* the hooks send RunStop only for a run in pendingRunStops (RunUnload: in pendingRunUnloads)
StopOnlyPending == (last.src = "hook" /\ last.m \in {"RunStop", "RunUnload"}) => last.wasPend
\* RunLoad / RunUnload are for global runs only, whoever sends them
StandaloneNeverLoaded == last.m \in {"RunLoad", "RunUnload"} => (last.r # 0 /\ owner[last.r] # NoEnv /\ glob[owner[last.r]])
\* reconcile never touches a run that is the current run of an environment
ReconcileSparesActive == (last.src = "poll" /\ last.m \in {"RunStop", "RunUnload"}) => ~last.wasActive
\* reconcile unloads a run it found RUNNING only after it has stopped it
ReconcileUnloadsStoppedOnly == (last.src = "poll" /\ last.m = "RunUnload") => last.prev \in {"na", "ok"}
\* a run is pending only if the plugin has seen its RunStart (RunLoad) succeed, and only for the environment it was given to
PendingJustified == \A e \in Envs : /\ (\A r \in pstop[e] : r \in okStart /\ owner[r] = e)
                                     /\ (\A q \in punl[e] : q \in okLoad /\ owner[q] = e)
\* as long as no request failed, the bookkeeping is exactly the service's view of the runs of the living environments
PendingExact ==
  nofail => \A e \in Envs : (ph[e] # "gone" /\ cl[e] = <<>>) =>
              /\ pstop[e] = {r \in Runs : owner[r] = e /\ tbl[r] = "R"}
              /\ punl[e] = {r \in Runs : owner[r] = e /\ tbl[r] # "none" /\ card[r] = "G"}
\* after a Cleanup whose calls the service all answered with success nothing of the environment is RUNNING or LOADED
\* (unless a reply to the environment was lost before: then the plugin cannot know)
CleanupLeavesNothing == \A e \in Envs : (clean[e] /\ ~lost[e]) => \A r \in Runs : owner[r] = e => tbl[r] = "none"
\* ... the same for the environment's latest run only
LastRun(e) == IF {r \in Runs : owner[r] = e} = {} THEN 0 ELSE CHOOSE r \in Runs : owner[r] = e /\ \A q \in Runs : owner[q] = e => q <= r
CleanupLeavesNothingOfLastRun == \A e \in Envs : (clean[e] /\ ~lost[e] /\ LastRun(e) # 0) => tbl[LastRun(e)] = "none"
\* what a failed stop / unload leaves in the service stays in the bookkeeping, so that Cleanup can try again
\* (no lost replies: those the plugin cannot know about)
NothingForgotten ==
  \A e \in Envs : (ph[e] # "gone" /\ cl[e] = <<>> /\ ~lost[e]) =>
     \A r \in Runs : owner[r] = e => /\ (tbl[r] = "R" => r \in pstop[e])
                                      /\ (tbl[r] # "none" /\ card[r] = "G" => r \in punl[e])
\* ... leaving aside what a failed request of a Cleanup itself left behind
NothingForgottenButByCleanup ==
  \A e \in Envs : (ph[e] # "gone" /\ cl[e] = <<>> /\ ~lost[e]) =>
     \A r \in Runs \ cfail : owner[r] = e => /\ (tbl[r] = "R" => r \in pstop[e])
                                              /\ (tbl[r] # "none" /\ card[r] = "G" => r \in punl[e])
\* a successful poll caches the service's list
CacheFaithful == (last.m = "PollReply" /\ last.res = "ok") => cache = last.snap
\* GetEnvironmentsData answers for the environments the plugin has a TRG run for
EnvDataMeaningful == polled => EnvData = {e \in Envs : emap[e] # 0}

(* ------------------------------ witnesses ------------------------------ *)
\* For the code as it is some of the properties are refuted.  To obtain ONE counterexample for each of them from a single
\* exhaustive run (tlc -continue) each is wrapped so that it fails once per TLC worker and is silent afterwards.
ASSUME \A k \in 1..8 : TLCSet(k, 0)
Once(k, P) == P \/ TLCGet(k) = 1 \/ (TLCSet(k, 1) /\ FALSE)
W_StopOnlyPending == Once(1, StopOnlyPending)
W_CleanupLeavesNothingOfLastRun == Once(2, CleanupLeavesNothingOfLastRun)
W_NothingForgottenButByCleanup == Once(3, NothingForgottenButByCleanup)
W_NoReconcileStopAfterStopped == Once(4, NoReconcileStopAfterStopped)
W_ReconcileUnloadsStoppedOnly == Once(5, ReconcileUnloadsStoppedOnly)
W_NoHookStopAfterStopped == Once(6, NoHookStopAfterStopped)
W_CacheFaithful == Once(7, CacheFaithful)
W_EnvDataMeaningful == Once(8, EnvDataMeaningful)
=============================================================================
