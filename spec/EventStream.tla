---------------------------- MODULE EventStream -----------------------------
(***************************************************************************)
(* Beyond the listed properties (DESIGN.md section 5): the per-environment  *)
(* event stream of auto-environments, core/environment/eventStream.go.      *)
(*   eventStream.send:        mu.Lock; if stream # nil { stream <- data };  *)
(*                            mu.Unlock      (an UNBUFFERED channel: the     *)
(*                            sender waits, holding mu, for the reader)      *)
(*   eventSub.Unsubscribe:    once.Do { mu.Lock; close(stream); stream=nil; *)
(*                            mu.Unlock; close(err) }                        *)
(*   the reader (RpcServer.Subscribe): event, ok := <-ch; !ok => done        *)
(* One action per linearization point; an operation instance is a thread     *)
(* with a program counter.                                                   *)
(***************************************************************************)
EXTENDS Naturals, Sequences, FiniteSets, TLC

CONSTANTS Senders,     \* threads calling Send
          Closers,     \* threads calling Unsubscribe
          MaxEv,       \* events per sender
          ReaderGivesUp \* TRUE: the reader may stop reading at any time (client gone)

VARIABLES
  mu,        \* holder of eventStream.mu ("none" or a thread)
  open,      \* stream # nil (not yet closed)
  once,      \* the sync.Once of Unsubscribe: "fresh" | "running" | "done"
  pc,        \* pc[t]: idle | wantmu | sending | unlock | done   (senders)
             \*        idle | once | wantmu | closing | unlock | oncewait | done   (closers)
  nsent,     \* nsent[s]: events of sender s handed to Send so far
  delivered, \* sequence of <<sender, n>> the reader received
  reader,    \* "reading" | "gone" | "eof" (saw the closed channel)
  panicked   \* a send on, or a second close of, the closed channel

vars == <<mu, open, once, pc, nsent, delivered, reader, panicked>>
Threads == Senders \cup Closers

Init ==
  /\ mu = "none" /\ open = TRUE /\ once = "fresh"
  /\ pc = [t \in Threads |-> "idle"] /\ nsent = [s \in Senders |-> 0]
  /\ delivered = <<>> /\ reader = "reading" /\ panicked = FALSE

(* ------------------------------- Send ---------------------------------- *)
SendCall(s) ==
  /\ s \in Senders /\ pc[s] = "idle" /\ nsent[s] < MaxEv
  /\ pc' = [pc EXCEPT ![s] = "wantmu"] /\ nsent' = [nsent EXCEPT ![s] = @ + 1]
  /\ UNCHANGED <<mu, open, once, delivered, reader, panicked>>
SendLock(s) ==
  /\ s \in Senders /\ pc[s] = "wantmu" /\ mu = "none"
  /\ mu' = s
  /\ pc' = [pc EXCEPT ![s] = IF open THEN "sending" ELSE "unlock"]
  /\ UNCHANGED <<open, once, nsent, delivered, reader, panicked>>
\* the rendezvous on the unbuffered channel: needs the reader
SendDeliver(s) ==
  /\ s \in Senders /\ pc[s] = "sending" /\ reader = "reading"
  /\ delivered' = Append(delivered, <<s, nsent[s]>>)
  /\ pc' = [pc EXCEPT ![s] = "unlock"]
  /\ UNCHANGED <<mu, open, once, nsent, reader, panicked>>
SendUnlock(s) ==
  /\ s \in Senders /\ pc[s] = "unlock" /\ mu = s
  /\ mu' = "none" /\ pc' = [pc EXCEPT ![s] = "idle"]
  /\ UNCHANGED <<open, once, nsent, delivered, reader, panicked>>

(* ---------------------------- Unsubscribe ------------------------------ *)
UnsubCall(c) ==
  /\ c \in Closers /\ pc[c] = "idle"
  /\ IF once = "fresh" THEN once' = "running" /\ pc' = [pc EXCEPT ![c] = "wantmu"]
     ELSE IF once = "running" THEN UNCHANGED once /\ pc' = [pc EXCEPT ![c] = "oncewait"]   \* sync.Once: wait for the first
     ELSE UNCHANGED once /\ pc' = [pc EXCEPT ![c] = "done"]
  /\ UNCHANGED <<mu, open, nsent, delivered, reader, panicked>>
UnsubLock(c) ==
  /\ c \in Closers /\ pc[c] = "wantmu" /\ mu = "none"
  /\ mu' = c /\ pc' = [pc EXCEPT ![c] = "closing"]
  /\ UNCHANGED <<open, once, nsent, delivered, reader, panicked>>
UnsubClose(c) ==
  /\ c \in Closers /\ pc[c] = "closing"
  /\ panicked' = (panicked \/ ~open) /\ open' = FALSE
  /\ pc' = [pc EXCEPT ![c] = "unlock"]
  /\ UNCHANGED <<mu, once, nsent, delivered, reader>>
UnsubUnlock(c) ==
  /\ c \in Closers /\ pc[c] = "unlock" /\ mu = c
  /\ mu' = "none" /\ once' = "done" /\ pc' = [pc EXCEPT ![c] = "done"]
  /\ UNCHANGED <<open, nsent, delivered, reader, panicked>>
UnsubOnceDone(c) ==
  /\ c \in Closers /\ pc[c] = "oncewait" /\ once = "done"
  /\ pc' = [pc EXCEPT ![c] = "done"]
  /\ UNCHANGED <<mu, open, once, nsent, delivered, reader, panicked>>

(* ------------------------------- reader -------------------------------- *)
ReaderEof == /\ reader = "reading" /\ ~open /\ reader' = "eof"
             /\ UNCHANGED <<mu, open, once, pc, nsent, delivered, panicked>>
ReaderLeaves == /\ ReaderGivesUp /\ reader = "reading" /\ reader' = "gone"
                /\ UNCHANGED <<mu, open, once, pc, nsent, delivered, panicked>>

Internal == \/ \E s \in Senders : SendLock(s) \/ SendDeliver(s) \/ SendUnlock(s)
            \/ \E c \in Closers : UnsubLock(c) \/ UnsubClose(c) \/ UnsubUnlock(c) \/ UnsubOnceDone(c)
            \/ ReaderEof
Next == \/ \E s \in Senders : SendCall(s)
        \/ \E c \in Closers : UnsubCall(c)
        \/ Internal \/ ReaderLeaves
Spec == Init /\ [][Next]_vars
FairSpec == Spec /\ WF_vars(Internal)
            /\ \A s \in Senders : WF_vars(SendLock(s)) /\ WF_vars(SendDeliver(s)) /\ WF_vars(SendUnlock(s))
            /\ \A c \in Closers : WF_vars(UnsubLock(c)) /\ WF_vars(UnsubClose(c)) /\ WF_vars(UnsubUnlock(c))

(* ------------------------------ properties ----------------------------- *)
TypeOK == /\ mu \in Threads \cup {"none"} /\ open \in BOOLEAN /\ once \in {"fresh", "running", "done"}
          /\ reader \in {"reading", "gone", "eof"}
\* the channel is never sent on, or closed, after it was closed
NoPanic == ~panicked
\* every sender's events reach the reader in the order sent, none twice
PerSenderOrder ==
  \A i, j \in DOMAIN delivered : (i < j /\ delivered[i][1] = delivered[j][1]) => delivered[i][2] < delivered[j][2]
\* nothing is delivered once the stream is closed
NothingAfterClose == (reader = "eof") => \A s \in Senders : pc[s] # "sending"
\* mutual exclusion on the channel: at most one sender sits in the channel operation
OneInChannel == Cardinality({s \in Senders : pc[s] = "sending"}) <= 1
\* liveness, with a reader that keeps reading: Unsubscribe returns and every Send returns
UnsubReturns == \A c \in Closers : (pc[c] \notin {"idle", "done"}) ~> (pc[c] = "done")
SendReturns == \A s \in Senders : (pc[s] # "idle") ~> (pc[s] = "idle")
\* NOT guaranteed when the reader may leave: a Send blocked in the channel keeps mu for ever and Unsubscribe (and every other
\* Send) waits behind it.  Reported as an observation (for an auto-environment: env.Mu is held around Send as well).
Stuck == \E s \in Senders : pc[s] = "sending" /\ reader = "gone"
NeverStuck == ~Stuck
=============================================================================
