---------------------------- MODULE EnvFSMTrace ----------------------------
(***************************************************************************)
(* Trace specification for C01 over runs of the real core (coresim).        *)
(* One environment ("e1") per scenario. Lines used:                         *)
(*   Reset                                                                  *)
(*   Hook{point: env.lock.acquired|env.lock.release, what, st}              *)
(*   Hook{point: env.setstate, from, to}   Hook{point: api.force.done, st}*)
(*   EnvEv{st, tx, step, msg, err}   HookStart{hook}   MMessage{event}      *)
(*   Api{call, op, caller}  ApiReply{call, op, code, st, caller}            *)
(* Monitor (soft invariants over the recorded facts):                       *)
(*   Graph / DoneTerminal : every change of the reported state is an edge   *)
(*       of EnvFSM!Documented; nothing follows DONE                         *)
(*   OneAtATime : lock sections do not overlap; nobody writes the state     *)
(*       while someone else's transition or teardown is in progress         *)
(*   IllegalHasNoEffect : inside a lock section whose event is not legal in *)
(*       the state found, no hook starts, no task command, no state change  *)
(*   ApiFailureEndsInError : a control request that does not report its     *)
(*       destination reports ERROR (or DONE after a concurrent teardown)    *)
(* Strict: the steps inside a lock section follow EnvFSM's order            *)
(*   before_E, leave_S, tasks_E, [flip], enter_D, after_E.                  *)
(***************************************************************************)
EXTENDS EnvFSMMC, Integers, Json, IOUtils

Trace == ndJsonDeserialize(IOEnv.TRACE_FILE)

VARIABLES l, scn, mst, holder, found, legal, sec, effects, nviol, ndrift, pend, dec,
          apisec,   \* the lock section in progress decides a control request of the API
          secfail,  \* ... and its transition has reported an error
          owed      \* a control request of the API failed (or was refused) and the environment has not reached ERROR / DONE since
tvars == <<l, scn, mst, holder, found, legal, sec, effects, nviol, ndrift, pend, dec, apisec, secfail, owed>>
Zero == [e \in Events |-> 0]

Line == Trace[l]
Has(f) == f \in DOMAIN Line
Soft(name, cond, detail) == IF cond THEN 0 ELSE IF PrintT(<<"VIOL", name, scn, l, detail>>) THEN 1 ELSE 1
Drift(cond, detail) == IF cond THEN 0 ELSE IF PrintT(<<"DRIFT", scn, l, detail>>) THEN 1 ELSE 1

IsEnv == Has("env") /\ Line.env = "e1"
Point(p) == Line.ev = "Hook" /\ Line.point = p /\ IsEnv

\* creation passes through PENDING (no state yet) before the first real state
Edge(a, b) == a = b \/ a = "PENDING" \/ <<a, b>> \in Documented

\* a newly reported state
Dst(op) == IF op \in Events THEN Table[op].dst ELSE ""

Report(new, what) ==
  /\ mst' = new
  /\ nviol' = nviol
       + Soft("Graph", Edge(mst, new), <<mst, new, what>>)
       + Soft("DoneTerminal", mst = "DONE" => new = "DONE", <<mst, new, what>>)
       \* the state moved while somebody holds the lock: it must be the holder's own documented step
       + Soft("OneAtATime", (holder # "" /\ new # mst /\ what \in {"setstate", "force"}) => (holder = "DESTROY" /\ new = "DONE"),
              <<holder, mst, new, what>>)
       + (IF holder # "" /\ ~legal /\ new # mst THEN Soft("IllegalHasNoEffect", FALSE, <<holder, found, new>>) ELSE 0)

Steps == <<"before", "leave", "tasks", "enter", "after">>
StepIdx(s) == CHOOSE i \in 1..5 : Steps[i] = s
\* EnvEv lines carry "kind": the moment class of their step (before|leave|tasks|enter|after|other|""),
\* i.e. the text before the first "_" of TransitionStep (projection done by the check, TLC has no substring)

TReset ==
  /\ Line.ev = "Reset"
  /\ scn' = Line.scn /\ mst' = "PENDING" /\ holder' = "" /\ found' = "" /\ legal' = TRUE /\ sec' = 0 /\ effects' = 0
  /\ pend' = Zero /\ dec' = Zero /\ apisec' = FALSE /\ secfail' = FALSE /\ owed' = FALSE
  /\ UNCHANGED <<nviol, ndrift>>

TAcquire ==
  /\ Point("env.lock.acquired")
  /\ holder' = Line.what /\ found' = Line.st /\ sec' = 0 /\ effects' = 0
  \* a teardown is not legal on an environment that is already DONE
  /\ legal' = IF Line.what = "DESTROY" THEN Line.st # "DONE" ELSE (Line.what \in Events /\ Line.st \in Table[Line.what].src)
  /\ mst' = Line.st
  /\ nviol' = nviol
       + Soft("OneAtATime", holder = "", <<holder, Line.what>>)
       + Soft("Graph", Edge(mst, Line.st), <<mst, Line.st, "acquire">>)
       + Soft("DoneTerminal", mst = "DONE" => Line.st = "DONE", <<mst, Line.st, "acquire">>)
  \* a control request of the API got the lock: from here on it sees the state its predecessors left
  /\ IF Line.what \in Events /\ pend[Line.what] > 0
       THEN pend' = [pend EXCEPT ![Line.what] = @ - 1] /\ dec' = [dec EXCEPT ![Line.what] = @ + 1]
       ELSE UNCHANGED <<pend, dec>>
  /\ apisec' = (Line.what \in Events /\ pend[Line.what] > 0) /\ secfail' = FALSE
  /\ owed' = IF Line.st \in {"ERROR", "DONE"} THEN FALSE ELSE owed
  /\ UNCHANGED <<scn, ndrift>>

TRelease ==
  /\ Point("env.lock.release")
  /\ holder' = "" /\ found' = "" /\ legal' = TRUE /\ sec' = 0 /\ effects' = 0
  /\ mst' = Line.st
  /\ nviol' = nviol
       + Soft("OneAtATime", holder = Line.what, <<holder, Line.what>>)
       + Soft("Graph", Edge(mst, Line.st), <<mst, Line.st, "release">>)
       + Soft("DoneTerminal", mst = "DONE" => Line.st = "DONE", <<mst, Line.st, "release">>)
       + Soft("IllegalHasNoEffect", ~legal => (effects = 0 /\ Line.st = found), <<Line.what, found, Line.st, effects>>)
  \* a control request of the API that was refused or whose transition failed: the API owes the environment a way to ERROR
  /\ owed' = IF Line.st \in {"ERROR", "DONE"} THEN FALSE
             ELSE IF apisec /\ (~legal \/ secfail \/ (Line.what \in Events /\ Line.st # Dst(Line.what))) THEN TRUE ELSE owed
  /\ apisec' = FALSE /\ secfail' = FALSE
  /\ UNCHANGED <<scn, ndrift, pend, dec>>

TSetState ==
  /\ Point("env.setstate")
  /\ Report(Line.to, "setstate")
  /\ owed' = IF Line.to \in {"ERROR", "DONE"} THEN FALSE ELSE owed
  /\ UNCHANGED <<scn, holder, found, legal, sec, effects, ndrift, pend, dec, apisec, secfail>>

\* state read back right after the API's forced write
TForce ==
  /\ Point("api.force.done")
  /\ Report(Line.st, "force")
  /\ owed' = IF Line.st \in {"ERROR", "DONE"} THEN FALSE ELSE owed
  /\ UNCHANGED <<scn, holder, found, legal, sec, effects, ndrift, pend, dec, apisec, secfail>>

\* events published by the core: reported state + the step structure of the transition in progress
TEnvEv ==
  /\ Line.ev = "EnvEv" /\ IsEnv
  /\ LET k == Line.kind
         stepStart == Line.msg = "transition step starting" /\ k \in {"before", "leave", "tasks", "enter", "after"}
         isTx == Line.tx \in Events
     IN /\ sec' = IF stepStart /\ holder = Line.tx THEN StepIdx(k) ELSE sec
        /\ effects' = IF stepStart /\ holder = Line.tx THEN effects + 1 ELSE effects
        /\ ndrift' = ndrift + (IF stepStart /\ isTx
                                 THEN Drift(holder = Line.tx /\ StepIdx(k) = sec + 1, <<"step order", holder, Line.tx, sec, k>>)
                                 ELSE 0)
        /\ IF Line.st \in States /\ Line.tx # "CREATE" /\ ~(Line.tx = "DESTROY" /\ Line.err)
             THEN Report(Line.st, "event")
             ELSE UNCHANGED <<mst, nviol>>
        /\ secfail' = (secfail \/ (Line.msg = "transition error" /\ holder = Line.tx))
  /\ UNCHANGED <<scn, holder, found, legal, pend, dec, apisec, owed>>

\* a hook started / a task command was sent: effects of the transition in progress
TEffect ==
  /\ (Line.ev = "HookStart" /\ IsEnv) \/ (Line.ev = "MMessage" /\ IsEnv) \/ Point("env.teardown.phase")
  /\ effects' = IF holder # "" THEN effects + 1 ELSE effects
  \* (judged at once: a request that is not legal may never come back and release the lock)
  /\ nviol' = nviol + Soft("IllegalHasNoEffect", holder = "" \/ legal, <<holder, found, Line.ev>>)
  /\ UNCHANGED <<scn, mst, holder, found, legal, sec, ndrift, pend, dec, apisec, secfail, owed>>

TReply ==
  /\ Line.ev = "ApiReply" /\ Line.call = "control" /\ IsEnv
  /\ nviol' = nviol
       \* a gRPC error status carries no reply body (st = ""): then the last reported state is judged
       + Soft("ApiFailureEndsInError",
              CASE Line.code = "OK" -> (Line.st # Dst(Line.op) => Line.st \in {"ERROR", "DONE"})
                [] Line.code = "Aborted" -> mst \in {"ERROR", "DONE"}
                [] OTHER -> TRUE,
              <<Line.op, Line.code, Line.st, mst>>)
       \* "each one seeing the state left by the previous one": a request the API answers on its merits (OK or Aborted) was
       \* judged inside its own lock section, i.e. after every transition or teardown that was in progress when it arrived
       + Soft("SerialView", (Line.op \in Events /\ Line.code \in {"OK", "Aborted"}) => dec[Line.op] > 0, <<Line.op, Line.code, Line.st, mst>>)
  /\ dec' = IF Line.op \in Events /\ dec[Line.op] > 0 THEN [dec EXCEPT ![Line.op] = @ - 1] ELSE dec
  /\ UNCHANGED <<scn, mst, holder, found, legal, sec, effects, ndrift, pend, apisec, secfail, owed>>

\* the answer to a destroy request for an environment that exists: the environment is gone (its last reported state is DONE) -
\* also when the STOP_ACTIVITY or RESET that a polite destroy tries first has failed (the teardown is then forced)
TDestroyReply ==
  /\ Line.ev = "ApiReply" /\ Line.call = "destroy" /\ IsEnv
  /\ nviol' = nviol + Soft("DestroyEndsDone", (Line.code # "NotFound" /\ ~Line.timeout) => mst = "DONE", <<Line.code, mst>>)
  /\ UNCHANGED <<scn, mst, holder, found, legal, sec, effects, ndrift, pend, dec, apisec, secfail, owed>>

TApi ==
  /\ Line.ev = "Api" /\ Line.call = "control" /\ IsEnv
  /\ pend' = IF Line.op \in Events THEN [pend EXCEPT ![Line.op] = @ + 1] ELSE pend
  /\ UNCHANGED <<scn, mst, holder, found, legal, sec, effects, nviol, ndrift, dec, apisec, secfail, owed>>

\* end of the scenario (every caller joined, the follow-up of a request whose client gave up awaited at the lock)
TEnd ==
  /\ Line.ev = "End"
  /\ nviol' = nviol + Soft("ApiFailureEndsInError", ~owed, <<"a refused or failed control request was never followed to ERROR", mst>>)
  /\ UNCHANGED <<scn, mst, holder, found, legal, sec, effects, ndrift, pend, dec, apisec, secfail, owed>>

TOther ==
  /\ ~(Line.ev = "Reset") /\ ~(Line.ev = "End")
  /\ ~Point("env.lock.acquired") /\ ~Point("env.lock.release") /\ ~Point("env.setstate") /\ ~Point("api.force.done")
  /\ ~(Line.ev = "EnvEv" /\ IsEnv) /\ ~(Line.ev \in {"HookStart", "MMessage"} /\ IsEnv) /\ ~Point("env.teardown.phase")
  /\ ~(Line.ev = "ApiReply" /\ Line.call = "control" /\ IsEnv) /\ ~(Line.ev = "Api" /\ Line.call = "control" /\ IsEnv)
  /\ ~(Line.ev = "ApiReply" /\ Line.call = "destroy" /\ IsEnv)
  /\ UNCHANGED <<scn, mst, holder, found, legal, sec, effects, nviol, ndrift, pend, dec, apisec, secfail, owed>>

TraceInit ==
  \* EnvFSM's own variables are not used here (only its constants and operators): pin them
  /\ st = "CONFIGURED" /\ listed = TRUE /\ lock = None
  /\ pc = [p \in Procs |-> "idle"]
  /\ req = [p \in Procs |-> [kind |-> "none", ev |-> "", force |-> FALSE, air |-> FALSE]]
  /\ cur = [p \in Procs |-> None] /\ origin = [p \in Procs |-> None]
  /\ seen = [p \in Procs |-> None] /\ err = [p \in Procs |-> FALSE] /\ failed = [p \in Procs |-> FALSE]
  /\ tdforce = [p \in Procs |-> FALSE] /\ reply = [p \in Procs |-> NoReply]
  /\ txn = [p \in Procs |-> 0] /\ eff = {} /\ illegal = {}
  /\ l = 1 /\ scn = -1 /\ mst = "PENDING" /\ holder = "" /\ found = "" /\ legal = TRUE /\ sec = 0 /\ effects = 0
  /\ nviol = 0 /\ ndrift = 0 /\ pend = Zero /\ dec = Zero /\ apisec = FALSE /\ secfail = FALSE /\ owed = FALSE

TraceNext ==
  /\ l <= Len(Trace)
  /\ (TReset \/ TAcquire \/ TRelease \/ TSetState \/ TForce \/ TEnvEv \/ TEffect \/ TReply \/ TDestroyReply \/ TApi \/ TEnd \/ TOther)
  /\ l' = l + 1
  /\ UNCHANGED vars

TraceSpec == TraceInit /\ [][TraceNext]_<<vars, tvars>>
PrintEnd == (l = Len(Trace) + 1) => PrintT(<<"END", Len(Trace), nviol>>)
=============================================================================
