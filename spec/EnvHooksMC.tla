----------------------------- MODULE EnvHooksMC -----------------------------
(* Configuration catalogues for EnvHooks (model checking and case generation). *)
EXTENDS EnvHooks

H3 == {"h1", "h2", "h3"}
M(m, w) == <<m, w>>
\* trigger / await points used by the catalogue
TrigPts == {M("before_START_ACTIVITY", -1), M("before_START_ACTIVITY", 0), M("before_START_ACTIVITY", 2),
            M("leave_CONFIGURED", 0), M("enter_RUNNING", -1), M("enter_RUNNING", 0), M("after_START_ACTIVITY", 0), M("before_STOP_ACTIVITY", 0),
            M("leave_RUNNING", 0), M("after_STOP_ACTIVITY", -1)}
AwaitAfter(t) ==  \* await points at or after the trigger: same point, later weight, later moment, later transition, never
  {t} \cup (IF t[1] = "before_START_ACTIVITY" THEN {M("before_START_ACTIVITY", 5)} ELSE {})
      \cup {M("after_START_ACTIVITY", 0), M("after_STOP_ACTIVITY", 0), M("after_RESET", 0)}
Plans == {<<"START_ACTIVITY", "STOP_ACTIVITY">>, <<"START_ACTIVITY">>, <<"START_ACTIVITY", "STOP_ACTIVITY", "START_ACTIVITY">>}

\* two hooks, full cross product (model checking)
Cfg2 ==
  { [trig |-> [h \in {"h1", "h2"} |-> IF h = "h1" THEN t1 ELSE t2],
     await |-> [h \in {"h1", "h2"} |-> IF h = "h1" THEN a1 ELSE a2],
     crit |-> [h \in {"h1", "h2"} |-> IF h = "h1" THEN c1 ELSE TRUE],
     fails |-> f, plan |-> p, bodyfails |-> b, teardown |-> TRUE, quiet |-> {}, once |-> {}] :
      t1 \in TrigPts, t2 \in {M("before_START_ACTIVITY", 0), M("before_START_ACTIVITY", 5), M("after_START_ACTIVITY", 0)},
      a1 \in UNION {AwaitAfter(t) : t \in TrigPts}, a2 \in {M("after_START_ACTIVITY", 0)},
      c1 \in BOOLEAN, f \in SUBSET {"h1"}, p \in {<<"START_ACTIVITY", "STOP_ACTIVITY">>, <<"START_ACTIVITY">>}, b \in {{}, {1}, {2}} }
Cfg2Valid == {c \in Cfg2 : c.await["h1"] \in AwaitAfter(c.trig["h1"])}

\* two hooks meeting in one moment: weights on both sides of zero, calls awaited in the same moment at
\* different weights (one of them deferred from an earlier moment), both possibly failing
Cfg3 ==
  { [trig |-> [h \in {"h1", "h2"} |-> IF h = "h1" THEN t1 ELSE t2],
     await |-> [h \in {"h1", "h2"} |-> IF h = "h1" THEN a1 ELSE a2],
     crit |-> [h \in {"h1", "h2"} |-> IF h = "h1" THEN c1 ELSE c2],
     fails |-> f, plan |-> <<"START_ACTIVITY", "STOP_ACTIVITY">>, bodyfails |-> {}, teardown |-> TRUE, quiet |-> {}, once |-> {}] :
      t1 \in {M("before_START_ACTIVITY", 0), M("leave_CONFIGURED", -1)},
      a1 \in {M("before_START_ACTIVITY", 0), M("leave_CONFIGURED", -1), M("leave_CONFIGURED", 5)},
      t2 \in {M("leave_CONFIGURED", -1), M("leave_CONFIGURED", 0), M("leave_CONFIGURED", 10), M("enter_RUNNING", 0)},
      a2 \in {M("leave_CONFIGURED", -1), M("leave_CONFIGURED", 0), M("leave_CONFIGURED", 10), M("enter_RUNNING", 0), M("after_START_ACTIVITY", 0)},
      c1 \in BOOLEAN, c2 \in BOOLEAN, f \in SUBSET {"h1", "h2"} }
Cfg3Valid == {c \in Cfg3 : /\ (c.await["h1"] = c.trig["h1"] \/ c.await["h1"] = M("leave_CONFIGURED", 5))
                           /\ (c.await["h2"] = c.trig["h2"] \/ c.await["h2"] = M("after_START_ACTIVITY", 0))}
\* a second run in the same environment: what the first run left behind must not be visible in the second
Cfg4 ==
  { [trig |-> [h \in {"h1", "h2"} |-> IF h = "h1" THEN t1 ELSE M("after_START_ACTIVITY", 0)],
     await |-> [h \in {"h1", "h2"} |-> IF h = "h1" THEN t1 ELSE M("after_START_ACTIVITY", 0)],
     crit |-> [h \in {"h1", "h2"} |-> TRUE],
     fails |-> {}, plan |-> <<"START_ACTIVITY", "STOP_ACTIVITY", "START_ACTIVITY">>, bodyfails |-> {}, teardown |-> TRUE, quiet |-> {}, once |-> {}] :
      t1 \in {M("before_START_ACTIVITY", -1), M("before_START_ACTIVITY", 0), M("enter_RUNNING", 0), M("before_STOP_ACTIVITY", 0), M("after_STOP_ACTIVITY", -1)} }
\* a call triggered and awaited in one moment at different weights of one sign, nothing else at the await weight, and a
\* second hook at a still later weight: the await point (5) lies between the two triggers (0, 10)
Cfg5 ==
  { [trig |-> [h \in {"h1", "h2"} |-> IF h = "h1" THEN M(m, 0) ELSE M(m, 10)],
     await |-> [h \in {"h1", "h2"} |-> IF h = "h1" THEN M(m, 5) ELSE a2],
     crit |-> [h \in {"h1", "h2"} |-> IF h = "h1" THEN c1 ELSE c2],
     fails |-> f, plan |-> <<"START_ACTIVITY", "STOP_ACTIVITY">>, bodyfails |-> {}, teardown |-> TRUE, quiet |-> {}, once |-> {}] :
      m \in {"leave_CONFIGURED"}, a2 \in {M("leave_CONFIGURED", 10), M("after_START_ACTIVITY", 0)},
      c1 \in BOOLEAN, c2 \in BOOLEAN, f \in SUBSET {"h1", "h2"} }
\* a STOP requested from inside the core (END_OF_STREAM of the task) is cancelled by a critical hook that fails that once; the
\* environment stays RUNNING; the STOP requested through the API afterwards goes through and must still collect - and report -
\* the call that has been pending since START for after_STOP_ACTIVITY
Cfg6 ==
  { [trig |-> [h \in {"h1", "h2"} |-> IF h = "h1" THEN t1 ELSE t2],
     await |-> [h \in {"h1", "h2"} |-> IF h = "h1" THEN M("after_STOP_ACTIVITY", 0) ELSE t2],
     crit |-> [h \in {"h1", "h2"} |-> IF h = "h1" THEN c1 ELSE TRUE],
     fails |-> f \cup {"h2"}, plan |-> <<"START_ACTIVITY", "STOP_ACTIVITY", "STOP_ACTIVITY">>, bodyfails |-> {}, teardown |-> TRUE,
     quiet |-> {2}, once |-> o] :
      t1 \in {M("enter_RUNNING", 0), M("after_START_ACTIVITY", 0), M("before_STOP_ACTIVITY", -1)},
      t2 \in {M("before_STOP_ACTIVITY", 0), M("leave_RUNNING", 0)},
      c1 \in BOOLEAN, f \in SUBSET {"h1"},
      o \in {{"h2"}, {}} }     \* (h2 fails the first time only / every time: then the request through the API is cancelled as well)
\* a STOP that completes (tasks stopped, CONFIGURED) but reports the failure of a critical hook at a negative weight of
\* after_STOP_ACTIVITY - requested through the API or from inside the core - watched by a hook at after_STOP_ACTIVITY+0
Cfg7 ==
  { [trig |-> [h \in {"h1", "h2"} |-> IF h = "h1" THEN M("after_STOP_ACTIVITY", -1) ELSE M("after_STOP_ACTIVITY", 0)],
     await |-> [h \in {"h1", "h2"} |-> IF h = "h1" THEN M("after_STOP_ACTIVITY", -1) ELSE M("after_STOP_ACTIVITY", 0)],
     crit |-> [h \in {"h1", "h2"} |-> IF h = "h1" THEN c1 ELSE FALSE],
     fails |-> f, plan |-> <<"START_ACTIVITY", "STOP_ACTIVITY">>, bodyfails |-> {}, teardown |-> TRUE, quiet |-> q, once |-> {}] :
      c1 \in BOOLEAN, f \in SUBSET {"h1"}, q \in {{}, {2}} }
\* THREE hooks (run with Hooks = H3): a critical and a non-critical call fail at the same weight of a before_/leave_ moment and a
\* third hook waits at a later weight of that moment: it must not be started
Cfg8 ==
  { [trig |-> [h \in H3 |-> IF h = "h3" THEN M(m, 10) ELSE M(m, 0)],
     await |-> [h \in H3 |-> IF h = "h3" THEN M(m, 10) ELSE M(m, 0)],
     crit |-> [h \in H3 |-> IF h = "h1" THEN TRUE ELSE IF h = "h2" THEN FALSE ELSE c3],
     fails |-> {"h1", "h2"}, plan |-> <<"START_ACTIVITY", "STOP_ACTIVITY">>, bodyfails |-> {}, teardown |-> TRUE, quiet |-> {}, once |-> {}] :
      m \in {"before_START_ACTIVITY", "leave_CONFIGURED"}, c3 \in BOOLEAN }
\* a critical hook failing in the negative half of an enter_ moment: the state has changed, nothing can be cancelled, and the
\* non-negative half still runs - a hook triggered there, and a call started earlier and awaited there
Cfg9 ==
  { [trig |-> [h \in {"h1", "h2"} |-> IF h = "h1" THEN M("enter_RUNNING", -1) ELSE t2],
     await |-> [h \in {"h1", "h2"} |-> IF h = "h1" THEN M("enter_RUNNING", -1) ELSE M("enter_RUNNING", 0)],
     crit |-> [h \in {"h1", "h2"} |-> IF h = "h1" THEN TRUE ELSE c2],
     fails |-> f, plan |-> <<"START_ACTIVITY", "STOP_ACTIVITY">>, bodyfails |-> {}, teardown |-> TRUE, quiet |-> {}, once |-> {}] :
      t2 \in {M("enter_RUNNING", 0), M("before_START_ACTIVITY", 0), M("leave_CONFIGURED", 0)},
      c2 \in BOOLEAN, f \in {{"h1"}, {"h1", "h2"}, {}} }
\* a call awaited at a NEGATIVE weight of a later moment at which nothing is triggered with a negative weight
Cfg10 ==
  { [trig |-> [h \in {"h1", "h2"} |-> IF h = "h1" THEN M("before_START_ACTIVITY", 0) ELSE M("after_START_ACTIVITY", 0)],
     await |-> [h \in {"h1", "h2"} |-> IF h = "h1" THEN a1 ELSE M("after_START_ACTIVITY", 0)],
     crit |-> [h \in {"h1", "h2"} |-> IF h = "h1" THEN c1 ELSE TRUE],
     fails |-> f, plan |-> <<"START_ACTIVITY", "STOP_ACTIVITY">>, bodyfails |-> {}, teardown |-> TRUE, quiet |-> {}, once |-> {}] :
      a1 \in {M("leave_CONFIGURED", -1), M("enter_RUNNING", -1), M("after_START_ACTIVITY", -1), M("before_STOP_ACTIVITY", -1), M("after_STOP_ACTIVITY", -1)},
      c1 \in BOOLEAN, f \in SUBSET {"h1"} }
CfgAll == Cfg2Valid \cup Cfg3Valid \cup Cfg4 \cup Cfg5 \cup Cfg6 \cup Cfg7 \cup Cfg9 \cup Cfg10
=============================================================================
