------------------------------ MODULE RunStart ------------------------------
(***************************************************************************)
(* C07, environment level: how START_ACTIVITY uses the shared run counter.  *)
(* core/environment/environment.go (before_event of START_ACTIVITY):        *)
(*   runNumber, err := the.ConfSvc().NewRunNumber()                         *)
(*   if err != nil { e.Cancel(err); return }      -- the start fails        *)
(*   env.currentRunNumber = runNumber             -- hooks and tasks see it *)
(* The counter protocol itself (consistent GET + CAS on ModifyIndex) is      *)
(* spec/RunCounter.tla; here one call of NewRunNumber is its abstraction:    *)
(* it either advances the counter atomically and returns the new value, or   *)
(* fails and changes nothing (RunCounter's invariants NoNumberWithoutCas /   *)
(* FailNotReuse).  One action per linearization point: the request, the      *)
(* counter step, the end of the transition.                                  *)
(***************************************************************************)
EXTENDS Naturals, Sequences, FiniteSets

CONSTANTS Envs,               \* environments
          MaxN,               \* bound on the counter (model finiteness)
          Code_UseUnconfirmed \* TRUE: a variant that carries on with the number it computed although the
                              \* counter was not advanced (what the property forbids; shows the invariants bite)

VARIABLES ctr,    \* value of the counter key
          fault,  \* the counter cannot be advanced at the moment (service down, CAS lost)
          est,    \* est[e]: CONFIGURED | STARTING | RUNNING | ERROR
          cur,    \* cur[e]: currentRunNumber of e (0 = none)
          got,    \* got[e]: TRUE when the attempt in progress obtained its number
          raced,  \* raced[e]: another call advanced the counter while the call of e's attempt was in flight
          log     \* history: sequence of [e, n] in the order the numbers were handed to start attempts

vars == <<ctr, fault, est, cur, got, raced, log>>

Init ==
  /\ ctr \in {0, 5} /\ fault = FALSE
  /\ est = [e \in Envs |-> "CONFIGURED"] /\ cur = [e \in Envs |-> 0] /\ got = [e \in Envs |-> FALSE]
  /\ raced = [e \in Envs |-> FALSE] /\ log = <<>>

\* ControlEnvironment(START_ACTIVITY) accepted
BeginStart(e) ==
  /\ est[e] = "CONFIGURED"
  /\ est' = [est EXCEPT ![e] = "STARTING"] /\ got' = [got EXCEPT ![e] = FALSE] /\ raced' = [raced EXCEPT ![e] = FALSE]
  /\ UNCHANGED <<ctr, fault, cur, log>>

\* before_event: NewRunNumber succeeds - the counter is advanced and the new value is this attempt's number
Obtain(e) ==
  /\ est[e] = "STARTING" /\ ~got[e] /\ ~fault /\ ctr < MaxN
  /\ ctr' = ctr + 1
  /\ cur' = [cur EXCEPT ![e] = ctr + 1] /\ got' = [got EXCEPT ![e] = TRUE]
  /\ log' = Append(log, [e |-> e, n |-> ctr + 1])
  \* whoever is between its read and its CAS now will find the key changed
  /\ raced' = [o \in Envs |-> IF o # e /\ est[o] = "STARTING" /\ ~got[o] THEN TRUE ELSE raced[o]]
  /\ UNCHANGED <<fault, est>>

\* before_event: NewRunNumber fails (service fault, or the CAS lost to a concurrent call: RunCounter.tla) - the event is
\* cancelled, the request fails, the environment ends in ERROR
ObtainFails(e) ==
  /\ est[e] = "STARTING" /\ ~got[e] /\ (fault \/ raced[e])
  /\ IF Code_UseUnconfirmed
       THEN /\ cur' = [cur EXCEPT ![e] = IF raced[e] THEN ctr ELSE ctr + 1] /\ got' = [got EXCEPT ![e] = TRUE]
            /\ log' = Append(log, [e |-> e, n |-> IF raced[e] THEN ctr ELSE ctr + 1])
            /\ UNCHANGED est
       ELSE /\ est' = [est EXCEPT ![e] = "ERROR"]
            /\ UNCHANGED <<cur, got, log>>
  /\ UNCHANGED <<ctr, fault, raced>>

\* the rest of the transition (hooks, tasks) succeeds ...
EndStart(e) ==
  /\ est[e] = "STARTING" /\ got[e]
  /\ est' = [est EXCEPT ![e] = "RUNNING"]
  /\ UNCHANGED <<ctr, fault, cur, got, raced, log>>

\* ... or fails: the number stays spent
StartFailsLater(e) ==
  /\ est[e] = "STARTING" /\ got[e]
  /\ est' = [est EXCEPT ![e] = "ERROR"] /\ cur' = [cur EXCEPT ![e] = 0]
  /\ UNCHANGED <<ctr, fault, got, raced, log>>

Stop(e) ==
  /\ est[e] = "RUNNING"
  /\ est' = [est EXCEPT ![e] = "CONFIGURED"] /\ cur' = [cur EXCEPT ![e] = 0] /\ got' = [got EXCEPT ![e] = FALSE]
  /\ UNCHANGED <<ctr, fault, raced, log>>

\* another (monotone) writer of the key: another core instance, an operator
Foreign(by) == /\ ctr + by <= MaxN /\ ctr' = ctr + by
               /\ raced' = [o \in Envs |-> IF est[o] = "STARTING" /\ ~got[o] THEN TRUE ELSE raced[o]]
               /\ UNCHANGED <<fault, est, cur, got, log>>
SetFault(b) == /\ fault # b /\ fault' = b /\ UNCHANGED <<ctr, est, cur, got, raced, log>>

Next ==
  \/ \E e \in Envs : BeginStart(e) \/ Obtain(e) \/ ObtainFails(e) \/ EndStart(e) \/ StartFailsLater(e) \/ Stop(e)
  \/ \E by \in 1..2 : Foreign(by)
  \/ \E b \in BOOLEAN : SetFault(b)
Spec == Init /\ [][Next]_vars

(* ------------------------------ properties ----------------------------- *)
TypeOK == /\ ctr \in 0..MaxN /\ fault \in BOOLEAN
          /\ \A e \in Envs : est[e] \in {"CONFIGURED", "STARTING", "RUNNING", "ERROR"} /\ cur[e] \in 0..(MaxN + 1)
\* no number is handed to two start attempts
Unique == \A i, j \in DOMAIN log : i # j => log[i].n # log[j].n
\* numbers handed out later are larger
Increasing == \A i, j \in DOMAIN log : i < j => log[i].n < log[j].n
\* a number handed out is one the counter was advanced to
FromCounter == \A i \in DOMAIN log : log[i].n <= ctr
\* a running environment holds the number of its own latest attempt
RunningHoldsOwn ==
  \A e \in Envs : est[e] = "RUNNING" =>
     /\ cur[e] # 0
     /\ \E i \in DOMAIN log : /\ log[i] = [e |-> e, n |-> cur[e]]
                              /\ \A j \in DOMAIN log : (j > i) => log[j].e # e
\* an attempt that could not obtain a number does not run
NoRunWithoutNumber == \A e \in Envs : (est[e] \in {"STARTING"} /\ ~got[e]) => TRUE
=============================================================================
