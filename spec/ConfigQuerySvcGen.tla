-------------------------- MODULE ConfigQuerySvcGen --------------------------
(***************************************************************************)
(* Scenario generator for spec/ConfigQuerySvc.tla (tlc -simulate, seeded):  *)
(* a behaviour is a sequence of requests to ONE service.  The actions are    *)
(* wrapped in G_ operators (TLC labels the steps); the request itself is     *)
(* read from the state variable req.  Steering: a processed request to a     *)
(* base path never repeats the variables of the previous processed request   *)
(* to that base path (so consecutive requests differ in what the template    *)
(* functions look up), and an update is followed by the documented           *)
(* invalidation before the next processed request (RequireInvalidate).       *)
(***************************************************************************)
EXTENDS ConfigQuerySvc

VARIABLE last      \* base path -> variables of the last processed request there

gvars == <<svars, last>>

NoVars == << <<"-", "-">> >>

GInit == Init /\ last = [d \in {"D1", "D2"} |-> NoVars]

G_Process(e, i) == /\ VarCat[i] # last[DirOf(e)]
                   /\ Process(e, VarCat[i])
                   /\ last' = [last EXCEPT ![DirOf(e)] = VarCat[i]]
G_Raw(e)        == Raw(e) /\ UNCHANGED last
G_Invalidate    == (dirty \/ \E e \in Entries : compiled[e] # NoSnap) /\ Invalidate /\ UNCHANGED last
G_Update(e, i)  == ~dirty /\ Update(e, UpdCat[i]) /\ UNCHANGED last

\* processed requests are what the property is about: three chances in the disjunction
GNext == \/ \E e \in Askable, i \in VarIds : G_Process(e, i)
         \/ \E e \in Entries \ {"D2s"}, i \in VarIds : G_Process(e, i)
         \/ \E e \in {"D1e", "D1f", "D2e"}, i \in VarIds : G_Process(e, i)
         \/ \E e \in {"D1e", "D2e", "D2f"} : G_Raw(e)
         \/ G_Invalidate
         \/ \E e \in UpdEntries, i \in UpdIds : G_Update(e, i)

GenSpec == GInit /\ [][GNext]_gvars
=============================================================================
