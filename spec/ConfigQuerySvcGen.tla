-------------------------- MODULE ConfigQuerySvcGen --------------------------
(***************************************************************************)
(* Scenario generator for spec/ConfigQuerySvc.tla (tlc -simulate, seeded):  *)
(* a behaviour is a sequence of requests to ONE service.  The actions are    *)
(* wrapped in G_ operators (TLC labels the steps); the request itself is     *)
(* read from the state variable req.  Steering: a processed request to a     *)
(* base path never repeats the variables of the previous processed request   *)
(* to that base path (so consecutive requests differ in what the template    *)
(* functions look up), and an update is followed by the documented           *)
(* invalidation before the next processed request (RequireInvalidate).       *)
(* Focus = "mixed": each behaviour is one of the following two kinds.         *)
(* Focus = "render": template requests.  Focus = "store": the backing store   *)
(* is edited from outside and the very next request is a resolution or a      *)
(* plain get of one of the four candidates (no other backend access in        *)
(* between); requests that make the backend re-read the store are rare;       *)
(* resolutions also run while existence checks of the backend fail (Faults).  *)
(* Focus = "conc": read-only undisturbed requests only; the driver issues      *)
(* them CONCURRENTLY from several goroutines against the one service.          *)
(***************************************************************************)
EXTENDS ConfigQuerySvc

CONSTANT Focus

VARIABLES last,    \* base path -> variables of the last processed request there
          foc      \* what this behaviour concentrates on

gvars == <<svars, last, foc>>

NoVars == << <<"-", "-">> >>

GInit == /\ Init /\ last = [d \in Dirs |-> NoVars]
         /\ foc \in (IF Focus = "mixed" THEN {"render", "store", "conc"} ELSE {Focus})
         /\ foc = "conc" => Cardinality({k \in Keys : store[k] # 0}) >= 2     \* something to look up
         /\ foc = "conc" => backend = "file"        \* the concurrent runs hammer the file backend (no HTTP round trips)

G_Process(e, i) == /\ VarCat[i] # last[DirOf(e)]
                   /\ Process(e, VarCat[i])
                   /\ last' = [last EXCEPT ![DirOf(e)] = VarCat[i]]
G_Raw(e)        == Raw(e) /\ UNCHANGED last
G_Invalidate    == (dirty \/ \E e \in Entries : compiled[e] # NoSnap) /\ Invalidate /\ UNCHANGED last
G_Update(e, i)  == ~dirty /\ Update(e, UpdCat[i]) /\ UNCHANGED last

G_ExternalEdit(k, v) == ExternalEdit(k, v) /\ UNCHANGED last
G_Resolve(k, F)      == Resolve(k, F) /\ UNCHANGED last
G_GetX(k, F)         == GetX(k, F) /\ UNCHANGED last

\* an edit is immediately followed by a resolution or a get of a candidate (or by one more edit)
AfterEdit == req.op = "ExternalEdit"
StoreNext ==
  \/ \E k \in Keys : G_Resolve(k, {})
  \/ \E k \in Keys, F \in Faults : G_Resolve(k, F)                        \* ... also while existence checks fail
  \/ AfterEdit /\ G_GetX(req.e, {})
  \/ ~AfterEdit /\ \E k \in {"Pr", "Aa"}, F \in {{}, AllFour} : G_GetX(k, F)
  \/ \E k \in Keys, v \in EditVals : (AfterEdit => k # req.e) /\ G_ExternalEdit(k, v)
  \/ ~AfterEdit /\ (G_Raw("D1e") \/ G_Update("D1e", 1) \/ G_Process("D1f", 2) \/ G_Invalidate)

\* processed requests are what the property is about: three chances in the disjunction
RenderNext ==
  \/ \E e \in Askable, i \in VarIds : G_Process(e, i)
  \/ \E e \in Entries \ {"D2s"}, i \in VarIds : G_Process(e, i)
  \/ \E e \in {"D1e", "D1f", "D2e", "S1m", "S3m"}, i \in VarIds : G_Process(e, i)
  \/ \E e \in {"D1e", "D2e", "D2f"} : G_Raw(e)
  \/ G_Invalidate
  \/ \E e \in UpdEntries, i \in UpdIds : G_Update(e, i)

\* read-only, undisturbed requests: the material of a concurrent stress run (dealt to several goroutines by the driver)
\* (mostly look-ups of candidates that exist: those are the answers a disturbed store reading gets wrong)
ConcNext ==
  \/ \E e \in {"D1f", "S1m", "D2e"}, i \in VarIds \cap {2, 4} : G_Process(e, i)
  \/ G_Raw("D1e")
  \/ \E k \in Keys : G_Resolve(k, {})
  \/ \E k \in Keys : SpecResolve(XQ(k), Existing(store)) # NotFound /\ G_Resolve(k, {})
  \/ \E k \in Keys : store[k] # 0 /\ G_GetX(k, {})
  \/ \E k \in Keys : G_GetX(k, {})

GNext == \/ foc = "conc" /\ ConcNext /\ UNCHANGED foc
         \/ foc = "render" /\ RenderNext /\ UNCHANGED foc
         \/ foc = "store" /\ StoreNext /\ UNCHANGED foc

GenSpec == GInit /\ [][GNext]_gvars
=============================================================================
