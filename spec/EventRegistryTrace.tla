------------------------ MODULE EventRegistryTrace --------------------------
(* Monitor for runs of the real registry (harness/cmd/evregistry): rounds of concurrent first use of a fresh   *)
(* topic.  Lines: Reset{scn} | Created{topic, w} | Got{p, topic, w} | Closed{w} | Cleared | End.               *)
(* Soft invariants: OnePipelinePerTopic (every Got of a topic between two Cleared names the same writer, and  *)
(* that topic saw exactly one Created), ShutdownClosesAll (at Cleared every writer handed out is Closed).      *)
EXTENDS Integers, Sequences, FiniteSets, Json, IOUtils, TLC
Trace == ndJsonDeserialize(IOEnv.TRACE_FILE)
VARIABLES l, scn, created, got, closedW, nviol
Line == Trace[l]
Soft(name, cond, detail) == IF cond THEN 0 ELSE IF PrintT(<<"VIOL", name, scn, l, detail>>) THEN 1 ELSE 1
TraceInit == l = 1 /\ scn = -1 /\ created = {} /\ got = {} /\ closedW = {} /\ nviol = 0
TraceNext ==
  /\ l <= Len(Trace)
  /\ CASE Line.ev = "Reset" -> scn' = Line.scn /\ created' = {} /\ got' = {} /\ closedW' = {} /\ UNCHANGED nviol
       [] Line.ev = "Created" -> created' = created \cup {<<Line.topic, Line.w>>} /\ UNCHANGED <<scn, got, closedW, nviol>>
       [] Line.ev = "Got" -> /\ got' = got \cup {<<Line.topic, Line.w>>}
                             /\ nviol' = nviol + Soft("OnePipelinePerTopic", \A g \in got : g[1] = Line.topic => g[2] = Line.w, <<Line.topic, Line.w>>)
                             /\ UNCHANGED <<scn, created, closedW>>
       [] Line.ev = "Closed" -> closedW' = closedW \cup {Line.w} /\ UNCHANGED <<scn, created, got, nviol>>
       [] Line.ev = "Cleared" -> /\ nviol' = nviol
                                      + Soft("ShutdownClosesAll", \A g \in got \cup created : g[2] \in closedW, {g \in got \cup created : g[2] \notin closedW})
                                      + Soft("OnePipelinePerTopic", \A c1, c2 \in created : c1[1] = c2[1] => c1 = c2, Cardinality(created))
                                 /\ created' = {} /\ got' = {} /\ closedW' = {} /\ UNCHANGED scn
       \* real writers (no injected stand-ins) against a broker that accepts connections and never answers: every producer's
       \* publication - first event on a new topic or not - has returned within the bound (seconds; the broker's own time-outs
       \* are an order of magnitude longer)
       [] Line.ev = "BlackHole" -> /\ nviol' = nviol + Soft("ProducersNeverWaitForBroker", Line.returned = Line.total,
                                                          <<"publications still blocked", Line.total - Line.returned, Line.bound_ms>>)
                                   /\ UNCHANGED <<scn, created, got, closedW>>
       [] OTHER -> UNCHANGED <<scn, created, got, closedW, nviol>>
  /\ l' = l + 1
TraceSpec == TraceInit /\ [][TraceNext]_<<l, scn, created, got, closedW, nviol>>
PrintEnd == (l = Len(Trace) + 1) => PrintT(<<"END", Len(Trace), nviol>>)
=============================================================================
