----------------------------- MODULE TrgRunGen ------------------------------
(* Scenario generator for TrgRun (X04): every action of the model is something the harness can impose on the real plugin *)
(* (harness/cmd/trgrun parks every request in the fake trigger service and lets it take effect when the scenario says so; *)
(* PollReply = delivery of the RunList reply, after which the real poller reads the active run numbers before it can be    *)
(* observed again).  A behaviour (tlc -simulate) is a scenario: the environment's steps, the hooks with the outcome         *)
(* scripted for the service, the poller's steps in the chosen interleaving.  The generator only removes steps that show     *)
(* nothing (polling an empty service with an empty cache, Cleanup with nothing to clean in CONFIGURED, destroying an        *)
(* environment that could still run) and spreads the faults over the behaviour instead of spending them on the first hooks. *)
EXTENDS TrgRun
Gate(f) == f = "none" \/ TLCGet("level") >= 5 * (nf + 1)
G_Prepare(e, f) == nextrun = 1 /\ Gate(f) /\ Prepare(e, f, "go")
G_NewRun(e) == NewRun(e)
G_LoadHook(e, f, c) == Gate(f) /\ LoadHook(e, f, c)
G_StartHook(e, f, c) == Gate(f) /\ StartHook(e, f, c)
G_StopHook(e, f, c) == Gate(f) /\ StopHook(e, f, c)
G_UnloadHook(e, f, c) == Gate(f) /\ UnloadHook(e, f, c)
G_EndRun(e) == EndRun(e)
G_GoError(e) == TLCGet("level") % 4 = 0 /\ GoError(e)
G_Destroy(e) == (ph[e] = "err" \/ nextrun > MaxRun) /\ Destroy(e)
G_CleanupFirst(e, f) == (ph[e] # "conf" \/ pstop[e] \cup punl[e] # {}) /\ Gate(f) /\ CleanupFirst(e, f)
G_CleanupNext(e, f) == Gate(f) /\ CleanupNext(e, f)
G_PollQuery(f) == (Snapshot # {} \/ cache # {}) /\ Gate(f) /\ PollQuery(f)
G_PollReply == PollReply
G_RecStop(f) == Gate(f) /\ RecStop(f)
G_RecUnload(f) == Gate(f) /\ RecUnload(f)
GenNext ==
  \/ \E e \in Envs :
       \/ \E f \in Faults, c \in {"go", "err"} : G_LoadHook(e, f, c) \/ G_StartHook(e, f, c) \/ G_StopHook(e, f, c) \/ G_UnloadHook(e, f, c)
       \/ \E f \in Faults : G_Prepare(e, f) \/ G_CleanupFirst(e, f) \/ G_CleanupNext(e, f)
       \/ G_NewRun(e) \/ G_EndRun(e) \/ G_GoError(e) \/ G_Destroy(e)
  \/ \E f \in {"none", "err"} : G_PollQuery(f)
  \/ G_PollReply
  \/ \E f \in Faults : G_RecStop(f) \/ G_RecUnload(f)
GenSpec == Init /\ [][GenNext]_vars
=============================================================================
