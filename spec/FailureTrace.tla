--------------------------- MODULE FailureTrace ---------------------------
(***************************************************************************)
(* Trace specification for C03 over runs of the real core recorded by the  *)
(* whole-core simulation (harness/cmd/coresim).  Lines (projected by       *)
(* lib/props/C03.py; every field used below is always present):            *)
(*   Reset{scn, model:{tasks:[{id,class,crit}], hook}}                      *)
(*   MAccept{tasks:[{class,agent,executor}]}                                *)
(*   Api{call,op} / ApiReply{call,op,code,st,rn}                            *)
(*   Fault{kind,class,ok}                                                   *)
(*   Hook{point,state,what,st,to}   (env.watch.start|subscribed|recv|fire,  *)
(*        wf.notify.sent|dropped|nosub, env.lock.acquired|release,          *)
(*        env.setstate) - only those of the scenario's environment          *)
(*   Observe{st}  Snapshot{st}  RunEv{rn,tx,status}  Gate{op,point}  End    *)
(*                                                                         *)
(* MONITOR (soft invariants on recorded facts only, independent of the      *)
(* model's deviation constants):                                            *)
(*   NonCriticalInert  while only non-critical tasks have been hit, every   *)
(*                     observed environment state is the one the operator's *)
(*                     own requests lead to                                 *)
(*   ErrorReached      a critical task of a live environment was hit by a   *)
(*                     failure kind of the statement => the scenario's final *)
(*                     observation (after the poll deadline, no gate closed) *)
(*                     shows ERROR                                           *)
(*   RunEndRecorded    at the end, every started run of an environment that  *)
(*                     is not RUNNING any more has an end-of-run event       *)
(*   RunEndClosed      a GO_ERROR / STOP_ACTIVITY that announced the end of  *)
(*                     a run (STARTED event) and completed has published the *)
(*                     closing (DONE) run event                              *)
(* STRICT: the recorded hook points follow the watcher / lock automaton of   *)
(* spec/Failure.tla (its operators WatchAfter, Rec, Dst) and every observed   *)
(* state is the model's; a mismatch prints DRIFT and suspends strict checking *)
(* until the next Reset.                                                     *)
(***************************************************************************)
EXTENDS Failure, Integers, Json, IOUtils

Trace == ndJsonDeserialize(IOEnv.TRACE_FILE)

VARIABLES
  l, scn, case, phase, nviol,
  \* monitor
  place,      \* class -> <<agent, executor>> (from MAccept)
  dead,       \* classes whose process is gone
  lastSt,     \* last observed environment state
  expectSt,   \* state the operator's own requests lead to
  inflight,   \* operator request in flight: "none" | "START" | "STOP"
  critFault,  \* obligation: ERROR must be reached
  critSeen,   \* a critical task was touched by any fault
  gates,      \* gate points currently closed
  started,    \* run numbers whose START completed
  ended,      \* run numbers with an end-of-run event
  finalSt,    \* state in the last Snapshot
  openTx,     \* <<run, transition>> whose STARTED run event has no DONE_* counterpart yet
  unclosed,   \* ... and whose transition completed nevertheless
  openRun,    \* a run was announced (START_ACTIVITY STARTED run event) and no end-of-run event followed yet
  \* strict
  mode,       \* "sync" | "lost"
  w,          \* watcher: "none" | "unsub" | "select" | "armed" | "fired" | "stop" | "exited"
  lk,         \* lock holder: "none" | "START_ACTIVITY" | "STOP_ACTIVITY" | "GO_ERROR" | other
  envM,       \* model's environment state
  reM,        \* model's runEnd
  srvErr,     \* a failed API transition is followed by the handler's own GO_ERROR
  nsent, nrecv

tvars == <<l, scn, case, phase, nviol, place, dead, lastSt, expectSt, inflight, critFault, critSeen, gates, started, ended,
           finalSt, openTx, unclosed, openRun, mode, w, lk, envM, reM, srvErr, nsent, nrecv>>
mvars == <<place, dead, lastSt, expectSt, inflight, critFault, critSeen, gates, started, ended, finalSt, openTx, unclosed, openRun>>
svars == <<mode, w, lk, envM, reM, srvErr, nsent, nrecv>>

Line == Trace[l]
Soft(name, cond, detail) == IF cond THEN 0 ELSE IF PrintT(<<"VIOL", name, scn, l, detail>>) THEN 1 ELSE 1
Drift(what) == PrintT(<<"DRIFT", scn, l, what>>)

NoCase == [tasks |-> <<>>, hook |-> "none"]
CT == {case.tasks[i] : i \in 1..Len(case.tasks)}
CClasses == {r.class : r \in CT}
CritOf(c) == \E r \in CT : r.class = c /\ r.crit
OpOf(op) == IF op = "START_ACTIVITY" THEN "START" ELSE IF op = "STOP_ACTIVITY" THEN "STOP" ELSE "other"

\* ---- monitor ------------------------------------------------------------------
\* classes that lose their process with this fault (executor = agent in the simulation, see MAccept)
Hit(kind, c) ==
  IF kind \in {"EXECUTOR_LOST", "AGENT_LOST"} /\ c \in DOMAIN place
    THEN {d \in DOMAIN place : place[d] = place[c] /\ d \notin dead}
    ELSE {c}

\* the states an observation may show while only non-critical tasks were hit
Allowed == IF inflight = "none" THEN {expectSt} ELSE {expectSt, Dst(inflight)}

ObserveM(st) ==
  /\ lastSt' = st
  /\ nviol' = nviol + (IF ~critSeen /\ phase = "run" THEN Soft("NonCriticalInert", st \in Allowed, <<st, expectSt, inflight>>) ELSE 0)

\* ---- strict: the watcher / lock automaton ---------------------------------------
Sync == mode = "sync"
Lose(what) == /\ Drift(what) /\ mode' = "lost" /\ UNCHANGED <<w, lk, envM, reM, srvErr, nsent, nrecv>>
Keep == UNCHANGED svars

\* states an observation may show according to the model
ModelStates ==
  IF lk = "none" THEN {envM}
  ELSE IF lk = "GO_ERROR" THEN {envM, "ERROR"}
  ELSE IF lk = "START_ACTIVITY" THEN {envM, "RUNNING"}
  ELSE IF lk = "STOP_ACTIVITY" THEN {envM, "CONFIGURED"}
  ELSE {envM, "DEPLOYED", "CONFIGURED", "DONE"}

ObserveS(st) ==
  IF Sync /\ phase = "run" /\ envM # "?" /\ st \notin ModelStates THEN Lose(<<"state", st, envM, lk>>) ELSE Keep

HookS ==
  LET p == Line.point IN
  IF ~Sync \/ phase # "run" THEN Keep
  ELSE CASE p = "env.watch.start" ->
              IF w = "none" THEN w' = "unsub" /\ UNCHANGED <<mode, lk, envM, reM, srvErr, nsent, nrecv>> ELSE Lose(<<p, w>>)
         [] p = "env.watch.subscribed" ->
              IF w = "unsub"
                THEN /\ w' = IF Line.state = "ERROR"
                               THEN (IF Code_SubscribeIgnoresError THEN "exited" ELSE "armed")
                               ELSE "select"
                     /\ UNCHANGED <<mode, lk, envM, reM, srvErr, nsent, nrecv>>
                ELSE Lose(<<p, w>>)
         [] p = "wf.notify.sent" ->
              \* a rendezvous needs a subscriber in its loop
              IF w = "none" THEN Keep   \* before the watcher exists: DeployTransition's own subscription
              ELSE IF w = "select" THEN nsent' = nsent + 1 /\ UNCHANGED <<mode, w, lk, envM, reM, srvErr, nrecv>>
              ELSE IF w \in {"armed", "exited"} /\ nsent < nrecv
                     THEN nsent' = nsent + 1 /\ UNCHANGED <<mode, w, lk, envM, reM, srvErr, nrecv>>  \* the receiver's hook line came first
                     ELSE Lose(<<p, w>>)
         [] p = "wf.notify.dropped" ->
              \* a subscription exists but the subscriber is not at its select
              IF w \in {"none", "unsub", "select", "armed", "exited"} THEN Keep ELSE Lose(<<p, w>>)
         [] p = "wf.notify.nosub" ->
              IF w \in {"none", "unsub", "armed", "fired", "stop", "exited"} THEN Keep ELSE Lose(<<p, w>>)
         [] p = "env.watch.recv" ->
              IF w = "select" /\ nrecv <= nsent
                THEN /\ w' = (IF WatchAfter(Line.state) = "loop" THEN "select" ELSE WatchAfter(Line.state))
                     /\ nrecv' = nrecv + 1
                     /\ UNCHANGED <<mode, lk, envM, reM, srvErr, nsent>>
                ELSE Lose(<<p, w, nsent, nrecv>>)
         [] p = "env.watch.fire" ->
              IF w = "armed" THEN w' = "fired" /\ UNCHANGED <<mode, lk, envM, reM, srvErr, nsent, nrecv>> ELSE Lose(<<p, w>>)
         [] p = "env.lock.acquired" ->
              IF lk # "none" THEN Lose(<<p, lk, Line.what>>)
              ELSE IF Line.what = "GO_ERROR" /\ ~(w = "fired" \/ srvErr) THEN Lose(<<p, "GO_ERROR", w>>)
              ELSE IF envM # "?" /\ Line.st # envM THEN Lose(<<p, Line.st, envM>>)
              ELSE /\ lk' = Line.what
                   /\ envM' = Line.st
                   /\ UNCHANGED <<mode, w, reM, srvErr, nsent, nrecv>>
         [] p = "env.lock.release" ->
              IF lk # Line.what THEN Lose(<<p, lk, Line.what>>)
              ELSE IF Line.what = "GO_ERROR"
                THEN \* Failure!GoError / ForceError: ERROR unless refused (then env.setstate follows); already ERROR: skipped
                     LET refused == case.hook \in {"early", "late"} /\ envM \in Live
                         exp == IF refused THEN envM ELSE "ERROR"
                         expRe == IF envM \in Live /\ ~(case.hook = "early") THEN Rec(reM) ELSE reM
                     IN IF Line.st # exp THEN Lose(<<p, "GO_ERROR", Line.st, exp>>)
                        ELSE IF expRe = "recorded" /\ reM = "open" THEN Lose(<<p, "GO_ERROR", "no end of run", reM>>)
                        \* (the watcher's GO_ERROR and the API handler's one after a failed transition may both be due,
                        \* in either order: the first release is booked on the watcher's)
                        ELSE /\ lk' = "none" /\ envM' = Line.st /\ srvErr' = (IF w = "fired" THEN srvErr ELSE FALSE)
                             /\ w' = IF w = "fired" /\ ~refused THEN "stop" ELSE w
                             /\ UNCHANGED <<mode, reM, nsent, nrecv>>
                ELSE IF Line.what \in {"START_ACTIVITY", "STOP_ACTIVITY"}
                  THEN IF Line.st \notin {envM, Dst(OpOf(Line.what))} THEN Lose(<<p, Line.what, Line.st, envM>>)
                       ELSE /\ lk' = "none" /\ envM' = Line.st
                            \* Failure!TxFail: only the API handler follows a failed transition with GO_ERROR
                            /\ srvErr' = (Line.st = envM /\ inflight # "none")
                            /\ UNCHANGED <<mode, w, reM, nsent, nrecv>>
                  ELSE lk' = "none" /\ envM' = Line.st /\ UNCHANGED <<mode, w, reM, srvErr, nsent, nrecv>>
         [] p = "env.setstate" ->
              \* Failure!ForceError (watcher) - or the API handler's forced ERROR
              IF Line.to = "ERROR" /\ w = "fired" /\ case.hook \in {"early", "late"} /\ lk = "none"
                THEN envM' = "ERROR" /\ w' = "stop" /\ UNCHANGED <<mode, lk, reM, srvErr, nsent, nrecv>>
                ELSE Lose(<<p, Line.to, w, lk>>)
         [] OTHER -> Keep

RunEvS ==
  IF ~Sync \/ phase # "run" THEN Keep
  ELSE /\ reM' = IF Line.tx = "START_ACTIVITY" /\ Line.status = "STARTED" THEN "open"
                 ELSE IF Line.tx \in {"STOP_ACTIVITY", "GO_ERROR"} /\ Line.status = "STARTED" THEN Rec(reM)
                 ELSE reM
       /\ UNCHANGED <<mode, w, lk, envM, srvErr, nsent, nrecv>>

\* ---- lines ------------------------------------------------------------------------
TReset ==
  /\ Line.ev = "Reset"
  /\ scn' = Line.scn /\ case' = Line.model /\ phase' = "run"
  /\ place' = <<>> /\ dead' = {} /\ lastSt' = "?" /\ expectSt' = "?" /\ inflight' = "none"
  /\ critFault' = FALSE /\ critSeen' = FALSE /\ gates' = {} /\ started' = {} /\ ended' = {} /\ finalSt' = "?"
  /\ openTx' = {} /\ unclosed' = {} /\ openRun' = FALSE
  /\ mode' = "sync" /\ w' = "none" /\ lk' = "none" /\ envM' = "?" /\ reM' = "norun" /\ srvErr' = FALSE
  /\ nsent' = 0 /\ nrecv' = 0
  /\ UNCHANGED nviol

TAccept ==
  /\ Line.ev = "MAccept"
  /\ place' = [c \in DOMAIN place \cup {Line.tasks[i].class : i \in 1..Len(Line.tasks)} |->
                 IF \E i \in 1..Len(Line.tasks) : Line.tasks[i].class = c
                   THEN LET r == CHOOSE x \in {Line.tasks[i] : i \in 1..Len(Line.tasks)} : x.class = c
                        IN <<r.agent, r.executor>>
                   ELSE place[c]]
  /\ UNCHANGED <<scn, case, phase, nviol, dead, lastSt, expectSt, inflight, critFault, critSeen, gates, started, ended, finalSt, openTx, unclosed, openRun>>
  /\ Keep

TApi ==
  /\ Line.ev = "Api"
  /\ inflight' = IF Line.call = "control" /\ phase = "run" THEN OpOf(Line.op) ELSE inflight
  /\ UNCHANGED <<scn, case, phase, nviol, place, dead, lastSt, expectSt, critFault, critSeen, gates, started, ended, finalSt, openTx, unclosed, openRun>>
  /\ Keep

TReply ==
  /\ Line.ev = "ApiReply"
  /\ IF phase # "run" THEN UNCHANGED <<nviol, lastSt, expectSt, inflight>> /\ Keep
     ELSE IF Line.call = "create"
       THEN /\ expectSt' = "CONFIGURED" /\ lastSt' = Line.st /\ UNCHANGED <<nviol, inflight>>
            /\ IF Sync /\ Line.st # "CONFIGURED" THEN Lose(<<"create", Line.st>>)
               ELSE envM' = (IF envM = "?" THEN Line.st ELSE envM) /\ UNCHANGED <<mode, w, lk, reM, srvErr, nsent, nrecv>>
     ELSE IF Line.call = "control"
       THEN /\ expectSt' = Dst(OpOf(Line.op))
            /\ inflight' = "none"
            /\ lastSt' = Line.st
            /\ nviol' = nviol + (IF ~critSeen THEN Soft("NonCriticalInert", Line.st = Dst(OpOf(Line.op)), <<Line.op, Line.st>>) ELSE 0)
            \* the reply carries the state the handler read when its transition returned: a GO_ERROR that waited
            \* for the lock may have been recorded before the reply line
            /\ (IF Line.st = Dst(OpOf(Line.op)) THEN Keep ELSE ObserveS(Line.st))
       ELSE UNCHANGED <<nviol, lastSt, expectSt, inflight>> /\ Keep
  /\ UNCHANGED <<scn, case, phase, place, dead, critFault, critSeen, gates, started, ended, finalSt, openTx, unclosed, openRun>>

TFault ==
  /\ Line.ev = "Fault"
  /\ LET H == Hit(Line.kind, Line.class)
         hc == \E c \in H : CritOf(c)
     IN /\ dead' = IF Line.kind = "INTERNAL_ERROR" THEN dead ELSE dead \cup H
        /\ critSeen' = (critSeen \/ hc)
        /\ critFault' = (critFault \/ (hc /\ Line.ok /\ Line.kind \in StatementKinds /\ lastSt \in Live))
  /\ UNCHANGED <<scn, case, phase, nviol, place, lastSt, expectSt, inflight, gates, started, ended, finalSt, openTx, unclosed, openRun>>
  /\ Keep

THook ==
  /\ Line.ev = "Hook"
  /\ HookS
  \* a transition that ends a run and completed (the lock is released in the destination state) has published the
  \* closing run event: its STARTED event is not left without a DONE_* one
  /\ unclosed' = IF phase = "run" /\ Line.point = "env.lock.release"
                     /\ ((Line.what = "GO_ERROR" /\ Line.st = "ERROR") \/ (Line.what = "STOP_ACTIVITY" /\ Line.st = "CONFIGURED"))
                  THEN unclosed \cup {x \in openTx : x[2] = Line.what}
                  ELSE unclosed
  /\ UNCHANGED <<scn, case, phase, nviol, place, dead, lastSt, expectSt, inflight, critFault, critSeen, gates, started, ended, finalSt, openTx, openRun>>

TObserve ==
  /\ Line.ev = "Observe"
  /\ ObserveM(Line.st)
  /\ ObserveS(Line.st)
  /\ UNCHANGED <<scn, case, phase, place, dead, expectSt, inflight, critFault, critSeen, gates, started, ended, finalSt, openTx, unclosed, openRun>>

TSnapshot ==
  /\ Line.ev = "Snapshot"
  /\ ObserveM(Line.st)
  /\ ObserveS(Line.st)
  /\ finalSt' = Line.st
  /\ UNCHANGED <<scn, case, phase, place, dead, expectSt, inflight, critFault, critSeen, gates, started, ended, openTx, unclosed, openRun>>

TRunEv ==
  /\ Line.ev = "RunEv"
  /\ started' = IF Line.tx = "START_ACTIVITY" /\ Line.status = "DONE_OK" THEN started \cup {Line.rn} ELSE started
  /\ ended' = IF Line.tx \in {"STOP_ACTIVITY", "GO_ERROR"} /\ phase = "run" THEN ended \cup {Line.rn} ELSE ended
  /\ RunEvS
  /\ openTx' = IF phase # "run" \/ Line.tx \notin {"STOP_ACTIVITY", "GO_ERROR"} THEN openTx
               ELSE IF Line.status = "STARTED" THEN openTx \cup {<<Line.rn, Line.tx>>}
               ELSE openTx \ {<<Line.rn, Line.tx>>}
  \* a run is open from the event that announces it (the number is drawn, the start time set) - also when START then fails;
  \* the end-of-run event may carry the number 0 (StartActivityTransition zeroes it on failure)
  /\ openRun' = IF phase # "run" THEN openRun
                ELSE IF Line.tx = "START_ACTIVITY" /\ Line.status = "STARTED" THEN TRUE
                ELSE IF Line.tx \in {"STOP_ACTIVITY", "GO_ERROR"} THEN FALSE
                ELSE openRun
  /\ UNCHANGED <<scn, case, phase, nviol, place, dead, lastSt, expectSt, inflight, critFault, critSeen, gates, finalSt, unclosed>>

TGate ==
  /\ Line.ev = "Gate"
  /\ gates' = IF Line.op = "armed" THEN gates \cup {Line.point} ELSE gates \ {Line.point}
  /\ UNCHANGED <<scn, case, phase, nviol, place, dead, lastSt, expectSt, inflight, critFault, critSeen, started, ended, finalSt, openTx, unclosed, openRun>>
  /\ Keep

\* end of the scenario's steps: the verdicts that need "nothing more will happen"
TEnd ==
  /\ Line.ev = "End"
  /\ phase' = "ended"
  /\ nviol' = nviol
       + (IF phase = "run" /\ gates = {} /\ finalSt # "?"
            THEN Soft("ErrorReached", critFault => finalSt = "ERROR", <<finalSt, lastSt>>)
               + Soft("RunEndRecorded", finalSt # "RUNNING" => (started \subseteq ended /\ ~openRun), <<finalSt, started, ended, openRun>>)
               + Soft("RunEndClosed", unclosed = {}, unclosed)
            ELSE 0)
  /\ (IF Sync /\ phase = "run" /\ nsent # nrecv THEN Drift(<<"sent/received", nsent, nrecv>>) ELSE TRUE)
  /\ UNCHANGED <<scn, case, place, dead, lastSt, expectSt, inflight, critFault, critSeen, gates, started, ended, finalSt, openTx, unclosed, openRun>>
  /\ Keep

TOther ==
  /\ Line.ev \notin {"Reset", "MAccept", "Api", "ApiReply", "Fault", "Hook", "Observe", "Snapshot", "RunEv", "Gate", "End"}
  /\ UNCHANGED <<scn, case, phase, nviol>> /\ UNCHANGED mvars /\ Keep

TraceInit ==
  \* the model's own variables are not used by the trace specification (only its operators): pin them
  /\ crit = [t \in Tasks |-> FALSE] /\ layout = "own" /\ hook = "none" /\ envSt = "CONFIGURED" /\ lock = "none" /\ tx = TxIdle
  /\ apiLeft = 0 /\ tstate = [t \in Tasks |-> "CONFIGURED"] /\ tstatus = [t \in Tasks |-> "ACTIVE"]
  /\ alive = [t \in Tasks |-> TRUE] /\ sick = {} /\ late = {} /\ inp = [stale |-> 0, mup |-> 0] /\ reach = [t \in Tasks |-> {}] /\ root = "CONFIGURED" /\ chains = {}
  /\ msgs = {} /\ stq = {} /\ wpc = "select" /\ wval = "CONFIGURED" /\ nbuf = "none" /\ ies = {} /\ runEnd = "norun"
  /\ budget = 0 /\ critHit = FALSE /\ critTouched = FALSE /\ excused = {}
  /\ l = 1 /\ scn = -1 /\ case = NoCase /\ phase = "ended" /\ nviol = 0
  /\ place = <<>> /\ dead = {} /\ lastSt = "?" /\ expectSt = "?" /\ inflight = "none" /\ critFault = FALSE /\ critSeen = FALSE
  /\ gates = {} /\ started = {} /\ ended = {} /\ finalSt = "?" /\ openTx = {} /\ unclosed = {} /\ openRun = FALSE
  /\ mode = "lost" /\ w = "none" /\ lk = "none" /\ envM = "?" /\ reM = "norun" /\ srvErr = FALSE /\ nsent = 0 /\ nrecv = 0

TraceNext ==
  /\ l <= Len(Trace)
  /\ (TReset \/ TAccept \/ TApi \/ TReply \/ TFault \/ THook \/ TObserve \/ TSnapshot \/ TRunEv \/ TGate \/ TEnd \/ TOther)
  /\ l' = l + 1
  /\ UNCHANGED vars

TraceSpec == TraceInit /\ [][TraceNext]_<<vars, tvars>>
PrintEnd == (l = Len(Trace) + 1) => PrintT(<<"END", Len(Trace), nviol>>)
=============================================================================
