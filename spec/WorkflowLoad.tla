----------------------------- MODULE WorkflowLoad -----------------------------
(***************************************************************************)
(* C15 - loading a workflow template (AliECS core/workflow).                *)
(*                                                                         *)
(* A FUNCTIONAL specification: Load(T, uv, dev) maps an abstract workflow  *)
(* template T (and user variables uv) to either an error or the role tree   *)
(* that template processing must produce:                                  *)
(*   - roles whose `enabled` evaluates to false are absent with their whole *)
(*     subtree (aggregatorrole.go ProcessTemplates: "TREE PRUNING" and the  *)
(*     enabledRoles filter; roleutils.go MakeDisabledRoleCallback),         *)
(*   - aggregators (and includes) left without children disappear           *)
(*     (aggregatorrole.go tail: len(r.Roles) == 0 => Enabled = "false"),    *)
(*   - an iterator yields one child per element of its range, in order,     *)
(*     with the iteration variable bound (iteratorrole.go expandTemplate,   *)
(*     iteratorrange.go GetRange, *template.go generateRole),               *)
(*   - a template error in any role that is reached makes the whole load    *)
(*     fail (error return of every ProcessTemplates).                      *)
(*                                                                         *)
(* An abstract template is a FLAT sequence of nodes in preorder, node 1 is  *)
(* the root; T[i].par is the index of the parent.  Node fields:             *)
(*   k   "agg" | "task" | "call" | "inc"                                    *)
(*   nm, np  name = nm followed by "-{{ v }}" for every v in np            *)
(*   en  <<"T"|"F"|"eq"|"ne", variable, constant>>   the enabled field      *)
(*   ds, vs  defaults / vars of the role: <<name, "lit"|"ref", value>>      *)
(*   ps  poison: the name also contains "{{ nosuch }}" (fails at stage 4)   *)
(*   pu  "" | "name"|"var"|"cons"|"bind"|"conn"|"load": that field has an    *)
(*       unterminated "{{" (the template cannot even be parsed)             *)
(*   x   "none" | "hook" | "cons" | "chan"  traits/constraint/channel extra  *)
(*   sub sub-workflow id of an include                                     *)
(*   for <<>> or <<[t |-> "list"|"var"|"dep"|"be", s, b, e, bv, ev, x, var]>>:*)
(*       (bv / ev: variables giving begin / end; dep: see CardsVar) the node *)
(*       is the template role of an iterator                               *)
(*                                                                         *)
(* The variable environment follows configuration/template/fields.go       *)
(* (Sequence.Execute, VarStack.consolidated): stage 0 (enabled) and stage 1 *)
(* (defaults) see the parent stack + locals, stage 2 (vars) also the role's *)
(* defaults, stage 4/5 (name, constraints, channels) also the role's vars;  *)
(* precedence locals > user vars > vars > defaults, nearer level first.     *)
(* After processing, the locals (iteration variable) are written to the    *)
(* role's vars so that descendants see them.                               *)
(*                                                                         *)
(* dev = [iter |-> BOOLEAN, enerr |-> BOOLEAN] switches on deviations of    *)
(* the code as it is; NoDev is the statement.                              *)
(*   iter  : IterEnabledFromTemplate, see ProcKids.                         *)
(*   enerr : EnabledErrorMasked.  roleutils.go MakeDisabledRoleCallback is  *)
(*           called after stage 0 with the error of that stage and, when    *)
(*           the role "is not enabled", returns RoleDisabledError INSTEAD of *)
(*           the error.  When the enabled expression fails, the field keeps *)
(*           its raw text, IsEnabled() is false, and the template error is  *)
(*           replaced by "role disabled": the load succeeds without the role.*)
(***************************************************************************)
EXTENDS Integers, Sequences, FiniteSets, TLC

(* ------------------------------ vocabulary ------------------------------ *)
ProbeKeys == <<"flag", "it", "jt">>   \* variables reported in the `st` field of result nodes

LAB == "[\"a\",\"b\"]"
LABC == "[\"a\",\"b\",\"c\"]"
LB  == "[\"b\"]"
LE  == "[]"
LP  == "[\"p\"]"
LPQ == "[\"p\",\"q\"]"
ListTexts == {LAB, LABC, LB, LE, LP, LPQ}
ListOf(s) == CASE s = LAB -> <<"a", "b">>
               [] s = LABC -> <<"a", "b", "c">>
               [] s = LB -> <<"b">>
               [] s = LE -> <<>>
               [] s = LP -> <<"p">>
               [] s = LPQ -> <<"p", "q">>
               [] OTHER -> <<>>
\* numbers as the template system sees them (strings); anything else makes strconv.Atoi fail
NumTexts == {"-1", "0", "1", "2", "3"}
NumOf(s) == CASE s = "-1" -> -1 [] s = "0" -> 0 [] s = "1" -> 1 [] s = "2" -> 2 [] s = "3" -> 3 [] OTHER -> 0
\* a range that depends on a variable x (typically the iteration variable of an ENCLOSING iterator):
\* the list held by the variable named cards_<value of x>   (range: "{{ $env['cards_' + x] }}")
CardsVar(v) == "cards_" \o v

(* Sub-workflow catalogue (include targets); the driver renders the same.   *)
Nd(par, k, nm, np, en, vs, ds, ps, x, sub, for) ==
  [par |-> par, k |-> k, nm |-> nm, np |-> np, en |-> en, vs |-> vs, ds |-> ds,
   ps |-> ps, pu |-> "", x |-> x, sub |-> sub, for |-> for]
ENT == <<"T", "", "">>
ENF == <<"F", "", "">>
SubIds == {"s1", "s2", "s3", "s4", "s5", "s6", "s7", "s8"}
Subs ==
  [id \in SubIds |->
    CASE id = "s1" -> <<Nd(0, "agg", "s1", <<>>, ENT, <<>>, <<>>, FALSE, "none", "", <<>>),
                        Nd(1, "task", "st", <<>>, ENT, <<>>, <<>>, FALSE, "none", "", <<>>)>>
      \* own default overridden (or not) by the includer's vars; one conditional child
      [] id = "s2" -> <<Nd(0, "agg", "s2", <<>>, ENT, <<>>, <<<<"flag", "lit", "off">>>>, FALSE, "none", "", <<>>),
                        Nd(1, "task", "sa", <<>>, <<"eq", "flag", "on">>, <<>>, <<>>, FALSE, "hook", "", <<>>),
                        Nd(1, "call", "sb", <<>>, <<"ne", "flag", "on">>, <<>>, <<>>, FALSE, "none", "", <<>>)>>
      \* everything inside is disabled: the include must disappear
      [] id = "s3" -> <<Nd(0, "agg", "s3", <<>>, ENT, <<>>, <<>>, FALSE, "none", "", <<>>),
                        Nd(1, "task", "sx", <<>>, ENF, <<>>, <<>>, FALSE, "none", "", <<>>)>>
      \* a poisoned role inside
      [] id = "s4" -> <<Nd(0, "agg", "s4", <<>>, ENT, <<>>, <<>>, FALSE, "none", "", <<>>),
                        Nd(1, "task", "sp", <<>>, ENT, <<>>, <<>>, TRUE, "none", "", <<>>)>>
      \* names parametrised by the includer's iteration variable, nested iterator inside
      [] id = "s5" -> <<Nd(0, "agg", "s5", <<>>, ENT, <<<<"flag", "ref", "it">>>>, <<>>, FALSE, "none", "", <<>>),
                        Nd(1, "task", "sq", <<"it", "jt">>, ENT, <<>>, <<>>, FALSE, "cons", "",
                           <<[t |-> "be", s |-> "", b |-> 1, e |-> 2, bv |-> "", ev |-> "", x |-> "", var |-> "jt"]>>)>>
      \* the ROOT role of the sub-workflow carries `enabled` itself: includerole.go replaces the include role's composed
      \* aggregatorRole by the loaded root (r.aggregatorRole = *subWfRoot), whose enabled field is then evaluated at stage 0
      \* of aggregatorRole.ProcessTemplates against the include role's environment - a sub-workflow whose root is disabled
      \* disappears with everything in it.  literal false:
      [] id = "s6" -> <<Nd(0, "agg", "s6", <<>>, ENF, <<>>, <<>>, FALSE, "none", "", <<>>),
                        Nd(1, "task", "sf", <<>>, ENT, <<>>, <<>>, FALSE, "none", "", <<>>)>>
      \* an expression on a variable the includer (its vars, an ancestor, the user) controls; the root's own defaults
      \* are not visible to its own enabled field (stage 0)
      [] id = "s7" -> <<Nd(0, "agg", "s7", <<>>, <<"eq", "flag", "on">>, <<>>, <<<<"flag", "lit", "on">>>>, FALSE, "none", "", <<>>),
                        Nd(1, "task", "sg", <<>>, ENT, <<>>, <<>>, FALSE, "hook", "", <<>>),
                        Nd(1, "call", "sh", <<>>, ENT, <<>>, <<>>, FALSE, "none", "", <<>>)>>
      \* an expression on the iteration variable of the iterator that generates the include
      [] id = "s8" -> <<Nd(0, "agg", "s8", <<>>, <<"ne", "it", "a">>, <<>>, <<>>, FALSE, "none", "", <<>>),
                        Nd(1, "task", "si", <<"it">>, ENT, <<>>, <<>>, FALSE, "cons", "", <<>>)>>
      [] OTHER -> <<>>]

(* ------------------------------ environments ---------------------------- *)
EmptyMap == [z \in {} |-> ""]
Has(m, z) == z \in DOMAIN m
PairsMap(ps) == [z \in {ps[i][1] : i \in 1..Len(ps)} |->
                   ps[CHOOSE i \in 1..Len(ps) : ps[i][1] = z][2]]

\* values of a defaults/vars block, all evaluated against the same stack
ValsOk(vs, stack) == \A i \in 1..Len(vs) : vs[i][2] = "ref" => Has(stack, vs[i][3])
MapOf(vs, stack) ==
  [z \in {vs[i][1] : i \in 1..Len(vs)} |->
     LET i == CHOOSE i \in 1..Len(vs) : vs[i][1] = z
     IN IF vs[i][2] = "lit" THEN vs[i][3] ELSE stack[vs[i][3]]]

EnOk(en, stack) == en[1] \in {"T", "F"} \/ Has(stack, en[2])
EnVal(en, stack) == CASE en[1] = "T" -> TRUE
                      [] en[1] = "F" -> FALSE
                      [] en[1] = "eq" -> stack[en[2]] = en[3]
                      [] en[1] = "ne" -> stack[en[2]] # en[3]
                      [] OTHER -> FALSE

RECURSIVE Params(_, _)
Params(np, stack) == IF np = <<>> THEN "" ELSE "-" \o stack[Head(np)] \o Params(Tail(np), stack)
NameOk(n, stack) == ~n.ps /\ \A i \in 1..Len(n.np) : Has(stack, n.np[i])

StackPairs(stack) ==
  LET ks == SelectSeq(ProbeKeys, LAMBDA z : Has(stack, z))
  IN [i \in 1..Len(ks) |-> <<ks[i], stack[ks[i]]>>]

\* taskrole.go / callrole.go UnmarshalYAML: defaults of the traits
Traits(n) == IF n.k \in {"task", "call"}
               THEN IF n.x = "hook" THEN <<"before_START", "before_START", "30s", FALSE>>
                                    ELSE <<"", "", "0s", TRUE>>
               ELSE <<>>
ConsVals(n, stack) == IF n.x = "cons" THEN <<"c" \o Params(n.np, stack)>> ELSE <<>>
\* channel declarations (stage 5, rolebase.go wrapBindAndConnectFields): connect targets and the `global` aliases of
\* bind declarations are templates; in (a role nested in) an iterator's template role they depend on the iteration
\* variable - every generated role has its own.  pp = <<path, name>> of the parent role.
ConnTargets(n, stack, pp) == CASE n.x = "chan" -> <<pp[1] \o ".peer:in">>                  \* {{ Parent().Path }}.peer:in
                               [] n.x = "conn" -> <<"peer" \o Params(n.np, stack) \o ":in">>  \* peer-{{ it }}:in
                               [] OTHER -> <<>>
BindGlobals(n, stack, pp) == CASE n.x = "bind" -> <<"g" \o Params(n.np, stack)>>          \* g-{{ it }}
                               [] n.x = "bindp" -> <<"data-" \o pp[2]>>                      \* data-{{ Parent().Name }}
                               [] OTHER -> <<>>

Kids(T, i) == SelectSeq([j \in 1..Len(T) |-> j], LAMBDA j : T[j].par = i)

(* ------------------------------ the function ---------------------------- *)
NoDev == [iter |-> FALSE, enerr |-> FALSE]
AllDev == [iter |-> TRUE, enerr |-> TRUE]
ErrR == [err |-> TRUE, out |-> <<>>, cnt |-> 0]
OkR(s) == [err |-> FALSE, out |-> s, cnt |-> Len(s)]

(* iteratorrange.go GetRange: the range / begin / end strings are template-processed against the    *)
(* stack of the iterator's parent, i.e. per instance of an enclosing iterator's template role: a  *)
(* nested iterator whose range depends on the outer iteration variable has a different range in   *)
(* every outer child.                                                                            *)
BoundOk(v, vstack) == v = "" \/ (Has(vstack, v) /\ vstack[v] \in NumTexts)
BeginOf(f, vstack) == IF f.bv = "" THEN f.b ELSE NumOf(vstack[f.bv])
EndOf(f, vstack) == IF f.ev = "" THEN f.e ELSE NumOf(vstack[f.ev])
RangeOk(f, vstack) ==
  CASE f.t = "list" -> f.s \in ListTexts
    [] f.t = "var" -> Has(vstack, f.x) /\ vstack[f.x] \in ListTexts
    [] f.t = "dep" -> /\ Has(vstack, f.x) /\ Has(vstack, CardsVar(vstack[f.x]))
                      /\ vstack[CardsVar(vstack[f.x])] \in ListTexts
    [] f.t = "be" -> BoundOk(f.bv, vstack) /\ BoundOk(f.ev, vstack)
    [] OTHER -> FALSE
RangeOf(f, vstack) ==
  CASE f.t = "list" -> ListOf(f.s)
    [] f.t = "var" -> ListOf(vstack[f.x])
    [] f.t = "dep" -> ListOf(vstack[CardsVar(vstack[f.x])])
    \* begin..end with end < begin - by one or by more, with negative bounds - is the EMPTY range (the loop
    \* `for j := begin; j <= end; j++` of iteratorRangeFor.GetRange does not run): no child, no error
    [] f.t = "be" -> LET b == BeginOf(f, vstack) e == EndOf(f, vstack)
                     IN [j \in 1..(e - b + 1) |-> ToString(b + j - 1)]
    [] OTHER -> <<>>

RECURSIVE ProcOne(_, _, _, _, _, _, _, _), ProcVals(_, _, _, _, _, _, _), ProcKids(_, _, _, _, _, _)

(* One role instance: node i of template T (tid names T: "" = the root     *)
(* template), parent environment env = [d, v, u], locals L, pp = <<path,   *)
(* name>> of the parent role;                                              *)
(* inc = <<name>> when T[i] is the root of a sub-workflow processed on      *)
(* behalf of an include role of that (already resolved) name                *)
(* (includerole.go: r.aggregatorRole = *subWfRoot; r.Name = name).          *)
ProcOne(tid, T, i, env, L, pp, inc, dev) ==
  LET n  == T[i]
      ppath == pp[1]
      s0 == L @@ env.u @@ env.v @@ env.d
  IN
  IF ~EnOk(n.en, s0) THEN (IF dev.enerr THEN OkR(<<>>) ELSE ErrR)   \* see EnabledErrorMasked
  ELSE IF ~EnVal(n.en, s0) THEN OkR(<<>>)           \* disabled: stages 1..5 are skipped
  \* pu: some templated field of the role that is processed after stage 0 (name, a var, a constraint value, a bind
  \* alias, a connect target, the task class) has an UNTERMINATED "{{": fasttemplate.NewTemplate fails, the load fails
  ELSE IF n.pu # "" THEN ErrR
  ELSE IF ~ValsOk(n.ds, s0) THEN ErrR
  ELSE
  LET D  == MapOf(n.ds, s0)
      d2 == D @@ env.d
      s2 == L @@ env.u @@ env.v @@ d2
  IN
  IF ~ValsOk(n.vs, s2) THEN ErrR
  ELSE
  LET V  == MapOf(n.vs, s2)
      s4 == L @@ env.u @@ (V @@ env.v) @@ d2
  IN
  IF inc = <<>> /\ ~NameOk(n, s4) THEN ErrR
  ELSE
  LET nm   == IF inc = <<>> THEN n.nm \o Params(n.np, s4) ELSE inc[1]
      path == IF ppath = "" THEN nm ELSE ppath \o "." \o nm
      cenv == [d |-> d2, v |-> L @@ V @@ env.v, u |-> env.u]
      fin  == cenv.u @@ cenv.v @@ cenv.d
      base == [src |-> <<tid, i>>, k |-> IF inc = <<>> THEN n.k ELSE "inc", n |-> nm, p |-> path,
               st |-> StackPairs(fin), tr |-> Traits(n),
               cv |-> ConsVals(n, s4), cn |-> ConnTargets(n, s4, pp), bd |-> BindGlobals(n, s4, pp), ch |-> <<>>]
  IN
  CASE n.k \in {"task", "call"} -> OkR(<<base>>)
    [] n.k = "agg" ->
         LET r == ProcKids(tid, T, Kids(T, i), cenv, <<path, nm>>, dev)
         IN IF r.err THEN ErrR
            ELSE IF r.cnt = 0 THEN OkR(<<>>)          \* left empty: disappears
            ELSE OkR(<<[base EXCEPT !.ch = r.out]>>)
    [] n.k = "inc" ->
         IF n.sub \notin SubIds THEN ErrR               \* the sub-workflow cannot be loaded
         ELSE ProcOne(n.sub, Subs[n.sub], 1, cenv, EmptyMap, pp, <<nm>>, dev)
    [] OTHER -> ErrR

\* iterator: one instance of the template role per element of the range, in order
ProcVals(tid, T, i, env, pp, vals, dev) ==
  IF vals = <<>> THEN OkR(<<>>)
  ELSE LET r    == ProcOne(tid, T, i, env, (T[i].for[1].var :> Head(vals)), pp, <<>>, dev)
           rest == ProcVals(tid, T, i, env, pp, Tail(vals), dev)
       IN IF r.err \/ rest.err THEN ErrR ELSE OkR(r.out \o rest.out)

(* children of an aggregator, in order; cnt = what the aggregator counts    *)
(* when it decides whether it is left empty.                                *)
(*                                                                         *)
(* IterEnabledFromTemplate (dev.iter = TRUE, the code as it is):            *)
(* aggregatorrole.go filters its children with role.IsEnabled(); for an     *)
(* iterator that is iteratorRole.IsEnabled() == template.IsEnabled(), i.e.  *)
(* the UNPROCESSED enabled string of the template role.  So an iterator     *)
(* whose enabled field is an expression is dropped with everything it       *)
(* yielded even when the expression is true, and an iterator with a literal *)
(* (or default) true counts as a child of its parent even when it yielded   *)
(* nothing, so the parent is not recognised as empty.                       *)
ProcKids(tid, T, ks, env, pp, dev) ==
  IF ks = <<>> THEN [err |-> FALSE, out |-> <<>>, cnt |-> 0]
  ELSE
  LET j     == Head(ks)
      isFor == T[j].for # <<>>
      vst   == env.u @@ env.v @@ env.d
      r     == IF ~isFor THEN ProcOne(tid, T, j, env, EmptyMap, pp, <<>>, dev)
               ELSE IF ~RangeOk(T[j].for[1], vst) THEN ErrR
               ELSE ProcVals(tid, T, j, env, pp, RangeOf(T[j].for[1], vst), dev)
      rest  == ProcKids(tid, T, Tail(ks), env, pp, dev)
  IN
  IF r.err \/ rest.err THEN ErrR
  ELSE
  LET asIs == isFor /\ dev.iter
      kept == IF asIs THEN T[j].en[1] = "T" ELSE TRUE
      outj == IF kept THEN r.out ELSE <<>>
      cntj == IF asIs THEN (IF kept THEN 1 ELSE 0) ELSE Len(r.out)
  IN [err |-> FALSE, out |-> outj \o rest.out, cnt |-> cntj + rest.cnt]

\* out = <<>> and ~err: the root itself ended up disabled (empty)
Load(T, uv, dev) ==
  LET r == ProcOne("", T, 1, [d |-> EmptyMap, v |-> EmptyMap, u |-> PairsMap(uv)], EmptyMap, <<"", "">>, <<>>, dev)
  IN [err |-> r.err, out |-> r.out]

(* result trees without the `src` bookkeeping: what the real dump is compared with *)
RECURSIVE Strip(_)
Strip(s) == [i \in 1..Len(s) |->
              [k |-> s[i].k, n |-> s[i].n, p |-> s[i].p, st |-> s[i].st, tr |-> s[i].tr,
               cv |-> s[i].cv, cn |-> s[i].cn, bd |-> s[i].bd, ch |-> Strip(s[i].ch)]]

(* all nodes of a result forest, preorder *)
RECURSIVE Flat(_)
Flat(s) == IF s = <<>> THEN <<>> ELSE <<Head(s)>> \o Flat(Head(s).ch) \o Flat(Tail(s))
=============================================================================
