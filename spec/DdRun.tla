------------------------------- MODULE DdRun --------------------------------
(***************************************************************************)
(* Beyond the listed properties (DESIGN.md section 5), X06: the data        *)
(* distribution partition lifecycle the DD scheduler plugin drives.         *)
(*   core/integration/ddsched/plugin.go                                     *)
(*     CallStack: PartitionInitialize (PartitionInitialize, then            *)
(*       PartitionStatus polled every 100 ms until CONFIGURED),             *)
(*       PartitionTerminate (PartitionTerminate, then polled until          *)
(*       TERMINATED), EnsureTermination (PartitionStatus; unless UNKNOWN /  *)
(*       TERMINATING / TERMINATED: PartitionTerminate and the same poll)    *)
(*     GetData / GetEnvironmentsData: one PartitionStatus per environment,   *)
(*       asked when the GUI asks (there is no cache and no query loop)       *)
(* The plugin keeps NO bookkeeping: the partition id is the environment id,  *)
(* what exists is known to the service alone.  The service's table:          *)
(* UNKNOWN -Initialize-> CONFIGURING -> CONFIGURED -Terminate-> TERMINATING  *)
(* -> TERMINATED, ERROR from CONFIGURING / CONFIGURED; Initialize of an       *)
(* existing partition is answered REQUEST_INVALID, Terminate of a partition   *)
(* that is not CONFIGURING / CONFIGURED / ERROR with its state, unchanged.    *)
(*                                                                           *)
(* One action per gRPC call (the request takes effect, the reply is taken by *)
(* the hook, which returns or sends its next request); outcome f: none | err *)
(* (gRPC error, no effect) | lost (executed, the reply is an error: lost or  *)
(* too late).  The hook's deadline (__call_timeout) is an action of its own: *)
(* it expires while a status call is under way (PollTimeout) or during the   *)
(* 100 ms sleep after an "in progress" answer (Poll with t = "sleep").  The   *)
(* service moves on its own (Progress, Fail).                                *)
(* Deviations of the code from the ideal are behind Code_* constants.        *)
(***************************************************************************)
EXTENDS Naturals, FiniteSets, Sequences, TLC

CONSTANTS Envs,
          MaxInit,     \* PartitionInitialize hooks per environment (model finiteness)
          MaxPolls,    \* status polls per hook invocation
          MaxFaults,   \* err / lost outcomes per behaviour
          MaxOwn,      \* Fail steps of the service per behaviour
          MaxGd,       \* GetData calls per behaviour
          Code_PollTimeoutSilent,
              \* `for ctx.Err() == nil { status, err := PartitionStatus(ctx...); if err != nil { sleep; continue } ...`: when the
              \* deadline expires while a status call is under way (or status calls keep failing) the loop just ends: no
              \* __call_error is set and the hook SUCCEEDS although the partition never reached the wanted state
          Code_TerminateHookUnconditional
              \* the PartitionTerminate hook asks nobody: it sends PartitionTerminate also for a partition that was never
              \* initialised (UNKNOWN) or is already TERMINATED

States == {"UNKNOWN", "CONFIGURING", "CONFIGURED", "TERMINATING", "TERMINATED", "ERROR"}
Alive == {"CONFIGURING", "CONFIGURED", "ERROR"}          \* what a PartitionTerminate acts on
NoEnv == "-"

VARIABLES
  part,    \* the service: part[e] = state of the partition of environment e
  ph,      \* the environment: new | up | down | err | gone
  ninit,   \* PartitionInitialize hooks of e so far
  hook,    \* hook[e]: the hook invocation in progress, or NoHook
  nf, nown, ngd,
  last     \* (history) the step just taken

vars == <<part, ph, ninit, hook, nf, nown, ngd, last>>

NoHook == [fn |-> "none"]
NoStep == [kind |-> "none", e |-> NoEnv, fn |-> "none", m |-> "none", f |-> "none", reply |-> "none", before |-> "none", envid |-> NoEnv,
           ok |-> TRUE, saw |-> FALSE, want |-> "none", named |-> "none", sent |-> FALSE, out |-> <<>>]

Init ==
  /\ part = [e \in Envs |-> "UNKNOWN"] /\ ph = [e \in Envs |-> "new"] /\ ninit = [e \in Envs |-> 0]
  /\ hook = [e \in Envs |-> NoHook] /\ nf = 0 /\ nown = 0 /\ ngd = 0 /\ last = NoStep

Idle(e) == hook[e].fn = "none"
FaultOk(f, fs) == f \in fs /\ (f # "none" => nf < MaxFaults)
Cnt(f) == IF f = "none" THEN nf ELSE nf + 1

(* ------------------------------ the service ------------------------------ *)
InitLegal(e) == part[e] \in {"UNKNOWN", "TERMINATED"}
TermLegal(e) == part[e] \in Alive
\* reply the caller sees: "err" for f in {err, lost}
ReplyOf(m, e, f) ==
  IF m = "none" THEN "none"
  ELSE IF f # "none" THEN "err"
  ELSE CASE m = "Initialize" -> IF InitLegal(e) THEN "CONFIGURING" ELSE "REQUEST_INVALID"
         [] m = "Terminate" -> IF TermLegal(e) THEN "TERMINATING" ELSE part[e]
         [] OTHER -> part[e]
PartAfter(m, e, f) ==
  IF f = "err" THEN part
  ELSE CASE m = "Initialize" /\ InitLegal(e) -> [part EXCEPT ![e] = "CONFIGURING"]
         [] m = "Terminate" /\ TermLegal(e) -> [part EXCEPT ![e] = "TERMINATING"]
         [] OTHER -> part

\* the service's own steps
Progress(e) ==
  /\ part[e] \in {"CONFIGURING", "TERMINATING"}
  /\ part' = [part EXCEPT ![e] = IF @ = "CONFIGURING" THEN "CONFIGURED" ELSE "TERMINATED"]
  /\ last' = [NoStep EXCEPT !.kind = "own", !.e = e]
  /\ UNCHANGED <<ph, ninit, hook, nf, nown, ngd>>
Fail(e) ==
  /\ part[e] \in {"CONFIGURING", "CONFIGURED"} /\ nown < MaxOwn
  /\ part' = [part EXCEPT ![e] = "ERROR"] /\ nown' = nown + 1
  /\ last' = [NoStep EXCEPT !.kind = "own", !.e = e]
  /\ UNCHANGED <<ph, ninit, hook, nf, ngd>>

(* ------------------------------ the environment ------------------------------ *)
After(e, fn, ok, c) ==
  IF ~ok /\ c = "err" /\ fn # "EnsureTermination" THEN "err"
  ELSE CASE fn = "PartitionInitialize" -> "up" [] fn = "PartitionTerminate" -> "down" [] OTHER -> ph[e]
GoError(e) ==
  /\ ph[e] \in {"new", "up", "down"} /\ Idle(e)
  /\ ph' = [ph EXCEPT ![e] = "err"] /\ last' = [NoStep EXCEPT !.kind = "ecs", !.e = e, !.fn = "GoError"]
  /\ UNCHANGED <<part, ninit, hook, nf, nown, ngd>>
Destroy(e) ==
  /\ ph[e] \in {"new", "down", "err"} /\ Idle(e)
  /\ ph' = [ph EXCEPT ![e] = "gone"] /\ last' = [NoStep EXCEPT !.kind = "ecs", !.e = e, !.fn = "Destroy"]
  /\ UNCHANGED <<part, ninit, hook, nf, nown, ngd>>

(* ------------------------------ the hooks ------------------------------ *)
EnvId(e) == e     \* partition_id = environment_id = the environment's id
\* a request of hook fn (method m) with outcome f: the step record
Req(e, fn, m, f) == [NoStep EXCEPT !.kind = "req", !.e = e, !.fn = fn, !.m = m, !.f = f, !.reply = ReplyOf(m, e, f), !.before = part[e],
                                   !.envid = EnvId(e)]
\* the hook returns within this step
Ret(e, fn, m, f, ok, saw, want, named, c) ==
  /\ last' = [Req(e, fn, m, f) EXCEPT !.kind = "ret", !.ok = ok, !.saw = saw, !.want = want, !.named = named, !.sent = (named # "skip")]
  /\ ph' = [ph EXCEPT ![e] = After(e, fn, ok, c)]
  /\ hook' = [hook EXCEPT ![e] = NoHook]
\* ... or goes on polling for `want`
Polling(e, fn, m, f, want, npolls) ==
  /\ last' = Req(e, fn, m, f)
  /\ hook' = [hook EXCEPT ![e] = [fn |-> fn, pc |-> "poll", want |-> want, npolls |-> npolls]]
  /\ UNCHANGED ph

\* PartitionInitialize hook: the PartitionInitialize call
InitCall(e, f, c) ==
  /\ ph[e] \in {"new", "down"} /\ Idle(e) /\ ninit[e] < MaxInit /\ FaultOk(f, {"none", "err", "lost"}) /\ c \in {"go", "err"}
  /\ part' = PartAfter("Initialize", e, f) /\ nf' = Cnt(f) /\ ninit' = [ninit EXCEPT ![e] = @ + 1]
  /\ LET r == ReplyOf("Initialize", e, f) IN
     IF r \in {"CONFIGURING", "CONFIGURED"} THEN Polling(e, "PartitionInitialize", "Initialize", f, "CONFIGURED", 0)
     ELSE Ret(e, "PartitionInitialize", "Initialize", f, FALSE, FALSE, "CONFIGURED", r, c)
  /\ UNCHANGED <<nown, ngd>>

\* PartitionTerminate hook: the PartitionTerminate call
TermCall(e, f, c) ==
  /\ ph[e] = "up" /\ Idle(e) /\ c \in {"go", "err"}
  /\ IF ~Code_TerminateHookUnconditional /\ part[e] \notin Alive
       THEN \* repaired design: nothing to terminate, nothing sent
            /\ f = "none" /\ Ret(e, "PartitionTerminate", "none", "none", TRUE, FALSE, "TERMINATED", "skip", c) /\ UNCHANGED <<part, nf>>
       ELSE /\ FaultOk(f, {"none", "err", "lost"})
            /\ part' = PartAfter("Terminate", e, f) /\ nf' = Cnt(f)
            /\ LET r == ReplyOf("Terminate", e, f) IN
               IF r \in {"TERMINATING", "TERMINATED"} THEN Polling(e, "PartitionTerminate", "Terminate", f, "TERMINATED", 0)
               ELSE Ret(e, "PartitionTerminate", "Terminate", f, FALSE, FALSE, "TERMINATED", r, c)
  /\ UNCHANGED <<ninit, nown, ngd>>

\* EnsureTermination hook: the PartitionStatus call ...
EnsureStatus(e, f, c) ==
  /\ ph[e] \in {"new", "up", "down", "err"} /\ Idle(e) /\ FaultOk(f, {"none", "err"}) /\ c \in {"go", "err"}
  /\ nf' = Cnt(f)
  /\ LET r == ReplyOf("Status", e, f) IN
     IF r = "err" THEN Ret(e, "EnsureTermination", "Status", f, FALSE, FALSE, "TERMINATED", "err", c)
     ELSE IF r \in {"UNKNOWN", "TERMINATING", "TERMINATED"} THEN Ret(e, "EnsureTermination", "Status", f, TRUE, FALSE, "TERMINATED", "none", c)
     ELSE /\ last' = Req(e, "EnsureTermination", "Status", f)
          /\ hook' = [hook EXCEPT ![e] = [fn |-> "EnsureTermination", pc |-> "term", want |-> "TERMINATED", npolls |-> 0]]
          /\ UNCHANGED ph
  /\ UNCHANGED <<part, ninit, nown, ngd>>
\* ... and, the partition being there, the PartitionTerminate call
EnsureTerm(e, f, c) ==
  /\ ~Idle(e) /\ hook[e].pc = "term" /\ FaultOk(f, {"none", "err", "lost"}) /\ c \in {"go", "err"}
  /\ part' = PartAfter("Terminate", e, f) /\ nf' = Cnt(f)
  /\ LET r == ReplyOf("Terminate", e, f) IN
     IF r \in {"TERMINATING", "TERMINATED"} THEN Polling(e, "EnsureTermination", "Terminate", f, "TERMINATED", 0)
     ELSE Ret(e, "EnsureTermination", "Terminate", f, FALSE, FALSE, "TERMINATED", r, c)
  /\ UNCHANGED <<ninit, nown, ngd>>

\* one PartitionStatus of the polling loop; t = "sleep": the deadline expires during the 100 ms sleep that follows an
\* "in progress" answer
InProgress(want) == IF want = "CONFIGURED" THEN "CONFIGURING" ELSE "TERMINATING"
Poll(e, f, t, c) ==
  /\ ~Idle(e) /\ hook[e].pc = "poll" /\ hook[e].npolls < MaxPolls /\ FaultOk(f, {"none", "err"}) /\ t \in {"no", "sleep"} /\ c \in {"go", "err"}
  /\ nf' = Cnt(f)
  /\ LET h == hook[e]
         r == ReplyOf("Status", e, f)
     IN CASE r = "err" -> t = "no" /\ Polling(e, h.fn, "Status", f, h.want, h.npolls + 1)            \* "we'll keep retrying until timeout"
          [] r = h.want -> t = "no" /\ Ret(e, h.fn, "Status", f, TRUE, TRUE, h.want, "none", c)
          [] r = InProgress(h.want) ->
               IF t = "sleep" THEN Ret(e, h.fn, "Status", f, FALSE, FALSE, h.want, "timeout", c)      \* "timeout exceeded. Latest state ..."
               ELSE Polling(e, h.fn, "Status", f, h.want, h.npolls + 1)
          [] OTHER -> t = "no" /\ Ret(e, h.fn, "Status", f, FALSE, FALSE, h.want, r, c)               \* "landed on unexpected state ..."
  /\ UNCHANGED <<part, ninit, nown, ngd>>

\* the deadline expires while a status call is under way (never answered in time), or between two attempts
PollTimeout(e, c) ==
  /\ ~Idle(e) /\ hook[e].pc = "poll" /\ c \in {"go", "err"}
  /\ LET h == hook[e] IN
     IF Code_PollTimeoutSilent THEN Ret(e, h.fn, "none", "none", TRUE, FALSE, h.want, "none", c)
     ELSE Ret(e, h.fn, "none", "none", FALSE, FALSE, h.want, "timeout", c)
  /\ UNCHANGED <<part, ninit, nf, nown, ngd>>

\* GetData: one PartitionStatus per living environment; fs[e] = outcome of that call; an environment whose call failed is left out
GetData(fs) ==
  /\ ngd < MaxGd /\ fs \in [Envs -> {"none", "err"}] /\ nf + Cardinality({e \in Envs : ph[e] # "gone" /\ fs[e] = "err"}) <= MaxFaults
  /\ \A e \in Envs : ph[e] = "gone" => fs[e] = "none"
  /\ ngd' = ngd + 1 /\ nf' = nf + Cardinality({e \in Envs : ph[e] # "gone" /\ fs[e] = "err"})
  /\ last' = [NoStep EXCEPT !.kind = "gd", !.out = [e \in Envs |-> IF ph[e] # "gone" /\ fs[e] = "none" THEN part[e] ELSE "-"]]
  /\ UNCHANGED <<part, ph, ninit, hook, nown>>

Fs == {"none", "err", "lost"}
EnvNext(e) == \/ \E f \in Fs, c \in {"go", "err"} : InitCall(e, f, c) \/ TermCall(e, f, c) \/ EnsureStatus(e, f, c) \/ EnsureTerm(e, f, c)
              \/ \E f \in Fs, t \in {"no", "sleep"}, c \in {"go", "err"} : Poll(e, f, t, c)
              \/ \E c \in {"go", "err"} : PollTimeout(e, c)
              \/ Progress(e) \/ Fail(e) \/ GoError(e) \/ Destroy(e)
Next == (\E e \in Envs : EnvNext(e)) \/ (\E fs \in [Envs -> {"none", "err"}] : GetData(fs))
Spec == Init /\ [][Next]_vars

(* ------------------------------ properties ------------------------------ *)
TypeOK == /\ \A e \in Envs : part[e] \in States /\ ph[e] \in {"new", "up", "down", "err", "gone"} /\ ninit[e] <= MaxInit
          /\ nf <= MaxFaults /\ nown <= MaxOwn /\ ngd <= MaxGd
Returned == last.kind = "ret"
Waits == {"PartitionInitialize", "PartitionTerminate"}
\* a hook that waits for a state succeeds only if the service reported that state before the deadline ...
OkImpliesReached == (Returned /\ last.fn \in Waits /\ last.sent /\ last.ok) => last.saw
\* ... and does succeed then
ReachedImpliesOk == (Returned /\ last.saw) => last.ok
\* a hook that fails on a state of the partition (ERROR, REQUEST_INVALID, UNKNOWN, ...) names that state
BadStateNamed == (Returned /\ last.kind = "ret" /\ last.reply \in States \cup {"REQUEST_INVALID"} /\ last.reply # last.want
                    /\ last.reply # InProgress(last.want) /\ last.fn \in Waits) => (~last.ok /\ last.named = last.reply)
\* in particular a partition in ERROR makes the waiting hook fail
ErrorFailsHook == (Returned /\ last.m = "Status" /\ last.reply = "ERROR" /\ last.fn \in Waits) => ~last.ok
\* PartitionTerminate is sent only for a partition the service has alive
TerminateOnlyAlive == (last.kind \in {"req", "ret"} /\ last.m = "Terminate") => last.before \in Alive
\* after an EnsureTermination that succeeded nothing of the environment is CONFIGURING / CONFIGURED / ERROR in the service
EnsureLeavesNothing == (Returned /\ last.fn = "EnsureTermination" /\ last.ok) => part[last.e] \notin Alive
\* every request names the environment (and nobody else's partition)
RequestNamesEnvironment == (last.kind \in {"req", "ret"} /\ last.m # "none") => last.envid = last.e

(* ------------------------------ witnesses ------------------------------ *)
ASSUME \A k \in 1..4 : TLCSet(k, 0)
Once(k, P) == P \/ TLCGet(k) = 1 \/ (TLCSet(k, 1) /\ FALSE)
W_OkImpliesReached == Once(1, OkImpliesReached)
W_TerminateOnlyAlive == Once(2, TerminateOnlyAlive)
=============================================================================
