---------------------------- MODULE WorkflowLoadGen ----------------------------
(***************************************************************************)
(* The template family of C15 as a state space: a state IS an abstract      *)
(* workflow template (T, uv); the only action appends one node in preorder  *)
(* (the parent is an aggregator on the rightmost path), choosing its kind,  *)
(* iterator range, enabled field, vars, extra and poison from the option    *)
(* sets given as constants.  Exhaustive TLC = every template of the family  *)
(* up to MaxNodes nodes, each checked against the sanity invariants of Load *)
(* below (for the statement, NoDev, and for the models of the code as it   *)
(* is); `-dump` gives the cases; `-simulate` gives seeded random larger     *)
(* templates.                                                              *)
(***************************************************************************)
EXTENDS WorkflowLoad

CONSTANTS MaxNodes, MaxDepth,
          Kinds,       \* subset of {"agg","task","call","inc"}
          ForKinds,    \* subset of {"none","lab","lb","le","be12","be21","var"}
          EnKinds,     \* subset of {"T","F","flagon","flagoff","iteq","itne"}
          VarKinds,    \* subset of {"none","flagoff","flagit"}
          XKinds,      \* subset of {"none","hook","cons","chan"}
          SubChoices,  \* include targets, e.g. {"s1","smissing"}
          AllowPoison, \* BOOLEAN
          PuKinds,     \* subset of {"name","var","cons","bind","conn","load"}: positions of an unterminated "{{"
          RootKinds,   \* subset of {"plain","flag","lst","both","cards","cardsab","itvar","itdef","itcards"}: defaults / vars of the root
          ShadowKinds, \* subset of {"fresh","same"}: variable of a NESTED iterator: a new name (jt) / the enclosing iterator's name
          UvKinds,     \* subset of {"none","flagoff","lstb","lstbad"}: user variables
          SpellKinds   \* spellings of the boolean-ish fields (`enabled`, `critical`) used when the template is rendered:
                       \* "canon","lead","trail","both","block","upper","cap","one","onesp" - see harness/cmd/wfload

(* sp is a METAMORPHIC dimension: it only selects how `enabled` (literal or expression) is spelled in the  *)
(* rendered YAML - surrounding whitespace, block scalar with trailing newline, upper / mixed case, "1".   *)
(* Load(T, uv) does not take it: every spelling of a template must load to the tree of the canonical one. *)
VARIABLES T, uv, sp
gvars == <<T, uv, sp>>

ASSUME PrintT(<<"SUBS", Subs>>)

RootDs(rk) == CASE rk = "plain" -> <<>>
                [] rk = "flag" -> <<<<"flag", "lit", "on">>>>
                [] rk = "lst" -> <<<<"lst", "lit", LAB>>>>
                [] rk = "both" -> <<<<"flag", "lit", "on">>, <<"lst", "lit", LAB>>>>
                \* per-element lists of different lengths, one of them empty (cards_<outer element>)
                [] rk = "cards" -> <<<<"flag", "lit", "on">>, <<"cards_a", "lit", LP>>, <<"cards_b", "lit", LPQ>>,
                                     <<"cards_c", "lit", LE>>>>
                [] rk = "itvar" -> <<<<"flag", "lit", "on">>>>
                [] rk = "itcards" -> <<<<"flag", "lit", "on">>, <<"cards_a", "lit", LP>>, <<"cards_b", "lit", LPQ>>,
                                       <<"cards_c", "lit", LE>>>>
                [] rk = "itdef" -> <<<<"flag", "lit", "on">>, <<"it", "lit", "x">>>>
                [] rk = "cardsab" -> <<<<"cards_a", "lit", LPQ>>, <<"cards_b", "lit", LB>>>>   \* none for "c"
                [] OTHER -> <<>>
\* the root (or, with VarKinds "itx", any role) defines a variable that has the NAME of an iteration variable used below:
\* inside the iterator the iteration variable must shadow it (the innermost binding wins)
RootVs(rk) == IF rk \in {"itvar", "itcards"} THEN <<<<"it", "lit", "x">>>> ELSE <<>>
UvOf(uk) == CASE uk = "none" -> <<>>
              [] uk = "flagoff" -> <<<<"flag", "off">>>>
              [] uk = "lstb" -> <<<<"lst", LB>>>>
              [] uk = "lstbad" -> <<<<"lst", "on">>>>   \* not a list: the range cannot be evaluated
              [] OTHER -> <<>>

FS(t, ls, b, e, bv, ev, x, var) == [t |-> t, s |-> ls, b |-> b, e |-> e, bv |-> bv, ev |-> ev, x |-> x, var |-> var]
\* ov = the innermost iteration variable already in scope ("" if none): the kinds "dep", "beE", "bBe" make
\* the range of a NESTED iterator depend on it, so that every outer child has its own inner range
ForSpec(fk, var, ov) ==
  CASE fk = "lab" -> FS("list", LAB, 0, 0, "", "", "", var)
    [] fk = "labc" -> FS("list", LABC, 0, 0, "", "", "", var)
    [] fk = "lb" -> FS("list", LB, 0, 0, "", "", "", var)
    [] fk = "le" -> FS("list", LE, 0, 0, "", "", "", var)
    [] fk = "be12" -> FS("be", "", 1, 2, "", "", "", var)
    [] fk = "be21" -> FS("be", "", 2, 1, "", "", "", var)
    [] fk = "be02" -> FS("be", "", 0, 2, "", "", "", var)
    [] fk = "be03" -> FS("be", "", 0, 3, "", "", "", var)
    [] fk = "be11" -> FS("be", "", 1, 1, "", "", "", var)       \* equal bounds: one element
    [] fk = "be20" -> FS("be", "", 2, 0, "", "", "", var)       \* inverted by two: empty
    [] fk = "be3N" -> FS("be", "", 3, -1, "", "", "", var)      \* inverted by four, negative end: empty
    [] fk = "beN1" -> FS("be", "", -1, 1, "", "", "", var)      \* negative begin: "-1", "0", "1"
    [] fk = "beNN" -> FS("be", "", -1, -3, "", "", "", var)     \* both negative, inverted: empty
    [] fk = "b2E" -> FS("be", "", 2, 0, "", ov, "", var)        \* begin 2, end {{ ov }}: inverted by up to three
    [] fk = "var" -> FS("var", "", 0, 0, "", "", "lst", var)
    [] fk = "dep" -> FS("dep", "", 0, 0, "", "", ov, var)       \* range: {{ $env['cards_' + ov] }}
    [] fk = "beE" -> FS("be", "", 1, 0, "", ov, "", var)        \* begin 1, end {{ ov }}
    [] fk = "bBe" -> FS("be", "", 0, 2, ov, "", "", var)        \* begin {{ ov }}, end 2
    [] OTHER -> FS("list", LE, 0, 0, "", "", "", var)
DepKinds == {"dep", "beE", "bBe", "b2E"}
FirstConst(fk) == IF fk \in {"be12", "be21", "be02", "be03", "beE", "bBe", "be11", "be20", "be3N", "beN1", "beNN", "b2E"} THEN "1" ELSE IF fk = "dep" THEN "p" ELSE "a"

RECURSIVE DepthOf(_, _), AncSelf(_, _)
DepthOf(TT, i) == IF i <= 1 THEN 0 ELSE 1 + DepthOf(TT, TT[i].par)
AncSelf(TT, i) == IF i = 0 THEN <<>> ELSE AncSelf(TT, TT[i].par) \o <<i>>   \* root first
RightmostAggs(TT) == {a \in {AncSelf(TT, Len(TT))[q] : q \in 1..Len(AncSelf(TT, Len(TT)))} : TT[a].k = "agg"}
\* iteration variables in scope below node par (outermost first), with the constant their first element is compared to
Scope(TT, par) ==
  LET as == SelectSeq(AncSelf(TT, par), LAMBDA a : TT[a].for # <<>>)
  IN [q \in 1..Len(as) |-> <<TT[as[q]].for[1].var, IF TT[as[q]].for[1].t = "be" THEN "1" ELSE IF TT[as[q]].for[1].t = "dep" THEN "p" ELSE "a">>]

EnOf(ek, sc) ==
  CASE ek = "T" -> ENT
    [] ek = "F" -> ENF
    [] ek = "flagon" -> <<"eq", "flag", "on">>
    [] ek = "flagoff" -> <<"ne", "flag", "on">>
    [] ek = "iteq" -> <<"eq", sc[Len(sc)][1], sc[Len(sc)][2]>>
    [] ek = "itne" -> <<"ne", sc[Len(sc)][1], sc[Len(sc)][2]>>
    [] OTHER -> ENT
VsOf(vk, sc) ==
  CASE vk = "flagoff" -> <<<<"flag", "lit", "off">>>>
    [] vk = "flagit" -> <<<<"flag", "ref", sc[Len(sc)][1]>>>>
    [] vk = "itx" -> <<<<"it", "lit", "x">>>>     \* a role variable named like an iteration variable
    [] OTHER -> <<>>
Initial(k) == CASE k = "agg" -> "a" [] k = "task" -> "t" [] k = "call" -> "c" [] k = "inc" -> "i" [] OTHER -> "z"

Poisoned == \E i \in 1..Len(T) : T[i].ps \/ T[i].pu # ""

RECURSIVE Dedupe(_)
Dedupe(q) == IF q = <<>> THEN <<>>
             ELSE LET r == Dedupe(SubSeq(q, 1, Len(q) - 1))
                  IN IF \E i \in 1..Len(r) : r[i] = q[Len(q)] THEN r ELSE Append(r, q[Len(q)])

G_Add(par, k, fk, ek, vk, x, ps, sub, sh, pu) ==
  /\ Len(T) < MaxNodes
  /\ par \in RightmostAggs(T)
  /\ DepthOf(T, par) < MaxDepth
  /\ LET sc == Scope(T, par)
         \* sh = "same": the nested iterator reuses the variable name of the enclosing iterator (shadowing)
         myvar == IF Len(sc) = 0 THEN "it" ELSE IF sh = "same" THEN sc[Len(sc)][1] ELSE "jt"
         sc2 == IF fk = "none" THEN sc ELSE Append(sc, <<myvar, FirstConst(fk)>>)
     IN /\ fk # "none" => Len(sc) < 2
        /\ sh = "same" => (fk # "none" /\ sc # <<>>)
        /\ (sh # "same" /\ "fresh" \notin ShadowKinds) => (fk = "none" \/ sc = <<>>)
        /\ fk \in DepKinds => sc # <<>>
        /\ ek \in {"iteq", "itne"} => sc2 # <<>>
        /\ vk = "flagit" => sc2 # <<>>
        /\ x \in {"hook", "chan"} => k \in {"task", "call"}
        /\ x \in {"cons", "bind", "bindp", "conn"} => k # "inc"
        /\ pu # "" => (~ps /\ ~Poisoned)
        /\ pu \in {"cons", "bind", "conn"} => k # "inc"
        /\ pu = "load" => k = "task"
        /\ (k = "inc") <=> (sub # "")
        /\ ps => (AllowPoison /\ ~Poisoned)
        /\ T' = Append(T, [Nd(par, k, Initial(k) \o ToString(Len(T) + 1),
                             Dedupe([q \in 1..Len(sc2) |-> sc2[q][1]]), EnOf(ek, sc2), VsOf(vk, sc2), <<>>,
                             ps, x, sub, IF fk = "none" THEN <<>> ELSE <<ForSpec(fk, myvar, IF sc = <<>> THEN "" ELSE sc[Len(sc)][1])>>)
                            EXCEPT !.pu = pu])
  /\ UNCHANGED <<uv, sp>>

GenInit ==
  /\ \E rk \in RootKinds : T = <<Nd(0, "agg", "root", <<>>, ENT, RootVs(rk), RootDs(rk), FALSE, "none", "", <<>>)>>
  /\ \E uk \in UvKinds : uv = UvOf(uk)
  /\ sp \in SpellKinds

GenNext ==
  \E par \in 1..MaxNodes, k \in Kinds, fk \in ForKinds, ek \in EnKinds, vk \in VarKinds, x \in XKinds,
     ps \in BOOLEAN, sub \in SubChoices \cup {""}, sh \in {"fresh", "same"}, pu \in PuKinds \cup {""} :
       (sh \in ShadowKinds \/ sh = "fresh") /\ G_Add(par, k, fk, ek, vk, x, ps, sub, sh, pu)

GenSpec == GenInit /\ [][GenNext]_gvars

(* ----------------------- sanity invariants of Load ----------------------- *)
LI == Load(T, uv, NoDev)                              \* the statement
LIter == Load(T, uv, [iter |-> TRUE, enerr |-> FALSE])   \* IterEnabledFromTemplate only
LMask == Load(T, uv, [iter |-> FALSE, enerr |-> TRUE])   \* EnabledErrorMasked only
LAsIs == Load(T, uv, AllDev)                             \* the code as it is

Src(nd) == IF nd.src[1] = "" THEN T[nd.src[2]] ELSE Subs[nd.src[1]][nd.src[2]]
LookupSt(st, z) == LET h == SelectSeq(st, LAMBDA pr : pr[1] = z) IN IF h = <<>> THEN <<>> ELSE <<h[1][2]>>

ShapeOk(r) == /\ r.err \in BOOLEAN /\ Len(r.out) <= 1 /\ (r.err => r.out = <<>>)
              /\ \A q \in 1..Len(Flat(r.out)) : Flat(r.out)[q].k \in {"agg", "task", "call", "inc"}
Inv_Shape == ShapeOk(LI) /\ ShapeOk(LIter) /\ ShapeOk(LMask) /\ ShapeOk(LAsIs)

\* every surviving role's enabled field is true in the environment it was evaluated in
\* (parent's consolidated stack; the own iteration variable for the template role of an iterator)
EnHolds(nd, parentSt) ==
  LET n == Src(nd)
      own == n.for # <<>> /\ n.en[2] = n.for[1].var
      v == LookupSt(IF own THEN nd.st ELSE parentSt, n.en[2])
  IN CASE n.en[1] = "T" -> TRUE
       [] n.en[1] = "F" -> FALSE
       [] n.en[1] = "eq" -> v # <<>> /\ v[1] = n.en[3]
       [] n.en[1] = "ne" -> v # <<>> /\ v[1] # n.en[3]
       [] OTHER -> FALSE
RECURSIVE NoDisabledIn(_, _)
NoDisabledIn(s, parentSt) ==
  \A q \in 1..Len(s) : /\ (s[q].k # "inc" => EnHolds(s[q], parentSt))
                       /\ NoDisabledIn(s[q].ch, s[q].st)
Inv_NoDisabled == NoDisabledIn(LI.out, StackPairs(PairsMap(uv))) /\ NoDisabledIn(LIter.out, StackPairs(PairsMap(uv)))
                  /\ NoDisabledIn(LAsIs.out, StackPairs(PairsMap(uv)))

\* the statement: no aggregator / include without children survives
Inv_NoEmpty == \A q \in 1..Len(Flat(LI.out)) :
                 Flat(LI.out)[q].k \in {"agg", "inc"} => Flat(LI.out)[q].ch # <<>>

\* a poisoned role is never part of a returned tree
NoPoisonIn(r) == \A q \in 1..Len(Flat(r.out)) : ~Src(Flat(r.out)[q]).ps /\ Src(Flat(r.out)[q]).pu = ""
Inv_Poison == NoPoisonIn(LI) /\ NoPoisonIn(LIter) /\ NoPoisonIn(LMask) /\ NoPoisonIn(LAsIs)

\* the deviation never turns an error into a tree or vice versa, and is invisible without iterators
Inv_DevErr == LIter.err = LI.err /\ LAsIs.err = LMask.err
Inv_DevSame == (\A i \in 1..Len(T) : T[i].for = <<>> /\ T[i].k # "inc") => (LIter = LI /\ LAsIs = LMask)
\* masking only ever turns an error into a tree; without an error it changes nothing
Inv_MaskOnlyErr == (LMask.err => LI.err) /\ (~LI.err => LMask = LI)

\* paths: child path = parent path . child name
RECURSIVE PathsOk(_, _)
PathsOk(s, pp) == \A q \in 1..Len(s) :
                    /\ s[q].p = (IF pp = "" THEN s[q].n ELSE pp \o "." \o s[q].n)
                    /\ PathsOk(s[q].ch, s[q].p)
Inv_Paths == PathsOk(LI.out, "") /\ PathsOk(LAsIs.out, "")

\* order: children appear in template order; the instances of one iterator in range order
Literal(f) == f.t = "list" \/ (f.t = "be" /\ f.bv = "" /\ f.ev = "")
RangeIdx(f, val) ==
  CASE f.t = "list" -> IF \E q \in 1..Len(ListOf(f.s)) : ListOf(f.s)[q] = val
                         THEN CHOOSE q \in 1..Len(ListOf(f.s)) : ListOf(f.s)[q] = val ELSE 0
    [] f.t = "be" /\ Literal(f) -> IF \E q \in 1..(f.e - f.b + 1) : ToString(f.b + q - 1) = val
                       THEN CHOOSE q \in 1..(f.e - f.b + 1) : ToString(f.b + q - 1) = val ELSE 0
    [] f.t = "be" /\ ~Literal(f) -> IF val \in NumTexts THEN NumOf(val) + 1 ELSE 0   \* order only
    [] f.t = "dep" -> IF val = "p" THEN 1 ELSE IF val = "q" THEN 2 ELSE IF val = "b" THEN 3 ELSE 0   \* order only
    [] OTHER -> -1
InstIdx(nd) == LET f == Src(nd).for[1] v == LookupSt(nd.st, f.var)
               IN IF v = <<>> THEN 0 ELSE RangeIdx(f, v[1])
RECURSIVE OrderOk(_)
OrderOk(s) ==
  /\ \A p, q \in 1..Len(s) : p < q =>
        /\ s[p].src[1] = s[q].src[1] => s[p].src[2] <= s[q].src[2]
        /\ (s[p].src = s[q].src /\ s[p].k # "inc" /\ Src(s[p]).for # <<>> /\ Src(s[p]).for[1].t # "var")
              => InstIdx(s[p]) < InstIdx(s[q])
  /\ \A q \in 1..Len(s) : OrderOk(s[q].ch)
Inv_Order == OrderOk(LI.out) /\ OrderOk(LAsIs.out)

\* binding: an instance of an iterator's template role has the iteration variable bound to an element of the range
Inv_Bound == \A q \in 1..Len(Flat(LI.out)) :
               LET nd == Flat(LI.out)[q] IN
                 (nd.k # "inc" /\ Src(nd).for # <<>> /\ Literal(Src(nd).for[1])) => InstIdx(nd) >= 1

\* completeness on templates where nothing is disabled, poisoned, included or undefined:
\* every leaf appears exactly once per combination of the enclosing ranges
RECURSIVE Mult(_)
Mult(i) == IF i = 0 THEN 1
           ELSE (IF T[i].for = <<>> THEN 1 ELSE Len(RangeOf(T[i].for[1], EmptyMap))) * Mult(T[i].par)
Plain == \A i \in 1..Len(T) : /\ T[i].en[1] = "T" /\ ~T[i].ps /\ T[i].pu = "" /\ T[i].k # "inc"
                              /\ (T[i].for # <<>> => Literal(T[i].for[1]))
                              /\ \A q \in 1..Len(T[i].vs) : T[i].vs[q][2] = "lit"
Inv_Complete == Plain =>
  /\ ~LI.err
  /\ \A i \in 1..Len(T) : T[i].k \in {"task", "call"} =>
       Cardinality({q \in 1..Len(Flat(LI.out)) : Flat(LI.out)[q].src = <<"", i>>}) = Mult(i)

(* nested iterators: the instances of an iterator that is a child of a surviving aggregator role nd  *)
(* (in particular of an instance of an OUTER iterator's template role) are, in order, exactly the     *)
(* elements of the range resolved in nd's OWN environment - per outer element, not once per template *)
RootMap == MapOf(T[1].ds, EmptyMap)
EnvAt(nd) == PairsMap(nd.st) @@ PairsMap(uv) @@ RootMap   \* only the root and uv define non-probed variables here
SimpleLeaf(j) == T[j].k \in {"task", "call"} /\ T[j].en[1] = "T" /\ ~T[j].ps /\ T[j].pu = ""
PerOuterOk(r) ==
  ~r.err => \A q \in 1..Len(Flat(r.out)) :
    LET nd == Flat(r.out)[q] IN
      (nd.src[1] = "" /\ nd.k = "agg") =>
        \A j \in 1..Len(T) :
          (T[j].par = nd.src[2] /\ T[j].for # <<>> /\ SimpleLeaf(j)) =>
            LET insts == SelectSeq(nd.ch, LAMBDA c : c.src = <<"", j>>)
            IN /\ RangeOk(T[j].for[1], EnvAt(nd))
               /\ [c \in 1..Len(insts) |-> LookupSt(insts[c].st, T[j].for[1].var)]
                    = [c \in 1..Len(RangeOf(T[j].for[1], EnvAt(nd))) |-> <<RangeOf(T[j].for[1], EnvAt(nd))[c]>>]
Inv_NestedPerOuter == PerOuterOk(LI) /\ PerOuterOk(LAsIs)

(* shadowing: everything generated inside an instance of an iterator's template role sees the iteration   *)
(* variable with the value of THAT instance - also when an enclosing scope (an ancestor's or the root's    *)
(* vars / defaults, an enclosing iterator using the same variable name) defines a variable of that name:   *)
(* a child that does not rebind the variable itself has the same binding as the instance.                  *)
(* (A USER variable of that name is outside the family: by the documented precedence user variables        *)
(* override every role variable, the iteration variable included - observed on the real code, not judged.)  *)
Rebinds(n, v) == (n.for # <<>> /\ n.for[1].var = v) \/ (\E q \in 1..Len(n.vs) : n.vs[q][1] = v)
RECURSIVE InnermostWins(_)
InnermostWins(s) ==
  \A q \in 1..Len(s) :
    /\ (s[q].src[1] = "" /\ Src(s[q]).for # <<>>) =>
          LET v == Src(s[q]).for[1].var IN
            \A c \in 1..Len(s[q].ch) :
              (s[q].ch[c].src[1] = "" /\ ~Rebinds(Src(s[q].ch[c]), v)) => LookupSt(s[q].ch[c].st, v) = LookupSt(s[q].st, v)
    /\ InnermostWins(s[q].ch)
Inv_InnermostWins == InnermostWins(LI.out)
\* (that the instance itself is bound to the element, not to an enclosing definition of the name, is Inv_Bound)

(* channels: the bind aliases / connect targets of an instance of an iterator's template role (or of a role   *)
(* nested in it) carry THAT instance's element: two instances of the same template node bound to different   *)
(* elements never have the same iteration-dependent alias / target                                            *)
PerInstanceChannels(r) ==
  \A p, q \in 1..Len(Flat(r.out)) :
    LET a == Flat(r.out)[p] b == Flat(r.out)[q] IN
      (p < q /\ a.src = b.src /\ a.src[1] = "" /\ Src(a).x \in {"bind", "conn"} /\ Src(a).np # <<>>
         /\ [z \in 1..Len(Src(a).np) |-> LookupSt(a.st, Src(a).np[z])] # [z \in 1..Len(Src(b).np) |-> LookupSt(b.st, Src(b).np[z])])
        => (a.bd # b.bd \/ a.cn # b.cn)
Inv_Channels == PerInstanceChannels(LI)
=============================================================================
