---------------------------- MODULE WorkflowLoadGen ----------------------------
(***************************************************************************)
(* The template family of C15 as a state space: a state IS an abstract      *)
(* workflow template (T, uv); the only action appends one node in preorder  *)
(* (the parent is an aggregator on the rightmost path), choosing its kind,  *)
(* iterator range, enabled field, vars, extra and poison from the option    *)
(* sets given as constants.  Exhaustive TLC = every template of the family  *)
(* up to MaxNodes nodes, each checked against the sanity invariants of Load *)
(* below (for the statement, NoDev, and for the models of the code as it   *)
(* is); `-dump` gives the cases; `-simulate` gives seeded random larger     *)
(* templates.                                                              *)
(***************************************************************************)
EXTENDS WorkflowLoad

CONSTANTS MaxNodes, MaxDepth,
          Kinds,       \* subset of {"agg","task","call","inc"}
          ForKinds,    \* subset of {"none","lab","lb","le","be12","be21","var"}
          EnKinds,     \* subset of {"T","F","flagon","flagoff","iteq","itne"}
          VarKinds,    \* subset of {"none","flagoff","flagit"}
          XKinds,      \* subset of {"none","hook","cons","chan"}
          SubChoices,  \* include targets, e.g. {"s1","smissing"}
          AllowPoison, \* BOOLEAN
          RootKinds,   \* subset of {"plain","flag","lst","both"}: defaults of the root
          UvKinds      \* subset of {"none","flagoff","lstb","lstbad"}: user variables

VARIABLES T, uv
gvars == <<T, uv>>

ASSUME PrintT(<<"SUBS", Subs>>)

RootDs(rk) == CASE rk = "plain" -> <<>>
                [] rk = "flag" -> <<<<"flag", "lit", "on">>>>
                [] rk = "lst" -> <<<<"lst", "lit", LAB>>>>
                [] rk = "both" -> <<<<"flag", "lit", "on">>, <<"lst", "lit", LAB>>>>
                [] OTHER -> <<>>
UvOf(uk) == CASE uk = "none" -> <<>>
              [] uk = "flagoff" -> <<<<"flag", "off">>>>
              [] uk = "lstb" -> <<<<"lst", LB>>>>
              [] uk = "lstbad" -> <<<<"lst", "on">>>>   \* not a list: the range cannot be evaluated
              [] OTHER -> <<>>

ForSpec(fk, var) ==
  CASE fk = "lab" -> [t |-> "list", s |-> LAB, b |-> 0, e |-> 0, x |-> "", var |-> var]
    [] fk = "lb" -> [t |-> "list", s |-> LB, b |-> 0, e |-> 0, x |-> "", var |-> var]
    [] fk = "le" -> [t |-> "list", s |-> LE, b |-> 0, e |-> 0, x |-> "", var |-> var]
    [] fk = "be12" -> [t |-> "be", s |-> "", b |-> 1, e |-> 2, x |-> "", var |-> var]
    [] fk = "be21" -> [t |-> "be", s |-> "", b |-> 2, e |-> 1, x |-> "", var |-> var]
    [] fk = "var" -> [t |-> "var", s |-> "", b |-> 0, e |-> 0, x |-> "lst", var |-> var]
    [] OTHER -> [t |-> "list", s |-> LE, b |-> 0, e |-> 0, x |-> "", var |-> var]
FirstConst(fk) == IF fk \in {"be12", "be21"} THEN "1" ELSE "a"

RECURSIVE DepthOf(_, _), AncSelf(_, _)
DepthOf(TT, i) == IF i <= 1 THEN 0 ELSE 1 + DepthOf(TT, TT[i].par)
AncSelf(TT, i) == IF i = 0 THEN <<>> ELSE AncSelf(TT, TT[i].par) \o <<i>>   \* root first
RightmostAggs(TT) == {a \in {AncSelf(TT, Len(TT))[q] : q \in 1..Len(AncSelf(TT, Len(TT)))} : TT[a].k = "agg"}
\* iteration variables in scope below node par (outermost first), with the constant their first element is compared to
Scope(TT, par) ==
  LET as == SelectSeq(AncSelf(TT, par), LAMBDA a : TT[a].for # <<>>)
  IN [q \in 1..Len(as) |-> <<TT[as[q]].for[1].var, IF TT[as[q]].for[1].t = "be" THEN "1" ELSE "a">>]

EnOf(ek, sc) ==
  CASE ek = "T" -> ENT
    [] ek = "F" -> ENF
    [] ek = "flagon" -> <<"eq", "flag", "on">>
    [] ek = "flagoff" -> <<"ne", "flag", "on">>
    [] ek = "iteq" -> <<"eq", sc[Len(sc)][1], sc[Len(sc)][2]>>
    [] ek = "itne" -> <<"ne", sc[Len(sc)][1], sc[Len(sc)][2]>>
    [] OTHER -> ENT
VsOf(vk, sc) ==
  CASE vk = "flagoff" -> <<<<"flag", "lit", "off">>>>
    [] vk = "flagit" -> <<<<"flag", "ref", sc[Len(sc)][1]>>>>
    [] OTHER -> <<>>
Initial(k) == CASE k = "agg" -> "a" [] k = "task" -> "t" [] k = "call" -> "c" [] k = "inc" -> "i" [] OTHER -> "z"

Poisoned == \E i \in 1..Len(T) : T[i].ps

G_Add(par, k, fk, ek, vk, x, ps, sub) ==
  /\ Len(T) < MaxNodes
  /\ par \in RightmostAggs(T)
  /\ DepthOf(T, par) < MaxDepth
  /\ LET sc == Scope(T, par)
         myvar == IF Len(sc) = 0 THEN "it" ELSE "jt"
         sc2 == IF fk = "none" THEN sc ELSE Append(sc, <<myvar, FirstConst(fk)>>)
     IN /\ fk # "none" => Len(sc) < 2
        /\ ek \in {"iteq", "itne"} => sc2 # <<>>
        /\ vk = "flagit" => sc2 # <<>>
        /\ x \in {"hook", "chan"} => k \in {"task", "call"}
        /\ x = "cons" => k # "inc"
        /\ (k = "inc") <=> (sub # "")
        /\ ps => (AllowPoison /\ ~Poisoned)
        /\ T' = Append(T, Nd(par, k, Initial(k) \o ToString(Len(T) + 1),
                             [q \in 1..Len(sc2) |-> sc2[q][1]], EnOf(ek, sc2), VsOf(vk, sc2), <<>>,
                             ps, x, sub, IF fk = "none" THEN <<>> ELSE <<ForSpec(fk, myvar)>>))
  /\ UNCHANGED uv

GenInit ==
  /\ \E rk \in RootKinds : T = <<Nd(0, "agg", "root", <<>>, ENT, <<>>, RootDs(rk), FALSE, "none", "", <<>>)>>
  /\ \E uk \in UvKinds : uv = UvOf(uk)

GenNext ==
  \E par \in 1..MaxNodes, k \in Kinds, fk \in ForKinds, ek \in EnKinds, vk \in VarKinds, x \in XKinds,
     ps \in BOOLEAN, sub \in SubChoices \cup {""} :
       G_Add(par, k, fk, ek, vk, x, ps, sub)

GenSpec == GenInit /\ [][GenNext]_gvars

(* ----------------------- sanity invariants of Load ----------------------- *)
LI == Load(T, uv, NoDev)                              \* the statement
LIter == Load(T, uv, [iter |-> TRUE, enerr |-> FALSE])   \* IterEnabledFromTemplate only
LMask == Load(T, uv, [iter |-> FALSE, enerr |-> TRUE])   \* EnabledErrorMasked only
LAsIs == Load(T, uv, AllDev)                             \* the code as it is

Src(nd) == IF nd.src[1] = "" THEN T[nd.src[2]] ELSE Subs[nd.src[1]][nd.src[2]]
LookupSt(st, z) == LET h == SelectSeq(st, LAMBDA pr : pr[1] = z) IN IF h = <<>> THEN <<>> ELSE <<h[1][2]>>

ShapeOk(r) == /\ r.err \in BOOLEAN /\ Len(r.out) <= 1 /\ (r.err => r.out = <<>>)
              /\ \A q \in 1..Len(Flat(r.out)) : Flat(r.out)[q].k \in {"agg", "task", "call", "inc"}
Inv_Shape == ShapeOk(LI) /\ ShapeOk(LIter) /\ ShapeOk(LMask) /\ ShapeOk(LAsIs)

\* every surviving role's enabled field is true in the environment it was evaluated in
\* (parent's consolidated stack; the own iteration variable for the template role of an iterator)
EnHolds(nd, parentSt) ==
  LET n == Src(nd)
      own == n.for # <<>> /\ n.en[2] = n.for[1].var
      v == LookupSt(IF own THEN nd.st ELSE parentSt, n.en[2])
  IN CASE n.en[1] = "T" -> TRUE
       [] n.en[1] = "F" -> FALSE
       [] n.en[1] = "eq" -> v # <<>> /\ v[1] = n.en[3]
       [] n.en[1] = "ne" -> v # <<>> /\ v[1] # n.en[3]
       [] OTHER -> FALSE
RECURSIVE NoDisabledIn(_, _)
NoDisabledIn(s, parentSt) ==
  \A q \in 1..Len(s) : /\ (s[q].k # "inc" => EnHolds(s[q], parentSt))
                       /\ NoDisabledIn(s[q].ch, s[q].st)
Inv_NoDisabled == NoDisabledIn(LI.out, StackPairs(PairsMap(uv))) /\ NoDisabledIn(LIter.out, StackPairs(PairsMap(uv)))
                  /\ NoDisabledIn(LAsIs.out, StackPairs(PairsMap(uv)))

\* the statement: no aggregator / include without children survives
Inv_NoEmpty == \A q \in 1..Len(Flat(LI.out)) :
                 Flat(LI.out)[q].k \in {"agg", "inc"} => Flat(LI.out)[q].ch # <<>>

\* a poisoned role is never part of a returned tree
NoPoisonIn(r) == \A q \in 1..Len(Flat(r.out)) : ~Src(Flat(r.out)[q]).ps
Inv_Poison == NoPoisonIn(LI) /\ NoPoisonIn(LIter) /\ NoPoisonIn(LMask) /\ NoPoisonIn(LAsIs)

\* the deviation never turns an error into a tree or vice versa, and is invisible without iterators
Inv_DevErr == LIter.err = LI.err /\ LAsIs.err = LMask.err
Inv_DevSame == (\A i \in 1..Len(T) : T[i].for = <<>> /\ T[i].k # "inc") => (LIter = LI /\ LAsIs = LMask)
\* masking only ever turns an error into a tree; without an error it changes nothing
Inv_MaskOnlyErr == (LMask.err => LI.err) /\ (~LI.err => LMask = LI)

\* paths: child path = parent path . child name
RECURSIVE PathsOk(_, _)
PathsOk(s, pp) == \A q \in 1..Len(s) :
                    /\ s[q].p = (IF pp = "" THEN s[q].n ELSE pp \o "." \o s[q].n)
                    /\ PathsOk(s[q].ch, s[q].p)
Inv_Paths == PathsOk(LI.out, "") /\ PathsOk(LAsIs.out, "")

\* order: children appear in template order; the instances of one iterator in range order
RangeIdx(f, val) ==
  CASE f.t = "list" -> IF \E q \in 1..Len(ListOf(f.s)) : ListOf(f.s)[q] = val
                         THEN CHOOSE q \in 1..Len(ListOf(f.s)) : ListOf(f.s)[q] = val ELSE 0
    [] f.t = "be" -> IF \E q \in 1..(f.e - f.b + 1) : ToString(f.b + q - 1) = val
                       THEN CHOOSE q \in 1..(f.e - f.b + 1) : ToString(f.b + q - 1) = val ELSE 0
    [] OTHER -> -1
InstIdx(nd) == LET f == Src(nd).for[1] v == LookupSt(nd.st, f.var)
               IN IF v = <<>> THEN 0 ELSE RangeIdx(f, v[1])
RECURSIVE OrderOk(_)
OrderOk(s) ==
  /\ \A p, q \in 1..Len(s) : p < q =>
        /\ s[p].src[1] = s[q].src[1] => s[p].src[2] <= s[q].src[2]
        /\ (s[p].src = s[q].src /\ s[p].k # "inc" /\ Src(s[p]).for # <<>> /\ Src(s[p]).for[1].t # "var")
              => InstIdx(s[p]) < InstIdx(s[q])
  /\ \A q \in 1..Len(s) : OrderOk(s[q].ch)
Inv_Order == OrderOk(LI.out) /\ OrderOk(LAsIs.out)

\* binding: an instance of an iterator's template role has the iteration variable bound to an element of the range
Inv_Bound == \A q \in 1..Len(Flat(LI.out)) :
               LET nd == Flat(LI.out)[q] IN
                 (nd.k # "inc" /\ Src(nd).for # <<>> /\ Src(nd).for[1].t # "var") => InstIdx(nd) >= 1

\* completeness on templates where nothing is disabled, poisoned, included or undefined:
\* every leaf appears exactly once per combination of the enclosing ranges
RECURSIVE Mult(_)
Mult(i) == IF i = 0 THEN 1
           ELSE (IF T[i].for = <<>> THEN 1 ELSE Len(RangeOf(T[i].for[1], EmptyMap))) * Mult(T[i].par)
Plain == \A i \in 1..Len(T) : /\ T[i].en[1] = "T" /\ ~T[i].ps /\ T[i].k # "inc"
                              /\ (T[i].for # <<>> => T[i].for[1].t # "var")
                              /\ \A q \in 1..Len(T[i].vs) : T[i].vs[q][2] = "lit"
Inv_Complete == Plain =>
  /\ ~LI.err
  /\ \A i \in 1..Len(T) : T[i].k \in {"task", "call"} =>
       Cardinality({q \in 1..Len(Flat(LI.out)) : Flat(LI.out)[q].src = <<"", i>>}) = Mult(i)
=============================================================================
