--------------------------- MODULE RunCounterGen ---------------------------
(* Scenario generator for RunCounter.  Every action of the model is a step    *)
(* the harness can impose (the fake Consul parks each GET / CAS and the       *)
(* driver decides when it is served, answered, failed or never answered), so  *)
(* the generator is the model itself with                                     *)
(*  - each action wrapped in a named operator G_<Action> (TLC labels the       *)
(*    steps of simulated behaviours with it),                                 *)
(*  - NetFail refined by the kind of failure the driver injects,              *)
(*  - a history variable h (the steps taken): with it distinct paths are       *)
(*    distinct states, so an exhaustive TLC run enumerates every maximal       *)
(*    interleaving exactly once; EmitPath prints them.                         *)
EXTENDS RunCounter

VARIABLE h

gvars == <<vars, h>>

\* the calls are named in the order in which they start (the clients are interchangeable)
Rank(c) == CHOOSE i \in 1..4 : <<"c1", "c2", "c3", "c4">>[i] = c
G_Start(c) == /\ Start(c) /\ \A d \in Clients : Rank(d) < Rank(c) => pc[d] # "idle"
              /\ h' = Append(h, <<"Start", c>>)
G_Read(c) == Read(c) /\ h' = Append(h, <<"Read", c>>)
G_Cas(c) == Cas(c) /\ h' = Append(h, <<"Cas", c>>)
G_Return(c) == Return(c) /\ h' = Append(h, <<"Return", c>>)
G_Crash(c) == Crash(c) /\ h' = Append(h, <<"Crash", c>>)
\* a GET is failed with HTTP 500 (the Go transport would silently repeat a GET whose
\* connection breaks); a CAS with 500 or with a connection closed without an answer
G_NetFail(c, how) == /\ NetFail(c) /\ (pc[c] = "read" => how = "500")
                     /\ h' = Append(h, <<"NetFail", c, how>>)
G_ForeignWrite(v) == ForeignWrite(v) /\ h' = Append(h, <<"ForeignWrite", v>>)
G_Restart == Restart /\ h' = Append(h, <<"Restart">>)

GenNext ==
  \/ \E c \in Clients : G_Start(c) \/ G_Read(c) \/ G_Cas(c) \/ G_Return(c) \/ G_Crash(c)
  \/ \E c \in Clients, how \in {"500", "reset"} : G_NetFail(c, how)
  \/ \E v \in ForeignVals : G_ForeignWrite(v)
  \/ G_Restart

GenInit == Init /\ h = <<<<"Init", kv.present, kv.val, kv.idx, gidx>>>>
GenSpec == GenInit /\ [][GenNext]_gvars

\* a maximal path: every call has ended (the budgets of the environment may be unused)
Terminal == \A c \in Clients : ~InFlight(c) /\ pc[c] # "idle"
EmitPath == Terminal => PrintT(<<"PATH", h>>)
\* do not extend a path beyond the end of the calls (a foreign write after everything is over adds nothing)
StopAtTerminal == ~Terminal
=============================================================================
