----------------------------- MODULE CmdServent -----------------------------
(***************************************************************************)
(* Model of core/controlcommands: CommandQueue (commandqueue.go), Servent   *)
(* (mesoscommandservent.go) and consolidateResponses (multiresponse.go).    *)
(*                                                                         *)
(* Threads: the queue goroutine(s) (CommandQueue.Start: one command at a    *)
(* time per queue, commit), one goroutine per target (commit's "parallel    *)
(* for" -> Servent.RunCommand), the goroutines on which replies arrive      *)
(* (Servent.ProcessResponse), the environment (callers of Enqueue, the      *)
(* transport = the injected SendFunc, the targets which reply, do not       *)
(* reply, reply twice, late, with a foreign id or from a wrong sender).     *)
(* One action per critical section / message / fault of the code.           *)
(*                                                                         *)
(* Time is logical: `clock` advances by Tick only when the implementation   *)
(* has nothing to do (its steps take no time) and some response timer is    *)
(* still running; a timer fires when clock >= deadline.                     *)
(*                                                                         *)
(* Mutant describes deliberately broken variants of the code, used only to  *)
(* show that the invariants have teeth ("none" = the code as it is).        *)
(***************************************************************************)
EXTENDS Naturals, Sequences, FiniteSets, TLC

CONSTANTS Cmds,       \* command ids
          Targets,    \* target ids
          Queues,     \* command queue ids (production: one)
          Shapes,     \* set of functions [Cmds -> SUBSET Targets]: targets of each command
          QueueMaps,  \* set of functions [Cmds -> Queues]
          Behs,       \* per-target behaviours the environment may choose from
          TO,         \* response timeout (logical ticks; ms in trace validation)
          Ghost,      \* a sender that is nobody's target
          ForeignId,  \* a command id nobody issued
          Mutant,     \* "none" | "idonly" | "tgtonly" | "nounreg" | "cmdwide" | "inflight" | "errszero"
          EnqOrders   \* {} : commands are enqueued by the Enqueue action at any time;
                      \* else a set of sequences of commands: everything is enqueued at the start
                      \* in one of these orders (smaller state space, same queue contents)

VARIABLES
  tg,         \* tg[c]: targets of command c                     (fixed per behaviour)
  qof,        \* qof[c]: queue through which c is enqueued          (fixed per behaviour)
  enq,        \* commands for which Enqueue returned
  queue,      \* queue[q]: CommandQueue.q (channel) contents
  commit,     \* commit[q]: command being committed by q's goroutine, or "-"
  pc,         \* pc[<<c,t>>]: RunCommand goroutine of (c,t)
  beh,        \* beh[<<c,t>>]: behaviour the environment chose for (c,t) ("-" = not yet)
  net,        \* replies in flight (set of messages)
  pending,    \* Servent.pending: function key -> owning call <<c,t>>
  held,       \* held[<<c,t>>]: reply a ProcessResponse goroutine holds for the call while
              \*   blocked on `call.Done <- empty{}` (NoMsg = none)
  result,     \* result[<<c,t>>]: what RunCommand returned: R(kind, message), kind = "-" | "timeout" | "senderr" | "reply"
  deadline,   \* deadline[<<c,t>>]: when the response timer of (c,t) fires
  began,      \* began[c]: clock at BeginCommit, then at the latest return of a SendFunc of c
  clock,
  delivered   \* delivered[c]: number of values sent on c's callback channel (the value is Value(c)
              \*   in the state in which Deliver(c) is taken)

vars == <<tg, qof, enq, queue, commit, pc, beh, net, pending, held, result, deadline, began, clock, delivered>>

Pairs == Cmds \X Targets
Active == {p \in Pairs : p[2] \in tg[p[1]]}
NoCmd == "-"
None == "-"
\* "no message" / results are records so that TLC can compare them with messages
NoMsg == [id |-> "-", snd |-> "-", tok |-> <<>>, err |-> FALSE]
R(k, m) == [k |-> k, m |-> m]
NoRes == R("-", NoMsg)

\* a reply: command id it carries, sender it comes from, unique token (origin call + attempt), error flag
Msg(id, snd, c, t, k, e) == [id |-> id, snd |-> snd, tok |-> <<c, t, k>>, err |-> e]

Other(c) == IF \E d \in Cmds : d # c THEN CHOOSE d \in Cmds : d # c ELSE ForeignId

\* what the environment puts on the wire when (c,t) is sent with behaviour b
Emits(c, t, b) ==
  CASE b = "ok"          -> {Msg(c, t, c, t, 1, FALSE)}
    [] b = "err"         -> {Msg(c, t, c, t, 1, TRUE)}
    [] b = "dup"         -> {Msg(c, t, c, t, 1, FALSE), Msg(c, t, c, t, 2, FALSE)}
    [] b = "late"        -> {Msg(c, t, c, t, 1, FALSE)}   \* (generator: arrives after the callback)
    [] b = "foreign"     -> {Msg(ForeignId, t, c, t, 1, FALSE)}
    [] b = "wrongsender" -> {Msg(c, Ghost, c, t, 1, FALSE)}
    [] b = "crossid"     -> {Msg(Other(c), t, c, t, 1, FALSE)}
    [] b = "failreply"   -> {Msg(c, t, c, t, 1, FALSE)}   \* send reported failed, delivered anyway
    [] b = "slow"        -> {Msg(c, t, c, t, 1, FALSE)}   \* SendFunc takes (logical) time to return
    [] b = "fastreply"   -> {Msg(c, t, c, t, 1, FALSE)}   \* (generator: arrives before SendFunc returned)
    [] OTHER             -> {}                             \* "silent", "sendfail"
SendFails(b) == b \in {"sendfail", "failreply"}
\* behaviours for which something happens between entering and leaving SendFunc; for the others
\* the call of SendFunc is one step (nothing can tell the difference)
TwoStep(b) == b \in {"fastreply", "failreply", "slow"}
\* the transport may take time to return: the response timer of a call starts when ITS SendFunc
\* returned, so the deadlines of the targets of one command can differ
SlowSend(b) == b = "slow"

\* Servent.pending is keyed by CallId{Id, Target}
Key(id, snd) ==
  CASE Mutant = "idonly"  -> <<id, "*">>
    [] Mutant = "tgtonly" -> <<"*", snd>>
    [] OTHER              -> <<id, snd>>

Drop(f, k) == [x \in DOMAIN f \ {k} |-> f[x]]
Put(f, k, v) == [x \in DOMAIN f \cup {k} |-> IF x = k THEN v ELSE f[x]]

Init ==
  /\ tg \in Shapes /\ qof \in QueueMaps
  /\ IF EnqOrders = {}
       THEN enq = {} /\ queue = [q \in Queues |-> <<>>]
       ELSE /\ enq = Cmds
            /\ \E o \in EnqOrders : queue = [q \in Queues |-> SelectSeq(o, LAMBDA c : qof[c] = q)]
  /\ commit = [q \in Queues |-> NoCmd]
  /\ pc = [p \in Pairs |-> "none"] /\ beh = [p \in Pairs |-> None]
  /\ net = {} /\ pending = <<>> /\ held = [p \in Pairs |-> NoMsg]
  /\ result = [p \in Pairs |-> NoRes] /\ deadline = [p \in Pairs |-> 0]
  /\ began = [c \in Cmds |-> 0] /\ clock = 0
  /\ delivered = [c \in Cmds |-> 0]

(* ---------------- callers: CommandQueue.Enqueue ---------------- *)
Enqueue(c) ==
  /\ c \notin enq
  /\ enq' = enq \cup {c}
  /\ queue' = [queue EXCEPT ![qof[c]] = Append(@, c)]
  /\ UNCHANGED <<tg, qof, commit, pc, beh, net, pending, held, result, deadline, began, clock, delivered>>

(* ---------------- queue goroutine: Start / commit ---------------- *)
\* entry := <-m.q; m.Lock(); commit(): spawns one goroutine per target
BeginCommit(c) ==
  LET q == qof[c] IN
  /\ commit[q] = NoCmd /\ queue[q] # <<>> /\ Head(queue[q]) = c
  /\ queue' = [queue EXCEPT ![q] = Tail(@)]
  /\ commit' = [commit EXCEPT ![q] = c]
  /\ pc' = [p \in Pairs |-> IF p[1] = c /\ p[2] \in tg[c] THEN "idle" ELSE pc[p]]
  /\ began' = [began EXCEPT ![c] = clock]
  /\ UNCHANGED <<tg, qof, enq, beh, net, pending, held, result, deadline, clock, delivered>>

(* ---------------- per-target goroutine: Servent.RunCommand ---------------- *)
\* s.mu.Lock(); s.pending[callId] = call; s.mu.Unlock()
\* (Mutant "inflight": a per-command limit - here 1 - on the calls between Register and return)
InFlight(c) == Cardinality({t \in tg[c] : pc[<<c, t>>] \in {"registered", "sending", "waiting", "tofired", "sffired"}})
MayStart(c) == Mutant # "inflight" \/ InFlight(c) < 1
Register(c, t) ==
  /\ pc[<<c, t>>] = "idle" /\ MayStart(c)
  /\ pending' = Put(pending, Key(c, t), <<c, t>>)
  /\ pc' = [pc EXCEPT ![<<c, t>>] = "registered"]
  /\ UNCHANGED <<tg, qof, enq, queue, commit, beh, net, held, result, deadline, began, clock, delivered>>

\* s.SendFunc(cmd, receiver) is entered; the environment decides what this target will do.
\* SendFunc returns nil -> select { <-call.Done | <-time.After(timeout) }; error -> unregister path
AfterSend(c, t, b) ==
  /\ began' = [began EXCEPT ![c] = clock]      \* (latest return of a SendFunc of this command)
  /\ IF SendFails(b)
       THEN pc' = [pc EXCEPT ![<<c, t>>] = "sffired"] /\ UNCHANGED deadline
       ELSE /\ pc' = [pc EXCEPT ![<<c, t>>] = "waiting"]
            /\ deadline' = [deadline EXCEPT ![<<c, t>>] = clock + TO]

SendBegin(c, t, b) ==
  /\ pc[<<c, t>>] = "registered" /\ b \in Behs
  /\ beh' = [beh EXCEPT ![<<c, t>>] = b]
  /\ net' = net \cup Emits(c, t, b)
  /\ IF TwoStep(b) THEN pc' = [pc EXCEPT ![<<c, t>>] = "sending"] /\ UNCHANGED <<deadline, began>>
                   ELSE AfterSend(c, t, b)
  /\ UNCHANGED <<tg, qof, enq, queue, commit, pending, held, result, clock, delivered>>

\* SendFunc returns (two-step behaviours only); at once, except for a slow send, which returns
\* whenever the transport pleases (time may pass meanwhile, see Tick)
SendEnd(c, t) ==
  /\ pc[<<c, t>>] = "sending"
  /\ AfterSend(c, t, beh[<<c, t>>])
  /\ UNCHANGED <<tg, qof, enq, queue, commit, beh, net, pending, held, result, clock, delivered>>

\* case <-call.Done: the blocked ProcessResponse hands over; RunCommand returns call.Response
DoneRecv(c, t) ==
  /\ pc[<<c, t>>] = "waiting" /\ held[<<c, t>>] # NoMsg
  /\ result' = [result EXCEPT ![<<c, t>>] = R("reply", held[<<c, t>>])]
  /\ held' = [held EXCEPT ![<<c, t>>] = NoMsg]
  /\ pc' = [pc EXCEPT ![<<c, t>>] = "ret"]
  /\ deadline' = [deadline EXCEPT ![<<c, t>>] = 0]
  /\ UNCHANGED <<tg, qof, enq, queue, commit, beh, net, pending, began, clock, delivered>>

\* case <-time.After(cmd.GetResponseTimeout()): call.Error = "... timed out ..."
Timeout(c, t) ==
  /\ pc[<<c, t>>] = "waiting" /\ clock >= deadline[<<c, t>>]
  /\ pc' = [pc EXCEPT ![<<c, t>>] = "tofired"]
  /\ UNCHANGED <<tg, qof, enq, queue, commit, beh, net, pending, held, result, deadline, began, clock, delivered>>

\* s.mu.Lock(); delete(s.pending, callId); s.mu.Unlock(); return nil, err   (timeout and send-error paths)
Unreg(c, t) ==
  /\ pc[<<c, t>>] \in {"tofired", "sffired"}
  /\ pending' = IF Mutant = "cmdwide" /\ pc[<<c, t>>] = "tofired"
                  THEN [k \in {x \in DOMAIN pending : pending[x][1] # c} |-> pending[k]]
                ELSE IF Mutant = "nounreg" \/ Key(c, t) \notin DOMAIN pending THEN pending
                ELSE Drop(pending, Key(c, t))
  /\ result' = [result EXCEPT ![<<c, t>>] = R(IF pc[<<c, t>>] = "tofired" THEN "timeout" ELSE "senderr", NoMsg)]
  /\ pc' = [pc EXCEPT ![<<c, t>>] = "ret"]
  /\ deadline' = [deadline EXCEPT ![<<c, t>>] = 0]
  /\ UNCHANGED <<tg, qof, enq, queue, commit, beh, net, held, began, clock, delivered>>

(* ---------------- reply goroutines: Servent.ProcessResponse ---------------- *)
\* A reply in flight may be processed at ANY later time: "late", "reordered", "while SendFunc has
\* not returned yet" are all behaviours of this one action ("late"/"fastreply" in Behs only name,
\* for the scenario generator, replies whose arrival time is pinned).
\* s.mu.Lock(); call, ok := s.pending[callId]; delete(...); s.mu.Unlock(); !ok -> dropped;
\* ok -> call.Response = res; call.Done <- empty{} (blocks until RunCommand receives)
PRecv(m) ==
  /\ m \in net
  /\ net' = net \ {m}
  /\ LET k == Key(m.id, m.snd) IN
     IF k \in DOMAIN pending
       THEN /\ pending' = Drop(pending, k)
            /\ held' = [held EXCEPT ![pending[k]] = m]
       ELSE UNCHANGED <<pending, held>>
  /\ UNCHANGED <<tg, qof, enq, queue, commit, pc, beh, result, deadline, began, clock, delivered>>

(* ---------------- queue goroutine: collect, consolidate, callback ---------------- *)
\* all per-target goroutines reported on the semaphore; consolidateResponses; entry.callback <- response
\* `errs` is the result as its consumers read it (MesosCommandMultiResponse.Errors() by target, Err()
\* of a single response): the failing targets, each with its own error
Fails(r) == r.k \in {"timeout", "senderr"} \/ (r.k = "reply" /\ r.m.err)
ErrOf(r) == [k |-> IF r.k = "reply" THEN "replyerr" ELSE r.k, tok |-> r.m.tok]
Value(c) ==
  LET T == tg[c]
      F == {t \in T : Fails(result[<<c, t>>])} IN
  [kind |-> IF T = {} THEN "nil" ELSE IF Cardinality(T) = 1 THEN "single" ELSE "multi",
   res  |-> [t \in T |-> result[<<c, t>>]],
   errs |-> IF Mutant = "errszero" /\ Cardinality(T) >= 2 /\ F # {}
              THEN [x \in {"-"} |-> ErrOf(result[<<c, CHOOSE t \in F : TRUE>>])]   \* all under an empty target
              ELSE [t \in F |-> ErrOf(result[<<c, t>>])]]

Deliver(c) ==
  /\ commit[qof[c]] = c
  /\ \A t \in tg[c] : pc[<<c, t>>] = "ret"
  /\ delivered' = [delivered EXCEPT ![c] = @ + 1]
  /\ commit' = [commit EXCEPT ![qof[c]] = NoCmd]
  \* the goroutines and the responses map of this commit are gone: forget them (what is still on
  \* the wire stays; a "late" reply not yet delivered keeps its mark)
  /\ result' = [p \in Pairs |-> IF p[1] = c THEN NoRes ELSE result[p]]
  /\ beh' = [p \in Pairs |-> IF p[1] = c /\ ~(beh[p] = "late" /\ Emits(p[1], p[2], "late") \cap net # {})
                              THEN None ELSE beh[p]]
  /\ began' = [began EXCEPT ![c] = 0]
  /\ UNCHANGED <<tg, qof, enq, queue, pc, net, pending, held, deadline, clock>>

(* ---------------- time ---------------- *)
SysEnabled ==
  \/ \E c \in Cmds : LET q == qof[c] IN commit[q] = NoCmd /\ queue[q] # <<>> /\ Head(queue[q]) = c
  \/ \E p \in Active :
       \/ pc[p] \in {"registered", "tofired", "sffired"}
       \/ pc[p] = "idle" /\ MayStart(p[1])
       \/ pc[p] = "sending" /\ ~SlowSend(beh[p])
       \/ pc[p] = "waiting" /\ (held[p] # NoMsg \/ clock >= deadline[p])
  \/ \E c \in Cmds : commit[qof[c]] = c /\ \A t \in tg[c] : pc[<<c, t>>] = "ret"

Tick ==
  /\ ~SysEnabled
  /\ \E p \in Active : pc[p] = "waiting" /\ clock < deadline[p]
  /\ clock' = clock + 1
  /\ UNCHANGED <<tg, qof, enq, queue, commit, pc, beh, net, pending, held, result, deadline, began, delivered>>

SysNext ==
  \/ \E c \in Cmds : BeginCommit(c) \/ Deliver(c)
  \/ \E p \in Pairs : Register(p[1], p[2]) \/ SendEnd(p[1], p[2]) \/ DoneRecv(p[1], p[2])
                      \/ Timeout(p[1], p[2]) \/ Unreg(p[1], p[2])
  \/ \E p \in Pairs, b \in Behs : SendBegin(p[1], p[2], b)
EnvNext == (\E c \in Cmds : Enqueue(c)) \/ (\E m \in net : PRecv(m))

Next == SysNext \/ EnvNext \/ Tick
Spec == Init /\ [][Next]_vars
FairSpec == Spec /\ WF_vars(SysNext) /\ WF_vars(Tick)

(* ---------------- properties ---------------- *)
AllMsgs == UNION {Emits(p[1], p[2], b) : p \in Pairs, b \in Behs}
DeliverEnabled(c) == commit[qof[c]] = c /\ \A t \in tg[c] : pc[<<c, t>>] = "ret"

\* a command completes at most once ...
AtMostOnce == \A c \in Cmds : delivered[c] <= 1
\* ... and, when nothing more can happen, exactly once
Completion == (~SysEnabled /\ ~ENABLED Tick /\ \A p \in Pairs : pc[p] # "sending") => \A c \in enq : delivered[c] = 1
ExactlyOnceLive == \A c \in Cmds : (c \in enq) ~> (delivered[c] = 1)

\* the value handed to the callback: nil / single / multi by number of targets, one entry per
\* target, each entry the target's own reply (a message sent by t for command id c) or an error
\* (could not be sent / did not answer)
ValueOK(c) ==
  LET v == Value(c) IN
    /\ DOMAIN v.res = tg[c]
    /\ v.kind = (IF tg[c] = {} THEN "nil" ELSE IF Cardinality(tg[c]) = 1 THEN "single" ELSE "multi")
    /\ \A t \in tg[c] :
         LET r == v.res[t] IN
         \/ r.k = "senderr" /\ r.m = NoMsg /\ SendFails(beh[<<c, t>>])
         \/ r.k = "timeout" /\ r.m = NoMsg /\ ~SendFails(beh[<<c, t>>])
         \/ r.k = "reply" /\ r.m \in AllMsgs /\ r.m.id = c /\ r.m.snd = t
    \* read by target, the result names exactly the targets that failed, each with its own error
    /\ DOMAIN v.errs = {t \in tg[c] : Fails(v.res[t])}
    /\ \A t \in DOMAIN v.errs : v.errs[t] = ErrOf(v.res[t])
OwnAnswer == \A c \in Cmds : DeliverEnabled(c) => ValueOK(c)

\* a reply only ever reaches the call it is addressed to (command id and sender) ...
NoCrossTalk ==
  \A p \in Pairs :
    /\ held[p] # NoMsg => held[p].id = p[1] /\ held[p].snd = p[2]
    /\ result[p].k = "reply" => result[p].m.id = p[1] /\ result[p].m.snd = p[2]
\* ... and pending holds exactly calls that still await a reply
PendingAwaits ==
  \A k \in DOMAIN pending :
    /\ pc[pending[k]] \in {"registered", "sending", "waiting", "tofired", "sffired"}
    /\ k = Key(pending[k][1], pending[k][2])
\* ... and every call that still awaits a reply IS pending, whatever happens to the other calls
\* (of this or any other command): nobody but the call itself (or the reply it gets) unregisters it
AwaitingPending ==
  \A p \in Active :
    (pc[p] \in {"registered", "sending", "waiting"} /\ held[p] = NoMsg)
      => (Key(p[1], p[2]) \in DOMAIN pending /\ pending[Key(p[1], p[2])] = p)
\* a reply that is not addressed to a pending call changes nothing (action property)
UnknownDropped ==
  [][\A m \in net : (PRecv(m) /\ Key(m.id, m.snd) \notin DOMAIN pending)
        => UNCHANGED <<pending, held, pc, result, delivered, commit>>]_vars

\* a command in progress is never older than its response timeout (logical time, steps take no time)
\* (counted from the latest return of a SendFunc of the command; no bound while one is still inside)
Bounded ==
  \A q \in Queues :
    (commit[q] # NoCmd /\ \A t \in tg[commit[q]] : pc[<<commit[q], t>>] \notin {"idle", "registered", "sending"})
      => clock <= began[commit[q]] + TO
\* every target is handed the command promptly, however many targets there are: no call is still
\* waiting to be sent when a sibling call has already run into its timeout
PromptSend ==
  \A p \in Active : pc[p] \in {"idle", "registered"} =>
    \A t \in tg[p[1]] : pc[<<p[1], t>>] # "tofired" /\ result[<<p[1], t>>].k # "timeout"
\* a timeout is never reported before the timer ran out
TimeoutNotEarly == \A p \in Pairs : pc[p] = "tofired" => clock >= deadline[p]

TypeOK ==
  /\ \A p \in Pairs : pc[p] \in {"none", "idle", "registered", "sending", "waiting", "tofired", "sffired", "ret"}
  /\ \A p \in Pairs : pc[p] # "none" => p \in Active
=============================================================================
