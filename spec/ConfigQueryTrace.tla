-------------------------- MODULE ConfigQueryTrace --------------------------
(***************************************************************************)
(* Trace specification binding spec/ConfigQuery.tla to what the REAL code   *)
(* returned (harness/cmd/configquery): one line per input case, carrying    *)
(* the input (tokens / backend / template parts) and the results of         *)
(* componentcfg.NewQuery / NewEntriesQuery / NewQueryParameters /           *)
(* Query.Raw/Path/AbsoluteRaw and of apricot/local ResolveComponentQuery /   *)
(* GetComponentConfiguration / GetAndProcessComponentConfiguration on a      *)
(* generated file backend.  Every expected value is computed HERE by TLC     *)
(* from the TLA+ definitions.                                               *)
(*  - conformance (strict): the recorded result equals the CODE-level        *)
(*    function of the model (CodeParse, CodeParseEntries, CodeParseParams,   *)
(*    CodeResolve, CodeRender); a mismatch prints a DRIFT record (the model  *)
(*    does not describe the code - never a verdict);                         *)
(*  - monitor: the PROPERTY formulas are evaluated on the recorded results   *)
(*    (Spelled, MostSpecific, ResolvedExists, SpecRender ...), independent   *)
(*    of the code-level functions; a failure prints a VIOL record.           *)
(* The cases are independent (no state is carried from line to line).        *)
(***************************************************************************)
EXTENDS ConfigQuery, Integers, Json, IOUtils

Trace == ndJsonDeserialize(IOEnv.TRACE_FILE)

VARIABLES l,      \* next line of Trace
          nviol,  \* soft violations so far
          ndrift  \* conformance mismatches so far

tvars == <<l, nviol, ndrift>>

Line == Trace[l]
Scn == IF "scn" \in DOMAIN Line THEN Line.scn ELSE -1

Soft(name, cond, detail) ==
  IF cond THEN 0
  ELSE IF PrintT(<<"VIOL", name, Scn, l, detail>>) THEN 1 ELSE 1

Drift(cond, what) ==
  IF cond THEN 0
  ELSE IF PrintT(<<"DRIFT", Scn, l, Line.ev, what>>) THEN 1 ELSE 1

Prefix == "o2/components/"

(* ---------------- "Str": NewQuery / NewEntriesQuery / printing ---------------- *)
FullIs(q)  == /\ Line.full.ok
              /\ Line.full.comp = Str(q.comp) /\ Line.full.rt = Str(q.rt)
              /\ Line.full.role = Str(q.role) /\ Line.full.entry = Str(q.entry)
PrintedIs(t) == /\ Line.full.raw = Str(t) /\ Line.full.path = Str(t) /\ Line.full.abs = Prefix \o Str(t)
EntIs(q)   == /\ Line.ent.ok
              /\ Line.ent.comp = Str(q.comp) /\ Line.ent.rt = Str(q.rt) /\ Line.ent.role = Str(q.role)

StrStrict ==
  LET s == Line.s
      cp == CodeParse(s)
      ce == CodeParseEntries(s)
  IN Drift(Line.str = Str(s), "table")
     + Drift(IF cp = Reject THEN ~Line.full.ok ELSE FullIs(cp) /\ PrintedIs(PrintQ(cp)), "NewQuery")
     + Drift(IF ce = Reject THEN ~Line.ent.ok ELSE EntIs(ce), "NewEntriesQuery")

StrMonitor ==
  LET t == Trim(Line.s)
      sp == Spelled(t)
      se == SpelledEntries(t)
  IN Soft("ParseExact", \A q \in sp : FullIs(q), <<"NewQuery", Line.s>>)
     + Soft("MalformedRejected", sp = {} => ~Line.full.ok, <<"NewQuery", Line.s>>)
     + Soft("RoundTrip", Line.full.ok => PrintedIs(t), <<"NewQuery", Line.s>>)
     + Soft("ParseExact", \A q \in se : EntIs(q), <<"NewEntriesQuery", Line.s>>)
     + Soft("MalformedRejected", se = {} => ~Line.ent.ok, <<"NewEntriesQuery", Line.s>>)

(* ---------------- "Par": NewQueryParameters ---------------- *)
ParIs(r) == /\ Line.res.ok
            /\ Line.res.proc = r.proc
            /\ Range(Line.res.vars) = {<<Str(kv[1]), Str(kv[2])>> : kv \in r.vars}
            /\ Len(Line.res.vars) = Cardinality(r.vars)

ParStrict ==
  LET cp == CodeParseParams(Line.s)
  IN Drift(Line.str = Str(Line.s), "table")
     + Drift(IF cp = Reject THEN ~Line.res.ok ELSE ParIs(cp), "NewQueryParameters")

ParMonitor ==
  LET sp == SpelledParams(Trim(Line.s))
  IN Soft("ParseExact", \A r \in sp : ParIs(r), <<"NewQueryParameters", Line.s>>)
     + Soft("MalformedRejected", sp = {} => ~Line.res.ok, <<"NewQueryParameters", Line.s>>)

(* ---------------- "Res": ResolveComponentQuery / GetComponentConfiguration ---------------- *)
ResQ == [comp |-> Line.q.comp, rt |-> Line.q.rt, role |-> Line.q.role, entry |-> Line.q.entry]
ResB == IF "L" \in DOMAIN Line THEN FldB(Line.L) ELSE Range(Line.B)     \* "fld" cases: existence follows from the level shapes
Recorded == IF Line.res.found
              THEN [comp |-> Line.res.comp, rt |-> Line.res.rt, role |-> Line.res.role, entry |-> Line.res.entry]
              ELSE NotFound
GotIs(g, q) == g.ok /\ g.payload = PayloadOf(q)

ResStrict ==
  LET r == CodeResolve(ResQ, ResB)
  IN Drift(Recorded = r /\ (r # NotFound => Line.res.raw = PathStr(r)), "ResolveComponentQuery")
     + Drift(r # NotFound => GotIs(Line.get, r) /\ GotIs(Line.proc, r), "Get(resolved)")
     + Drift(IF Key(ResQ) \in ResB THEN GotIs(Line.direct, ResQ) ELSE ~Line.direct.ok, "Get(query)")
     + Drift(Line.qkept, "query mutated")

ResMonitor ==
  LET rr == Recorded
      what == <<PathStr(ResQ), IF "L" \in DOMAIN Line THEN Line.L ELSE Line.B, IF rr = NotFound THEN "notfound" ELSE PathStr(rr)>>
  IN Soft("ResolvedExists", ResolvedExists(ResQ, ResB, rr), what)
     + Soft("MostSpecific", MostSpecific(ResQ, ResB, rr), what)
     + Soft("PayloadOfResolved", rr # NotFound /\ Key(rr) \in ResB => GotIs(Line.get, rr) /\ GotIs(Line.proc, rr), what)

(* ---------------- "Rnd": GetAndProcessComponentConfiguration ---------------- *)
OutIs(g, r) == g.ok = r.ok /\ (r.ok => g.payload = r.out)

RndStrict ==
  Drift(/\ Line.src = Source(Line.parts)
        /\ (Line.hasSib => Line.sibsrc = Source(Line.sib))
        /\ Len(Line.varsReal) = Len(Line.vars)
        /\ \A i \in 1..Len(Line.vars) : Line.varsReal[i] = <<Line.vars[i][1], ValStr(Line.vars[i][2])>>, "table")
  + Drift(OutIs(Line.out, CodeRender(Line.parts, Line.sib, Line.hasSib, Line.vars)), "GetAndProcess")
  + Drift(Line.raw.ok /\ Line.raw.payload = Source(Line.parts), "Get")

RndMonitor ==
  LET sr == SpecRender(Line.parts, Line.sib, Line.hasSib, Line.vars)
      cause == IF OutIs(Line.out, RenderWith(Line.parts, Line.sib, Line.hasSib, Line.vars, TRUE))
                 THEN "html-escape" ELSE "other"
  IN Soft("RenderExact", OutIs(Line.out, sr), <<cause, Line.parts, Line.vars>>)
     + Soft("RawIsContent", Line.raw.ok /\ Line.raw.payload = Line.src, <<"raw", Line.parts>>)

(* ---------------- the run over the file ---------------- *)
Step(strict, monitor) ==
  /\ ndrift' = ndrift + strict
  /\ nviol' = nviol + monitor
  /\ l' = l + 1

TStr == l <= Len(Trace) /\ Line.ev = "Str" /\ Step(StrStrict, StrMonitor)
TPar == l <= Len(Trace) /\ Line.ev = "Par" /\ Step(ParStrict, ParMonitor)
TRes == l <= Len(Trace) /\ Line.ev = "Res" /\ Step(ResStrict, ResMonitor)
TRnd == l <= Len(Trace) /\ Line.ev = "Rnd" /\ Step(RndStrict, RndMonitor)
\* the real tables behind IsEnum / IsBool / IsProcess (apricotpb.RunType_value, strconv.ParseBool, the key "process")
TTable == /\ l <= Len(Trace) /\ Line.ev = "Table"
          /\ Step(Drift(/\ Range(Line.enums) = EnumNames
                        /\ Range(Line.trues) = TrueStrings /\ Range(Line.falses) = FalseStrings
                        /\ Line.processkey, "table"), 0)
TSkip == l <= Len(Trace) /\ Line.ev \notin {"Str", "Par", "Res", "Rnd", "Table"} /\ Step(0, 0)    \* "Corner" measurements

TraceInit == l = 1 /\ nviol = 0 /\ ndrift = 0
TraceNext == TStr \/ TPar \/ TRes \/ TRnd \/ TTable \/ TSkip
TraceSpec == TraceInit /\ [][TraceNext]_tvars

Done == l = Len(Trace) + 1
PrintEnd == Done => PrintT(<<"END", Len(Trace), nviol, ndrift>>)
=============================================================================
