-------------------------- MODULE RoleTreeAlgebra --------------------------
(* The algebra behind C11, decided by exhaustive evaluation (no behaviour):   *)
(* besides commutativity / associativity / absorbing elements (ASSUMEd in     *)
(* RoleTree), the left folds the code computes do not depend on the order in  *)
(* which children are listed: all permutations of up to 4 children, over the  *)
(* full carriers.                                                             *)
EXTENDS RoleTree

Perms(n) == {p \in [1..n -> 1..n] : \A i, j \in 1..n : i # j => p[i] # p[j]}

RECURSIVE LFoldS(_, _, _)
LFoldS(xs, i, acc) == IF i > Len(xs) THEN acc ELSE LFoldS(xs, i + 1, XS(acc, xs[i]))
RECURSIVE LFoldT(_, _, _)
LFoldT(xs, i, acc) == IF i > Len(xs) THEN acc ELSE LFoldT(xs, i + 1, XT(acc, xs[i]))

PermStateOK(n) ==
  \A xs \in [1..n -> States] : \A p \in Perms(n) :
     LFoldS(xs, 1, "INVARIANT") = LFoldS([i \in 1..n |-> xs[p[i]]], 1, "INVARIANT")
PermStatusOK(n) ==
  \A xs \in [1..n -> Statuses] : \A p \in Perms(n) :
     LFoldT(xs, 2, xs[1]) = LFoldT([i \in 1..n |-> xs[p[i]]], 2, xs[p[1]])

ASSUME \A n \in 1..4 : PermStateOK(n)
ASSUME \A n \in 1..4 : PermStatusOK(n)
\* the shape table, for the YAML generator of the check (single source: the specification)
ASSUME \A s \in DOMAIN Shapes : PrintT(<<"SHAPE", s, Shapes[s].parent, Shapes[s].kind, Shapes[s].crit, Shapes[s].src>>)
\* ... the sibling groups rendered as one iterator
ASSUME \A s \in DOMAIN Iterated : PrintT(<<"ITER", s, Iterated[s]>>)
\* ... and the templates with disabled roles the pruned ones are loaded from
ASSUME \A s \in DOMAIN Sources :
         PrintT(<<"SOURCE", s, Sources[s].parent, Sources[s].kind, Sources[s].crit, Sources[s].en>>)
ASSUME PrintT(<<"ALGEBRA", Cardinality(States), Cardinality(Statuses),
                Cardinality([1..4 -> States]) * Cardinality(Perms(4)),
                Cardinality([1..4 -> Statuses]) * Cardinality(Perms(4))>>)
=============================================================================
