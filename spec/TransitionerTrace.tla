------------------------- MODULE TransitionerTrace -------------------------
(***************************************************************************)
(* Trace specification binding spec/Transitioner.tla to recorded calls of  *)
(* the real Transitioner.Commit (harness/cmd/transitioner).                *)
(*                                                                         *)
(* One TLC run validates all recorded calls (separated by "Reset" lines):   *)
(*  - conformance (strict): every recorded device request must be the       *)
(*    request the model's algorithm issues at that point (event, SrcState,  *)
(*    expected state), the device's reaction and reply must be the model's  *)
(*    for the scripted outcome, the (state, err) returned by DoTransition   *)
(*    must be what the acceptance rule of the model gives, and Commit must  *)
(*    return the model's (final, err) with the device in the model's state. *)
(*    A mismatch prints a DRIFT record; the rest of that call is only       *)
(*    monitored;                                                           *)
(*  - the monitor: independent of the model state, the property formulas    *)
(*    of Transitioner.tla (TruthfulF, SuccessF, RollbackF, AcceptF) are     *)
(*    evaluated on the recorded facts when Commit returns; a failure prints *)
(*    a VIOL record (soft invariant) and validation goes on.                *)
(***************************************************************************)
EXTENDS Transitioner, Integers, Json, IOUtils

Trace == ndJsonDeserialize(IOEnv.TRACE_FILE)

VARIABLES l,      \* next line of Trace
          mode,   \* "ok" | "lost"
          scn,    \* current scenario id
          hdr,    \* monitor: the Reset line of the current call
          mlog,   \* monitor: the recorded device requests of the current call
          nviol   \* number of soft violations so far

tvars == <<l, mode, scn, hdr, mlog, nviol>>
allvars == <<vars, tvars>>

Line == Trace[l]

Soft(name, cond, detail) ==
  IF cond THEN 0
  ELSE IF PrintT(<<"VIOL", name, scn, l, detail>>) THEN 1 ELSE 1

\* a recorded device request in the shape of a model log entry
Fact(x) ==
  [ev |-> x.rev, src |-> x.rsrc, dst |-> x.rdst, before |-> x.before, out |-> x.out, after |-> x.after,
   transport |-> x.transport, ok |-> x.ok, trig |-> x.trig, revent |-> x.revent,
   state |-> x.state, rstate |-> x.rstate, rerr |-> x.rerr]

(* --- conformance --- *)
StepMatched ==
  /\ Step(Line.out)
  /\ log'[Len(log')] = Fact(Line)
  /\ Line.gev = Line.rev /\ Line.gsrc = Line.rsrc     \* what the device received is what was asked

ReturnMatched ==
  /\ \/ Noop
     \/ pc.a = "done" /\ UNCHANGED vars
  /\ final' = Line.final /\ err' = Line.err /\ dev' = Line.dev
  /\ Line.nreq = Len(log')

(* --- steps --- *)
IsStep == Line.ev = "Step"
IsReturn == Line.ev = "Return"

MonStep == mlog' = Append(mlog, Fact(Line)) /\ UNCHANGED <<hdr, nviol>>

MonReturn ==
  LET rq == [evt |-> hdr.evt, src |-> hdr.src, dst |-> hdr.dst]
      last == IF mlog = <<>> THEN "none" ELSE mlog[Len(mlog)].out
      sig == <<Len(mlog), last, Line.final, Line.err, Line.dev>>
  IN /\ nviol' = nviol
          + Soft("Truthful", TruthfulF(hdr.kind, Line.final, Line.dev, mlog), sig)
          + Soft("SuccessMeansThere", SuccessF(hdr.kind, Line.err, Line.dev, rq), sig)
          + Soft("Rollback", RollbackF(hdr.kind, rq, hdr.dev0, Line.dev, mlog), sig)
          + Soft("AcceptRule", AcceptF(Line.err, mlog), sig)
          + Soft("ResponseFaithful", Line.resp_state = Line.final /\ Line.resp_err = Line.err /\ Line.panic = "", sig)
          + Soft("DeviceAsked", \A i \in 1..Len(mlog) : mlog[i].out # "nocall", sig)
     /\ UNCHANGED <<hdr, mlog>>

TStepOk ==
  /\ l <= Len(Trace) /\ IsStep /\ mode = "ok"
  /\ StepMatched /\ MonStep
  /\ l' = l + 1 /\ UNCHANGED <<mode, scn>>

TStepDrift ==
  /\ l <= Len(Trace) /\ IsStep /\ mode = "ok"
  /\ ~ENABLED StepMatched
  /\ PrintT(<<"DRIFT", scn, l, Line.ev>>)
  /\ MonStep
  /\ mode' = "lost" /\ l' = l + 1 /\ UNCHANGED <<vars, scn>>

TStepLost ==
  /\ l <= Len(Trace) /\ IsStep /\ mode = "lost"
  /\ MonStep
  /\ l' = l + 1 /\ UNCHANGED <<vars, mode, scn>>

TReturnOk ==
  /\ l <= Len(Trace) /\ IsReturn /\ mode = "ok"
  /\ ReturnMatched /\ MonReturn
  /\ l' = l + 1 /\ UNCHANGED <<mode, scn>>

TReturnDrift ==
  /\ l <= Len(Trace) /\ IsReturn /\ mode = "ok"
  /\ ~ENABLED ReturnMatched
  /\ PrintT(<<"DRIFT", scn, l, Line.ev>>)
  /\ MonReturn
  /\ mode' = "lost" /\ l' = l + 1 /\ UNCHANGED <<vars, scn>>

TReturnLost ==
  /\ l <= Len(Trace) /\ IsReturn /\ mode = "lost"
  /\ MonReturn
  /\ l' = l + 1 /\ UNCHANGED <<vars, mode, scn>>

TReset ==
  /\ l <= Len(Trace) /\ Line.ev = "Reset"
  /\ LET rq == [evt |-> Line.evt, src |-> Line.src, dst |-> Line.dst] IN
       /\ kind' = Line.kind /\ req' = rq /\ dev0' = Line.dev0 /\ strict' = Line.strict
       /\ dev' = Line.dev0 /\ pc' = Start(Line.kind, rq)
       /\ st' = "" /\ err' = FALSE /\ final' = "" /\ log' = <<>>
  /\ mode' = "ok" /\ scn' = Line.scn /\ hdr' = Line /\ mlog' = <<>>
  /\ l' = l + 1 /\ UNCHANGED nviol

TraceInit ==
  /\ kind = "fairmq" /\ req = Rq("START", "CONFIGURED", "RUNNING") /\ dev0 = "READY" /\ strict = FALSE
  /\ dev = "READY" /\ pc = Pc("done", 0) /\ st = "" /\ err = FALSE /\ final = "" /\ log = <<>>
  /\ l = 1 /\ mode = "lost" /\ scn = -1 /\ hdr = [kind |-> "fairmq"] /\ mlog = <<>> /\ nviol = 0

TraceNext == TStepOk \/ TStepDrift \/ TStepLost \/ TReturnOk \/ TReturnDrift \/ TReturnLost \/ TReset

TraceSpec == TraceInit /\ [][TraceNext]_allvars

\* acceptance: the whole file was consumed
Done == l = Len(Trace) + 1
PrintEnd == Done => PrintT(<<"END", Len(Trace), nviol>>)
=============================================================================
