------------------------------- MODULE OdcRun -------------------------------
(***************************************************************************)
(* Beyond the listed properties (DESIGN.md section 5), X07: the EPN         *)
(* partition lifecycle the ODC integration plugin drives on ODC.            *)
(*   core/integration/odc/plugin.go CallStack, handlers.go: each hook is a  *)
(*   fixed sequence of ODC gRPC calls (partition id = environment id):      *)
(*     PartitionInitialize   Run (Initialize+Submit+Activate)               *)
(*     Configure             SetProperties, Configure                       *)
(*     Start                 SetProperties, Start      (both with the run)  *)
(*     Stop                  SetProperties, Stop       (a failed             *)
(*                           SetProperties is logged and ignored)           *)
(*     Reset                 Reset                                          *)
(*     PartitionTerminate    Terminate, Shutdown - only if the variable      *)
(*                           __odc_partitioninitialize_called is set         *)
(*     EnsureCleanup         Status, then Shutdown - in parallel - for every *)
(*                           partition ODC lists that is no environment of   *)
(*                           the manager, and for the caller "just in case"; *)
(*                           Shutdown errors are dropped                     *)
(*     EnsureCleanupLegacy   Reset, Terminate, Shutdown, all errors dropped  *)
(*   A call fails on a gRPC error, on reply.error or on reply.status #       *)
(*   SUCCESS; no hook ever looks at the state ODC reports.                   *)
(*   plugin.go queryPartitionStatus (polling goroutine): Status, GetState    *)
(*   per partition, cachedStatus := the answer; for a partition that was in   *)
(*   the previous cache - if that cache was a SUCCESS answer - with another   *)
(*   state: NotifyIntegratedServiceEvent(OdcPartitionStateChangeEvent) to     *)
(*   the environment manager (which acts on ERROR of a RUNNING environment). *)
(* ODC as the fake keeps it: partition -> none | IDLE | READY | RUNNING |     *)
(* EXITING | ERROR; Run: none -> IDLE; Configure: IDLE -> READY; Start: READY *)
(* -> RUNNING; Stop: RUNNING -> READY; Reset: READY -> IDLE; Terminate: IDLE  *)
(* -> EXITING; Shutdown: anything but none -> none; SetProperties needs a     *)
(* live session; anything else is refused (status ERROR); a device may crash  *)
(* (Fail: IDLE | READY | RUNNING -> ERROR).                                   *)
(* One action per gRPC call, outcome f: none (ODC decides) | rc (refused) |   *)
(* err (gRPC error, no effect) | lost (executed, reply is a gRPC error).      *)
(* Left out: ObjectStack (script generation), the contents of resources /     *)
(* topology / properties, device lists and the deviceStateChanged events,      *)
(* ecsState, PreDeploymentCleanup (EnsureCleanup without the caller).          *)
(***************************************************************************)
EXTENDS Naturals, FiniteSets, Sequences, TLC

CONSTANTS Envs, MaxRun, MaxFaults, MaxOwn, MaxPolls, MaxCleanups,
          Code_StopIgnoresSetProperties,
              \* handleStop: "setProperties call to ODC failed. will continue with odc.Stop" - the hook goes on and may succeed
          Code_CleanupClobbersErrors,
              \* handleCleanup / handleCleanupLegacy: "We clobber the error because nothing can be done for a failed cleanup" - the
              \* hook succeeds although a Shutdown (Reset, Terminate) failed and the partition is still there
          Code_NoStateCheck,
              \* no hook consults the state of the partition (neither GetState nor the cache): Start is sent for a partition that is
              \* not READY (after a Configure that failed in a non-critical hook, after a crash)
          Code_CleanupShutsDownAgain,
              \* EnsureCleanup adds the caller's partition "just in case", EnsureCleanupLegacy asks nobody: Shutdown is sent for a
              \* session that was shut down already
          Code_FailedPollWipesCache,
              \* queryPartitionStatus stores an empty, non-SUCCESS cachedStatus when the Status call fails: the next poll has nothing to
              \* compare with, and a partition that went to ERROR meanwhile is never reported to the environment manager
          Code_FirstSightingSilent
              \* a partition the cache does not hold yet is recorded without any event: one that is already in ERROR at its first
              \* sighting (created and crashed between two polls) is never reported

OdcStates == {"none", "IDLE", "READY", "RUNNING", "EXITING", "ERROR"}
Fs == {"none", "rc", "err", "lost"}
NoEnv == "-"
Cleanups == {"EnsureCleanup", "EnsureCleanupLegacy"}

VARIABLES
  odc,      \* ODC: odc[p] = state of partition p
  ph,       \* the environment: new | inited | conf | run | done | err | gone
  rn,       \* its run number (0 = none)
  nextrun,
  pinit,    \* pinit[e]: __odc_partitioninitialize_called is set in the environment
  hook,     \* hook[e]: the invocation in progress: [fn, todo, tgts, bad], or NoHook
  pc,       \* poller: idle (Status under way) | snap (Status answered, GetState calls under way)
  snap,     \* the Status answer in hand: [ok, st]
  cache,    \* cachedStatus: [has, ok, st]; st[p] = state or "-"
  seen,     \* (history) seen[p]: the state of p in the last SUCCESSFUL poll ("-" = not listed, or never polled)
  shut,     \* (history) partitions whose last Shutdown succeeded and that were not Run since
  nf, nown, npoll, nclean,
  last      \* (history) the step just taken

vars == <<odc, ph, rn, nextrun, pinit, hook, pc, snap, cache, seen, shut, nf, nown, npoll, nclean, last>>

NoHook == [fn |-> "none"]
None == [p \in Envs |-> "-"]
NoStep == [kind |-> "none", e |-> NoEnv, fn |-> "none", m |-> "none", p |-> NoEnv, runnr |-> 0, f |-> "none", res |-> "none", before |-> "none",
           ok |-> TRUE, bad |-> FALSE, afterfail |-> FALSE, wasshut |-> FALSE, plive |-> FALSE, notes |-> {}, snapst |-> None, snapok |-> FALSE,
           prevseen |-> None, rdy |-> FALSE]

Init ==
  /\ odc = [p \in Envs |-> "none"] /\ ph = [e \in Envs |-> "new"] /\ rn = [e \in Envs |-> 0] /\ nextrun = 1
  /\ pinit = [e \in Envs |-> FALSE] /\ hook = [e \in Envs |-> NoHook]
  /\ pc = "idle" /\ snap = [ok |-> FALSE, st |-> None] /\ cache = [has |-> FALSE, ok |-> FALSE, st |-> None]
  /\ seen = None /\ shut = {} /\ nf = 0 /\ nown = 0 /\ npoll = 0 /\ nclean = 0 /\ last = NoStep

Idle(e) == hook[e].fn = "none"
FaultOk(f) == f \in Fs /\ (f # "none" => nf < MaxFaults)
Cnt(f) == IF f = "none" THEN nf ELSE nf + 1

(* ------------------------------ ODC ------------------------------ *)
Legal(m, p) ==
  CASE m = "Run" -> odc[p] = "none"
    [] m = "SetProperties" -> odc[p] \in {"IDLE", "READY", "RUNNING"}
    [] m = "Configure" -> odc[p] = "IDLE"
    [] m = "Start" -> odc[p] = "READY"
    [] m = "Stop" -> odc[p] = "RUNNING"
    [] m = "Reset" -> odc[p] = "READY"
    [] m = "Terminate" -> odc[p] = "IDLE"
    [] m = "Shutdown" -> odc[p] # "none"
    [] OTHER -> TRUE          \* Status
Target(m, p) ==
  CASE m = "Run" -> "IDLE" [] m = "Configure" -> "READY" [] m = "Start" -> "RUNNING" [] m = "Stop" -> "READY" [] m = "Reset" -> "IDLE"
    [] m = "Terminate" -> "EXITING" [] m = "Shutdown" -> "none" [] OTHER -> odc[p]
Executes(m, p, f) == Legal(m, p) /\ f \in {"none", "lost"}
Result(m, p, f) == IF f \in {"err", "lost"} THEN "err" ELSE IF f = "rc" \/ ~Legal(m, p) THEN "rc" ELSE "ok"
OdcAfter(m, p, f) == IF Executes(m, p, f) THEN [odc EXCEPT ![p] = Target(m, p)] ELSE odc
ShutAfter(m, p, f) == IF m = "Shutdown" /\ Result(m, p, f) = "ok" THEN shut \cup {p} ELSE IF m = "Run" /\ Executes(m, p, f) THEN shut \ {p} ELSE shut
Listing == [p \in Envs |-> IF odc[p] = "none" THEN "-" ELSE odc[p]]

Fail(p) ==
  /\ odc[p] \in {"IDLE", "READY", "RUNNING"} /\ nown < MaxOwn
  /\ odc' = [odc EXCEPT ![p] = "ERROR"] /\ nown' = nown + 1 /\ last' = [NoStep EXCEPT !.kind = "own", !.p = p]
  /\ UNCHANGED <<ph, rn, nextrun, pinit, hook, pc, snap, cache, seen, shut, nf, npoll, nclean>>

(* ------------------------------ the environment ------------------------------ *)
NewRun(e) ==
  /\ ph[e] = "conf" /\ rn[e] = 0 /\ Idle(e) /\ nextrun <= MaxRun
  /\ rn' = [rn EXCEPT ![e] = nextrun] /\ nextrun' = nextrun + 1 /\ last' = [NoStep EXCEPT !.kind = "ecs", !.e = e, !.fn = "NewRun", !.runnr = nextrun]
  /\ UNCHANGED <<odc, ph, pinit, hook, pc, snap, cache, seen, shut, nf, nown, npoll, nclean>>
GoError(e) ==
  /\ ph[e] \in {"new", "inited", "conf", "run"} /\ Idle(e)
  /\ ph' = [ph EXCEPT ![e] = "err"] /\ last' = [NoStep EXCEPT !.kind = "ecs", !.e = e, !.fn = "GoError"]
  /\ UNCHANGED <<odc, rn, nextrun, pinit, hook, pc, snap, cache, seen, shut, nf, nown, npoll, nclean>>
Destroy(e) ==
  /\ ph[e] \in {"new", "done", "err"} /\ Idle(e)
  /\ ph' = [ph EXCEPT ![e] = "gone"] /\ last' = [NoStep EXCEPT !.kind = "ecs", !.e = e, !.fn = "Destroy"]
  /\ UNCHANGED <<odc, rn, nextrun, pinit, hook, pc, snap, cache, seen, shut, nf, nown, npoll, nclean>>

(* ------------------------------ the hooks ------------------------------ *)
SeqOf(e, fn) ==
  CASE fn = "PartitionInitialize" -> <<"Run">>
    [] fn = "Configure" -> <<"SetProperties", "Configure">>
    [] fn = "Start" -> <<"SetProperties", "Start">>
    [] fn = "Stop" -> <<"SetProperties", "Stop">>
    [] fn = "Reset" -> <<"Reset">>
    [] fn = "PartitionTerminate" -> IF pinit[e] THEN <<"Terminate", "Shutdown">> ELSE <<>>
    [] fn = "EnsureCleanup" -> <<"Status">>
    [] fn = "EnsureCleanupLegacy" -> IF Code_CleanupShutsDownAgain \/ odc[e] # "none" THEN <<"Reset", "Terminate", "Shutdown">> ELSE <<>>
    [] OTHER -> <<>>
PhaseOk(e, fn) ==
  CASE fn = "PartitionInitialize" -> ph[e] = "new"
    [] fn = "Configure" -> ph[e] = "inited"
    [] fn = "Start" -> ph[e] = "conf" /\ rn[e] # 0
    [] fn = "Stop" -> ph[e] = "run"
    [] fn = "Reset" -> ph[e] = "conf" /\ rn[e] = 0
    [] fn = "PartitionTerminate" -> ph[e] \in {"new", "inited"}
    [] fn \in Cleanups -> ph[e] # "gone" /\ nclean < MaxCleanups
    [] OTHER -> FALSE
After(e, fn, ok, c) ==
  IF fn \in Cleanups THEN ph[e]
  ELSE IF ~ok /\ c = "err" THEN "err"
  ELSE CASE fn = "PartitionInitialize" -> "inited" [] fn = "Configure" -> "conf" [] fn = "Start" -> "run" [] fn = "Stop" -> "conf"
         [] fn = "Reset" -> "inited" [] fn = "PartitionTerminate" -> "done" [] OTHER -> ph[e]
\* is a failure of method m dropped by hook fn (the sequence goes on)?
Goes(fn, m) == (fn = "Stop" /\ m = "SetProperties" /\ Code_StopIgnoresSetProperties) \/ fn \in Cleanups
\* does the hook report the failures it went past?
Reports(fn) == IF fn = "Stop" THEN ~Code_StopIgnoresSetProperties ELSE IF fn \in Cleanups THEN ~Code_CleanupClobbersErrors ELSE TRUE
RunOf(e, m) == IF m \in {"SetProperties", "Start", "Stop"} THEN rn[e] ELSE 0

\* the hook returns
Ret(e, fn, ok, bad, c, rec) ==
  /\ last' = [rec EXCEPT !.kind = "ret", !.ok = ok, !.bad = bad]
  /\ ph' = [ph EXCEPT ![e] = After(e, fn, ok, c)]
  /\ rn' = IF fn = "Stop" /\ After(e, fn, ok, c) = "conf" THEN [rn EXCEPT ![e] = 0] ELSE rn       \* (the run is over)
  /\ hook' = [hook EXCEPT ![e] = NoHook]

\* one call of hook fn of e: method m for partition p with outcome f; rest = what the sequence still holds; bad = a call failed before
Call(e, fn, m, p, f, rest, tgts, bad, c) ==
  LET res == Result(m, p, f)
      failed == res # "ok"
      bad2 == bad \/ failed
      rdy == IF Idle(e) THEN odc[e] = "READY" ELSE hook[e].rdy      \* the partition was READY when the hook was invoked
      rec == [NoStep EXCEPT !.kind = "req", !.rdy = rdy, !.e = e, !.fn = fn, !.m = m, !.p = p, !.runnr = RunOf(e, m), !.f = f, !.res = res, !.before = odc[p],
                            !.afterfail = bad, !.wasshut = p \in shut, !.plive = ph[p] # "gone", !.bad = bad2]
      \* EnsureCleanup: the Status answer decides the Shutdowns
      tg == IF fn = "EnsureCleanup" /\ m = "Status" /\ ~failed
              THEN {q \in Envs : odc[q] # "none" /\ ph[q] = "gone"} \cup (IF Code_CleanupShutsDownAgain \/ odc[e] # "none" THEN {e} ELSE {})
              ELSE tgts
      stop == failed /\ (~Goes(fn, m) \/ (fn = "EnsureCleanup" /\ m = "Status"))
      done == stop \/ (rest = <<>> /\ tg = {})
  IN /\ FaultOk(f) /\ c \in {"go", "err"}
     /\ odc' = OdcAfter(m, p, f) /\ shut' = ShutAfter(m, p, f) /\ nf' = Cnt(f)
     /\ pinit' = IF m = "Run" THEN [pinit EXCEPT ![e] = TRUE] ELSE pinit      \* set right before the Run call is made
     /\ IF done THEN Ret(e, fn, IF stop THEN FALSE ELSE (~bad2 \/ ~Reports(fn)), bad2, c, rec)
        ELSE /\ last' = rec /\ hook' = [hook EXCEPT ![e] = [fn |-> fn, todo |-> rest, tgts |-> tg, bad |-> bad2, rdy |-> rdy]] /\ UNCHANGED <<ph, rn>>

\* a hook is invoked and makes its first call (or returns at once)
HookCall(e, fn, f, c) ==
  /\ Idle(e) /\ PhaseOk(e, fn) /\ c \in {"go", "err"}
  /\ LET s == SeqOf(e, fn)
         blocked == fn = "Start" /\ ~Code_NoStateCheck /\ odc[e] # "READY"      \* repaired design only: nothing is sent, the hook fails
     IN IF s = <<>> \/ blocked
          THEN /\ f = "none"
               /\ Ret(e, fn, ~blocked, blocked, c, [NoStep EXCEPT !.e = e, !.fn = fn])
               /\ UNCHANGED <<odc, shut, nf, pinit>>
          ELSE Call(e, fn, Head(s), e, f, Tail(s), {}, FALSE, c)
  /\ nclean' = IF fn \in Cleanups THEN nclean + 1 ELSE nclean
  /\ UNCHANGED <<nextrun, pc, snap, cache, seen, nown, npoll>>

\* the next call of the sequence
NextCall(e, f, c) ==
  /\ ~Idle(e) /\ hook[e].todo # <<>>
  /\ LET h == hook[e] IN Call(e, h.fn, Head(h.todo), e, f, Tail(h.todo), h.tgts, h.bad, c)
  /\ UNCHANGED <<nextrun, pc, snap, cache, seen, nown, npoll, nclean>>

\* EnsureCleanup: one of the parallel Shutdowns
CleanShutdown(e, p, f, c) ==
  /\ ~Idle(e) /\ hook[e].todo = <<>> /\ p \in hook[e].tgts
  /\ LET h == hook[e] IN Call(e, h.fn, "Shutdown", p, f, <<>>, h.tgts \ {p}, h.bad, c)
  /\ UNCHANGED <<nextrun, pc, snap, cache, seen, nown, npoll, nclean>>

(* ------------------------------ the polling goroutine ------------------------------ *)
PollQuery(f) ==
  /\ pc = "idle" /\ npoll < MaxPolls /\ f \in {"none", "err"} /\ (f = "err" => nf < MaxFaults)
  /\ snap' = [ok |-> f = "none", st |-> IF f = "none" THEN Listing ELSE None] /\ pc' = "snap" /\ nf' = Cnt(f) /\ npoll' = npoll + 1
  /\ last' = [NoStep EXCEPT !.kind = "pollq", !.f = f]
  /\ UNCHANGED <<odc, ph, rn, nextrun, pinit, hook, cache, seen, shut, nown, nclean>>

\* the GetState answers are in: cachedStatus is replaced, state changes are reported
PollStore ==
  /\ pc = "snap"
  /\ LET cmp == cache.has /\ cache.ok                         \* there is something to compare with
         changed == {p \in Envs : cmp /\ snap.st[p] # "-" /\ cache.st[p] # "-" /\ cache.st[p] # snap.st[p]}
         first == {p \in Envs : ~Code_FirstSightingSilent /\ snap.st[p] = "ERROR" /\ (~cmp \/ cache.st[p] = "-")}
         keep == ~snap.ok /\ ~Code_FailedPollWipesCache        \* repaired design: a failed poll leaves the cache alone
     IN /\ cache' = IF keep THEN cache ELSE [has |-> TRUE, ok |-> snap.ok, st |-> snap.st]
        /\ seen' = IF snap.ok THEN snap.st ELSE seen
        /\ last' = [NoStep EXCEPT !.kind = "polls", !.notes = {<<p, snap.st[p]>> : p \in IF keep THEN {} ELSE changed \cup first},
                                  !.snapst = snap.st, !.snapok = snap.ok, !.prevseen = seen]
  /\ pc' = "idle"
  /\ UNCHANGED <<odc, ph, rn, nextrun, pinit, hook, snap, shut, nf, nown, npoll, nclean>>

Fns == {"PartitionInitialize", "Configure", "Start", "Stop", "Reset", "PartitionTerminate", "EnsureCleanup", "EnsureCleanupLegacy"}
EnvNext(e) == \/ \E fn \in Fns, f \in Fs, c \in {"go", "err"} : HookCall(e, fn, f, c)
              \/ \E f \in Fs, c \in {"go", "err"} : NextCall(e, f, c) \/ (\E p \in Envs : CleanShutdown(e, p, f, c))
              \/ NewRun(e) \/ GoError(e) \/ Destroy(e) \/ Fail(e)
Next == (\E e \in Envs : EnvNext(e)) \/ (\E f \in {"none", "err"} : PollQuery(f)) \/ PollStore
Spec == Init /\ [][Next]_vars

(* ------------------------------ what the GUI is shown ------------------------------ *)
GetData == IF cache.has /\ cache.ok THEN cache.st ELSE None

(* ------------------------------ properties ------------------------------ *)
TypeOK == /\ \A e \in Envs : odc[e] \in OdcStates /\ ph[e] \in {"new", "inited", "conf", "run", "done", "err", "gone"} /\ rn[e] \in 0..MaxRun
          /\ pc \in {"idle", "snap"} /\ nf <= MaxFaults /\ nown <= MaxOwn
Returned == last.kind = "ret"
Sent == last.kind \in {"req", "ret"} /\ last.m # "none"
\* a hook succeeds iff every call of its sequence succeeded
OkImpliesCallsOk == (Returned /\ last.ok) => ~last.bad
CallsOkImpliesOk == (Returned /\ ~last.bad) => last.ok
StopOkImpliesPropsSet == (Returned /\ last.fn = "Stop" /\ last.ok) => ~last.bad
\* a failed call stops the sequence (the cleanup hooks rightly try everything)
FailStopsSequence == (Sent /\ last.fn \notin Cleanups) => ~last.afterfail
\* after a cleanup that succeeded, and after a PartitionTerminate that sent its calls and succeeded, nothing of the environment is left in ODC
CleanupLeavesNothing == (Returned /\ last.fn \in Cleanups /\ last.ok) => odc[last.e] = "none"
TerminateLeavesNothing == (Returned /\ last.fn = "PartitionTerminate" /\ last.ok /\ last.m # "none") => odc[last.e] = "none"
\* Start only for a partition that was READY when the Start hook was invoked
StartOnlyReady == (Sent /\ last.m = "Start") => last.rdy
\* Shutdown at most once per session
ShutdownAtMostOnce == (Sent /\ last.m = "Shutdown") => ~last.wasshut
\* every request names the caller's partition (a cleanup: or one of no living environment) and, where a run is concerned, its number
RequestNamesCaller == Sent => /\ (last.p = last.e \/ (last.fn = "EnsureCleanup" /\ last.m = "Shutdown" /\ ~last.plive))
                              /\ (last.m \in {"SetProperties", "Start", "Stop"} => last.runnr = rn[last.e] \/ last.fn = "Stop")
\* state changes are reported for the partition they belong to, with the state the poll found, and only if it differs from the cached one
NotifyOnlyOnChange == last.kind = "polls" => \A n \in last.notes : last.snapst[n[1]] = n[2] /\ last.prevseen[n[1]] # n[2]
\* a partition found in ERROR that was not in ERROR when it was last seen is reported ...
NotifyAcrossFailedPoll == (last.kind = "polls" /\ last.snapok) =>
   \A p \in Envs : (last.snapst[p] = "ERROR" /\ last.prevseen[p] \notin {"-", "ERROR"}) => <<p, "ERROR">> \in last.notes
\* ... also if it was never seen before
NotifyOnFirstSighting == (last.kind = "polls" /\ last.snapok) =>
   \A p \in Envs : (last.snapst[p] = "ERROR" /\ last.prevseen[p] = "-") => <<p, "ERROR">> \in last.notes
\* the cache is what the last poll answered
CacheFaithful == (last.kind = "polls" /\ last.snapok) => (cache.has /\ cache.ok /\ cache.st = last.snapst)

(* ------------------------------ witnesses ------------------------------ *)
ASSUME \A k \in 1..8 : TLCSet(k, 0)
Once(k, P) == P \/ TLCGet(k) = 1 \/ (TLCSet(k, 1) /\ FALSE)
W_StopOkImpliesPropsSet == Once(1, StopOkImpliesPropsSet)
W_CleanupLeavesNothing == Once(2, CleanupLeavesNothing)
W_StartOnlyReady == Once(3, StartOnlyReady)
W_ShutdownAtMostOnce == Once(4, ShutdownAtMostOnce)
W_NotifyAcrossFailedPoll == Once(5, NotifyAcrossFailedPoll)
W_NotifyOnFirstSighting == Once(6, NotifyOnFirstSighting)
=============================================================================
