--------------------------- MODULE RunStartTrace ----------------------------
(***************************************************************************)
(* Trace specification for C07 (environment level) over runs of the real    *)
(* core against the simulated Consul (harness/cmd/coresim + ext_c07.go).    *)
(* Lines (projected by lib/props/C07.py):                                   *)
(*   Reset{scn}                                                             *)
(*   Kv{val}                 value of the counter key when the scenario starts *)
(*   Begin{env, op}          ControlEnvironment request sent (START/STOP)   *)
(*   Cas{val, ok}            a CAS write of the counter key, at its          *)
(*                           linearization point in the KV store             *)
(*   Foreign{val}            another writer moved the counter                *)
(*   Fault{on}               the counter service is made to fail / works     *)
(*   Hook{env, tm, rn}       a hook (trigger tm) sees run_number             *)
(*   Reply{env, op, code, st, rn, doom}  doom = a later step was made to fail *)
(*   End                                                                    *)
(* Strict part: the model's variables are stepped with the recorded facts   *)
(* (counter = RunStart's ctr: a successful CAS writes ctr+1; environment     *)
(* states; the reply is the predicted one).  Monitor (soft invariants on     *)
(* what the core answered, independent of the model): EnvUnique,             *)
(* EnvIncreasing, FromCounter, HookSeesOwn, FailedStartNotRunning.           *)
(***************************************************************************)
EXTENDS RunStart, Integers, Json, IOUtils, TLC

Trace == ndJsonDeserialize(IOEnv.TRACE_FILE)

VARIABLES l, scn, cas, from, floor, given, nviol, lost, ovl, ok0
tvars == <<l, scn, cas, from, floor, given, nviol, lost, ovl, ok0>>
Line == Trace[l]
Soft(name, cond, detail) == IF cond THEN 0 ELSE IF PrintT(<<"VIOL", name, scn, l, detail>>) THEN 1 ELSE 1
Drift(detail) == PrintT(<<"DRIFT", scn, l, detail>>)
MaxOf(S) == IF S = {} THEN 0 ELSE CHOOSE x \in S : \A y \in S : y <= x
\* successful CAS values written since index i
Since(i) == {cas[j] : j \in (i + 1)..Len(cas)}
E(a) == a

TReset ==
  /\ Line.ev = "Reset"
  /\ scn' = Line.scn /\ cas' = <<>> /\ given' = {} /\ lost' = FALSE
  /\ from' = [e \in Envs |-> -1] /\ floor' = [e \in Envs |-> 0]
  /\ ctr' = 0 /\ fault' = FALSE /\ est' = [e \in Envs |-> "CONFIGURED"] /\ cur' = [e \in Envs |-> 0]
  /\ got' = [e \in Envs |-> FALSE] /\ raced' = [e \in Envs |-> FALSE] /\ log' = <<>>
  /\ ovl' = [e \in Envs |-> FALSE] /\ ok0' = [e \in Envs |-> FALSE]
  /\ UNCHANGED nviol

TKv == /\ Line.ev = "Kv" /\ ctr' = Line.val
       /\ UNCHANGED <<fault, est, cur, got, raced, log, scn, cas, from, floor, given, nviol, lost, ovl, ok0>>

TBegin ==
  /\ Line.ev = "Begin"
  /\ LET e == E(Line.env) IN
     IF Line.op = "START_ACTIVITY"
       THEN /\ from' = [from EXCEPT ![e] = Len(cas)] /\ floor' = [floor EXCEPT ![e] = MaxOf(given)]
            \* startable: RunStart.BeginStart is enabled; overlapping: another START is in flight (either may lose the CAS)
            /\ ok0' = [ok0 EXCEPT ![e] = (est[e] = "CONFIGURED")]
            /\ ovl' = [o \in Envs |-> IF o = e THEN \E x \in Envs \ {e} : est[x] = "STARTING"
                                      ELSE IF est[o] = "STARTING" THEN TRUE ELSE ovl[o]]
            /\ est' = [est EXCEPT ![e] = IF est[e] = "CONFIGURED" THEN "STARTING" ELSE est[e]]
            /\ got' = [got EXCEPT ![e] = FALSE]
       ELSE UNCHANGED <<from, floor, est, got, ovl, ok0>>
  /\ UNCHANGED <<ctr, fault, cur, raced, log, scn, cas, given, nviol, lost>>

\* strict: a successful CAS advances the counter by exactly one (RunStart.Obtain); a refused one changes nothing
TCas ==
  /\ Line.ev = "Cas"
  /\ IF Line.ok
       THEN /\ (IF Line.val = ctr + 1 \/ lost THEN TRUE ELSE Drift(<<"cas", Line.val, ctr>>))
            /\ ctr' = Line.val /\ cas' = Append(cas, Line.val)
       ELSE UNCHANGED <<ctr, cas>>
  /\ UNCHANGED <<fault, est, cur, got, raced, log, scn, from, floor, given, nviol, lost, ovl, ok0>>

TForeign == /\ Line.ev = "Foreign" /\ ctr' = Line.val
            /\ UNCHANGED <<fault, est, cur, got, raced, log, scn, cas, from, floor, given, nviol, lost, ovl, ok0>>
TFault == /\ Line.ev = "Fault" /\ fault' = Line.on
          /\ UNCHANGED <<ctr, est, cur, got, raced, log, scn, cas, from, floor, given, nviol, lost, ovl, ok0>>

\* a hook that runs inside a START attempt sees the number of THIS attempt: one the counter was advanced to since
\* the request was sent
THook ==
  /\ Line.ev = "Hook"
  /\ LET e == E(Line.env) IN
     \* (leave_CONFIGURED also belongs to the GO_ERROR that follows a failed START: no number there)
     nviol' = nviol + (IF est[e] = "STARTING" /\ from[e] >= 0
                         THEN Soft("HookSeesOwn",
                                   /\ (Line.tm = "before_START_ACTIVITY") => Line.rn # 0
                                   /\ (Line.rn # 0) => (Line.rn \in Since(from[e]) /\ Line.rn \notin given),
                                   <<Line.env, Line.tm, Line.rn, Since(from[e])>>)
                         ELSE 0)
  /\ UNCHANGED <<vars, scn, cas, from, floor, given, lost, ovl, ok0>>

TReply ==
  /\ Line.ev = "Reply"
  /\ LET e == E(Line.env)
         ok == Line.code = "OK" /\ Line.st = "RUNNING"
     IN IF Line.op = "START_ACTIVITY"
          THEN /\ (LET \* what RunStart allows for this request: a request on an environment that is not CONFIGURED is refused;
                     \* doom = a later step of the transition is scripted to fail; a faulty counter service fails it; a
                     \* START that overlapped another one may lose the CAS (ObtainFails with raced) or not
                     pred == IF ~ok0[e] \/ Line.doom \/ fault THEN "fail" ELSE IF ovl[e] THEN "any" ELSE "ok"
                IN IF pred = "any" \/ (pred = "ok") = ok THEN TRUE ELSE Drift(<<"reply", Line.env, Line.code, Line.st, pred>>))
               /\ nviol' = nviol
                    + Soft("EnvUnique", ok => Line.rn \notin given, <<Line.env, Line.rn, given>>)
                    + Soft("EnvIncreasing", ok => Line.rn > floor[e], <<Line.env, Line.rn, floor[e]>>)
                    + Soft("FromCounter", ok => (Line.rn # 0 /\ Line.rn \in Since(from[e])), <<Line.env, Line.rn, Since(from[e])>>)
                    + Soft("FailedStartNotRunning", (Line.code # "OK") => Line.st # "RUNNING", <<Line.env, Line.code, Line.st>>)
                    + Soft("NoNumberNoRun", (Since(from[e]) = {}) => ~ok, <<Line.env, Line.code, Line.st, Line.rn>>)
               /\ given' = IF ok THEN given \cup {Line.rn} ELSE given
               /\ est' = [est EXCEPT ![e] = IF ok THEN "RUNNING" ELSE "ERROR"]
               /\ ovl' = [ovl EXCEPT ![e] = FALSE] /\ ok0' = [ok0 EXCEPT ![e] = FALSE]
               /\ cur' = [cur EXCEPT ![e] = IF ok THEN Line.rn ELSE 0]
               /\ got' = [got EXCEPT ![e] = ok]
               /\ log' = IF ok THEN Append(log, [e |-> e, n |-> Line.rn]) ELSE log
               /\ from' = [from EXCEPT ![e] = -1]
               /\ UNCHANGED <<floor>>
          ELSE /\ est' = [est EXCEPT ![e] = IF Line.code = "OK" /\ Line.st = "CONFIGURED" THEN "CONFIGURED" ELSE "ERROR"]
               /\ UNCHANGED <<ovl, ok0>>
               /\ cur' = [cur EXCEPT ![e] = 0] /\ got' = [got EXCEPT ![e] = FALSE]
               /\ nviol' = nviol + Soft("StopClearsNumber", (Line.code = "OK") => Line.rn = 0, <<Line.env, Line.rn>>)
               /\ UNCHANGED <<given, log, from, floor>>
  /\ UNCHANGED <<ctr, fault, raced, scn, cas, lost>>

TOther == /\ Line.ev \notin {"Reset", "Kv", "Begin", "Cas", "Foreign", "Fault", "Hook", "Reply"}
          /\ UNCHANGED <<vars, scn, cas, from, floor, given, nviol, lost, ovl, ok0>>

TraceInit ==
  /\ ctr = 0 /\ fault = FALSE /\ est = [e \in Envs |-> "CONFIGURED"] /\ cur = [e \in Envs |-> 0]
  /\ got = [e \in Envs |-> FALSE] /\ raced = [e \in Envs |-> FALSE] /\ log = <<>>
  /\ ovl = [e \in Envs |-> FALSE] /\ ok0 = [e \in Envs |-> FALSE]
  /\ l = 1 /\ scn = -1 /\ cas = <<>> /\ from = [e \in Envs |-> -1] /\ floor = [e \in Envs |-> 0] /\ given = {} /\ nviol = 0 /\ lost = FALSE
TraceNext ==
  /\ l <= Len(Trace)
  /\ (TReset \/ TKv \/ TBegin \/ TCas \/ TForeign \/ TFault \/ THook \/ TReply \/ TOther)
  /\ l' = l + 1
TraceSpec == TraceInit /\ [][TraceNext]_<<vars, tvars>>
\* the model's invariants on the stepped state: what the core reported is a behaviour with unique, increasing numbers
ModelInv == Unique
PrintEnd == (l = Len(Trace) + 1) => PrintT(<<"END", Len(Trace), nviol>>)
=============================================================================
