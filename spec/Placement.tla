------------------------------ MODULE Placement ------------------------------
(***************************************************************************)
(* C05 - tasks are placed only where constraints and resources allow.       *)
(*                                                                         *)
(* A relational / functional specification of AliECS task placement         *)
(* (AliceO2Group/Control):                                                  *)
(*   core/task/constraint/attributes.go   Attributes.Satisfy                *)
(*   core/task/constraint/constraints.go  Constraints.MergeParent           *)
(*   core/workflow/rolebase.go            roleBase.getConstraints (chain)   *)
(*   core/task/match.go                   BuildDescriptorConstraints,       *)
(*                                        Resources.Satisfy                 *)
(*   core/task/taskclass/port/range.go    RangesFromExpression              *)
(*   core/task/taskclass/resourcewants.go ResourceWants.UnmarshalYAML       *)
(*   core/task/scheduler.go               resourceOffers,                   *)
(*                                        makeTaskForMesosResources         *)
(*                                                                         *)
(* Sections                                                                 *)
(*   1 strings (TLC evaluates SubSeq/Len/\o on strings)                     *)
(*   2 the pure level: ParseRanges, Sat, Merged, Fits - what the property   *)
(*     says - and next to each the *Impl operator: what the code computes,  *)
(*     selected by BOOLEAN deviation constants (Code_...).                  *)
(*   3 the catalogues of pure cases; PureSpec: the states ARE the cases     *)
(*     (TLC enumerates them, PlacementGen prints them, invariants are       *)
(*     checked on every one of them)                                        *)
(*   4 the round level, relational: PlacementOK(offers, descs, obs) = P0-P5 *)
(*   5 the round level, implementation shaped: one OFFERS round as the code *)
(*     runs it (per offer, per descriptor, remaining resources); RoundSpec  *)
(*     explores the rounds of a small catalogue, RoundOK says the outcome   *)
(*     satisfies PlacementOK.  The same operators (RoundStart, OfferResult, *)
(*     FinalOf) are the conformance reference for rounds recorded from the  *)
(*     real core (PlacementTrace).                                          *)
(*                                                                         *)
(* Units: cpu numbers are integers in ONE unit throughout a round/case      *)
(* (the drivers use milli-cores, round(1000*cpus), so that the executor     *)
(* share 0.01 is representable); mem in MB (integer); ports are naturals.   *)
(***************************************************************************)
EXTENDS Integers, Sequences, FiniteSets, TLC

CONSTANTS
  Code_SatisfyLastConstraintOnly, \* attributes.go: `break` inside `switch` leaves only the switch: the verdict is the LAST constraint's
  Code_RangeEndIsBegin,           \* range.go: end parsed from rangeSplit[0]: "a-b" becomes a-a (and a malformed end goes unnoticed)
  Code_NoScalarSubtraction,       \* scheduler.go: cpu/mem of a launched task are not subtracted from the remaining offer
  Code_StaticPortsNotReserved,    \* scheduler.go: static port ranges are requested but not subtracted: a dynamic port can fall inside
  Code_FitsIgnoresPortClasses,    \* match.go counts free ports of any number although makeTask only takes ports >= 9000 / >= 30000
  Code_MinOnEmptyPanics,          \* scheduler.go: Ranges.Min() of no such port: index out of range, the core dies (FALSE: the descriptor is skipped)
  Tier                            \* "quick" | "thorough": size of the catalogues

DataPortMin == 9000     \* scheduler.go: availPorts.Remove({0, 8999})
CtlPortMin  == 30000    \* scheduler.go: availPorts.Remove({0, 29999})

Range(s) == {s[i] : i \in 1..Len(s)}
Min(S) == CHOOSE x \in S : \A y \in S : x <= y

RECURSIVE SumSeq(_)
SumSeq(s) == IF s = <<>> THEN 0 ELSE Head(s) + SumSeq(Tail(s))

(***************************************************************************)
(* 1. Strings                                                               *)
(***************************************************************************)
Ch(s, i) == SubSeq(s, i, i)

RECURSIVE SplitR(_, _, _, _)
SplitR(s, sep, i, start) ==
  IF i > Len(s) THEN <<SubSeq(s, start, Len(s))>>
  ELSE IF Ch(s, i) = sep THEN <<SubSeq(s, start, i - 1)>> \o SplitR(s, sep, i + 1, i + 1)
  ELSE SplitR(s, sep, i + 1, start)
\* strings.Split(s, sep) for a one-character separator; Split("", sep) = <<"">>
Split(s, sep) == SplitR(s, sep, 1, 1)

IsSpace(c) == c = " " \/ c = "\t"
RECURSIVE TrimL(_)
TrimL(s) == IF Len(s) > 0 /\ IsSpace(Ch(s, 1)) THEN TrimL(SubSeq(s, 2, Len(s))) ELSE s
RECURSIVE TrimR(_)
TrimR(s) == IF Len(s) > 0 /\ IsSpace(Ch(s, Len(s))) THEN TrimR(SubSeq(s, 1, Len(s) - 1)) ELSE s
Trim(s) == TrimR(TrimL(s))

DigitVal == ("0" :> 0 @@ "1" :> 1 @@ "2" :> 2 @@ "3" :> 3 @@ "4" :> 4 @@
             "5" :> 5 @@ "6" :> 6 @@ "7" :> 7 @@ "8" :> 8 @@ "9" :> 9)
\* strconv.ParseUint(s, 10, 64) succeeds (values beyond TLC's integers are outside the catalogues)
IsUint(s) == Len(s) > 0 /\ \A i \in 1..Len(s) : Ch(s, i) \in DOMAIN DigitVal
RECURSIVE UintR(_, _, _)
UintR(s, i, acc) == IF i > Len(s) THEN acc ELSE UintR(s, i + 1, 10 * acc + DigitVal[Ch(s, i)])
UintVal(s) == UintR(s, 1, 0)

RECURSIVE JoinR(_, _)
JoinR(seq, sep) == IF Len(seq) = 0 THEN "" ELSE IF Len(seq) = 1 THEN seq[1] ELSE seq[1] \o sep \o JoinR(Tail(seq), sep)

(***************************************************************************)
(* 2. The pure level                                                        *)
(***************************************************************************)

(* ---- port range expressions:  expr ::= "" | item ("," item)* ;           *)
(*      item ::= ws* n ws* | ws* n "-" n ws*   (range.go)                   *)
(* A range is a pair <<begin, end>> exactly as written.                     *)
ParseItemWith(endIsBegin, raw) ==
  LET t == Trim(raw)
      parts == Split(t, "-")
  IN IF Len(parts) = 1
       THEN IF IsUint(parts[1]) THEN [ok |-> TRUE, r |-> <<UintVal(parts[1]), UintVal(parts[1])>>]
                                ELSE [ok |-> FALSE, r |-> <<0, 0>>]
     ELSE IF Len(parts) = 2
       THEN IF endIsBegin
              THEN IF IsUint(parts[1]) THEN [ok |-> TRUE, r |-> <<UintVal(parts[1]), UintVal(parts[1])>>]
                                       ELSE [ok |-> FALSE, r |-> <<0, 0>>]
              ELSE IF IsUint(parts[1]) /\ IsUint(parts[2])
                     THEN [ok |-> TRUE, r |-> <<UintVal(parts[1]), UintVal(parts[2])>>]
                     ELSE [ok |-> FALSE, r |-> <<0, 0>>]
     ELSE [ok |-> FALSE, r |-> <<0, 0>>]

ParseRangesWith(endIsBegin, expr) ==
  IF Trim(expr) = "" THEN [ok |-> TRUE, ranges |-> <<>>]
  ELSE LET items == Split(expr, ",")
           res == [i \in 1..Len(items) |-> ParseItemWith(endIsBegin, items[i])]
       IN IF \A i \in 1..Len(items) : res[i].ok
            THEN [ok |-> TRUE, ranges |-> [i \in 1..Len(items) |-> res[i].r]]
            ELSE [ok |-> FALSE, ranges |-> <<>>]

ParseRanges(expr)     == ParseRangesWith(FALSE, expr)                  \* what is written
ParseRangesImpl(expr) == ParseRangesWith(Code_RangeEndIsBegin, expr)   \* what range.go returns

\* the ports denoted by a list of ranges
PortSet(ranges) == UNION {ranges[i][1]..ranges[i][2] : i \in 1..Len(ranges)}

(* ---- constraints: a constraint is a pair <<attribute, value>> (operator  *)
(* EQUALS is the only one the code can express); agent attributes are a     *)
(* function name -> text, a text "a,b,c" standing for the list a, b, c.     *)
AttrMap(pairs) ==     \* Attributes.Get returns the first attribute of that name
  [n \in {pairs[i][1] : i \in 1..Len(pairs)} |->
     pairs[Min({i \in 1..Len(pairs) : pairs[i][1] = n})][2]]

Holds(A, ct) ==
  /\ ct[1] \in DOMAIN A
  /\ \/ A[ct[1]] = ct[2]
     \/ ct[2] \in Range(Split(A[ct[1]], ","))

\* the property: EVERY constraint holds
Sat(A, cts) == \A i \in 1..Len(cts) : Holds(A, cts[i])
SatLastOnly(A, cts) == Len(cts) = 0 \/ Holds(A, cts[Len(cts)])
\* what attributes.go returns
SatImpl(A, cts) == IF Code_SatisfyLastConstraintOnly THEN SatLastOnly(A, cts) ELSE Sat(A, cts)

(* ---- merging: constraints.go MergeParent - the child's definition of an  *)
(* attribute replaces the parent's in place, new attributes are appended.   *)
IdxOf(m, attr) == LET J == {j \in 1..Len(m) : m[j][1] = attr} IN IF J = {} THEN 0 ELSE Min(J)
Merge1(m, ct) == LET j == IdxOf(m, ct[1]) IN IF j = 0 THEN Append(m, ct) ELSE [m EXCEPT ![j] = ct]
RECURSIVE MergeR(_, _)
MergeR(m, child) == IF child = <<>> THEN m ELSE MergeR(Merge1(m, Head(child)), Tail(child))
MergeParent(child, parent) == MergeR(parent, child)

\* chain: levels from the FARTHEST (task class, then root role) to the NEAREST (the task role)
RECURSIVE MergedR(_, _)
MergedR(acc, chain) == IF chain = <<>> THEN acc ELSE MergedR(MergeParent(Head(chain), acc), Tail(chain))
Merged(chain) == MergedR(<<>>, chain)

\* the property, independent of list order: the effective value of an attribute is the one of the
\* nearest level defining it (a level defines an attribute at most once - catalogue assumption)
Defines(level, a) == \E i \in 1..Len(level) : level[i][1] = a
ValueIn(level, a) == level[CHOOSE i \in 1..Len(level) : level[i][1] = a][2]
NearestWins(chain, merged) ==
  LET attrs == UNION {{chain[k][i][1] : i \in 1..Len(chain[k])} : k \in 1..Len(chain)}
  IN /\ {merged[i][1] : i \in 1..Len(merged)} = attrs
     /\ \A i, j \in 1..Len(merged) : merged[i][1] = merged[j][1] => i = j
     /\ \A a \in attrs :
          LET k == CHOOSE k \in 1..Len(chain) : Defines(chain[k], a) /\ \A k2 \in (k+1)..Len(chain) : ~Defines(chain[k2], a)
          IN ValueIn(merged, a) = ValueIn(chain[k], a)

(* ---- resources.  res = [cpu, mem, ports (set)], w = [cpu, mem, static (set), tcp, ctl]   *)
\* the property: the offer covers what the template asks for
Fits(res, w) ==
  /\ w.cpu <= res.cpu
  /\ w.mem <= res.mem
  /\ w.static \subseteq res.ports
  /\ Cardinality(res.ports \ w.static) >= w.tcp + w.ctl
\* ... and the port classes the scheduler draws dynamic / control ports from
FitsClasses(res, w) ==
  LET free == res.ports \ w.static IN
  /\ Cardinality({p \in free : p >= DataPortMin}) >= w.tcp + w.ctl
  /\ (w.ctl = 1 => \E p \in free : p >= CtlPortMin)

\* what match.go Resources.Satisfy returns.  r = [hascpu, cpu, hasmem, mem, hasports, ports (set)],
\* w = [cpu, mem, static (set), tcp, ipc].  Faithful quirks (over-rejections, no threat to C05):
\* static ranges EQUAL to the offered ports are rejected (Ranges.Compare = 0 is not -1); IPC channels
\* are counted as if they needed a port; an offer without a ports resource satisfies nothing.
FitsImpl(r, w) ==
  /\ r.hascpu /\ w.cpu <= r.cpu
  /\ r.hasmem /\ w.mem <= r.mem
  /\ r.hasports
  /\ w.static \subseteq r.ports /\ w.static # r.ports
  /\ Cardinality(r.ports) - Cardinality(w.static) >= w.tcp + w.ipc
  /\ (Code_FitsIgnoresPortClasses \/ FitsClasses([cpu |-> r.cpu, mem |-> r.mem, ports |-> r.ports],
                                                 [cpu |-> w.cpu, mem |-> w.mem, static |-> w.static, tcp |-> w.tcp, ctl |-> 1]))

(***************************************************************************)
(* 3. Catalogues of pure cases; the states of PureSpec are the cases        *)
(***************************************************************************)
VARIABLES c,    \* pure level: the case
          rd    \* round level: state of one OFFERS round

Thorough == Tier = "thorough"
SeqsUpTo(S, n) == UNION {[1..k -> S] : k \in 0..n}

\* -- Satisfy
MkAttrs(m, r) == (IF m = "" THEN <<>> ELSE <<<<"machine_id", m>>>>) \o (IF r = "" THEN <<>> ELSE <<<<"rack", r>>>>)
AttrLists == {MkAttrs(m, r) : m \in {"", "hA", "hB"}, r \in {"", "r1", "r2", "r1,r2"}}
             \cup (IF Thorough THEN {MkAttrs(m, r) \o <<<<"zone", "z1">>>> : m \in {"", "hA", "hB"}, r \in {"", "r1", "r2", "r1,r2", "r3,r1"}}
                                     \cup {MkAttrs(m, "r3,r1") : m \in {"", "hA", "hB"}} ELSE {})
CtAlphabet == {<<"machine_id", "hA">>, <<"machine_id", "hB">>, <<"rack", "r1">>, <<"rack", "r2">>,
               <<"rack", "r3">>, <<"zone", "z1">>, <<"RACK", "r1">>}
SatCases == {[fn |-> "Satisfy", attrs |-> a, cts |-> s] : a \in AttrLists, s \in SeqsUpTo(CtAlphabet, IF Thorough THEN 3 ELSE 2)}

\* -- MergeParent / role chains: a level defines each attribute at most once
LevelLists(MV, RV) ==
  {<<>>} \cup {<<<<"machine_id", m>>>> : m \in MV} \cup {<<<<"rack", r>>>> : r \in RV}
  \cup {<<<<"machine_id", m>>, <<"rack", r>>>> : m \in MV, r \in RV}
  \cup {<<<<"rack", r>>, <<"machine_id", m>>>> : m \in MV, r \in RV}
L3 == LevelLists({"hA", "hB", "hC"}, {"r1", "r2", "r3"})
L2 == LevelLists({"hA", "hB"}, {"r1", "r2"})
MergeCases == {[fn |-> "MergeParent", child |-> x, parent |-> y] : x \in L3, y \in L3}

\* the role chain root role -> ... -> task role (depth 2 or 3) with the task class's constraints
\* (hasclass = FALSE: the class is unknown to the task manager); `agents` are probed with the result
ChainAgents == << <<<<"machine_id", "hA">>, <<"rack", "r1">>>>,
                  <<<<"machine_id", "hB">>, <<"rack", "r1,r2">>>>,
                  <<<<"machine_id", "hA">>>> >>
ClassOpts == {[has |-> FALSE, cts |-> <<>>], [has |-> TRUE, cts |-> <<<<"rack", "r1">>>>],
              [has |-> TRUE, cts |-> <<<<"machine_id", "hB">>, <<"rack", "r2">>>>]}
ChainCases ==
  {[fn |-> "RoleChain", levels |-> lv, hasclass |-> k.has, class |-> k.cts, agents |-> ChainAgents] :
     lv \in [1..2 -> L2] \cup (IF Thorough THEN [1..3 -> L2] ELSE {}), k \in ClassOpts}
ChainOf(x) == (IF x.hasclass THEN <<x.class>> ELSE <<>>) \o x.levels

\* -- Resources.Satisfy
Scalars ==
  {[hascpu |-> TRUE, cpu |-> 1000, wcpu |-> wc, hasmem |-> TRUE, mem |-> 128, wmem |-> wm] :
      wc \in {500, 1000, 1500}, wm \in {64, 128, 256}}
  \cup {[hascpu |-> TRUE, cpu |-> 1000, wcpu |-> 0, hasmem |-> TRUE, mem |-> 128, wmem |-> 0],
        [hascpu |-> FALSE, cpu |-> 0, wcpu |-> 0, hasmem |-> TRUE, mem |-> 128, wmem |-> 64],
        [hascpu |-> TRUE, cpu |-> 1000, wcpu |-> 500, hasmem |-> FALSE, mem |-> 0, wmem |-> 0]}
PortOffers ==
  { <<<<9000, 9002>>>>, <<<<9000, 9001>>, <<30000, 30000>>>>, <<<<9000, 9000>>>>, <<>> }
  \cup (IF Thorough THEN { <<<<9001, 9002>>>>, <<<<9000, 9002>>, <<30000, 30001>>>>,
                            <<<<9000, 9000>>, <<9002, 9002>>>>, <<<<9000, 9001>>, <<9002, 9002>>>> } ELSE {})
StaticWants ==
  { <<>>, <<<<9000, 9000>>>>, <<<<9000, 9002>>>>, <<<<9000, 9001>>, <<30000, 30000>>>> }
  \cup (IF Thorough THEN { <<<<9001, 9002>>>>, <<<<9002, 9002>>, <<9000, 9000>>>>,
                            <<<<9000, 9001>>, <<9001, 9002>>>>, <<<<30000, 30000>>>> } ELSE {})
\* offered port sets that are unions of ranges with HOLES; static ranges that straddle a hole, lie inside one offered
\* range, start or end at a hole's edge, lie in the hole: every port of a static range must be offered
HolePorts == { <<<<9000, 9001>>, <<9003, 9004>>>>, <<<<9000, 9000>>, <<9002, 9002>>, <<9004, 9005>>>> }
HoleStatics == { <<<<9000, 9004>>>>, <<<<9001, 9003>>>>, <<<<9003, 9004>>>>, <<<<9002, 9002>>>>, <<<<9000, 9002>>>>,
                 <<<<9000, 9001>>, <<9003, 9003>>>>, <<<<9001, 9001>>, <<9003, 9004>>>>, <<<<9002, 9004>>>>, <<<<9000, 9000>>, <<9004, 9004>>>> }
HoleCases ==
  {[fn |-> "ResSatisfy",
    res |-> [hascpu |-> TRUE, cpu |-> 1000, hasmem |-> TRUE, mem |-> 128, ports |-> p],
    want |-> [cpu |-> 500, mem |-> 64, static |-> st, tcp |-> t, ipc |-> 0]] :
     p \in HolePorts, st \in HoleStatics, t \in 0..1}
FitCases ==
  {[fn |-> "ResSatisfy",
    res |-> [hascpu |-> s.hascpu, cpu |-> s.cpu, hasmem |-> s.hasmem, mem |-> s.mem, ports |-> p],
    want |-> [cpu |-> s.wcpu, mem |-> s.wmem, static |-> st, tcp |-> t, ipc |-> i]] :
     s \in Scalars, p \in PortOffers, st \in StaticWants, t \in 0..2, i \in 0..1}
  \cup HoleCases
ResOf(x) == [hascpu |-> x.hascpu, cpu |-> x.cpu, hasmem |-> x.hasmem, mem |-> x.mem,
             hasports |-> Len(x.ports) > 0, ports |-> PortSet(x.ports)]
WantOf(w) == [cpu |-> w.cpu, mem |-> w.mem, static |-> PortSet(w.static), tcp |-> w.tcp, ipc |-> w.ipc]
IdealRes(x) == [cpu |-> IF x.hascpu THEN x.cpu ELSE 0, mem |-> IF x.hasmem THEN x.mem ELSE 0, ports |-> PortSet(x.ports)]
IdealWant(w) == [cpu |-> w.cpu, mem |-> w.mem, static |-> PortSet(w.static), tcp |-> w.tcp, ctl |-> 0]

\* -- RangesFromExpression / ResourceWants.UnmarshalYAML
Items1 == {"9000", "9000-9005", "30000", " 9001", "9002 ", "9005-9000", "09", "x", "", "9000-", "-9000",
           "9000-x", "1-2-3", "+5", "9000 - 9005", " 9003-9004 "}
Items2 == {"9000", "9000-9005", " 30000", "x", "", "9000-x", "9001-9001", "1-2-3"}
Items3 == {"9000", "9001-9003", "x", " 30000-30001"}
ParseCases ==
  {[fn |-> "ParseRanges", expr |-> e] :
     e \in Items1 \cup {" ", "  "} \cup {a \o "," \o b : a \in Items2, b \in Items2}
          \cup (IF Thorough THEN {a \o "," \o b \o "," \o d : a \in Items3, b \in Items3, d \in Items3} ELSE {})}

\* -- several task roles of ONE task class in one deployment, deployed again afterwards.  The task template
\* constrains machine_type (and maybe rack); a role (its group or the task role itself) may override it, its
\* sibling need not.  A descriptor = <<group level, task level>> under a common root; `agents` offer every value.
\* The class object (the task manager's class registry entry) is the SAME for all descriptors and both rounds.
ShClass == {<<<<"machine_type", "flp">>>>, <<<<"machine_type", "flp">>, <<"rack", "r1">>>>, <<<<"rack", "r1">>, <<"machine_type", "flp">>>>, <<>>}
ShGroup == {<<>>, <<<<"machine_type", "epn">>>>, <<<<"rack", "r2">>>>, <<<<"rack", "r2">>, <<"machine_type", "epn">>>>}
ShTask == {<<>>, <<<<"machine_type", "epn">>>>, <<<<"zone", "a">>>>}
ShRoot == {<<>>, <<<<"rack", "r2">>>>}
ShAgents == << <<<<"machine_type", "flp">>, <<"rack", "r1">>, <<"zone", "a">>>>, <<<<"machine_type", "epn">>, <<"rack", "r1">>, <<"zone", "a">>>>,
               <<<<"machine_type", "flp">>, <<"rack", "r2">>, <<"zone", "a">>>>, <<<<"machine_type", "epn">>, <<"rack", "r2">>, <<"zone", "a">>>> >>
ShDesc == {<<g, t>> : g \in ShGroup, t \in ShTask}
SharedCases ==
  {[fn |-> "SharedClass", class |-> k, root |-> r, descs |-> ds, rounds |-> 2, agents |-> ShAgents] :
     k \in ShClass, r \in ShRoot,
     ds \in [1..2 -> ShDesc] \cup (IF Thorough THEN [1..3 -> {<<g, t>> : g \in ShGroup, t \in {<<>>, <<<<"machine_type", "epn">>>>}}] ELSE {})}
\* what applies to descriptor i: template, then root, its group, its task role - nothing of its siblings, whatever the order
ShChain(x, i) == <<x.class, x.root, x.descs[i][1], x.descs[i][2]>>
ShExpected(x, i) == Merged(ShChain(x, i))

PureCases == SatCases \cup MergeCases \cup ChainCases \cup FitCases \cup ParseCases \cup SharedCases

NoRound == [pc |-> "none"]
NoCase == [fn |-> "none"]

PureInit == /\ \/ c \in SatCases
               \/ c \in MergeCases
               \/ c \in ChainCases
               \/ c \in FitCases
               \/ c \in ParseCases
               \/ c \in SharedCases
            /\ rd = NoRound
PureNext == UNCHANGED <<c, rd>>
PureSpec == PureInit /\ [][PureNext]_<<c, rd>>

(* Invariants over the catalogue.  The first two compare what the code      *)
(* computes (per the Code_ constants) with what the property demands: they  *)
(* hold for the repaired code and fail - with the offending case as the     *)
(* counterexample - for the code as it is.                                  *)
ImplSatIsSat == c.fn = "Satisfy" => SatImpl(AttrMap(c.attrs), c.cts) = Sat(AttrMap(c.attrs), c.cts)
ImplParseIsParse == c.fn = "ParseRanges" => ParseRangesImpl(c.expr) = ParseRanges(c.expr)
\* theorems about the definitions themselves
SatIsConjunction ==
  c.fn = "Satisfy" =>
    LET A == AttrMap(c.attrs) IN
    /\ (Sat(A, c.cts) <=> \A ct \in Range(c.cts) : Holds(A, ct))
    /\ \A k \in 1..Len(c.cts) : Sat(A, c.cts) => Sat(A, SubSeq(c.cts, 1, k))     \* dropping constraints never hurts
MergeNearestWins ==
  /\ (c.fn = "MergeParent" => NearestWins(<<c.parent, c.child>>, MergeParent(c.child, c.parent)))
  /\ (c.fn = "RoleChain" => NearestWins(ChainOf(c), Merged(ChainOf(c))))
SharedClassIndependent ==   \* a descriptor's constraints do not depend on its siblings, their order or the round
  c.fn = "SharedClass" =>
    \A i \in 1..Len(c.descs) :
      /\ NearestWins(ShChain(c, i), ShExpected(c, i))
      /\ ShExpected(c, i) = ShExpected([c EXCEPT !.descs = <<c.descs[i]>>], 1)
      /\ \A a \in {"machine_type", "rack"} :       \* without an override in its own branch the template's value applies
           (Defines(c.class, a) /\ ~Defines(c.root, a) /\ ~Defines(c.descs[i][1], a) /\ ~Defines(c.descs[i][2], a))
             => ValueIn(ShExpected(c, i), a) = ValueIn(c.class, a)
FitsMonotone ==   \* more resources never turn a fitting template into a non-fitting one
  c.fn = "ResSatisfy" =>
    \A s \in Scalars, p \in PortOffers :
      LET bigger == [hascpu |-> s.hascpu, cpu |-> s.cpu, hasmem |-> s.hasmem, mem |-> s.mem, ports |-> p] IN
      (/\ IdealRes(c.res).cpu <= IdealRes(bigger).cpu /\ IdealRes(c.res).mem <= IdealRes(bigger).mem
       /\ IdealRes(c.res).ports \subseteq IdealRes(bigger).ports
       /\ Fits(IdealRes(c.res), IdealWant(c.want))) => Fits(IdealRes(bigger), IdealWant(c.want))
FitsImplSound == c.fn = "ResSatisfy" => (FitsImpl(ResOf(c.res), WantOf(c.want)) => Fits(IdealRes(c.res), IdealWant(c.want)))
ParseDenotes ==   \* an accepted expression denotes the union of its items, each item a or a..b
  c.fn = "ParseRanges" =>
    LET p == ParseRanges(c.expr) IN
    p.ok => /\ Len(p.ranges) = (IF Trim(c.expr) = "" THEN 0 ELSE Len(Split(c.expr, ",")))
            /\ ParseRangesWith(TRUE, c.expr).ok

(***************************************************************************)
(* 4. The round level, relational                                           *)
(*                                                                         *)
(* offers: sequence of [id, host, attrs (record name -> text), cpus, mem,   *)
(*         ports (sequence of <<b, e>>)]                                    *)
(* descs:  sequence of [id, cpu, mem, tcp_inbound (inbound TCP channels of  *)
(*         the DESCRIPTOR: the template's and those its roles bind),        *)
(*         ipc_inbound,                                                     *)
(*         controllable, and                                                *)
(*           constraints: sequence of [attr, value]   (already merged) or   *)
(*           chain: sequence (farthest first) of such sequences,            *)
(*           static: sequence of <<b, e>> or static_expr: the template text]*)
(* obs:    accepts: sequence of [offer, tasks: sequence of [desc, cpu, mem, *)
(*         ports (sequence of port numbers), optionally dynamic (sequence)  *)
(*         and control (number)]], declined: set of offer ids               *)
(***************************************************************************)
HasF(r, f) == f \in DOMAIN r
CtPairs(cs) == [i \in 1..Len(cs) |-> <<cs[i].attr, cs[i].value>>]
DescCts(d) == IF HasF(d, "chain") THEN Merged([k \in 1..Len(d.chain) |-> CtPairs(d.chain[k])])
              ELSE CtPairs(d.constraints)
DescStatic(d) == IF HasF(d, "static_expr") THEN ParseRanges(d.static_expr).ranges ELSE d.static
DescCtl(d) == IF d.controllable THEN 1 ELSE 0

ById(seq, id) == seq[CHOOSE i \in 1..Len(seq) : seq[i].id = id]
Ids(seq) == {seq[i].id : i \in 1..Len(seq)}
OfferRes(o) == [cpu |-> o.cpus, mem |-> o.mem, ports |-> PortSet(o.ports)]
DescWant(d) == [cpu |-> d.cpu, mem |-> d.mem, static |-> PortSet(DescStatic(d)), tcp |-> d.tcp_inbound, ctl |-> DescCtl(d)]

\* all (accept index, task index) pairs
AllTaskIdx(accepts) == UNION {{<<i, j>> : j \in 1..Len(accepts[i].tasks)} : i \in 1..Len(accepts)}
TaskAt(accepts, ij) == accepts[ij[1]].tasks[ij[2]]
TaskPorts(t) == Range(t.ports)

\* P0 the observation talks about the offers and descriptors of this round
P0Bad(offers, descs, accepts) ==
  {accepts[i].offer : i \in {i \in 1..Len(accepts) : accepts[i].offer \notin Ids(offers)}}
  \cup {TaskAt(accepts, ij).desc : ij \in {ij \in AllTaskIdx(accepts) : TaskAt(accepts, ij).desc \notin Ids(descs)}}
Known(offers, descs, accepts) ==
  {ij \in AllTaskIdx(accepts) : accepts[ij[1]].offer \in Ids(offers) /\ TaskAt(accepts, ij).desc \in Ids(descs)}

\* P1 every launched (d, o): the agent satisfies every applicable constraint and the offer covers the template
P1Bad(offers, descs, accepts) ==
  {<<TaskAt(accepts, ij).desc, accepts[ij[1]].offer>> : ij \in
     {ij \in Known(offers, descs, accepts) :
        LET o == ById(offers, accepts[ij[1]].offer)
            d == ById(descs, TaskAt(accepts, ij).desc)
        IN ~(Sat(o.attrs, DescCts(d)) /\ Fits(OfferRes(o), DescWant(d)))}}

\* P2 ports of a task = static ranges as written + one dynamic port (>= 9000) per TCP inbound channel
\*    + a control port (>= 30000) if controllable (an unused control port on another task is tolerated)
P2TaskOK(d, t) ==
  LET static == PortSet(DescStatic(d))
      extra == TaskPorts(t) \ static
      n == Cardinality(extra)
  IN /\ static \subseteq TaskPorts(t)
     /\ \A p \in extra : p >= DataPortMin
     /\ IF d.controllable
          THEN n = d.tcp_inbound + 1 /\ \E p \in extra : p >= CtlPortMin
          ELSE n = d.tcp_inbound \/ (n = d.tcp_inbound + 1 /\ \E p \in extra : p >= CtlPortMin)
     /\ (HasF(t, "dynamic") =>
           /\ Len(t.dynamic) = d.tcp_inbound
           /\ Cardinality(Range(t.dynamic)) = Len(t.dynamic)
           /\ \A p \in Range(t.dynamic) : p >= DataPortMin /\ p \notin static /\ p \in TaskPorts(t))
     /\ (HasF(t, "control") /\ d.controllable =>
           /\ t.control >= CtlPortMin /\ t.control \notin static /\ t.control \in TaskPorts(t)
           \* besides the control port there is one port per TCP channel: as many requested as used
           /\ Cardinality(extra \ {t.control}) = d.tcp_inbound
           /\ (HasF(t, "dynamic") => t.control \notin Range(t.dynamic)))
P2Bad(offers, descs, accepts) ==
  {TaskAt(accepts, ij).desc : ij \in
     {ij \in Known(offers, descs, accepts) : ~P2TaskOK(ById(descs, TaskAt(accepts, ij).desc), TaskAt(accepts, ij))}}

\* P3 all ports come from the offer and are pairwise distinct over the tasks of one agent
HostOf(offers, accepts, i) == ById(offers, accepts[i].offer).host
P3Bad(offers, descs, accepts) ==
  LET K == Known(offers, descs, accepts) IN
  {<<IF \E p \in TaskPorts(TaskAt(accepts, ij)) \ PortSet(ById(offers, accepts[ij[1]].offer).ports) :
          p \in PortSet(DescStatic(ById(descs, TaskAt(accepts, ij).desc)))
       THEN "a static port that was not offered" ELSE "not-offered", TaskAt(accepts, ij).desc>> : ij \in
     {ij \in K : ~(TaskPorts(TaskAt(accepts, ij)) \subseteq PortSet(ById(offers, accepts[ij[1]].offer).ports))}}
  \cup {<<"repeated", TaskAt(accepts, ij).desc>> : ij \in
     {ij \in K : Cardinality(TaskPorts(TaskAt(accepts, ij))) # Len(TaskAt(accepts, ij).ports)}}
  \cup {<<"shared", TaskAt(accepts, x[1]).desc, TaskAt(accepts, x[2]).desc>> : x \in
     {x \in K \X K : /\ x[1] # x[2]
                     /\ HostOf(offers, accepts, x[1][1]) = HostOf(offers, accepts, x[2][1])
                     /\ TaskPorts(TaskAt(accepts, x[1])) \cap TaskPorts(TaskAt(accepts, x[2])) # {}}}

\* P4 what is requested for all tasks launched on one offer does not exceed it (executor share as requested),
\*    and every task requests at least what its template wants
P4Bad(offers, descs, accepts) ==
  {<<"cpu", oid>> : oid \in {oid \in Ids(offers) :
     SumSeq([i \in 1..Len(accepts) |-> IF accepts[i].offer = oid
                THEN SumSeq([j \in 1..Len(accepts[i].tasks) |-> accepts[i].tasks[j].cpu]) ELSE 0]) > ById(offers, oid).cpus}}
  \cup {<<"mem", oid>> : oid \in {oid \in Ids(offers) :
     SumSeq([i \in 1..Len(accepts) |-> IF accepts[i].offer = oid
                THEN SumSeq([j \in 1..Len(accepts[i].tasks) |-> accepts[i].tasks[j].mem]) ELSE 0]) > ById(offers, oid).mem}}
  \cup {<<"less-than-wanted", TaskAt(accepts, ij).desc>> : ij \in
     {ij \in Known(offers, descs, accepts) :
        LET d == ById(descs, TaskAt(accepts, ij).desc) t == TaskAt(accepts, ij) IN t.cpu < d.cpu \/ t.mem < d.mem}}

\* P5 offers that are not used are declined (an ACCEPT without operations is a decline to Mesos)
UsedOffers(accepts) == {accepts[i].offer : i \in {i \in 1..Len(accepts) : Len(accepts[i].tasks) > 0}}
EmptyAccepted(accepts) == {accepts[i].offer : i \in {i \in 1..Len(accepts) : Len(accepts[i].tasks) = 0}}
P5Bad(offers, accepts, declined) == (Ids(offers) \ UsedOffers(accepts)) \ (declined \cup EmptyAccepted(accepts))

PlacementOK(offers, descs, obs) ==
  /\ P0Bad(offers, descs, obs.accepts) = {}
  /\ P1Bad(offers, descs, obs.accepts) = {}
  /\ P2Bad(offers, descs, obs.accepts) = {}
  /\ P3Bad(offers, descs, obs.accepts) = {}
  /\ P4Bad(offers, descs, obs.accepts) = {}
  /\ P5Bad(offers, obs.accepts, obs.declined) = {}

(***************************************************************************)
(* 5. The round level, implementation shaped (scheduler.go resourceOffers)  *)
(*                                                                         *)
(* rd = [pc, offers, descs, exec (executor share [cpu, mem]),               *)
(*       rem: offer id -> remaining [cpu, mem, ports],                      *)
(*       pre: offer id -> descriptors pre-matched by machine_id,            *)
(*       todo: descriptors still to deploy (ids, in request order),         *)
(*       undep: undeployable descriptors, processed: offers done,           *)
(*       nodecl: offers taken off the decline list,                         *)
(*       accepts: sequence of [offer, tasks], declined, panic]              *)
(* The per-offer section of the code runs under one mutex: it is ONE action *)
(* (ProcessOffer); offers are taken in any order (one goroutine each).      *)
(***************************************************************************)
Reverse(s) == [i \in 1..Len(s) |-> s[Len(s) + 1 - i]]
ImplStatic(d) == IF HasF(d, "static_expr") THEN ParseRangesImpl(d.static_expr).ranges ELSE d.static
ImplWant(d) == [cpu |-> d.cpu, mem |-> d.mem, static |-> PortSet(ImplStatic(d)), tcp |-> d.tcp_inbound, ipc |-> d.ipc_inbound]
ImplRes(rem) == [hascpu |-> TRUE, cpu |-> rem.cpu, hasmem |-> TRUE, mem |-> rem.mem, hasports |-> rem.ports # {}, ports |-> rem.ports]

\* first constraint on machine_id of the merged list (resourceOffers pre-processing)
RequiredMachine(d) ==
  LET cts == DescCts(d)
      J == {j \in 1..Len(cts) : cts[j][1] = "machine_id"}
  IN IF J = {} THEN "" ELSE cts[Min(J)][2]
OfferByMachine(offers, m) ==   \* offersByMachineId: a later offer overwrites an earlier one
  LET J == {j \in 1..Len(offers) : HasF(offers[j].attrs, "machine_id") /\ offers[j].attrs["machine_id"] = m}
  IN IF J = {} \/ m = "" THEN "" ELSE offers[CHOOSE j \in J : \A k \in J : k <= j].id

RoundStart(offers, descs, exec) ==
  LET req == [i \in 1..Len(descs) |-> RequiredMachine(descs[i])]
      tgt == [i \in 1..Len(descs) |-> OfferByMachine(offers, req[i])]
      seqIdx == [i \in 1..Len(descs) |-> i]
      idsOf(ix) == [k \in 1..Len(ix) |-> descs[ix[k]].id]
      preOf(oid) == SelectSeq(seqIdx, LAMBDA i : req[i] # "" /\ tgt[i] = oid)
      free == SelectSeq(seqIdx, LAMBDA i : req[i] = "")
      lost == SelectSeq(seqIdx, LAMBDA i : req[i] # "" /\ tgt[i] = "")
  IN [pc |-> "offers", offers |-> offers, descs |-> descs, exec |-> exec,
      rem |-> [oid \in Ids(offers) |-> OfferRes(ById(offers, oid))],
      \* the pre-match lists are filled walking the request from its end and emptied from their own end:
      \* request order
      pre |-> [oid \in Ids(offers) |-> idsOf(preOf(oid))],
      todo |-> idsOf(free),
      \* no offer from the required machine: undeployable at once (appended walking from the end)
      undep |-> Reverse(idsOf(lost)),
      processed |-> {}, nodecl |-> {}, accepts |-> <<>>, declined |-> {}, panic |-> FALSE]

\* one port >= DataPortMin per TCP channel.  No ports resource left at all: the code gives up on the
\* descriptor (return nil); ports left but none of the class: Ranges.Min() of nothing (fatal)
RECURSIVE TakeDyn(_, _, _)
TakeDyn(n, free, taken) ==
  IF n = 0 THEN [ok |-> TRUE, fatal |-> FALSE, free |-> free, taken |-> taken]
  ELSE LET cand == {p \in free : p >= DataPortMin} IN
       IF cand = {} THEN [ok |-> FALSE, fatal |-> free # {}, free |-> free, taken |-> taken]
       ELSE TakeDyn(n - 1, free \ {Min(cand)}, Append(taken, Min(cand)))

\* makeTaskForMesosResources: [ok, fatal, rem, task]; not ok = no port of the needed class is left (the
\* dynamic ports taken before that are gone from the remaining offer all the same)
MakeTask(d, rem, exec) ==
  LET static == PortSet(ImplStatic(d))
      free0 == IF Code_StaticPortsNotReserved THEN rem.ports ELSE rem.ports \ static
      dyn == TakeDyn(d.tcp_inbound, free0, <<>>)
      cand == {p \in dyn.free : p >= CtlPortMin}
  IN IF ~dyn.ok \/ cand = {}
       THEN [ok |-> FALSE, fatal |-> Code_MinOnEmptyPanics /\ (IF dyn.ok THEN dyn.free # {} ELSE dyn.fatal),
             \* the offer is taken off the decline list between the dynamic ports and the control port
             undecl |-> dyn.ok,
             rem |-> [rem EXCEPT !.ports = dyn.free], task |-> [desc |-> d.id]]
     ELSE LET ctl == Min(cand)
              cpu == d.cpu + exec.cpu
              mem == d.mem + exec.mem
              portset == static \cup Range(dyn.taken) \cup {ctl}
          IN IF ~Code_NoScalarSubtraction /\ (cpu > rem.cpu \/ mem > rem.mem)
               \* repaired code: task + executor share must still be there, else the task is not built (ports already taken)
               THEN [ok |-> FALSE, fatal |-> FALSE, undecl |-> TRUE,
                     rem |-> [rem EXCEPT !.ports = dyn.free \ {ctl}], task |-> [desc |-> d.id]]
             ELSE
             [ok |-> TRUE, fatal |-> FALSE, undecl |-> TRUE,
              rem |-> [cpu |-> IF Code_NoScalarSubtraction THEN rem.cpu ELSE rem.cpu - cpu,
                       mem |-> IF Code_NoScalarSubtraction THEN rem.mem ELSE rem.mem - mem,
                       ports |-> dyn.free \ {ctl}],
              task |-> [desc |-> d.id, cpu |-> cpu, mem |-> mem, portset |-> portset,
                        dynamic |-> dyn.taken, control |-> ctl]]

Matches(o, d, rem) == SatImpl(o.attrs, DescCts(d)) /\ FitsImpl(ImplRes(rem), ImplWant(d))

\* st = [rem, tasks, undep, panic, left (ids not launched, in list order)]
RECURSIVE RunPre(_, _, _, _, _)
RunPre(o, descs, exec, list, st) ==        \* FOR_PREMATCH_DESCRIPTORS: a failure is final (break)
  IF list = <<>> \/ st.panic THEN st
  ELSE LET d == ById(descs, Head(list)) IN
       IF ~Matches(o, d, st.rem) THEN [st EXCEPT !.undep = Append(@, d.id)]
       ELSE LET m == MakeTask(d, st.rem, exec) IN
            IF ~m.ok THEN (IF m.fatal THEN [st EXCEPT !.panic = TRUE] ELSE [st EXCEPT !.rem = m.rem, !.undecl = @ \/ m.undecl])  \* break, silently
            ELSE RunPre(o, descs, exec, Tail(list), [st EXCEPT !.rem = m.rem, !.tasks = Append(@, m.task)])

RECURSIVE RunTodo(_, _, _, _, _)
RunTodo(o, descs, exec, list, st) ==       \* FOR_DESCRIPTORS: a failure skips the descriptor (continue)
  IF list = <<>> \/ st.panic THEN [st EXCEPT !.left = @ \o list]
  ELSE LET d == ById(descs, Head(list)) IN
       IF ~Matches(o, d, st.rem) THEN RunTodo(o, descs, exec, Tail(list), [st EXCEPT !.left = Append(@, d.id)])
       ELSE LET m == MakeTask(d, st.rem, exec) IN
            IF ~m.ok THEN (IF m.fatal THEN [st EXCEPT !.panic = TRUE, !.left = @ \o list]
                           ELSE RunTodo(o, descs, exec, Tail(list), [st EXCEPT !.rem = m.rem, !.left = Append(@, d.id), !.undecl = @ \/ m.undecl]))
            ELSE RunTodo(o, descs, exec, Tail(list), [st EXCEPT !.rem = m.rem, !.tasks = Append(@, m.task)])

OfferResult(r, oid) ==
  LET o == ById(r.offers, oid)
      s0 == [rem |-> r.rem[oid], tasks |-> <<>>, undep |-> r.undep, panic |-> FALSE, left |-> <<>>, undecl |-> FALSE]
      s1 == RunPre(o, r.descs, r.exec, r.pre[oid], s0)
      \* both loops walk their slice from the last index down
      s2 == IF s1.undep = <<>> /\ ~s1.panic THEN RunTodo(o, r.descs, r.exec, Reverse(r.todo), s1)
            ELSE [s1 EXCEPT !.left = Reverse(r.todo)]
  IN [r EXCEPT !.rem[oid] = s2.rem,
               !.todo = Reverse(s2.left),
               !.undep = s2.undep,
               !.processed = @ \cup {oid},
               !.nodecl = IF s2.undecl THEN @ \cup {oid} ELSE @,
               !.panic = s2.panic,
               !.pc = IF s2.panic THEN "panic" ELSE "offers",
               \* the ACCEPT call follows the section; a panic inside it means no call
               !.accepts = IF s2.panic THEN @ ELSE Append(@, [offer |-> oid, tasks |-> s2.tasks])]

ProcessOffer(oid) ==
  /\ rd.pc = "offers" /\ oid \in Ids(rd.offers) \ rd.processed
  /\ rd.undep = <<>> \/ rd.processed # {}      \* descriptors undeployable before any offer is looked at: no offer is processed
  /\ rd' = OfferResult(rd, oid)

Deployed(r) == UNION {{r.accepts[i].tasks[j].desc : j \in 1..Len(r.accepts[i].tasks)} : i \in 1..Len(r.accepts)}
FinishResult(r) == [r EXCEPT !.pc = "done", !.declined = Ids(r.offers) \ (UsedOffers(r.accepts) \cup r.nodecl)]
Finish ==
  /\ rd.pc = "offers"
  /\ rd.processed = Ids(rd.offers) \/ (rd.undep # <<>> /\ rd.processed = {})
  /\ rd' = FinishResult(rd)

\* a whole round with the offers taken in the given order (a sequence of offer ids)
RECURSIVE RunOrder(_, _)
RunOrder(r, ord) ==
  IF ord = <<>> \/ r.pc = "panic" \/ (r.undep # <<>> /\ r.processed = {}) THEN r
  ELSE RunOrder(OfferResult(r, Head(ord)), Tail(ord))
FinalOf(r, ord) == LET e == RunOrder(r, ord) IN IF e.pc = "panic" THEN e ELSE FinishResult(e)
RECURSIVE Perms(_)
Perms(S) == IF S = {} THEN {<<>>} ELSE UNION {{<<x>> \o p : p \in Perms(S \ {x})} : x \in S}

\* the observation of a finished round in the vocabulary of section 4
ObsTask(t) == [desc |-> t.desc, cpu |-> t.cpu, mem |-> t.mem,
               ports |-> LET S == t.portset IN
                         [k \in 1..Cardinality(S) |-> CHOOSE p \in S : Cardinality({q \in S : q < p}) = k - 1],
               dynamic |-> t.dynamic, control |-> t.control]
ObsOf(r) == [accepts |-> [i \in 1..Len(r.accepts) |->
                            [offer |-> r.accepts[i].offer,
                             tasks |-> [j \in 1..Len(r.accepts[i].tasks) |-> ObsTask(r.accepts[i].tasks[j])]]],
             declined |-> r.declined]

\* -- catalogue of rounds
NoExec == [cpu |-> 0, mem |-> 0]
Exec1 == [cpu |-> 10, mem |-> 64]
OfferCat ==
  << [id |-> "o1", host |-> "hA", attrs |-> [machine_id |-> "hA", rack |-> "r1", machine_type |-> "flp"], cpus |-> 4000, mem |-> 1024,
      ports |-> <<<<9000, 9003>>, <<30000, 30002>>>>],
     [id |-> "o2", host |-> "hB", attrs |-> [machine_id |-> "hB", rack |-> "r1,r2", machine_type |-> "epn"], cpus |-> 800, mem |-> 256,
      ports |-> <<<<9000, 9001>>, <<30000, 30001>>>>],
     [id |-> "o3", host |-> "hC", attrs |-> [machine_id |-> "hC", rack |-> "r2", machine_type |-> "flp"], cpus |-> 4000, mem |-> 1024,
      ports |-> <<<<9000, 9002>>>>] >>
Ct(a, v) == [attr |-> a, value |-> v]
DescCat ==
  << [id |-> "d1", constraints |-> <<Ct("machine_id", "hA")>>, cpu |-> 1000, mem |-> 128, static_expr |-> "",
      tcp_inbound |-> 1, ipc_inbound |-> 0, controllable |-> TRUE],
     [id |-> "d2", constraints |-> <<Ct("machine_id", "hB"), Ct("rack", "r1")>>, cpu |-> 500, mem |-> 128, static_expr |-> "",
      tcp_inbound |-> 0, ipc_inbound |-> 1, controllable |-> TRUE],
     [id |-> "d3", constraints |-> <<Ct("rack", "r1")>>, cpu |-> 1500, mem |-> 200, static_expr |-> "9000-9001",
      tcp_inbound |-> 1, ipc_inbound |-> 0, controllable |-> TRUE],
     [id |-> "d4", constraints |-> <<Ct("zone", "z9"), Ct("rack", "r2")>>, cpu |-> 100, mem |-> 32, static_expr |-> "",
      tcp_inbound |-> 2, ipc_inbound |-> 0, controllable |-> FALSE],
     [id |-> "d5", constraints |-> <<>>, cpu |-> 1200, mem |-> 300, static_expr |-> "9001",
      tcp_inbound |-> 1, ipc_inbound |-> 0, controllable |-> TRUE],
     [id |-> "d6", constraints |-> <<Ct("machine_id", "hX")>>, cpu |-> 100, mem |-> 32, static_expr |-> "",
      tcp_inbound |-> 0, ipc_inbound |-> 0, controllable |-> TRUE],
     [id |-> "d7", constraints |-> <<Ct("rack", "r2"), Ct("machine_id", "hA")>>, cpu |-> 1500, mem |-> 64, static_expr |-> "",
      tcp_inbound |-> 0, ipc_inbound |-> 0, controllable |-> TRUE],
     \* chains: <<task class, group role, task role>> (farthest first)
     [id |-> "d8", chain |-> << <<Ct("rack", "r9")>>, <<Ct("rack", "r2")>>, <<>> >>, cpu |-> 400, mem |-> 64, static_expr |-> "",
      tcp_inbound |-> 1, ipc_inbound |-> 0, controllable |-> FALSE],
     [id |-> "d9", chain |-> << <<Ct("machine_id", "hB")>>, <<Ct("rack", "r1")>>, <<Ct("machine_id", "hA")>> >>, cpu |-> 300, mem |-> 64,
      static_expr |-> "9002", tcp_inbound |-> 0, ipc_inbound |-> 0, controllable |-> TRUE],
     \* a static port only the wrong agent offers; two TCP channels
     [id |-> "d10", constraints |-> <<Ct("rack", "r2")>>, cpu |-> 200, mem |-> 32, static_expr |-> "9003",
      tcp_inbound |-> 0, ipc_inbound |-> 0, controllable |-> TRUE],
     [id |-> "d11", constraints |-> <<Ct("rack", "r2")>>, cpu |-> 200, mem |-> 32, static_expr |-> "",
      tcp_inbound |-> 2, ipc_inbound |-> 0, controllable |-> TRUE] >>

\* strictly increasing index sequences of length 1..n
IncSeqs(m, n) == {s \in UNION {[1..k -> 1..m] : k \in 1..n} : \A i \in 1..(Len(s) - 1) : s[i] < s[i + 1]}
Pick(cat, idx) == [k \in 1..Len(idx) |-> cat[idx[k]]]

\* descriptors that SHARE a task class (field class; same template: chain[1], wants, channels): one role overrides
\* the template's machine_type, its sibling does not - in both orders (kA: overriding role first, kB: plain role first)
ShD(id, cls, group, task) ==
  [id |-> id, class |-> cls, chain |-> << <<Ct("machine_type", "flp")>>, group, task >>, cpu |-> 100, mem |-> 32, static_expr |-> "",
   tcp_inbound |-> 0, ipc_inbound |-> 0, controllable |-> FALSE]
SharedDescSets ==
  { << ShD("s1", "kA", <<Ct("machine_type", "epn")>>, <<>>), ShD("s2", "kA", <<>>, <<>>) >>,
    << ShD("s3", "kB", <<>>, <<>>), ShD("s4", "kB", <<>>, <<Ct("machine_type", "epn")>>) >>,
    << ShD("s5", "kC", <<Ct("rack", "r1")>>, <<>>), ShD("s6", "kC", <<Ct("machine_type", "epn")>>, <<>>), ShD("s7", "kC", <<>>, <<>>) >> }
SharedRoundCat ==
  {[offers |-> Pick(OfferCat, oi), descs |-> ds, exec |-> Exec1] :
     oi \in {<<1, 2>>, <<2, 3>>, <<1, 2, 3>>, <<2>>, <<1>>}, ds \in SharedDescSets}

\* task roles of ONE task class whose ROLE-level bind lists differ: the inbound channels of a descriptor are the template's
\* plus those bound by its enclosing roles (role_tcp of the tcp_inbound channels come from the role named by role_bind_at);
\* every task gets one dynamic port per inbound TCP channel of ITS descriptor, whatever its siblings bind
BD(id, cls, tmpl, role, at) ==
  [id |-> id, class |-> cls, chain |-> << <<>>, <<>>, <<>> >>, cpu |-> 100, mem |-> 32, static_expr |-> "",
   tcp_inbound |-> tmpl + role, role_tcp |-> role, role_bind_at |-> at, ipc_inbound |-> 0, controllable |-> TRUE]
BindDescSets ==
  { << BD("b1", "kD", 1, 0, "task"), BD("b2", "kD", 1, 1, "task") >>,
    << BD("b3", "kE", 1, 1, "task"), BD("b4", "kE", 1, 0, "task") >>,
    << BD("b5", "kF", 0, 2, "group"), BD("b6", "kF", 0, 0, "task"), BD("b7", "kF", 0, 1, "task") >> }
BindOffers ==
  << [id |-> "oP", host |-> "hP", attrs |-> [machine_id |-> "hP"], cpus |-> 4000, mem |-> 2048, ports |-> <<<<9000, 9009>>, <<30000, 30009>>>>],
     [id |-> "oQ", host |-> "hQ", attrs |-> [machine_id |-> "hQ"], cpus |-> 4000, mem |-> 2048, ports |-> <<<<9000, 9009>>, <<30000, 30009>>>>] >>
BindRoundCat ==
  {[offers |-> Pick(BindOffers, oi), descs |-> ds, exec |-> Exec1] : oi \in {<<1>>, <<1, 2>>}, ds \in BindDescSets}

\* PINNED descriptors (machine_id set in the role tree: the pre-match path of resourceOffers) whose TASK TEMPLATE declares a
\* constraint of its own on another attribute, which the pinned host does / does not satisfy (o1 = hA: flp, rack r1;
\* o2 = hB: epn, rack r1,r2; o3 = hC: flp, rack r2): the template's constraint applies on the pinned host like anywhere else
PN(id, tmpl, group, task) ==
  [id |-> id, chain |-> <<tmpl, group, task>>, cpu |-> 100, mem |-> 32, static_expr |-> "", tcp_inbound |-> 0, ipc_inbound |-> 0,
   controllable |-> FALSE]
PinDescCat ==
  << PN("n1", <<Ct("machine_type", "epn")>>, <<>>, <<Ct("machine_id", "hA")>>),          \* hA is flp: nowhere
     PN("n2", <<Ct("machine_type", "flp")>>, <<>>, <<Ct("machine_id", "hA")>>),          \* satisfied on hA
     PN("n3", <<Ct("rack", "r3")>>, <<Ct("machine_id", "hB")>>, <<>>),                   \* hB has racks r1,r2: nowhere
     PN("n4", <<Ct("rack", "r2"), Ct("machine_type", "epn")>>, <<Ct("machine_id", "hB")>>, <<>>),   \* satisfied on hB
     PN("n5", <<Ct("machine_type", "flp"), Ct("rack", "r1")>>, <<Ct("machine_id", "hC")>>, <<Ct("zone", "z1")>>) >>  \* hC: rack r2, no zone
PinRoundCat ==
  {[offers |-> Pick(OfferCat, oi), descs |-> Pick(PinDescCat, di), exec |-> Exec1] :
     oi \in {<<1, 2>>, <<1, 2, 3>>}, di \in IncSeqs(5, 2)}

\* offers whose ports lie entirely or partly at or above the control-port threshold: only high ports (the stock Mesos
\* range), fewer low ports than a task has TCP channels, low + high; controllable tasks with 1..3 inbound TCP
\* channels, alone and several on one offer: dynamic ports then come from >= 30000 too and must stay distinct from the
\* control port (as many ports requested as used)
PortOfferCat ==
  << [id |-> "oH", host |-> "hH", attrs |-> [machine_id |-> "hH"], cpus |-> 4000, mem |-> 2048, ports |-> <<<<31000, 31009>>>>],
     [id |-> "oF", host |-> "hF", attrs |-> [machine_id |-> "hF"], cpus |-> 4000, mem |-> 2048, ports |-> <<<<9000, 9000>>, <<31000, 31004>>>>],
     [id |-> "oL", host |-> "hL", attrs |-> [machine_id |-> "hL"], cpus |-> 4000, mem |-> 2048, ports |-> <<<<9000, 9001>>, <<30000, 30001>>, <<31000, 31001>>>>] >>
PD(id, n) == [id |-> id, constraints |-> <<>>, cpu |-> 100, mem |-> 32, static_expr |-> "", tcp_inbound |-> n, ipc_inbound |-> 0, controllable |-> TRUE]
PortDescCat == << PD("p1", 1), PD("p2", 2), PD("p3", 3) >>
PortRoundCat ==
  {[offers |-> Pick(PortOfferCat, oi), descs |-> Pick(PortDescCat, di), exec |-> Exec1] :
     oi \in {<<1>>, <<2>>, <<3>>} \cup (IF Thorough THEN {<<1, 2>>, <<2, 3>>} ELSE {}), di \in IncSeqs(3, 3)}

\* an offer whose ports have a HOLE (31005 is not offered) and templates whose static ranges straddle it, lie inside one
\* offered range, end and start at its edges, lie in it, run into it
HoleOffer == [id |-> "oG", host |-> "hG", attrs |-> [machine_id |-> "hG"], cpus |-> 4000, mem |-> 2048,
              ports |-> <<<<31000, 31004>>, <<31006, 31012>>>>]
GD(id, st) == [id |-> id, constraints |-> <<>>, cpu |-> 100, mem |-> 32, static_expr |-> st, tcp_inbound |-> 0, ipc_inbound |-> 0, controllable |-> TRUE]
HoleDescCat == << GD("g1", "31001-31010"), GD("g2", "31002-31003"), GD("g3", "31004,31006"), GD("g4", "31005"), GD("g5", "31003-31006") >>
HoleRoundCat ==
  {[offers |-> <<HoleOffer>>, descs |-> Pick(HoleDescCat, di), exec |-> Exec1] : di \in IncSeqs(5, IF Thorough THEN 3 ELSE 2)}

\* HISTORY over the class registry: deployments in ONE core between which the task template of a class CHANGES in the
\* repository (versions[k] = the descriptors with the template as it is at deployment k): constraints only, inbound
\* channel count only, both, cpu, static ports; one task role, and two roles of the same class.  Every deployment must be
\* placed by the template of ITS version: each versions[k] is an ordinary round (also of RoundSpec).
HD(id, cls, mt, n, cpu, st) ==
  [id |-> id, class |-> cls, chain |-> << <<Ct("machine_type", mt)>>, <<>>, <<>> >>, cpu |-> cpu, mem |-> 32, static_expr |-> st,
   tcp_inbound |-> n, ipc_inbound |-> 0, controllable |-> TRUE]
HistOffers ==
  << [id |-> "oX", host |-> "hX", attrs |-> [machine_id |-> "hX", machine_type |-> "flp"], cpus |-> 4000, mem |-> 2048,
      ports |-> <<<<9000, 9009>>, <<30000, 30009>>>>],
     [id |-> "oY", host |-> "hY", attrs |-> [machine_id |-> "hY", machine_type |-> "epn"], cpus |-> 4000, mem |-> 2048,
      ports |-> <<<<9000, 9009>>, <<30000, 30009>>>>] >>
Hist(vs) == [offers |-> HistOffers, versions |-> vs, exec |-> Exec1]
HistoryCat ==
  { Hist(<< <<HD("e1", "hA", "flp", 1, 100, "")>>, <<HD("e1", "hA", "epn", 1, 100, "")>>, <<HD("e1", "hA", "flp", 1, 100, "")>> >>),
    Hist(<< <<HD("e1", "hB", "flp", 1, 100, "")>>, <<HD("e1", "hB", "flp", 2, 100, "")>>, <<HD("e1", "hB", "flp", 0, 100, "")>> >>),
    Hist(<< <<HD("e1", "hC", "epn", 0, 100, "")>>, <<HD("e1", "hC", "flp", 2, 100, "")>> >>),
    Hist(<< <<HD("e1", "hD", "flp", 1, 100, "")>>, <<HD("e1", "hD", "flp", 1, 300, "")>>, <<HD("e1", "hD", "epn", 1, 300, "")>> >>),
    Hist(<< <<HD("e1", "hE", "flp", 0, 100, "")>>, <<HD("e1", "hE", "flp", 0, 100, "9005-9006")>>, <<HD("e1", "hE", "flp", 0, 100, "9007")>> >>),
    Hist(<< <<HD("e1", "hF", "flp", 1, 100, ""), HD("e2", "hF", "flp", 1, 100, "")>>,
            <<HD("e1", "hF", "epn", 2, 100, ""), HD("e2", "hF", "epn", 2, 100, "")>> >>) }
HistoryRoundCat == UNION {{[offers |-> h.offers, descs |-> h.versions[k], exec |-> h.exec] : k \in 1..Len(h.versions)} : h \in HistoryCat}

RoundCat ==
  {[offers |-> Pick(OfferCat, oi), descs |-> Pick(DescCat, di), exec |-> e] :
     oi \in IncSeqs(Len(OfferCat), 2), di \in IncSeqs(Len(DescCat), IF Thorough THEN 3 ELSE 2),
     e \in IF Thorough THEN {NoExec, Exec1} ELSE {Exec1}}

RoundInit == /\ c = NoCase
             /\ \E x \in RoundCat \cup SharedRoundCat \cup PortRoundCat \cup HoleRoundCat \cup HistoryRoundCat \cup BindRoundCat \cup PinRoundCat : rd = RoundStart(x.offers, x.descs, x.exec)
RoundNext == ((\E oid \in Ids(rd.offers) : ProcessOffer(oid)) \/ Finish) /\ UNCHANGED c
RoundSpec == RoundInit /\ [][RoundNext]_<<c, rd>>

RoundOK == rd.pc = "done" => PlacementOK(rd.offers, rd.descs, ObsOf(rd))
RoundNoPanic == rd.pc # "panic"
\* the parts of PlacementOK, so that TLC names the one a deviation breaks
RoundP1 == rd.pc = "done" => P1Bad(rd.offers, rd.descs, ObsOf(rd).accepts) = {}
RoundP2 == rd.pc = "done" => P2Bad(rd.offers, rd.descs, ObsOf(rd).accepts) = {}
RoundP3 == rd.pc = "done" => P3Bad(rd.offers, rd.descs, ObsOf(rd).accepts) = {}
RoundP4 == rd.pc = "done" => P4Bad(rd.offers, rd.descs, ObsOf(rd).accepts) = {}
RoundP5 == rd.pc = "done" => P5Bad(rd.offers, ObsOf(rd).accepts, ObsOf(rd).declined) = {}
=============================================================================
