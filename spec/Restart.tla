------------------------------ MODULE Restart ------------------------------
(***************************************************************************)
(* C18 - a restarted core kills what it no longer owns, and only that.     *)
(*                                                                         *)
(* Abstract state: the persisted framework id (runtime KV                  *)
(* o2/runtime/aliecs/mesos_fid), the Mesos master (framework ids, event    *)
(* stream, tasks), one core process at a time (generation `life`) with its *)
(* volatile state: in-memory framework id, subscription state, roster,     *)
(* task locks, environments.                                               *)
(*                                                                         *)
(* One action per critical section / message / fault of the real code:     *)
(*  CoreStart        core/task/manager.go NewManager: GetRuntimeEntry      *)
(*                   ("aliecs","mesos_fid") -> fidStore, empty roster       *)
(*  Subscribe /      mesos-go controller.Run: SUBSCRIBE carries            *)
(*  Resubscribe      fidStore's value (WithFrameworkID), first time in a   *)
(*                   life / after the event stream ended                    *)
(*  Subscribed(id)   the master registers / re-registers, opens the stream *)
(*  StoreFid         scheduler.go buildEventHandler: TrackSubscription ->  *)
(*                   fidStore.Set -> SetRuntimeEntry (only on change)       *)
(*  Reconcile        scheduler.go reconciliationCall, on every SUBSCRIBED; *)
(*                   the master answers with one update per non-terminal   *)
(*                   task of the framework                                  *)
(*  ReconcileUpdate(t)   the UPDATE event reaches taskman's MessageChannel *)
(*  KillOnReconcile(t)   manager.go handleMessage: REASON_RECONCILIATION   *)
(*                   and non-terminal => KILL call sent (its outcome is    *)
(*                   ignored by the code)                                   *)
(*  KillArrives(t)   the master gets the call: the task dies               *)
(*  KillLost(t) /    the call has no effect (accepted and lost / refused,   *)
(*  KillRefused(t)   timed out); a scheduler whose calls get lost is       *)
(*                   eventually disconnected (owed; after a failed call    *)
(*                   the HTTP client does it itself), re-subscribes and    *)
(*                   gets a fresh reconciliation answer                     *)
(*  RefreshOnReconcile(t)  ... otherwise updateTaskStatus                  *)
(*  NewEnv (with its pre-deployment Cleanup of unlocked tasks), Launch      *)
(*  (ACCEPT in scheduler.go resourceOffers), Lock                           *)
(*  (acquireTasks SetParent), RosterAppend (acquireTasks roster.append),   *)
(*  TaskRunning, ConfigureSend/Done, StartSend/Done, Release (teardown     *)
(*  releaseTasks), doKillTasks: RosterRemove - or RosterRead then          *)
(*  RosterWrite, the roster being re-written from a filtered copy under    *)
(*  two separate acquisitions of its lock - then KillSend; EnvError        *)
(*  Crash            SIGKILL of the core at any point                       *)
(*  DropConnection   the master closes the event stream                    *)
(*  StreamError      the master sends an ERROR event on the stream         *)
(*  CleanupNamed(e)  gRPC CleanupTasks naming the locked tasks of a live   *)
(*                   environment: refused by KillTasks' filter              *)
(*                                                                         *)
(* Deviations of the tree as found (TRUE = as found):                      *)
(*  Code_ReconcileKillIgnoresRoster  handleMessage sends KILL for every    *)
(*     reconciliation update without consulting the roster                  *)
(*  Code_ReconcileUnawareOfLaunching a task accepted by Mesos but not yet  *)
(*     written to the roster by acquireTasks is unknown to handleMessage    *)
(*  Code_RosterRewriteNotAtomic  doKillTasks takes a filtered copy of the  *)
(*     roster and writes it back in a second critical section: a roster    *)
(*     append (acquireTasks of another environment) in between is erased   *)
(***************************************************************************)
EXTENDS Naturals, FiniteSets, TLC

CONSTANTS Tasks, Envs, MaxCrash, MaxDrop, MaxLost,
          Code_ReconcileKillIgnoresRoster, Code_ReconcileUnawareOfLaunching, Code_RosterRewriteNotAtomic

NoEnv == "-"
ASSUME NoEnv \notin Envs

VARIABLES
  store,     \* persisted framework id, 0 = none
  mfw,       \* master: number of framework ids handed out
  mstream,   \* master: framework id whose event stream is open, 0 = none
  mt,        \* master: task -> [st: none|staging|running|dead, fw]
  rq,        \* reconciliation updates travelling on the event stream
  up,        \* a core process exists
  life,      \* generation of the core process
  cfid,      \* core: framework id in memory (fidStore)
  conn,      \* core: down | subscribing | subd | stored | up
  sfid,      \* framework id carried by the SUBSCRIBE in flight / announced by SUBSCRIBED
  nsubl,     \* SUBSCRIBE calls sent in this life
  roster,    \* core: tasks in the roster
  lock,      \* core: task -> environment holding it (NoEnv = unlocked)
  pend,      \* core: env -> tasks accepted by Mesos for it, not yet in the roster
  env,       \* core: env -> phase
  etasks,    \* core: env -> its tasks
  rcv,       \* core: reconciliation updates queued in taskman's MessageChannel
  snap,      \* core: env -> the filtered copy of the roster its teardown is about to write back
  kq,        \* KILL calls of a reconciliation on their way to the master
  owed,      \* a call was lost since the last subscription: the link is bad, a disconnection is due
  killed,    \* history: <<task, why>> of every KILL call
  crashes, drops, lost

mvars == <<mfw, mstream, mt, rq>>
cvars == <<up, life, cfid, conn, sfid, nsubl, roster, lock, pend, env, etasks, rcv, snap>>
kvars == <<kq, owed, lost>>
vars == <<store, mvars, cvars, kvars, killed, crashes, drops>>

Phases == {"none", "deploying", "launched", "locked", "deployed", "configuring", "configured", "starting",
           "running", "releasing", "rewriting", "killing", "done", "error"}
Transient == {"deploying", "launched", "locked", "deployed", "configuring", "starting", "releasing", "rewriting", "killing"}

Alive(t) == mt[t].st \in {"staging", "running"}
Launching == UNION {pend[e] : e \in Envs}
\* owned by an environment of the current life
Owned(t) == up /\ lock[t] # NoEnv
\* known to the current life (so that it can be killed, cleaned up or reused by it)
Known(t) == up /\ (t \in roster \/ t \in Launching)

TypeOK ==
  /\ store \in Nat /\ mfw \in Nat /\ mstream \in Nat
  /\ mt \in [Tasks -> [st : {"none", "staging", "running", "dead"}, fw : Nat]]
  /\ rq \subseteq Tasks /\ rcv \subseteq Tasks
  /\ up \in BOOLEAN /\ life \in Nat /\ cfid \in Nat /\ sfid \in Nat /\ nsubl \in Nat
  /\ conn \in {"down", "subscribing", "subd", "stored", "up"}
  /\ roster \subseteq Tasks
  /\ lock \in [Tasks -> Envs \cup {NoEnv}]
  /\ pend \in [Envs -> SUBSET Tasks] /\ etasks \in [Envs -> SUBSET Tasks]
  /\ env \in [Envs -> Phases]
  /\ snap \in [Envs -> SUBSET Tasks] /\ kq \subseteq Tasks /\ owed \in BOOLEAN
  /\ killed \subseteq (Tasks \X {"reconcile", "teardown"})
  /\ crashes \in 0..MaxCrash /\ drops \in 0..MaxDrop /\ lost \in 0..MaxLost

CoreFresh ==
  /\ conn' = "down" /\ sfid' = 0 /\ nsubl' = 0 /\ roster' = {} /\ lock' = [t \in Tasks |-> NoEnv]
  /\ pend' = [e \in Envs |-> {}] /\ env' = [e \in Envs |-> "none"] /\ etasks' = [e \in Envs |-> {}] /\ rcv' = {}
  /\ snap' = [e \in Envs |-> {}]

Init ==
  /\ store = 0 /\ mfw = 0 /\ mstream = 0 /\ mt = [t \in Tasks |-> [st |-> "none", fw |-> 0]] /\ rq = {}
  /\ up = FALSE /\ life = 0 /\ cfid = 0 /\ conn = "down" /\ sfid = 0 /\ nsubl = 0 /\ roster = {}
  /\ lock = [t \in Tasks |-> NoEnv] /\ pend = [e \in Envs |-> {}] /\ env = [e \in Envs |-> "none"]
  /\ etasks = [e \in Envs |-> {}] /\ rcv = {} /\ snap = [e \in Envs |-> {}] /\ kq = {} /\ owed = FALSE
  /\ killed = {} /\ crashes = 0 /\ drops = 0 /\ lost = 0

---------------------------------------------------------------------------
\* process life, subscription, reconciliation

CoreStart ==
  /\ ~up
  /\ up' = TRUE /\ life' = life + 1 /\ cfid' = store /\ CoreFresh
  /\ UNCHANGED <<store, mvars, kvars, killed, crashes, drops>>

SubscribeBody ==
  /\ up /\ conn = "down"
  /\ conn' = "subscribing" /\ sfid' = cfid /\ nsubl' = nsubl + 1
  /\ UNCHANGED <<store, mvars, up, life, cfid, roster, lock, pend, env, etasks, rcv, snap, kvars, killed, crashes, drops>>
Subscribe == nsubl = 0 /\ SubscribeBody
Resubscribe == nsubl > 0 /\ SubscribeBody

Subscribed(id) ==
  /\ up /\ conn = "subscribing"
  /\ id = (IF sfid = 0 THEN mfw + 1 ELSE sfid)
  /\ mfw' = (IF sfid = 0 THEN mfw + 1 ELSE mfw)
  /\ mstream' = id /\ sfid' = id /\ conn' = "subd" /\ rq' = {}
  /\ UNCHANGED <<store, mt, up, life, cfid, nsubl, roster, lock, pend, env, etasks, rcv, snap, kvars, killed, crashes, drops>>

StoreFid ==
  /\ up /\ conn = "subd"
  /\ IF cfid # sfid THEN cfid' = sfid /\ store' = sfid ELSE UNCHANGED <<cfid, store>>
  /\ conn' = "stored"
  /\ UNCHANGED <<mvars, up, life, sfid, nsubl, roster, lock, pend, env, etasks, rcv, snap, kvars, killed, crashes, drops>>

Reconcile ==
  /\ up /\ conn = "stored"
  /\ rq' = (IF mstream = cfid THEN {t \in Tasks : Alive(t) /\ mt[t].fw = cfid} ELSE {})
  /\ conn' = "up"
  /\ UNCHANGED <<store, mfw, mstream, mt, up, life, cfid, sfid, nsubl, roster, lock, pend, env, etasks, rcv, snap,
                 kvars, killed, crashes, drops>>

ReconcileUpdate(t) ==
  /\ up /\ conn = "up" /\ t \in rq
  /\ rq' = rq \ {t} /\ rcv' = rcv \cup {t}
  /\ UNCHANGED <<store, mfw, mstream, mt, up, life, cfid, conn, sfid, nsubl, roster, lock, pend, env, etasks, snap,
                 kvars, killed, crashes, drops>>

KillCond(t) ==
  \/ Code_ReconcileKillIgnoresRoster
  \/ t \notin roster /\ (Code_ReconcileUnawareOfLaunching \/ t \notin Launching)

KillOnReconcile(t) ==
  /\ up /\ t \in rcv /\ KillCond(t)
  /\ rcv' = rcv \ {t} /\ kq' = kq \cup {t}
  /\ killed' = killed \cup {<<t, "reconcile">>}
  /\ UNCHANGED <<store, mvars, up, life, cfid, conn, sfid, nsubl, roster, lock, pend, env, etasks, snap, owed, lost,
                 crashes, drops>>

KillArrives(t) ==
  /\ t \in kq
  /\ kq' = kq \ {t}
  /\ mt' = [mt EXCEPT ![t].st = IF Alive(t) THEN "dead" ELSE @]
  /\ UNCHANGED <<store, mfw, mstream, rq, cvars, owed, lost, killed, crashes, drops>>

\* the call is accepted and gets lost behind the master's door: nobody notices
KillLost(t) ==
  /\ up /\ t \in kq /\ lost < MaxLost
  /\ kq' = kq \ {t} /\ lost' = lost + 1 /\ owed' = TRUE
  /\ UNCHANGED <<store, mvars, cvars, killed, crashes, drops>>
\* the call fails (HTTP error, timeout): handleMessage ignores that, but the HTTP client (mesos-go httpsched) takes
\* any failed call for a sign that the master has changed, gives its subscription up and subscribes again
KillRefused(t) == KillLost(t)

RefreshOnReconcile(t) ==
  /\ up /\ t \in rcv /\ ~KillCond(t)
  /\ rcv' = rcv \ {t}
  /\ UNCHANGED <<store, mvars, up, life, cfid, conn, sfid, nsubl, roster, lock, pend, env, etasks, snap, kvars, killed,
                 crashes, drops>>

---------------------------------------------------------------------------
\* life of an environment (abstracted)

SetEnv(e, ph) == env' = [env EXCEPT ![e] = ph]
CoreSame == UNCHANGED <<up, life, cfid, conn, sfid, nsubl, kvars>>

\* environment/manager.go CreateEnvironment starts with taskman.Cleanup(): every unlocked task of the roster is taken off
\* it and killed (the released tasks of a teardown that has not got to them yet)
Unlocked == {t \in roster : lock[t] = NoEnv}
NewEnv(e) ==
  /\ up /\ env[e] = "none" /\ SetEnv(e, "deploying")
  /\ roster' = roster \ Unlocked
  /\ mt' = [t \in Tasks |-> IF t \in Unlocked /\ Alive(t) THEN [mt[t] EXCEPT !.st = "dead"] ELSE mt[t]]
  /\ killed' = killed \cup {<<t, "teardown">> : t \in {x \in Unlocked : Alive(x)}}
  /\ CoreSame /\ UNCHANGED <<store, mfw, mstream, rq, lock, pend, etasks, rcv, snap, crashes, drops>>

\* ACCEPT: from now on Mesos knows the tasks (TASK_STAGING)
Launch(e, T) ==
  /\ up /\ conn = "up" /\ mstream = cfid /\ env[e] = "deploying"
  /\ T # {} /\ T \subseteq {t \in Tasks : mt[t].st = "none"}
  /\ mt' = [t \in Tasks |-> IF t \in T THEN [st |-> "staging", fw |-> cfid] ELSE mt[t]]
  /\ pend' = [pend EXCEPT ![e] = T] /\ etasks' = [etasks EXCEPT ![e] = T] /\ SetEnv(e, "launched")
  /\ CoreSame /\ UNCHANGED <<store, mfw, mstream, rq, roster, lock, rcv, snap, killed, crashes, drops>>

Lock(e) ==
  /\ up /\ env[e] = "launched"
  /\ lock' = [t \in Tasks |-> IF t \in pend[e] THEN e ELSE lock[t]] /\ SetEnv(e, "locked")
  /\ CoreSame /\ UNCHANGED <<store, mvars, roster, pend, etasks, rcv, snap, killed, crashes, drops>>

RosterAppend(e) ==
  /\ up /\ env[e] = "locked"
  /\ roster' = roster \cup pend[e] /\ pend' = [pend EXCEPT ![e] = {}] /\ SetEnv(e, "deployed")
  /\ CoreSame /\ UNCHANGED <<store, mvars, lock, etasks, rcv, snap, killed, crashes, drops>>

\* the agent reports TASK_RUNNING (whether or not a core listens)
TaskRunning(t) ==
  /\ mt[t].st = "staging"
  /\ mt' = [mt EXCEPT ![t].st = "running"]
  /\ UNCHANGED <<store, mfw, mstream, rq, cvars, kvars, killed, crashes, drops>>

AllRunning(e) == \A t \in etasks[e] : mt[t].st = "running"

ConfigureSend(e) ==
  /\ up /\ conn = "up" /\ env[e] = "deployed" /\ AllRunning(e) /\ SetEnv(e, "configuring")
  /\ CoreSame /\ UNCHANGED <<store, mvars, roster, lock, pend, etasks, rcv, snap, killed, crashes, drops>>
ConfigureDone(e) ==
  /\ up /\ conn = "up" /\ env[e] = "configuring" /\ AllRunning(e) /\ SetEnv(e, "configured")
  /\ CoreSame /\ UNCHANGED <<store, mvars, roster, lock, pend, etasks, rcv, snap, killed, crashes, drops>>
StartSend(e) ==
  /\ up /\ env[e] = "configured" /\ AllRunning(e) /\ SetEnv(e, "starting")
  /\ CoreSame /\ UNCHANGED <<store, mvars, roster, lock, pend, etasks, rcv, snap, killed, crashes, drops>>
StartDone(e) ==
  /\ up /\ conn = "up" /\ env[e] = "starting" /\ AllRunning(e) /\ SetEnv(e, "running")
  /\ CoreSame /\ UNCHANGED <<store, mvars, roster, lock, pend, etasks, rcv, snap, killed, crashes, drops>>

\* teardown: tasks released (unlocked), removed from the roster, killed
Release(e) ==
  /\ up /\ env[e] \in {"configured", "error"}
  /\ lock' = [t \in Tasks |-> IF lock[t] = e THEN NoEnv ELSE lock[t]] /\ SetEnv(e, "releasing")
  /\ CoreSame /\ UNCHANGED <<store, mvars, roster, pend, etasks, rcv, snap, killed, crashes, drops>>
\* doKillTasks: m.roster.updateTasks(m.roster.filtered(...)) - the filtered copy is taken under the roster's
\* read lock, written back under its write lock
RosterRemove(e) ==
  /\ ~Code_RosterRewriteNotAtomic /\ up /\ env[e] = "releasing"
  /\ roster' = roster \ etasks[e] /\ SetEnv(e, "killing")
  /\ CoreSame /\ UNCHANGED <<store, mvars, lock, pend, etasks, rcv, snap, killed, crashes, drops>>
RosterRead(e) ==
  /\ Code_RosterRewriteNotAtomic /\ up /\ env[e] = "releasing"
  /\ snap' = [snap EXCEPT ![e] = roster \ etasks[e]] /\ SetEnv(e, "rewriting")
  /\ CoreSame /\ UNCHANGED <<store, mvars, roster, lock, pend, etasks, rcv, killed, crashes, drops>>
RosterWrite(e) ==
  /\ up /\ env[e] = "rewriting"
  /\ roster' = snap[e] /\ SetEnv(e, "killing")
  /\ CoreSame /\ UNCHANGED <<store, mvars, lock, pend, etasks, rcv, snap, killed, crashes, drops>>
KillSend(e) ==
  /\ up /\ env[e] = "killing"
  /\ mt' = [t \in Tasks |-> IF t \in etasks[e] /\ Alive(t) THEN [mt[t] EXCEPT !.st = "dead"] ELSE mt[t]]
  /\ killed' = killed \cup {<<t, "teardown">> : t \in {x \in etasks[e] : Alive(x)}}
  /\ SetEnv(e, "done")
  /\ CoreSame /\ UNCHANGED <<store, mfw, mstream, rq, roster, lock, pend, etasks, rcv, snap, crashes, drops>>

\* a task of a live environment died: the environment ends in ERROR (or fails to be created)
EnvError(e) ==
  /\ up /\ env[e] \in {"launched", "locked", "deployed", "configuring", "configured", "starting", "running"}
  /\ \E t \in etasks[e] : mt[t].st = "dead"
  /\ SetEnv(e, "error")
  /\ CoreSame /\ UNCHANGED <<store, mvars, roster, lock, pend, etasks, rcv, snap, killed, crashes, drops>>

---------------------------------------------------------------------------
\* faults

Crash ==
  /\ up /\ crashes < MaxCrash
  /\ up' = FALSE /\ cfid' = 0 /\ CoreFresh /\ rq' = {} /\ mstream' = 0 /\ crashes' = crashes + 1
  /\ kq' = {} /\ owed' = FALSE   \* calls in flight die with the process; the next life reconciles anyway
  /\ UNCHANGED <<store, mfw, mt, life, killed, drops, lost>>

\* the master closes the event stream: at any time (counted), or because the link has been losing calls (due)
DropConnection ==
  /\ up /\ conn = "up" /\ mstream # 0 /\ (drops < MaxDrop \/ owed)
  /\ mstream' = 0 /\ rq' = {} /\ conn' = "down" /\ drops' = (IF owed THEN drops ELSE drops + 1) /\ owed' = FALSE
  /\ UNCHANGED <<store, mfw, mt, up, life, cfid, sfid, nsubl, roster, lock, pend, env, etasks, rcv, snap, kq, lost, killed, crashes>>

\* Mesos sends an ERROR event on the stream (scheduler library: subscription over, subscribe again): for the core a
\* disconnection like any other - same identity afterwards
StreamError == DropConnection

\* gRPC CleanupTasks with an explicit list naming the tasks of a live environment: Manager.KillTasks' filter refuses locked
\* tasks - nothing is killed, nothing leaves the roster
CleanupNamed(e) ==
  /\ up /\ env[e] \in {"configured", "running"}
  /\ UNCHANGED vars

---------------------------------------------------------------------------
Recovery ==
  \/ CoreStart \/ Subscribe \/ Resubscribe \/ (\E id \in 1..(MaxCrash + 2) : Subscribed(id)) \/ StoreFid \/ Reconcile
  \/ \E t \in Tasks : ReconcileUpdate(t) \/ KillOnReconcile(t) \/ RefreshOnReconcile(t) \/ KillArrives(t)
LifeCycle ==
  \/ \E e \in Envs : \/ NewEnv(e) \/ (\E T \in SUBSET Tasks : Launch(e, T)) \/ Lock(e) \/ RosterAppend(e)
                     \/ ConfigureSend(e) \/ ConfigureDone(e) \/ StartSend(e) \/ StartDone(e)
                     \/ Release(e) \/ RosterRemove(e) \/ RosterRead(e) \/ RosterWrite(e) \/ KillSend(e) \/ EnvError(e)
                     \/ CleanupNamed(e)
  \/ \E t \in Tasks : TaskRunning(t)
Faults == Crash \/ DropConnection \/ StreamError \/ \E t \in Tasks : KillLost(t) \/ KillRefused(t)

Next == Recovery \/ LifeCycle \/ Faults

Fairness ==
  /\ WF_vars(CoreStart) /\ WF_vars(SubscribeBody) /\ WF_vars(\E id \in 1..(MaxCrash + 2) : Subscribed(id))
  /\ WF_vars(StoreFid) /\ WF_vars(Reconcile)
  /\ \A t \in Tasks : WF_vars(ReconcileUpdate(t)) /\ WF_vars(KillOnReconcile(t)) /\ WF_vars(RefreshOnReconcile(t))
  \* a KILL call on its way gets through unless it is lost (at most MaxLost are): eventually one gets through
  /\ \A t \in Tasks : WF_vars(KillArrives(t))
  \* a scheduler whose calls get lost is eventually disconnected
  /\ WF_vars(owed /\ DropConnection)
  \* a teardown which has taken its tasks off the roster goes on to send the KILL calls
  /\ \A e \in Envs : WF_vars(KillSend(e))

Spec == Init /\ [][Next]_vars /\ Fairness

---------------------------------------------------------------------------
\* properties

\* once an identity is established every SUBSCRIBE carries it, and it never changes
SameIdentity == [][(conn # "subscribing" /\ conn' = "subscribing" /\ store # 0) => sfid' = store]_vars
IdentityStable == [][store # 0 => store' = store]_vars
\* every task alive at the master runs under the stored identity (so that reconciliation can find it)
TasksUnderIdentity == \A t \in Tasks : Alive(t) => (store # 0 /\ mt[t].fw = store)

\* a task alive at the master which the current life neither knows nor owns is eventually killed - lost KILL
\* calls notwithstanding: Mesos reports it again at every subscription and it is killed again
NoOrphans == \A t \in Tasks : (Alive(t) /\ ~Known(t) /\ ~Owned(t)) ~> ~Alive(t)

\* reconciliation never kills a task owned by an environment of the current life
NoFriendlyFire == [][\A t \in Tasks : KillOnReconcile(t) => ~Owned(t)]_vars

\* the ways the tree as found breaks it: the victim is in the roster / is on its way into it / was in it and has
\* been erased from it
NoFriendlyFireRostered == [][\A t \in Tasks : KillOnReconcile(t) => ~(Owned(t) /\ t \in roster)]_vars
NoFriendlyFireLaunching ==
  [][\A t \in Tasks : KillOnReconcile(t) => ~(Owned(t) /\ t \notin roster /\ t \in pend[lock[t]])]_vars
NoFriendlyFireForgotten ==
  [][\A t \in Tasks : KillOnReconcile(t) => ~(Owned(t) /\ t \notin roster /\ t \notin pend[lock[t]])]_vars

\* consequence for the environments: none is ever driven to ERROR (the model has no other fault source)
EnvsStay == \A e \in Envs : env[e] # "error"

\* ownership knowledge is not lost: what a deployment wrote to the roster for its environment stays there as long as
\* the environment holds it (else a reconciliation answer finds it unknown)
RosterKeepsOwned ==
  \A t \in Tasks : (up /\ lock[t] # NoEnv /\ t \notin pend[lock[t]]) => t \in roster

\* the roster only ever holds tasks of the current life, launched under the current identity
RosterOfThisLife == \A t \in roster : up /\ mt[t].st # "none" /\ mt[t].fw = cfid
=============================================================================
