----------------------------- MODULE EnvFSMGen -----------------------------
(* Scenario generator for EnvFSM, sequential family: a new request is only   *)
(* submitted when nobody is active, so each behaviour is a history of         *)
(* requests with a choice of the phase at which each transition fails.        *)
EXTENDS EnvFSMMC
Quiet == \A p \in Procs : pc[p] \in {"idle", "end"}
G_Submit(c, r) == Quiet /\ (\A d \in Callers : pc[d] = "idle" => c <= d) /\ Submit(c, r)
G_Step ==
  \E p \in Procs : Lock(p) \/ Lookup(p) \/ Before(p) \/ Leave(p) \/ Body(p) \/ Flip(p) \/ Enter(p) \/ After(p)
                   \/ Unlock(p) \/ Result(p) \/ Force(p) \/ Reply(p)
                   \/ (p \in Callers /\ (DPlan(p) \/ TdLock(p) \/ TdCheck(p) \/ TdWork(p) \/ TdDone(p) \/ TdUnlock(p)))
GenNext == (\E c \in Callers, r \in Requests : G_Submit(c, r)) \/ G_Step
GenSpec == Init /\ [][GenNext]_vars
=============================================================================
