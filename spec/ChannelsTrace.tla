--------------------------- MODULE ChannelsTrace ---------------------------
(***************************************************************************)
(* Trace specification for C13 over runs of the real core recorded by the  *)
(* whole-core simulation (harness/cmd/coresim); projection by C13.py:      *)
(*   Reset{scn, model: the case (see Channels)}                            *)
(*   MAccept{grants: [{t, host, ports}]}   ports granted to a task at      *)
(*                                          launch (ACCEPT call)           *)
(*   MMessage{t, chans: [{name, method, address, scheme, transport}]}      *)
(*                         the chans.NAME.0.FIELD arguments of the         *)
(*                         CONFIGURE command a simulated executor received *)
(*   ApiReply{code, why}   result of NewEnvironment (why: nomatch | alias  *)
(*                         | other, classified from the error text)        *)
(* Strict: outcome = Outcome(case); every task is told exactly             *)
(*   Expected(case, granted ports, ipc paths told to the binders, task).   *)
(* Monitor (soft invariants, independent of the deviation constants): the  *)
(*   property formulas of Channels on the recorded facts.                  *)
(***************************************************************************)
EXTENDS Channels, Json, IOUtils

Trace == ndJsonDeserialize(IOEnv.TRACE_FILE)

VARIABLES l, scn, c, grants, hosts, obs, cfgd, lost, nviol
tvars == <<l, scn, c, grants, hosts, obs, cfgd, lost, nviol>>

Line == Trace[l]
Soft(name, cond, detail) == IF cond THEN 0 ELSE IF PrintT(<<"VIOL", name, scn, l, detail>>) THEN 1 ELSE 1
Drift(what) == PrintT(<<"DRIFT", scn, l, what>>)

NoCase == [tasks |-> <<>>, inb |-> <<>>, outb |-> <<>>, props |-> <<>>]
Empty(v) == [k \in AllIds |-> v]
DynPorts(ps) == SelectSeq(ps, LAMBDA p : p >= 9000 /\ p < 30000)

TReset ==
  /\ Line.ev = "Reset"
  /\ scn' = Line.scn /\ c' = Line.model /\ grants' = Empty(<<>>) /\ hosts' = Empty("") /\ obs' = Empty({})
  /\ cfgd' = {} /\ lost' = FALSE
  /\ UNCHANGED nviol

\* ACCEPT: remember the ports granted to each launched task and where it was placed
GrantOf(k) == {Line.grants[i] : i \in {j \in 1..Len(Line.grants) : Line.grants[j].t = k}}
TAccept ==
  /\ Line.ev = "MAccept"
  /\ grants' = [k \in AllIds |-> IF GrantOf(k) # {} THEN DynPorts((CHOOSE x \in GrantOf(k) : TRUE).ports) ELSE grants[k]]
  /\ hosts' = [k \in AllIds |-> IF GrantOf(k) # {} THEN (CHOOSE x \in GrantOf(k) : TRUE).host ELSE hosts[k]]
  /\ LET bad == {k \in AllIds : GrantOf(k) # {} /\ (k \notin TaskIds(c) \/ grants[k] # <<>> \/
                                                    (k \in TaskIds(c) /\ (CHOOSE x \in GrantOf(k) : TRUE).host # HostOf(c, k)))}
     IN IF bad = {} \/ lost THEN lost' = lost ELSE Drift(<<"placement", bad>>) /\ lost' = TRUE
  /\ UNCHANGED <<scn, c, obs, cfgd, nviol>>

TMessage ==
  /\ Line.ev = "MMessage"
  /\ obs' = [obs EXCEPT ![Line.t] = SeqSet(Line.chans)]
  /\ cfgd' = cfgd \cup {Line.t}
  /\ IF Line.t \in cfgd /\ ~lost THEN Drift(<<"configured twice", Line.t>>) /\ lost' = TRUE ELSE lost' = lost
  /\ UNCHANGED <<scn, c, grants, hosts, nviol>>

ObsIpc == [x \in AllIds \X {"a", "b"} |-> IF Told(obs, x[1], x[2]) # {} THEN (CHOOSE r \in Told(obs, x[1], x[2]) : TRUE).address ELSE ""]

TReply ==
  /\ Line.ev = "ApiReply"
  /\ LET out == IF Line.code = "OK" THEN "configured" ELSE Line.why
         pred == Outcome(c)
         ids == TaskIds(c)
         granted == \A k \in ids : Len(grants[k]) = NeedPorts(c, k)
     IN /\ IF lost THEN TRUE
           ELSE IF out # pred THEN Drift(<<"outcome", out, pred>>)
           ELSE IF out = "configured" /\ ~granted THEN Drift(<<"ports", grants>>)
           ELSE IF out = "configured" /\ cfgd # ids THEN Drift(<<"configured tasks", cfgd>>)
           ELSE IF out # "configured" /\ cfgd # {} THEN Drift(<<"configured although rejected", cfgd>>)
           ELSE IF out = "configured" /\ \E k \in ids : obs[k] # Expected(c, grants, ObsIpc, k)
                  THEN Drift(<<"told", {<<k, obs[k], Expected(c, grants, ObsIpc, k)>> : k \in {j \in ids : obs[j] # Expected(c, grants, ObsIpc, j)}}>>)
           ELSE TRUE
        /\ IF out = "other" \/ (out = "configured" /\ cfgd # ids)
             THEN PrintT(<<"HARNESS", scn, l, out, cfgd>>) /\ nviol' = nviol
             ELSE nviol' = nviol
                    + Soft("ConnectMatchesBind", V_ConnectMatchesBind(c, grants, obs, out) = {}, V_ConnectMatchesBind(c, grants, obs, out))
                    + Soft("BindExactly", V_BindExactly(c, grants, obs, out) = {}, V_BindExactly(c, grants, obs, out))
                    + Soft("Passthrough", V_Passthrough(c, grants, obs, out) = {}, V_Passthrough(c, grants, obs, out))
                    + Soft("DanglingRejected", V_DanglingRejected(c, grants, obs, out) = {}, V_DanglingRejected(c, grants, obs, out))
                    + Soft("AliasConflictRejected", V_AliasConflictRejected(c, grants, obs, out) = {}, V_AliasConflictRejected(c, grants, obs, out))
                    + Soft("RoleOverridesTemplate", V_RoleOverridesTemplate(c, grants, obs, out) = {}, V_RoleOverridesTemplate(c, grants, obs, out))
                    + Soft("ValidAccepted", V_ValidAccepted(c, grants, obs, out) = {}, V_ValidAccepted(c, grants, obs, out))
  /\ lost' = TRUE   \* one create per scenario: anything after the reply is not judged
  /\ UNCHANGED <<scn, c, grants, hosts, obs, cfgd>>

TOther ==
  /\ Line.ev \notin {"Reset", "MAccept", "MMessage", "ApiReply"}
  /\ UNCHANGED <<scn, c, grants, hosts, obs, cfgd, lost, nviol>>

TraceInit ==
  /\ l = 1 /\ scn = -1 /\ c = NoCase /\ grants = Empty(<<>>) /\ hosts = Empty("") /\ obs = Empty({}) /\ cfgd = {}
  /\ lost = TRUE /\ nviol = 0

TraceNext ==
  /\ l <= Len(Trace)
  /\ (TReset \/ TAccept \/ TMessage \/ TReply \/ TOther)
  /\ l' = l + 1

TraceSpec == TraceInit /\ [][TraceNext]_tvars
PrintEnd == (l = Len(Trace) + 1) => PrintT(<<"END", Len(Trace), nviol>>)
=============================================================================
