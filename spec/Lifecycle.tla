------------------------------ MODULE Lifecycle ------------------------------
(***************************************************************************)
(* C04 "a task or detector belongs to at most one environment" and         *)
(* C06 "destroying or failing to create an environment leaves nothing      *)
(* behind" for the AliECS core.                                            *)
(*                                                                         *)
(* One action per critical section / message / hook point of               *)
(*   core/environment/manager.go  CreateEnvironment, TeardownEnvironment,  *)
(*                                cancelCallsPendingAwait                  *)
(*   core/server.go               NewEnvironment, ControlEnvironment,      *)
(*                                DestroyEnvironment, doTeardownAndCleanup,*)
(*                                CleanupTasks/doCleanupTasks              *)
(*   core/task/manager.go         acquireTasks, releaseTasks/releaseTask,  *)
(*                                Cleanup, KillTasks, doKillTasks          *)
(*   core/task/task.go            IsLocked / IsClaimable / SetParent       *)
(*   common/utils/safeacks        (KillTasks waits for one ack per KILL)   *)
(* The name of the trace line that witnesses each action is given in       *)
(* brackets; spec/LifecycleTrace.tla replays recorded runs of the real     *)
(* core on these actions.                                                  *)
(*                                                                         *)
(* Ownership: owner[t] = e  iff  Task.parent is a role of e AND the task   *)
(* passed the deployment round (hook point task.lock).  A task that is     *)
(* launched but whose round failed was never owned (parent reset before    *)
(* the task enters the roster).                                            *)
(*                                                                         *)
(* BOOLEAN constants Code_* describe confirmed deviations of the code;     *)
(* with all of them FALSE the model is the intended design.                *)
(***************************************************************************)
EXTENDS Naturals, Integers, FiniteSets, Sequences, TLC

CONSTANTS
  Envs,            \* environment ids
  TaskIds,         \* pool of task ids
  Dets,            \* detectors
  Hosts,           \* hosts shared by all environments
  ReuseUnlocked,   \* core flag --reuseUnlockedTasks
  BasicChoices,    \* set of sets of basic task roles (subsets of {"a","b"}) a workflow may have
  HookChoices,     \* set of sets of DESTROY hooks (subsets of DOMAIN HookDef)
  PendChoices,     \* subset of BOOLEAN: workflow has a call started at START that is awaited at STOP
  DetChoices,      \* set of detector sets a create may ask for
  Scripts,         \* creation outcomes: subset of ScriptNames
  Ops,             \* control operations offered to clients
  DestroyFlags,    \* set of flag sets, subsets of {"force", "allow", "keep"}
  KillOutcomes,    \* subset of {"ack", "silent"}
  FaultRoles,      \* task roles whose task may die on its own
  MaxCalls,        \* bound on the number of API calls
  MaxInFlight,     \* bound on the number of API calls in progress at the same time
  Code_DetectorCheckNotAtomic,      \* detector check uses the snapshot taken at the start of CreateEnvironment
  Code_OnlyLastWeightHooksReleased, \* second release message is overwritten per weight in the DESTROY hooks loop
  Code_InactiveHookNotReleased,     \* a DESTROY hook task whose role is not ACTIVE is neither triggered nor released
  Code_AfterDestroyOverwrites,      \* after_DESTROY hooks replace DESTROY hooks of equal weight in the merged map
  Code_FirstMessageResent,          \* without DESTROY hooks the second release message is the first one again
  Code_ClaimNotAtomic,              \* reuse: a task is claimed long before it is locked; until then nothing excludes a
                                    \* second claim or a Cleanup that kills it
  Code_AllClaimedCrashes,           \* reuse: acquireTasks unlocks deployMu although it did not lock it when every
                                    \* descriptor was satisfied by a claimed task: fatal error, the core process dies
  Code_RetryForgetsLaunched,        \* deployment retry drops the tasks launched by the failed attempt
  Code_InactiveDroppedUnkilled      \* doKillTasks drops tasks whose status is not ACTIVE without a KILL

None == "none"
ScriptNames == {"ok", "load", "undeployable", "partial", "launchfail", "silentlaunch", "configfail"}
BasicRoles == {"a", "b"}
HostOf(r) == IF r = "b" THEN "h2" ELSE "h1"     \* role constraints: a and hooks on h1, b on h2

(* DESTROY hooks a workflow may declare: hook tasks (control mode hook) and call hooks *)
HookDef == [h1 |-> [kind |-> "task", trig |-> "DESTROY",       w |-> 0],
            h2 |-> [kind |-> "task", trig |-> "DESTROY",       w |-> 1],
            h3 |-> [kind |-> "task", trig |-> "after_DESTROY", w |-> 0],
            d1 |-> [kind |-> "call", trig |-> "DESTROY",       w |-> 0],
            d2 |-> [kind |-> "call", trig |-> "DESTROY",       w |-> 1],
            d3 |-> [kind |-> "call", trig |-> "after_DESTROY", w |-> 0]]
HookNames == DOMAIN HookDef
HookTaskNames == {h \in HookNames : HookDef[h].kind = "task"}
TaskRoleNames == BasicRoles \cup HookTaskNames
States == {"STANDBY", "DEPLOYED", "CONFIGURED", "RUNNING", "ERROR", "DONE"}

VARIABLES
  (* API calls in flight: one create per environment, at most one destroy and one control per
     environment at a time, one CleanupTasks at a time *)
  cpc,       \* [Envs -> create program counter]
  dpc,       \* [Envs -> destroy program counter]
  xpc,       \* [Envs -> control program counter]
  kpc,       \* CleanupTasks program counter
  wf,        \* [Envs -> workflow shape [basic, hooks, pend]]
  script,    \* [Envs -> scripted creation outcome]
  dets,      \* [Envs -> detectors of the workflow]
  dfl,       \* [Envs -> flags of the destroy in flight]
  xop,       \* [Envs -> control operation in flight]
  (* environment manager *)
  snap,      \* [Envs -> active detectors read at the start of CreateEnvironment]
  listed,    \* environments in Manager.m
  est,       \* [Envs -> state of the environment state machine]
  elock,     \* [Envs -> holder of Environment.transitionMutex: "free" | "c" (DEPLOY) | "td"]
  pend,      \* [Envs -> a started call sits in callsPendingAwait]
  (* acquireTasks goroutine of the DEPLOY transition *)
  apc,       \* [Envs -> "idle" | "acq" | "locking" | "failing" | "done" | "failed"]
  att,       \* [Envs -> deployment attempt 1..3]
  cur,       \* [Envs -> tasks launched in the current attempt]
  claimed,   \* [Envs -> unlocked roster tasks claimed for reuse]
  roleTask,  \* [Envs -> [TaskRoleNames -> task | None]]   role.Task (never reset)
  (* TeardownEnvironment *)
  tdp,       \* [Envs -> teardown program counter]
  tdwho,     \* [Envs -> "c" (failure tail of create) | "d" (DestroyEnvironment)]
  tdforce,   \* [Envs -> force flag of the teardown in progress]
  relq,      \* [Envs -> tasks of the release message being processed by releaseTasks]
  msg2,      \* [Envs -> tasks of the second release message]
  relerr,    \* [Envs -> a release was refused]
  dforced,   \* [Envs -> destroy decided to force (state not allowed / transition failed / plain teardown refused)]
  dplan,     \* [Envs -> transition DestroyEnvironment decided to try first: None | "STOP_ACTIVITY" | "RESET"]
  dkeepEff,  \* [Envs -> keepTasks as passed to doTeardownAndCleanup (dropped when the state forces the teardown)]
  ktargets,  \* [Envs -> task ids captured for KillTasks by the create failure tail]
  (* kill batches *)
  kq,        \* [Killers -> tasks selected by that Cleanup()/KillTasks() call whose KILL was not sent yet]
  ksent,     \* [Killers -> tasks that call sent a KILL for]
  ksel,      \* [Killers -> tasks the call found when it filtered the roster, not yet looked at]
  kpre,      \* [Killers -> tasks looked at, still in the roster]
  kact,      \* [Killers -> those of them whose status was ACTIVE]
  kst,       \* [Killers -> "idle" | "run" (the roster was filtered) | "removed" (doKillTasks took them out of the roster)]
  (* tasks *)
  tenv,      \* [TaskIds -> environment the task was launched for | None (not launched)]
  trole,     \* [TaskIds -> role]
  owner,     \* [TaskIds -> Envs \cup {None}]
  inRoster,  \* [TaskIds -> BOOLEAN]
  running,   \* [TaskIds -> the agent reported TASK_RUNNING]
  standby,   \* [TaskIds -> O2 state of the task is STANDBY]
  alive,     \* [TaskIds -> not terminal at Mesos]
  triggered, \* [TaskIds -> hook task was triggered, it will exit]
  killSent,  \* [TaskIds -> a KILL call was sent]
  (* history *)
  lastOwner, \* [TaskIds -> the last environment that owned the task | None]
  killedOwned, \* a KILL was sent for an owned task
  cmdForeign,  \* a transition of e commanded a task not owned by e
  crashed,     \* the core process died
  conflictIn,  \* an environment was registered while one of its detectors was held
  hooksEarly,  \* DESTROY hooks ran while a non-hook task of the environment was still owned
  cret,      \* [Envs -> reply of create: "none" | "ok" | "err"]
  dret,      \* [Envs -> reply of the last destroy: "none" | "ok" | "err"]
  dkeep,     \* [Envs -> some destroy that returned ok asked to keep tasks]
  ncalls

cvars == <<cpc, wf, script, dets, snap, cret, ktargets>>
dvars == <<dpc, dfl, dret, dkeep, dforced, dkeepEff, dplan>>
xvars == <<xpc, xop>>
evars == <<listed, est, elock, pend>>
avars == <<apc, att, cur, claimed, roleTask>>
tdvars == <<tdp, tdwho, tdforce, relq, msg2, relerr>>
tvars == <<tenv, trole, owner, inRoster, running, standby, alive, triggered, killSent, kq, ksent, ksel, kpre, kact, kst>>
hvars == <<lastOwner, killedOwned, cmdForeign, conflictIn, hooksEarly, crashed>>
vars == <<cvars, dvars, xvars, kpc, evars, avars, tdvars, tvars, hvars, ncalls>>

(* ------------------------------------------------------------------------ *)
Killers == {<<"api", "api">>} \cup {<<e, k>> : e \in Envs, k \in {"c", "ck", "d"}}
AllKq == UNION {kq[k] : k \in Killers}
AllKsel == UNION {ksel[k] \cup kpre[k] : k \in Killers}
InFlight == Cardinality({e \in Envs : cpc[e] \notin {"none", "ret"}}) + Cardinality({e \in Envs : dpc[e] # "idle"})
            + Cardinality({e \in Envs : xpc[e] # "idle"}) + (IF kpc = "idle" THEN 0 ELSE 1)
MayCall == ncalls < MaxCalls /\ InFlight < MaxInFlight
KDone(k) == kst[k] = "removed" /\ kq[k] = {}
KAcked(k) == \A t \in ksent[k] : ~alive[t]        \* KillTasks: SafeAcks, one ack per KILL sent by the call
KReset(k) == /\ kst' = [kst EXCEPT ![k] = "idle"] /\ ksent' = [ksent EXCEPT ![k] = {}]
             /\ UNCHANGED <<kq, ksel, kpre, kact>>
tvarsNoK == <<tenv, trole, owner, inRoster, running, standby, alive, triggered, killSent>>
NoWf == [basic |-> {}, hooks |-> {}, pend |-> FALSE]
NoRoles == [r \in TaskRoleNames |-> None]

Launched == {t \in TaskIds : tenv[t] # None}
TaskRolesOf(e) == wf[e].basic \cup (wf[e].hooks \cap HookTaskNames)
EnvTasks(e) == {roleTask[e][r] : r \in TaskRoleNames} \ {None}
TasksOfRoles(e, R) == {roleTask[e][r] : r \in R} \ {None}
ActiveDets == UNION {dets[e] : e \in listed}
Locked(t) == owner[t] # None
Claimable(t) == inRoster[t] /\ ~Locked(t) /\ running[t] /\ alive[t] /\ standby[t]

(* --- DESTROY hooks as TeardownEnvironment sees them --- *)
HW(H, trig, w) == {h \in H : HookDef[h].trig = trig /\ HookDef[h].w = w}
WeightsOf(H) == {HookDef[h].w : h \in H}
MergedAt(H, w) == IF Code_AfterDestroyOverwrites /\ HW(H, "after_DESTROY", w) # {}
                    THEN HW(H, "after_DESTROY", w)
                    ELSE HW(H, "DESTROY", w) \cup HW(H, "after_DESTROY", w)
Recognised(H) == UNION {MergedAt(H, w) : w \in WeightsOf(H)}
MaxW(H) == CHOOSE w \in WeightsOf(H) : \A v \in WeightsOf(H) : v <= w
HookTaskRoles(e) == Recognised(wf[e].hooks) \cap HookTaskNames
FirstRelRoles(e) == TaskRolesOf(e) \ HookTaskRoles(e)
Msg1(e) == TasksOfRoles(e, FirstRelRoles(e))
\* T = hook tasks that were triggered (role ACTIVE in the core's eyes)
Msg2(e, T) ==
  LET H == wf[e].hooks IN
  IF WeightsOf(H) = {} THEN (IF Code_FirstMessageResent THEN Msg1(e) ELSE {})
  ELSE LET cand == IF Code_OnlyLastWeightHooksReleased
                     THEN TasksOfRoles(e, MergedAt(H, MaxW(H)) \cap HookTaskNames)
                     ELSE TasksOfRoles(e, HookTaskRoles(e))
       IN IF Code_InactiveHookNotReleased THEN cand \cap T ELSE cand

(* --- environment state machine --- *)
Valid(op, s) ==
  CASE op = "DEPLOY" -> s = "STANDBY"
    [] op = "CONFIGURE" -> s = "DEPLOYED"
    [] op = "RESET" -> s = "CONFIGURED"
    [] op = "START_ACTIVITY" -> s = "CONFIGURED"
    [] op = "STOP_ACTIVITY" -> s = "RUNNING"
    [] op = "GO_ERROR" -> s \in {"STANDBY", "CONFIGURED", "DEPLOYED", "RUNNING"}
    [] OTHER -> FALSE
Dst(op) ==
  CASE op = "DEPLOY" -> "DEPLOYED" [] op = "CONFIGURE" -> "CONFIGURED" [] op = "RESET" -> "DEPLOYED"
    [] op = "START_ACTIVITY" -> "RUNNING" [] op = "STOP_ACTIVITY" -> "CONFIGURED" [] op = "GO_ERROR" -> "ERROR"
    [] OTHER -> "?"
\* every basic (critical) task of e answers commands
Healthy(e) == \A r \in wf[e].basic : roleTask[e][r] # None /\ alive[roleTask[e][r]]
\* tasks a transition of e commands: the tasks of its roles
Commanded(e) == EnvTasks(e)
StandbyAfter(op, old) == IF op \in {"RESET"} THEN TRUE ELSE IF op \in {"CONFIGURE", "START_ACTIVITY", "STOP_ACTIVITY"} THEN FALSE ELSE old

\* a transition of e (other than DEPLOY, which is not atomic) taken under the environment lock.
\* ok: whether it succeeds; effect on est, task states, pending calls, history.
DoTransition(e, op, ok) ==
  /\ elock[e] = "free"
  /\ ok => Valid(op, est[e]) /\ (op = "GO_ERROR" \/ Healthy(e))
  /\ ~ok => ~(Valid(op, est[e]) /\ (op = "GO_ERROR" \/ Healthy(e)) /\ ~(op = "CONFIGURE" /\ script[e] = "configfail"))
  /\ (op = "CONFIGURE" /\ script[e] = "configfail") => ~ok
  /\ est' = IF ok THEN [est EXCEPT ![e] = Dst(op)] ELSE est
  /\ standby' = IF ok /\ op # "GO_ERROR"
                  THEN [t \in TaskIds |-> IF t \in Commanded(e) /\ owner[t] = e THEN StandbyAfter(op, standby[t]) ELSE standby[t]]
                  ELSE standby
  /\ pend' = IF ok /\ op = "START_ACTIVITY" /\ wf[e].pend THEN [pend EXCEPT ![e] = TRUE]
             ELSE IF ok /\ op = "STOP_ACTIVITY" THEN [pend EXCEPT ![e] = FALSE] ELSE pend
  /\ cmdForeign' = (cmdForeign \/ (Valid(op, est[e]) /\ op # "GO_ERROR" /\ \E t \in Commanded(e) : owner[t] # e))

(* ------------------------------------------------------------------------ *)
Init ==
  /\ cpc = [e \in Envs |-> "none"] /\ dpc = [e \in Envs |-> "idle"] /\ xpc = [e \in Envs |-> "idle"] /\ kpc = "idle"
  /\ wf = [e \in Envs |-> NoWf] /\ script = [e \in Envs |-> "ok"] /\ dets = [e \in Envs |-> {}]
  /\ dfl = [e \in Envs |-> {}] /\ xop = [e \in Envs |-> None]
  /\ snap = [e \in Envs |-> {}] /\ listed = {} /\ est = [e \in Envs |-> "STANDBY"] /\ elock = [e \in Envs |-> "free"]
  /\ pend = [e \in Envs |-> FALSE]
  /\ apc = [e \in Envs |-> "idle"] /\ att = [e \in Envs |-> 1] /\ cur = [e \in Envs |-> {}] /\ claimed = [e \in Envs |-> {}]
  /\ roleTask = [e \in Envs |-> NoRoles]
  /\ tdp = [e \in Envs |-> "idle"] /\ tdwho = [e \in Envs |-> None] /\ tdforce = [e \in Envs |-> FALSE]
  /\ relq = [e \in Envs |-> {}] /\ msg2 = [e \in Envs |-> {}] /\ relerr = [e \in Envs |-> FALSE]
  /\ dforced = [e \in Envs |-> FALSE] /\ dkeepEff = [e \in Envs |-> FALSE] /\ dplan = [e \in Envs |-> None] /\ ktargets = [e \in Envs |-> {}]
  /\ kq = [k \in Killers |-> {}] /\ ksent = [k \in Killers |-> {}] /\ ksel = [k \in Killers |-> {}]
  /\ kpre = [k \in Killers |-> {}] /\ kact = [k \in Killers |-> {}]
  /\ kst = [k \in Killers |-> "idle"]
  /\ tenv = [t \in TaskIds |-> None] /\ trole = [t \in TaskIds |-> None] /\ owner = [t \in TaskIds |-> None]
  /\ inRoster = [t \in TaskIds |-> FALSE] /\ running = [t \in TaskIds |-> FALSE] /\ standby = [t \in TaskIds |-> TRUE]
  /\ alive = [t \in TaskIds |-> FALSE] /\ triggered = [t \in TaskIds |-> FALSE] /\ killSent = [t \in TaskIds |-> FALSE]
  /\ lastOwner = [t \in TaskIds |-> None] /\ killedOwned = FALSE /\ cmdForeign = FALSE
  /\ conflictIn = FALSE /\ hooksEarly = FALSE /\ crashed = FALSE
  /\ cret = [e \in Envs |-> "none"] /\ dret = [e \in Envs |-> "none"] /\ dkeep = [e \in Envs |-> FALSE]
  /\ ncalls = 0

(* ======================= NewEnvironment / CreateEnvironment ============== *)
\* [Api create]
CreateCall(e, B, H, p, D, s) ==
  /\ cpc[e] = "none" /\ MayCall
  /\ cpc' = [cpc EXCEPT ![e] = "called"]
  /\ wf' = [wf EXCEPT ![e] = [basic |-> B, hooks |-> H, pend |-> p]]
  /\ dets' = [dets EXCEPT ![e] = D] /\ script' = [script EXCEPT ![e] = s]
  /\ ncalls' = ncalls + 1
  /\ UNCHANGED <<snap, cret, ktargets, dvars, xvars, kpc, evars, avars, tdvars, tvars, hvars>>

\* [Hook envman.create.snapshot] alreadyActiveDetectors := GetActiveDetectors(); then taskman.Cleanup()
\* selects the unlocked tasks of the roster (KillSelect below, killer <<"c", e>>)
CSnap(e) ==
  /\ cpc[e] = "called"
  /\ cpc' = [cpc EXCEPT ![e] = "snap"]
  /\ snap' = [snap EXCEPT ![e] = ActiveDets]
  /\ UNCHANGED <<wf, script, dets, cret, ktargets, dvars, xvars, kpc, evars, avars, tdvars, tvars, hvars, ncalls>>

DetConflict(e) == dets[e] \cap (IF Code_DetectorCheckNotAtomic THEN snap[e] ELSE ActiveDets) # {}

\* [ApiReply create error, no registration] workflow load failed, or a needed detector is active
CRefuse(e) ==
  /\ cpc[e] = "snap" /\ KDone(<<e, "c">>) /\ KReset(<<e, "c">>)
  /\ script[e] = "load" \/ DetConflict(e)
  /\ cpc' = [cpc EXCEPT ![e] = "ret"] /\ cret' = [cret EXCEPT ![e] = "err"]
  /\ UNCHANGED <<wf, script, dets, snap, ktargets, dvars, xvars, kpc, evars, avars, tdvars, tvarsNoK, hvars, ncalls>>

\* [Hook envman.create.registered] envs.m[id] = env
CRegister(e) ==
  /\ cpc[e] = "snap" /\ KDone(<<e, "c">>) /\ KReset(<<e, "c">>)
  /\ script[e] # "load" /\ ~DetConflict(e)
  /\ cpc' = [cpc EXCEPT ![e] = "registered"]
  /\ listed' = listed \cup {e}
  /\ conflictIn' = (conflictIn \/ dets[e] \cap ActiveDets # {})
  /\ UNCHANGED <<wf, script, dets, snap, cret, ktargets, dvars, xvars, kpc, est, elock, pend, avars, tdvars, tvarsNoK,
                 lastOwner, killedOwned, cmdForeign, hooksEarly, crashed, ncalls>>

\* [Hook env.lock.acquired DEPLOY] TryTransition(DEPLOY): the AcquireTasks message goes to the task manager
CDeployLock(e) ==
  /\ cpc[e] = "registered" /\ elock[e] = "free"
  /\ cpc' = [cpc EXCEPT ![e] = "deploying"]
  /\ elock' = [elock EXCEPT ![e] = "c"]
  /\ apc' = [apc EXCEPT ![e] = IF est[e] = "STANDBY" /\ TaskRolesOf(e) # {} THEN "acq" ELSE "done"]
  /\ att' = [att EXCEPT ![e] = 1] /\ cur' = [cur EXCEPT ![e] = {}]
  /\ UNCHANGED <<wf, script, dets, snap, cret, ktargets, dvars, xvars, kpc, listed, est, pend, claimed, roleTask, tdvars, tvars, hvars, ncalls>>

(* ---- acquireTasks ---- *)
RolesClaimed(e) == {trole[t] : t \in claimed[e]}
RolesToRun(e) == TaskRolesOf(e) \ RolesClaimed(e)
RolesLaunchedNow(e) == {trole[t] : t \in cur[e]}
\* the role the scripted failure applies to
FailRole(e) == IF "b" \in wf[e].basic THEN "b" ELSE "a"
Launchable(e) ==
  CASE script[e] = "undeployable" -> {}
    \* the role that does not fit takes the other roles bound to the same host with it
    [] script[e] = "partial" -> {r \in RolesToRun(e) : HostOf(r) # HostOf(FailRole(e))}
    [] OTHER -> RolesToRun(e)

\* [Hook task.acquire.claim] reuse: an unlocked ACTIVE STANDBY task of the same class on a suitable host
Claim(e, t) ==
  /\ apc[e] = "acq" /\ ReuseUnlocked /\ cur[e] = {} /\ att[e] = 1
  /\ Claimable(t) /\ t \notin claimed[e]
  /\ Code_ClaimNotAtomic \/ (t \notin AllKsel /\ \A e2 \in Envs : t \notin claimed[e2])
  /\ trole[t] \in TaskRolesOf(e) \ RolesClaimed(e)
  /\ claimed' = [claimed EXCEPT ![e] = @ \cup {t}]
  /\ UNCHANGED <<cvars, dvars, xvars, kpc, evars, apc, att, cur, roleTask, tdvars, tvars, hvars, ncalls>>

\* [MAccept] tasks launched for roles of e: M is a set of <<role, task>>
LaunchSet(e, M) ==
  /\ apc[e] = "acq" /\ M # {}
  /\ \A m \in M : /\ m[1] \in Launchable(e) \ RolesLaunchedNow(e)
                  /\ tenv[m[2]] = None
  /\ \A m1, m2 \in M : (m1[1] = m2[1]) <=> (m1[2] = m2[2])
  /\ LET ts == {m[2] : m \in M}
         rl(t) == (CHOOSE m \in M : m[2] = t)[1]
     IN /\ tenv' = [t \in TaskIds |-> IF t \in ts THEN e ELSE tenv[t]]
        /\ trole' = [t \in TaskIds |-> IF t \in ts THEN rl(t) ELSE trole[t]]
        /\ alive' = [t \in TaskIds |-> IF t \in ts THEN TRUE ELSE alive[t]]
        /\ cur' = [cur EXCEPT ![e] = @ \cup ts]
  /\ UNCHANGED <<cvars, dvars, xvars, kpc, evars, apc, att, claimed, roleTask, tdvars, owner, inRoster, running, standby,
                 triggered, killSent, kq, ksent, ksel, kpre, kact, kst, hvars, ncalls>>

RoundComplete(e) == RolesLaunchedNow(e) = RolesToRun(e)

\* [Hook task.acquire.retry] a round that did not deploy every descriptor: retry up to 3 times
AcqRetry(e) ==
  /\ apc[e] = "acq" /\ ~RoundComplete(e)
  /\ RolesLaunchedNow(e) = Launchable(e)
  /\ IF att[e] < 3
       THEN /\ att' = [att EXCEPT ![e] = @ + 1]
            /\ apc' = apc
            \* the next attempt starts from an empty deployment map; what this one launched is forgotten (as is), or was
            \* put in the roster, unlocked, before (RosterAppend)
            /\ Code_RetryForgetsLaunched \/ \A t \in cur[e] : inRoster[t]
            /\ cur' = [cur EXCEPT ![e] = {}] /\ UNCHANGED <<inRoster>>
       ELSE /\ apc' = [apc EXCEPT ![e] = "failing"] /\ UNCHANGED <<att, cur, inRoster>>
  /\ UNCHANGED <<cvars, dvars, xvars, kpc, evars, claimed, roleTask, tdvars, tenv, trole, owner, running, standby, alive,
                 triggered, killSent, kq, ksent, ksel, kpre, kact, kst, hvars, ncalls>>

\* [Hook task.lock] the round deployed everything: SetParent(role)
Lock(e, t) ==
  /\ apc[e] \in {"acq", "locking"} /\ RoundComplete(e)
  /\ t \in cur[e] /\ owner[t] = None /\ ~inRoster[t]
  /\ apc' = [apc EXCEPT ![e] = "locking"]
  /\ owner' = [owner EXCEPT ![t] = e]
  /\ lastOwner' = [lastOwner EXCEPT ![t] = e]
  /\ roleTask' = [roleTask EXCEPT ![e][trole[t]] = t]
  /\ UNCHANGED <<cvars, dvars, xvars, kpc, evars, att, cur, claimed, tdvars, tenv, trole, inRoster, running, standby, alive,
                 triggered, killSent, kq, ksent, ksel, kpre, kact, kst, killedOwned, cmdForeign, conflictIn, hooksEarly, crashed, ncalls>>

\* [Hook task.unlock why=deployment failed] last attempt failed: SetParent(nil)
FailUnlock(e, t) ==
  /\ apc[e] = "failing" /\ t \in cur[e] /\ ~inRoster[t]
  /\ UNCHANGED vars

\* [Hook task.roster.appended]
RosterAppend(e, t) ==
  /\ \/ apc[e] \in {"locking", "failing"}
     \/ apc[e] = "acq" /\ ~Code_RetryForgetsLaunched /\ att[e] < 3 /\ ~RoundComplete(e) /\ RolesLaunchedNow(e) = Launchable(e)
  /\ t \in cur[e] /\ ~inRoster[t]
  /\ apc[e] = "locking" => \A u \in cur[e] : owner[u] = e
  /\ inRoster' = [inRoster EXCEPT ![t] = TRUE]
  /\ UNCHANGED <<cvars, dvars, xvars, kpc, evars, avars, tdvars, tenv, trole, owner, running, standby, alive, triggered, killSent, kq, ksent, ksel, kpre, kact, kst,
                 hvars, ncalls>>

AllClaimed(e) == ReuseUnlocked /\ claimed[e] # {} /\ RolesToRun(e) = {} /\ apc[e] = "acq"
\* [the process exits: fatal error: sync: unlock of unlocked mutex]
AcqCrash(e) ==
  /\ Code_AllClaimedCrashes /\ AllClaimed(e)
  /\ crashed' = TRUE
  /\ UNCHANGED <<cvars, dvars, xvars, kpc, evars, avars, tdvars, tvars, lastOwner, killedOwned, cmdForeign, conflictIn, hooksEarly, ncalls>>

\* [Hook task.lock reused] a claimed task is locked at the very end of acquireTasks
LockReused(e, t) ==
  /\ apc[e] \in {"acq", "locking"} /\ RoundComplete(e) /\ ~(Code_AllClaimedCrashes /\ AllClaimed(e))
  /\ \A u \in cur[e] : inRoster[u] /\ owner[u] = e
  /\ t \in claimed[e]
  /\ apc' = [apc EXCEPT ![e] = "locking"]
  /\ claimed' = [claimed EXCEPT ![e] = @ \ {t}]
  /\ owner' = [owner EXCEPT ![t] = e]
  /\ lastOwner' = [lastOwner EXCEPT ![t] = e]
  /\ roleTask' = [roleTask EXCEPT ![e][trole[t]] = t]
  /\ UNCHANGED <<cvars, dvars, xvars, kpc, evars, att, cur, tdvars, tenv, trole, inRoster, running, standby, alive,
                 triggered, killSent, kq, ksent, ksel, kpre, kact, kst, killedOwned, cmdForeign, conflictIn, hooksEarly, crashed, ncalls>>

AcqSettled(e) ==
  \/ apc[e] \in {"done", "failed"}
  \/ apc[e] = "locking" /\ claimed[e] = {} /\ \A u \in cur[e] : inRoster[u]
  \/ apc[e] = "failing" /\ \A u \in cur[e] : inRoster[u]
  \/ apc[e] = "acq" /\ RolesToRun(e) = {} /\ claimed[e] = {}
AcqOk(e) == apc[e] \in {"done", "locking"} \/ (apc[e] = "acq" /\ RolesToRun(e) = {} /\ claimed[e] = {})

\* [MUpdate TASK_RUNNING] (a report that arrives before the task is in the roster is lost for the core: the
\* simulated agents wait for the roster, as real executors take far longer to start)
TaskRunning(t) ==
  /\ tenv[t] # None /\ alive[t] /\ ~running[t]
  /\ ~(script[tenv[t]] \in {"silentlaunch", "launchfail"} /\ trole[t] = FailRole(tenv[t]))
  /\ running' = [running EXCEPT ![t] = TRUE]
  /\ UNCHANGED <<cvars, dvars, xvars, kpc, evars, avars, tdvars, tenv, trole, owner, inRoster, standby, alive, triggered, killSent, kq, ksent, ksel, kpre, kact, kst,
                 hvars, ncalls>>

\* [Hook env.lock.release DEPLOY] the DEPLOY transition ends: every role ACTIVE -> DEPLOYED, else failure
\* (UNDEPLOYABLE, task ERROR, deploy_timeout; assumption: deploy_timeout outlasts the acquisition attempts)
CDeployEnd(e, ok) ==
  \* (UNDEPLOYABLE reaches the transition before acquireTasks has put the tasks of its last attempt in the roster)
  /\ cpc[e] = "deploying" /\ elock[e] = "c" /\ (AcqSettled(e) \/ (~ok /\ apc[e] = "failing"))
  /\ ok => /\ est[e] = "STANDBY" /\ AcqOk(e)
           /\ \A r \in TaskRolesOf(e) : roleTask[e][r] # None /\ running[roleTask[e][r]] /\ alive[roleTask[e][r]]
  /\ ~ok => \/ est[e] # "STANDBY" \/ ~AcqOk(e)
            \/ \E r \in TaskRolesOf(e) : roleTask[e][r] # None /\ ~alive[roleTask[e][r]]     \* task ERROR
            \/ script[e] = "silentlaunch"                                                  \* deploy_timeout
            \/ \E r \in TaskRolesOf(e) : roleTask[e][r] # None /\ tenv[roleTask[e][r]] # e   \* a reused task does not
                                                       \* report ACTIVE to its new role: deploy_timeout
  /\ cpc' = [cpc EXCEPT ![e] = IF ok THEN "deployed" ELSE "tail"]
  /\ est' = IF ok THEN [est EXCEPT ![e] = "DEPLOYED"] ELSE est
  /\ elock' = [elock EXCEPT ![e] = "free"]
  /\ apc' = [apc EXCEPT ![e] = IF ~AcqSettled(e) THEN @ ELSE IF AcqOk(e) THEN "done" ELSE "failed"]
  /\ UNCHANGED <<wf, script, dets, snap, cret, ktargets, dvars, xvars, kpc, listed, pend, att, cur, claimed, roleTask, tdvars, tvars, hvars, ncalls>>

\* [Hook env.lock.release CONFIGURE]
CConfigure(e, ok) ==
  /\ cpc[e] = "deployed"
  /\ DoTransition(e, "CONFIGURE", ok)
  /\ cpc' = [cpc EXCEPT ![e] = IF ok THEN "ok" ELSE "tail"]
  /\ UNCHANGED <<wf, script, dets, snap, cret, ktargets, dvars, xvars, kpc, listed, elock, avars, tdvars, tenv, trole, owner, inRoster,
                 running, alive, triggered, killSent, kq, ksent, ksel, kpre, kact, kst, lastOwner, killedOwned, conflictIn, hooksEarly, crashed, ncalls>>

\* [ApiReply create OK]
CReplyOk(e) ==
  /\ cpc[e] = "ok"     \* (the lookup of the new environment may have preceded a concurrent teardown)
  /\ cpc' = [cpc EXCEPT ![e] = "ret"] /\ cret' = [cret EXCEPT ![e] = "ok"]
  /\ UNCHANGED <<wf, script, dets, snap, ktargets, dvars, xvars, kpc, evars, avars, tdvars, tvars, hvars, ncalls>>

\* [ApiReply create error] CreateEnvironment succeeded but NewEnvironment does not find the environment any more
\* (it was destroyed in the meantime): "cannot get newly created environment"
CReplyGone(e) ==
  /\ cpc[e] = "ok" /\ e \notin listed
  /\ cpc' = [cpc EXCEPT ![e] = "ret"] /\ cret' = [cret EXCEPT ![e] = "err"]
  /\ UNCHANGED <<wf, script, dets, snap, ktargets, dvars, xvars, kpc, evars, avars, tdvars, tvars, hvars, ncalls>>

\* [Hook env.lock.release GO_ERROR] failure tail: GO_ERROR, then envTasks := Workflow().GetTasks()
CTailGoError(e, ok) ==
  /\ cpc[e] = "tail"
  /\ DoTransition(e, "GO_ERROR", ok)
  /\ cpc' = [cpc EXCEPT ![e] = "tail_td"]
  /\ ktargets' = [ktargets EXCEPT ![e] = EnvTasks(e)]
  /\ UNCHANGED <<wf, script, dets, snap, cret, dvars, xvars, kpc, listed, elock, avars, tdvars, tenv, trole, owner, inRoster,
                 running, alive, triggered, killSent, kq, ksent, ksel, kpre, kact, kst, lastOwner, killedOwned, conflictIn, hooksEarly, crashed, ncalls>>

\* the forced teardown of the tail runs as tdwho = "c" (actions Td* below); when it is over, or the
\* environment is not found any more, KillTasks(envTasks) selects its victims (KillSelect, killer <<"ck", e>>)
CTailKilling(e) == \/ cpc[e] = "tail_kill"
                   \/ cpc[e] = "tail_td" /\ e \notin listed /\ ~(tdp[e] # "idle" /\ tdwho[e] = "c")

\* [ApiReply create error] KillTasks returned: every KILL sent was acknowledged
CReplyErr(e) ==
  /\ CTailKilling(e) /\ KDone(<<e, "ck">>) /\ KAcked(<<e, "ck">>) /\ KReset(<<e, "ck">>)
  /\ cpc' = [cpc EXCEPT ![e] = "ret"] /\ cret' = [cret EXCEPT ![e] = "err"]
  /\ UNCHANGED <<wf, script, dets, snap, ktargets, dvars, xvars, kpc, evars, avars, tdvars, tvarsNoK, hvars, ncalls>>

(* ============================ TeardownEnvironment ======================== *)
TdWanted(e, who) ==
  \/ who = "c" /\ cpc[e] = "tail_td"
  \/ who = "d" /\ dpc[e] = "td"

\* [Hook env.lock.acquired DESTROY]
TdLock(e, who) ==
  /\ e \in listed /\ TdWanted(e, who) /\ tdp[e] = "idle" /\ elock[e] = "free"
  /\ elock' = [elock EXCEPT ![e] = "td"]
  /\ tdp' = [tdp EXCEPT ![e] = "locked"] /\ tdwho' = [tdwho EXCEPT ![e] = who]
  /\ tdforce' = [tdforce EXCEPT ![e] = IF who = "c" THEN TRUE ELSE (("force" \in dfl[e]) \/ dforced[e])]
  /\ relerr' = [relerr EXCEPT ![e] = FALSE]
  /\ UNCHANGED <<cvars, dvars, xvars, kpc, listed, est, pend, avars, relq, msg2, tvars, hvars, ncalls>>

TdAllowed(e) == est[e] # "DONE" /\ (est[e] \in {"STANDBY", "DEPLOYED"} \/ tdforce[e])

\* after a teardown that returned an error
TdFailed(e) ==
  /\ elock' = [elock EXCEPT ![e] = "free"]
  /\ tdp' = [tdp EXCEPT ![e] = "idle"]
  /\ IF tdwho[e] = "c"
       THEN cpc' = [cpc EXCEPT ![e] = "tail_kill"] /\ UNCHANGED <<dpc, dforced>>
       ELSE IF ~tdforce[e]
              THEN dforced' = [dforced EXCEPT ![e] = TRUE] /\ UNCHANGED <<cpc, dpc>>   \* retried with force
              ELSE dpc' = [dpc EXCEPT ![e] = "fail"] /\ UNCHANGED <<cpc, dforced>>

\* [Hook env.lock.release DESTROY before phase left] state check failed: DONE, or not STANDBY/DEPLOYED without force
TdRefuse(e) ==
  /\ tdp[e] = "locked" /\ ~TdAllowed(e)
  /\ TdFailed(e)
  /\ UNCHANGED <<wf, script, dets, snap, cret, ktargets, dfl, dret, dkeep, dkeepEff, dplan, xvars, kpc, listed, est, pend, avars, tdwho, tdforce, relq, msg2,
                 relerr, tvars, hvars, ncalls>>

\* [Hook env.teardown.phase left] leave_<state> hooks done, run-end stamps; the first release message
\* (every task that is not a recognised DESTROY hook) goes to the task manager
TdLeft(e) ==
  /\ tdp[e] = "locked" /\ TdAllowed(e)
  /\ tdp' = [tdp EXCEPT ![e] = "rel1"]
  /\ relq' = [relq EXCEPT ![e] = Msg1(e)]
  /\ UNCHANGED <<cvars, dvars, xvars, kpc, evars, avars, tdwho, tdforce, msg2, relerr, tvars, hvars, ncalls>>

\* [Hook task.unlock why=release] releaseTask: refused when locked by another environment
Unlock(e, t) ==
  /\ tdp[e] \in {"rel1", "rel2"} /\ t \in relq[e]
  /\ owner[t] \in {e, None}
  /\ owner' = [owner EXCEPT ![t] = None]
  /\ relq' = [relq EXCEPT ![e] = @ \ {t}]
  /\ UNCHANGED <<cvars, dvars, xvars, kpc, evars, avars, tdp, tdwho, tdforce, msg2, relerr, tenv, trole, inRoster, running, standby,
                 alive, triggered, killSent, kq, ksent, ksel, kpre, kact, kst, hvars, ncalls>>

\* [Hook env.teardown.phase released1] the TasksReleasedEvent came back; what is left in relq was refused
TdReleased1(e) ==
  /\ tdp[e] = "rel1" /\ \A t \in relq[e] : owner[t] \notin {e, None}
  /\ relerr' = [relerr EXCEPT ![e] = relq[e] # {}]
  /\ relq' = [relq EXCEPT ![e] = {}]
  /\ tdp' = [tdp EXCEPT ![e] = "released1"]
  /\ UNCHANGED <<cvars, dvars, xvars, kpc, evars, avars, tdwho, tdforce, msg2, tvars, hvars, ncalls>>

\* [Hook env.lock.release DESTROY after released1/released2 with errors] "N tasks failed to release"
TdRelError(e) ==
  /\ tdp[e] \in {"released1", "released2"} /\ relerr[e]
  /\ TdFailed(e)
  /\ UNCHANGED <<wf, script, dets, snap, cret, ktargets, dfl, dret, dkeep, dkeepEff, dplan, xvars, kpc, listed, est, pend, avars, tdwho, tdforce, relq, msg2,
                 relerr, tvars, hvars, ncalls>>

\* [Hook env.teardown.phase destroyhooks] per weight: call hooks, then TriggerHooks on the hook tasks whose
\* role is ACTIVE (T = the tasks that were triggered); the second release message is prepared
TdHooks(e, T) ==
  /\ tdp[e] = "released1" /\ ~relerr[e]
  /\ LET ht == TasksOfRoles(e, HookTaskRoles(e)) IN
       \* (the core may not have processed the TASK_RUNNING of a hook task yet, or may know it dead)
       /\ T \subseteq ht
       /\ \A t \in T : running[t]
  /\ triggered' = [t \in TaskIds |-> triggered[t] \/ t \in T]
  /\ msg2' = [msg2 EXCEPT ![e] = Msg2(e, T)]
  /\ hooksEarly' = (hooksEarly \/ (Recognised(wf[e].hooks) # {} /\ \E t \in Msg1(e) : owner[t] = e))
  /\ tdp' = [tdp EXCEPT ![e] = "hooksdone"]
  /\ UNCHANGED <<cvars, dvars, xvars, kpc, evars, avars, tdwho, tdforce, relq, relerr, tenv, trole, owner, inRoster, running, standby,
                 alive, killSent, kq, ksent, ksel, kpre, kact, kst, lastOwner, killedOwned, cmdForeign, conflictIn, crashed, ncalls>>

\* [Hook env.teardown.phase cancelled] cancelCallsPendingAwait; the second message goes out
TdCancel(e) ==
  /\ tdp[e] = "hooksdone"
  /\ pend' = [pend EXCEPT ![e] = FALSE]
  /\ relq' = [relq EXCEPT ![e] = msg2[e]]
  /\ tdp' = [tdp EXCEPT ![e] = "rel2"]
  /\ UNCHANGED <<cvars, dvars, xvars, kpc, listed, est, elock, avars, tdwho, tdforce, msg2, relerr, tvars, hvars, ncalls>>

\* [Hook env.teardown.phase released2]
TdReleased2(e) ==
  /\ tdp[e] = "rel2" /\ \A t \in relq[e] : owner[t] \notin {e, None}
  /\ relerr' = [relerr EXCEPT ![e] = relq[e] # {}]
  /\ relq' = [relq EXCEPT ![e] = {}]
  /\ tdp' = [tdp EXCEPT ![e] = "released2"]
  /\ UNCHANGED <<cvars, dvars, xvars, kpc, evars, avars, tdwho, tdforce, msg2, tvars, hvars, ncalls>>

\* [Hook env.teardown.phase done] setState(DONE)
TdDone(e) ==
  /\ tdp[e] = "released2" /\ ~relerr[e]
  /\ est' = [est EXCEPT ![e] = "DONE"]
  /\ tdp' = [tdp EXCEPT ![e] = "done"]
  /\ UNCHANGED <<cvars, dvars, xvars, kpc, listed, elock, pend, avars, tdwho, tdforce, relq, msg2, relerr, tvars, hvars, ncalls>>

\* [Hook env.lock.release DESTROY st=DONE] delete(envs.m, id); TeardownEnvironment returns nil
TdDelete(e) ==
  /\ tdp[e] = "done"
  /\ listed' = listed \ {e}
  /\ elock' = [elock EXCEPT ![e] = "free"]
  /\ tdp' = [tdp EXCEPT ![e] = "idle"]
  /\ IF tdwho[e] = "c"
       THEN cpc' = [cpc EXCEPT ![e] = "tail_kill"] /\ UNCHANGED dpc
       ELSE dpc' = [dpc EXCEPT ![e] = IF dkeepEff[e] THEN "okreply" ELSE "kill"] /\ UNCHANGED cpc
  /\ UNCHANGED <<wf, script, dets, snap, cret, ktargets, dfl, dret, dkeep, dforced, dkeepEff, dplan, xvars, kpc, est, pend, avars, tdwho, tdforce, relq, msg2,
                 relerr, tvars, hvars, ncalls>>

(* ===================== DestroyEnvironment / doTeardownAndCleanup ========= *)
\* [Api destroy]
DestroyCall(e, fl) ==
  /\ dpc[e] = "idle" /\ cpc[e] # "none" /\ MayCall
  /\ dpc' = [dpc EXCEPT ![e] = IF e \in listed THEN "start" ELSE "notfound"]
  /\ dfl' = [dfl EXCEPT ![e] = fl] /\ dforced' = [dforced EXCEPT ![e] = FALSE] /\ dkeepEff' = [dkeepEff EXCEPT ![e] = ("keep" \in fl)]
  /\ dret' = [dret EXCEPT ![e] = "none"] /\ dplan' = [dplan EXCEPT ![e] = None]
  /\ ncalls' = ncalls + 1
  /\ UNCHANGED <<cvars, dkeep, xvars, kpc, evars, avars, tdvars, tvars, hvars>>

\* no line: DestroyEnvironment reads the state and decides what to try first (no force): STOP_ACTIVITY when
\* allowed in RUNNING, RESET from CONFIGURED; it then waits for the environment lock
DPlan(e) ==
  /\ dpc[e] = "start" /\ dplan[e] = None /\ ~("force" \in dfl[e]) /\ ~dforced[e]
  /\ \/ ("allow" \in dfl[e]) /\ est[e] = "RUNNING" /\ dplan' = [dplan EXCEPT ![e] = "STOP_ACTIVITY"]
     \/ ~(("allow" \in dfl[e]) /\ est[e] = "RUNNING") /\ est[e] = "CONFIGURED" /\ dplan' = [dplan EXCEPT ![e] = "RESET"]
  /\ UNCHANGED <<cvars, dpc, dfl, dret, dkeep, dforced, dkeepEff, xvars, kpc, evars, avars, tdvars, tvars, hvars, ncalls>>

\* [Hook env.lock.release STOP_ACTIVITY | RESET] the planned transition, under the lock, on the state found then
DPre(e, op, ok) ==
  /\ dpc[e] = "start" /\ dplan[e] = op
  /\ DoTransition(e, op, ok)
  /\ dplan' = [dplan EXCEPT ![e] = None]
  /\ dforced' = [dforced EXCEPT ![e] = ~ok]
  /\ dkeepEff' = [dkeepEff EXCEPT ![e] = @ /\ ok]
  /\ UNCHANGED <<cvars, dpc, dfl, dret, dkeep, xvars, kpc, listed, elock, avars, tdvars, tenv, trole, owner, inRoster, running, alive,
                 triggered, killSent, kq, ksent, ksel, kpre, kact, kst, lastOwner, killedOwned, conflictIn, hooksEarly, crashed, ncalls>>

\* no line: the decision to tear down (with force when the state does not allow a plain destroy)
DGoTd(e) ==
  /\ dpc[e] = "start" /\ dplan[e] = None
  /\ ("force" \in dfl[e]) \/ dforced[e] \/ ~(("allow" \in dfl[e]) /\ est[e] = "RUNNING")
  /\ ("force" \in dfl[e]) \/ dforced[e] \/ est[e] # "CONFIGURED"
  /\ dpc' = [dpc EXCEPT ![e] = "td"]
  /\ LET byState == ~("force" \in dfl[e]) /\ ~dforced[e] /\ est[e] \notin {"CONFIGURED", "DEPLOYED", "STANDBY"} IN
       /\ dforced' = [dforced EXCEPT ![e] = @ \/ byState]
       /\ dkeepEff' = [dkeepEff EXCEPT ![e] = @ /\ ~byState]
  /\ UNCHANGED <<cvars, dfl, dret, dkeep, dplan, xvars, kpc, evars, avars, tdvars, tvars, hvars, ncalls>>

\* the environment disappeared before TeardownEnvironment found it
DTdNotFound(e) ==
  /\ dpc[e] = "td" /\ e \notin listed /\ tdp[e] = "idle"
  /\ IF ~(("force" \in dfl[e]) \/ dforced[e])
       THEN dforced' = [dforced EXCEPT ![e] = TRUE] /\ UNCHANGED dpc
       ELSE dpc' = [dpc EXCEPT ![e] = "fail"] /\ UNCHANGED dforced
  /\ UNCHANGED <<cvars, dfl, dret, dkeep, dkeepEff, dplan, xvars, kpc, evars, avars, tdvars, tvars, hvars, ncalls>>

\* [ApiReply destroy]
DReply(e) ==
  /\ \/ dpc[e] \in {"notfound", "fail"} /\ dret' = [dret EXCEPT ![e] = "err"] /\ UNCHANGED <<dkeep, kq, ksent, ksel, kpre, kact, kst>>
     \/ dpc[e] = "okreply" /\ dret' = [dret EXCEPT ![e] = "ok"] /\ dkeep' = [dkeep EXCEPT ![e] = TRUE] /\ UNCHANGED <<kq, ksent, ksel, kpre, kact, kst>>
     \/ /\ dpc[e] = "kill" /\ KDone(<<e, "d">>) /\ KReset(<<e, "d">>)
        /\ EnvTasks(e) # {} => KAcked(<<e, "d">>)
        /\ dret' = [dret EXCEPT ![e] = "ok"] /\ UNCHANGED dkeep
  /\ dpc' = [dpc EXCEPT ![e] = "idle"]
  /\ UNCHANGED <<cvars, dfl, dforced, dkeepEff, dplan, xvars, kpc, evars, avars, tdvars, tvarsNoK, hvars, ncalls>>

(* ============================ ControlEnvironment ========================= *)
\* [Api control]
ControlCall(e, op) ==
  /\ xpc[e] = "idle" /\ cpc[e] # "none" /\ MayCall
  /\ xpc' = [xpc EXCEPT ![e] = IF e \in listed THEN "go" ELSE "reply"]
  /\ xop' = [xop EXCEPT ![e] = op]
  /\ ncalls' = ncalls + 1
  /\ UNCHANGED <<cvars, dvars, kpc, evars, avars, tdvars, tvars, hvars>>

\* [Hook env.lock.release <op>]
XTrans(e, ok) ==
  /\ xpc[e] = "go"
  /\ DoTransition(e, xop[e], ok)
  /\ xpc' = [xpc EXCEPT ![e] = IF ok THEN "reply" ELSE "goerr"]
  /\ UNCHANGED <<cvars, dvars, xop, kpc, listed, elock, avars, tdvars, tenv, trole, owner, inRoster, running, alive,
                 triggered, killSent, kq, ksent, ksel, kpre, kact, kst, lastOwner, killedOwned, conflictIn, hooksEarly, crashed, ncalls>>

\* [Hook env.lock.release GO_ERROR] after a failed transition
XGoError(e, ok) ==
  /\ xpc[e] = "goerr"
  /\ DoTransition(e, "GO_ERROR", ok)
  /\ xpc' = [xpc EXCEPT ![e] = IF ok THEN "reply" ELSE "force"]
  /\ UNCHANGED <<cvars, dvars, xop, kpc, listed, elock, avars, tdvars, tenv, trole, owner, inRoster, running, alive,
                 triggered, killSent, kq, ksent, ksel, kpre, kact, kst, lastOwner, killedOwned, conflictIn, hooksEarly, crashed, ncalls>>

\* [Hook api.force.error] Sm.SetState("ERROR") outside the lock
XForce(e) ==
  /\ xpc[e] = "force"
  /\ est' = [est EXCEPT ![e] = "ERROR"]
  /\ xpc' = [xpc EXCEPT ![e] = "reply"]
  /\ UNCHANGED <<cvars, dvars, xop, kpc, listed, elock, pend, avars, tdvars, tvars, hvars, ncalls>>

\* [ApiReply control]
XReply(e) ==
  /\ xpc[e] = "reply"
  /\ xpc' = [xpc EXCEPT ![e] = "idle"]
  /\ UNCHANGED <<cvars, dvars, xop, kpc, evars, avars, tdvars, tvars, hvars, ncalls>>

(* ============================== CleanupTasks ============================= *)
\* [Api cleanup]
CleanupCall ==
  /\ kpc = "idle" /\ MayCall
  /\ kpc' = "run" /\ ncalls' = ncalls + 1
  /\ UNCHANGED <<cvars, dvars, xvars, evars, avars, tdvars, tvars, hvars>>

\* [ApiReply cleanup]
CleanupReply ==
  /\ kpc = "run" /\ KDone(<<"api", "api">>) /\ KReset(<<"api", "api">>)
  /\ kpc' = "idle"
  /\ UNCHANGED <<cvars, dvars, xvars, evars, avars, tdvars, tvarsNoK, hvars, ncalls>>

(* ============================ kills ====================================== *)
\* Cleanup() takes every unlocked task of the roster; KillTasks(ids) the unlocked ones among ids that no other
\* KillTasks call is waiting for (SafeAcks.ExpectsAck). k identifies the call: <<"api","api">> CleanupTasks,
\* <<e,"c">> Cleanup at the start of CreateEnvironment, <<e,"ck">> KillTasks of its failure tail,
\* <<e,"d">> doCleanupTasks of DestroyEnvironment (Cleanup() when the environment has no task).
ExpectsAck(t) == \E k \in Killers : k[2] \in {"ck", "d"} /\ (t \in kq[k] \/ t \in kpre[k] \/ (t \in ksent[k] /\ alive[t]))
KillerPhase(k) ==
  CASE k[2] = "api" -> kpc = "run"
    [] k[2] = "c" -> cpc[k[1]] = "snap"
    [] k[2] = "ck" -> CTailKilling(k[1])
    [] k[2] = "d" -> dpc[k[1]] = "kill"
    [] OTHER -> FALSE
KillerScope(k, t) ==
  CASE k[2] = "ck" -> t \in ktargets[k[1]] /\ ~ExpectsAck(t)
    [] k[2] = "d" -> EnvTasks(k[1]) = {} \/ (t \in EnvTasks(k[1]) /\ ~ExpectsAck(t))
    [] OTHER -> TRUE

\* no line: the roster is filtered once (roster.filtered under its lock)
KillBegin(k) ==
  /\ KillerPhase(k) /\ kst[k] = "idle"
  /\ kst' = [kst EXCEPT ![k] = "run"]
  /\ ksel' = [ksel EXCEPT ![k] = {t \in TaskIds : /\ inRoster[t] /\ ~Locked(t) /\ KillerScope(k, t)
                                                   /\ (Code_ClaimNotAtomic \/ \A e \in Envs : t \notin claimed[e])}]
  /\ UNCHANGED <<cvars, dvars, xvars, kpc, evars, avars, tdvars, tvarsNoK, kq, ksent, kpre, kact, hvars, ncalls>>

\* [Hook task.kill.select] one task of the filtered list, with its status (act: ACTIVE; the core may not have
\* processed TASK_RUNNING yet)
KillSelect(k, t, act) ==
  /\ kst[k] = "run" /\ t \in ksel[k]
  /\ act => running[t]
  /\ ksel' = [ksel EXCEPT ![k] = @ \ {t}]
  /\ kpre' = [kpre EXCEPT ![k] = @ \cup {t}]
  /\ kact' = IF act THEN [kact EXCEPT ![k] = @ \cup {t}] ELSE kact
  /\ UNCHANGED <<cvars, dvars, xvars, kpc, evars, avars, tdvars, tvarsNoK, kq, ksent, kst, hvars, ncalls>>

\* no line: doKillTasks takes the list out of the roster; a KILL is due for the ACTIVE ones
KillRemove(k) ==
  /\ kst[k] = "run" /\ ksel[k] = {}
  /\ kst' = [kst EXCEPT ![k] = "removed"]
  /\ inRoster' = [t \in TaskIds |-> inRoster[t] /\ t \notin kpre[k]]
  /\ kq' = [kq EXCEPT ![k] = IF Code_InactiveDroppedUnkilled THEN kact[k] ELSE kpre[k]]
  /\ kpre' = [kpre EXCEPT ![k] = {}] /\ kact' = [kact EXCEPT ![k] = {}]
  /\ UNCHANGED <<cvars, dvars, xvars, kpc, evars, avars, tdvars, tenv, trole, owner, running, standby, alive, triggered, killSent,
                 ksent, ksel, hvars, ncalls>>

\* [Hook task.kill.send] KILL call to Mesos
KillSend(k, t) ==
  /\ t \in kq[k]
  /\ kq' = [kq EXCEPT ![k] = @ \ {t}]
  /\ ksent' = [ksent EXCEPT ![k] = @ \cup {t}]
  /\ killSent' = [killSent EXCEPT ![t] = TRUE]
  /\ killedOwned' = (killedOwned \/ Locked(t))
  /\ UNCHANGED <<cvars, dvars, xvars, kpc, evars, avars, tdvars, tenv, trole, owner, inRoster, running, standby, alive, triggered,
                 ksel, kpre, kact, kst, lastOwner, cmdForeign, conflictIn, hooksEarly, crashed, ncalls>>

\* [MUpdate terminal state] the task is gone: killed (Mesos acknowledges the KILL), a triggered hook task
\* finished, a scripted launch failure, or a fault
TaskGone(t) ==
  /\ tenv[t] # None /\ alive[t]
  /\ \/ killSent[t] /\ "ack" \in KillOutcomes
     \/ triggered[t]
     \/ script[tenv[t]] = "launchfail" /\ trole[t] = FailRole(tenv[t]) /\ inRoster[t]
     \/ trole[t] \in FaultRoles /\ inRoster[t]
  /\ alive' = [alive EXCEPT ![t] = FALSE]
  /\ UNCHANGED <<cvars, dvars, xvars, kpc, evars, avars, tdvars, tenv, trole, owner, inRoster, running, standby, triggered, killSent, kq, ksent, ksel, kpre, kact, kst,
                 hvars, ncalls>>

(* ------------------------------------------------------------------------ *)
WfChoices == {<<B, H, p>> : B \in BasicChoices, H \in HookChoices, p \in PendChoices}

\* Next explores the loops over tasks that one goroutine runs (lock, append, release, select, send) in one
\* canonical order (Pick): the steps of one loop commute with each other; the actions themselves accept any
\* order (the trace specification replays the recorded one). A deployment round launches its tasks at once.
Pick(S) == CHOOSE x \in S : TRUE
RECURSIVE Assign(_, _)
Assign(R, F) == IF R = {} \/ F = {} THEN {}
                ELSE LET r == Pick(R) f == Pick(F) IN {<<r, f>>} \cup Assign(R \ {r}, F \ {f})
FreeIds == {t \in TaskIds : tenv[t] = None}
OneOf(S, A(_)) == S # {} /\ A(Pick(S))

Steps ==
  \/ \E e \in Envs : AcqCrash(e)
  \/ \E e \in Envs :
       \/ \E c \in WfChoices, D \in DetChoices, s \in Scripts : CreateCall(e, c[1], c[2], c[3], D, s)
       \/ CSnap(e) \/ CRefuse(e) \/ CRegister(e) \/ CDeployLock(e)
       \/ OneOf({t \in TaskIds : ENABLED Claim(e, t)}, LAMBDA t : Claim(e, t))
       \/ LET R == Launchable(e) \ RolesLaunchedNow(e) IN
            apc[e] = "acq" /\ R # {} /\ Cardinality(FreeIds) >= Cardinality(R) /\ LaunchSet(e, Assign(R, FreeIds))
       \/ OneOf({t \in cur[e] : owner[t] = None /\ ~inRoster[t]}, LAMBDA t : Lock(e, t))
       \/ OneOf({t \in cur[e] : ~inRoster[t]}, LAMBDA t : RosterAppend(e, t))
       \/ OneOf(claimed[e], LAMBDA t : LockReused(e, t))
       \/ OneOf({t \in relq[e] : owner[t] \in {e, None}}, LAMBDA t : Unlock(e, t))
       \/ AcqRetry(e)
       \/ \E ok \in BOOLEAN : CDeployEnd(e, ok) \/ CConfigure(e, ok) \/ CTailGoError(e, ok) \/ XTrans(e, ok) \/ XGoError(e, ok)
       \/ CReplyOk(e) \/ CReplyErr(e) \/ CReplyGone(e)
       \/ \E who \in {"c", "d"} : TdLock(e, who)
       \/ TdRefuse(e) \/ TdLeft(e) \/ TdReleased1(e) \/ TdRelError(e) \/ TdCancel(e) \/ TdReleased2(e) \/ TdDone(e) \/ TdDelete(e)
       \/ \E T \in SUBSET TasksOfRoles(e, HookTaskRoles(e)) : TdHooks(e, T)
       \/ \E fl \in DestroyFlags : DestroyCall(e, fl)
       \/ \E op \in {"STOP_ACTIVITY", "RESET"}, ok \in BOOLEAN : DPre(e, op, ok)
       \/ DPlan(e) \/ DGoTd(e) \/ DTdNotFound(e) \/ DReply(e)
       \/ \E op \in Ops : ControlCall(e, op)
       \/ XForce(e) \/ XReply(e)
  \/ CleanupCall \/ CleanupReply
  \/ \E t \in TaskIds : TaskRunning(t) \/ TaskGone(t)
  \/ \E k \in Killers :
       \/ KillBegin(k) \/ KillRemove(k)
       \/ OneOf(ksel[k], LAMBDA t : \E act \in BOOLEAN : KillSelect(k, t, act))
       \/ OneOf(kq[k], LAMBDA t : KillSend(k, t))

Next == ~crashed /\ Steps

Spec == Init /\ [][Next]_vars

(* =============================== properties ============================== *)
TypeOK ==
  /\ listed \subseteq Envs /\ \A e \in Envs : est[e] \in States /\ elock[e] \in {"free", "c", "td"}
  /\ \A t \in TaskIds : owner[t] \in Envs \cup {None} /\ tenv[t] \in Envs \cup {None}
  /\ AllKq \subseteq TaskIds

(* ---- C04 ---- *)
\* owner is a function (one owner at most); what must hold on top of that: every task a deployed environment
\* that is not being torn down counts as its own (role.Task, what GetEnvironments lists) is owned by it, hence
\* by no other environment
Settled(e) == e \in listed /\ tdp[e] = "idle" /\ apc[e] = "done" /\ cpc[e] \in {"deployed", "ok", "ret", "tail"}
OneOwner == \A e \in Envs : Settled(e) => \A t \in EnvTasks(e) : owner[t] = e
\* live environments have disjoint detector sets
DetExclusive == \A e1, e2 \in listed : e1 # e2 => dets[e1] \cap dets[e2] = {}
\* a KILL is only sent for an unowned task; a transition of e commands only tasks owned by e;
\* (history flags set by the actions); a release for e changes only tasks owned by e or by nobody: by
\* construction of Unlock (releaseTask refuses tasks locked by another environment)
ForeignUntouched == ~killedOwned /\ ~cmdForeign
\* a create that needs a held detector is refused; the refusal changes nothing of the holder (CRefuse leaves
\* evars/avars/tdvars/tvars unchanged by construction)
ConflictFailsCleanly == ~conflictIn
NoCrash == ~crashed

(* ---- C06 ---- *)
Post(e) ==
  /\ e \notin listed
  /\ \A t \in TaskIds : owner[t] # e
  \* asked to terminate (or selected for a KILL by a call that is still in progress)
  \* (a task another environment reused in the meantime is that environment's business: lastOwner)
  \* (judged when no destroy of e is in progress any more: that call answers for the kills)
  /\ dkeep[e] \/ dpc[e] # "idle"
       \/ \A t \in TaskIds : (lastOwner[t] = e /\ alive[t] /\ owner[t] = None /\ \A e2 \in Envs : t \notin claimed[e2])
                                => (killSent[t] \/ t \in AllKq \/ t \in AllKsel)
  \* what it launched and is still alive without a KILL is in the roster (unowned: it falls to the next cleanup,
  \* or reused by another environment)
  /\ \A t \in TaskIds : (tenv[t] = e /\ alive[t] /\ ~killSent[t] /\ t \notin AllKq /\ t \notin AllKsel /\ ~(apc[e] = "failing" /\ t \in cur[e]))
                          => inRoster[t]
  /\ ~pend[e]
PostOnReturn == \A e \in Envs : (dret[e] = "ok" \/ cret[e] = "err") => Post(e)
\* a destroy that cannot be honoured returns an error (= PostOnReturn restricted to destroy)
HonestError == \A e \in Envs : dret[e] = "ok" => Post(e)
CreateFailsCleanly == \A e \in Envs : cret[e] = "err" => Post(e)
DestroyHooksLast == ~hooksEarly

=============================================================================
