------------------------------ MODULE Failure ------------------------------
(***************************************************************************)
(* C03 - failure of a critical task drives a live environment to ERROR.    *)
(*                                                                         *)
(* Code (AliECS core):                                                     *)
(*  core/task/scheduler.go   failure()            FAILURE event -> Executor/AgentFailedEvent *)
(*  core/task/manager.go     handleMessage(TaskStatusMessage): terminal Mesos status of a   *)
(*                           locked task => go updateTaskState(ERROR); go updateTaskStatus  *)
(*                           HandleExecutorFailed / HandleAgentFailed: every task of the     *)
(*                           executor/agent => updateTaskState(ERROR) + INACTIVE             *)
(*                           updateTaskState: task.state, then parent role UpdateState       *)
(*  core/workflow/taskrole.go updateState: role state := s; forwards to the parent only when *)
(*                           the role is critical                                            *)
(*  core/workflow/aggregatorrole.go + safestate.go: root merge, then                         *)
(*  core/workflow/parentadapter.go updateState: NON-BLOCKING send of the root state to the   *)
(*                           subscribers (select { case ch <- s: default: })                 *)
(*  core/environment/environment.go subscribeToWfState: watcher goroutine, started after     *)
(*                           CONFIGURE succeeded; unbuffered channel; on ERROR arms a 500 ms *)
(*                           timer and EXITS (one-shot); exits on DONE; the timer body does  *)
(*                           TryTransition(GO_ERROR), setState("ERROR") if refused, then     *)
(*                           STOP for the tasks still RUNNING                                *)
(*  core/environment/manager.go handleDeviceEvent(TASK_INTERNAL_ERROR): only when the        *)
(*                           environment is RUNNING: role.UpdateState(ERROR) and             *)
(*                           TryTransition(STOP_ACTIVITY), no criticality test               *)
(*  core/environment/environment.go TryTransition: env.transitionMutex (the "lock");         *)
(*                           before_GO_ERROR / before_STOP_ACTIVITY record the end of run    *)
(*                                                                                           *)
(* One action per message / goroutine step / fault.  A state update of a task climbs the    *)
(* tree as a "chain":  task (updateTaskState) -> fwd (taskRole criticality test) -> root     *)
(* (root merge) -> notify (ParentAdapter send).  The tree is flat (root aggregator with      *)
(* task roles); the fold algebra and deeper trees are C11's subject (spec/RoleTree.tla).     *)
(***************************************************************************)
EXTENDS Naturals, FiniteSets, Sequences, TLC

CONSTANTS
  NTasks,         \* 1..3: the workflow's task roles are t1..tN
  MaxFaults,      \* fault budget (1 or 2)
  MaxStale,       \* stale healthy state messages of a dead task that may still be processed (0 or 1)
  MaxMup,         \* master-generated TASK_RUNNING updates (no executor id) that may arrive (0 or 1)
  Racing,         \* BOOLEAN: one API transition (START from CONFIGURED, STOP from RUNNING) may race
  Kinds,          \* fault kinds explored, subset of AllKinds
  Layouts,        \* subset of {"own", "shared", "mixed"}: which tasks share an executor (= agent in the simulation)
  InitStates,     \* subset of {"CONFIGURED", "RUNNING"}
  InitWatch,      \* subset of {"select", "unsub", "busy"}: where the watcher is when the first fault may strike
  GoErrHooks,     \* subset of {"none", "early", "late"}: a failing critical before_GO_ERROR hook with
                  \* negative weight ("early": refused before the end of run is recorded) or not ("late")
  \* deviations of the code as it is (TRUE) from the repaired design (FALSE)
  Code_NotifyLossy,                        \* the root state is sent without blocking on an unbuffered channel
  Code_SubscribeIgnoresError,              \* a watcher that finds the workflow already in ERROR does nothing
  Code_InternalErrorIgnoresCriticality,    \* TASK_INTERNAL_ERROR stops the run whatever the task's criticality
  Code_InternalErrorIgnoredWhenConfigured, \* TASK_INTERNAL_ERROR is dropped unless the environment is RUNNING
  Code_ForcedErrorSkipsRunEnd,             \* setState("ERROR") after a refused GO_ERROR records no end of run
  FineChains,     \* TRUE: a state update climbs in separate steps (role, forward test, root merge, send);
                  \* FALSE: role update + forward test + root merge are one step (tree races are C11's subject)
  Strict          \* TRUE: plain properties; FALSE: executions that went through a deviation are excused

AllKinds == {"TASK_FAILED", "TASK_LOST", "TASK_KILLED", "TASK_FINISHED", "EXECUTOR_LOST", "AGENT_LOST", "INTERNAL_ERROR"}
StatusKinds == {"TASK_FAILED", "TASK_LOST", "TASK_KILLED"}
\* the failure kinds of the statement ("its process dies" is TASK_FAILED in the simulation)
StatementKinds == AllKinds \ {"TASK_FINISHED"}

TaskSeq == SubSeq(<<"t1", "t2", "t3">>, 1, NTasks)
Tasks == {TaskSeq[i] : i \in 1..Len(TaskSeq)}
Live == {"CONFIGURED", "RUNNING"}

VARIABLES
  crit,      \* [Tasks -> BOOLEAN]     workflow: criticality of the task roles
  layout,    \* "own" | "shared" | "mixed"
  hook,      \* "none" | "early" | "late"
  envSt,     \* environment state (env.Sm.Current())
  lock,      \* holder of env.transitionMutex: "none" | "api" | "ie"   (GO_ERROR of the watcher is atomic)
  tx,        \* the transition run by the lock holder
  apiLeft,   \* API transitions the operator may still request
  tstate,    \* [Tasks -> state]  task / task-role state as the tree sees it
  tstatus,   \* [Tasks -> "ACTIVE" | "INACTIVE"]
  alive,     \* [Tasks -> BOOLEAN] the task's process exists and answers commands
  sick,      \* tasks that went to ERROR on their own (TASK_INTERNAL_ERROR): they answer every command with an error
  late,      \* dead tasks whose answer to the command in progress was already on its way when they died
  inp,       \* other inputs left: [stale |-> n, mup |-> n] (stale healthy state messages, master-generated status updates)
  reach,     \* [Tasks -> SUBSET {"exec","agent"}] roster still attributes the task to its executor / agent
  root,      \* cached state of the workflow root
  chains,    \* state updates in flight: set of [t, s, pc, ie]
  msgs,      \* Mesos events in flight towards the core
  stq,       \* tasks with a pending updateTaskStatus(INACTIVE)
  wpc,       \* watcher: "unsub" | "select" | "busy" | "loop" | "armed" | "fired" | "stop" | "exited"
  wval,      \* value the watcher received last
  nbuf,      \* repaired design only: one-slot buffer keeping the latest undelivered root state
  ies,       \* tasks whose TASK_INTERNAL_ERROR handler goroutine waits to run STOP_ACTIVITY
  runEnd,    \* "norun" | "open" (run started, end not recorded) | "recorded"
  budget,    \* faults left
  critHit,      \* history: a critical task of a live environment was hit by a failure kind of the statement
  critTouched,  \* history: any injected event touched a critical task
  excused       \* history: deviations the execution went through (subset of {"live","inert","runend"})

vars == <<crit, layout, hook, envSt, lock, tx, apiLeft, tstate, tstatus, alive, sick, late, inp, reach, root, chains, msgs, stq,
          wpc, wval, nbuf, ies, runEnd, budget, critHit, critTouched, excused>>

(* ------------------------------------------------------------------------ *)
(* Pure operators (shared with FailureTrace)                                *)
(* ------------------------------------------------------------------------ *)
\* sm/state.go: State.X (see spec/RoleTree.tla, C11)
XS(s, o) ==
  IF s = o THEN s
  ELSE IF s = "ERROR" \/ o = "ERROR" THEN "ERROR"
  ELSE IF s = "INVARIANT" THEN o
  ELSE IF o = "INVARIANT" THEN s
  ELSE "MIXED"

\* safestate.go: aggregateState over the critical children (X is commutative/associative/idempotent)
FoldOf(cr, ts) ==
  LET S == {ts[t] : t \in {u \in DOMAIN cr : cr[u]}}
  IN IF S = {} THEN "INVARIANT"
     ELSE IF "ERROR" \in S THEN "ERROR"
     ELSE IF Cardinality(S) = 1 THEN CHOOSE x \in S : TRUE
     ELSE "MIXED"

\* safestate.go: SafeState.merge for an aggregator
MergeRootOf(cr, r, s, ts) ==
  IF r = s THEN r
  ELSE IF s = "MIXED" /\ r # "ERROR" THEN "MIXED"
  ELSE IF s = "ERROR" THEN "ERROR"
  ELSE FoldOf(cr, ts)

\* executor (= agent in the simulation, see MAccept) of a task under a layout
ExecOf(lay, t) ==
  CASE lay = "own" -> t
    [] lay = "shared" -> "shared"
    [] lay = "mixed" -> IF t = TaskSeq[Len(TaskSeq)] THEN t ELSE "shared"
    [] OTHER -> t

\* tasks whose process is lost with fault (k, t)
Affected(lay, k, t, al) ==
  IF k \in {"EXECUTOR_LOST", "AGENT_LOST"} THEN {u \in Tasks : ExecOf(lay, u) = ExecOf(lay, t) /\ al[u]}
  ELSE {t}

\* what the watcher does with a received root state (environment.go: WORKFLOW_STATE_LOOP)
WatchAfter(v) == IF v = "ERROR" THEN "armed" ELSE IF v = "DONE" THEN "exited" ELSE "loop"

\* the end of run is recorded by before_STOP_ACTIVITY / before_GO_ERROR only when a run is open
Rec(re) == IF re = "open" THEN "recorded" ELSE re

Dst(op) == IF op = "START" THEN "RUNNING" ELSE "CONFIGURED"
TxIdle == [who |-> "none", op |-> "none", pc |-> "idle", targets |-> {}, replied |-> {}, failed |-> {}]

Chain(t, s, ie) == [t |-> t, s |-> s, pc |-> "task", ie |-> ie, val |-> "none"]
Excuse(what) == IF Strict THEN excused ELSE excused \cup {what}

(* ------------------------------------------------------------------------ *)
Init ==
  /\ crit \in [Tasks -> BOOLEAN]
  /\ layout \in Layouts
  /\ hook \in GoErrHooks
  /\ envSt \in InitStates
  /\ lock = "none" /\ tx = TxIdle
  /\ apiLeft = IF Racing THEN 1 ELSE 0
  /\ tstate = [t \in Tasks |-> envSt]
  /\ tstatus = [t \in Tasks |-> "ACTIVE"]
  /\ alive = [t \in Tasks |-> TRUE]
  /\ sick = {} /\ late = {}
  /\ inp = [stale |-> MaxStale, mup |-> MaxMup]
  /\ reach = [t \in Tasks |-> {"exec", "agent"}]
  /\ root = FoldOf(crit, tstate)
  /\ chains = {} /\ msgs = {} /\ stq = {} /\ ies = {}
  /\ wpc \in InitWatch
  \* the watcher subscribes right after creation (CONFIGURED); it can only be handling a notification
  \* when a critical task exists
  /\ (wpc = "unsub" => envSt = "CONFIGURED")
  /\ (wpc = "busy" => \E t \in Tasks : crit[t])
  /\ wval = root
  /\ nbuf = "none"
  /\ runEnd = IF envSt = "RUNNING" THEN "open" ELSE "norun"
  /\ budget = MaxFaults
  /\ critHit = FALSE /\ critTouched = FALSE /\ excused = {}

(* ------------------------------------------------------------------------ *)
(* Faults (injected by the simulated Mesos master)                          *)
(* ------------------------------------------------------------------------ *)
\* assumption: an earlier fault of the same task has been taken in when the next one strikes
Settled(ts) ==
  \A m \in msgs : IF m.type = "failure" THEN \A u \in ts : ExecOf(layout, u) # ExecOf(layout, m.t) ELSE m.t \notin ts

\* a task may die while it still owes its answer to the command in progress; the answer may already be
\* on its way (it is then processed after the failure report: every message has a goroutine of its own)
Owing(ts) == IF tx.pc = "sent" THEN (tx.targets \ tx.replied) \cap ts ELSE {}
DieOwing(ts) == \E L \in SUBSET Owing(ts) : late' = late \cup L

Note(k, ts) ==
  /\ critTouched' = (critTouched \/ \E u \in ts : crit[u])
  /\ critHit' = (critHit \/ (k \in StatementKinds /\ envSt \in Live /\ \E u \in ts : crit[u]))

\* ProcDies / Lost / KilledByOther: Mesos reports TASK_FAILED / TASK_LOST / TASK_KILLED on its own
TaskTerminal(k, t) ==
  /\ budget > 0 /\ k \in Kinds \cap StatusKinds /\ alive[t] /\ envSt \in Live /\ Settled({t})
  /\ alive' = [alive EXCEPT ![t] = FALSE]
  /\ msgs' = msgs \cup {[type |-> "status", k |-> "TERMINAL", t |-> t]}   \* the three kinds take the same path
  /\ budget' = budget - 1
  /\ Note(k, {t})
  /\ DieOwing({t})
  /\ UNCHANGED <<crit, layout, hook, envSt, lock, tx, apiLeft, tstate, tstatus, sick, inp, reach, root, chains, stq, wpc, wval, nbuf,
                 ies, runEnd, excused>>

ProcDies(t) == TaskTerminal("TASK_FAILED", t)
Lost(t) == TaskTerminal("TASK_LOST", t)
KilledByOther(t) == TaskTerminal("TASK_KILLED", t)

\* the process ends with exit code 0 (not a failure kind of the statement; models the DONE path)
Finished(t) ==
  /\ budget > 0 /\ "TASK_FINISHED" \in Kinds /\ alive[t] /\ envSt \in Live /\ Settled({t})
  /\ alive' = [alive EXCEPT ![t] = FALSE]
  /\ msgs' = msgs \cup {[type |-> "status", k |-> "TASK_FINISHED", t |-> t]}
  /\ budget' = budget - 1
  /\ Note("TASK_FINISHED", {t})
  /\ DieOwing({t})
  /\ UNCHANGED <<crit, layout, hook, envSt, lock, tx, apiLeft, tstate, tstatus, sick, inp, reach, root, chains, stq, wpc, wval, nbuf,
                 ies, runEnd, excused>>

GroupLost(k, t) ==
  /\ budget > 0 /\ k \in Kinds /\ alive[t] /\ envSt \in Live
  /\ LET A == Affected(layout, k, t, alive)
     IN /\ Settled(A)
        /\ alive' = [u \in Tasks |-> IF u \in A THEN FALSE ELSE alive[u]]
        /\ Note(k, A)
        /\ DieOwing(A)
  /\ msgs' = msgs \cup {[type |-> "failure", k |-> k, t |-> t]}
  /\ budget' = budget - 1
  /\ UNCHANGED <<crit, layout, hook, envSt, lock, tx, apiLeft, tstate, tstatus, sick, inp, reach, root, chains, stq, wpc, wval, nbuf,
                 ies, runEnd, excused>>

ExecutorLost(t) == GroupLost("EXECUTOR_LOST", t)
AgentLost(t) == GroupLost("AGENT_LOST", t)

\* the task announces TASK_INTERNAL_ERROR (its process stays and keeps answering commands)
InternalError(t) ==
  /\ budget > 0 /\ "INTERNAL_ERROR" \in Kinds /\ alive[t] /\ t \notin sick /\ envSt \in Live /\ Settled({t})
  /\ msgs' = msgs \cup {[type |-> "device", k |-> "INTERNAL_ERROR", t |-> t]}
  /\ sick' = sick \cup {t}
  /\ budget' = budget - 1
  /\ Note("INTERNAL_ERROR", {t})
  /\ UNCHANGED <<crit, layout, hook, envSt, lock, tx, apiLeft, tstate, tstatus, alive, late, inp, reach, root, chains, stq, wpc, wval,
                 nbuf, ies, runEnd, excused>>

\* a healthy state message of a task that is already dead is processed only now (a duplicated or late answer:
\* scheduler.go turns every transition response into a TaskStateMessage, whether a command waits for it or not)
Healthy == IF runEnd = "open" THEN "RUNNING" ELSE "CONFIGURED"
StaleUpdate(t) ==
  /\ inp.stale > 0 /\ ~alive[t]
  /\ inp' = [inp EXCEPT !.stale = @ - 1]
  /\ chains' = chains \cup {Chain(t, Healthy, FALSE)}
  /\ UNCHANGED <<crit, layout, hook, envSt, lock, tx, apiLeft, tstate, tstatus, alive, sick, late, reach, root, msgs, stq, wpc, wval,
                 nbuf, ies, runEnd, budget, critHit, critTouched, excused>>

\* the master (not the executor) reports TASK_RUNNING for a running task: no executor id, possibly no agent id
\* (agent re-registration, answers to reconciliation)
MasterUpdate(t, v) ==
  /\ inp.mup > 0 /\ alive[t] /\ v \in {"noexec", "noids"} /\ envSt \in Live
  /\ inp' = [inp EXCEPT !.mup = @ - 1]
  /\ msgs' = msgs \cup {[type |-> "running", k |-> v, t |-> t]}
  /\ UNCHANGED <<crit, layout, hook, envSt, lock, tx, apiLeft, tstate, tstatus, alive, sick, late, reach, root, chains, stq, wpc, wval,
                 nbuf, ies, runEnd, budget, critHit, critTouched, excused>>

Input == \E t \in Tasks : StaleUpdate(t) \/ MasterUpdate(t, "noexec") \/ MasterUpdate(t, "noids")

Fault == \E t \in Tasks : ProcDies(t) \/ Lost(t) \/ KilledByOther(t) \/ Finished(t) \/ ExecutorLost(t) \/ AgentLost(t)
                          \/ InternalError(t)

(* ------------------------------------------------------------------------ *)
(* Pipeline                                                                 *)
(* ------------------------------------------------------------------------ *)
\* manager.go updateTaskStatus(TASK_RUNNING): the task is (still) ACTIVE; the ids the roster knows are
\* refreshed only from ids the update carries, so such an update changes nothing here
RunningMsg(m) ==
  /\ m \in msgs /\ m.type = "running"
  /\ msgs' = msgs \ {m}
  /\ tstatus' = [tstatus EXCEPT ![m.t] = IF alive[m.t] THEN "ACTIVE" ELSE @]
  /\ UNCHANGED <<crit, layout, hook, envSt, lock, tx, apiLeft, tstate, alive, sick, late, inp, reach, root, chains, stq, wpc, wval, nbuf, ies,
                 runEnd, budget, critHit, critTouched, excused>>

\* manager.go handleMessage(TaskStatusMessage): a terminal status of a locked task (hostname, agent id and
\* executor id known: it belongs to an environment) => go updateTaskState(ERROR); TASK_FINISHED => DONE
Locked(t) == reach[t] = {"exec", "agent"}
StatusMsg(m) ==
  /\ m \in msgs /\ m.type = "status"
  /\ msgs' = msgs \ {m}
  /\ chains' = IF m.k = "TASK_FINISHED" THEN chains \cup {Chain(m.t, "DONE", FALSE)}
               ELSE IF Locked(m.t) THEN chains \cup {Chain(m.t, "ERROR", FALSE)}
               ELSE chains
  /\ IF FineChains THEN stq' = stq \cup {m.t} /\ UNCHANGED tstatus
                   ELSE tstatus' = [tstatus EXCEPT ![m.t] = "INACTIVE"] /\ UNCHANGED stq
  /\ UNCHANGED <<crit, layout, hook, envSt, lock, tx, apiLeft, tstate, alive, sick, late, inp, reach, root, wpc, wval, nbuf, ies,
                 runEnd, budget, critHit, critTouched, excused>>

\* scheduler.go failure -> environment/manager.go -> HandleExecutorFailed / HandleAgentFailed
FailureMsg(m) ==
  /\ m \in msgs /\ m.type = "failure"
  /\ LET key == IF m.k = "EXECUTOR_LOST" THEN "exec" ELSE "agent"
         A == {u \in Tasks : ExecOf(layout, u) = ExecOf(layout, m.t) /\ key \in reach[u]}
     IN /\ reach' = [u \in Tasks |-> IF u \in A THEN reach[u] \ {key} ELSE reach[u]]
        /\ chains' = chains \cup {Chain(u, "ERROR", FALSE) : u \in A}
        /\ IF FineChains THEN stq' = stq \cup A /\ UNCHANGED tstatus
                         ELSE tstatus' = [u \in Tasks |-> IF u \in A THEN "INACTIVE" ELSE tstatus[u]] /\ UNCHANGED stq
  /\ msgs' = msgs \ {m}
  /\ UNCHANGED <<crit, layout, hook, envSt, lock, tx, apiLeft, tstate, alive, sick, late, inp, root, wpc, wval, nbuf, ies, runEnd,
                 budget, critHit, critTouched, excused>>

\* environment/manager.go handleDeviceEvent(TASK_INTERNAL_ERROR)
DeviceMsg(m) ==
  /\ m \in msgs /\ m.type = "device"
  /\ msgs' = msgs \ {m}
  /\ IF envSt = "RUNNING"
       THEN /\ chains' = chains \cup {Chain(m.t, "ERROR", TRUE)}
            /\ UNCHANGED excused
       ELSE IF Code_InternalErrorIgnoredWhenConfigured
         THEN /\ UNCHANGED chains
              /\ excused' = IF crit[m.t] /\ envSt \in Live THEN Excuse("live") ELSE excused
         ELSE /\ chains' = chains \cup {Chain(m.t, "ERROR", FALSE)}
              /\ UNCHANGED excused
  /\ UNCHANGED <<crit, layout, hook, envSt, lock, tx, apiLeft, tstate, tstatus, alive, sick, late, inp, reach, root, stq, wpc, wval, nbuf, ies,
                 runEnd, budget, critHit, critTouched>>

\* manager.go updateTaskStatus: terminal status => INACTIVE
StatusInactive(t) ==
  /\ t \in stq
  /\ stq' = stq \ {t}
  /\ tstatus' = [tstatus EXCEPT ![t] = "INACTIVE"]
  /\ UNCHANGED <<crit, layout, hook, envSt, lock, tx, apiLeft, tstate, alive, sick, late, inp, reach, root, chains, msgs, wpc, wval, nbuf, ies,
                 runEnd, budget, critHit, critTouched, excused>>

\* the goroutine of a TASK_INTERNAL_ERROR goes on to STOP_ACTIVITY once its role update returned
EndChain(c) ==
  IF c.ie /\ (Code_InternalErrorIgnoresCriticality \/ crit[c.t]) THEN ies \cup {c.t} ELSE ies

\* manager.go updateTaskState / taskrole.go updateState: the (role) state becomes s.
\* Coarse granularity: the criticality test and the root merge happen in the same step.
StateToError(c) ==
  /\ c \in chains /\ c.pc = "task"
  /\ tstate' = [tstate EXCEPT ![c.t] = c.s]
  /\ IF FineChains
       THEN /\ chains' = (chains \ {c}) \cup {[c EXCEPT !.pc = "fwd"]}
            /\ UNCHANGED <<root, ies, excused>>
       ELSE IF crit[c.t]
              THEN /\ root' = MergeRootOf(crit, root, c.s, tstate')
                   /\ chains' = (chains \ {c}) \cup {[c EXCEPT !.pc = "notify", !.val = root']}
                   /\ UNCHANGED <<ies, excused>>
              ELSE /\ chains' = chains \ {c}
                   /\ ies' = EndChain(c)
                   /\ excused' = IF c.ie /\ Code_InternalErrorIgnoresCriticality THEN Excuse("inert") ELSE excused
                   /\ UNCHANGED root
  /\ UNCHANGED <<crit, layout, hook, envSt, lock, tx, apiLeft, tstatus, alive, sick, late, inp, reach, msgs, stq, wpc, wval, nbuf,
                 runEnd, budget, critHit, critTouched>>

\* taskrole.go updateState: if t.Critical { t.parent.updateState(s) }
RoleForward(c) ==
  /\ c \in chains /\ c.pc = "fwd"
  /\ IF crit[c.t]
       THEN /\ chains' = (chains \ {c}) \cup {[c EXCEPT !.pc = "root"]}
            /\ UNCHANGED <<ies, excused>>
       ELSE /\ chains' = chains \ {c}
            /\ ies' = EndChain(c)
            /\ excused' = IF c.ie /\ Code_InternalErrorIgnoresCriticality THEN Excuse("inert") ELSE excused
  /\ UNCHANGED <<crit, layout, hook, envSt, lock, tx, apiLeft, tstate, tstatus, alive, sick, late, inp, reach, root, msgs, stq, wpc, wval, nbuf,
                 runEnd, budget, critHit, critTouched>>

\* aggregatorrole.go updateState: r.state.merge(s, r)
RootMerge(c) ==
  /\ c \in chains /\ c.pc = "root"
  /\ root' = MergeRootOf(crit, root, c.s, tstate)
  /\ chains' = (chains \ {c}) \cup {[c EXCEPT !.pc = "notify", !.val = root']}
  /\ UNCHANGED <<crit, layout, hook, envSt, lock, tx, apiLeft, tstate, tstatus, alive, sick, late, inp, reach, msgs, stq, wpc, wval, nbuf, ies,
                 runEnd, budget, critHit, critTouched, excused>>

\* parentadapter.go updateState: r.parent.updateState(r.state.get()); the send succeeds only when the
\* watcher waits at its select (rendezvous on an unbuffered channel). The value sent is the root state
\* read right after the merge (the window between the merge and this read is C11's "ReadCache" race).
NotifyDeliver(c) ==
  /\ c \in chains /\ c.pc = "notify"
  /\ wpc = "select" /\ nbuf = "none"
  /\ wpc' = "busy" /\ wval' = c.val
  /\ chains' = chains \ {c}
  /\ ies' = EndChain(c)
  /\ UNCHANGED <<crit, layout, hook, envSt, lock, tx, apiLeft, tstate, tstatus, alive, sick, late, inp, reach, root, msgs, stq, nbuf,
                 runEnd, budget, critHit, critTouched, excused>>

\* ... otherwise the value is dropped (default branch), or nobody is subscribed any more
NotifyDrop(c) ==
  /\ c \in chains /\ c.pc = "notify"
  /\ wpc # "select" \/ nbuf # "none"
  /\ chains' = chains \ {c}
  /\ ies' = EndChain(c)
  /\ IF wpc \in {"unsub", "select", "busy", "loop"}
       THEN IF Code_NotifyLossy
              THEN /\ excused' = IF c.val = "ERROR" THEN Excuse("live") ELSE excused
                   /\ UNCHANGED nbuf
              ELSE \* repaired: a subscriber that is not ready finds the latest state when it comes back
                   \* (the latest one, except that a pending ERROR is never overwritten)
                   /\ nbuf' = IF wpc = "unsub" THEN "none" ELSE IF nbuf = "ERROR" THEN "ERROR" ELSE c.val
                   /\ UNCHANGED excused
       ELSE UNCHANGED <<nbuf, excused>>
  /\ UNCHANGED <<crit, layout, hook, envSt, lock, tx, apiLeft, tstate, tstatus, alive, sick, late, inp, reach, root, msgs, stq, wpc, wval,
                 runEnd, budget, critHit, critTouched>>

\* repaired design: the watcher back at its select takes the buffered state
WatchRecvBuffered ==
  /\ wpc = "select" /\ nbuf # "none"
  /\ wpc' = "busy" /\ wval' = nbuf /\ nbuf' = "none"
  /\ UNCHANGED <<crit, layout, hook, envSt, lock, tx, apiLeft, tstate, tstatus, alive, sick, late, inp, reach, root, chains, msgs, stq, ies,
                 runEnd, budget, critHit, critTouched, excused>>

\* environment.go subscribeToWfState: SubscribeToStateChange; wfState := wf.GetState(); if wfState != ERROR { loop }
WatchSubscribe ==
  /\ wpc = "unsub"
  /\ IF root = "ERROR"
       THEN IF Code_SubscribeIgnoresError
              THEN wpc' = "exited" /\ excused' = Excuse("live")
              ELSE wpc' = "armed" /\ UNCHANGED excused
       ELSE wpc' = "select" /\ UNCHANGED excused
  /\ UNCHANGED <<crit, layout, hook, envSt, lock, tx, apiLeft, tstate, tstatus, alive, sick, late, inp, reach, root, chains, msgs, stq, wval, nbuf,
                 ies, runEnd, budget, critHit, critTouched>>

\* the watcher looks at what it received: ERROR => arm the 500 ms timer and leave; DONE => leave
WatchRecv ==
  /\ wpc = "busy"
  /\ wpc' = WatchAfter(wval)
  /\ UNCHANGED <<crit, layout, hook, envSt, lock, tx, apiLeft, tstate, tstatus, alive, sick, late, inp, reach, root, chains, msgs, stq, wval, nbuf,
                 ies, runEnd, budget, critHit, critTouched, excused>>

WatchLoop ==
  /\ wpc = "loop"
  /\ wpc' = "select"
  /\ UNCHANGED <<crit, layout, hook, envSt, lock, tx, apiLeft, tstate, tstatus, alive, sick, late, inp, reach, root, chains, msgs, stq, wval, nbuf,
                 ies, runEnd, budget, critHit, critTouched, excused>>

TimerFire ==
  /\ wpc = "armed"
  /\ wpc' = "fired"
  /\ UNCHANGED <<crit, layout, hook, envSt, lock, tx, apiLeft, tstate, tstatus, alive, sick, late, inp, reach, root, chains, msgs, stq, wval, nbuf,
                 ies, runEnd, budget, critHit, critTouched, excused>>

\* TryTransition(GO_ERROR): waits for the lock; skipped when already in ERROR
GoError ==
  /\ wpc = "fired" /\ lock = "none"
  /\ hook = "none" \/ envSt = "ERROR"
  /\ IF envSt \in Live
       THEN envSt' = "ERROR" /\ runEnd' = Rec(runEnd)
       ELSE UNCHANGED <<envSt, runEnd>>
  /\ wpc' = "stop"
  /\ UNCHANGED <<crit, layout, hook, lock, tx, apiLeft, tstate, tstatus, alive, sick, late, inp, reach, root, chains, msgs, stq, wval, nbuf,
                 ies, budget, critHit, critTouched, excused>>

\* GO_ERROR refused (a critical before_GO_ERROR hook fails): env.setState("ERROR")
ForceError ==
  /\ wpc = "fired" /\ lock = "none"
  /\ hook # "none" /\ envSt \in Live
  /\ envSt' = "ERROR"
  /\ IF hook = "early" /\ Code_ForcedErrorSkipsRunEnd
       THEN /\ UNCHANGED runEnd
            /\ excused' = IF runEnd = "open" THEN Excuse("runend") ELSE excused
       ELSE /\ runEnd' = Rec(runEnd)
            /\ UNCHANGED excused
  /\ wpc' = "stop"
  /\ UNCHANGED <<crit, layout, hook, lock, tx, apiLeft, tstate, tstatus, alive, sick, late, inp, reach, root, chains, msgs, stq, wval, nbuf,
                 ies, budget, critHit, critTouched>>

\* STOP for the tasks still RUNNING (outside the lock); the live ones answer and become CONFIGURED
StopRunning ==
  /\ wpc = "stop"
  /\ wpc' = "exited"
  /\ chains' = chains \cup {Chain(t, "CONFIGURED", FALSE) : t \in {u \in Tasks : tstate[u] = "RUNNING" /\ alive[u]}}
  /\ UNCHANGED <<crit, layout, hook, envSt, lock, tx, apiLeft, tstate, tstatus, alive, sick, late, inp, reach, root, msgs, stq, wval, nbuf,
                 ies, runEnd, budget, critHit, critTouched, excused>>

(* ------------------------------------------------------------------------ *)
(* Transitions that hold the environment lock: the operator's request and   *)
(* the STOP_ACTIVITY of the TASK_INTERNAL_ERROR handler                     *)
(* ------------------------------------------------------------------------ *)
ApiAcquire ==
  /\ apiLeft > 0 /\ lock = "none" /\ envSt \in Live
  /\ lock' = "api"
  /\ tx' = [TxIdle EXCEPT !.who = "api", !.op = IF envSt = "CONFIGURED" THEN "START" ELSE "STOP", !.pc = "locked"]
  /\ apiLeft' = apiLeft - 1
  /\ UNCHANGED <<crit, layout, hook, envSt, tstate, tstatus, alive, sick, late, inp, reach, root, chains, msgs, stq, wpc, wval, nbuf, ies, runEnd,
                 budget, critHit, critTouched, excused>>

IeAcquire(t) ==
  /\ t \in ies /\ lock = "none"
  /\ ies' = ies \ {t}
  /\ IF envSt = "RUNNING"
       THEN /\ lock' = "ie"
            /\ tx' = [TxIdle EXCEPT !.who = "ie", !.op = "STOP", !.pc = "locked"]
       ELSE UNCHANGED <<lock, tx>>    \* STOP_ACTIVITY inappropriate in the current state: logged only
  /\ UNCHANGED <<crit, layout, hook, envSt, apiLeft, tstate, tstatus, alive, sick, late, inp, reach, root, chains, msgs, stq, wpc, wval, nbuf,
                 runEnd, budget, critHit, critTouched, excused>>

\* before_<event> (START: a run opens; STOP: the end of run is recorded), then the command goes to
\* the ACTIVE tasks (workflow.GetActiveTasks)
TxSend ==
  /\ tx.pc = "locked"
  /\ runEnd' = IF tx.op = "START" THEN "open" ELSE Rec(runEnd)
  /\ tx' = [tx EXCEPT !.pc = "sent", !.targets = {t \in Tasks : tstatus[t] = "ACTIVE"}]
  /\ UNCHANGED <<crit, layout, hook, envSt, lock, apiLeft, tstate, tstatus, alive, sick, late, inp, reach, root, chains, msgs, stq, wpc, wval, nbuf,
                 ies, budget, critHit, critTouched, excused>>

\* a live target answers: done, or - a task that is in ERROR on its own - an error and state ERROR
TxReply(t) ==
  /\ tx.pc = "sent" /\ t \in tx.targets \ tx.replied /\ (alive[t] \/ t \in late)
  /\ tx' = [tx EXCEPT !.replied = @ \cup {t}, !.failed = IF t \in sick /\ alive[t] THEN @ \cup {t} ELSE @]
  /\ chains' = chains \cup {Chain(t, IF t \in sick /\ alive[t] THEN "ERROR" ELSE Dst(tx.op), FALSE)}
  /\ late' = late \ {t}
  /\ UNCHANGED <<crit, layout, hook, envSt, lock, apiLeft, tstate, tstatus, alive, sick, inp, reach, root, msgs, stq, wpc, wval, nbuf,
                 ies, runEnd, budget, critHit, critTouched, excused>>

\* every target answered, or died before answering (the command then times out after 90 s)
TxDone == tx.pc = "sent" /\ \A t \in tx.targets : t \in tx.replied \/ (~alive[t] /\ t \notin late)
TxBad == {t \in tx.targets : t \in tx.failed \/ (t \notin tx.replied /\ ~alive[t] /\ t \notin late)}

\* no critical target failed: the FSM enters the destination state (enter_<state>, after_<event> hooks follow) ...
TxEnter ==
  /\ TxDone /\ \A t \in TxBad : ~crit[t]
  /\ envSt' = Dst(tx.op)
  /\ tx' = [tx EXCEPT !.pc = "entered"]
  /\ UNCHANGED <<crit, layout, hook, lock, apiLeft, tstate, tstatus, alive, sick, late, inp, reach, root, chains, msgs, stq, wpc, wval, nbuf, ies,
                 runEnd, budget, critHit, critTouched, excused>>

\* ... and TryTransition returns: the lock is released
TxRelease ==
  /\ tx.pc = "entered"
  /\ lock' = "none" /\ tx' = TxIdle
  /\ UNCHANGED <<crit, layout, hook, envSt, apiLeft, tstate, tstatus, alive, sick, late, inp, reach, root, chains, msgs, stq, wpc, wval, nbuf, ies,
                 runEnd, budget, critHit, critTouched, excused>>

\* a critical target failed: the transition fails; the API handler then runs GO_ERROR itself
\* (server.go ControlEnvironment), the TASK_INTERNAL_ERROR handler only logs
TxFail ==
  /\ TxDone /\ \E t \in TxBad : crit[t]
  /\ IF tx.who = "api"
       THEN envSt' = "ERROR" /\ runEnd' = Rec(runEnd)
       ELSE UNCHANGED <<envSt, runEnd>>
  /\ lock' = "none" /\ tx' = TxIdle
  /\ UNCHANGED <<crit, layout, hook, apiLeft, tstate, tstatus, alive, sick, late, inp, reach, root, chains, msgs, stq, wpc, wval, nbuf, ies,
                 budget, critHit, critTouched, excused>>

Pipeline ==
  \/ \E m \in msgs : StatusMsg(m) \/ FailureMsg(m) \/ DeviceMsg(m) \/ RunningMsg(m)
  \/ \E t \in Tasks : StatusInactive(t) \/ IeAcquire(t) \/ TxReply(t)
  \/ \E c \in chains : StateToError(c) \/ RoleForward(c) \/ RootMerge(c) \/ NotifyDeliver(c) \/ NotifyDrop(c)
  \/ WatchSubscribe \/ WatchRecv \/ WatchLoop \/ WatchRecvBuffered \/ TimerFire \/ GoError \/ ForceError \/ StopRunning
  \/ TxSend \/ TxEnter \/ TxRelease \/ TxFail

Next == Fault \/ Input \/ ApiAcquire \/ Pipeline

Spec == Init /\ [][Next]_vars /\ WF_vars(Pipeline)

(* ------------------------------------------------------------------------ *)
(* Properties                                                               *)
(* ------------------------------------------------------------------------ *)
States == {"STANDBY", "CONFIGURED", "RUNNING", "ERROR", "DONE", "MIXED", "INVARIANT"}
TypeOK ==
  /\ envSt \in {"CONFIGURED", "RUNNING", "ERROR"}
  /\ lock \in {"none", "api", "ie"}
  /\ (lock = "none") = (tx.pc = "idle")
  /\ tstate \in [Tasks -> States] /\ root \in States /\ wval \in States
  /\ wpc \in {"unsub", "select", "busy", "loop", "armed", "fired", "stop", "exited"}
  /\ runEnd \in {"norun", "open", "recorded"}
  /\ budget \in 0..MaxFaults
  /\ \A c \in chains : c.pc \in {"task", "fwd", "root", "notify"}
  /\ (Code_NotifyLossy => nbuf = "none")

\* failures of non-critical tasks never change the environment's state: as long as no critical task
\* was touched and the operator's own transition is not what moves it, the state stays
NonCriticalInert ==
  [][(~critTouched' /\ lock # "api" /\ lock' # "api" /\ "inert" \notin excused') => envSt' = envSt]_vars

\* the failure of a critical task of a live environment leads to ERROR
ErrorReached == critHit ~> (envSt = "ERROR" \/ "live" \in excused)

\* an environment in ERROR has no open run
RunEndRecorded == (envSt = "ERROR" /\ "runend" \notin excused) => runEnd # "open"

\* no step is possible for ever: the model is finite by construction (used as a sanity check)
Quiescent == msgs = {} /\ chains = {} /\ stq = {} /\ ies = {} /\ lock = "none"
             /\ wpc \in {"select", "exited"} /\ nbuf = "none"
=============================================================================
