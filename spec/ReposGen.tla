------------------------------- MODULE ReposGen ------------------------------
(* Scenario generator for Repos (X10): every action of the model is an operation the harness can call on the real RepoManager    *)
(* (harness/cmd/reposrun), f = the fake Consul refuses PUTs during the call, Restart = a new process on the same KV and disk.     *)
(* A behaviour (tlc -simulate) is a scenario.  The guards only shape the walk (faults, bad indexes and restarts are thinned out   *)
(* or given their own levels).                                                                                                   *)
EXTENDS Repos
Lv == TLCGet("level")
Slot == Lv % 6
G_Add(n, r, f) == Slot # 5 /\ (f => Slot = 1) /\ (n = "bad" => Slot = 2) /\ Add(n, r, f)
G_Remove(i, f) == Slot \in {0, 1, 3} /\ (f => Slot = 1) /\ (i < 0 => Lv % 7 = 3) /\ Remove(i, f)
G_DefIdx(i, f) == Slot # 5 /\ (f => Slot \in {1, 4}) /\ (i < 0 => Lv % 7 = 3) /\ DefIdx(i, f)
G_DefName(n, f) == Slot # 5 /\ (f => Slot \in {1, 4}) /\ DefName(n, f)
G_RevIdx(i, r, f) == Slot # 5 /\ (f => Slot = 1) /\ (i < 0 => Lv % 7 = 3) /\ RevIdx(i, r, f)
G_Refresh == Slot = 2 /\ Refresh
G_RefreshIdx(i) == Slot = 2 /\ RefreshIdx(i)
G_GetWf(n, r) == Slot # 5 /\ GetWf(n, r)
G_Restart == Slot = 5 /\ Restart
GenNext == \/ \E n \in AddNames, r \in AddRevs, f \in Faults : G_Add(n, r, f)
           \/ \E i \in Idx, f \in Faults : G_Remove(i, f)
           \/ \E i \in Idx, f \in Faults : G_DefIdx(i, f)
           \/ \E n \in AddNames, f \in Faults : G_DefName(n, f)
           \/ \E i \in Idx, r \in Revs \cup {"nope"}, f \in Faults : G_RevIdx(i, r, f)
           \/ G_Refresh
           \/ \E i \in Idx : G_RefreshIdx(i)
           \/ \E n \in Names \cup {""}, r \in AddRevs : G_GetWf(n, r)
           \/ G_Restart
GenSpec == Init /\ [][GenNext]_vars
=============================================================================
