---------------------------- MODULE RoleTreeGen ----------------------------
(* Scenario generator / labelled twin of RoleTree: the same actions wrapped   *)
(* in named operators G_<Action> so that TLC labels the steps of the          *)
(* behaviours (simulation) and counterexamples (model checking) it prints.    *)
(* The state graph is the one of RoleTree!Spec.                               *)
EXTENDS RoleTree

G_Begin(t, l, k, v) == Begin(t, l, k, v)
\* (TLC labels a step with the operator and its arguments only when the quantifier ranges over
\* constant sets: the guard l \in Leaves is inside Begin)
NodeIds == 1..8
ASSUME \A s \in DOMAIN Shapes : Len(Shapes[s].parent) \in NodeIds
G_MergeAt(t) == MergeAt(t)
G_ReadCache(t) == ReadCache(t)
G_Deliver(t) == Deliver(t)

GenNext ==
  \/ \E t \in Threads, l \in NodeIds, k \in Kinds, v \in TaskStates \cup CallStates \cup LeafStatuses :
        G_Begin(t, l, k, v)
  \/ \E t \in Threads : G_MergeAt(t)
  \/ \E t \in Threads : G_ReadCache(t)
  \/ \E t \in Threads : G_Deliver(t)

GenSpec == Init /\ [][GenNext]_vars

=============================================================================
