---------------------------- MODULE RoleTreeGen ----------------------------
(* Scenario generator / labelled twin of RoleTree: the same actions wrapped   *)
(* in named operators G_<Action> so that TLC labels the steps of the          *)
(* behaviours (simulation) and counterexamples (model checking) it prints.    *)
(* The state graph is the one of RoleTree!Spec.                               *)
EXTENDS RoleTree

CONSTANT Priority   \* TRUE: schedules the harness can impose (simulation); FALSE: all interleavings (model checking)

\* a merge waiting for a lock goes on by itself as soon as the lock is free: in a schedule the harness
\* can impose nothing else happens in between
Auto == Priority /\ \E t \in Threads : thr[t].pc = "blocked" /\ lock[thr[t].kind][thr[t].at] = 0

G_Begin(t, l, k, v) == ~Auto /\ Begin(t, l, k, v)
\* (TLC labels a step with the operator and its arguments only when the quantifier ranges over
\* constant sets: the guard l \in Leaves is inside Begin)
NodeIds == 1..8
ASSUME \A s \in DOMAIN Shapes : Len(Shapes[s].parent) \in NodeIds
\* Readers of a cache also take the role's (read) lock: the unlocked re-read in ReadCache, and the walk
\* over the children in merge. RoleTree over-approximates them (a read never waits); the schedules
\* imposed on the real code avoid them, so that the only thread ever made to wait is the one probing
\* the lock of the very role another update is merging into.
Held(k, n) == \E t \in Threads : thr[t].pc = "computed" /\ thr[t].kind = k /\ thr[t].at = n
ChildHeld(t) == \E c \in Nodes : Parent(c) = thr[t].at /\ Held(thr[t].kind, c)
G_Sample(t) == ~Auto /\ Sample(t)
G_MergeEnter(t) == ~Auto /\ thr[t].pc \in {"call", "sampled"} /\ ~ChildHeld(t) /\ MergeEnter(t)
G_MergeUnblock(t) == MergeUnblock(t)
G_MergeAssign(t) == ~Auto /\ MergeAssign(t)
G_ReadCache(t) == ~Auto /\ thr[t].pc = "merged" /\ ~Held(thr[t].kind, thr[t].at) /\ ReadCache(t)
G_Deliver(t) == ~Auto /\ Deliver(t)

GenNext ==
  \/ \E t \in Threads, l \in NodeIds, k \in Kinds, v \in TaskStates \cup CallStates \cup LeafStatuses :
        G_Begin(t, l, k, v)
  \/ \E t \in Threads : G_Sample(t)
  \/ \E t \in Threads : G_MergeEnter(t)
  \/ \E t \in Threads : G_MergeUnblock(t)
  \/ \E t \in Threads : G_MergeAssign(t)
  \/ \E t \in Threads : G_ReadCache(t)
  \/ \E t \in Threads : G_Deliver(t)

GenSpec == Init /\ [][GenNext]_vars

=============================================================================
