-------------------------- MODULE EventStreamGen ----------------------------
(* Schedule generator for EventStream: the calls (Send, Unsubscribe) and the moment the  *)
(* reader goes away are chosen at quiescent points; internal steps are taken first.      *)
EXTENDS EventStream
Quiet == ~ENABLED Internal
G_Send(s) == Quiet /\ SendCall(s)
G_Unsub(c) == Quiet /\ UnsubCall(c)
G_Leave == Quiet /\ ReaderLeaves
G_Internal == Internal
GenNext == G_Internal \/ G_Leave \/ (\E s \in Senders : G_Send(s)) \/ (\E c \in Closers : G_Unsub(c))
GenSpec == Init /\ [][GenNext]_vars
=============================================================================
