---------------------------- MODULE RestartTrace ----------------------------
(***************************************************************************)
(* Trace specification for C18 over runs of the real core recorded by the  *)
(* whole-core simulation (harness/cmd/coresim + harness/coresim/ext_c18).  *)
(* Every scenario runs in a process of its own, so that the framework id   *)
(* the simulated master hands out at boot is "fw-0001" = 1 (python         *)
(* projects "fw-000n" to n and "" to 0).                                    *)
(*                                                                         *)
(* Lines: Reset{model:{child}}  Fid{stored,present,frameworks}             *)
(*  Api{call,env,op} ApiReply{call,env,op,code,st}  MAccept{tasks}         *)
(*  Hook{point,task,env}  MUpdate{task,state,reason}  MMessage{task,event} *)
(*  MKill{task}  MSubscribe{fid,assigned}  MReconcile  MStreamDropped      *)
(*  MErrorEvent                                                             *)
(*  CoreKilled  MGateReached{point,task}  MGateReleased{point,kind}        *)
(*  Snapshot{envs,roster,alive}                                            *)
(*  Poll{env,st,reached}  Quiesced{alive}  Orphans{alive}  End             *)
(*                                                                         *)
(* Strict part: every line must be the Restart action it stands for, taken *)
(* from the model state reached so far; steps of the core that leave no    *)
(* line (CoreStart, the SUBSCRIBE itself, StoreFid, RefreshOnReconcile,    *)
(* the sending of a reconciliation KILL - MKill is its arrival at the      *)
(* master, a held KILL released with "drop" its loss -, RosterRemove /     *)
(* RosterRead / RosterWrite, EnvError; Lock and RosterAppend when the core runs as a   *)
(* child process, i.e. without hook records) are taken eagerly, decided by  *)
(* the line that follows. Snapshot / Poll / Quiesced / Fid lines compare   *)
(* the recorded projection with the model state. A mismatch prints DRIFT   *)
(* and the rest of the scenario is not compared.                            *)
(*                                                                         *)
(* Monitor (recorded facts only, independent of the model state):          *)
(*  IdentityStored  the framework id the master registered at boot is the  *)
(*                  one in the runtime KV                                   *)
(*  SameIdentity    every later SUBSCRIBE carries it and gets it back      *)
(*  IdentityStable  the runtime KV entry never changes                      *)
(*  NoOrphans       after a restart, once the new core has reconciled (and  *)
(*                  re-reconciled if its stream was dropped) and as long   *)
(*                  as no environment has been requested of it, the master *)
(*                  has no live task left (Quiesced lines); later on, when  *)
(*                  a reconciliation round has settled and no request is   *)
(*                  in progress, it has no live task outside the core's    *)
(*                  roster (Orphans lines); detail: the                     *)
(*                  fault before, the survivors, has the core subscribed   *)
(*                  again since the last fault / refused call               *)
(*  NoFriendlyFire  no KILL call for a task locked by an environment       *)
(*                  (hook records task.lock / task.unlock; for a child     *)
(*                  core the last Snapshot); detail: the fault before, was *)
(*                  the task ever in the roster (hook / GetTasks), is it   *)
(*                  in the last roster listing                              *)
(*  EnvStays        after a mere reconnection an environment that was      *)
(*                  CONFIGURED / RUNNING (and had no request in progress)  *)
(*                  is still so                                             *)
(***************************************************************************)
EXTENDS Restart, Integers, Sequences, Json, IOUtils

Trace == ndJsonDeserialize(IOEnv.TRACE_FILE)

VARIABLES l, scn, mode, child, cur, recheld, heldkill, nviol,
          m_fid, m_own, m_roster, m_ever, m_phase, m_envst, m_req, m_fresh, m_nsub
mvs == <<m_fid, m_own, m_roster, m_ever, m_phase, m_envst, m_req, m_fresh, m_nsub>>
tvars == <<l, scn, mode, child, cur, recheld, heldkill, nviol, mvs>>

Line == Trace[l]
Ev == Line.ev
SetOf(s) == {s[i] : i \in 1..Len(s)}
Soft(name, cond, detail) == IF cond THEN 0 ELSE IF PrintT(<<"VIOL", name, scn, l, detail>>) THEN 1 ELSE 1

EnvOfTask(t) == IF \E e \in Envs : t \in etasks[e] THEN CHOOSE e \in Envs : t \in etasks[e] ELSE NoEnv
TheEnvIn(ph) == CHOOSE e \in Envs : env[e] = ph
Same == UNCHANGED vars

---------------------------------------------------------------------------
\* strict part

EnvObs(e) == IF \E r \in SetOf(Line.envs) : r.env = e
               THEN (CHOOSE r \in SetOf(Line.envs) : r.env = e).st ELSE "GONE"
PhaseOK(e, obs) ==
  CASE env[e] \in {"none", "done"} -> obs = "GONE"
    [] env[e] = "configured" -> obs = "CONFIGURED"
    [] env[e] = "running" -> obs = "RUNNING"
    [] env[e] = "error" -> obs \in {"ERROR", "GONE"}
    [] OTHER -> TRUE
SnapOK ==
  /\ up
  /\ \A e \in Envs : PhaseOK(e, EnvObs(e))
  /\ SetOf(Line.alive) = {t \in Tasks : Alive(t)}
  \* (whether a dead task is still listed is not modelled: a failed deployment drops its tasks)
  /\ {t \in {r.task : r \in SetOf(Line.roster)} : t \in Tasks /\ Alive(t)} = {t \in roster : Alive(t)}
  /\ \A r \in {x \in SetOf(Line.roster) : x.task \in Tasks /\ Alive(x.task)} :
                                   /\ r.locked <=> (lock[r.task] # NoEnv)
                                   /\ (r.locked /\ r.owner \in Envs) => r.owner = lock[r.task]
PollOK == (Line.reached /\ Line.st \in {"ERROR", "GONE"}) => env[Line.env] \in {"error", "none", "done"}

\* a create / START request that did not bring the environment to its target state (ControlEnvironment
\* answers OK with state ERROR when the transition failed and GO_ERROR succeeded)
ReplyOK == Line.code = "OK" /\ Line.st = (IF Line.call = "create" THEN "CONFIGURED" ELSE "RUNNING")
ReplyFailed == Line.call \in {"create", "control"} /\ Line.code # "Unavailable" /\ ~ReplyOK
\* the environment named by the line is, or can now be seen to be, in error
SaysError(e) ==
  \/ Ev = "Snapshot" /\ EnvObs(e) \in {"ERROR", "GONE"}
  \/ Ev = "Poll" /\ Line.env = e /\ Line.st \in {"ERROR", "GONE"}
  \/ Ev = "ApiReply" /\ Line.env = e /\ ReplyFailed
\* (a KILL for a task the model has dead already comes from somebody else: the pre-deployment cleanup of another request)
KillLineFor(e) ==
  \/ Ev = "MKill" /\ Line.task \in etasks[e] /\ Alive(Line.task)
  \/ Ev = "MGateReached" /\ Line.point = "KILL" /\ Line.task \in etasks[e] /\ Alive(Line.task)

H1 == child /\ \E e \in Envs : env[e] = "launched"
H2 == child /\ \E e \in Envs : env[e] = "locked"
H3 == \E t \in rcv : ~KillCond(t)
H4 == Ev = "MSubscribe" /\ ~up
H5 == Ev = "MSubscribe" /\ up /\ conn = "down"
RecLine == Ev = "MReconcile" \/ (Ev = "MGateReached" /\ Line.point = "RECONCILE")
H6 == RecLine /\ up /\ conn = "subd"
H7 == \E e \in Envs : env[e] \in {"releasing", "rewriting"} /\ KillLineFor(e)
H8 == \E e \in Envs : SaysError(e) /\ ENABLED EnvError(e)
H9 == \E t \in rcv : KillCond(t)
\* a SUBSCRIBE from a core that still had its stream: the HTTP client gave the subscription up after a failed call
H10 == Ev = "MSubscribe" /\ up /\ conn = "up" /\ owed
HiddenEnabled == H1 \/ H2 \/ H3 \/ H4 \/ H5 \/ H6 \/ H7 \/ H8 \/ H9 \/ H10
Rewrite(e) == IF env[e] = "rewriting" THEN RosterWrite(e)
              ELSE IF Code_RosterRewriteNotAtomic THEN RosterRead(e) ELSE RosterRemove(e)
Hidden ==
  IF H1 THEN Lock(TheEnvIn("launched"))
  ELSE IF H2 THEN RosterAppend(TheEnvIn("locked"))
  ELSE IF H3 THEN RefreshOnReconcile(CHOOSE t \in rcv : ~KillCond(t))
  ELSE IF H4 THEN CoreStart
  ELSE IF H5 THEN SubscribeBody
  ELSE IF H6 THEN StoreFid
  ELSE IF H7 THEN Rewrite(CHOOSE e \in Envs : env[e] \in {"releasing", "rewriting"} /\ KillLineFor(e))
  ELSE IF H8 THEN EnvError(CHOOSE e \in Envs : SaysError(e) /\ ENABLED EnvError(e))
  ELSE IF H9 THEN KillOnReconcile(CHOOSE t \in rcv : KillCond(t))
  ELSE IF H10 THEN DropConnection
  ELSE FALSE

MApi ==
  /\ Ev = "Api"
  /\ CASE Line.call = "create" -> Line.env \in Envs /\ NewEnv(Line.env)
       [] Line.call = "control" /\ Line.op = "START_ACTIVITY" -> Line.env \in Envs /\ StartSend(Line.env)
       [] Line.call = "destroy" -> Line.env \in Envs /\ Release(Line.env)
       [] Line.call = "cleanupids" -> Line.env \in Envs /\ CleanupNamed(Line.env)
       [] OTHER -> Same
MApiReply ==
  /\ Ev = "ApiReply"
  /\ CASE Line.code = "Unavailable" -> Same
       [] Line.call = "create" /\ ReplyOK -> ConfigureDone(Line.env)
       [] Line.call = "control" /\ Line.op = "START_ACTIVITY" /\ ReplyOK -> StartDone(Line.env)
       [] Line.call \in {"create", "control"} /\ ReplyFailed -> env[Line.env] = "error" /\ Same
       [] OTHER -> Same
MAcceptL == Ev = "MAccept" /\ cur \in Envs /\ SetOf(Line.tasks) \subseteq Tasks /\ Launch(cur, SetOf(Line.tasks))
MHook ==
  /\ Ev = "Hook"
  /\ CASE Line.point = "task.lock" /\ Line.env \in Envs /\ env[Line.env] = "launched" -> Lock(Line.env)
       [] Line.point = "task.roster.appended" /\ EnvOfTask(Line.task) # NoEnv /\ env[EnvOfTask(Line.task)] = "locked" ->
            RosterAppend(EnvOfTask(Line.task))
       \* (hook point at the entry of roster.updateTasks: the filtered copy has been taken, the write-back is next)
       [] Line.point = "task.roster.update" /\ Code_RosterRewriteNotAtomic /\ (\E e \in Envs : env[e] = "releasing") ->
            RosterRead(TheEnvIn("releasing"))
       [] OTHER -> Same
MUpdateL ==
  /\ Ev = "MUpdate"
  /\ CASE Line.reason = "REASON_RECONCILIATION" ->
            Line.task \in Tasks /\ IF Line.task \in rq THEN ReconcileUpdate(Line.task) ELSE mstream = 0 /\ Same
       [] Line.reason = "" /\ Line.state = "TASK_RUNNING" -> Line.task \in Tasks /\ TaskRunning(Line.task)
       [] OTHER -> Same
ConfSendIf(e) == IF e # NoEnv /\ env[e] = "deployed" THEN ConfigureSend(e) ELSE Same
MMessageL ==
  /\ Ev = "MMessage"
  /\ IF Line.event = "CONFIGURE" THEN ConfSendIf(EnvOfTask(Line.task)) ELSE Same
\* a RECONCILE call held at the master has been sent by the core: the MReconcile line follows when the master
\* gets to answer it (if the stream has been dropped in between, the answer - MUpdate lines - goes nowhere)
MGate ==
  /\ Ev = "MGateReached"
  /\ IF Line.point = "MESSAGE:CONFIGURE" /\ (\E e \in Envs : env[e] = "deployed")
       THEN ConfigureSend(TheEnvIn("deployed"))
       ELSE IF Line.point = "RECONCILE" THEN Reconcile ELSE Same
\* a held KILL call refused by the master: if it is a reconciliation KILL of a live core, it is lost
MGateRel ==
  /\ Ev = "MGateReleased"
  /\ IF Line.point = "KILL" /\ Line.kind \in {"drop", "swallow"} /\ up /\ heldkill \in kq
       THEN (IF Line.kind = "drop" THEN KillRefused(heldkill) ELSE KillLost(heldkill)) ELSE Same
MKillL ==
  /\ Ev = "MKill" /\ Line.task \in Tasks
  /\ LET t == Line.task
         e == EnvOfTask(t)
     IN IF t \in kq THEN KillArrives(t)
        ELSE IF e # NoEnv /\ env[e] = "killing" THEN KillSend(e)
        \* (one more KILL for a task a teardown or a pre-deployment cleanup has already killed)
        ELSE e # NoEnv /\ mt[t].st = "dead" /\ Same
MSub == Ev = "MSubscribe" /\ Line.fid = sfid /\ Subscribed(Line.assigned)
MRec == Ev = "MReconcile" /\ IF conn = "stored" THEN Reconcile ELSE recheld /\ Same
MDrop == Ev = "MStreamDropped" /\ DropConnection
MErr == Ev = "MErrorEvent" /\ StreamError
MCrash == Ev = "CoreKilled" /\ Crash
MSnap == Ev = "Snapshot" /\ SnapOK /\ Same
MPoll == Ev = "Poll" /\ PollOK /\ Same
MQuiesced == Ev = "Quiesced" /\ SetOf(Line.alive) = {t \in Tasks : Alive(t)} /\ Same
MOrphans == Ev = "Orphans" /\ SetOf(Line.alive) = {t \in Tasks : Alive(t) /\ t \notin roster} /\ Same
MFid == Ev = "Fid" /\ Line.stored = store /\ Same
\* the driver lets a teardown parked at the entry of roster.updateTasks go: its write-back
MHookRel ==
  /\ Ev = "GateReleased"
  /\ IF Line.point = "task.roster.update" /\ (\E e \in Envs : env[e] = "rewriting")
       THEN RosterWrite(TheEnvIn("rewriting")) ELSE Same
MOther == Ev \notin {"GateReleased", "Orphans", "MErrorEvent", "Api", "ApiReply", "MAccept", "Hook", "MUpdate", "MMessage", "MGateReached", "MGateReleased", "MKill", "MSubscribe",
                     "MReconcile", "MStreamDropped", "CoreKilled", "Snapshot", "Poll", "Quiesced", "Fid"} /\ Same

MatchLine ==
  \/ MApi \/ MApiReply \/ MAcceptL \/ MHook \/ MHookRel \/ MUpdateL \/ MMessageL \/ MGate \/ MGateRel \/ MKillL \/ MSub \/ MRec \/ MDrop \/ MErr
  \/ MCrash \/ MSnap \/ MPoll \/ MQuiesced \/ MOrphans \/ MFid \/ MOther

\* the state in which every scenario starts: one core, booted, registered as framework 1, reconciled
Booted ==
  /\ store' = 1 /\ mfw' = 1 /\ mstream' = 1 /\ mt' = [t \in Tasks |-> [st |-> "none", fw |-> 0]] /\ rq' = {}
  /\ up' = TRUE /\ life' = 1 /\ cfid' = 1 /\ conn' = "up" /\ sfid' = 1 /\ nsubl' = 1 /\ roster' = {}
  /\ lock' = [t \in Tasks |-> NoEnv] /\ pend' = [e \in Envs |-> {}] /\ env' = [e \in Envs |-> "none"]
  /\ etasks' = [e \in Envs |-> {}] /\ rcv' = {} /\ snap' = [e \in Envs |-> {}] /\ kq' = {} /\ owed' = FALSE
  /\ killed' = {} /\ crashes' = 0 /\ drops' = 0 /\ lost' = 0

---------------------------------------------------------------------------
\* monitor

NoPairFor(t) == \A p \in m_own : p[1] # t
Stable(st) == st \in {"CONFIGURED", "RUNNING"}
SnapEnvs == [e \in {r.env : r \in SetOf(Line.envs)} |-> (CHOOSE r \in SetOf(Line.envs) : r.env = e).st]

Monitor ==
  CASE Ev = "Reset" ->
         /\ m_fid' = 0 /\ m_own' = {} /\ m_roster' = {} /\ m_ever' = {} /\ m_phase' = "steady" /\ m_envst' = <<>> /\ m_req' = {}
         /\ m_fresh' = FALSE /\ m_nsub' = 0 /\ nviol' = nviol
    [] Ev = "Fid" ->
         /\ m_fid' = IF m_fid = 0 /\ Len(Line.frameworks) = 1 THEN Line.frameworks[1] ELSE m_fid
         /\ nviol' = nviol
              + (IF m_fid = 0 THEN Soft("IdentityStored", Line.present /\ Line.stored \in SetOf(Line.frameworks),
                                        <<Line.stored, Line.frameworks>>)
                 ELSE Soft("IdentityStable", Line.stored = m_fid, <<Line.stored, m_fid>>))
         /\ UNCHANGED <<m_own, m_roster, m_ever, m_phase, m_envst, m_req, m_fresh, m_nsub>>
    [] Ev = "MSubscribe" ->
         /\ nviol' = nviol + Soft("SameIdentity", Line.fid = m_fid /\ Line.assigned = m_fid, <<Line.fid, Line.assigned, m_fid>>)
         /\ m_nsub' = m_nsub + 1
         /\ UNCHANGED <<m_fid, m_own, m_roster, m_ever, m_phase, m_envst, m_req, m_fresh>>
    [] Ev = "MGateReleased" ->
         \* a refused / swallowed call: from now on a new subscription (and reconciliation round) is due
         /\ m_nsub' = IF Line.kind \in {"drop", "swallow"} THEN 0 ELSE m_nsub
         /\ UNCHANGED <<m_fid, m_own, m_roster, m_ever, m_phase, m_envst, m_req, m_fresh, nviol>>
    [] Ev = "Hook" ->
         /\ m_own' = CASE Line.point = "task.lock" -> m_own \cup {<<Line.task, Line.env>>}
                       [] Line.point = "task.unlock" -> {p \in m_own : p[1] # Line.task}
                       [] OTHER -> m_own
         /\ m_roster' = IF Line.point = "task.roster.appended" THEN m_roster \cup {Line.task} ELSE m_roster
         /\ m_ever' = IF Line.point = "task.roster.appended" THEN m_ever \cup {Line.task} ELSE m_ever
         /\ UNCHANGED <<m_fid, m_phase, m_envst, m_req, m_fresh, m_nsub, nviol>>
    [] Ev = "Api" ->
         /\ m_phase' = "steady"
         /\ m_own' = IF child /\ Line.call = "destroy" THEN {p \in m_own : p[2] # Line.env} ELSE m_own
         /\ m_req' = m_req \cup {Line.env}
         /\ m_fresh' = (m_fresh /\ Line.call # "create")
         /\ UNCHANGED <<m_fid, m_roster, m_ever, m_envst, m_nsub, nviol>>
    [] Ev = "ApiReply" ->
         /\ m_req' = m_req \ {Line.env}
         /\ UNCHANGED <<m_fid, m_own, m_roster, m_ever, m_phase, m_envst, m_fresh, m_nsub, nviol>>
    [] Ev = "CoreKilled" ->
         /\ m_phase' = "restart" /\ m_own' = {} /\ m_roster' = {} /\ m_ever' = {} /\ m_envst' = <<>> /\ m_fresh' = TRUE /\ m_nsub' = 0
         /\ UNCHANGED <<m_fid, m_req, nviol>>
    [] Ev \in {"MStreamDropped", "MErrorEvent"} ->
         /\ m_phase' = "reconnect" /\ m_nsub' = 0
         /\ UNCHANGED <<m_fid, m_own, m_roster, m_ever, m_envst, m_req, m_fresh, nviol>>
    [] Ev = "MKill" ->
         /\ nviol' = nviol + Soft("NoFriendlyFire", NoPairFor(Line.task),
                                  <<m_phase, Line.task \in m_ever, Line.task, Line.task \in m_roster>>)
         /\ UNCHANGED mvs
    [] Ev = "Quiesced" ->
         /\ nviol' = nviol + Soft("NoOrphans", m_fresh => Line.alive = <<>>, <<m_phase, Line.alive, m_nsub > 0>>)
         /\ UNCHANGED mvs
    [] Ev = "Orphans" ->
         \* (taken when recovery has settled and no request is in progress: alive at the master, not in the core's roster)
         /\ nviol' = nviol + Soft("NoOrphans", Line.alive = <<>>, <<m_phase, Line.alive, m_nsub > 0>>)
         /\ UNCHANGED mvs
    [] Ev = "Snapshot" ->
         /\ m_roster' = {r.task : r \in SetOf(Line.roster)}
         /\ m_ever' = m_ever \cup {r.task : r \in SetOf(Line.roster)}
         /\ m_own' = IF child THEN {<<r.task, r.owner>> : r \in {x \in SetOf(Line.roster) : x.locked}} ELSE m_own
         \* the states to be kept across a reconnection: those of the environments no request is working on
         /\ m_envst' = IF m_phase = "steady" THEN [e \in DOMAIN SnapEnvs \ m_req |-> SnapEnvs[e]] ELSE m_envst
         /\ nviol' = nviol
              + (IF m_phase = "reconnect"
                   THEN Soft("EnvStays", \A e \in DOMAIN m_envst : Stable(m_envst[e]) =>
                                            (e \in DOMAIN SnapEnvs /\ SnapEnvs[e] = m_envst[e]), <<m_envst, SnapEnvs>>)
                   ELSE 0)
         /\ UNCHANGED <<m_fid, m_phase, m_req, m_fresh, m_nsub>>
    [] Ev = "Poll" ->
         /\ nviol' = nviol
              + Soft("EnvStays", ~(m_phase = "reconnect" /\ Line.reached /\ Line.env \in DOMAIN m_envst /\ Stable(m_envst[Line.env])),
                     <<Line.env, Line.st>>)
         /\ UNCHANGED mvs
    [] OTHER -> UNCHANGED <<mvs, nviol>>

---------------------------------------------------------------------------
TraceInit ==
  /\ Init
  /\ l = 1 /\ scn = -1 /\ mode = "lost" /\ child = FALSE /\ cur = NoEnv /\ recheld = FALSE /\ heldkill = "" /\ nviol = 0
  /\ m_fid = 0 /\ m_own = {} /\ m_roster = {} /\ m_ever = {} /\ m_phase = "steady" /\ m_envst = <<>> /\ m_req = {} /\ m_fresh = FALSE /\ m_nsub = 0

Consume ==
  /\ l' = l + 1
  /\ Monitor
  /\ scn' = IF Ev = "Reset" THEN Line.scn ELSE scn
  /\ child' = IF Ev = "Reset" THEN Line.model.child ELSE child
  /\ cur' = IF Ev = "Reset" THEN NoEnv ELSE IF Ev = "Api" /\ Line.call = "create" THEN Line.env ELSE cur
  /\ heldkill' = IF Ev = "MGateReached" /\ Line.point = "KILL" THEN Line.task ELSE IF Ev = "Reset" THEN "" ELSE heldkill
  /\ recheld' = IF Ev = "MGateReached" /\ Line.point = "RECONCILE" THEN TRUE
                ELSE IF Ev \in {"MReconcile", "Reset"} THEN FALSE ELSE recheld
  /\ IF Ev = "Reset" THEN Booted /\ mode' = "ok"
     ELSE IF mode = "ok"
       THEN IF ENABLED MatchLine THEN MatchLine /\ mode' = "ok"
            ELSE PrintT(<<"DRIFT", scn, l, Ev>>) /\ mode' = "lost" /\ Same
       ELSE Same /\ mode' = mode

TraceNext ==
  /\ l <= Len(Trace)
  /\ IF mode = "ok" /\ Ev # "Reset" /\ HiddenEnabled
       THEN Hidden /\ UNCHANGED tvars
       ELSE Consume

TraceSpec == TraceInit /\ [][TraceNext]_<<vars, tvars>>
PrintEnd == (l = Len(Trace) + 1) => PrintT(<<"END", Len(Trace), nviol>>)
=============================================================================
