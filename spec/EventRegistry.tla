--------------------------- MODULE EventRegistry ----------------------------
(***************************************************************************)
(* C19, the writer registry (core/the/eventwriter.go): producers obtain the *)
(* writer of a topic with EventWriterWithTopic (get-or-create under one     *)
(* mutex) and ClearEventWriters closes - and thereby flushes, see           *)
(* EventWriter.tla - every writer of the registry at shutdown.  "Every      *)
(* event accepted before shutdown is handed to the broker" needs every      *)
(* pipeline an event was ever given to to be one that the shutdown closes,  *)
(* and per-producer order needs one pipeline per topic.                     *)
(***************************************************************************)
EXTENDS Naturals, FiniteSets

CONSTANTS Producers, Topics, MaxW,
          Code_CheckThenCreate   \* TRUE: a variant with the lookup and the creation in two critical sections (shows the invariants bite)

VARIABLES reg,      \* reg[t]: writer registered for topic t (0 = none)
          nw,       \* writers created so far
          topicOf,  \* topicOf[w]: topic of writer w
          closed,   \* writers closed
          holds,    \* holds[p]: writer handed to producer p (0 = none)
          pc,       \* pc[p]: idle | missed (looked up, found nothing; variant only) | has
          want,     \* want[p]: topic p asked for
          cleared   \* shutdown has happened
vars == <<reg, nw, topicOf, closed, holds, pc, want, cleared>>

Init == /\ reg = [t \in Topics |-> 0] /\ nw = 0 /\ topicOf = [w \in 1..MaxW |-> CHOOSE t \in Topics : TRUE] /\ closed = {}
        /\ holds = [p \in Producers |-> 0] /\ pc = [p \in Producers |-> "idle"] /\ want = [p \in Producers |-> CHOOSE t \in Topics : TRUE]
        /\ cleared = FALSE

Create(p, t) == /\ nw < MaxW /\ nw' = nw + 1 /\ topicOf' = [topicOf EXCEPT ![nw + 1] = t]
                /\ reg' = [reg EXCEPT ![t] = nw + 1] /\ holds' = [holds EXCEPT ![p] = nw + 1] /\ pc' = [pc EXCEPT ![p] = "has"]

\* createOrGetWriter: one critical section
Get(p, t) ==
  /\ pc[p] = "idle" /\ ~cleared /\ want' = [want EXCEPT ![p] = t]
  /\ IF reg[t] # 0
       THEN holds' = [holds EXCEPT ![p] = reg[t]] /\ pc' = [pc EXCEPT ![p] = "has"] /\ UNCHANGED <<reg, nw, topicOf>>
       ELSE IF Code_CheckThenCreate
              THEN pc' = [pc EXCEPT ![p] = "missed"] /\ UNCHANGED <<reg, nw, topicOf, holds>>
              ELSE Create(p, t)
  /\ UNCHANGED <<closed, cleared>>
\* (variant) the creation in a second critical section, without looking again
CreateAfterMiss(p) ==
  /\ pc[p] = "missed" /\ Create(p, want[p]) /\ UNCHANGED <<closed, cleared, want>>
\* ClearEventWriters
Clear == /\ ~cleared /\ \A p \in Producers : pc[p] # "missed"
         /\ closed' = closed \cup {reg[t] : t \in {x \in Topics : reg[x] # 0}} /\ reg' = [t \in Topics |-> 0] /\ cleared' = TRUE
         /\ UNCHANGED <<nw, topicOf, holds, pc, want>>
Next == (\E p \in Producers, t \in Topics : Get(p, t)) \/ (\E p \in Producers : CreateAfterMiss(p)) \/ Clear
Spec == Init /\ [][Next]_vars

\* all producers of a topic share one pipeline (per-producer order, and everything reaches a pipeline the registry knows)
OnePipelinePerTopic == \A p, q \in Producers : (holds[p] # 0 /\ holds[q] # 0 /\ topicOf[holds[p]] = topicOf[holds[q]]) => holds[p] = holds[q]
\* shutdown closes every pipeline that was ever handed out
ShutdownClosesAll == cleared => \A p \in Producers : holds[p] # 0 => holds[p] \in closed
=============================================================================
