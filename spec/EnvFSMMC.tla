------------------------------ MODULE EnvFSMMC ------------------------------
EXTENDS EnvFSM
Ctl(ev) == [kind |-> "ctl", ev |-> ev, force |-> FALSE, air |-> FALSE]
Destroy(f, a) == [kind |-> "destroy", ev |-> "", force |-> f, air |-> a]
ReqAll == {Ctl("START_ACTIVITY"), Ctl("STOP_ACTIVITY"), Ctl("RESET"), Ctl("CONFIGURE"), Destroy(FALSE, TRUE), Destroy(TRUE, FALSE)}
ReqSmall == {Ctl("START_ACTIVITY"), Ctl("STOP_ACTIVITY"), Destroy(TRUE, FALSE)}
=============================================================================
