------------------------------ MODULE AutoStop ------------------------------
(***************************************************************************)
(* Beyond the listed properties (DESIGN.md section 5): the auto-stop timer  *)
(* of an environment, core/environment/environment.go                       *)
(*   after_START_ACTIVITY:  scheduleAutoStopTransition() - a timer and a    *)
(*       goroutine that, when the timer fires, does                          *)
(*       TryTransition(STOP_ACTIVITY); on failure TryTransition(GO_ERROR);   *)
(*       on failure ForceState("ERROR")                                      *)
(*   after_STOP_ACTIVITY / after_GO_ERROR: invalidateAutoStopTransition() -  *)
(*       timer.Stop() and, only if the timer had not fired yet, cancel       *)
(* racing with requests of the API through the same transition lock.        *)
(* One action per linearization point: a request takes the lock, works,      *)
(* releases it; the timer fires; the fired goroutine takes the lock.         *)
(***************************************************************************)
EXTENDS Naturals, FiniteSets

CONSTANTS MaxRuns,          \* bound on the number of STARTs (model finiteness)
          Code_FiredTimerNotRevoked
                            \* TRUE: the code as it is - a timer that has fired but whose goroutine has not got the lock
                            \*       yet is not revoked by invalidateAutoStopTransition (Stop() returns false)

VARIABLES st,      \* environment state: CONFIGURED | RUNNING | ERROR | DONE
          lock,    \* who holds the transition lock: "none" | "api" | "auto"
          op,      \* what the API request in progress is doing: "" | START | STOP | GO_ERROR | DESTROY
          run,     \* number of the current run (0 = none)
          nruns,   \* runs started so far
          timer,   \* "off" | "armed": the timer of the current run
          trun,    \* the run the timer was scheduled for
          fired,   \* runs whose timer has fired and whose goroutine is waiting for the lock
          hist     \* history: set of records of what the auto stop did
vars == <<st, lock, op, run, nruns, timer, trun, fired, hist>>

Init == st = "CONFIGURED" /\ lock = "none" /\ op = "" /\ run = 0 /\ nruns = 0 /\ timer = "off" /\ trun = 0 /\ fired = {} /\ hist = {}

Legal(o, s) == CASE o = "START" -> s = "CONFIGURED"
                 [] o = "STOP" -> s = "RUNNING"
                 [] o = "GO_ERROR" -> s \in {"CONFIGURED", "RUNNING"}
                 [] o = "DESTROY" -> s # "DONE"
                 [] OTHER -> FALSE

\* invalidateAutoStopTransition: timer.Stop() revokes a timer that has not fired; a goroutine whose timer has fired
\* is only revoked in the repaired design
FiredAfterInvalidate == IF Code_FiredTimerNotRevoked THEN fired ELSE {}

\* an API request: takes the lock, ...
ApiBegin(o) ==
  /\ lock = "none" /\ st # "DONE" /\ o \in {"START", "STOP", "GO_ERROR", "DESTROY"}
  /\ (o = "START" => nruns < MaxRuns)
  /\ lock' = "api" /\ op' = o
  /\ UNCHANGED <<st, run, nruns, timer, trun, fired, hist>>
\* ... does its transition (an illegal one fails and is followed by the API's GO_ERROR, also inside this step), releases
ApiEnd ==
  /\ lock = "api"
  /\ IF Legal(op, st)
       THEN CASE op = "START" -> /\ st' = "RUNNING" /\ run' = nruns + 1 /\ nruns' = nruns + 1
                                  /\ timer' = "armed" /\ trun' = nruns + 1 /\ UNCHANGED fired
              [] op = "STOP" -> /\ st' = "CONFIGURED" /\ run' = 0 /\ timer' = "off" /\ fired' = FiredAfterInvalidate /\ UNCHANGED <<nruns, trun>>
              [] op = "GO_ERROR" -> /\ st' = "ERROR" /\ run' = 0 /\ timer' = "off" /\ fired' = FiredAfterInvalidate /\ UNCHANGED <<nruns, trun>>
              [] op = "DESTROY" -> /\ st' = "DONE" /\ run' = 0 /\ UNCHANGED <<nruns, timer, trun, fired>>   \* teardown does not touch the timer
       ELSE \* not legal: the request fails and the API follows up with GO_ERROR (which invalidates)
            /\ st' = IF st \in {"CONFIGURED", "RUNNING"} THEN "ERROR" ELSE st
            /\ run' = IF st \in {"CONFIGURED", "RUNNING"} THEN 0 ELSE run
            /\ timer' = IF st \in {"CONFIGURED", "RUNNING"} THEN "off" ELSE timer
            /\ fired' = IF st \in {"CONFIGURED", "RUNNING"} THEN FiredAfterInvalidate ELSE fired
            /\ UNCHANGED <<nruns, trun>>
  /\ lock' = "none" /\ op' = ""
  /\ UNCHANGED hist

TimerFires == /\ timer = "armed" /\ timer' = "off" /\ fired' = fired \cup {trun} /\ UNCHANGED <<st, lock, op, run, nruns, trun, hist>>

\* the fired goroutine gets the lock: STOP if legal, else GO_ERROR if legal, else a forced ERROR (not on DONE)
AutoStopRuns(r) ==
  /\ r \in fired /\ lock = "none"
  /\ fired' = fired \ {r}
  /\ IF st = "RUNNING"
       THEN \* (its own after_STOP_ACTIVITY invalidates the timer of the run it found)
            /\ st' = "CONFIGURED" /\ run' = 0 /\ timer' = "off"
            /\ hist' = hist \cup {[did |-> "stopped", its |-> r, found |-> run, state |-> st]}
       ELSE /\ st' = IF st = "DONE" THEN "DONE" ELSE "ERROR"
            /\ run' = run /\ timer' = timer
            /\ hist' = hist \cup {[did |-> IF st = "DONE" THEN "nothing" ELSE "error", its |-> r, found |-> run, state |-> st]}
  /\ UNCHANGED <<lock, op, nruns, trun>>

Next == (\E o \in {"START", "STOP", "GO_ERROR", "DESTROY"} : ApiBegin(o)) \/ ApiEnd \/ TimerFires \/ (\E r \in 1..MaxRuns : AutoStopRuns(r))
Spec == Init /\ [][Next]_vars

(* ------------------------------ properties ----------------------------- *)
TypeOK == st \in {"CONFIGURED", "RUNNING", "ERROR", "DONE"} /\ lock \in {"none", "api", "auto"} /\ timer \in {"off", "armed"} /\ fired \subseteq 1..MaxRuns
\* the auto stop stops the run it was scheduled for, or does nothing
StopsOwnRunOnly == \A h \in hist : h.did = "stopped" => h.its = h.found
\* the auto stop never drives a healthy environment whose run is over into ERROR
NoCollateralError == \A h \in hist : h.did = "error" => h.state # "CONFIGURED"
\* the armed timer belongs to the current run (teardown leaves it armed: harmless, the goroutine finds DONE)
TimerOfCurrentRun == (timer = "armed" /\ st # "DONE") => (st = "RUNNING" /\ trun = run)
=============================================================================
