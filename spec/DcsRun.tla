------------------------------- MODULE DcsRun -------------------------------
(***************************************************************************)
(* Beyond the listed properties (DESIGN.md section 5), X05: what the DCS    *)
(* integration plugin does with the DCS service around a run.               *)
(*   core/integration/dcs/plugin.go                                         *)
(*     Init: Subscribe stream -> HEARTBEAT (updateDetectorOpAvailabilities)  *)
(*       and STATE_CHANGE_EVENT (updateLastKnownDetectorStates) feed the     *)
(*       detector cache detectorMap (PfrAvailability, SorAvailability)       *)
(*     CallStack: PrepareForRun (PFR), StartOfRun (SOR), EndOfRun (EOR),     *)
(*       Cleanup: each a gRPC call answered by a STREAM of per-detector      *)
(*       RunEvents {detector, state}; bookkeeping pendingEORs (envId -> run) *)
(*     structs.go compatibleWithDCSOperation: the availability gate          *)
(*     GetEnvironmentsData: PartitionInfo.SorSuccessful                      *)
(* and the DCS service's own view (which detector is in a run).             *)
(*                                                                           *)
(* One action per linearization point: the hook evaluates the gate and the   *)
(* request reaches the service (Open; outcome f = "fail": the gRPC call       *)
(* itself returns an error); each stream event (Event); the end of the       *)
(* stream (End: eof | tmo = deadline | grpc = other status | unk = not a      *)
(* gRPC status), on which the hook decides and returns; each event of the    *)
(* Subscribe stream (Heartbeat, StateChange).  RunEvent carries no run       *)
(* number and no partition: "events of other runs" cannot be told apart by   *)
(* anybody; events of other DETECTORS can (Foreign).                         *)
(*                                                                           *)
(* The plugin has no notion of dcs_enabled or per-detector exclusion: the    *)
(* request is built from dcs_detectors alone (PFR: minus the detectors the   *)
(* cache says are not PFR_AVAILABLE).  Abstract stream states: OK = RUN_OK;  *)
(* FAIL = SOR_FAILURE (PFR, SOR) / EOR_FAILURE (EOR); UNAV = PFR_/SOR_       *)
(* UNAVAILABLE (a failure for PFR and SOR, just a state for EOR); TMO =      *)
(* TIMEOUT; PROG = anything else (SOR_PROGRESSING, ERROR, ...).              *)
(*                                                                           *)
(* The environment follows docs/handbook/operation_order.md: PFR while       *)
(* CONFIGURED, NewRun, SOR, EOR, EndRun; a failed hook lets the transition   *)
(* go on (c = "go") or sends the environment to ERROR (c = "err"); Cleanup   *)
(* after the EOR hook, in CONFIGURED and in ERROR.  Deviations of the code   *)
(* from the ideal are behind Code_* constants (TRUE = the code as it is).    *)
(***************************************************************************)
EXTENDS Naturals, FiniteSets, Sequences, TLC

CONSTANTS Envs,       \* environment ids (subset of {"e1", "e2"})
          D1, D2,     \* dcs_detectors of e1 / e2 (disjoint)
          Other,      \* detectors of nobody here
          MaxRun,     \* run numbers handed out (model finiteness)
          MaxEv,      \* stream events per call
          MaxSub,     \* Subscribe stream events per behaviour
          MaxFaults,  \* gRPC calls that fail to open per behaviour
          MaxPfr,     \* PFRs per environment
          EvStates,   \* subset of {"OK", "FAIL", "UNAV", "TMO", "PROG"}
          Ends,       \* subset of {"eof", "tmo", "grpc", "unk"}
          Code_FailureEventSticks,
              \* a FAIL/UNAV/TMO event sets __call_error at once and nothing clears it: the hook fails even if the detector
              \* reports RUN_OK afterwards and every requested detector has acknowledged when the stream ends
          Code_ForeignEventDecides,
              \* ... also when the event names a detector that is not in the request
          Code_ReasonOverwritten,
              \* every failure event and the final summary overwrite __call_error_reason: a detector whose failure made the
              \* hook fail may not be named in the error the hook leaves
          Code_EorHookUnconditional,
              \* the EndOfRun hook sends EOR for run_number whatever pendingEORs says: also when no SOR was ever sent
          Code_CleanupForgetsOnOpenFailure,
              \* Cleanup deletes the pending EOR after eorFunc returns, also when the EndOfRun call could not be opened:
              \* the detectors stay in the run and no later Cleanup sends the EOR
          Code_EorClearsAnyPending,
              \* pendingEORs is keyed by the environment alone: once an EndOfRun call is open the environment's entry is deleted
              \* whatever run it names - an EOR for run 3 discards the pending EOR of run 2 (whose own EOR could not be opened)
          Code_SorSuccessfulMeansPending,
              \* GetEnvironmentsData sets PartitionInfo.SorSuccessful = "a pending EOR exists", which is true after a FAILED SOR
          Code_PfrPartial
              \* PFR leaves out the detectors the cache says are not PFR_AVAILABLE and succeeds without them (by design: the
              \* comment says "partial PFR")

DetsOf(e) == IF e = "e1" THEN D1 ELSE D2
AllDets == D1 \cup D2 \cup Other
Runs == 1..MaxRun
NoEnv == "-"
Avail == {"null", "yes", "no"}
FailClass(op) == IF op = "EOR" THEN {"FAIL", "TMO"} ELSE {"FAIL", "UNAV", "TMO"}

VARIABLES
  known,    \* detectors in detectorMap
  apfr,     \* apfr[d]: cached PfrAvailability: null | yes | no
  asor,     \* asor[d]: cached SorAvailability
  nsub,     \* Subscribe stream events so far
  ph,       \* ph[e]: conf | sor | run | eor | err | gone
  rn,       \* rn[e]: run_number of the environment (0 = none)
  nextrun,
  npfr,     \* PFRs of e so far
  pend,     \* pendingEORs[e] (0 = no entry)
  inrun,    \* the service: inrun[d] = run the detector got a SOR for and no EOR yet (0 = none)
  call,     \* call[e]: the hook in progress (stream open), or NoCall
  nf,       \* calls that failed to open so far
  nofail,   \* (history) no call failed to open so far
  sorok,    \* (history) sorok[e]: the environment's last SOR hook succeeded
  clean,    \* (history) clean[e]: the last thing e did was a Cleanup that found nothing pending or whose EOR call was opened
  eors,     \* (history) runs for which an EOR request reached the service
  last      \* (history) the step just taken

vars == <<known, apfr, asor, nsub, ph, rn, nextrun, npfr, pend, inrun, call, nf, nofail, sorok, clean, eors, last>>

NoCall == [op |-> "none"]
NoStep == [kind |-> "none", e |-> NoEnv, fn |-> "none", op |-> "none", run |-> 0, req |-> {}, sordets |-> {}, ok |-> TRUE,
           allacked |-> TRUE, unacked |-> {}, named |-> {}, culprits |-> {}, reqfail |-> FALSE, forfail |-> FALSE, eordone |-> FALSE,
           pendbefore |-> 0]

Init ==
  /\ known = {} /\ apfr = [d \in AllDets |-> "null"] /\ asor = [d \in AllDets |-> "null"] /\ nsub = 0
  /\ ph = [e \in Envs |-> "conf"] /\ rn = [e \in Envs |-> 0] /\ nextrun = 1 /\ npfr = [e \in Envs |-> 0]
  /\ pend = [e \in Envs |-> 0] /\ inrun = [d \in AllDets |-> 0] /\ call = [e \in Envs |-> NoCall]
  /\ nf = 0 /\ nofail = TRUE /\ sorok = [e \in Envs |-> FALSE] /\ clean = [e \in Envs |-> FALSE] /\ eors = {}
  /\ last = NoStep

Idle(e) == call[e].op = "none"
Hist == <<nofail, sorok, clean, eors>>

(* ------------------------------ the Subscribe stream ------------------------------ *)
\* HEARTBEAT with a one-detector matrix: updateDetectorOpAvailabilities
Heartbeat(d, p, s) ==
  /\ nsub < MaxSub /\ d \in AllDets /\ p \in Avail /\ s \in Avail
  /\ known' = known \cup {d} /\ apfr' = [apfr EXCEPT ![d] = p] /\ asor' = [asor EXCEPT ![d] = s] /\ nsub' = nsub + 1
  /\ last' = [NoStep EXCEPT !.kind = "sub"]
  /\ UNCHANGED <<ph, rn, nextrun, npfr, pend, inrun, call, nf, nofail, sorok, clean, eors>>

\* STATE_CHANGE_EVENT whose state is an availability (s in PFR_yes, PFR_no, SOR_yes, SOR_no): updateLastKnownDetectorStates
\* updates the cached availability of a KNOWN detector; an unknown one is stored as received (both availabilities NULL_STATE)
StateChange(d, which, v) ==
  /\ nsub < MaxSub /\ d \in AllDets /\ which \in {"pfr", "sor"} /\ v \in {"yes", "no"}
  /\ known' = known \cup {d} /\ nsub' = nsub + 1
  /\ apfr' = IF d \in known /\ which = "pfr" THEN [apfr EXCEPT ![d] = v] ELSE apfr
  /\ asor' = IF d \in known /\ which = "sor" THEN [asor EXCEPT ![d] = v] ELSE asor
  /\ last' = [NoStep EXCEPT !.kind = "sub"]
  /\ UNCHANGED <<ph, rn, nextrun, npfr, pend, inrun, call, nf, nofail, sorok, clean, eors>>

(* ------------------------------ the environment ------------------------------ *)
NewRun(e) ==
  /\ ph[e] = "conf" /\ Idle(e) /\ nextrun <= MaxRun
  /\ rn' = [rn EXCEPT ![e] = nextrun] /\ nextrun' = nextrun + 1 /\ ph' = [ph EXCEPT ![e] = "sor"]
  /\ clean' = [clean EXCEPT ![e] = FALSE]
  /\ last' = [NoStep EXCEPT !.kind = "ecs", !.e = e, !.fn = "NewRun", !.run = nextrun]
  /\ UNCHANGED <<known, apfr, asor, nsub, npfr, pend, inrun, call, nf, nofail, sorok, eors>>
EndRun(e) ==
  /\ ph[e] = "eor" /\ Idle(e)
  /\ rn' = [rn EXCEPT ![e] = 0] /\ ph' = [ph EXCEPT ![e] = "conf"]
  /\ last' = [NoStep EXCEPT !.kind = "ecs", !.e = e, !.fn = "EndRun"]
  /\ UNCHANGED <<known, apfr, asor, nsub, nextrun, npfr, pend, inrun, call, nf, nofail, sorok, clean, eors>>
GoError(e) ==
  /\ ph[e] \in {"sor", "run", "eor"} /\ Idle(e)
  /\ ph' = [ph EXCEPT ![e] = "err"]
  /\ last' = [NoStep EXCEPT !.kind = "ecs", !.e = e, !.fn = "GoError"]
  /\ UNCHANGED <<known, apfr, asor, nsub, rn, nextrun, npfr, pend, inrun, call, nf, nofail, sorok, clean, eors>>
Destroy(e) ==
  /\ ph[e] \in {"conf", "err"} /\ Idle(e)
  /\ ph' = [ph EXCEPT ![e] = "gone"] /\ rn' = [rn EXCEPT ![e] = 0]
  /\ last' = [NoStep EXCEPT !.kind = "ecs", !.e = e, !.fn = "Destroy"]
  /\ UNCHANGED <<known, apfr, asor, nsub, nextrun, npfr, pend, inrun, call, nf, nofail, sorok, clean, eors>>

\* where the environment is after hook fn returned (ok, or failed with continuation c)
After(e, fn, ok, c) ==
  IF ~ok /\ c = "err" /\ fn # "Cleanup" THEN "err"
  ELSE CASE fn = "StartOfRun" -> "run" [] fn = "EndOfRun" -> "eor" [] OTHER -> ph[e]

HookPhase(e, fn) ==
  CASE fn = "PrepareForRun" -> ph[e] = "conf" /\ npfr[e] < MaxPfr
    [] fn = "StartOfRun" -> ph[e] = "sor"
    [] fn = "EndOfRun" -> ph[e] = "run"
    [] fn = "Cleanup" -> ph[e] \in {"conf", "eor", "err"}
    [] OTHER -> FALSE
OpOf(fn) == CASE fn = "PrepareForRun" -> "PFR" [] fn = "StartOfRun" -> "SOR" [] OTHER -> "EOR"

\* the hook returns: the step record and the history
Return(e, fn, op, run, sent, req, ok, unacked, named, culprits, reqfail, forfail, c) ==
  /\ ph' = [ph EXCEPT ![e] = After(e, fn, ok, c)]
  /\ npfr' = IF fn = "PrepareForRun" THEN [npfr EXCEPT ![e] = @ + 1] ELSE npfr
  /\ sorok' = IF fn = "StartOfRun" THEN [sorok EXCEPT ![e] = ok] ELSE sorok
  /\ last' = [NoStep EXCEPT !.kind = IF sent THEN "ret" ELSE "noreq", !.e = e, !.fn = fn, !.op = op, !.run = run, !.req = req, !.ok = ok,
                            !.allacked = (unacked = {}), !.unacked = unacked, !.named = named, !.culprits = culprits, !.reqfail = reqfail, !.forfail = forfail]

\* The hook is invoked: gate, then the gRPC call (f = "ok": the request reaches the service and the stream is open;
\* f = "fail": the call returns an error).  c is used only when the hook returns within this step.
Open(e, fn, f, c) ==
  /\ HookPhase(e, fn) /\ Idle(e) /\ f \in {"ok", "fail"} /\ c \in {"go", "err"} /\ (f = "fail" => nf < MaxFaults)
  /\ LET op == OpOf(fn)
         run == IF fn = "Cleanup" THEN pend[e] ELSE IF op = "PFR" THEN 0 ELSE rn[e]
         dets == DetsOf(e)
         nopfr == {d \in dets : apfr[d] = "no"}
         nosor == {d \in dets : asor[d] = "no"}
         req == IF op = "PFR" THEN dets \ nopfr ELSE dets
         gateFails == (op = "PFR" /\ (IF Code_PfrPartial THEN req = {} ELSE nopfr # {})) \/ (op = "SOR" /\ nosor # {})
         skip == \/ (fn = "Cleanup" /\ pend[e] = 0)                                    \* nothing pending: Cleanup does nothing
                 \/ (fn = "EndOfRun" /\ ~Code_EorHookUnconditional /\ pend[e] # rn[e])   \* repaired design only
     IN IF skip
          THEN /\ f = "ok" /\ c = "go"
               /\ Return(e, fn, op, run, FALSE, {}, TRUE, {}, {}, {}, FALSE, FALSE, c)
               /\ clean' = [clean EXCEPT ![e] = (fn = "Cleanup")]
               /\ UNCHANGED <<pend, inrun, call, nf, nofail, eors>>
        ELSE IF gateFails
          THEN \* no request; the error names the incompatible detectors
               /\ f = "ok"
               \* (the message lists every detector that is not in the wanted state, the unknown ones too)
               /\ Return(e, fn, op, run, FALSE, {}, FALSE, {}, IF op = "PFR" THEN {d \in dets : apfr[d] # "yes"} ELSE {d \in dets : asor[d] # "yes"},
                         {}, FALSE, FALSE, c)
               /\ clean' = [clean EXCEPT ![e] = FALSE]
               /\ UNCHANGED <<pend, inrun, call, nf, nofail, eors>>
        ELSE IF f = "fail"
          THEN /\ Return(e, fn, op, run, FALSE, {}, FALSE, {}, {}, {}, FALSE, FALSE, c)
               /\ nf' = nf + 1 /\ nofail' = FALSE
               \* Cleanup: `out = eorFunc(runNumber); delete(p.pendingEORs, envId)`
               /\ pend' = IF fn = "Cleanup" /\ Code_CleanupForgetsOnOpenFailure THEN [pend EXCEPT ![e] = 0] ELSE pend
               /\ clean' = [clean EXCEPT ![e] = FALSE]
               /\ UNCHANGED <<inrun, call, eors>>
        ELSE \* the request reaches the service; SOR: pendingEORs[envId] = run; EOR: delete(pendingEORs, envId)
             /\ call' = [call EXCEPT ![e] = [op |-> op, fn |-> fn, run |-> run, req |-> req, st |-> [d \in AllDets |-> "none"], err |-> FALSE,
                                              named |-> {}, nev |-> 0, culprits |-> {}, reqfail |-> FALSE, forfail |-> FALSE]]
             /\ pend' = CASE op = "SOR" -> [pend EXCEPT ![e] = run]
                          [] op = "EOR" -> IF Code_EorClearsAnyPending \/ pend[e] = run THEN [pend EXCEPT ![e] = 0] ELSE pend
                          [] OTHER -> pend
             /\ inrun' = CASE op = "SOR" -> [d \in AllDets |-> IF d \in req THEN run ELSE inrun[d]]
                           [] op = "EOR" -> [d \in AllDets |-> IF d \in req /\ inrun[d] = run THEN 0 ELSE inrun[d]]
                           [] OTHER -> inrun
             /\ eors' = IF op = "EOR" THEN eors \cup {run} ELSE eors
             /\ clean' = [clean EXCEPT ![e] = FALSE]
             /\ last' = [NoStep EXCEPT !.kind = "open", !.e = e, !.fn = fn, !.op = op, !.run = run, !.req = req,
                                       !.sordets = {d \in AllDets : run # 0 /\ inrun[d] = run}, !.eordone = run \in eors, !.pendbefore = pend[e]]
             /\ UNCHANGED <<ph, npfr, nf, nofail, sorok>>
  /\ UNCHANGED <<known, apfr, asor, nsub, rn, nextrun>>

\* one event of the call's stream: detector d (of the request, of somebody else, or "DCS") reports state s
Event(e, d, s) ==
  /\ ~Idle(e) /\ call[e].nev < MaxEv /\ d \in AllDets \cup {"DCS"} /\ s \in EvStates
  /\ LET k == call[e]
         bad == s \in FailClass(k.op)
         counts == bad /\ IF d \in k.req THEN Code_FailureEventSticks ELSE Code_ForeignEventDecides
     IN call' = [call EXCEPT ![e] =
          IF d = "DCS" THEN [k EXCEPT !.nev = @ + 1]      \* "Received an event for DCS detector, which is unexpected, ignoring"
          ELSE [k EXCEPT !.nev = @ + 1, !.st = [@ EXCEPT ![d] = s],
                         !.err = @ \/ counts,
                         !.named = IF ~bad THEN @ ELSE IF Code_ReasonOverwritten THEN {d} ELSE @ \cup {d},
                         !.culprits = IF counts THEN @ \cup {d} ELSE @,
                         !.reqfail = @ \/ (counts /\ d \in k.req),
                         !.forfail = @ \/ (counts /\ d \notin k.req)]]
  /\ last' = [NoStep EXCEPT !.kind = "ev", !.e = e]
  /\ UNCHANGED <<known, apfr, asor, nsub, ph, rn, nextrun, npfr, pend, inrun, nf, nofail, sorok, clean, eors>>

\* the stream ends (how: eof | tmo | grpc | unk - all the same to the decision): the hook decides and returns
End(e, how, c) ==
  /\ ~Idle(e) /\ how \in Ends /\ c \in {"go", "err"}
  /\ LET k == call[e]
         unacked == {d \in k.req : k.st[d] # "OK"}
         allacked == unacked = {}
         ok == allacked /\ ~k.err
         named == IF allacked THEN k.named ELSE IF Code_ReasonOverwritten THEN unacked ELSE k.named \cup unacked
     IN /\ Return(e, k.fn, k.op, k.run, TRUE, k.req, ok, unacked, named, k.culprits \cup unacked, k.reqfail, k.forfail, c)
        \* `if dcsopOk { p.pendingEORs[envId] = runNumber64 }` (SOR), `delete(p.pendingEORs, envId)` (EOR, and Cleanup at its end)
        /\ pend' = IF k.op = "SOR" /\ allacked THEN [pend EXCEPT ![e] = k.run]
                   ELSE IF k.op = "EOR" /\ (allacked \/ k.fn = "Cleanup") /\ (Code_EorClearsAnyPending \/ pend[e] = k.run)
                     THEN [pend EXCEPT ![e] = 0] ELSE pend
        /\ clean' = [clean EXCEPT ![e] = (k.fn = "Cleanup")]
  /\ call' = [call EXCEPT ![e] = NoCall]
  /\ UNCHANGED <<known, apfr, asor, nsub, rn, nextrun, inrun, nf, nofail, eors>>

Fns == {"PrepareForRun", "StartOfRun", "EndOfRun", "Cleanup"}
EnvNext(e) == \/ \E fn \in Fns, f \in {"ok", "fail"}, c \in {"go", "err"} : Open(e, fn, f, c)
              \/ \E d \in AllDets \cup {"DCS"}, s \in EvStates : Event(e, d, s)
              \/ \E how \in Ends, c \in {"go", "err"} : End(e, how, c)
              \/ NewRun(e) \/ EndRun(e) \/ GoError(e) \/ Destroy(e)
SubNext == \E d \in AllDets : \/ \E p \in Avail, s \in Avail : Heartbeat(d, p, s)
                              \/ \E w \in {"pfr", "sor"}, v \in {"yes", "no"} : StateChange(d, w, v)
Next == (\E e \in Envs : EnvNext(e)) \/ SubNext
Spec == Init /\ [][Next]_vars

(* ------------------------------ what the GUI is shown ------------------------------ *)
SorSuccessful(e) == IF Code_SorSuccessfulMeansPending THEN pend[e] # 0 ELSE pend[e] # 0 /\ sorok[e]

(* ------------------------------ properties ------------------------------ *)
TypeOK ==
  /\ \A e \in Envs : ph[e] \in {"conf", "sor", "run", "eor", "err", "gone"} /\ rn[e] \in 0..MaxRun /\ pend[e] \in 0..MaxRun
  /\ \A d \in AllDets : apfr[d] \in Avail /\ asor[d] \in Avail /\ inrun[d] \in 0..MaxRun
  /\ \A d \in AllDets \ known : apfr[d] = "null" /\ asor[d] = "null"
  /\ nf <= MaxFaults /\ nsub <= MaxSub
Returned == last.kind = "ret"
\* a hook whose request was sent succeeds only if every requested detector's last word on the stream is RUN_OK ...
OkImpliesAllAcked == (Returned /\ last.ok) => last.allacked
\* ... and it does succeed then, whatever happened on the way (stream ended by EOF, deadline or error alike)
AllAckedImpliesOk == (Returned /\ last.allacked) => last.ok
\* the two ways the code as it is breaks this:
NoStickyFailure == (Returned /\ last.allacked /\ ~last.ok) => last.forfail        \* (only events of foreign detectors remain as a cause)
ForeignEventsIgnored == (Returned /\ last.allacked /\ ~last.ok) => last.reqfail   \* events of detectors outside the request never decide
\* a hook that fails names every detector that made it fail, and every requested detector that has not acknowledged
FailedDetectorsNamed == (Returned /\ ~last.ok) => (last.culprits \cap last.req) \subseteq last.named
UnackedNamed == Returned => last.unacked \subseteq last.named
\* nothing is sent for detectors outside dcs_detectors; PFR leaves out exactly the detectors known as not PFR_AVAILABLE; SOR is
\* not sent while a requested detector is known as not SOR_AVAILABLE
RequestWithinEnv == last.kind = "open" => last.req \subseteq DetsOf(last.e)
PfrSkipsUnavailableOnly == (last.kind = "open" /\ last.op = "PFR") => last.req = {d \in DetsOf(last.e) : apfr[d] # "no"}
SorGate == (last.kind = "open" /\ last.op = "SOR") => (last.req = DetsOf(last.e) /\ \A d \in last.req : asor[d] # "no")
PfrCoversAll == (Returned /\ last.op = "PFR" /\ last.ok) => last.req = DetsOf(last.e)
\* EOR goes to exactly the detectors that got the SOR of that run, once
EorMatchesSor == (last.kind = "open" /\ last.op = "EOR") => last.req = last.sordets
\* an EOR leaves alone a pending entry that names another run
EorClearsOwnRunOnly == (last.kind = "open" /\ last.op = "EOR") => (last.pendbefore \in {0, last.run} \/ pend[last.e] = last.pendbefore)
NoEorTwice == (last.kind = "open" /\ last.op = "EOR") => ~last.eordone
\* while no call failed to open, the pending-EOR bookkeeping is exactly the service's view of the living, idle environments
PendingExact ==
  nofail => \A e \in Envs : (ph[e] # "gone" /\ Idle(e)) =>
              /\ (pend[e] # 0 => \A d \in DetsOf(e) : inrun[d] = pend[e])
              /\ (pend[e] = 0 => \A d \in DetsOf(e) : inrun[d] = 0)
\* a detector that is in a run at the service has its EOR pending (so that Cleanup will send it)
NothingForgotten == \A e \in Envs : (ph[e] # "gone" /\ Idle(e)) => \A d \in DetsOf(e) : inrun[d] # 0 => pend[e] = inrun[d]
\* after a Cleanup that found nothing pending, or whose EOR request the service received, no detector of the environment is in a run
CleanupLeavesNothing == \A e \in Envs : clean[e] => \A d \in DetsOf(e) : inrun[d] = 0
\* what GetEnvironmentsData calls SorSuccessful is true only after a successful SOR
SorSuccessfulTruthful == \A e \in Envs : (Idle(e) /\ SorSuccessful(e)) => sorok[e]

(* ------------------------------ witnesses ------------------------------ *)
\* one counterexample per refuted property from a single exhaustive run (tlc -continue): fails once per worker, then silent
ASSUME \A k \in 1..8 : TLCSet(k, 0)
Once(k, P) == P \/ TLCGet(k) = 1 \/ (TLCSet(k, 1) /\ FALSE)
W_NoStickyFailure == Once(1, NoStickyFailure)
W_ForeignEventsIgnored == Once(2, ForeignEventsIgnored)
W_FailedDetectorsNamed == Once(3, FailedDetectorsNamed)
W_EorMatchesSor == Once(4, EorMatchesSor)
W_CleanupLeavesNothing == Once(5, CleanupLeavesNothing)
W_SorSuccessfulTruthful == Once(6, SorSuccessfulTruthful)
W_PfrCoversAll == Once(7, PfrCoversAll)
W_EorClearsOwnRunOnly == Once(8, EorClearsOwnRunOnly)
=============================================================================
