------------------------------- MODULE BkpRun -------------------------------
(***************************************************************************)
(* Beyond the listed properties (DESIGN.md section 5), X08: what the        *)
(* Bookkeeping integration plugin records in the Bookkeeping service.       *)
(*   core/integration/bookkeeping/plugin.go CallStack:                      *)
(*     StartOfRun      Run.Create; Log.Create; Flp.CreateMany - if the run   *)
(*                     creation fails a log without run is created instead   *)
(*                     and the hook fails only if that fails too             *)
(*     UpdateRunStart  Run.Update (run_start_time_ms, trg_start_time_ms);    *)
(*                     a second Run.Update with time.Now() for a start time   *)
(*                     that is still pending ("INCOMPLETE START")             *)
(*     UpdateRunStop   only if pendingRunStops holds the environment:         *)
(*                     Run.Update (all four times that are there); a second   *)
(*                     one for a pending end time ("INCOMPLETE STOP")         *)
(*     CreateEnv / UpdateEnv   Environment.Create / Update with the state     *)
(*                     machine's current state (DESTROYED on a DESTROY        *)
(*                     trigger)                                               *)
(*   and the six per-environment maps missingUpdateRunStarts,                 *)
(*   pendingRunStops, pendingO2Starts/Stops, pendingTrgStarts/Stops.          *)
(* The service as the fake keeps it: runs (created; how often each of the     *)
(* four timestamps was recorded; FLP entries), environments (statuses         *)
(* recorded); creating an existing run / updating an unknown run or           *)
(* environment is answered with a gRPC error.                                 *)
(* One action per gRPC call; outcome f: none | err (no effect) | lost.        *)
(* Timestamps are abstracted to what they are: the environment's own          *)
(* variable of that kind (o2s, ts, o2e, te), time.Now() (now), or unset (-).  *)
(* Left out: RetrieveFillInfo, the other payload fields, log texts.           *)
(***************************************************************************)
EXTENDS Naturals, FiniteSets, Sequences, TLC

CONSTANTS Envs, TrgOn,      \* TrgOn: the environments with trg_enabled
          MaxRun, MaxFaults, MaxEnvCalls,
          Code_RunCreateFailureMasked,
              \* StartOfRun: when Run.Create fails and the substitute log is created the hook returns SUCCESS
          Code_UpdateRunStartUnconditional,
              \* UpdateRunStart never asks whether the run was created: it sends Run.Update for a run the service does not know
          Code_PendingStopKeyedByEnv,
              \* pendingRunStops is consulted for the environment only: UpdateRunStop updates run_number (or last_run_number) even when the
              \* pending entry names another run - a run that was never created is updated, and the other run's pending stop is dequeued
          Code_IncompleteStopForgotten,
              \* UpdateRunStop dequeues the pending stop (deferred deletes) before its second Run.Update - the one carrying the missing
              \* end time - is answered: if that fails the end is never recorded and no later UpdateRunStop sends anything
          Code_MissingTimesFilledIn,
              \* a pending start / end time is filled with time.Now(), and the trigger time with the O2 time of the same update
              \* (timeTrgEndOutput = &timeO2EndTemp): values that are not the environment's own variable of that kind (by design)
          Code_FlpListPadded,
              \* make([]*FlpCreationRequest, len(flps)) followed by append: the request carries len(flps) empty entries in front of
              \* the real ones - FLPs without name and run are created
          Code_UpdateEnvUnknownTriggerPanics
              \* UpdateEnv with a trigger it does not know ends in err.Error() on a nil error: the hook panics

Runs == 1..MaxRun
Kinds == {"o2s", "ts", "o2e", "te"}
NoEnv == "-"
Fl == {"-", "true", "false"}
NoT == [k \in Kinds |-> "-"]
Triggers == {"STOP_ACTIVITY", "GO_ERROR", "DESTROY"}

VARIABLES
  rn, last,   \* run_number / last_run_number of the environment (0 = unset)
  rph,        \* none | new (run number given) | sor (StartOfRun done) | urs (UpdateRunStart done)
  have,       \* have[e]: the timestamp variables that are set
  est,        \* state of the environment's state machine
  nextrun,
  miss, stop, fl,   \* the plugin: missingUpdateRunStarts[e], pendingRunStops[e] (0 = no entry), fl[e][kind] = pendingXxx[e] in - | true | false
  hook,       \* hook[e]: invocation in progress, or NoHook
  created,    \* the service: runs created
  rec,        \* rec[r][kind]: how often the timestamp was recorded
  nflp,       \* nflp[r]: FLP entries created for the run
  bkenv,      \* bkenv[e]: statuses recorded for the environment
  nf, nenv,
  last_       \* (history) the step just taken

vars == <<rn, last, rph, have, est, nextrun, miss, stop, fl, hook, created, rec, nflp, bkenv, nf, nenv, last_>>

NoHook == [fn |-> "none"]
NoStep == [kind |-> "none", e |-> NoEnv, fn |-> "none", m |-> "none", run |-> 0, t |-> NoT, res |-> "none", ok |-> TRUE, wascreated |-> TRUE,
           createok |-> TRUE, logruns |-> {}, nflp |-> 0, npad |-> 0, status |-> "-", panic |-> FALSE, owner |-> NoEnv]

Init ==
  /\ rn = [e \in Envs |-> 0] /\ last = [e \in Envs |-> 0] /\ rph = [e \in Envs |-> "none"] /\ have = [e \in Envs |-> {}]
  /\ est = [e \in Envs |-> "STANDBY"] /\ nextrun = 1
  /\ miss = [e \in Envs |-> "-"] /\ stop = [e \in Envs |-> 0] /\ fl = [e \in Envs |-> NoT] /\ hook = [e \in Envs |-> NoHook]
  /\ created = {} /\ rec = [r \in Runs |-> [k \in Kinds |-> 0]] /\ nflp = [r \in Runs |-> 0] /\ bkenv = [e \in Envs |-> <<>>]
  /\ nf = 0 /\ nenv = 0 /\ last_ = NoStep

Idle(e) == hook[e].fn = "none"
Fs == {"none", "err", "lost"}
FaultOk(f) == f \in Fs /\ (f # "none" => nf < MaxFaults)
Cnt(f) == IF f = "none" THEN nf ELSE nf + 1
CurRun(e) == IF rn[e] # 0 THEN rn[e] ELSE last[e]
Trg(e) == e \in TrgOn

(* ------------------------------ the environment ------------------------------ *)
EcsUnch == UNCHANGED <<miss, stop, fl, hook, created, rec, nflp, bkenv, nf, nenv>>
NewRun(e) ==
  /\ rph[e] = "none" /\ Idle(e) /\ nextrun <= MaxRun
  /\ rn' = [rn EXCEPT ![e] = nextrun] /\ nextrun' = nextrun + 1 /\ rph' = [rph EXCEPT ![e] = "new"] /\ have' = [have EXCEPT ![e] = {}]
  /\ last_' = [NoStep EXCEPT !.kind = "ecs", !.e = e, !.fn = "NewRun", !.run = nextrun]
  /\ UNCHANGED <<last, est>> /\ EcsUnch
SetTime(e, k) ==
  /\ rn[e] # 0 /\ Idle(e) /\ k \in Kinds \ have[e]
  /\ (k = "ts" => rph[e] \in {"sor", "urs"}) /\ (k \in {"o2e", "te"} => rph[e] \in {"sor", "urs"})
  /\ have' = [have EXCEPT ![e] = @ \cup {k}]
  /\ last_' = [NoStep EXCEPT !.kind = "ecs", !.e = e, !.fn = "SetTime"]
  /\ UNCHANGED <<rn, last, rph, est, nextrun>> /\ EcsUnch
EndRun(e) ==
  /\ rn[e] # 0 /\ Idle(e)
  /\ last' = [last EXCEPT ![e] = rn[e]] /\ rn' = [rn EXCEPT ![e] = 0] /\ rph' = [rph EXCEPT ![e] = "none"]
  /\ last_' = [NoStep EXCEPT !.kind = "ecs", !.e = e, !.fn = "EndRun"]
  /\ UNCHANGED <<have, est, nextrun>> /\ EcsUnch
States == {"STANDBY", "RUNNING", "ERROR"}     \* (a sample of the state machine's states)
SetState(e, s) ==
  /\ Idle(e) /\ s \in States /\ s # est[e] /\ nenv < MaxEnvCalls
  /\ est' = [est EXCEPT ![e] = s] /\ last_' = [NoStep EXCEPT !.kind = "ecs", !.e = e, !.fn = "State"]
  /\ UNCHANGED <<rn, last, rph, have, nextrun>> /\ EcsUnch

(* ------------------------------ the service ------------------------------ *)
Legal(m, r, e) == CASE m = "Run.Create" -> r \notin created
                    [] m = "Run.Update" -> r \in created
                    [] m = "Env.Create" -> bkenv[e] = <<>>
                    [] m = "Env.Update" -> bkenv[e] # <<>>
                    [] OTHER -> TRUE
Res(m, r, e, f) == IF f # "none" \/ ~Legal(m, r, e) THEN "err" ELSE "ok"
Done(m, r, e, f) == Legal(m, r, e) /\ f # "err"
\* one request reaches the service; t = its time fields (Run.Update), n = FLP entries (Flp.CreateMany), s = status (Env.*)
Svc(m, r, e, f, t, n, s) ==
  /\ created' = IF m = "Run.Create" /\ Done(m, r, e, f) THEN created \cup {r} ELSE created
  /\ rec' = IF m = "Run.Update" /\ Done(m, r, e, f) THEN [rec EXCEPT ![r] = [k \in Kinds |-> IF t[k] # "-" THEN @[k] + 1 ELSE @[k]]] ELSE rec
  /\ nflp' = IF m = "Flp.CreateMany" /\ f # "err" /\ r \in created THEN [nflp EXCEPT ![r] = @ + n] ELSE nflp
  /\ bkenv' = IF m \in {"Env.Create", "Env.Update"} /\ Done(m, r, e, f) THEN [bkenv EXCEPT ![e] = Append(@, s)] ELSE bkenv
  /\ nf' = Cnt(f)
Step(e, fn, m, r, f, t, n, pad, s) ==
  [NoStep EXCEPT !.kind = "req", !.e = e, !.fn = fn, !.m = m, !.run = r, !.t = t, !.res = Res(m, r, e, f), !.wascreated = r \in created,
                 !.nflp = n, !.npad = pad, !.status = s, !.owner = e]

(* ------------------------------ the hooks ------------------------------ *)
EnvUnch == UNCHANGED <<rn, last, have, est, nextrun>>
\* what a timestamp field holds when it is taken from the variables
Own(e, k) == IF k \in have[e] THEN k ELSE "-"
Flag(e, k) == fl[e][k] = "true"                 \* (a missing map entry reads as false)
SetFalse(e, ks) == [fl EXCEPT ![e] = [k \in Kinds |-> IF k \in ks /\ k \in have[e] THEN "false" ELSE @[k]]]
Drop(f, ks) == [k \in Kinds |-> IF k \in ks THEN "-" ELSE f[k]]
RetWith(e, fn, ok, st) == /\ last_' = [st EXCEPT !.kind = "ret", !.ok = ok]
                          /\ hook' = [hook EXCEPT ![e] = NoHook]
NHosts == 2

\* ---- StartOfRun ----
SorCreate(e, f) ==
  /\ Idle(e) /\ rph[e] = "new" /\ FaultOk(f) /\ f # "lost"      \* (a lost reply to the creation is not modelled)
  /\ LET r == rn[e]
         ok == Res("Run.Create", r, e, f) = "ok"
         st == [Step(e, "StartOfRun", "Run.Create", r, f, NoT, 0, 0, "-") EXCEPT !.createok = ok]
     IN /\ Svc("Run.Create", r, e, f, NoT, 0, "-")
        /\ last_' = st
        /\ hook' = [hook EXCEPT ![e] = [fn |-> "StartOfRun", pc |-> IF ok THEN "log" ELSE "logonly", run |-> r, createok |-> ok]]
        /\ IF ok THEN /\ miss' = [miss EXCEPT ![e] = "true"] /\ stop' = [stop EXCEPT ![e] = r] /\ fl' = [fl EXCEPT ![e] = [k \in Kinds |-> "true"]]
           ELSE UNCHANGED <<miss, stop, fl>>
  /\ UNCHANGED rph /\ EnvUnch /\ UNCHANGED nenv
SorLog(e, f) ==
  /\ ~Idle(e) /\ hook[e].fn = "StartOfRun" /\ hook[e].pc \in {"log", "logonly"} /\ FaultOk(f)
  /\ LET h == hook[e]
         ok == Res("Log.Create", h.run, e, f) = "ok"
         st == [Step(e, "StartOfRun", "Log.Create", h.run, f, NoT, 0, 0, "-") EXCEPT !.createok = h.createok,
                                                                                  !.logruns = IF h.pc = "log" THEN {h.run} ELSE {}]
     IN /\ Svc("Log.Create", h.run, e, f, NoT, 0, "-")
        /\ IF h.pc = "logonly"
             THEN RetWith(e, "StartOfRun", ok /\ Code_RunCreateFailureMasked, st) /\ rph' = [rph EXCEPT ![e] = "sor"]
             ELSE IF ~ok THEN RetWith(e, "StartOfRun", FALSE, st) /\ rph' = [rph EXCEPT ![e] = "sor"]
             ELSE last_' = st /\ hook' = [hook EXCEPT ![e] = [h EXCEPT !.pc = "flp"]] /\ UNCHANGED rph
  /\ UNCHANGED <<miss, stop, fl, nenv>> /\ EnvUnch
SorFlp(e, f) ==
  /\ ~Idle(e) /\ hook[e].fn = "StartOfRun" /\ hook[e].pc = "flp" /\ FaultOk(f)
  /\ LET h == hook[e]
         pad == IF Code_FlpListPadded THEN NHosts ELSE 0
         st == [Step(e, "StartOfRun", "Flp.CreateMany", h.run, f, NoT, NHosts + pad, pad, "-") EXCEPT !.createok = TRUE]
     IN /\ Svc("Flp.CreateMany", h.run, e, f, NoT, NHosts + pad, "-")
        /\ RetWith(e, "StartOfRun", f = "none", st) /\ rph' = [rph EXCEPT ![e] = "sor"]
  /\ UNCHANGED <<miss, stop, fl, nenv>> /\ EnvUnch

\* ---- UpdateRunStart ----
UrsFirst(e, f) ==
  /\ Idle(e) /\ rph[e] = "sor"
  /\ LET r == rn[e]
         fl1 == SetFalse(e, {"o2s", "ts"})
         t == [k \in Kinds |-> IF k = "o2s" THEN Own(e, "o2s") ELSE IF k = "ts" /\ Trg(e) THEN Own(e, "ts") ELSE "-"]
     IN IF ~Code_UpdateRunStartUnconditional /\ stop[e] # r
          THEN \* repaired design: nothing to update, nothing sent
               /\ f = "none" /\ RetWith(e, "UpdateRunStart", TRUE, [NoStep EXCEPT !.e = e, !.fn = "UpdateRunStart"])
               /\ miss' = [miss EXCEPT ![e] = "false"] /\ fl' = fl1
               /\ UNCHANGED <<stop, created, rec, nflp, bkenv, nf>>
          ELSE /\ FaultOk(f)
               /\ Svc("Run.Update", r, e, f, t, 0, "-")
               /\ miss' = [miss EXCEPT ![e] = "false"] /\ UNCHANGED stop
               /\ LET ok == Res("Run.Update", r, e, f) = "ok"
                      st == Step(e, "UpdateRunStart", "Run.Update", r, f, t, 0, 0, "-")
                      second == Code_MissingTimesFilledIn /\ (fl1[e]["o2s"] = "true" \/ (Trg(e) /\ fl1[e]["ts"] = "true"))
                  IN IF ~ok THEN RetWith(e, "UpdateRunStart", FALSE, st) /\ fl' = fl1
                     ELSE IF second THEN /\ last_' = st /\ fl' = fl1
                                         /\ hook' = [hook EXCEPT ![e] = [fn |-> "UpdateRunStart", pc |-> "second", run |-> r, createok |-> TRUE]]
                     ELSE RetWith(e, "UpdateRunStart", TRUE, st) /\ fl' = [fl1 EXCEPT ![e] = Drop(@, {"o2s", "ts"})]
  /\ rph' = [rph EXCEPT ![e] = IF hook'[e].fn = "none" THEN "urs" ELSE @]
  /\ UNCHANGED nenv /\ EnvUnch
UrsSecond(e, f) ==
  /\ ~Idle(e) /\ hook[e].fn = "UpdateRunStart" /\ FaultOk(f)
  /\ LET r == hook[e].run
         o2 == IF Flag(e, "o2s") /\ Code_MissingTimesFilledIn THEN "now" ELSE Own(e, "o2s")
         tg == IF Trg(e) /\ Flag(e, "ts") /\ Code_MissingTimesFilledIn THEN o2 ELSE IF Trg(e) THEN Own(e, "ts") ELSE "-"
         t == [k \in Kinds |-> IF k = "o2s" THEN o2 ELSE IF k = "ts" THEN tg ELSE "-"]
     IN /\ Svc("Run.Update", r, e, f, t, 0, "-")
        /\ RetWith(e, "UpdateRunStart", Res("Run.Update", r, e, f) = "ok", Step(e, "UpdateRunStart", "Run.Update", r, f, t, 0, 0, "-"))
        /\ fl' = [fl EXCEPT ![e] = Drop(@, {"o2s", "ts"})]
  /\ rph' = [rph EXCEPT ![e] = "urs"]
  /\ UNCHANGED <<miss, stop, nenv>> /\ EnvUnch

\* ---- UpdateRunStop ----
UrstFirst(e, trig, f) ==
  /\ Idle(e) /\ trig \in Triggers /\ (rn[e] # 0 \/ last[e] # 0 \/ trig # "STOP_ACTIVITY")
  /\ nenv < MaxEnvCalls + 3 /\ nenv' = nenv + 1        \* (model finiteness: UpdateRunStop invocations are counted with the environment calls)
  /\ (trig = "STOP_ACTIVITY" => rph[e] \in {"sor", "urs"})
  /\ LET r == CurRun(e)
         fl1 == SetFalse(e, Kinds)
         \* "If UpdateRunStart was not called and the Trg start time is missing, it is set to the O2 start time"
         borrow == Trg(e) /\ miss[e] = "true" /\ "ts" \notin have[e] /\ fl1[e]["o2s"] # "true"
         fl2 == IF borrow THEN [fl1 EXCEPT ![e]["ts"] = "false"] ELSE fl1
         t == [k \in Kinds |-> CASE k = "o2s" -> Own(e, "o2s") [] k = "o2e" -> Own(e, "o2e")
                                 [] k = "ts" -> IF ~Trg(e) THEN "-" ELSE IF borrow /\ Code_MissingTimesFilledIn THEN Own(e, "o2s") ELSE Own(e, "ts")
                                 [] OTHER -> IF Trg(e) THEN Own(e, "te") ELSE "-"]
     IN IF r = 0
          THEN /\ f = "none" /\ RetWith(e, "UpdateRunStop", TRUE, [NoStep EXCEPT !.e = e, !.fn = "UpdateRunStop"])
               /\ UNCHANGED <<miss, stop, fl, created, rec, nflp, bkenv, nf>>
        ELSE IF stop[e] = 0 \/ (~Code_PendingStopKeyedByEnv /\ stop[e] # r)
          THEN /\ f = "none" /\ RetWith(e, "UpdateRunStop", TRUE, [NoStep EXCEPT !.e = e, !.fn = "UpdateRunStop"])
               /\ fl' = fl1 /\ UNCHANGED <<miss, stop, created, rec, nflp, bkenv, nf>>
        ELSE /\ FaultOk(f)
             /\ Svc("Run.Update", r, e, f, t, 0, "-")
             /\ UNCHANGED miss
             /\ LET ok == Res("Run.Update", r, e, f) = "ok"
                    st == Step(e, "UpdateRunStop", "Run.Update", r, f, t, 0, 0, "-")
                    pendingEnd == fl2[e]["o2e"] = "true" \/ (Trg(e) /\ fl2[e]["te"] = "true")
                    second == pendingEnd /\ Code_MissingTimesFilledIn
                    wait == pendingEnd /\ ~Code_MissingTimesFilledIn     \* repaired design: nothing is invented, the stop stays pending
                    cleared == [fl2 EXCEPT ![e] = Drop(@, IF miss[e] = "true" THEN Kinds ELSE {"o2e", "te"})]
                IN IF ~ok THEN RetWith(e, "UpdateRunStop", FALSE, st) /\ fl' = fl2 /\ UNCHANGED stop
                   ELSE IF second THEN /\ last_' = st /\ fl' = fl2 /\ UNCHANGED stop
                                       /\ hook' = [hook EXCEPT ![e] = [fn |-> "UpdateRunStop", pc |-> "second", run |-> r, createok |-> TRUE]]
                   ELSE IF wait THEN RetWith(e, "UpdateRunStop", TRUE, st) /\ fl' = fl2 /\ UNCHANGED stop
                   ELSE RetWith(e, "UpdateRunStop", TRUE, st) /\ fl' = cleared /\ stop' = [stop EXCEPT ![e] = 0]
  /\ UNCHANGED rph /\ EnvUnch
UrstSecond(e, f) ==
  /\ ~Idle(e) /\ hook[e].fn = "UpdateRunStop" /\ FaultOk(f)
  /\ LET r == hook[e].run
         o2 == IF Flag(e, "o2e") /\ Code_MissingTimesFilledIn THEN "now" ELSE Own(e, "o2e")
         tg == IF Trg(e) /\ Flag(e, "te") /\ Code_MissingTimesFilledIn THEN o2 ELSE IF Trg(e) THEN Own(e, "te") ELSE "-"
         t == [k \in Kinds |-> IF k = "o2e" THEN o2 ELSE IF k = "te" THEN tg ELSE "-"]
         ok == Res("Run.Update", r, e, f) = "ok"
         keep == ~ok /\ ~Code_IncompleteStopForgotten      \* repaired design: a failed second update leaves the stop pending
     IN /\ Svc("Run.Update", r, e, f, t, 0, "-")
        /\ RetWith(e, "UpdateRunStop", ok, Step(e, "UpdateRunStop", "Run.Update", r, f, t, 0, 0, "-"))
        /\ IF keep THEN UNCHANGED <<stop, fl>>
           ELSE /\ stop' = [stop EXCEPT ![e] = 0]
                /\ fl' = [fl EXCEPT ![e] = Drop(@, IF miss[e] = "true" THEN Kinds ELSE {"o2e", "te"})]
  /\ UNCHANGED <<miss, rph, nenv>> /\ EnvUnch

\* ---- CreateEnv / UpdateEnv ----
EnvTriggers == {"DEPLOY", "CONFIGURE", "START_ACTIVITY", "STOP_ACTIVITY", "GO_ERROR", "EXIT", "DESTROY", "enter_RUNNING"}
EnvCall(e, fn, trig, f) ==
  /\ Idle(e) /\ fn \in {"CreateEnv", "UpdateEnv"} /\ trig \in EnvTriggers /\ nenv < MaxEnvCalls
  /\ (fn = "CreateEnv" => trig = "DEPLOY")
  /\ nenv' = nenv + 1
  /\ IF fn = "UpdateEnv" /\ trig = "enter_RUNNING"
       THEN \* a trigger UpdateEnv does not know
            /\ f = "none"
            /\ RetWith(e, fn, Code_UpdateEnvUnknownTriggerPanics, [NoStep EXCEPT !.e = e, !.fn = fn, !.panic = Code_UpdateEnvUnknownTriggerPanics])
            /\ UNCHANGED <<created, rec, nflp, bkenv, nf>>
       ELSE LET m == IF fn = "CreateEnv" THEN "Env.Create" ELSE "Env.Update"
                s == IF fn = "UpdateEnv" /\ trig = "DESTROY" THEN "DESTROYED" ELSE est[e]
            IN /\ FaultOk(f) /\ Svc(m, 0, e, f, NoT, 0, s)
               /\ RetWith(e, fn, Res(m, 0, e, f) = "ok", Step(e, fn, m, 0, f, NoT, 0, 0, s))
  /\ UNCHANGED <<miss, stop, fl, rph>> /\ EnvUnch

EnvNext(e) == \/ NewRun(e) \/ EndRun(e) \/ (\E k \in Kinds : SetTime(e, k)) \/ (\E s \in States : SetState(e, s))
              \/ \E f \in Fs : SorCreate(e, f) \/ SorLog(e, f) \/ SorFlp(e, f) \/ UrsFirst(e, f) \/ UrsSecond(e, f) \/ UrstSecond(e, f)
              \/ \E f \in Fs, trig \in Triggers : UrstFirst(e, trig, f)
              \/ \E f \in Fs, fn \in {"CreateEnv", "UpdateEnv"}, trig \in EnvTriggers : EnvCall(e, fn, trig, f)
Next == \E e \in Envs : EnvNext(e)
Spec == Init /\ [][Next]_vars

(* ------------------------------ properties ------------------------------ *)
TypeOK == /\ \A e \in Envs : rn[e] \in 0..MaxRun /\ stop[e] \in 0..MaxRun /\ miss[e] \in Fl /\ \A k \in Kinds : fl[e][k] \in Fl
          /\ nf <= MaxFaults
Req == last_.kind \in {"req", "ret"} /\ last_.m # "none"
Returned == last_.kind = "ret"
\* a StartOfRun that succeeds has created the run
StartOkImpliesRunCreated == (Returned /\ last_.fn = "StartOfRun" /\ last_.ok) => last_.createok
\* a run is created at most once, and before any update of it
CreatedOnce == (Req /\ last_.m = "Run.Create") => ~last_.wascreated
UpdateOnlyCreated == (Req /\ last_.m = "Run.Update") => last_.wascreated
\* the end of a created run that is not yet recorded stays pending while nothing is in progress (so that a later UpdateRunStop sends it)
EndNeverForgotten == \A e \in Envs : \A r \in created :
   (Idle(e) /\ CurRun(e) = r /\ rec[r]["o2e"] = 0) => stop[e] = r
\* every timestamp sent is the environment's own variable of that kind
TimesAreOwn == (Req /\ last_.m = "Run.Update") => \A k \in Kinds : last_.t[k] \in {"-", k}
\* nothing is ever sent for run number 0; logs name the run that was created
NoRunZero == (Req /\ last_.m \in {"Run.Create", "Run.Update", "Flp.CreateMany"}) => last_.run # 0
\* FLPs: one entry per host, none else
FlpsOncePerHost == (Req /\ last_.m = "Flp.CreateMany") => (last_.nflp = NHosts /\ last_.npad = 0)
\* the environment's status sent is its state machine's state (DESTROYED on DESTROY), for the caller's own environment
EnvStatusFaithful == (Req /\ last_.m \in {"Env.Create", "Env.Update"}) => last_.owner = last_.e
\* no hook panics
NoPanic == ~last_.panic
\* the pending stop names the run it was created for
PendingStopOwn == \A e \in Envs : stop[e] # 0 => (stop[e] \in created /\ stop[e] = CurRun(e))

(* ------------------------------ witnesses ------------------------------ *)
ASSUME \A k \in 1..8 : TLCSet(k, 0)
Once(k, P) == P \/ TLCGet(k) = 1 \/ (TLCSet(k, 1) /\ FALSE)
W_StartOkImpliesRunCreated == Once(1, StartOkImpliesRunCreated)
W_UpdateOnlyCreated == Once(2, UpdateOnlyCreated)
W_EndNeverForgotten == Once(3, EndNeverForgotten)
W_TimesAreOwn == Once(4, TimesAreOwn)
W_FlpsOncePerHost == Once(5, FlpsOncePerHost)
W_NoPanic == Once(6, NoPanic)
=============================================================================
