---------------------------- MODULE EventWriter ----------------------------
(***************************************************************************)
(* Model of common/event/writer.go (KafkaWriter) + fifobuffer.go.           *)
(*                                                                         *)
(* Threads: producers (WriteEvent), the batching loop, the writing loop,   *)
(* the caller of Close, and the broker (writeFunction).  One action per     *)
(* critical section of the code; the program counters are named after the  *)
(* verifhook points ("evw.w.select", "evw.b.recv", ...) at which the real   *)
(* goroutines can be parked, so that a behaviour of this module is a        *)
(* schedule the harness can impose on the implementation.                   *)
(*                                                                         *)
(* DrainOnDone describes the tree being checked: FALSE = writingLoop        *)
(* returns on the done signal without looking at the buffer (pinned tree);  *)
(* TRUE = it first writes what is left (tree with the "fix:" commit).       *)
(***************************************************************************)
EXTENDS Naturals, Sequences, FiniteSets, TLC

CONSTANTS Producers,    \* set of producer ids
          NEvents,      \* events per producer
          ChanCap,      \* capacity of toBatchMessagesChan
          MaxBatch,     \* PopMultiple(100) in the code
          DrainOnDone   \* BOOLEAN, see above

VARIABLES
  prod,      \* prod[p] = number of WriteEvent calls of p that returned (accepted events)
  chan,      \* toBatchMessagesChan: sequence of <<p, n>>
  chClosed,  \* close(toBatchMessagesChan) happened
  buf,       \* messageBuffer (FifoBuffer)
  bpc,       \* batching loop: "idle" | "recv" | "closed" | "signalled" | "released" | "exited"
  held,      \* message the batching loop received from the channel and has not pushed yet
  wpc,       \* writing loop: "select" | "prepop" | "wait" | "writing" | "exit" | "exited"
  woken,     \* the writer, blocked in cond.Wait, has been signalled / broadcast
  batch,     \* batch handed to writeFunction and not yet acknowledged
  draining,  \* writer is in its final drain (only with DrainOnDone)
  doneSig,   \* batchingLoopDoneCh holds the done token
  cpc,       \* Close caller: "none" | "waiting" | "returned"
  delivered  \* history: sequence of batches handed to the broker

vars == <<prod, chan, chClosed, buf, bpc, held, wpc, woken, batch, draining, doneSig, cpc, delivered>>

None == <<>>

Min(a, b) == IF a < b THEN a ELSE b

Init ==
  /\ prod = [p \in Producers |-> 0]
  /\ chan = <<>> /\ chClosed = FALSE /\ buf = <<>>
  /\ bpc = "idle" /\ held = None
  /\ wpc = "select" /\ woken = FALSE /\ batch = <<>> /\ draining = FALSE
  /\ doneSig = FALSE /\ cpc = "none" /\ delivered = <<>>

(* ---------------- producers: WriteEventWithTimestamp ---------------- *)
Write(p) ==
  /\ ~chClosed /\ cpc = "none"
  /\ prod[p] < NEvents
  /\ Len(chan) < ChanCap
  /\ prod' = [prod EXCEPT ![p] = @ + 1]
  /\ chan' = Append(chan, <<p, prod[p] + 1>>)
  /\ UNCHANGED <<chClosed, buf, bpc, held, wpc, woken, batch, draining, doneSig, cpc, delivered>>

(* ---------------- batching loop ---------------- *)
\* `for message := range w.toBatchMessagesChan` receives one message (-> evw.b.recv)
BatchRecv ==
  /\ bpc = "idle" /\ chan # <<>>
  /\ held' = Head(chan) /\ chan' = Tail(chan) /\ bpc' = "recv"
  /\ UNCHANGED <<prod, chClosed, buf, wpc, woken, batch, draining, doneSig, cpc, delivered>>

\* messageBuffer.Push: append + cond.Signal under the buffer lock
BatchPush ==
  /\ bpc = "recv"
  /\ buf' = Append(buf, held) /\ held' = None /\ bpc' = "idle"
  /\ woken' = (woken \/ wpc = "wait")
  /\ UNCHANGED <<prod, chan, chClosed, wpc, batch, draining, doneSig, cpc, delivered>>

\* range loop ends: channel closed and drained (-> evw.b.closed)
BatchSeesClosed ==
  /\ bpc = "idle" /\ chan = <<>> /\ chClosed
  /\ bpc' = "closed"
  /\ UNCHANGED <<prod, chan, chClosed, buf, held, wpc, woken, batch, draining, doneSig, cpc, delivered>>

\* w.batchingLoopDoneCh <- struct{}{}   (buffered, capacity 1)
BatchSignal ==
  /\ bpc = "closed" /\ ~doneSig
  /\ doneSig' = TRUE /\ bpc' = "signalled"
  /\ UNCHANGED <<prod, chan, chClosed, buf, held, wpc, woken, batch, draining, cpc, delivered>>

\* messageBuffer.ReleaseGoroutines(): cond.Broadcast - wakes only who is waiting now
BatchRelease ==
  /\ bpc = "signalled"
  /\ woken' = (woken \/ wpc = "wait") /\ bpc' = "released"
  /\ UNCHANGED <<prod, chan, chClosed, buf, held, wpc, batch, draining, doneSig, cpc, delivered>>

\* runningWorkers.Done()
BatchExit ==
  /\ bpc = "released" /\ bpc' = "exited"
  /\ UNCHANGED <<prod, chan, chClosed, buf, held, wpc, woken, batch, draining, doneSig, cpc, delivered>>

(* ---------------- writing loop ---------------- *)
Take(n) == SubSeq(buf, 1, n)
Drop(n) == SubSeq(buf, n + 1, Len(buf))

\* select { case <-done: ...; default: ... }  evaluated when leaving evw.w.select
WriterSelectDone ==
  /\ wpc = "select" /\ doneSig
  /\ doneSig' = FALSE
  /\ IF DrainOnDone /\ buf # <<>>
       THEN LET n == Min(MaxBatch, Len(buf)) IN
            /\ batch' = Take(n) /\ buf' = Drop(n)
            /\ delivered' = Append(delivered, Take(n))
            /\ wpc' = "writing" /\ draining' = TRUE
       ELSE /\ wpc' = "exit" /\ UNCHANGED <<batch, buf, delivered, draining>>
  /\ UNCHANGED <<prod, chan, chClosed, bpc, held, woken, cpc>>

WriterSelectDefault ==
  /\ wpc = "select" /\ ~doneSig
  /\ wpc' = "prepop"
  /\ UNCHANGED <<prod, chan, chClosed, buf, bpc, held, woken, batch, draining, doneSig, cpc, delivered>>

\* PopMultiple(100): lock; buffer non-empty => pop and hand to writeFunction; empty => cond.Wait
WriterPopEnter ==
  /\ wpc = "prepop"
  /\ IF buf # <<>>
       THEN LET n == Min(MaxBatch, Len(buf)) IN
            /\ batch' = Take(n) /\ buf' = Drop(n)
            /\ delivered' = Append(delivered, Take(n))
            /\ wpc' = "writing" /\ UNCHANGED woken
       ELSE /\ wpc' = "wait" /\ woken' = FALSE
            /\ UNCHANGED <<batch, buf, delivered>>
  /\ UNCHANGED <<prod, chan, chClosed, bpc, held, draining, doneSig, cpc>>

\* woken from cond.Wait: buffer still empty => return nothing (-> continue -> select); else pop
WriterWake ==
  /\ wpc = "wait" /\ woken
  /\ woken' = FALSE
  /\ IF buf # <<>>
       THEN LET n == Min(MaxBatch, Len(buf)) IN
            /\ batch' = Take(n) /\ buf' = Drop(n)
            /\ delivered' = Append(delivered, Take(n))
            /\ wpc' = "writing"
       ELSE /\ wpc' = "select" /\ UNCHANGED <<batch, buf, delivered>>
  /\ UNCHANGED <<prod, chan, chClosed, bpc, held, draining, doneSig, cpc>>

\* writeFunction returns (the broker acknowledged, after an arbitrary delay); in the final
\* drain (DrainOnDone) the writer goes on popping until the buffer is empty
BrokerAck ==
  /\ wpc = "writing"
  /\ IF draining /\ buf # <<>>
       THEN LET n == Min(MaxBatch, Len(buf)) IN
            /\ batch' = Take(n) /\ buf' = Drop(n)
            /\ delivered' = Append(delivered, Take(n))
            /\ wpc' = "writing" /\ UNCHANGED draining
       ELSE /\ batch' = <<>>
            /\ wpc' = (IF draining THEN "exit" ELSE "select")
            /\ draining' = FALSE
            /\ UNCHANGED <<buf, delivered>>
  /\ UNCHANGED <<prod, chan, chClosed, bpc, held, woken, doneSig, cpc>>

\* runningWorkers.Done(); return
WriterExit ==
  /\ wpc = "exit" /\ wpc' = "exited"
  /\ UNCHANGED <<prod, chan, chClosed, buf, bpc, held, woken, batch, draining, doneSig, cpc, delivered>>

(* ---------------- Close ---------------- *)
CloseBegin ==
  /\ cpc = "none"
  /\ chClosed' = TRUE /\ cpc' = "waiting"
  /\ UNCHANGED <<prod, chan, buf, bpc, held, wpc, woken, batch, draining, doneSig, delivered>>

CloseEnd ==
  /\ cpc = "waiting" /\ bpc = "exited" /\ wpc = "exited"
  /\ cpc' = "returned"
  /\ UNCHANGED <<prod, chan, chClosed, buf, bpc, held, wpc, woken, batch, draining, doneSig, delivered>>

System == BatchRecv \/ BatchPush \/ BatchSeesClosed \/ BatchSignal \/ BatchRelease \/ BatchExit
          \/ WriterSelectDone \/ WriterSelectDefault \/ WriterPopEnter \/ WriterWake
          \/ WriterExit \/ CloseEnd
Env == (\E p \in Producers : Write(p)) \/ BrokerAck \/ CloseBegin

Next == System \/ Env
Spec == Init /\ [][Next]_vars
FairSpec == Spec /\ WF_vars(System) /\ WF_vars(BrokerAck)

(* ---------------- properties ---------------- *)
RECURSIVE Flatten(_)
Flatten(ss) == IF ss = <<>> THEN <<>> ELSE Head(ss) \o Flatten(Tail(ss))

Of(p, s) == SelectSeq(s, LAMBDA e : e[1] = p)

DeliveredFlat == Flatten(delivered)

\* exactly once + per-producer order: what reached the broker from p is 1,2,...,k with k <= accepted
OnceInOrder ==
  \A p \in Producers :
    LET d == Of(p, DeliveredFlat) IN
      /\ Len(d) <= prod[p]
      /\ \A i \in 1..Len(d) : d[i] = <<p, i>>

BatchBound == \A i \in 1..Len(delivered) : Len(delivered[i]) \in 1..MaxBatch

\* every event accepted before shutdown is handed to the broker before shutdown completes
FlushOnClose ==
  cpc = "returned" => \A p \in Producers : Len(Of(p, DeliveredFlat)) = prod[p]

\* producers never wait for the broker: while a batch is held by the broker a producer
\* can still publish as long as the channel has room (structural in this model)
ProducersNeverWaitForBroker ==
  (wpc = "writing" /\ ~chClosed /\ cpc = "none") =>
     \A p \in Producers : (prod[p] < NEvents /\ Len(chan) < ChanCap) => ENABLED Write(p)

TypeOK ==
  /\ bpc \in {"idle", "recv", "closed", "signalled", "released", "exited"}
  /\ wpc \in {"select", "prepop", "wait", "writing", "exit", "exited"}
  /\ cpc \in {"none", "waiting", "returned"}
  /\ Len(chan) <= ChanCap

\* Close can never return from here: the writer sleeps in cond.Wait, nobody is left to wake it
NoHang == ~(cpc = "waiting" /\ bpc = "exited" /\ wpc = "wait" /\ ~woken)

\* Liveness (observation, beyond the listed property): Close returns
CloseReturns == (cpc = "waiting") ~> (cpc = "returned")
=============================================================================
