--------------------------- MODULE PlacementTrace ---------------------------
(***************************************************************************)
(* Trace specification binding spec/Placement.tla to recorded executions of *)
(* the real AliECS placement code.  One TLC run consumes a whole NDJSON      *)
(* file (IOEnv.TRACE_FILE) and does two things per line:                    *)
(*  - conformance (strict): the recorded output must equal what the model   *)
(*    of the code (the ...Impl operators / the implementation-shaped round  *)
(*    of Placement.tla, with the Code_ constants of the cfg) yields for the *)
(*    recorded input; a mismatch prints <<"DRIFT", scn, l, what>> (a round  *)
(*    is compared when it closes, for SOME processing order of its offers); *)
(*  - monitor: the property formulas (Sat, NearestWins, Fits, ParseRanges,  *)
(*    PlacementOK = P0..P5) are evaluated on the recorded facts as soft     *)
(*    invariants: a failure prints <<"VIOL", name, scn, l, detail>>.        *)
(*    <<"OBS", ...>> records are over-rejections: not a violation of C05    *)
(*    (which only limits where tasks ARE placed) but worth telling.         *)
(*                                                                         *)
(* LINE FORMAT (one JSON object per line; no JSON null anywhere; empty      *)
(* lists as []; extra fields are ignored)                                   *)
(*                                                                         *)
(* Pure level (harness/cmd/placement -mode pure):                           *)
(*  {"ev":"Pure","scn":n,"fn":"Satisfy","in":{"attrs":[["machine_id","hA"],*)
(*     ["rack","r1,r2"]],"cts":[["rack","r1"]]},"out":true}                 *)
(*  {"ev":"Pure","scn":n,"fn":"MergeParent","in":{"child":[[a,v]..],        *)
(*     "parent":[[a,v]..]},"out":{"merged":[[a,v]..],"parent_after":[..],   *)
(*     "child_after":[..] (the two arguments after the call)}}              *)
(*  {"ev":"Pure","scn":n,"fn":"SharedClass","in":{"class":[[a,v]..] (the    *)
(*     task template's constraints),"root":[[a,v]..],"descs":[[group level, *)
(*     task level]..] (>= 2 task roles loading the SAME class),"rounds":2,  *)
(*     "agents":[[[name,text]..]..]},"out":{"role":[[[a,v]..] per desc]     *)
(*     (getConstraints),"rounds":[[[[a,v]..] per desc] per round]           *)
(*     (BuildDescriptorConstraints with ONE class registry entry for all),  *)
(*     "sat":[[[b per agent] per desc] per round],"class_after":[[a,v]..]}} *)
(*  {"ev":"Pure","scn":n,"fn":"RoleChain","in":{"levels":[[[a,v]..]..]      *)
(*     (root role first, task role last),"hasclass":b,"class":[[a,v]..],    *)
(*     "agents":[[[name,text]..]..]},"out":{"role":[[a,v]..] (the task      *)
(*     role's getConstraints),"final":[[a,v]..] (BuildDescriptorConstraints)*)
(*     ,"sat":[b..] (Attributes.Satisfy(final) per agent)}}                 *)
(*  {"ev":"Pure","scn":n,"fn":"ResSatisfy","in":{"res":{"hascpu":b,"cpu":c, *)
(*     "hasmem":b,"mem":m,"ports":[[b,e]..]},"want":{"cpu":c,"mem":m,       *)
(*     "static":[[b,e]..],"tcp":k,"ipc":k}},"out":b}                        *)
(*  {"ev":"Pure","scn":n,"fn":"ParseRanges","in":{"expr":"9000-9005,9010"},  *)
(*     "out":{"ok":b,"ranges":[[b,e]..],"yaml_ok":b,"yaml_ranges":[[b,e]..]}}*)
(*                                                                         *)
(* Round level.  Emitted by lib/props/C05.py from the master-side record of *)
(* the whole-core simulation (harness/coresim, step c05_round): MOffers ->   *)
(* Round, MAccept -> Accept, MDecline -> Decline, all offers of the first    *)
(* OFFERS event answered -> RoundEnd, core process died -> Panic; and by     *)
(* harness/cmd/placement -mode synth (self-test of this specification).      *)
(* All cpu numbers of a round are integers in ONE unit - use milli-cores,   *)
(* round(1000*cpus), so that the executor share (default 0.01) counts; mem  *)
(* in MB, rounded.  One round = Round, then one Accept per ACCEPT call the  *)
(* master received (any order; those without operations, "tasks":[], may be *)
(* included: such an offer counts as declined), Decline lines, then exactly *)
(* one of Verdict | RoundEnd | Panic.                                       *)
(*  {"ev":"Round","scn":n,                                                  *)
(*    "offers":[{"id":"o1","host":"h1","attrs":{"machine_id":"h1",          *)
(*       "rack":"r1"},"cpus":4000,"mem":4096,                               *)
(*       "ports":[[9000,9010],[30000,30010]]}],                             *)
(*    "descs":[{"id":"d1","cpu":1000,"mem":128,"tcp_inbound":1,             *)
(*       "ipc_inbound":0,"controllable":true,                               *)
(*       "constraints":[{"attr":"machine_id","value":"h1"}]  (the merged    *)
(*           list, class constraints first)   OR                            *)
(*       "chain":[[{"attr":..,"value":..}..]..]  (levels, farthest first:   *)
(*           task class, root role, ..., task role; merged here),           *)
(*       "static":[[9005,9006]]  OR  "static_expr":"9005-9006" (the text of *)
(*           wants.ports in the task template; parsed here)}],              *)
(*    "exec":{"cpu":10,"mem":64}   (optional: executor share added to every *)
(*           task; only used by the conformance part)}                      *)
(*    attrs: text attributes only; a comma separated text is a value list.  *)
(*    descs: in the order of the deployment request (workflow order).       *)
(*  {"ev":"Accept","scn":n,"offer":"o1","tasks":[{"desc":"d1","cpu":1010,   *)
(*       "mem":192,"ports":[9000,30000,9005,9006]}]}                        *)
(*    cpu/mem/ports: the sums / the expanded port ranges of                 *)
(*    TaskInfo.Resources (executor share included as requested); optional   *)
(*    per task: "dynamic":[9000] (bound TCP endpoints of the bind map) and  *)
(*    "control":30000 (the control port handed to the task; the whole-core  *)
(*    simulation reads it from TaskInfo.Data for controllable tasks).       *)
(*  {"ev":"Decline","scn":n,"offers":["o2"]}                                *)
(*  {"ev":"Verdict","scn":n,"deployed":["d1"],"undeployed":[],              *)
(*       "undeployable":[]}                                                 *)
(*  {"ev":"RoundEnd","scn":n}  closes the round when the core's verdict is  *)
(*       not observable (next OFFERS event / end of scenario); Verdict and  *)
(*       RoundEnd both trigger the evaluation of P0..P5                     *)
(*  {"ev":"Panic","scn":n,"what":"..."}   the core died in the OFFERS       *)
(*       handler (closes the round instead of Verdict)                      *)
(*  {"ev":"Reset","scn":n}  is accepted and ignored.                        *)
(***************************************************************************)
EXTENDS Placement, Json, IOUtils

Trace == ndJsonDeserialize(IOEnv.TRACE_FILE)

VARIABLES l,      \* next line of Trace
          mode,   \* round conformance: "ok" | "lost" | "idle"
          mon,    \* monitor: facts of the open round [open, scn, offers, descs, accepts, declined]
          nviol   \* number of soft violations so far

tvars == <<l, mode, mon, nviol>>
allvars == <<c, rd, tvars>>

Line == Trace[l]
Has(f) == f \in DOMAIN Line
Scn == IF Has("scn") THEN Line.scn ELSE -1

Soft(name, cond, detail) ==
  IF cond THEN 0
  ELSE IF PrintT(<<"VIOL", name, Scn, l, detail>>) THEN 1 ELSE 1
Obs(name, cond, detail) == IF cond THEN TRUE ELSE PrintT(<<"OBS", name, Scn, l, detail>>)
Drift(cond, what) == IF cond THEN TRUE ELSE PrintT(<<"DRIFT", Scn, l, what>>)

(***************************************************************************)
(* Pure lines                                                               *)
(***************************************************************************)
SatPattern(A, cts, out) ==
  IF out /\ ~Sat(A, cts)
    THEN IF SatLastOnly(A, cts) THEN "non-last constraint unsatisfied" ELSE "accepted although the last constraint is unsatisfied"
    ELSE "-"

PureSatisfy ==
  LET in == Line.in
      A == AttrMap(in.attrs)
  IN /\ Drift(Line.out = SatImpl(A, in.cts), <<"Satisfy", in, Line.out>>)
     /\ Obs("SatisfyRejectsSatisfied", Sat(A, in.cts) => Line.out, in)
     /\ nviol' = nviol + Soft("SatAllConstraints", Line.out => Sat(A, in.cts), <<SatPattern(A, in.cts, Line.out), in>>)

PureMerge ==
  LET in == Line.in
      o == Line.out
  IN \* the arguments are the caller's (a role's, a task template's) constraints: they must come back as they went in
     /\ Drift(o.merged = MergeParent(in.child, in.parent) /\ o.parent_after = in.parent /\ o.child_after = in.child,
               <<"MergeParent", in, o>>)
     /\ nviol' = nviol + Soft("NearestWins", NearestWins(<<in.parent, in.child>>, o.merged), <<"merge", in, o.merged>>)

\* several task roles of one task class, deployed twice: the constraints of every descriptor, every round
PureShared ==
  LET in == Line.in
      o == Line.out
      n == Len(in.descs)
      R == 1..Len(o.rounds)
      badC == {<<r, i>> \in R \X (1..n) : ~NearestWins(ShChain(in, i), o.rounds[r][i])}
      badP == {x \in R \X (1..n) \X (1..Len(in.agents)) :
                 o.sat[x[1]][x[2]][x[3]] /\ ~Sat(AttrMap(in.agents[x[3]]), ShExpected(in, x[2]))}
      refused == {x \in R \X (1..n) \X (1..Len(in.agents)) :
                 ~o.sat[x[1]][x[2]][x[3]] /\ Sat(AttrMap(in.agents[x[3]]), ShExpected(in, x[2]))}
      pat(B) == IF B = {} THEN "-" ELSE IF \E x \in B : x[1] = 1 THEN "within one deployment" ELSE "only in a later deployment"
  IN /\ Drift(/\ Len(o.role) = n /\ \A i \in 1..n : o.role[i] = Merged(<<in.root, in.descs[i][1], in.descs[i][2]>>)
              /\ Len(o.rounds) = in.rounds
              /\ \A r \in R : Len(o.rounds[r]) = n /\ \A i \in 1..n :
                    /\ o.rounds[r][i] = ShExpected(in, i)
                    /\ \A k \in 1..Len(in.agents) : o.sat[r][i][k] = SatImpl(AttrMap(in.agents[k]), ShExpected(in, i))
              /\ o.class_after = in.class,
              <<"SharedClass", in, o>>)
     /\ Obs("SatisfyingAgentRefused", refused = {}, <<in.class, in.root, in.descs, refused>>)
     /\ nviol' = nviol
          + Soft("ConstraintsPerDescriptor", badC = {},
                 <<pat(badC), badC, in.class, in.root, in.descs, o.rounds>>)
          + Soft("PlacedOnlyWhereSatisfied", badP = {}, <<pat(badP), badP, in.class, in.root, in.descs>>)

PureChain ==
  LET in == Line.in
      chain == ChainOf(in)
      eff == Merged(chain)
      n == Len(in.agents)
      badAgents == {k \in 1..n : Line.out.sat[k] /\ ~Sat(AttrMap(in.agents[k]), eff)}
      pat == IF badAgents = {} THEN "-"
             ELSE LET k == CHOOSE k \in badAgents : TRUE IN
                  IF Line.out.final = eff THEN SatPattern(AttrMap(in.agents[k]), eff, TRUE) ELSE "merged constraints differ"
  IN /\ Drift(/\ Line.out.role = Merged(in.levels)
              /\ Line.out.final = eff
              /\ Len(Line.out.sat) = n
              /\ \A k \in 1..n : Line.out.sat[k] = SatImpl(AttrMap(in.agents[k]), eff),
              <<"RoleChain", in, Line.out>>)
     /\ nviol' = nviol
          + Soft("NearestWins", NearestWins(in.levels, Line.out.role) /\ NearestWins(chain, Line.out.final),
                 <<"chain", in.levels, in.class, Line.out.role, Line.out.final>>)
          + Soft("SatAllConstraints", badAgents = {}, <<pat, chain, badAgents>>)

PureFits ==
  LET in == Line.in
      ideal == Fits(IdealRes(in.res), IdealWant(in.want))
  IN /\ Drift(Line.out = FitsImpl(ResOf(in.res), WantOf(in.want)), <<"ResSatisfy", in, Line.out>>)
     /\ Obs("FitsRejectsFitting", ideal => Line.out,
            <<IF ~in.res.hascpu \/ ~in.res.hasmem THEN "offer without a cpus or mem resource (template wants 0 of it)"
              ELSE IF IdealRes(in.res).ports = IdealWant(in.want).static /\ Len(in.res.ports) > 0 THEN "static ports equal the offered ports"
              ELSE IF Len(in.res.ports) = 0 THEN "offer without ports"
              ELSE IF in.want.ipc > 0 THEN "ipc channels counted as ports" ELSE "other", in>>)
     /\ nviol' = nviol + Soft("FitsCovers", Line.out => ideal, <<"accepted", in>>)

PureParse ==
  LET e == Line.in.expr
      p == ParseRanges(e)
      q == ParseRangesImpl(e)
      o == Line.out
      alt == ParseRangesWith(TRUE, e)
      asWritten(ok, ranges) == (p.ok => (ok => ranges = p.ranges)) /\ (~p.ok => ~ok)
      pat(ok, ranges) == IF ok = alt.ok /\ ranges = alt.ranges THEN "range end read from the begin field" ELSE "other"
  IN /\ Drift(o.ok = q.ok /\ o.ranges = q.ranges /\ o.yaml_ok = q.ok /\ o.yaml_ranges = q.ranges, <<"ParseRanges", e, o>>)
     /\ Obs("ParseRejectsWellFormed", p.ok => o.ok /\ o.yaml_ok, e)
     /\ nviol' = nviol
          + Soft("RangesAsWritten", asWritten(o.ok, o.ranges), <<pat(o.ok, o.ranges), e, o.ranges>>)
          + Soft("RangesAsWritten", asWritten(o.yaml_ok, o.yaml_ranges) \/ ~asWritten(o.ok, o.ranges),
                 <<"yaml:" \o pat(o.yaml_ok, o.yaml_ranges), e, o.yaml_ranges>>)

TPure ==
  /\ l <= Len(Trace) /\ Line.ev = "Pure"
  /\ CASE Line.fn = "Satisfy" -> PureSatisfy
       [] Line.fn = "MergeParent" -> PureMerge
       [] Line.fn = "RoleChain" -> PureChain
       [] Line.fn = "SharedClass" -> PureShared
       [] Line.fn = "ResSatisfy" -> PureFits
       [] Line.fn = "ParseRanges" -> PureParse
       [] OTHER -> Drift(FALSE, <<"unknown fn", Line.fn>>) /\ nviol' = nviol
  /\ l' = l + 1 /\ UNCHANGED <<c, rd, mode, mon>>

(***************************************************************************)
(* Round lines                                                              *)
(***************************************************************************)
RECURSIVE SetToSortedStrings(_)
SetToSortedStrings(S) ==   \* only used on the kinds of P3: any fixed order will do
  IF S = {} THEN <<>>
  ELSE LET x == IF "a static port that was not offered" \in S THEN "a static port that was not offered"
                ELSE IF "not-offered" \in S THEN "not-offered" ELSE IF "repeated" \in S THEN "repeated" ELSE CHOOSE y \in S : TRUE
       IN <<x>> \o SetToSortedStrings(S \ {x})

NoMon == [open |-> FALSE, scn |-> -1, offers |-> <<>>, descs |-> <<>>, accepts |-> <<>>, declined |-> {}]

\* input/outcome classes of the failures, for the signatures of known findings
P1Pattern(m) ==
  LET B == P1Bad(m.offers, m.descs, m.accepts)
      x == CHOOSE x \in B : TRUE
      o == ById(m.offers, x[2])
      d == ById(m.descs, x[1])
  IN IF B = {} THEN "-"
     ELSE IF ~Sat(o.attrs, DescCts(d)) THEN SatPattern(o.attrs, DescCts(d), TRUE)
     ELSE "resources do not cover the template"
\* class of a task whose ports are not what P2 asks for.  A shortage of ports (fewer requested than used) can come from a
\* dynamic/control port falling on a static port only if the template has static ports in the dynamic range
P2Short == "a dynamic or control port coincides with a static port"
P2Clash == "fewer ports requested than one per TCP channel plus the control port: not pairwise distinct (no static port involved)"
P2NotAsWritten == "static range not requested as written"
P2Class(d, t) ==
  LET static == PortSet(DescStatic(d))
      extra == TaskPorts(t) \ static
      short == \/ Cardinality(extra) < d.tcp_inbound + DescCtl(d)
               \/ (HasF(t, "control") /\ d.controllable /\ t.control \notin static /\ Cardinality(extra \ {t.control}) < d.tcp_inbound)
  IN IF ~(static \subseteq TaskPorts(t)) THEN P2NotAsWritten
     ELSE IF short THEN (IF \E p \in static : p >= DataPortMin THEN P2Short ELSE P2Clash)
     ELSE "other"
P2BadOf(m, pat) ==
  {TaskAt(m.accepts, ij).desc : ij \in
     {ij \in Known(m.offers, m.descs, m.accepts) :
        LET t == TaskAt(m.accepts, ij) d == ById(m.descs, t.desc) IN ~P2TaskOK(d, t) /\ P2Class(d, t) = pat}}
KindsOf(B) == {x[1] : x \in B}
P4Pattern(m) ==
  LET Kn == KindsOf(P4Bad(m.offers, m.descs, m.accepts)) IN
  IF Kn = {} THEN "-" ELSE IF Kn \subseteq {"cpu", "mem"} THEN "sum of the requests exceeds the offer" ELSE "a task requests less than its template wants"
\* the checks of a closing round; withP5 = FALSE when the round ended in a panic
CloseViol(m, withP5) ==
    Soft("P0_KnownIds", P0Bad(m.offers, m.descs, m.accepts) = {}, <<"-", P0Bad(m.offers, m.descs, m.accepts)>>)
  + Soft("P1_ConstraintsAndResources", P1Bad(m.offers, m.descs, m.accepts) = {}, <<P1Pattern(m), P1Bad(m.offers, m.descs, m.accepts)>>)
  \* one record per class of failure, so that a known class never hides another one in the same round
  + Soft("P2_TaskPorts", P2BadOf(m, P2NotAsWritten) = {}, <<P2NotAsWritten, P2BadOf(m, P2NotAsWritten)>>)
  + Soft("P2_TaskPorts", P2BadOf(m, P2Short) = {}, <<P2Short, P2BadOf(m, P2Short)>>)
  + Soft("P2_TaskPorts", P2BadOf(m, P2Clash) = {}, <<P2Clash, P2BadOf(m, P2Clash)>>)
  + Soft("P2_TaskPorts", P2BadOf(m, "other") = {}, <<"other", P2BadOf(m, "other")>>)
  + Soft("P3_PortsOfferedAndDistinct", P3Bad(m.offers, m.descs, m.accepts) = {},
         <<JoinR(SetToSortedStrings(KindsOf(P3Bad(m.offers, m.descs, m.accepts))), "+"), P3Bad(m.offers, m.descs, m.accepts)>>)
  + Soft("P4_OfferNotExceeded", P4Bad(m.offers, m.descs, m.accepts) = {}, <<P4Pattern(m), P4Bad(m.offers, m.descs, m.accepts)>>)
  + (IF withP5 THEN Soft("P5_UnusedDeclined", P5Bad(m.offers, m.accepts, m.declined) = {}, <<"-", P5Bad(m.offers, m.accepts, m.declined)>>) ELSE 0)

\* a round left open (no Verdict / Panic) is a harness error, reported as such
OpenLeft == IF mon.open THEN PrintT(<<"OPENROUND", mon.scn, l>>) ELSE TRUE

TRound ==
  /\ l <= Len(Trace) /\ Line.ev = "Round"
  /\ OpenLeft
  /\ mon' = [open |-> TRUE, scn |-> Line.scn, offers |-> Line.offers, descs |-> Line.descs, accepts |-> <<>>, declined |-> {}]
  /\ rd' = RoundStart(Line.offers, Line.descs, IF Has("exec") THEN Line.exec ELSE NoExec)
  /\ mode' = "ok"
  /\ l' = l + 1 /\ UNCHANGED <<c, nviol>>

\* Conformance of a round is judged when it closes and does not depend on the order in which the
\* ACCEPT calls reached the master (the per-offer sections of the handler run under a mutex in an order
\* of their own, each sends its ACCEPT after leaving it): the recorded round must be the outcome of
\* the implementation-shaped model for SOME order of the offers.  ACCEPTs without operations are ignored.
RecAccepts(accepts) ==
  {<<accepts[i].offer, [j \in 1..Len(accepts[i].tasks) |->
        <<accepts[i].tasks[j].desc, accepts[i].tasks[j].cpu, accepts[i].tasks[j].mem, Range(accepts[i].tasks[j].ports)>>]>> :
     i \in {i \in 1..Len(accepts) : Len(accepts[i].tasks) > 0}}
ModAccepts(accepts) ==
  {<<accepts[i].offer, [j \in 1..Len(accepts[i].tasks) |->
        <<accepts[i].tasks[j].desc, accepts[i].tasks[j].cpu, accepts[i].tasks[j].mem, accepts[i].tasks[j].portset>>]>> :
     i \in {i \in 1..Len(accepts) : Len(accepts[i].tasks) > 0}}
Orders == Perms(Ids(rd.offers))
ClosedLike(e) ==
  /\ e.pc = "done"
  /\ RecAccepts(mon.accepts) = ModAccepts(e.accepts)
  /\ mon.declined = e.declined
RoundConforms == rd.pc = "offers" /\ \E ord \in Orders : ClosedLike(FinalOf(rd, ord))
VerdictConforms ==
  /\ rd.pc = "offers"
  /\ \E ord \in Orders :
       LET e == FinalOf(rd, ord) IN
       /\ ClosedLike(e)
       /\ Range(Line.deployed) = Deployed(e)
       /\ Range(Line.undeployed) = Range(e.todo)
       /\ Range(Line.undeployable) = Range(e.undep)
PanicConforms ==
  /\ rd.pc = "offers"
  /\ \E ord \in Orders :
       LET e == FinalOf(rd, ord) IN
       e.pc = "panic" /\ RecAccepts(mon.accepts) \subseteq ModAccepts(e.accepts)

TAccept ==
  /\ l <= Len(Trace) /\ Line.ev = "Accept"
  /\ mon' = [mon EXCEPT !.accepts = Append(@, [offer |-> Line.offer, tasks |-> Line.tasks])]
  /\ l' = l + 1 /\ UNCHANGED <<c, rd, mode, nviol>>

TDecline ==
  /\ l <= Len(Trace) /\ Line.ev = "Decline"
  /\ mon' = [mon EXCEPT !.declined = @ \cup Range(Line.offers)]
  /\ l' = l + 1 /\ UNCHANGED <<c, rd, mode, nviol>>

TVerdict ==
  /\ l <= Len(Trace) /\ Line.ev = "Verdict"
  /\ nviol' = nviol + (IF mon.open THEN CloseViol(mon, TRUE) ELSE 0)
  /\ mon' = NoMon
  /\ IF mode = "ok" THEN Drift(VerdictConforms, <<"Round", mon.accepts, mon.declined, Line.deployed, Line.undeployed, Line.undeployable>>) ELSE TRUE
  /\ mode' = "idle"
  /\ l' = l + 1 /\ UNCHANGED <<c, rd>>

\* end of a round without the core's own verdict (whole-core simulation: the next OFFERS event or the end of the scenario)
TRoundEnd ==
  /\ l <= Len(Trace) /\ Line.ev = "RoundEnd"
  /\ nviol' = nviol + (IF mon.open THEN CloseViol(mon, TRUE) ELSE 0)
  /\ mon' = NoMon
  /\ IF mode = "ok" THEN Drift(RoundConforms, <<"Round", mon.accepts, mon.declined>>) ELSE TRUE
  /\ mode' = "idle"
  /\ l' = l + 1 /\ UNCHANGED <<c, rd>>

\* input class of a panic: the offers of the round cannot give every descriptor they admit its data ports (>= 9000)
\* and a control port (>= 30000) - which Resources.Satisfy does not look at
PortClassShortage(m) ==
  \E i \in 1..Len(m.offers) :
    LET o == m.offers[i]
        adm(d) == (Sat(o.attrs, DescCts(d)) \/ SatLastOnly(o.attrs, DescCts(d))) /\ d.cpu <= o.cpus /\ d.mem <= o.mem
        nctl == SumSeq([j \in 1..Len(m.descs) |-> IF adm(m.descs[j]) THEN 1 ELSE 0])
        ndata == SumSeq([j \in 1..Len(m.descs) |-> IF adm(m.descs[j]) THEN 1 + m.descs[j].tcp_inbound ELSE 0])
        P == PortSet(o.ports)
    IN nctl > Cardinality({p \in P : p >= CtlPortMin}) \/ ndata > Cardinality({p \in P : p >= DataPortMin})

TPanic ==
  /\ l <= Len(Trace) /\ Line.ev = "Panic"
  /\ nviol' = nviol + Soft("NoPanic", FALSE,
                            <<IF mon.open /\ PortClassShortage(mon) THEN "offer short of ports >= 9000 / >= 30000 for the descriptors it admits"
                              ELSE "other", IF Has("what") THEN Line.what ELSE "">>)
                    + (IF mon.open THEN CloseViol(mon, FALSE) ELSE 0)
  /\ mon' = NoMon
  /\ IF mode = "ok" THEN Drift(PanicConforms, <<"Panic", mon.accepts>>) ELSE TRUE
  /\ mode' = "idle"
  /\ l' = l + 1 /\ UNCHANGED <<c, rd>>

TReset ==
  /\ l <= Len(Trace) /\ Line.ev = "Reset"
  /\ l' = l + 1 /\ UNCHANGED <<c, rd, mode, mon, nviol>>

TraceInit ==
  /\ c = NoCase /\ rd = NoRound
  /\ l = 1 /\ mode = "idle" /\ mon = NoMon /\ nviol = 0

TPurePanic ==
  /\ l <= Len(Trace) /\ Line.ev = "PurePanic"
  /\ nviol' = nviol + Soft("NoPanic", FALSE, <<"pure function panicked", Line.fn, Line.what>>)
  /\ l' = l + 1 /\ UNCHANGED <<c, rd, mode, mon>>

TraceNext == TPure \/ TPurePanic \/ TRound \/ TAccept \/ TDecline \/ TVerdict \/ TRoundEnd \/ TPanic \/ TReset

TraceSpec == TraceInit /\ [][TraceNext]_allvars

\* acceptance: the whole file was consumed
Done == l = Len(Trace) + 1
PrintEnd == Done => (OpenLeft /\ PrintT(<<"END", Len(Trace), nviol>>))
=============================================================================
