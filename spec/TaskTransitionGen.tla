------------------------- MODULE TaskTransitionGen -------------------------
(* Case generator for TaskTransition: every initial state of the model is a  *)
(* case (workflow shape x criticality x event x outcome vector); absent      *)
(* tasks are canonicalised. TLC prints each case with the verdict the model  *)
(* predicts for the tree as described by the deviation constants.            *)
EXTENDS TaskTransition

GenInit ==
  /\ Init
  /\ \A t \in Tasks : t \notin present => (~crit[t] /\ outcome[t] = "ok")
GenSpec == GenInit /\ [][FALSE]_vars
PrintCase == PrintT(<<"CASE", present, crit, event, outcome, Verdict(present, crit, event, outcome), AllCritOk>>)
=============================================================================
