------------------------- MODULE EventWriterTrace -------------------------
(***************************************************************************)
(* Trace specification binding spec/EventWriter.tla to recorded executions *)
(* of the real common/event.KafkaWriter (harness/cmd/eventwriter).          *)
(*                                                                         *)
(* One TLC run validates many recorded runs (separated by "Reset" lines)    *)
(* and does two things at once:                                            *)
(*  - conformance (strict): every recorded step must be the EventWriter     *)
(*    action it names, and the projection of the implementation state      *)
(*    recorded after the step (park points of the two loops, buffer length, *)
(*    batches handed to the broker, Close returned) must equal the model's *)
(*    next state.  A mismatch prints a DRIFT record and validation of that  *)
(*    run continues in "lost" mode (model state frozen) until the next      *)
(*    Reset;                                                               *)
(*  - the monitor: independent of the model state, the property formulas    *)
(*    are evaluated on the recorded facts at every line; a failure prints a *)
(*    VIOL record (soft invariant) and validation goes on.                  *)
(***************************************************************************)
EXTENDS EventWriter, Integers, Json, IOUtils

Trace == ndJsonDeserialize(IOEnv.TRACE_FILE)

VARIABLES l,      \* next line of Trace
          mode,   \* "ok" | "lost"
          scn,    \* current scenario id
          macc,   \* monitor: accepted events per producer (Write calls issued)
          mdel,   \* monitor: flat sequence of events handed to the broker
          nviol   \* number of soft violations so far

tvars == <<l, mode, scn, macc, mdel, nviol>>
allvars == <<vars, tvars>>

Line == Trace[l]
Has(f) == f \in DOMAIN Line

Items(b) == [i \in 1..Len(b) |-> <<b[i].p, b[i].n>>]
RECURSIVE FlattenB(_)
FlattenB(bs) == IF Len(bs) = 0 THEN <<>> ELSE Items(bs[1]) \o FlattenB(SubSeq(bs, 2, Len(bs)))
NewBatches == IF Has("newb") THEN [i \in 1..Len(Line.newb) |-> Items(Line.newb[i])] ELSE <<>>

(* --- soft invariants --- *)
Soft(name, cond, detail) ==
  IF cond THEN 0
  ELSE IF PrintT(<<"VIOL", name, scn, l, detail>>) THEN 1 ELSE 1

OfM(p, s) == SelectSeq(s, LAMBDA e : e[1] = p)
InOrderOnce(acc, del) ==
  \A p \in DOMAIN acc :
    LET d == OfM(p, del) IN
      /\ Len(d) <= acc[p]
      /\ \A i \in 1..Len(d) : d[i] = <<p, i>>
KnownProducers(del) == \A i \in 1..Len(del) : del[i][1] \in Producers
AllDelivered(acc, del) == \A p \in DOMAIN acc : Len(OfM(p, del)) = acc[p]

(* --- model step named by the line --- *)
ModelAct ==
  LET a == Line.ev IN
  CASE a = "Write" -> Write(Line.p) /\ prod'[Line.p] = Line.n
    [] a = "BatchRecv" -> BatchRecv
    [] a = "BatchPush" -> BatchPush
    [] a = "BatchSeesClosed" -> BatchSeesClosed
    [] a = "BatchSignal" -> BatchSignal
    [] a = "BatchRelease" -> BatchRelease
    [] a = "BatchExit" -> BatchExit
    [] a = "WriterSelectDone" -> WriterSelectDone
    [] a = "WriterSelectDefault" -> WriterSelectDefault
    [] a = "WriterPopEnter" -> WriterPopEnter
    [] a = "WriterWake" -> WriterWake
    [] a = "BrokerAck" -> BrokerAck
    [] a = "WriterExit" -> WriterExit
    [] a = "CloseBegin" -> CloseBegin
    [] a = "CloseEnd" -> CloseEnd
    [] OTHER -> FALSE

\* projection of the implementation state recorded after the step = model's next state
ObsMatchNext ==
  /\ Line.parksok
  /\ CASE Line.wpc = "none" -> wpc' \in {"wait", "exited"}
       [] Line.wpc = "skip" -> woken'       \* writer waking up concurrently: not observed
       [] OTHER -> wpc' = Line.wpc
  /\ CASE Line.bpc = "none" -> bpc' \in {"idle", "exited"}
       \* the batching loop receives / notices the close on its own: it may be one such step ahead
       [] Line.bpc = "recv" -> bpc' = "recv" \/ (bpc' = "idle" /\ chan' # <<>>)
       [] Line.bpc = "closed" -> bpc' = "closed" \/ (bpc' = "idle" /\ chan' = <<>> /\ chClosed')
       [] OTHER -> bpc' = Line.bpc
  /\ (Line.buflen = -1 \/ Len(buf') = Line.buflen)
  /\ delivered' = delivered \o NewBatches
  \* Close returns on its own once both loops are gone: the observation may be that step ahead
  /\ IF Line.closed THEN cpc' = "returned" \/ (cpc' = "waiting" /\ bpc' = "exited" /\ wpc' = "exited")
                    ELSE cpc' # "returned"
  /\ (Line.ev = "Write" => Line.returned)

Matched == ModelAct /\ ObsMatchNext

IsStep == Line.ev \notin {"Reset", "FreeRunEnd"}

MonitorStep ==
  LET acc2 == IF Line.ev = "Write"
                THEN [p \in DOMAIN macc \cup {Line.p} |->
                        (IF p \in DOMAIN macc THEN macc[p] ELSE 0) + (IF p = Line.p THEN 1 ELSE 0)]
                ELSE macc
      del2 == mdel \o FlattenB(IF Has("newb") THEN Line.newb ELSE <<>>)
      nb   == NewBatches
  IN /\ macc' = acc2
     /\ mdel' = del2
     /\ nviol' = nviol
          + Soft("OnceInOrder", InOrderOnce(acc2, del2) /\ KnownProducers(del2), <<acc2, del2>>)
          + Soft("BatchBound", \A i \in 1..Len(nb) : Len(nb[i]) \in 1..MaxBatch, nb)
          + Soft("SameKey", Line.keysok, Line.ev)
          + Soft("FlushOnClose", Line.closed => AllDelivered(acc2, del2), <<acc2, del2>>)
          + Soft("ProducersNeverWaitForBroker",
                 (Line.ev = "Write" /\ mode = "ok" /\ Len(chan) < ChanCap) => Line.returned, Line.p)

TStepOk ==
  /\ l <= Len(Trace) /\ IsStep /\ mode = "ok"
  /\ Matched
  /\ MonitorStep
  /\ l' = l + 1 /\ UNCHANGED <<mode, scn>>

TStepDrift ==
  /\ l <= Len(Trace) /\ IsStep /\ mode = "ok"
  /\ ~ENABLED Matched
  /\ PrintT(<<"DRIFT", scn, l, Line.ev>>)
  /\ MonitorStep
  /\ mode' = "lost" /\ l' = l + 1 /\ UNCHANGED <<vars, scn>>

TStepLost ==
  /\ l <= Len(Trace) /\ IsStep /\ mode = "lost"
  /\ MonitorStep
  /\ l' = l + 1 /\ UNCHANGED <<vars, mode, scn>>

TReset ==
  /\ l <= Len(Trace) /\ Line.ev = "Reset"
  /\ prod' = [p \in Producers |-> 0]        \* EventWriter!Init on the primed variables
  /\ chan' = <<>> /\ chClosed' = FALSE /\ buf' = <<>>
  /\ bpc' = "idle" /\ held' = None
  /\ wpc' = "select" /\ woken' = FALSE /\ batch' = <<>> /\ draining' = FALSE
  /\ doneSig' = FALSE /\ cpc' = "none" /\ delivered' = <<>>
  /\ mode' = "ok" /\ scn' = Line.scn /\ macc' = <<>> /\ mdel' = <<>>
  /\ l' = l + 1 /\ UNCHANGED nviol

\* end of a run: everything ungated, Close called; facts about the whole run
TFreeRunEnd ==
  /\ l <= Len(Trace) /\ Line.ev = "FreeRunEnd"
  /\ LET acc == Line.accepted
         del == Items(Line.flat)
     IN nviol' = nviol
          + (IF Has("prodret") THEN 0
             ELSE Soft("OnceInOrder", InOrderOnce(acc, del), <<"end", acc, del>>)
                  + Soft("FlushOnClose", Line.closed => AllDelivered(acc, del), <<"end", acc, del>>))
          + Soft("BatchBound", Line.maxbatch <= MaxBatch, <<"end", Line.maxbatch>>)
          + Soft("SameKey", Line.keysok, "end")
          \* a flood against a stalled broker (judged on counts, the item list is not logged)
          + (IF Has("prodret")
               THEN Soft("ProducersNeverWaitForBroker", Line.prodret, <<"end", "stalled broker">>)
                    + Soft("OnceInOrder", Line.inorder /\ \A p \in DOMAIN Line.ndel : Line.ndel[p] <= acc[p], <<"end", acc, Line.ndel>>)
                    + Soft("FlushOnClose", Line.closed => \A p \in DOMAIN acc : Line.ndel[p] = acc[p], <<"end", acc, Line.ndel>>)
               ELSE 0)
  /\ l' = l + 1 /\ UNCHANGED <<vars, mode, scn, macc, mdel>>

TraceInit ==
  /\ Init
  /\ l = 1 /\ mode = "lost" /\ scn = -1 /\ macc = <<>> /\ mdel = <<>> /\ nviol = 0

TraceNext == TStepOk \/ TStepDrift \/ TStepLost \/ TReset \/ TFreeRunEnd

TraceSpec == TraceInit /\ [][TraceNext]_allvars

\* acceptance: the whole file was consumed
Done == l = Len(Trace) + 1
PrintEnd == Done => PrintT(<<"END", Len(Trace), nviol>>)
TraceAccepted == TLCGet("stats").diameter - 1 = Len(Trace)
=============================================================================
