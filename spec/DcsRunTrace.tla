---------------------------- MODULE DcsRunTrace -----------------------------
(***************************************************************************)
(* Trace specification for DcsRun (X05) over runs of the real DCS plugin    *)
(* against the fake DCS gateway (harness/cmd/dcsrun).  Lines (lib/props/    *)
(* X05.py joins the gateway's Req line with the driver's Open line, and the  *)
(* End line with the Ret line that follows it):                              *)
(*   Reset{scn, dets, other}                                                 *)
(*   Hb{d, p, s} / Sc{d, w, v}   an event of the Subscribe stream            *)
(*   Ecs{a, e, r}                NewRun | EndRun | GoError | Destroy          *)
(*   Open{e, fn, op, run, dets}  the request reached the gateway, the hook    *)
(*                               waits for the first event                    *)
(*   Ev{e, d, s}                 the hook has taken a stream event            *)
(*   Ret{e, fn, sent, f, how, failed, named, c}  the hook returned            *)
(*   Obs{pend, stray, inrun, avail, ss, cerr}   after every step              *)
(*   Mismatch{why} / Fin                                                     *)
(* Conformance (strict): every line must be the model action it names and     *)
(* every observation must equal the model's state, else DRIFT and the run is  *)
(* lost until the next Reset.  Monitor: the properties are evaluated on the   *)
(* RECORDED facts only (variable mon) as soft invariants: VIOL; a failure     *)
(* that a Code_* constant explains (the code as it is) is printed as OBS.     *)
(***************************************************************************)
EXTENDS DcsRun, Integers, Json, IOUtils

Trace == ndJsonDeserialize(IOEnv.TRACE_FILE)

VARIABLES l, scn, drifted, nviol, ndrift, mon
tvars == <<l, scn, drifted, nviol, ndrift, mon>>
Line == Trace[l]

Chk(name, cond, exempt, detail) ==
  IF cond THEN 0 ELSE IF exempt THEN (IF PrintT(<<"OBS", name, scn, l, detail>>) THEN 0 ELSE 0)
  ELSE IF PrintT(<<"VIOL", name, scn, l, detail>>) THEN 1 ELSE 1
Drift(detail) == PrintT(<<"DRIFT", scn, l, detail>>)
SeqSet(s) == {s[i] : i \in 1..Len(s)}

(* ------------------------------ conformance ------------------------------ *)
How(h) == IF h = "ctmo" THEN "tmo" ELSE h
Cont == IF Line.c = "err" THEN "err" ELSE "go"
Fault == IF Line.f = "fail" THEN "fail" ELSE "ok"
ObsMatch ==
  /\ Line.stray = 0
  /\ \A e \in Envs : /\ Line.pend[e] = pend[e]
                     /\ Line.ss[e] = (ph[e] # "gone" /\ SorSuccessful(e))
                     /\ Line.cerr[e] = (IF Idle(e) THEN "none" ELSE IF call[e].err THEN "fail" ELSE "ok")
  /\ \A d \in AllDets : /\ Line.inrun[d] = inrun[d]
                        /\ IF d \in known THEN Line.avail[d] = <<apfr[d], asor[d]>> ELSE Line.avail[d] = <<"unknown", "unknown">>

Explained ==
  CASE Line.ev = "Hb" -> Heartbeat(Line.d, Line.p, Line.s)
    [] Line.ev = "Sc" -> StateChange(Line.d, Line.w, Line.v)
    [] Line.ev = "Ecs" ->
         (CASE Line.a = "NewRun" -> NewRun(Line.e) /\ rn'[Line.e] = Line.r
            [] Line.a = "EndRun" -> EndRun(Line.e)
            [] Line.a = "GoError" -> GoError(Line.e)
            [] Line.a = "Destroy" -> Destroy(Line.e)
            [] OTHER -> FALSE)
    [] Line.ev = "Open" -> /\ Open(Line.e, Line.fn, "ok", "go")
                           /\ last'.kind = "open" /\ last'.op = Line.op /\ last'.run = Line.run /\ last'.req = SeqSet(Line.dets)
    [] Line.ev = "Ev" -> Event(Line.e, Line.d, Line.s)
    [] Line.ev = "Ret" ->
         IF Line.sent
           THEN /\ End(Line.e, How(Line.how), Cont)
                /\ last'.fn = Line.fn /\ last'.ok = ~Line.failed /\ last'.named = SeqSet(Line.named)
           ELSE /\ Open(Line.e, Line.fn, Fault, Cont)
                /\ last'.kind = "noreq" /\ last'.ok = ~Line.failed /\ last'.named = SeqSet(Line.named)
    [] Line.ev = "Obs" -> ObsMatch /\ UNCHANGED vars
    [] Line.ev = "Fin" -> UNCHANGED vars
    [] OTHER -> FALSE

(* ------------------------------ monitor (recorded facts only) ------------------------------ *)
NoneSt == [d \in AllDets |-> "none"]
MonInit(ds) ==
  [dets |-> ds,                                   \* dcs_detectors per environment
   live |-> Envs, idle |-> Envs,
   req |-> [e \in Envs |-> {}], op |-> [e \in Envs |-> "none"], run |-> [e \in Envs |-> 0],
   st |-> [e \in Envs |-> NoneSt],                \* last word of each detector on the environment's open stream
   reqbad |-> [e \in Envs |-> {}],                \* requested detectors that sent a failure-class event on it
   forbad |-> [e \in Envs |-> {}],                \* other detectors that did
   pend |-> [e \in Envs |-> 0], inrun |-> [d \in AllDets |-> 0], apfr |-> [d \in AllDets |-> "null"], asor |-> [d \in AllDets |-> "null"],
   nofail |-> TRUE, forgot |-> {}, cleared |-> {}, eors |-> {}, sorok |-> [e \in Envs |-> FALSE], cleaned |-> NoEnv]
EnvDets(e) == SeqSet(mon.dets[e])

MonOpen ==
  LET e == Line.e
      ds == SeqSet(Line.dets)
      sordets == {d \in AllDets : Line.run # 0 /\ mon.inrun[d] = Line.run}
      v == Chk("RequestWithinEnv", ds \subseteq EnvDets(e), FALSE, <<e, Line.op, ds>>)
         + (IF Line.op = "PFR"
              THEN Chk("PfrSkipsUnavailableOnly", ds = {d \in EnvDets(e) : mon.apfr[d] # "no"}, FALSE, <<e, ds, mon.apfr>>) ELSE 0)
         + (IF Line.op = "SOR"
              THEN Chk("SorGate", ds = EnvDets(e) /\ \A d \in ds : mon.asor[d] # "no", FALSE, <<e, ds, mon.asor>>) ELSE 0)
         + (IF Line.op = "EOR"
              THEN Chk("EorMatchesSor", ds = sordets, Code_EorHookUnconditional /\ sordets = {} /\ Line.fn = "EndOfRun", <<e, Line.run, ds, sordets>>)
                   + Chk("NoEorTwice", Line.run \notin mon.eors, FALSE, <<e, Line.run>>)
                   + Chk("EorClearsOwnRunOnly", mon.pend[e] \in {0, Line.run}, Code_EorClearsAnyPending, <<e, Line.run, mon.pend[e]>>)
              ELSE 0)
  IN /\ nviol' = nviol + v
     /\ mon' = [mon EXCEPT !.idle = @ \ {e}, !.req = [@ EXCEPT ![e] = ds], !.op = [@ EXCEPT ![e] = Line.op], !.run = [@ EXCEPT ![e] = Line.run],
                           !.st = [@ EXCEPT ![e] = NoneSt], !.reqbad = [@ EXCEPT ![e] = {}], !.forbad = [@ EXCEPT ![e] = {}],
                           !.eors = IF Line.op = "EOR" THEN @ \cup {Line.run} ELSE @, !.cleaned = NoEnv,
                           !.cleared = IF Line.op = "EOR" /\ mon.pend[e] \notin {0, Line.run} THEN @ \cup {e} ELSE @]

MonEv ==
  LET e == Line.e
      bad == Line.s \in FailClass(mon.op[e])
  IN /\ mon' = IF Line.d = "DCS" \/ e \in mon.idle THEN mon
               ELSE [mon EXCEPT !.st = [@ EXCEPT ![e] = [@ EXCEPT ![Line.d] = Line.s]],
                                !.reqbad = [@ EXCEPT ![e] = IF bad /\ Line.d \in mon.req[e] THEN @ \cup {Line.d} ELSE @],
                                !.forbad = [@ EXCEPT ![e] = IF bad /\ Line.d \notin mon.req[e] THEN @ \cup {Line.d} ELSE @]]
     /\ UNCHANGED nviol

MonRet ==
  LET e == Line.e
      ok == ~Line.failed
      nm == SeqSet(Line.named)
      req == mon.req[e]
      unacked == {d \in req : mon.st[e][d] # "OK"}
      v == IF Line.sent
             THEN Chk("OkImpliesAllAcked", ok => unacked = {}, FALSE, <<e, Line.fn, unacked>>)
                  + Chk("AllAckedImpliesOk", unacked = {} => ok,
                        \/ (Code_FailureEventSticks /\ mon.reqbad[e] # {})
                        \/ (Code_ForeignEventDecides /\ mon.forbad[e] # {}),
                        <<e, Line.fn, mon.reqbad[e], mon.forbad[e]>>)
                  + Chk("UnackedNamed", unacked \subseteq nm, FALSE, <<e, Line.fn, unacked, nm>>)
                  + Chk("FailedDetectorsNamed", ok \/ (mon.reqbad[e] \cup unacked) \subseteq nm, Code_ReasonOverwritten, <<e, Line.fn, mon.reqbad[e], unacked, nm>>)
                  + (IF mon.op[e] = "PFR" THEN Chk("PfrCoversAll", ok => req = EnvDets(e), Code_PfrPartial, <<e, req>>) ELSE 0)
             ELSE 0
      cleaned == Line.fn = "Cleanup" /\ (Line.sent \/ Line.f # "fail")
  IN /\ nviol' = nviol + v
     /\ mon' = [mon EXCEPT !.idle = @ \cup {e},
                           !.nofail = @ /\ ~(~Line.sent /\ Line.f = "fail"),
                           !.forgot = IF Line.fn = "Cleanup" /\ ~Line.sent /\ Line.f = "fail" THEN @ \cup {e} ELSE @,
                           !.sorok = IF Line.fn = "StartOfRun" THEN [@ EXCEPT ![e] = ok] ELSE @,
                           !.cleaned = IF cleaned THEN e ELSE NoEnv]

MonObs ==
  LET stable == mon.live \cap mon.idle
      InRun(e) == {d \in EnvDets(e) : Line.inrun[d] # 0}
      v == Chk("PendingExact",
               mon.nofail => \A e \in stable : /\ (Line.pend[e] # 0 => \A d \in EnvDets(e) : Line.inrun[d] = Line.pend[e])
                                               /\ (Line.pend[e] = 0 => InRun(e) = {}),
               FALSE, <<Line.pend, Line.inrun>>)
         + Chk("NothingForgotten", \A e \in stable : \A d \in InRun(e) : Line.pend[e] = Line.inrun[d],
               \A e \in stable : \/ (\A d \in InRun(e) : Line.pend[e] = Line.inrun[d])
                                  \/ (Code_CleanupForgetsOnOpenFailure /\ e \in mon.forgot) \/ (Code_EorClearsAnyPending /\ e \in mon.cleared),
               <<Line.pend, Line.inrun, mon.forgot>>)
         + (IF mon.cleaned # NoEnv
              THEN Chk("CleanupLeavesNothing", InRun(mon.cleaned) = {},
                       \/ (Code_CleanupForgetsOnOpenFailure /\ mon.cleaned \in mon.forgot)
                       \/ (Code_EorClearsAnyPending /\ mon.cleaned \in mon.cleared),
                       <<mon.cleaned, InRun(mon.cleaned), mon.cleaned \in mon.forgot, mon.cleaned \in mon.cleared>>)
              ELSE 0)
         + Chk("SorSuccessfulTruthful", \A e \in stable : Line.ss[e] => mon.sorok[e],
               Code_SorSuccessfulMeansPending /\ \A e \in stable : Line.ss[e] => (mon.sorok[e] \/ Line.pend[e] # 0), <<Line.ss, mon.sorok>>)
  IN /\ nviol' = nviol + v
     /\ mon' = [mon EXCEPT !.pend = [e \in Envs |-> Line.pend[e]], !.inrun = [d \in AllDets |-> Line.inrun[d]],
                           !.apfr = [d \in AllDets |-> IF Line.avail[d][1] = "unknown" THEN "null" ELSE Line.avail[d][1]],
                           !.asor = [d \in AllDets |-> IF Line.avail[d][2] = "unknown" THEN "null" ELSE Line.avail[d][2]],
                           !.cleaned = NoEnv]

Mon ==
  CASE Line.ev = "Open" -> MonOpen
    [] Line.ev = "Ev" -> MonEv
    [] Line.ev = "Ret" -> MonRet
    [] Line.ev = "Obs" -> MonObs
    [] Line.ev = "Ecs" -> mon' = [mon EXCEPT !.live = IF Line.a = "Destroy" THEN @ \ {Line.e} ELSE @, !.cleaned = NoEnv] /\ UNCHANGED nviol
    [] OTHER -> UNCHANGED <<mon, nviol>>

(* ------------------------------ the trace behaviour ------------------------------ *)
TReset ==
  /\ Line.ev = "Reset"
  /\ scn' = Line.scn /\ drifted' = FALSE /\ mon' = MonInit(Line.dets)
  /\ known' = {} /\ apfr' = [d \in AllDets |-> "null"] /\ asor' = [d \in AllDets |-> "null"] /\ nsub' = 0
  /\ ph' = [e \in Envs |-> "conf"] /\ rn' = [e \in Envs |-> 0] /\ nextrun' = 1 /\ npfr' = [e \in Envs |-> 0]
  /\ pend' = [e \in Envs |-> 0] /\ inrun' = [d \in AllDets |-> 0] /\ call' = [e \in Envs |-> NoCall]
  /\ nf' = 0 /\ nofail' = TRUE /\ sorok' = [e \in Envs |-> FALSE] /\ clean' = [e \in Envs |-> FALSE] /\ eors' = {}
  /\ last' = NoStep
  /\ UNCHANGED <<nviol, ndrift>>

TOk == /\ Line.ev # "Reset" /\ ~drifted /\ Explained /\ Mon /\ UNCHANGED <<scn, drifted, ndrift>>
TDrift == /\ Line.ev # "Reset" /\ ~drifted /\ ~ENABLED Explained
          /\ Drift(<<Line.ev, IF Line.ev = "Obs" THEN <<pend, inrun, known, apfr, asor, [e \in Envs |-> IF Idle(e) THEN "none" ELSE IF call[e].err THEN "fail" ELSE "ok"]>>
                               ELSE IF Line.ev = "Mismatch" THEN <<Line.why>> ELSE <<ph, pend, [e \in Envs |-> call[e].op]>>>>)
          /\ drifted' = TRUE /\ ndrift' = ndrift + 1 /\ Mon /\ UNCHANGED <<vars, scn>>
TLost == /\ Line.ev # "Reset" /\ drifted /\ Mon /\ UNCHANGED <<vars, scn, drifted, ndrift>>

TraceInit == Init /\ l = 1 /\ scn = -1 /\ drifted = FALSE /\ nviol = 0 /\ ndrift = 0 /\ mon = MonInit([e \in Envs |-> <<>>])
TraceNext == l <= Len(Trace) /\ (TReset \/ TOk \/ TDrift \/ TLost) /\ l' = l + 1
TraceSpec == TraceInit /\ [][TraceNext]_<<vars, tvars>>
PrintEnd == (l = Len(Trace) + 1) => PrintT(<<"END", Len(Trace), nviol>>)
=============================================================================
