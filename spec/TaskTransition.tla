--------------------------- MODULE TaskTransition ---------------------------
(***************************************************************************)
(* C02 - a transition succeeds iff every critical task acknowledged it.     *)
(*                                                                         *)
(* Model of the path  environment transition body (transition_*.go: do)     *)
(*   -> taskman message -> Manager.transitionTasks / configureTasks         *)
(*   -> CommandQueue.commit (one goroutine per target) -> Servent           *)
(*   -> consolidateResponses (nil | single | multi)                         *)
(*   -> classification by criticality -> TasksStateChangedEvent             *)
(*   -> FSM tail -> API follow-up (GO_ERROR).                               *)
(* One action per step of that path; the per-target steps interleave.       *)
(*                                                                         *)
(* Deviation constants describe the tree being checked (TRUE = the code     *)
(* deviates from the property in this way; see known_findings.json):        *)
(*  Code_SingleRespIgnoresCritical : with exactly one target the response   *)
(*      is judged without looking at the task's critical trait              *)
(*  Code_ZeroTargetsIsError : with no target START/STOP/RESET get a nil     *)
(*      response and fail                                                   *)
(*  Code_ConfigureWaitsForever : CONFIGURE with no active task sends        *)
(*      nothing and then waits for an answer                                *)
(*  Code_DeployNeedsAllActive : DEPLOY waits for the workflow status        *)
(*      ACTIVE, which needs every task - critical or not - to be running    *)
(* For DEPLOY the per-task "command" is the launch and the "reply" is the   *)
(* task being reported running in time: outcome ok = running, err_src /     *)
(* silent = never reported running, err_error = the launch fails.           *)
(***************************************************************************)
EXTENDS Naturals, FiniteSets, Sequences, TLC

CONSTANTS Tasks,
          Outcomes,   \* subset of {"ok", "err_src", "err_error", "unsendable", "silent", "dies"}
          Code_SingleRespIgnoresCritical,
          Code_ZeroTargetsIsError,
          Code_ConfigureWaitsForever,
          Code_DeployNeedsAllActive

Events == {"DEPLOY", "CONFIGURE", "START", "STOP", "RESET"}
\* "unsendable" (the MESSAGE call itself fails) severs the scheduler's subscription in the pinned
\* mesos-go client and so collapses into the reconnection behaviour of C18; "silent"/"dies" cost the
\* code's real 90/120 s timeouts and are replayed only in the thorough tier.
Src(e) == CASE e = "DEPLOY" -> "STANDBY" [] e = "CONFIGURE" -> "DEPLOYED" [] e = "START" -> "CONFIGURED" [] e = "STOP" -> "RUNNING" [] OTHER -> "CONFIGURED"
Dst(e) == CASE e = "DEPLOY" -> "DEPLOYED" [] e = "CONFIGURE" -> "CONFIGURED" [] e = "START" -> "RUNNING" [] e = "STOP" -> "CONFIGURED" [] OTHER -> "DEPLOYED"

VARIABLES
  crit,      \* [Tasks -> BOOLEAN]  critical trait of each task's role
  present,   \* SUBSET Tasks: tasks of the workflow (all ACTIVE)
  event,     \* the transition under test
  outcome,   \* [Tasks -> Outcomes] scripted behaviour of each task's executor
  pc,        \* "body" | "collect" | "consolidate" | "classify" | "tail" | "followup" | "done" | "hung"
  tstate,    \* per target: "todo" | "sent" | "replied_ok" | "replied_err" | "senderr"
  resp,      \* "none" | "nil" | "single" | "multi"
  bodyErr,   \* the transition body returned an error
  envSt,     \* environment state
  reply      \* what the API caller gets: [st, err] or "none"

vars == <<crit, present, event, outcome, pc, tstate, resp, bodyErr, envSt, reply>>

Init ==
  /\ crit \in [Tasks -> BOOLEAN]
  /\ present \in SUBSET Tasks
  /\ event \in Events
  /\ outcome \in [Tasks -> Outcomes]
  /\ pc = "body"
  /\ tstate = [t \in Tasks |-> "todo"]
  /\ resp = "none" /\ bodyErr = FALSE
  /\ envSt = Src(event)
  /\ reply = "none"

\* transition body: build the message for the ACTIVE tasks, hand it to the task manager
Body ==
  /\ pc = "body"
  /\ IF present = {}
       THEN IF event = "DEPLOY" THEN pc' = "tail"
            ELSE IF event = "CONFIGURE"
              THEN pc' = IF Code_ConfigureWaitsForever THEN "hung" ELSE "tail"
              ELSE pc' = "consolidate"     \* command with an empty target list
       ELSE pc' = "collect"
  /\ UNCHANGED <<crit, present, event, outcome, tstate, resp, bodyErr, envSt, reply>>

\* Servent.RunCommand for one target: register, send
Send(t) ==
  /\ pc = "collect" /\ t \in present /\ tstate[t] = "todo"
  /\ tstate' = [tstate EXCEPT ![t] = IF outcome[t] = "unsendable" THEN "senderr" ELSE "sent"]
  /\ UNCHANGED <<crit, present, event, outcome, pc, resp, bodyErr, envSt, reply>>

\* the executor's answer reaches ProcessResponse
Reply(t) ==
  /\ pc = "collect" /\ t \in present /\ tstate[t] = "sent"
  \* err_*: error reply; silent / dies: the response timeout turns the missing reply into an error response
  /\ tstate' = [tstate EXCEPT ![t] = IF outcome[t] = "ok" THEN "replied_ok" ELSE "replied_err"]
  /\ UNCHANGED <<crit, present, event, outcome, pc, resp, bodyErr, envSt, reply>>

AllCollected == \A t \in present : tstate[t] \in {"replied_ok", "replied_err", "senderr"}

Collected ==
  /\ pc = "collect" /\ AllCollected
  /\ pc' = "consolidate"
  /\ UNCHANGED <<crit, present, event, outcome, tstate, resp, bodyErr, envSt, reply>>

\* consolidateResponses: nil for no target, the response itself for one, a multi-response otherwise
Consolidate ==
  /\ pc = "consolidate"
  /\ resp' = CASE Cardinality(present) = 0 -> "nil"
               [] Cardinality(present) = 1 -> "single"
               [] OTHER -> "multi"
  /\ pc' = "classify"
  /\ UNCHANGED <<crit, present, event, outcome, tstate, bodyErr, envSt, reply>>

Failed(t) == tstate[t] \in {"replied_err", "senderr"}

\* transitionTasks / configureTasks: split errors by criticality (multi-response only)
Classify ==
  /\ pc = "classify"
  /\ bodyErr' =
       CASE event = "DEPLOY" -> (\E t \in present : Failed(t) /\ (crit[t] \/ Code_DeployNeedsAllActive))
         [] resp = "nil" -> Code_ZeroTargetsIsError
         [] resp = "single" ->
              (\E t \in present : Failed(t) /\ (crit[t] \/ Code_SingleRespIgnoresCritical))
         [] OTHER -> \E t \in present : Failed(t) /\ crit[t]
  /\ pc' = "tail"
  /\ UNCHANGED <<crit, present, event, outcome, tstate, resp, envSt, reply>>

\* FSM: body error cancels in leave_state (state unchanged), else the state flips
FsmTail ==
  /\ pc = "tail"
  /\ IF bodyErr THEN /\ pc' = "followup" /\ UNCHANGED <<envSt, reply>>
                ELSE /\ envSt' = Dst(event) /\ pc' = "done" /\ reply' = [st |-> Dst(event), err |-> FALSE]
  /\ UNCHANGED <<crit, present, event, outcome, tstate, resp, bodyErr>>

\* ControlEnvironment / CreateEnvironment: a failed transition is followed by GO_ERROR
Followup ==
  /\ pc = "followup"
  /\ envSt' = "ERROR" /\ reply' = [st |-> "ERROR", err |-> TRUE]
  /\ pc' = "done"
  /\ UNCHANGED <<crit, present, event, outcome, tstate, resp, bodyErr>>

Next == Body \/ (\E t \in Tasks : Send(t) \/ Reply(t)) \/ Collected \/ Consolidate \/ Classify \/ FsmTail \/ Followup
Spec == Init /\ [][Next]_vars

(* ----------------------------- properties ----------------------------- *)
AllCritOk == \A t \in present : crit[t] => outcome[t] = "ok"

\* deviations of the tree as recorded in known_findings.json
KnownDeviation ==
  \/ (Code_SingleRespIgnoresCritical /\ event # "DEPLOY" /\ Cardinality(present) = 1 /\ \E t \in present : ~crit[t] /\ outcome[t] # "ok")
  \/ (Code_DeployNeedsAllActive /\ event = "DEPLOY" /\ \E t \in present : ~crit[t] /\ outcome[t] # "ok")
  \/ (Code_ZeroTargetsIsError /\ present = {} /\ event \notin {"CONFIGURE", "DEPLOY"})
  \/ (Code_ConfigureWaitsForever /\ present = {} /\ event = "CONFIGURE")

\* the destination state is reported iff every critical task acknowledged the command
Iff == pc = "done" => ((reply.st = Dst(event)) <=> AllCritOk) \/ KnownDeviation
\* a failed transition returns an error, never reports the destination and ends in ERROR
FailureIsError == pc = "done" => (~AllCritOk => (reply.err /\ reply.st = "ERROR" /\ envSt = "ERROR"))
\* nothing to command: success at once (never waits)
NothingToCommand == (present = {} /\ pc \in {"done", "hung"}) => ((pc = "done" /\ reply.st = Dst(event)) \/ KnownDeviation)
NeverHung == pc = "hung" => KnownDeviation

TypeOK == pc \in {"body", "collect", "consolidate", "classify", "tail", "followup", "done", "hung"}

\* the verdict the model predicts for a case (used by the trace specification)
Verdict(pres, cr, ev, out) ==
  IF ev = "DEPLOY" THEN
     (IF \E t \in pres : out[t] # "ok" /\ (cr[t] \/ Code_DeployNeedsAllActive) THEN "fail" ELSE "ok")
  ELSE IF pres = {} THEN
     IF ev = "CONFIGURE" THEN (IF Code_ConfigureWaitsForever THEN "hung" ELSE "ok")
     ELSE (IF Code_ZeroTargetsIsError THEN "fail" ELSE "ok")
  ELSE IF Cardinality(pres) = 1 THEN
     (IF \E t \in pres : out[t] # "ok" /\ (cr[t] \/ Code_SingleRespIgnoresCritical) THEN "fail" ELSE "ok")
  ELSE (IF \E t \in pres : out[t] # "ok" /\ cr[t] THEN "fail" ELSE "ok")

\* the model's own behaviours agree with the closed form
VerdictAgrees ==
  pc \in {"done", "hung"} =>
     Verdict(present, crit, event, outcome) = (IF pc = "hung" THEN "hung" ELSE IF reply.err THEN "fail" ELSE "ok")
=============================================================================
