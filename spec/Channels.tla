------------------------------ MODULE Channels ------------------------------
(***************************************************************************)
(* C13 - outbound channels connect to where the matching inbound channel   *)
(* was bound.  FUNCTIONAL model of the channel part of CONFIGURE:          *)
(*   configuration (bind/connect declarations in the role tree and the     *)
(*   task templates) + allocation (ports granted at launch, IPC paths)     *)
(*     |->  what every task is told (chans.NAME.0.FIELD) / rejection.    *)
(*                                                                         *)
(* Code read (AliceO2Group/Control):                                       *)
(*  core/workflow/rolebase.go  CollectInboundChannels/CollectOutbound-     *)
(*      Channels: MergeX(r.Bind, parent.Collect...()) - the nearest level  *)
(*      wins BY NAME, whole declaration (the mergo.Merge in Merge-         *)
(*      Inbound/MergeOutbound writes into a loop copy: no field merge).    *)
(*  core/task/match.go GetWantsForDescriptor, core/task/task.go            *)
(*      BuildPropertyMap: MergeX(role chain, class.Bind/Connect) - the     *)
(*      template level has the lowest priority.                            *)
(*  core/task/taskclass/class.go UnmarshalYAML: the target of a TEMPLATE   *)
(*      level connect declaration is blanked ("will be ignored").          *)
(*  core/task/scheduler.go makeTaskForMesosResources: every effective      *)
(*      inbound channel, in list order, gets NewBoundIpcEndpoint           *)
(*      (addressing ipc) or the smallest remaining offered port >= 9000    *)
(*      (otherwise - also when it has an explicit target); the alias key   *)
(*      "::<global>" is written into the same per-task map (a second       *)
(*      channel of the task with the same alias silently overwrites it).   *)
(*  core/task/manager.go configureTasks: environment bind map              *)
(*      "<role path>:<name>" / "::<alias>" -> ToTargetEndpoint(host of the *)
(*      task); an alias already present with another endpoint => error.    *)
(*  core/task/channel/inbound.go ToFMQMap: explicit tcp:// / ipc:// target *)
(*      is the bind address, else the task's own endpoint in bound form.   *)
(*  core/task/channel/outbound.go ToFMQMap: explicit target passes         *)
(*      through with the outbound's transport; otherwise exact string      *)
(*      match of the target on the bind map keys, address and transport of *)
(*      the endpoint found; no match => error => CONFIGURE fails.          *)
(*                                                                         *)
(* A CASE (JSON friendly: records and sequences only):                     *)
(*  [tasks |-> << [id, host, grp (BOOLEAN: under the aggregator role       *)
(*                 "grp", else not), mode, path (role path below the       *)
(*                 workflow root, for rendering only)] >>,                 *)
(*   inb   |-> << [lvl, name, addr ("tcp"|"ipc"), tr, alias (""=none),     *)
(*                 xt (""|"tcp"|"ipc": explicit bind target)] >>,          *)
(*   outb  |-> << [lvl, name, tk ("path"|"alias"|"xtcp"|"xipc"|"xupper"),   *)
(*                 tt, tn,                                                 *)
(*                 ta, tr] >>]                                             *)
(*   props |-> << [task, name] >>  stale chans.<name>.0.* defaults in the    *)
(*                 `properties:` of the task's template]                     *)
(*  lvl \in {"tmpl:<task>", "role:<task>", "grp", "root"}.                 *)
(* Known deviations of the code (constants, TRUE = tree as it is):         *)
(*  Code_ExplicitInboundAdvertisesDynamic, Code_SameTaskAliasLastWins.     *)
(***************************************************************************)
EXTENDS Integers, Sequences, FiniteSets, TLC

CONSTANTS Code_ExplicitInboundAdvertisesDynamic, Code_SameTaskAliasLastWins

---------------------------------------------------------------------------
\* vocabulary of addresses (the only place where address strings are built)
XTcpPort == 12345
\* (explicit addresses carry upper- and lower-case characters: they must reach the task unchanged)
XAddr(x) == IF x = "tcp" THEN "tcp://*:" \o ToString(XTcpPort) ELSE "ipc:///tmp/C13-Bind/X.sock"   \* explicit bind targets
XScheme(x) == x
OutXAddr(tk) == IF tk = "xtcp" THEN "tcp://Far-Gateway.CERN.ch:7777" ELSE "ipc:///tmp/C13-Conn/Y.sock"   \* explicit connect targets
\* connect target kind "xupper": an address whose SCHEME is spelled in upper case.  outbound.go tests
\* strings.HasPrefix(target, "tcp://") / "ipc://" on the target as written: it is not an explicit
\* address, it is matched against the bind map like a role path, matches nothing => CONFIGURE fails.
OutXUpper == "TCP://Far-Gateway.CERN.ch:7777"
OutXScheme(tk) == IF tk = "xtcp" THEN "tcp" ELSE "ipc"
BoundTcp(p) == "tcp://*:" \o ToString(p)
TargetTcp(h, p) == "tcp://" \o h \o ":" \o ToString(p)
XConnectable(x, h) == IF x = "tcp" THEN TargetTcp(h, XTcpPort) ELSE XAddr(x)

SeqSet(s) == {s[i] : i \in 1..Len(s)}
TaskIds(c) == {c.tasks[i].id : i \in 1..Len(c.tasks)}
TaskRec(c, k) == CHOOSE r \in SeqSet(c.tasks) : r.id = k
HostOf(c, k) == TaskRec(c, k).host

---------------------------------------------------------------------------
\* effective declarations of a task: nearest level wins by name
DeclsAt(s, lvl) == SelectSeq(s, LAMBDA d : d.lvl = lvl)
MergeByName(hp, lp) == hp \o SelectSeq(lp, LAMBDA d : \A i \in 1..Len(hp) : hp[i].name # d.name)
Chain(c, k) == <<"role:" \o k, IF TaskRec(c, k).grp THEN "grp" ELSE "-", "root", "tmpl:" \o k>>
Eff(s, c, k) == LET ch == Chain(c, k)
                IN MergeByName(MergeByName(MergeByName(DeclsAt(s, ch[1]), DeclsAt(s, ch[2])), DeclsAt(s, ch[3])),
                               DeclsAt(s, ch[4]))
EffIn(c, k) == Eff(c.inb, c, k)
\* class.go: the target of a template-level connect declaration is dropped when the class is loaded
EffOut(c, k) == LET e == Eff(c.outb, c, k)
                IN [i \in 1..Len(e) |-> IF e[i].lvl = "tmpl:" \o k THEN [e[i] EXCEPT !.tk = "none"] ELSE e[i]]
InIdx(c, k, n) == {i \in 1..Len(EffIn(c, k)) : EffIn(c, k)[i].name = n}

\* ports a task needs for its channels (scheduler.go: one per non-ipc inbound channel, explicit or not)
NeedPorts(c, k) == Cardinality({i \in 1..Len(EffIn(c, k)) : EffIn(c, k)[i].addr = "tcp"})
PortIdx(c, k, i) == Cardinality({j \in 1..i : EffIn(c, k)[j].addr = "tcp"})

---------------------------------------------------------------------------
\* global aliases
Claims(c, a) == UNION {{<<k, i>> : i \in {j \in 1..Len(EffIn(c, k)) : EffIn(c, k)[j].alias = a}} : k \in TaskIds(c)}
Aliases(c) == UNION {{EffIn(c, k)[i].alias : i \in 1..Len(EffIn(c, k))} : k \in TaskIds(c)} \ {""}
ConflictStrict(c, a) == Cardinality(Claims(c, a)) > 1
ConflictCrossTask(c, a) == \E x, y \in Claims(c, a) : x[1] # y[1]
\* two claims that name the very same explicit address with the same transport
SameExplicit(c, x, y) == LET dx == EffIn(c, x[1])[x[2]]
                             dy == EffIn(c, y[1])[y[2]]
                         IN dx.xt # "" /\ dx.xt = dy.xt /\ dx.tr = dy.tr
Claimers(c, a) == {x[1] : x \in Claims(c, a)}
\* the claim of task k that reaches the environment's bind map (scheduler.go: the task's local map has
\* ONE "::alias" entry, written once per channel in list order - the last one stays)
TaskClaim(c, a, k) == CHOOSE x \in Claims(c, a) : x[1] = k /\ \A y \in Claims(c, a) : y[1] = k => y[2] <= x[2]
\* configureTasks: an alias met again is accepted only if channel.EndpointEquals(existing, new); the
\* existing one is in target form (host filled in), the new one in bound form: equal only for the same
\* IPC path and transport - which can only happen for explicit targets once they are advertised
CrossConflict(c, x, y) == Code_ExplicitInboundAdvertisesDynamic \/ ~(SameExplicit(c, x, y) /\ EffIn(c, x[1])[x[2]].xt = "ipc")
Conflict(c, a) ==
  \/ ~Code_SameTaskAliasLastWins /\ \E x, y \in Claims(c, a) : x # y /\ x[1] = y[1]
  \/ \E k, j \in Claimers(c, a) : k # j /\ CrossConflict(c, TaskClaim(c, a, k), TaskClaim(c, a, j))
\* the claim that holds the alias when there is no conflict (all remaining claims are the same endpoint)
Holder(c, a) == TaskClaim(c, a, CHOOSE k \in Claimers(c, a) : TRUE)

\* <<task, index in EffIn>> an outbound declaration resolves to, <<>> if nothing matches
Resolve(c, o) ==
  CASE o.tk = "path" -> IF o.tt \in TaskIds(c) /\ InIdx(c, o.tt, o.tn) # {}
                          THEN <<o.tt, CHOOSE i \in InIdx(c, o.tt, o.tn) : TRUE>> ELSE <<>>
    [] o.tk = "alias" -> IF Claims(c, o.ta) # {} THEN Holder(c, o.ta) ELSE <<>>
    [] OTHER -> <<>>
IsExplicitOut(o) == o.tk \in {"xtcp", "xipc"}
DanglingOuts(c) == UNION {{<<k, EffOut(c, k)[i].name>> : i \in {j \in 1..Len(EffOut(c, k)) :
                              ~IsExplicitOut(EffOut(c, k)[j]) /\ Resolve(c, EffOut(c, k)[j]) = <<>>}} : k \in TaskIds(c)}

\* outcome of the configuration: configureTasks builds the bind map first (alias check), then the property maps
Outcome(c) == IF \E a \in Aliases(c) : Conflict(c, a) THEN "alias"
              ELSE IF DanglingOuts(c) # {} THEN "nomatch" ELSE "configured"

---------------------------------------------------------------------------
\* allocation (FROM THE OBSERVATION): g[k] = the dynamic ports granted to task k in ascending order,
\* ipc[<<k, name>>] = the address an ipc-addressed inbound channel was told to bind.
LocalAddr(c, g, ipc, k, i) == LET d == EffIn(c, k)[i]
                              IN IF d.addr = "tcp" THEN BoundTcp(g[k][PortIdx(c, k, i)]) ELSE ipc[<<k, d.name>>]
Advertised(c, g, ipc, k, i) ==
  LET d == EffIn(c, k)[i]
  IN IF d.xt # "" /\ ~Code_ExplicitInboundAdvertisesDynamic THEN XConnectable(d.xt, HostOf(c, k))
     ELSE IF d.addr = "tcp" THEN TargetTcp(HostOf(c, k), g[k][PortIdx(c, k, i)]) ELSE ipc[<<k, d.name>>]
AdvertisedScheme(c, k, i) ==
  LET d == EffIn(c, k)[i]
  IN IF d.xt # "" /\ ~Code_ExplicitInboundAdvertisesDynamic THEN XScheme(d.xt) ELSE d.addr

ExpectedIn(c, g, ipc, k) ==
  {LET d == EffIn(c, k)[i]
   IN [name |-> d.name, method |-> "bind", transport |-> d.tr,
       address |-> IF d.xt # "" THEN XAddr(d.xt) ELSE LocalAddr(c, g, ipc, k, i),
       scheme |-> IF d.xt # "" THEN XScheme(d.xt) ELSE d.addr] : i \in 1..Len(EffIn(c, k))}
ExpectedOut(c, g, ipc, k) ==
  {LET o == EffOut(c, k)[i]
       r == Resolve(c, o)
   IN IF IsExplicitOut(o)
        THEN [name |-> o.name, method |-> "connect", transport |-> o.tr, address |-> OutXAddr(o.tk), scheme |-> OutXScheme(o.tk)]
        ELSE [name |-> o.name, method |-> "connect", transport |-> EffIn(c, r[1])[r[2]].tr,
              address |-> Advertised(c, g, ipc, r[1], r[2]), scheme |-> AdvertisedScheme(c, r[1], r[2])]
   : i \in 1..Len(EffOut(c, k))}
\* what task k is told when the configuration is accepted
\* c.props = << [task, name] >>: the TEMPLATE of the task carries stale hard-coded defaults
\* `properties: chans.<name>.0.address / .method / .transport` (leftovers of a standalone configuration).
\* task.go BuildPropertyMap copies the task's properties FIRST and writes the generated channel keys
\* over them: for a channel the task has declared (bind/connect at any level) the resolved values win;
\* stale keys of a channel the task does not have are pushed as they are.
StaleAddr == "tcp://localhost:5555"
StaleMethod == "connect"
StaleTransport == "nanomsg"
DeclaredNames(c, k) == {EffIn(c, k)[i].name : i \in 1..Len(EffIn(c, k))} \cup {EffOut(c, k)[i].name : i \in 1..Len(EffOut(c, k))}
StaleNames(c, k) == {c.props[i].name : i \in {j \in 1..Len(c.props) : c.props[j].task = k}}
ExpectedStale(c, k) ==
  {[name |-> n, method |-> StaleMethod, transport |-> StaleTransport, address |-> StaleAddr, scheme |-> "tcp"]
   : n \in StaleNames(c, k) \ DeclaredNames(c, k)}
Expected(c, g, ipc, k) == ExpectedIn(c, g, ipc, k) \cup ExpectedOut(c, g, ipc, k) \cup ExpectedStale(c, k)

---------------------------------------------------------------------------
\* THE PROPERTY, as formulas over facts: the case c, the granted ports g, what each task was told
\* (obs[k] = set of [name, method, address, scheme, transport]) and the outcome.  Each operator returns
\* the set of witnesses of a violation ({} = holds).  They do not use the deviation constants.
Told(obs, k, n) == {r \in obs[k] : r.name = n}
GrantSet(g, k) == SeqSet(g[k])
\* connectable form of the address a binder on task j was told
ConnectableOf(c, g, j, addr) ==
  LET ps == {p \in GrantSet(g, j) \cup {XTcpPort} : addr = BoundTcp(p)}
  IN IF ps # {} THEN TargetTcp(HostOf(c, j), CHOOSE p \in ps : TRUE) ELSE addr
\* "two different endpoints claiming the same global alias": two claims unless they name the very same
\* explicit address (then the statement does not say whether the redefinition is an error: PAmbiguous)
PConflicts(c) == {a \in Aliases(c) : \E x, y \in Claims(c, a) : x # y /\ ~SameExplicit(c, x, y)}
PAmbiguous(c) == {a \in Aliases(c) : ConflictStrict(c, a)} \ PConflicts(c)
\* resolution as the STATEMENT has it: an alias names its unique claimant
PResolve(c, o) ==
  CASE o.tk = "path" -> Resolve(c, o)
    [] o.tk = "alias" -> IF Cardinality(Claims(c, o.ta)) = 1 \/
                            (o.ta \in PAmbiguous(c) /\ \A x \in Claims(c, o.ta) : EffIn(c, x[1])[x[2]].xt = "ipc")
                           THEN CHOOSE x \in Claims(c, o.ta) : TRUE ELSE <<>>
    [] OTHER -> <<>>
PDangling(c) == UNION {{<<k, EffOut(c, k)[i].name>> : i \in {j \in 1..Len(EffOut(c, k)) :
                  LET o == EffOut(c, k)[j]
                  IN ~IsExplicitOut(o) /\ (IF o.tk = "alias" THEN Claims(c, o.ta) = {} ELSE Resolve(c, o) = <<>>)}}
                  : k \in TaskIds(c)}

V_ConnectMatchesBind(c, g, obs, out) ==
  IF out # "configured" THEN {} ELSE
  UNION {{[task |-> k, chan |-> EffOut(c, k)[i].name, binder |-> PResolve(c, EffOut(c, k)[i])[1],
           bchan |-> EffOut(c, k)[i].tn, via |-> EffOut(c, k)[i].tk,
           explicit |-> LET r == PResolve(c, EffOut(c, k)[i]) IN EffIn(c, r[1])[r[2]].xt # ""]
          : i \in {j \in 1..Len(EffOut(c, k)) :
                LET o == EffOut(c, k)[j]
                    r == PResolve(c, o)
                IN /\ r # <<>>
                   /\ ~\E m \in Told(obs, k, o.name), b \in Told(obs, r[1], EffIn(c, r[1])[r[2]].name) :
                         /\ m.method = "connect" /\ b.method = "bind"
                         /\ m.address = ConnectableOf(c, g, r[1], b.address)
                         /\ m.transport = b.transport}}
         : k \in TaskIds(c)}

InAddrOk(c, g, k, d, r) ==
  IF d.xt # "" THEN r.address = XAddr(d.xt)
  ELSE IF d.addr = "tcp" THEN \E p \in GrantSet(g, k) : r.address = BoundTcp(p)
  ELSE r.scheme = "ipc"
InboundSlots(c) == UNION {{<<k, i>> : i \in 1..Len(EffIn(c, k))} : k \in TaskIds(c)}
V_BindExactly(c, g, obs, out) ==
  IF out # "configured" THEN {} ELSE
  {<<s[1], EffIn(c, s[1])[s[2]].name>> : s \in {x \in InboundSlots(c) :
      LET d == EffIn(c, x[1])[x[2]]
      IN \/ ~\E r \in Told(obs, x[1], d.name) : r.method = "bind" /\ r.transport = d.tr /\ InAddrOk(c, g, x[1], d, r)
         \* two allocated endpoints are never the same: same address on the same host (tcp) / anywhere (ipc)
         \/ \E y \in InboundSlots(c) : y # x /\ d.xt = "" /\ EffIn(c, y[1])[y[2]].xt = "" /\
               (HostOf(c, y[1]) = HostOf(c, x[1]) \/ d.addr = "ipc") /\
               \E r \in Told(obs, x[1], d.name), q \in Told(obs, y[1], EffIn(c, y[1])[y[2]].name) : r.address = q.address}}

V_Passthrough(c, g, obs, out) ==
  IF out # "configured" THEN {} ELSE
  UNION {{<<k, EffOut(c, k)[i].name>> : i \in {j \in 1..Len(EffOut(c, k)) :
            LET o == EffOut(c, k)[j]
            IN IsExplicitOut(o) /\ ~\E m \in Told(obs, k, o.name) :
                  m.method = "connect" /\ m.address = OutXAddr(o.tk) /\ m.transport = o.tr}}
         \cup {<<k, EffIn(c, k)[i].name>> : i \in {j \in 1..Len(EffIn(c, k)) :
            LET d == EffIn(c, k)[j]
            IN d.xt # "" /\ ~\E m \in Told(obs, k, d.name) : m.method = "bind" /\ m.address = XAddr(d.xt) /\ m.transport = d.tr}}
         : k \in TaskIds(c)}

V_DanglingRejected(c, g, obs, out) == IF PDangling(c) # {} /\ out = "configured" THEN PDangling(c) ELSE {}
\* "cross-task": the claims that different tasks bring to the environment differ; "same-task": only
\* claims of one task differ from each other
AliasPattern(c, a) == IF \E k, j \in Claimers(c, a) : k # j /\ ~SameExplicit(c, TaskClaim(c, a, k), TaskClaim(c, a, j))
                        THEN "cross-task" ELSE "same-task"
V_AliasConflictRejected(c, g, obs, out) ==
  IF out = "configured" THEN {[alias |-> a, claimants |-> AliasPattern(c, a)] : a \in PConflicts(c)} ELSE {}
\* a configuration with neither a dangling target nor an alias conflict is accepted
V_ValidAccepted(c, g, obs, out) ==
  IF PDangling(c) = {} /\ PConflicts(c) = {} /\ PAmbiguous(c) = {} /\ out # "configured" THEN {out} ELSE {}

\* a name declared at several levels of a task's chain: what the task is told follows the nearest level
\* and (where they differ) not the overridden one
Levels(s, c, k, n) == {i \in 1..4 : \E d \in SeqSet(DeclsAt(s, Chain(c, k)[i])) : d.name = n}
DeclAtLevel(s, c, k, n, i) == CHOOSE d \in SeqSet(DeclsAt(s, Chain(c, k)[i])) : d.name = n
MinOf(S) == CHOOSE x \in S : \A y \in S : x <= y
V_RoleOverridesTemplate(c, g, obs, out) ==
  IF out # "configured" THEN {} ELSE
  UNION {{<<k, n>> : n \in {m \in {d.name : d \in SeqSet(c.inb)} :
            /\ Cardinality(Levels(c.inb, c, k, m)) > 1
            /\ LET w == DeclAtLevel(c.inb, c, k, m, MinOf(Levels(c.inb, c, k, m)))
               IN ~\E r \in Told(obs, k, m) : r.transport = w.tr /\ r.scheme = (IF w.xt # "" THEN w.xt ELSE w.addr)}}
         \cup {<<k, n>> : n \in {m \in {d.name : d \in SeqSet(c.outb)} :
            /\ Cardinality(Levels(c.outb, c, k, m)) > 1
            /\ LET w == DeclAtLevel(c.outb, c, k, m, MinOf(Levels(c.outb, c, k, m)))
               IN IsExplicitOut(w) /\ MinOf(Levels(c.outb, c, k, m)) # 4 /\
                  ~\E r \in Told(obs, k, m) : r.address = OutXAddr(w.tk) /\ r.transport = w.tr}}
         : k \in TaskIds(c)}

PropNames == <<"ConnectMatchesBind", "BindExactly", "Passthrough", "DanglingRejected", "AliasConflictRejected",
               "RoleOverridesTemplate", "ValidAccepted">>
PropViol(name, c, g, obs, out) ==
  CASE name = "ConnectMatchesBind" -> V_ConnectMatchesBind(c, g, obs, out)
    [] name = "BindExactly" -> V_BindExactly(c, g, obs, out)
    [] name = "Passthrough" -> V_Passthrough(c, g, obs, out)
    [] name = "DanglingRejected" -> V_DanglingRejected(c, g, obs, out)
    [] name = "AliasConflictRejected" -> V_AliasConflictRejected(c, g, obs, out)
    [] name = "RoleOverridesTemplate" -> V_RoleOverridesTemplate(c, g, obs, out)
    [] name = "ValidAccepted" -> V_ValidAccepted(c, g, obs, out)
    [] OTHER -> {}

---------------------------------------------------------------------------
\* the model applied to itself with a symbolic allocation (ports 9000, 9001, ... in list order per HOST
\* as the offers of one host are shared; unique IPC paths): which properties does the described code break?
\* task ids of the catalogue: t1..t3 (plain workflows), s<i>/r<i> (binder/connector of iteration i of an iterator)
IdSeq == <<"t1", "t2", "t3", "s1", "r1", "s2", "r2", "s3", "r3">>
AllIds == SeqSet(IdSeq)
SymGrant(c) ==
  \* tasks are launched in any order; give each task of a host a disjoint block of ports
  [k \in AllIds |-> IF k \in TaskIds(c)
                      THEN LET base == 9000 + 10 * (CHOOSE n \in 1..Len(IdSeq) : IdSeq[n] = k)
                           IN [i \in 1..NeedPorts(c, k) |-> base + i - 1]
                      ELSE <<>>]
SymIpc == [x \in AllIds \X {"a", "b"} |-> "ipc://@o2ipc-" \o x[1] \o "-" \o x[2]]
ModelObs(c) == [k \in AllIds |-> IF k \in TaskIds(c) /\ Outcome(c) = "configured" THEN Expected(c, SymGrant(c), SymIpc, k) ELSE {}]
ModelViol(c) == {PropNames[i] : i \in {j \in 1..Len(PropNames) :
                     PropViol(PropNames[j], c, SymGrant(c), ModelObs(c), Outcome(c)) # {}}}
\* the declaration patterns the two known deviations are about
HasExplicitReferenced(c) ==
  \E k \in TaskIds(c) : \E i \in 1..Len(EffOut(c, k)) :
     LET r == PResolve(c, EffOut(c, k)[i]) IN r # <<>> /\ EffIn(c, r[1])[r[2]].xt # ""
HasSameTaskAlias(c) == PConflicts(c) # {}
AllowedViol(c) ==
  IF Outcome(c) # "configured" THEN {} ELSE
  (IF Code_ExplicitInboundAdvertisesDynamic /\ HasExplicitReferenced(c) THEN {"ConnectMatchesBind"} ELSE {})
  \cup (IF Code_SameTaskAliasLastWins /\ HasSameTaskAlias(c) THEN {"AliasConflictRejected"} ELSE {})

\* consistency invariants over a case
WellFormed(c) ==
  /\ \A k \in TaskIds(c) : \A i, j \in 1..Len(EffIn(c, k)) : EffIn(c, k)[i].name = EffIn(c, k)[j].name => i = j
  /\ \A k \in TaskIds(c) : \A i, j \in 1..Len(EffOut(c, k)) : EffOut(c, k)[i].name = EffOut(c, k)[j].name => i = j
  /\ \A k \in TaskIds(c) : \A i \in 1..Len(EffIn(c, k)), j \in 1..Len(EffOut(c, k)) : EffIn(c, k)[i].name # EffOut(c, k)[j].name
ExpectedIsFunction(c) ==
  Outcome(c) = "configured" =>
    \A k \in TaskIds(c) : /\ Cardinality(Expected(c, SymGrant(c), SymIpc, k)) =
                                Len(EffIn(c, k)) + Len(EffOut(c, k)) + Cardinality(StaleNames(c, k) \ DeclaredNames(c, k))
                          /\ \A r, q \in Expected(c, SymGrant(c), SymIpc, k) : r.name = q.name => r = q
ModelViolExplained(c) == ModelViol(c) = AllowedViol(c)
RejectedIffBad(c) ==
  (Outcome(c) # "configured") <=> (DanglingOuts(c) # {} \/ \E a \in Aliases(c) : Conflict(c, a))
=============================================================================
