------------------------------ MODULE ExecTask ------------------------------
(***************************************************************************)
(* C17 - every launched task ends with exactly one terminal status and no   *)
(* survivors.                                                               *)
(*                                                                         *)
(* Model of ONE task inside the AliECS executor, written after the code:    *)
(*   executor/handlers.go        handleLaunchEvent / handleMessageEvent /   *)
(*                               handleKillEvent: look the task up in       *)
(*                               activeTasks, run the request in a fresh    *)
(*                               goroutine WITHOUT recover                  *)
(*   executor/actions.go         performStatusUpdate: a terminal status     *)
(*                               taken from statusCh removes the task       *)
(*   executor/executable/basictaskcommon.go  doLaunch (RUNNING after 200 ms)*)
(*                               startBasicTask (+ reaper goroutine),       *)
(*                               ensureBasicTaskKilled, Kill                *)
(*   executor/executable/basictask.go, hooktask.go  transition functions    *)
(*   executor/executable/controllabletask.go  Launch (dial, poll, wait),    *)
(*                               Kill (GetState, walk to DONE, close,       *)
(*                               TERM/INT/KILL), Transition                 *)
(*                                                                         *)
(* One action per critical section.  Every action is a successor-set        *)
(* operator over a state record (X(s) = set of states the code can reach    *)
(* by that step), so that the trace specification can follow recorded       *)
(* executions with a set of candidate states.  The variables of the module  *)
(* are the fields of that record.                                           *)
(*                                                                         *)
(* The child process is abstracted to its life (none / running / exiting =  *)
(* told or forced to go, not yet reaped / waited = Wait returned / reaped)  *)
(* plus "a forked grandchild is alive"; real time to the order of the steps *)
(* of the escalation.                                                       *)
(*                                                                         *)
(* Variables (fields of the state record):                                  *)
(*   kind, beh, hold   task kind, child behaviour, event-loop habit         *)
(*   launched, active  LAUNCH handled; task is in state.activeTasks         *)
(*   exec              "ok" | "panicked" (a goroutine without recover died) *)
(*   timer             doLaunch's 200 ms RUNNING timer is pending           *)
(*   cmd, ps, rst      t.taskCmd != nil; taskCmd.ProcessState (nil /        *)
(*                     exited / signaled); reaper goroutine has read        *)
(*                     t.taskCmd (pending / done)                           *)
(*   child, how, grand life of the child, how it went, forked grandchild    *)
(*   pend, rfin        pendingFinalTaskStateCh; final state the reaper took *)
(*   sent, procd       statuses handed to the event loop, how many of them  *)
(*                     it has processed                                     *)
(*   btt               BASIC_TASK_TERMINATED device events sent             *)
(*   hs                request handler goroutines in flight [r, pc, ...]    *)
(*   rpc, lpc, dev     controllable: t.rpc (nil / up), launch goroutine pc, *)
(*                     OCC state of the device                              *)
(*   rel, vstart       driver let the child exit; a start was answered      *)
(*   skDone, killAt    a stop/kill was carried out; from which status on    *)
(*                     FAILED contradicts a kill                            *)
(*   panBy, termBy, doneBy, killBy, closeBy   which request to blame        *)
(*   nreq, cnt         requests issued; delivered per type                  *)
(***************************************************************************)
EXTENDS Naturals, Sequences, FiniteSets

CONSTANTS
  Kinds,            \* subset of {"basic", "hook", "ctl"}
  Behs,             \* child behaviours explored
  Holds,            \* {FALSE}, or BOOLEAN: the generator/driver may keep a terminal status queued while it sends requests
  MaxReq,           \* number of requests after LAUNCH
  Reqs,             \* the requests explored (subset of Requests)
  DevStopNilDeref,  \* TRUE: ensureBasicTaskKilled dereferences taskCmd.ProcessState while it is nil (tree as it is)
  DevReaperField,   \* TRUE: the reaper goroutine of startBasicTask reads t.taskCmd when it starts, not before (tree as it is)
  Known             \* violation classes <<inv, kind, beh, r, inst, nth>> recorded as open findings

VARIABLES kind, beh, hold, launched, exec, active, timer, cmd, child, how, grand, ps, pend,
          sent, procd, btt, hs, rel, vstart, panBy, termBy, doneBy, killBy, closeBy, skDone, killAt, rpc, lpc, dev, nreq, cnt, rst, rfin

vars == <<kind, beh, hold, launched, exec, active, timer, cmd, child, how, grand, ps, pend,
          sent, procd, btt, hs, rel, vstart, panBy, termBy, doneBy, killBy, closeBy, skDone, killAt, rpc, lpc, dev, nreq, cnt, rst, rfin>>

Requests == {"CONFIGURE", "START", "STOP", "Trigger", "Kill"}
NoReq == [r |-> "none", inst |-> "none", nth |-> 0, late |-> FALSE]

Terminal(x) == x \in {"FINISHED", "FAILED", "KILLED"}
RemoveAt(q, i) == [j \in 1..(Len(q) - 1) |-> IF j < i THEN q[j] ELSE q[j + 1]]

(* ----- the state as a record ----- *)
S == [kind |-> kind, beh |-> beh, hold |-> hold, launched |-> launched, exec |-> exec, active |-> active,
      timer |-> timer, cmd |-> cmd, child |-> child, how |-> how, grand |-> grand, ps |-> ps, pend |-> pend,
      sent |-> sent, procd |-> procd, btt |-> btt, hs |-> hs, rel |-> rel, vstart |-> vstart, panBy |-> panBy,
      termBy |-> termBy, doneBy |-> doneBy, killBy |-> killBy, closeBy |-> closeBy, skDone |-> skDone, killAt |-> killAt, rpc |-> rpc, lpc |-> lpc, dev |-> dev,
      nreq |-> nreq, cnt |-> cnt, rst |-> rst, rfin |-> rfin]

Set(t) ==
  /\ kind' = t.kind /\ beh' = t.beh /\ hold' = t.hold /\ launched' = t.launched /\ exec' = t.exec
  /\ active' = t.active /\ timer' = t.timer /\ cmd' = t.cmd /\ child' = t.child /\ how' = t.how
  /\ grand' = t.grand /\ ps' = t.ps /\ pend' = t.pend /\ sent' = t.sent /\ procd' = t.procd
  /\ btt' = t.btt /\ hs' = t.hs /\ rel' = t.rel /\ vstart' = t.vstart /\ panBy' = t.panBy /\ termBy' = t.termBy
  /\ doneBy' = t.doneBy /\ killBy' = t.killBy /\ closeBy' = t.closeBy /\ skDone' = t.skDone /\ killAt' = t.killAt /\ rpc' = t.rpc /\ lpc' = t.lpc
  /\ dev' = t.dev /\ nreq' = t.nreq /\ cnt' = t.cnt /\ rst' = t.rst /\ rfin' = t.rfin

Is(t) ==
  /\ kind = t.kind /\ beh = t.beh /\ hold = t.hold /\ launched = t.launched /\ exec = t.exec
  /\ active = t.active /\ timer = t.timer /\ cmd = t.cmd /\ child = t.child /\ how = t.how
  /\ grand = t.grand /\ ps = t.ps /\ pend = t.pend /\ sent = t.sent /\ procd = t.procd
  /\ btt = t.btt /\ hs = t.hs /\ rel = t.rel /\ vstart = t.vstart /\ panBy = t.panBy /\ termBy = t.termBy
  /\ doneBy = t.doneBy /\ killBy = t.killBy /\ closeBy = t.closeBy /\ skDone = t.skDone /\ killAt = t.killAt /\ rpc = t.rpc /\ lpc = t.lpc
  /\ dev = t.dev /\ nreq = t.nreq /\ cnt = t.cnt /\ rst = t.rst /\ rfin = t.rfin

InitState(k, b, h) ==
  [kind |-> k, beh |-> b, hold |-> h, launched |-> FALSE, exec |-> "ok", active |-> FALSE, timer |-> FALSE,
   cmd |-> FALSE, child |-> "none", how |-> "none", grand |-> FALSE, ps |-> "nil", pend |-> "none",
   sent |-> <<>>, procd |-> 0, btt |-> <<>>, hs |-> <<>>, rel |-> FALSE, vstart |-> FALSE, panBy |-> NoReq,
   termBy |-> NoReq, doneBy |-> NoReq, killBy |-> NoReq, closeBy |-> NoReq, skDone |-> FALSE, killAt |-> 0, rpc |-> "nil", lpc |-> "none", dev |-> "none",
   nreq |-> 0, cnt |-> [r \in Requests |-> 0], rst |-> "none", rfin |-> [final |-> "none", vol |-> FALSE]]

(* controllable, conduct of the device once a Kill has walked it to DONE: done0 exits 0 at once, done3 exits 3 a
   moment later (crash in its shutdown path), donesig dies by a signal a moment later; sleep / ignore / fork outlive
   the grace period and have to be signalled; nodone refuses EXIT (never reaches DONE) and exits 3 on TERM *)
BehsOf(k) == IF k = "ctl" THEN Behs \cap {"sleep", "ignore", "fork", "exit0", "exit3", "noready", "stuck",
                                          "done0", "done3", "donesig", "nodone", "fmq", "midstate", "resetstuck", "slow"}
(* slow: a FairMQ device one step of whose CONFIGURE takes 12 s of real time (the model abstracts time: like fmq) *)
                          ELSE Behs \cap {"sleep", "ignore", "fork", "exit0", "exit3", "crash"}
(* fmq: a FairMQ device (control mode FAIRMQ), otherwise like sleep; midstate: a FairMQ device that, once it was seen
   IDLE and the task reported RUNNING, sits in an intermediate FairMQ state (GetState maps it to no state at all:
   nextTransition yields an empty event, the walk to DONE stops there) *)
Walkable(d) == d \notin {"INIT", "MID"}
(* resetstuck: a FairMQ device whose RESET DEVICE fails by staying in DEVICE READY (the roll-back INIT TASK brings it
   back to READY): a Kill that finds it CONFIGURED or RUNNING cannot walk it further down than CONFIGURED *)

(* ----- the instant of the child's life, from what has been observable so far ----- *)
Has(q, x) == \E i \in 1..Len(q) : q[i] = x
HasTerminal(q) == \E i \in 1..Len(q) : Terminal(q[i])
TermProcessed(s) == \E i \in 1..s.procd : Terminal(s.sent[i])    \* the event loop has processed a terminal status
Inst(s) ==
  IF s.kind = "ctl"
    THEN IF TermProcessed(s) THEN "gone"
         ELSE IF HasTerminal(s.sent) THEN "reaped"
         ELSE IF s.rel THEN "exiting"
         ELSE IF Has(s.sent, "RUNNING") THEN "running"
         ELSE IF s.rpc = "up" \/ s.lpc \in {"poll", "wait", "send", "done"} THEN "polling"
         ELSE "starting"
    ELSE IF Len(s.btt) > 0 THEN "reaped"
         ELSE IF s.rel \/ (s.vstart /\ s.beh = "crash") THEN "exiting"
         ELSE IF s.vstart THEN "running"
         ELSE IF ~Has(s.sent, "RUNNING") THEN "launching"
         ELSE "nochild"

(* "dying": a goroutine has panicked and the runtime is about to end the process, while the other
   goroutines still run for a moment.  Only the trace specification uses it (the moment at which the
   executor's death is recorded is later than the panic); the model goes to "panicked" at once. *)
Ok(s) == s.exec \in {"ok", "dying"}

(* ========================= requests arriving at the event loop ========================= *)

(* handleLaunchEvent: NewTask, Launch(), activeTasks[id] = task.
   basic / hook  doLaunch: channel, transitioner, time.AfterFunc(200 ms, sendStatus(RUNNING)).
   controllable  Launch: prepareTaskCmd, then a goroutine that starts the child, dials, polls, waits. *)
DoLaunch(s) ==
  IF ~s.launched /\ Ok(s)
    THEN {IF s.kind = "ctl"
            THEN [s EXCEPT !.launched = TRUE, !.active = TRUE, !.lpc = "dial", !.child = "running",
                           !.grand = (s.beh = "fork"), !.dev = IF s.beh = "stuck" THEN "INIT" ELSE "STANDBY"]
            ELSE [s EXCEPT !.launched = TRUE, !.active = TRUE, !.timer = TRUE]}
    ELSE {}

Applicable(s, r) ==
  CASE s.kind = "basic" -> r \in {"CONFIGURE", "START", "STOP", "Kill"}
    [] s.kind = "hook"  -> r \in {"Trigger", "Kill"}
    [] OTHER            -> r \in {"CONFIGURE", "START", "Kill"}

(* assumption on the environment: a child is started at most once per task *)
StartOnce(s, r) == r \in {"START", "Trigger"} /\ s.kind # "ctl" => s.cnt[r] = 0

(* handleMessageEvent / handleKillEvent: lookup in activeTasks, then `go func() { ... }()`.
   Returns the successor together with the verdict of the lookup. *)
DoReq(s, r) ==
  IF s.launched /\ Ok(s) /\ s.nreq < MaxReq /\ Applicable(s, r) /\ StartOnce(s, r)
    THEN LET q == [r |-> r, inst |-> Inst(s), nth |-> s.cnt[r] + 1] IN
         IF s.active
           THEN {[s EXCEPT !.nreq = @ + 1, !.cnt[r] = @ + 1,
                           !.hs = Append(@, [r |-> r, inst |-> q.inst, nth |-> q.nth, pc |-> "body", reached |-> "", err |-> FALSE,
                                            late |-> HasTerminal(s.sent), gone |-> TermProcessed(s)])]}
           ELSE {[s EXCEPT !.nreq = @ + 1]}
    ELSE {}
Delivered(s) == s.active

(* the driver lets the child exit on its own (exit0 / exit3; fork: the shell exits, its child stays) *)
Releasable(s) ==
  IF s.kind = "ctl" THEN s.beh \in {"exit0", "exit3"} ELSE s.beh \in {"exit0", "exit3", "fork"}
DoRelease(s) ==
  IF s.child = "running" /\ ~s.rel /\ Releasable(s) /\ Ok(s)
    THEN {[s EXCEPT !.rel = TRUE, !.child = "exiting", !.how = IF s.beh = "exit3" THEN "e3" ELSE "e0"]}
    ELSE {}

(* eventLoop: `case status := <-state.statusCh: performStatusUpdate` - a terminal status removes
   the task from activeTasks.  With hold, the loop happens to serve agent events first. *)
DoProc(s) ==
  IF s.procd < Len(s.sent) /\ Ok(s)
    THEN {[s EXCEPT !.procd = @ + 1, !.active = IF Terminal(s.sent[s.procd + 1]) THEN FALSE ELSE @]}
    ELSE {}
NextHeld(s) == s.procd < Len(s.sent) /\ s.hold /\ Terminal(s.sent[s.procd + 1])

(* ========================= basic and hook tasks ========================= *)

(* doLaunch: time.AfterFunc(200 ms, sendStatus(TASK_RUNNING)) - unconditional *)
DoTimer(s) ==
  IF s.timer /\ Ok(s) THEN {[s EXCEPT !.timer = FALSE, !.sent = Append(@, "RUNNING")]} ELSE {}

Drop(s, i) == [s EXCEPT !.hs = RemoveAt(@, i)]
(* whom to blame for what handler i does now: the request, and the instant at which it takes effect
   (for a handler that runs at once - every generated scenario - the instant at which it arrived) *)
ReqOf(s, i) == [r |-> s.hs[i].r, inst |-> Inst(s), nth |-> s.hs[i].nth, late |-> s.hs[i].late]
(* a Kill starts acting on a task whose child has not gone away on its own: from here on FAILED is wrong *)
KillAt(s) == IF s.killAt = 0 /\ ~s.rel /\ ~(s.beh = "crash" /\ s.child # "none") /\ s.child \in {"none", "running"}
               THEN Len(s.sent) + 1 ELSE s.killAt
IsBody(s, i, rs) == i \in 1..Len(s.hs) /\ s.hs[i].pc = "body" /\ s.hs[i].r \in rs /\ Ok(s)

(* transition function default branch / HookTask: "any transition is valid and executed as NOOP" *)
Answer(s, i, e) == [s EXCEPT !.hs[i].pc = "resp", !.hs[i].err = e]    \* the response is sent after the effect
DoNoopBody(s, i) ==
  IF IsBody(s, i, {"CONFIGURE"}) /\ s.kind # "ctl" THEN {Answer(s, i, FALSE)} ELSE {}

(* handleMessageEvent goroutine: json.Marshal(response); state.cli.Send(MESSAGE) *)
DoRespond(s, i) ==
  IF i \in 1..Len(s.hs) /\ s.hs[i].pc = "resp" /\ Ok(s)
    THEN {[Drop(s, i) EXCEPT !.vstart = IF s.hs[i].r \in {"START", "Trigger"} /\ s.kind # "ctl" /\ ~s.hs[i].err THEN TRUE ELSE @]}
    ELSE {}

(* startBasicTask: prepareTaskCmd (Setpgid), Start, reaper goroutine.  (START for basic, Trigger for hook) *)
DoStartBody(s, i) ==
  IF IsBody(s, i, {"START", "Trigger"}) /\ s.kind # "ctl"
    THEN {[Answer(s, i, FALSE) EXCEPT !.cmd = TRUE, !.ps = "nil", !.skDone = FALSE, !.rst = "pending",
                             !.child = IF s.beh = "crash" THEN "exiting" ELSE "running",
                             !.how = IF s.beh = "crash" THEN "e127" ELSE "none",
                             !.grand = (s.beh = "fork")]}
    ELSE {}

(* ensureBasicTaskKilled: taskCmd == nil -> nil; ProcessState.Exited() -> nil; else
   pendingFinalTaskStateCh <- KILLED; kill(-pid, SIGKILL).  ProcessState is nil until Wait returned.
   outcome: "ok" (answered), "err" (answered with the kill error), "panic", "hung" *)
GroupThere(s) == s.child \in {"running", "exiting"} \/ s.grand   \* ("waited": the shell is reaped already)
StopKillPath(s, i) == {[s EXCEPT !.hs[i].pc = "push"]}
(* ... pendingFinalTaskStateCh <- KILLED - a separate step from the ProcessState test: the reaper may return
   from Wait and pass its select in between (then the value stays in the channel).  The send blocks while
   the one slot is taken; it goes on when the reaper empties it, and blocks for ever if the reaper is gone. *)
DoStopPush(s, i) ==
  IF i \in 1..Len(s.hs) /\ s.hs[i].pc = "push" /\ s.pend = "none" /\ Ok(s)
    THEN {[s EXCEPT !.pend = "KILLED", !.hs[i].pc = "kill"]}
    ELSE {}
(* ... syscall.Kill(-pid, SIGKILL) - a separate step: the reaper may take the pending state and reap in between *)
DoStopKill(s, i) ==
  IF i \in 1..Len(s.hs) /\ s.hs[i].pc = "kill" /\ Ok(s)
    THEN LET t == [Answer(s, i, ~GroupThere(s)) EXCEPT      \* kill(-pid, SIGKILL): ESRCH when nothing of the group is left
                             !.skDone = TRUE, !.doneBy = ReqOf(s, i), !.grand = FALSE,
                             !.child = IF s.child = "running" THEN "exiting" ELSE @,
                             !.how = IF s.child = "running" THEN "sig" ELSE @]
             \* a child that was told to exit (or is about to fail at start) may still be there for the SIGKILL to end it
             T1 == IF s.child = "exiting" /\ s.how \in {"e0", "e3", "e127"} THEN {t, [t EXCEPT !.how = "sig"]} ELSE {t}
             \* a grandchild killed earlier stays in the group as a zombie until init reaps it: the kill may still "succeed"
             linger == s.beh = "fork" /\ ~s.grand /\ s.child \in {"waited", "reaped"}
         IN IF linger /\ ~GroupThere(s) THEN T1 \cup {[u EXCEPT !.hs[i].err = FALSE] : u \in T1} ELSE T1
    ELSE {}
DoStopBody(s, i) ==
  IF IsBody(s, i, {"STOP"}) /\ s.kind = "basic"
    THEN IF ~s.cmd    \* (after a Kill forgot taskCmd the stop is a no-op: what survives is the Kill's doing)
           THEN {[Answer(s, i, FALSE) EXCEPT !.skDone = TRUE, !.doneBy = IF s.doneBy.r = "Kill" THEN @ ELSE ReqOf(s, i)]}
         ELSE IF s.ps = "nil"
           THEN IF DevStopNilDeref THEN {[s EXCEPT !.exec = "panicked", !.panBy = ReqOf(s, i), !.hs[i].pc = "dead"]} ELSE StopKillPath(s, i)
         ELSE IF s.ps = "exited" THEN {[Answer(s, i, FALSE) EXCEPT !.skDone = TRUE, !.doneBy = ReqOf(s, i)]}
         ELSE StopKillPath(s, i)
    ELSE {}

(* basicTaskBase.Kill: taskCmd = nil; `go sendStatus(TASK_FINISHED)`; then the handler deletes the task ... *)
DoKillBodyBasic(s, i) ==
  IF IsBody(s, i, {"Kill"}) /\ s.kind # "ctl"
    THEN {[s EXCEPT !.hs[i].pc = "send", !.cmd = FALSE, !.active = FALSE, !.skDone = TRUE, !.closeBy = ReqOf(s, i),
                    !.killAt = KillAt(s), !.doneBy = ReqOf(s, i),
                    !.killBy = IF KillAt(s) # s.killAt THEN ReqOf(s, i) ELSE @]}
    ELSE {}
(* ... and the goroutine spawned by Kill hands TASK_FINISHED to the event loop *)
DoKillSend(s, i) ==
  IF i \in 1..Len(s.hs) /\ s.hs[i].pc = "send" /\ Ok(s)
    THEN {[Drop(s, i) EXCEPT !.sent = Append(@, "FINISHED"),
                             !.termBy = IF s.termBy.r = "Kill" /\ s.termBy.nth > s.hs[i].nth THEN @ ELSE ReqOf(s, i)]}
    ELSE {}

(* reaper goroutine of startBasicTask, first statement: `taskCmd := t.taskCmd` - read when the
   goroutine gets to run; a Kill that has set t.taskCmd = nil in the meantime makes taskCmd.Wait() a nil
   dereference.  (nullBy: the Kill to blame, kept in closeBy, which basic tasks do not use otherwise) *)
DoReaperStart(s) ==
  IF s.kind # "ctl" /\ s.rst = "pending" /\ Ok(s)
    THEN IF DevReaperField /\ ~s.cmd THEN {[s EXCEPT !.exec = "panicked", !.panBy = s.closeBy, !.rst = "dead"]}
         ELSE {[s EXCEPT !.rst = "done"]}
    ELSE {}
(* ... taskCmd.Wait() returns (this is what sets ProcessState) ... *)
NaturalFinal(s) == IF s.how = "e0" THEN "FINISHED" ELSE "FAILED"
DoWaitRet(s) ==
  IF s.kind # "ctl" /\ s.child = "exiting" /\ s.rst = "done" /\ Ok(s)
    THEN {[s EXCEPT !.child = "waited", !.ps = IF s.how = "sig" THEN "signaled" ELSE "exited", !.pend = "none",
                    !.rfin = [final |-> IF s.pend # "none" THEN s.pend ELSE NaturalFinal(s), vol |-> s.pend = "none"]]}
    ELSE {}
(* ... (FINISHED/FAILED, or the pending state taken from the channel just above) goes out as a
   BASIC_TASK_TERMINATED device event - no status update *)
DoReap(s) ==
  IF s.kind # "ctl" /\ s.child = "waited" /\ Ok(s)
    THEN {[s EXCEPT !.child = "reaped", !.btt = Append(@, s.rfin)]}
    ELSE {}

(* ========================= controllable tasks ========================= *)

Listening(s) == s.child = "running" /\ s.beh # "noready"

(* Launch goroutine: executorcmd.NewClient (grpc.WithBlock, up to 30 s) *)
DoLDial(s) ==
  IF s.kind = "ctl" /\ s.lpc = "dial" /\ Listening(s) /\ Ok(s)
    THEN {[s EXCEPT !.rpc = "up", !.lpc = "poll"]} ELSE {}

(* ... the dial times out: FAILED, doTermIntKill(-pgid), return (no Wait).
   Assumption: the 30 s start-up timeouts do not expire while a request is being handled. *)
DoLDialTimeout(s) ==
  IF s.kind = "ctl" /\ s.lpc = "dial" /\ ~Listening(s) /\ Ok(s) /\ s.hs = <<>>
    THEN {[s EXCEPT !.lpc = "done", !.sent = Append(@, "FAILED"), !.grand = FALSE,
                    !.child = IF s.child = "running" THEN "exiting" ELSE @,
                    !.how = IF s.child = "running" THEN "sig" ELSE @]}
    ELSE {}

(* ... polling loop: t.rpc.GetState every 500 ms until STANDBY; then EventStream, RUNNING.
   t.rpc is read again at every iteration: a Kill that closed the client in the meantime makes
   this goroutine dereference nil. *)
DoLPoll(s) ==
  IF s.kind = "ctl" /\ s.lpc = "poll" /\ Ok(s)
    THEN IF s.rpc = "nil" THEN {[s EXCEPT !.exec = "panicked", !.panBy = s.closeBy, !.lpc = "dead"]}
         ELSE IF Listening(s) /\ s.dev = "STANDBY"
           THEN {[s EXCEPT !.lpc = "wait", !.sent = Append(@, "RUNNING"), !.dev = IF s.beh = "midstate" THEN "MID" ELSE @]}
         ELSE {}
    ELSE {}
(* ... 30 s without STANDBY: FAILED, client closed, return (the child is neither waited for nor signalled) *)
DoLPollTimeout(s) ==
  IF s.kind = "ctl" /\ s.lpc = "poll" /\ s.rpc = "up" /\ ~(Listening(s) /\ s.dev = "STANDBY") /\ Ok(s) /\ s.hs = <<>>
    THEN {[s EXCEPT !.lpc = "done", !.rpc = "nil", !.sent = Append(@, "FAILED")]}
    ELSE {}

(* ... taskCmd.Wait returned: FINISHED/FAILED, pending state from the channel if any, t.rpc = nil ... *)
DoLWaitRet(s) ==
  IF s.kind = "ctl" /\ s.lpc = "wait" /\ s.child = "exiting" /\ Ok(s)
    THEN {[s EXCEPT !.lpc = "send", !.child = "reaped", !.rpc = "nil", !.pend = "none",
                    !.rfin = [final |-> IF s.pend # "none" THEN s.pend ELSE NaturalFinal(s), vol |-> FALSE]]}
    ELSE {}
(* ... sendStatus(final) *)
DoLWait(s) ==
  IF s.kind = "ctl" /\ s.lpc = "send" /\ Ok(s)
    THEN {[s EXCEPT !.lpc = "done", !.sent = Append(@, s.rfin.final)]}
    ELSE {}

(* ControllableTask.Transition: UnmarshalTransition fails when t.rpc == nil (no answer is sent);
   otherwise the transition is committed on the device.  outcome: "none" | "ok" | "err" *)
OccDst(r) == IF r = "CONFIGURE" THEN "CONFIGURED" ELSE "RUNNING"
OccSrc(r) == IF r = "CONFIGURE" THEN "STANDBY" ELSE "CONFIGURED"
TransOk(s, r) == s.rpc = "up" /\ Listening(s) /\ s.dev = OccSrc(r)
MaybeAlive(s) == s.child = "exiting" /\ s.rel /\ s.beh # "noready"
DoTransBody(s, i) ==      \* UnmarshalTransition
  IF IsBody(s, i, {"CONFIGURE", "START"}) /\ s.kind = "ctl"
    THEN IF s.rpc = "up" THEN {[s EXCEPT !.hs[i].pc = "commit"]} ELSE {Drop(s, i)}
    ELSE {}
DoTransCommit(s, i) ==    \* cmd.Commit() over gRPC, then the answer (an error if the device or the client is gone)
  IF i \in 1..Len(s.hs) /\ s.hs[i].pc = "commit" /\ Ok(s)
    THEN IF TransOk(s, s.hs[i].r) THEN {[Answer(s, i, FALSE) EXCEPT !.dev = OccDst(s.hs[i].r)]}
         ELSE IF s.rpc = "up" /\ MaybeAlive(s) /\ s.dev = OccSrc(s.hs[i].r)     \* a child told to exit may still answer
           THEN {[Answer(s, i, FALSE) EXCEPT !.dev = OccDst(s.hs[i].r)], Answer(s, i, TRUE)}
         ELSE {Answer(s, i, TRUE)}
    ELSE {}

(* ControllableTask.Kill, first part: t.rpc.GetState (nil dereference when there is no client);
   walk the device down to DONE with STOP / RESET / EXIT *)
DoKBody(s, i) ==
  IF IsBody(s, i, {"Kill"}) /\ s.kind = "ctl"
    THEN IF s.rpc = "nil" THEN {[s EXCEPT !.exec = "panicked", !.panBy = ReqOf(s, i), !.hs[i].pc = "dead"]}
         ELSE LET kb == IF KillAt(s) # s.killAt THEN ReqOf(s, i) ELSE s.killBy
                  walked == [s EXCEPT !.dev = "DONE", !.hs[i].pc = "close", !.hs[i].reached = "DONE", !.killAt = KillAt(s), !.killBy = kb]
                  broke == [s EXCEPT !.hs[i].pc = "close", !.hs[i].reached = "OTHER", !.killAt = KillAt(s), !.killBy = kb]
                  \* a child told to exit may still answer; two Kills walking the device at once trip over each other
                  maybe == MaybeAlive(s) /\ Walkable(s.dev)
                  other == \E j \in 1..Len(s.hs) : j # i /\ s.hs[j].r = "Kill"
              IN IF Listening(s) /\ s.beh = "nodone"
                   THEN {[broke EXCEPT !.dev = "STANDBY"]}         \* STOP / RESET obeyed, EXIT refused
                 ELSE IF Listening(s) /\ s.beh = "resetstuck" /\ s.dev \in {"CONFIGURED", "RUNNING"}
                   THEN {[broke EXCEPT !.dev = "CONFIGURED"]}      \* STOP obeyed, RESET fails (answered with an error)
                 ELSE IF Listening(s) /\ Walkable(s.dev)
                   THEN IF other THEN {walked, [broke EXCEPT !.dev = "DONE"]} ELSE {walked}
                   ELSE IF maybe THEN {walked, broke} ELSE {broke}
    ELSE {}
IsK(s, i, pc) == i \in 1..Len(s.hs) /\ s.hs[i].r = "Kill" /\ s.hs[i].pc = pc /\ s.kind = "ctl" /\ Ok(s)
(* ... t.rpc.Close(); t.rpc = nil *)
DoKClose(s, i) ==
  IF IsK(s, i, "close") THEN {[s EXCEPT !.rpc = "nil", !.closeBy = ReqOf(s, i), !.hs[i].pc = "push"]} ELSE {}
(* ... pendingFinalTaskStateCh <- FINISHED (DONE reached) | KILLED.  The final state is pushed BEFORE the grace
   period: whatever the device does from here on, the reaper finds it.  (The send waits while the slot is taken.) *)
DoKPush(s, i) ==
  IF IsK(s, i, "push") /\ s.pend = "none"
    THEN {[s EXCEPT !.pend = IF s.hs[i].reached = "DONE" THEN "FINISHED" ELSE "KILLED",
                    !.hs[i].pc = IF s.hs[i].reached = "DONE" THEN "grace" ELSE "term"]}
    ELSE {}
(* ... DONE reached: time.Sleep(DONE_TIMEOUT) - the device is given 1 s to leave on its own *)
DoKGrace(s, i) ==
  IF IsK(s, i, "grace") THEN {[s EXCEPT !.hs[i].pc = "term"]} ELSE {}
(* the device, having reached DONE, goes away by itself: at once (done0), or a moment later - assumed to be
   within the grace period, i.e. later than the few statements between the EXIT reply and the push *)
DoDoneExit(s) ==
  IF s.kind = "ctl" /\ s.dev = "DONE" /\ s.child = "running" /\ Ok(s)
     /\ (\/ s.beh = "done0"
         \/ s.beh \in {"done3", "donesig"} /\ \E j \in 1..Len(s.hs) : s.hs[j].r = "Kill" /\ s.hs[j].pc = "grace")
    THEN {[s EXCEPT !.child = "exiting", !.how = CASE s.beh = "done0" -> "e0" [] s.beh = "done3" -> "e3" [] OTHER -> "sig"]}
    ELSE {}
(* ... pidExists(pid) ? doTermIntKill(pid) : return.  pid is the device's own pid (GetState), not the group *)
Obeys(s) == s.beh # "ignore"
DoKTerm(s, i) ==
  IF IsK(s, i, "term")
    THEN IF s.child = "running"
           THEN {[s EXCEPT !.hs[i].pc = "int", !.child = IF Obeys(s) THEN "exiting" ELSE @,
                           !.how = IF Obeys(s) THEN (IF s.beh = "nodone" THEN "e3" ELSE "e0") ELSE @]}
           ELSE {[s EXCEPT !.hs[i].pc = "end"]}
    ELSE {}
DoKInt(s, i) ==
  IF IsK(s, i, "int")
    THEN IF s.child = "running" THEN {[s EXCEPT !.hs[i].pc = "k9"]} ELSE {[s EXCEPT !.hs[i].pc = "end"]}
    ELSE {}
DoKKill9(s, i) ==
  IF IsK(s, i, "k9")
    THEN {[s EXCEPT !.hs[i].pc = "end", !.child = IF s.child = "running" THEN "exiting" ELSE @,
                    !.how = IF s.child = "running" THEN "sig" ELSE @]}
    ELSE {}
(* ... handleKillEvent: delete(state.activeTasks, id) after Kill returned *)
DoKEnd(s, i) ==
  IF IsK(s, i, "end") THEN {[Drop(s, i) EXCEPT !.active = FALSE, !.skDone = TRUE, !.doneBy = ReqOf(s, i)]} ELSE {}

(* ========================= the specification ========================= *)

HIdx(s) == 1..Len(s.hs)
Succ(s) ==
  DoLaunch(s) \cup UNION {DoReq(s, r) : r \in Reqs} \cup DoRelease(s) \cup DoProc(s) \cup DoTimer(s)
  \cup DoReaperStart(s) \cup DoWaitRet(s) \cup DoReap(s) \cup DoLDial(s) \cup DoLDialTimeout(s) \cup DoLPoll(s) \cup DoLPollTimeout(s) \cup DoLWaitRet(s) \cup DoLWait(s) \cup DoDoneExit(s)
  \cup UNION {DoNoopBody(s, i) \cup DoRespond(s, i) \cup DoStartBody(s, i) \cup DoStopBody(s, i) \cup DoStopPush(s, i) \cup DoStopKill(s, i) \cup DoKillBodyBasic(s, i)
              \cup DoKPush(s, i) \cup DoKGrace(s, i) \cup DoKillSend(s, i) \cup DoTransBody(s, i) \cup DoTransCommit(s, i) \cup DoKBody(s, i) \cup DoKClose(s, i) \cup DoKTerm(s, i) \cup DoKInt(s, i)
              \cup DoKKill9(s, i) \cup DoKEnd(s, i) : i \in HIdx(s)}

Init == \E k \in Kinds : \E b \in BehsOf(k) : \E h \in Holds :
          Is(InitState(k, b, h))

Launch == \E t \in DoLaunch(S) : Set(t)
Req(r) == \E t \in DoReq(S, r) : Set(t)
Release == \E t \in DoRelease(S) : Set(t)
Proc == \E t \in DoProc(S) : Set(t)
Timer == \E t \in DoTimer(S) : Set(t)
ReaperStart == \E t \in DoReaperStart(S) : Set(t)
WaitRet == \E t \in DoWaitRet(S) : Set(t)
Reap == \E t \in DoReap(S) : Set(t)
LDial == \E t \in DoLDial(S) : Set(t)
LDialTimeout == \E t \in DoLDialTimeout(S) : Set(t)
LPoll == \E t \in DoLPoll(S) : Set(t)
LPollTimeout == \E t \in DoLPollTimeout(S) : Set(t)
LWaitRet == \E t \in DoLWaitRet(S) : Set(t)
LWait == \E t \in DoLWait(S) : Set(t)
NoopBody(i) == \E t \in DoNoopBody(S, i) : Set(t)
Respond(i) == \E t \in DoRespond(S, i) : Set(t)
StartBody(i) == \E t \in DoStartBody(S, i) : Set(t)
StopBody(i) == \E t \in DoStopBody(S, i) : Set(t)
StopPush(i) == \E t \in DoStopPush(S, i) : Set(t)
KPush(i) == \E t \in DoKPush(S, i) : Set(t)
KGrace(i) == \E t \in DoKGrace(S, i) : Set(t)
DoneExit == \E t \in DoDoneExit(S) : Set(t)
StopKill(i) == \E t \in DoStopKill(S, i) : Set(t)
KillBodyBasic(i) == \E t \in DoKillBodyBasic(S, i) : Set(t)
KillSend(i) == \E t \in DoKillSend(S, i) : Set(t)
TransBody(i) == \E t \in DoTransBody(S, i) : Set(t)
TransCommit(i) == \E t \in DoTransCommit(S, i) : Set(t)
KBody(i) == \E t \in DoKBody(S, i) : Set(t)
KClose(i) == \E t \in DoKClose(S, i) : Set(t)
KTerm(i) == \E t \in DoKTerm(S, i) : Set(t)
KInt(i) == \E t \in DoKInt(S, i) : Set(t)
KKill9(i) == \E t \in DoKKill9(S, i) : Set(t)
KEnd(i) == \E t \in DoKEnd(S, i) : Set(t)

Next ==
  \/ Launch \/ (\E r \in Reqs : Req(r)) \/ Release \/ Proc \/ Timer \/ ReaperStart \/ WaitRet \/ Reap
  \/ LDial \/ LDialTimeout \/ LPoll \/ LPollTimeout \/ LWaitRet \/ LWait \/ DoneExit
  \/ \E i \in 1..MaxReq : NoopBody(i) \/ Respond(i) \/ StartBody(i) \/ StopBody(i) \/ StopPush(i) \/ KPush(i) \/ KGrace(i) \/ StopKill(i) \/ KillBodyBasic(i) \/ KillSend(i)
                          \/ TransBody(i) \/ TransCommit(i) \/ KBody(i) \/ KClose(i) \/ KTerm(i) \/ KInt(i) \/ KKill9(i) \/ KEnd(i)

Spec == Init /\ [][Next]_vars

(* ========================= properties ========================= *)

TypeOK ==
  /\ kind \in {"basic", "hook", "ctl"} /\ exec \in {"ok", "panicked"}   \* ("dying" never arises in the model itself)
  /\ child \in {"none", "running", "exiting", "waited", "reaped"} /\ ps \in {"nil", "exited", "signaled"}
  /\ pend \in {"none", "KILLED", "FINISHED"} /\ procd <= Len(sent) /\ Len(hs) <= MaxReq
  /\ \A i \in 1..Len(sent) : sent[i] \in {"RUNNING", "FINISHED", "FAILED", "KILLED"}
  /\ rpc \in {"nil", "up"} /\ lpc \in {"none", "dial", "poll", "wait", "send", "done", "dead"}

(* at most one terminal status, and nothing after it *)
OneTerminalOf(q) == \A i \in 1..Len(q) : Terminal(q[i]) => i = Len(q)
OneTerminal == OneTerminalOf(sent)

(* a task killed on request (the kill arrived before the child went away on its own) is not reported failed *)
(* (own = the child went away on its own at some point - then FAILED may be the truth) *)
KilledNotFailedOf(q, at, own) == at > 0 /\ ~own => \A i \in at..Len(q) : q[i] # "FAILED"
Own(s) == s.rel \/ (s.beh = "crash" /\ s.child # "none")
KilledNotFailed == KilledNotFailedOf(sent, killAt, Own(S))

(* once a STOP of a basic task was answered, or a Kill was carried out, nothing of the group is left running *)
NoSurvivors == skDone => child # "running" /\ ~grand

(* no request makes the executor crash *)
ExecutorSurvives == exec = "ok"

(* the same, except for the violation classes recorded as open findings *)
(* nth: 1 first request of its type / 2 repeated while nothing terminal had been reported yet (back to back)
        / 3 repeated after a terminal status had already been handed to the event loop *)
Class(inv, q) == <<inv, kind, beh, q.r, q.inst, IF q.nth <= 1 THEN q.nth ELSE IF q.late THEN 3 ELSE 2>>
OneTerminalX == OneTerminal \/ Class("OneTerminal", termBy) \in Known
KilledNotFailedX == KilledNotFailed \/ Class("KilledNotFailed", killBy) \in Known
NoSurvivorsX == NoSurvivors \/ Class("NoSurvivors", doneBy) \in Known
ExecutorSurvivesX == ExecutorSurvives \/ Class("ExecutorSurvives", panBy) \in Known

(* once the event loop has processed a terminal status of the task, the task is no longer addressable: no request
   reaches the task object any more (performStatusUpdate deletes it from activeTasks, whatever becomes of the UPDATE
   towards the agent) - this is what keeps a KILL for a dead controllable task away from its nil client *)
GoneIsGone == \A i \in 1..Len(hs) : ~hs[i].gone

(* a handler goroutine blocked for ever on the one-slot channel (observation, not part of the property) *)
NoStuckHandler == \A i \in 1..Len(hs) : ~(hs[i].pc = "push" /\ pend # "none" /\ child \in {"waited", "reaped"})
=============================================================================
