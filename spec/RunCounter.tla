----------------------------- MODULE RunCounter -----------------------------
(***************************************************************************)
(* Model of the run-number counter of AliECS.                               *)
(*                                                                         *)
(*   configuration/cfgbackend/consulsource.go  GetNextUInt32(key):          *)
(*       kvp := kv.Get(key, RequireConsistent)     -- action Read(c)        *)
(*       absent  => kvp = {Value "0", ModifyIndex 0}                        *)
(*       value = uint32(parse(kvp.Value)); value++ -- wraps at 2^32-1       *)
(*       ok := kv.CAS(kvp)   (PUT ?cas=ModifyIndex) -- action Cas(c)         *)
(*       !ok => error                               -- action Return(c)      *)
(*   apricot/local/service.go  NewRunNumber() = GetNextUInt32(run_number)    *)
(*   core/environment/environment.go before_START_ACTIVITY: an error        *)
(*       cancels the transition, a number becomes currentRunNumber.         *)
(*                                                                         *)
(* The only durable state is the Consul key (value + ModifyIndex).  Consul  *)
(* is modelled by its documented rules: one global index, incremented by    *)
(* every successful write which becomes the ModifyIndex of the entry;      *)
(* ?cas=0 succeeds iff the key does not exist, ?cas=n iff ModifyIndex = n.   *)
(*                                                                         *)
(* A client is one call of NewRunNumber (by any environment of any core /   *)
(* apricot instance): nothing local survives a call, so a restarted core is *)
(* simply later clients; Restart kills every call in flight.  One action    *)
(* per request-level step, which is also the granularity at which the       *)
(* harness (fake Consul with parked requests) can impose a schedule.        *)
(*                                                                         *)
(* WrapDefect describes the tree being checked: TRUE = the increment is     *)
(* done in uint32 and wraps MaxU -> 0 (pinned tree); FALSE = a call that    *)
(* reads MaxU fails ("counter exhausted") without writing.                  *)
(* Variant /= "cas" describes deliberately broken protocols; they exist so  *)
(* that the check can show that the invariants are not vacuous.             *)
(***************************************************************************)
EXTENDS Integers, Sequences, FiniteSets, TLC

CONSTANTS Clients,      \* set of calls
          MaxU,         \* largest value of the counter type (2^32-1 in the code)
          WrapDefect,   \* BOOLEAN, see above
          Variant,      \* "cas" = the code; "put" | "ignoreok" | "cas0" = broken variants
          StaleReads,   \* BOOLEAN: a read may return any earlier version (GET without ?consistent)
          InitAbsent,   \* BOOLEAN: include the initial state in which the key does not exist (first run ever)
          InitVals,     \* initial values of the key (when it exists)
          BaseIdx,      \* ModifyIndex of the key in the initial state (if it exists)
          MaxForeign,   \* budget of writes by somebody else (operator, other tool); monotone
          ForeignJump,  \* a foreign write sets the counter to val .. val+ForeignJump
          MaxFault,     \* budget of Crash + NetFail
          MaxRestart    \* budget of Restart

VARIABLES
  kv,        \* the key: [present, val, idx]  (idx = ModifyIndex)
  gidx,      \* Consul's global index
  pc,        \* per client: "idle" | "read" | "cas" | "ret" | "done" | "failed" | "dead"
             \*   read : GET sent, not yet served      cas : GET answered, CAS sent, not yet applied
             \*   ret  : CAS applied, answer on its way
  loc,       \* per client: what it holds: [val, ridx, idx, n, ok, why]
  issued,    \* history: <<client, number>> of every successful CAS, in CAS order
  got,       \* per client: the number returned to the caller (NoNum = none)
  pred,      \* per client: the calls that had returned a number before this call started
  nforeign, nfault, gen,
  hist       \* earlier versions of the key (only filled when StaleReads)

vars == <<kv, gidx, pc, loc, issued, got, pred, nforeign, nfault, gen, hist>>

NoNum == -1
NoLoc == [val |-> 0, ridx |-> 0, idx |-> 0, n |-> 0, ok |-> FALSE, why |-> ""]
Absent == [present |-> FALSE, val |-> 0, idx |-> 0]
InFlight(c) == pc[c] \in {"read", "cas", "ret"}

\* value++ on a uint32
Inc(v) == IF v = MaxU THEN 0 ELSE v + 1

InitKV(v) == [present |-> TRUE, val |-> v, idx |-> BaseIdx]

InitWith(k, g) ==
  /\ kv = k /\ gidx = g
  /\ pc = [c \in Clients |-> "idle"]
  /\ loc = [c \in Clients |-> NoLoc]
  /\ issued = <<>>
  /\ got = [c \in Clients |-> NoNum]
  /\ pred = [c \in Clients |-> {}]
  /\ nforeign = 0 /\ nfault = 0 /\ gen = 0 /\ hist = {}

Init == \/ InitAbsent /\ InitWith(Absent, BaseIdx + 2)
        \/ \E v \in InitVals : InitWith(InitKV(v), BaseIdx + 2)

(* ---------------- a successful write at the server ---------------- *)
Written(v) == [present |-> TRUE, val |-> v, idx |-> gidx + 1]
Remember == IF StaleReads THEN hist \cup {kv} ELSE hist

(* ---------------- the caller ---------------- *)
\* NewRunNumber() is called: the GET request reaches the server (and waits there)
Start(c) ==
  /\ pc[c] = "idle"
  /\ pc' = [pc EXCEPT ![c] = "read"]
  /\ pred' = [pred EXCEPT ![c] = {d \in Clients : pc[d] = "done"}]
  /\ UNCHANGED <<kv, gidx, loc, issued, got, nforeign, nfault, gen, hist>>

\* the GET is served and answered; the client parses, increments and sends the CAS
Read(c) ==
  /\ pc[c] = "read"
  /\ \E src \in (IF StaleReads THEN hist \cup {kv} ELSE {kv}) :
       LET v == IF src.present THEN src.val ELSE 0
           i == IF src.present THEN src.idx ELSE 0
       IN IF ~WrapDefect /\ v = MaxU
            THEN /\ pc' = [pc EXCEPT ![c] = "failed"]
                 /\ loc' = [loc EXCEPT ![c] = [val |-> v, ridx |-> i, idx |-> i, n |-> 0, ok |-> FALSE, why |-> "exhausted"]]
            ELSE /\ pc' = [pc EXCEPT ![c] = "cas"]
                 /\ loc' = [loc EXCEPT ![c] = [val |-> v, ridx |-> i, idx |-> IF Variant = "cas0" THEN 0 ELSE i,
                                               n |-> Inc(v), ok |-> FALSE, why |-> ""]]
  /\ UNCHANGED <<kv, gidx, issued, got, pred, nforeign, nfault, gen, hist>>

\* Consul's rule for PUT ?cas=i
CasHolds(i) == IF i = 0 THEN ~kv.present ELSE kv.present /\ kv.idx = i

\* the CAS is applied at the server (the answer is still on its way)
Cas(c) ==
  /\ pc[c] = "cas"
  /\ pc' = [pc EXCEPT ![c] = "ret"]
  /\ IF Variant = "put" \/ CasHolds(loc[c].idx)
       THEN /\ kv' = Written(loc[c].n) /\ gidx' = gidx + 1
            /\ issued' = Append(issued, <<c, loc[c].n>>)
            /\ loc' = [loc EXCEPT ![c].ok = TRUE]
            /\ hist' = Remember
       ELSE /\ loc' = [loc EXCEPT ![c].ok = FALSE,   \* refused although nobody wrote since the read?
                                   ![c].why = IF CasHolds(loc[c].ridx) THEN "undisturbed" ELSE "cas"]
            /\ UNCHANGED <<kv, gidx, issued, hist>>
  /\ UNCHANGED <<got, pred, nforeign, nfault, gen>>

\* the answer arrives and GetNextUInt32 returns: the number, or an error when !ok
Return(c) ==
  /\ pc[c] = "ret"
  /\ IF loc[c].ok \/ Variant = "ignoreok"
       THEN /\ pc' = [pc EXCEPT ![c] = "done"]
            /\ got' = [got EXCEPT ![c] = loc[c].n]
       ELSE /\ pc' = [pc EXCEPT ![c] = "failed"]
            /\ UNCHANGED got
  /\ UNCHANGED <<kv, gidx, loc, issued, pred, nforeign, nfault, gen, hist>>

(* ---------------- the environment ---------------- *)
\* somebody else writes the key (never a smaller value: no protocol survives that)
ForeignWrite(v) ==
  /\ nforeign < MaxForeign
  /\ LET cur == IF kv.present THEN kv.val ELSE 0 IN v >= cur /\ v <= cur + ForeignJump /\ v <= MaxU
  /\ kv' = Written(v) /\ gidx' = gidx + 1 /\ nforeign' = nforeign + 1
  /\ hist' = Remember
  /\ UNCHANGED <<pc, loc, issued, got, pred, nfault, gen>>

\* the caller dies (process killed) at any point of the call: it never returns
Crash(c) ==
  /\ InFlight(c) /\ nfault < MaxFault
  /\ pc' = [pc EXCEPT ![c] = "dead"] /\ nfault' = nfault + 1
  /\ UNCHANGED <<kv, gidx, loc, issued, got, pred, nforeign, gen, hist>>

\* the pending request fails for the caller (HTTP 5xx, connection reset): before it took
\* effect (pc read, cas) or after (pc ret: the number is burnt); the call returns an error
NetFail(c) ==
  /\ InFlight(c) /\ nfault < MaxFault
  /\ pc' = [pc EXCEPT ![c] = "failed"] /\ nfault' = nfault + 1
  /\ loc' = [loc EXCEPT ![c].why = "net"]
  /\ UNCHANGED <<kv, gidx, issued, got, pred, nforeign, gen, hist>>

\* the core (every call in flight) is killed and started again; later calls are a new generation
Restart ==
  /\ gen < MaxRestart
  /\ \E c \in Clients : InFlight(c)
  /\ pc' = [c \in Clients |-> IF InFlight(c) THEN "dead" ELSE pc[c]]
  /\ gen' = gen + 1
  /\ UNCHANGED <<kv, gidx, loc, issued, got, pred, nforeign, nfault, hist>>

\* ForeignWrite ranges over a small set (MaxU is 2^32-1 in trace validation)
ForeignVals == LET cur == IF kv.present THEN kv.val ELSE 0 IN
               {v \in cur..(cur + ForeignJump) : v <= MaxU}
Next ==
  \/ \E c \in Clients : Start(c) \/ Read(c) \/ Cas(c) \/ Return(c) \/ Crash(c) \/ NetFail(c)
  \/ \E v \in ForeignVals : ForeignWrite(v)
  \/ Restart

Spec == Init /\ [][Next]_vars

Sym == Permutations(Clients)

(* ---------------- properties ---------------- *)
Num(i) == issued[i][2]

\* no number is given twice
Unique == \A i, j \in 1..Len(issued) : i # j => Num(i) # Num(j)

\* numbers grow in CAS order ...
Increasing == \A i, j \in 1..Len(issued) : i < j => Num(i) < Num(j)

\* ... hence in real-time order: a call that started after another had returned got a larger number
RealTime == \A c \in Clients : pc[c] = "done" => \A d \in pred[c] : got[d] < got[c]

\* a CAS that was refused gives the caller an error and no number
FailNotReuse == \A c \in Clients : (pc[c] \in {"ret", "done", "failed"} /\ ~loc[c].ok /\ loc[c].why \in {"cas", "undisturbed"})
                                     => pc[c] # "done" /\ got[c] = NoNum

\* a number is only returned for the caller's own successful CAS
NoNumberWithoutCas ==
  \A c \in Clients : (pc[c] = "done" \/ got[c] # NoNum) =>
     /\ pc[c] = "done"
     /\ \E i \in 1..Len(issued) : issued[i] = <<c, got[c]>>

\* the counter never lags behind a number that was given
KvBound == \A i \in 1..Len(issued) : kv.present /\ Num(i) <= kv.val

\* a call fails only for a reason: the key was written between its read and its CAS, a fault, or
\* the counter is exhausted; in particular a call that nobody disturbs obtains a number
UndisturbedSucceeds == \A c \in Clients : /\ loc[c].why # "undisturbed"
                                          /\ pc[c] = "failed" => loc[c].why \in {"cas", "net", "exhausted"}

TypeOK ==
  /\ kv.present \in BOOLEAN /\ kv.val \in 0..MaxU /\ kv.idx <= gidx
  /\ \A c \in Clients : pc[c] \in {"idle", "read", "cas", "ret", "done", "failed", "dead"}
  /\ nforeign <= MaxForeign /\ nfault <= MaxFault /\ gen <= MaxRestart

\* candidate inductive invariant (for the optional Apalache run)
IndInv ==
  /\ TypeOK /\ Unique /\ Increasing /\ KvBound
  /\ \A c \in Clients : pc[c] = "cas" => loc[c].n = Inc(loc[c].val)
=============================================================================
