---------------------------- MODULE WorkflowLoadErr ----------------------------
(***************************************************************************)
(* C15, the part of "a template error in any role makes the load fail" that *)
(* depends on the schedule: how the goroutines that process the children of *)
(* an aggregator / iterator concurrently hand their errors to the parent.   *)
(*                                                                         *)
(* Code (core/workflow):                                                    *)
(*   aggregatorrole.go ProcessTemplates, concurrent branch:                  *)
(*       err := role.ProcessTemplates(...)        -- goroutine-local         *)
(*       if err != nil { roleErrors = multierror.Append(roleErrors, err) }   *)
(*   iteratorrole.go ProcessTemplates, concurrent branch:                    *)
(*       err = role.ProcessTemplates(...)         -- the ENCLOSING function's *)
(*       if err != nil { roleErrors = multierror.Append(roleErrors, err) }   *)
(*                                                   named result, shared    *)
(*   then wg.Wait(); err = roleErrors.ErrorOrNil().                          *)
(* multierror.Append on the shared roleErrors is an unsynchronised           *)
(* read-modify-write in both; it is modelled as two steps.                   *)
(*                                                                         *)
(* One action per critical section: Run(c) = the child's ProcessTemplates    *)
(* returns and its result is stored; Check(c) = `if err != nil` reads;       *)
(* AppRead(c)/AppWrite(c) = multierror.Append; Join = after wg.Wait().       *)
(* SharedErr = TRUE: iterator path as it is; FALSE: goroutine-local err      *)
(* (aggregator path / iterator path as repaired).                            *)
(***************************************************************************)
EXTENDS Integers, FiniteSets, TLC

CONSTANTS N,         \* number of children
          Fails,     \* subset of 1..N: children whose ProcessTemplates returns an error
          SharedErr  \* BOOLEAN

Children == 1..N

VARIABLES pc,      \* pc[c] \in {"start", "ran", "app", "done"}
          shared,  \* the shared err variable: 0 = nil, c = error of child c
          local,   \* local[c]: goroutine-local err
          seen,    \* seen[c]: what child c read in `if err != nil`
          acc,     \* roleErrors: set of errors accumulated
          tmp,     \* tmp[c]: value of roleErrors read by Append
          result   \* "none" | "ok" | "error": what the parent returns after wg.Wait()
vars == <<pc, shared, local, seen, acc, tmp, result>>

Init == /\ pc = [c \in Children |-> "start"]
        /\ shared = 0 /\ local = [c \in Children |-> 0] /\ seen = [c \in Children |-> 0]
        /\ acc = {} /\ tmp = [c \in Children |-> {}] /\ result = "none"

Res(c) == IF c \in Fails THEN c ELSE 0

Run(c) == /\ pc[c] = "start"
          /\ IF SharedErr THEN shared' = Res(c) /\ UNCHANGED local
                          ELSE local' = [local EXCEPT ![c] = Res(c)] /\ UNCHANGED shared
          /\ pc' = [pc EXCEPT ![c] = "ran"]
          /\ UNCHANGED <<seen, acc, tmp, result>>

Check(c) == /\ pc[c] = "ran"
            /\ LET e == IF SharedErr THEN shared ELSE local[c]
               IN /\ seen' = [seen EXCEPT ![c] = e]
                  /\ pc' = [pc EXCEPT ![c] = IF e # 0 THEN "app" ELSE "done"]
            /\ UNCHANGED <<shared, local, acc, tmp, result>>

AppRead(c) == /\ pc[c] = "app" /\ tmp[c] = {}  /\ seen[c] # 0
              /\ tmp' = [tmp EXCEPT ![c] = acc \cup {seen[c]}]
              /\ UNCHANGED <<pc, shared, local, seen, acc, result>>

AppWrite(c) == /\ pc[c] = "app" /\ tmp[c] # {}
               /\ acc' = tmp[c]
               /\ pc' = [pc EXCEPT ![c] = "done"]
               /\ UNCHANGED <<shared, local, seen, tmp, result>>

Join == /\ result = "none" /\ \A c \in Children : pc[c] = "done"
        /\ result' = IF acc = {} THEN "ok" ELSE "error"
        /\ UNCHANGED <<pc, shared, local, seen, acc, tmp>>

Next == (\E c \in Children : Run(c) \/ Check(c) \/ AppRead(c) \/ AppWrite(c)) \/ Join
Spec == Init /\ [][Next]_vars

TypeOK == /\ pc \in [Children -> {"start", "ran", "app", "done"}]
          /\ shared \in 0..N /\ result \in {"none", "ok", "error"}

\* a child's error is never lost: if some child failed, the parent reports an error
ErrorNotLost == result # "none" => (Fails # {} => result = "error")
\* and no error is invented
NoSpuriousError == result = "error" => Fails # {}
=============================================================================
