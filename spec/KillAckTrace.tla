---------------------------- MODULE KillAckTrace ----------------------------
(* Trace specification for KillAck over runs of the real safeacks.SafeAcks          *)
(* (harness/cmd/killack).  Lines: Reset | Invoke{t, op, k} | Done{t, res} |         *)
(* StillBlocked{t} | End{blocked}.  Invocations are the model's Register / Expects /*)
(* Fetch actions; completions are matched against the model after the internal      *)
(* steps (Rendezvous, SendStopped, CloseStop, DeleteKey) that the implementation    *)
(* takes on its own - silent steps of the trace specification, bounded because each *)
(* of them moves a thread's program counter forward.  A file is accepted when some  *)
(* behaviour of the model explains every line; at End the threads the driver saw    *)
(* still blocked must be exactly the model's waiting threads.                       *)
EXTENDS KillAck, Integers, Json, IOUtils

Trace == ndJsonDeserialize(IOEnv.TRACE_FILE)
VARIABLES l, scn
Line == Trace[l]

Silent == l <= Len(Trace) /\ Line.ev # "Reset" /\ Auto /\ UNCHANGED <<l, scn>>

TReset ==
  /\ l <= Len(Trace) /\ Line.ev = "Reset"
  /\ reg' = [k \in Keys |-> 0] /\ gen' = [k \in Keys |-> 0] /\ stopped' = {}
  /\ th' = [t \in Threads |-> Idle] /\ consumed' = {}
  /\ scn' = Line.scn /\ l' = l + 1

TInvoke ==
  /\ l <= Len(Trace) /\ Line.ev = "Invoke"
  /\ LET t == Line.t
         k == Line.k
     IN CASE Line.op = "register" -> Register(t, k)
          [] Line.op = "expects" -> Expects(t, k)
          [] Line.op = "send" -> Fetch(t, k, "send")
          [] Line.op = "recv" -> Fetch(t, k, "recv")
          [] OTHER -> FALSE
  /\ l' = l + 1 /\ UNCHANGED scn

\* the completion of an operation, with its result; the thread is free again
TDone ==
  /\ l <= Len(Trace) /\ Line.ev = "Done"
  /\ th[Line.t].pc = "done" /\ th[Line.t].res = Line.res
  /\ Reuse(Line.t)
  /\ l' = l + 1 /\ UNCHANGED scn

TStill ==
  /\ l <= Len(Trace) /\ Line.ev = "StillBlocked"
  /\ th[Line.t].pc = "waiting"
  /\ l' = l + 1 /\ UNCHANGED <<vars, scn>>

TEnd ==
  /\ l <= Len(Trace) /\ Line.ev = "End"
  /\ {Line.blocked[i] : i \in 1..Len(Line.blocked)} = {t \in Threads : th[t].pc # "idle"}
  /\ \A t \in Threads : th[t].pc \in {"idle", "waiting"}
  \* nothing the implementation would still do on its own
  /\ ~ENABLED Auto
  /\ l' = l + 1 /\ UNCHANGED <<vars, scn>>

TraceInit == Init /\ l = 1 /\ scn = -1 /\ TLCSet(1, 0)
TraceNext == Silent \/ TReset \/ TInvoke \/ TDone \/ TStill \/ TEnd
TraceSpec == TraceInit /\ [][TraceNext]_<<vars, l, scn>>
\* the properties of the model, evaluated on every state of every explanation of the recorded run
Monitor == AtMostOneAck /\ NoPanic /\ ReceiveDeletesOwn /\ SenderNilMeansDelivered
\* acceptance: some behaviour consumes the whole file; the furthest line reached is reported otherwise
PrintEnd == (l = Len(Trace) + 1) => PrintT(<<"END", Len(Trace), 0>>)
Furthest == TLCSet(1, IF TLCGet(1) < l THEN l ELSE TLCGet(1))
Post == PrintT(<<"FURTHEST", TLCGet(1)>>)
=============================================================================
