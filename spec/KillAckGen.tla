----------------------------- MODULE KillAckGen -----------------------------
(* Schedule generator for KillAck: only the invocations are chosen; what the     *)
(* implementation does on its own (Auto) is taken first so that the model state  *)
(* the next invocation is chosen in is a quiescent one.  A thread is reused for  *)
(* a new call only after its previous operation finished.                        *)
EXTENDS KillAck
Quiet == ~ENABLED Auto
G_Register(t, k) == Quiet /\ Register(t, k)
G_Expects(t, k) == Quiet /\ Expects(t, k)
G_Send(t, k) == Quiet /\ Fetch(t, k, "send")
G_Recv(t, k) == Quiet /\ Fetch(t, k, "recv")
G_Reuse(t) == Quiet /\ Reuse(t)
G_Auto == Auto
GenNext == \/ G_Auto
           \/ \E t \in Threads, k \in Keys : G_Register(t, k) \/ G_Expects(t, k) \/ G_Send(t, k) \/ G_Recv(t, k)
           \/ \E t \in Threads : G_Reuse(t)
GenSpec == Init /\ [][GenNext]_vars
=============================================================================
