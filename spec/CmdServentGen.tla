--------------------------- MODULE CmdServentGen ---------------------------
(* Scenario generator for CmdServent: the same actions, each wrapped in a     *)
(* named operator G_<Action> (TLC labels the steps of the behaviours it       *)
(* writes), with the arrival of replies restricted to the instants a driver   *)
(* can impose on the real code WITHOUT hooks (no verdict ever depends on the   *)
(* length of a sleep; the clock-placed replies of the Stagger family only      *)
(* steer where the reply lands, the monitor judges recorded clock readings):   *)
(*  - while the call is inside SendFunc (the driver holds SendFunc),          *)
(*  - right after SendFunc returned, before any logical time passed,          *)
(*  - (Stagger) half a logical tick after an instant, by the driver's clock,   *)
(*    while the call's own timer has at least a full tick left,               *)
(*  - when the addressed call can no more be pending (it returned; for a      *)
(*    "late" reply: the command's callback value has been delivered), or was  *)
(*    never going to be (foreign id, sender that is nobody's target).         *)
(* A behaviour of this module is: a shape (targets per command, queue per     *)
(* command), a behaviour vector (one behaviour per (command, target)) and an  *)
(* arrival order of the replies relative to sends, timeouts and callbacks.    *)
EXTENDS CmdServent

CONSTANT Stagger   \* "off" | "any" | "gap".  Not "off": family "staggered deadlines" - some SendFunc is slow
                   \* (the response windows of the targets of one command differ) and replies are also
                   \* placed by the driver's clock, half a tick after a logical instant.  "gap": the reply
                   \* to a slow send arrives only after a sibling target has timed out (and before its
                   \* own deadline, or else when its call is gone)
Staggered == Stagger # "off"
\* a sibling call of the same command has run into its timeout
SiblingTimedOut(o) == \E t \in tg[o[1]] : t # o[2] /\ result[<<o[1], t>>].k = "timeout"

MsgOf(c, t, k) == {m \in net : m.tok = <<c, t, k>>}

\* the (command, target) a reply is addressed to is a call of this scenario
Addressee(m) == <<m.id, m.snd>>
IsCall(p) == p[1] \in Cmds /\ p[2] \in Targets /\ p[2] \in tg[p[1]]

Imposable(m) ==
  LET k == Key(m.id, m.snd)
      org == <<m.tok[1], m.tok[2]>> IN
  /\ (beh[org] = "late" => delivered[org[1]] >= 1)
  /\ (beh[org] = "fastreply" => pc[org] = "sending")
  /\ IF k \in DOMAIN pending
       THEN LET o == pending[k] IN
            \/ pc[o] = "sending" /\ ~(Stagger = "gap" /\ SlowSend(beh[o]))
            \/ pc[o] = "waiting" /\ deadline[o] = clock + TO /\ ~(Stagger = "gap" /\ SlowSend(beh[o]))
            \* by the clock: everything the implementation does at this instant is done (timers of
            \* this instant fired and unregistered), the call's own timer still has a full tick to run
            \/ /\ Staggered /\ pc[o] = "waiting" /\ clock < deadline[o] /\ ~SysEnabled
               /\ (Stagger = "gap" /\ SlowSend(beh[o])) => SiblingTimedOut(o)
       ELSE IF IsCall(Addressee(m)) THEN pc[Addressee(m)] = "ret" ELSE TRUE

G_Enqueue(c) == Enqueue(c)
G_BeginCommit(c) == BeginCommit(c)
G_Register(c, t) == Register(c, t)
G_SendBegin(c, t, b) == SendBegin(c, t, b)
\* (Stagger: a slow SendFunc returns at a later logical instant than the one it was entered at)
G_SendEnd(c, t) == /\ (beh[<<c, t>>] = "fastreply" => Emits(c, t, "fastreply") \cap net = {})
                   /\ ((Staggered /\ SlowSend(beh[<<c, t>>])) => clock > began[c] \/ ~ENABLED Tick)
                   /\ SendEnd(c, t)
G_DoneRecv(c, t) == DoneRecv(c, t)
G_Timeout(c, t) == Timeout(c, t)
G_Unreg(c, t) == Unreg(c, t)
G_Deliver(c) == Deliver(c)
G_Tick == Tick
G_PRecv(c, t, k) == \E m \in MsgOf(c, t, k) : Imposable(m) /\ PRecv(m)

GenNext ==
  \/ \E c \in Cmds : G_Enqueue(c) \/ G_BeginCommit(c) \/ G_Deliver(c)
  \/ \E c \in Cmds, t \in Targets : G_Register(c, t) \/ G_SendEnd(c, t) \/ G_DoneRecv(c, t)
                                    \/ G_Timeout(c, t) \/ G_Unreg(c, t)
  \/ \E c \in Cmds, t \in Targets, b \in Behs : G_SendBegin(c, t, b)
  \/ \E c \in Cmds, t \in Targets, k \in 1..2 : G_PRecv(c, t, k)
  \/ G_Tick

GenSpec == Init /\ [][GenNext]_vars
=============================================================================
