---------------------------- MODULE LifecycleTrace ----------------------------
(***************************************************************************)
(* Trace specification for C04 / C06 over runs of the real AliECS core     *)
(* recorded by the whole-core simulation (harness/cmd/coresim), projected  *)
(* by lib/props/lifecycle_common.py.  Lines (all carry scn):               *)
(*  Reset{model:{reuse, strict, envs:{<alias>:{basic,hooks,pend,dets,      *)
(*  script}}}}                                                              *)
(*  Api{call,env,op,flags}  ApiReply{call,env,op,code,st,timeout,inuse}    *)
(*  Hook{point,env,task,phase,what,st,who,active,why,reused,dets}          *)
(*  MAccept{tasks:[{task,role,env}]}  MUpdate{task,state}  MKill{task}     *)
(*  MTriggerHook{task,env}  HookStart{hook,env,trig}  MMessage{event,task, *)
(*  env}  Fault{kind,task,tasks} (EXECUTOR_LOST / AGENT_LOST: tasks = the   *)
(*  tasks of that executor / agent)  MasterUpdate{task,kind}                 *)
(*  MKillRefused{task} (the master rejected the KILL call)  Snapshot{       *)
(*  envs:[{env,st,dets,tasks}],tasks:[{task,owner,locked,   *)
(*  status}],active_dets,master:[{task,terminal,kills}]}  Pending{n}  End  *)
(*                                                                         *)
(* Conformance (strict): every line that witnesses a model action must be  *)
(* that action of spec/Lifecycle.tla, enabled in the model state reached   *)
(* so far (steps of the code that leave no line are taken when the line at *)
(* hand needs them); Snapshot lines must show the model's listing, roster  *)
(* and owners.  A mismatch prints DRIFT and the run is skipped up to the   *)
(* next Reset.                                                             *)
(* Monitor: the property formulas evaluated on the recorded facts alone    *)
(* (ownership from task.lock/unlock, kills from task.kill.send/MKill and   *)
(* the master's count, listings from Snapshot); a failure prints VIOL.     *)
(***************************************************************************)
EXTENDS Lifecycle, Json, IOUtils

Trace == ndJsonDeserialize(IOEnv.TRACE_FILE)

VARIABLES l, mode, scn, case, nviol,
          mown,     \* monitor: [task -> owner env | None] from task.lock / task.unlock
          mlast,    \* monitor: [task -> last owner]
          mfor,     \* monitor: [task -> environment it was launched for] (MAccept)
          mrole,    \* monitor: [task -> role]
          mkill,    \* monitor: tasks a KILL was sent for
          mlost,    \* monitor: tasks whose executor / agent was reported lost (FAILURE event)
          mrost,    \* monitor: tasks that were written to the roster
          mret,     \* monitor: [env -> "none" | "destroy_ok" | "create_err"]
          mkeep,    \* monitor: environments whose successful destroy asked to keep the tasks
          minfl,    \* monitor: API calls in flight
          mtrig,    \* [env -> hook tasks triggered in the teardown in progress]
          mgone,    \* monitor: environments a destroy was requested for
          mclean,   \* monitor: "run" while a Cleanup call is the only call in flight, "done" once it returned OK
          mlive,    \* monitor: [env -> detectors] of the environments created successfully and not yet destroyed
          mhold,    \* monitor: [env -> live environments (with detectors) when its create was requested]
          msnap,    \* monitor: envs part of the previous quiescent Snapshot
          msame     \* monitor: a create was refused because of a detector: the next snapshot must equal msnap

tvars2 == <<l, mode, scn, case, nviol, mown, mlast, mfor, mrole, mkill, mlost, mrost, mret, mkeep, minfl, mtrig, mgone, mlive, mhold, msnap, msame, mclean>>
mvars == <<mown, mlast, mfor, mrole, mkill, mlost, mrost, mret, mkeep, minfl, mtrig, mgone, mlive, mhold, msnap, msame, mclean>>

Line == Trace[l]
Soft(name, cond, detail) == IF cond THEN 0 ELSE IF PrintT(<<"VIOL", name, scn, l, detail>>) THEN 1 ELSE 1
SeqSet(s) == {s[i] : i \in 1..Len(s)}
EmptyF == [x \in {} |-> None]
Get(f, x, d) == IF x \in DOMAIN f THEN f[x] ELSE d
Put(f, x, v) == [y \in DOMAIN f \cup {x} |-> IF y = x THEN v ELSE f[y]]

NoCase == [reuse |-> FALSE, strict |-> TRUE, envs |-> EmptyF]
CEnv(e) == case.envs[e]
CHooks(e) == IF e \in DOMAIN case.envs THEN SeqSet(CEnv(e).hooks) ELSE {}

(* ======================= conformance: line -> model action ================ *)
E == Line.env
T == Line.task
Ok(what) == Valid(what, est[E]) /\ Line.st = Dst(what)

\* whose teardown takes the lock when both the failure tail of create and a destroy want it: the destroy
\* call that wins replies OK
DestroyWins(e) ==
  LET js == {j \in l..Len(Trace) : Trace[j].ev = "ApiReply" /\ Trace[j].call = "destroy" /\ Trace[j].env = e} IN
  js # {} /\ Trace[CHOOSE j \in js : \A i \in js : j <= i].code = "OK"
\* what the acquirer does next: it goes on (phase left) or gives the lock back at once (refused)
TdRefusedNext(e) ==
  LET js == {j \in (l + 1)..Len(Trace) : /\ Trace[j].ev = "Hook" /\ Trace[j].env = e
                                          /\ \/ Trace[j].point = "env.teardown.phase"
                                             \/ Trace[j].point = "env.lock.release" /\ Trace[j].what = "DESTROY"} IN
  js # {} /\ Trace[CHOOSE j \in js : \A i \in js : j <= i].point = "env.lock.release"
TdWho(e) ==
  IF TdWanted(e, "d") /\ TdWanted(e, "c")
    THEN LET dforce == ("force" \in dfl[e]) \/ dforced[e] IN
         IF TdRefusedNext(e)
           \* the forced teardown of the failure tail is only refused on a DONE environment
           THEN (IF est[e] # "DONE" THEN "d" ELSE IF DestroyWins(e) THEN "c" ELSE "d")
           ELSE (IF est[e] \notin {"STANDBY", "DEPLOYED"} /\ ~dforce THEN "c" ELSE IF DestroyWins(e) THEN "d" ELSE "c")
  ELSE IF TdWanted(e, "c") THEN "c" ELSE "d"

KillerOfSelect ==
  LET cands == {k \in Killers : /\ kst[k] = "run" /\ T \in ksel[k]
                                 /\ (Line.who = "cleanup") = (k[2] \in {"api", "c"} \/ (k[2] = "d" /\ EnvTasks(k[1]) = {}))}
  IN IF cands = {} THEN <<"none", "none">> ELSE CHOOSE k \in cands : TRUE
KillerOfSend ==
  LET cands == {k \in Killers : T \in kq[k] \/ T \in kdrop[k]} IN IF cands = {} THEN <<"none", "none">> ELSE CHOOSE k \in cands : TRUE

LaunchM == {<<Line.tasks[i].role, Line.tasks[i].task>> : i \in 1..Len(Line.tasks)}

HookAct ==
  LET p == Line.point IN
  CASE p = "envman.create.snapshot" -> CSnap(E) /\ snap'[E] = SeqSet(Line.dets)
    [] p = "envman.create.registered" -> CRegister(E)
    [] p = "env.lock.acquired" /\ Line.what = "DEPLOY" -> CDeployLock(E)
    [] p = "env.lock.acquired" /\ Line.what = "DESTROY" -> TdLock(E, TdWho(E))
    [] p = "env.lock.release" /\ Line.what = "DEPLOY" -> CDeployEnd(E, Line.st = "DEPLOYED")
    [] p = "env.lock.release" /\ Line.what = "DESTROY" ->
         (CASE tdp[E] = "locked" -> TdRefuse(E)
            [] tdp[E] \in {"released1", "released2"} -> TdRelError(E)
            [] tdp[E] = "done" -> TdDelete(E)
            [] OTHER -> FALSE)
    [] p = "env.lock.release" /\ Line.what = "CONFIGURE" /\ cpc[E] = "deployed" -> CConfigure(E, Ok("CONFIGURE"))
    [] p = "env.lock.release" /\ Line.what = "GO_ERROR" /\ cpc[E] = "tail" -> CTailGoError(E, Ok("GO_ERROR"))
    [] p = "env.lock.release" /\ Line.what = "GO_ERROR" /\ xpc[E] = "goerr" -> XGoError(E, Ok("GO_ERROR"))
    [] p = "env.lock.release" /\ Line.what \in {"STOP_ACTIVITY", "RESET"} /\ dpc[E] = "start" /\ dplan[E] = Line.what
         /\ ~(xpc[E] = "go" /\ xop[E] = Line.what) ->
         DPre(E, Line.what, Ok(Line.what))
    [] p = "env.lock.release" /\ xpc[E] = "go" /\ xop[E] = Line.what -> XTrans(E, Ok(Line.what))
    [] p = "env.lock.release" /\ Line.what = "GO_ERROR" -> AutoError(E)     \* the workflow-state watcher
    [] p = "env.teardown.phase" ->
         (CASE Line.phase = "left" -> TdLeft(E)
            [] Line.phase = "released1" -> TdReleased1(E)
            [] Line.phase = "destroyhooks" -> TdHooks(E, Get(mtrig, E, {}))
            [] Line.phase = "cancelled" -> TdCancel(E)
            [] Line.phase = "released2" -> TdReleased2(E)
            [] Line.phase = "done" -> TdDone(E)
            [] OTHER -> FALSE)
    [] p = "task.acquire.claim" -> Claim(E, T)
    [] p = "task.acquire.retry" -> AcqRetry(E)
    [] p = "task.lock" -> IF Line.reused THEN LockReused(E, T) ELSE Lock(E, T)
    [] p = "task.unlock" -> IF Line.why = "release" THEN Unlock(E, T) ELSE FailUnlock(E, T)
    [] p = "task.roster.appended" -> tenv[T] # None /\ RosterAppend(tenv[T], T)
    [] p = "task.kill.select" -> KillerOfSelect \in Killers /\ KillSelect(KillerOfSelect, T, Line.active)
    [] p = "task.kill.send" -> KillerOfSend \in Killers /\ KillSend(KillerOfSend, T)
    [] p = "api.force.error" -> XForce(E)
    [] OTHER -> FALSE

\* hook lines that witness no model action of their own
HookIgnored ==
  LET p == Line.point IN
  \/ p \in {"env.watch.recv", "env.watch.fire", "env.setstate", "task.reconcile.kill", "envman.released.delivered"}
  \/ p = "env.lock.acquired" /\ Line.what \notin {"DEPLOY", "DESTROY"}

Direct ==
  LET a == Line.ev IN
  CASE a = "Api" ->
         (CASE Line.call = "create" -> CreateCall(E, SeqSet(CEnv(E).basic), SeqSet(CEnv(E).hooks), CEnv(E).pend,
                                                  SeqSet(CEnv(E).dets), CEnv(E).script)
            [] Line.call = "destroy" -> DestroyCall(E, SeqSet(Line.flags))
            [] Line.call = "control" -> ControlCall(E, Line.op)
            [] Line.call = "cleanup" -> CleanupCall
            [] OTHER -> FALSE)
    [] a = "ApiReply" ->
         (CASE Line.call = "create" -> IF Line.code = "OK" THEN CReplyOk(E)
                                       ELSE IF cpc[E] = "snap" THEN CRefuse(E)
                                       ELSE IF cpc[E] = "ok" THEN CReplyGone(E) ELSE CReplyErr(E)
            [] Line.call = "destroy" -> DReply(E) /\ ((Line.code = "OK") <=> (dret'[E] = "ok"))
            [] Line.call = "control" -> XReply(E)
            [] Line.call = "cleanup" -> CleanupReply
            [] OTHER -> FALSE)
    [] a = "Hook" -> HookAct
    [] a = "MAccept" -> LaunchSet(Line.tasks[1].env, LaunchM)
    [] a = "MUpdate" -> IF Line.state = "TASK_RUNNING" THEN TaskRunning(T) ELSE TaskGone(T)
    [] a = "Fault" -> FailureEvent(SeqSet(Line.tasks))
    [] a = "MasterUpdate" -> MasterUpdate(T)
    [] a = "MKillRefused" -> (LET cands == {k \in Killers : T \in ksent[k]} IN cands # {} /\ KillRefuse(CHOOSE k \in cands : TRUE, T))
    [] OTHER -> FALSE

\* lines that drive the model
IsTimeout == Line.ev = "ApiReply" /\ Line.timeout
IsModelLine ==
  \/ Line.ev \in {"Api", "MAccept", "Fault", "MasterUpdate", "MKillRefused"}
  \/ Line.ev = "ApiReply" /\ ~Line.timeout
  \/ Line.ev = "Hook" /\ ~HookIgnored
  \/ Line.ev = "MUpdate" /\ (IF Line.state = "TASK_RUNNING" THEN ~running[T] ELSE alive[T])

\* steps of the code without a line of their own.  Taken as soon as they are possible: the decision of
\* DestroyEnvironment to tear down, TeardownEnvironment not finding the environment, the roster filter of
\* CleanupTasks / KillTasks; the filter of the Cleanup() at the start of a create is taken when the line at
\* hand needs it (the code gets there some time after the snapshot hook)
EagerCands ==
  {<<"pl", e, "">> : e \in {x \in Envs : ENABLED DPlan(x)}}
  \cup {<<"go", e, "">> : e \in {x \in Envs : ENABLED DGoTd(x)}}
  \cup {<<"lk", e, "">> : e \in {x \in Envs : ENABLED DLookup(x)}}
  \cup {<<"cl", e, "">> : e \in {x \in Envs : ENABLED CLookup(x)}}
  \cup {<<"nf", e, "">> : e \in {x \in Envs : ENABLED DTdNotFound(x)}}
  \cup {<<"kb", k[1], k[2]>> : k \in {x \in Killers : x[2] \in {"api", "ck", "d"} /\ KillerPhase(x) /\ kst[x] = "idle"}}
  \cup {<<"kr", k[1], k[2]>> : k \in {x \in Killers : kst[x] = "run" /\ ksel[x] = {}}}
Eager ==
  /\ EagerCands # {}
  /\ LET c == CHOOSE x \in EagerCands : TRUE IN
       CASE c[1] = "pl" -> DPlan(c[2])
         [] c[1] = "go" -> DGoTd(c[2])
         [] c[1] = "lk" -> DLookup(c[2])
         [] c[1] = "cl" -> CLookup(c[2])
         [] c[1] = "nf" -> DTdNotFound(c[2])
         [] c[1] = "kr" -> KillRemove(<<c[2], c[3]>>)
         [] OTHER -> KillBegin(<<c[2], c[3]>>)
LazyCands ==
  IF Line.ev = "Hook" /\ Line.point = "task.kill.select" /\ Line.who = "cleanup"
    THEN {k \in Killers : k[2] = "c" /\ KillerPhase(k) /\ kst[k] = "idle"}
  ELSE IF (Line.ev = "Hook" /\ Line.point = "envman.create.registered") \/ (Line.ev = "ApiReply" /\ Line.call = "create")
    THEN {k \in {<<Line.env, "c">>} : KillerPhase(k) /\ kst[k] = "idle"}
  ELSE {}
\* a task that terminated between the making of the kill list and the sending gets no KILL: seen when the call returns
SkipCands ==
  IF Line.ev = "ApiReply" /\ Line.call \in {"destroy", "create", "cleanup"}
    THEN {<<k, t>> \in Killers \X TaskIds :
            /\ t \in kq[k] /\ ~alive[t]
            /\ k \in (IF Line.call = "cleanup" THEN {<<"api", "api">>}
                      ELSE IF Line.call = "destroy" THEN {<<Line.env, "d">>} ELSE {<<Line.env, "c">>, <<Line.env, "ck">>})}
  ELSE IF Line.ev = "Hook" /\ Line.point = "envman.create.registered"
    THEN {<<k, t>> \in {<<Line.env, "c">>} \X TaskIds : t \in kq[k] /\ ~alive[t]}
  ELSE {}
LazyFor ==
  \/ LazyCands # {} /\ KillBegin(CHOOSE k \in LazyCands : TRUE)
  \/ LazyCands = {} /\ SkipCands # {} /\ (LET c == CHOOSE x \in SkipCands : TRUE IN KillSkip(c[1], c[2]))

(* conformance of a Snapshot line: listing, states (when nothing is in flight), roster, owners *)
SnapEnvs == {Line.envs[i].env : i \in 1..Len(Line.envs)}
SnapEnv(e) == CHOOSE x \in SeqSet(Line.envs) : x.env = e
SnapTasks == {Line.tasks[i].task : i \in 1..Len(Line.tasks)}
SnapTask(t) == CHOOSE x \in SeqSet(Line.tasks) : x.task = t
SnapConforms ==
  /\ SnapEnvs = listed
  /\ InFlight = 0 => \A e \in listed : SnapEnv(e).st = est[e]
  /\ SnapTasks = {t \in TaskIds : inRoster[t]}
  /\ \A t \in SnapTasks : SnapTask(t).owner = (IF owner[t] = None THEN "" ELSE owner[t])

(* ============================== monitor ================================== *)
HookRolesOf(e) == CHooks(e) \cap HookTaskNames
MasterOf(t) == CHOOSE x \in SeqSet(Line.master) : x.task = t
MasterTasks == {Line.master[i].task : i \in 1..Len(Line.master)}
AliveAtMaster(t) == t \in MasterTasks /\ ~MasterOf(t).terminal
KillsAtMaster(t) == IF t \in MasterTasks THEN MasterOf(t).kills ELSE 0

\* Post(e) on the facts of a quiescent Snapshot
PostViol(e) ==
    Soft("PostListed", e \notin SnapEnvs, <<e, mret[e]>>)
  + Soft("PostOwned", \A t \in DOMAIN mown : mown[t] # e, <<e, {t \in DOMAIN mown : mown[t] = e}>>)
  + Soft("PostOwnedApi", \A t \in SnapTasks : SnapTask(t).owner # e, <<e, {t \in SnapTasks : SnapTask(t).owner = e}>>)
  + Soft("PostKilled",
         e \in mkeep \/ \A t \in DOMAIN mlast : (mlast[t] = e /\ Get(mown, t, None) = None /\ AliveAtMaster(t)) => KillsAtMaster(t) > 0,
         <<e, {t \in DOMAIN mlast : mlast[t] = e /\ Get(mown, t, None) = None /\ AliveAtMaster(t) /\ KillsAtMaster(t) = 0}>>)
  + Soft("PostOrphan",
         \A t \in DOMAIN mfor : (mfor[t] = e /\ AliveAtMaster(t) /\ KillsAtMaster(t) = 0) => t \in SnapTasks,
         <<e, {t \in DOMAIN mfor : mfor[t] = e /\ AliveAtMaster(t) /\ KillsAtMaster(t) = 0 /\ t \notin SnapTasks}>>)
  + Soft("PostDetectors", SeqSet(Line.active_dets) = UNION {SeqSet(SnapEnv(x).dets) : x \in SnapEnvs}, Line.active_dets)

RECURSIVE SumPost(_)
SumPost(S) == IF S = {} THEN 0 ELSE LET x == CHOOSE y \in S : TRUE IN PostViol(x) + SumPost(S \ {x})

OrphViol(e) == Soft("OwnerListed", FALSE, <<e, {t \in SnapTasks : SnapTask(t).owner = e}>>)
RECURSIVE SumOrph(_)
SumOrph(S) == IF S = {} THEN 0 ELSE LET x == CHOOSE y \in S : TRUE IN OrphViol(x) + SumOrph(S \ {x})

MonSnapshot ==
  LET quiet == minfl = 0
      lists(t) == {e \in SnapEnvs : t \in SeqSet(SnapEnv(e).tasks)}
      alltasks == UNION {SeqSet(SnapEnv(e).tasks) : e \in SnapEnvs}
  IN
    Soft("OneOwner", \A t \in alltasks : Cardinality(lists(t)) <= 1, {t \in alltasks : Cardinality(lists(t)) > 1})
  \* at any time: the owner GetTask reports is the environment that locked the task last and has not released it since
  + Soft("OwnerAgrees", \A t \in SnapTasks : SnapTask(t).owner = (IF Get(mown, t, None) = None THEN "" ELSE mown[t]),
         {<<t, SnapTask(t).owner, Get(mown, t, None)>> : t \in {u \in SnapTasks : SnapTask(u).owner # (IF Get(mown, u, None) = None THEN "" ELSE mown[u])}})
  \* at any time: a task an environment owns stays in the roster (GetTasks), whatever is done for other environments
  + Soft("OwnedInRoster", \A t \in mrost : (Get(mown, t, None) # None /\ t \notin mlost) => t \in SnapTasks,
         {<<t, mown[t]>> : t \in {u \in mrost : Get(mown, u, None) # None /\ u \notin mlost /\ u \notin SnapTasks}})
  \* at any time: a task is owned only by an environment that is listed
  + SumOrph({e \in {SnapTask(t).owner : t \in SnapTasks} : e # "" /\ e \notin SnapEnvs})
  + Soft("DetExclusive", \A e1, e2 \in SnapEnvs : e1 # e2 => SeqSet(SnapEnv(e1).dets) \cap SeqSet(SnapEnv(e2).dets) = {},
         {<<e, SnapEnv(e).dets>> : e \in SnapEnvs})
  + (IF quiet
       THEN Soft("OwnerMatchesListing",
                 \A e \in SnapEnvs : \A t \in SeqSet(SnapEnv(e).tasks) : t \in SnapTasks => SnapTask(t).owner = e,
                 {<<e, t>> \in SnapEnvs \X alltasks : t \in SeqSet(SnapEnv(e).tasks) /\ t \in SnapTasks /\ SnapTask(t).owner # e})
          + SumPost({e \in DOMAIN mret : mret[e] # "none"})
          + (IF msame /\ msnap.ok THEN Soft("HolderUnchanged", Line.envs = msnap.envs, <<msnap.envs, Line.envs>>) ELSE 0)
          \* a Cleanup() that ran alone and returned OK has asked every task nobody owns to terminate
          + (IF mclean = "done"
               THEN Soft("CleanupKillsUnowned",
                         \A t \in SnapTasks : (SnapTask(t).owner = "" /\ AliveAtMaster(t) /\ t \notin mlost) => KillsAtMaster(t) > 0,
                         {t \in SnapTasks : SnapTask(t).owner = "" /\ AliveAtMaster(t) /\ t \notin mlost /\ KillsAtMaster(t) = 0})
               ELSE 0)
       ELSE 0)

MonStep ==
  LET a == Line.ev IN
  CASE a = "Hook" /\ Line.point = "task.kill.send" ->
         \* (a task whose executor or agent was reported lost is dead and unlocked on purpose)
         Soft("KillUnowned", ~Line.locked /\ (Get(mown, T, None) = None \/ T \in mlost), <<T, Line.locked, Get(mown, T, None)>>)
    [] a = "Hook" /\ Line.point = "task.kill.select" ->
         \* what a Cleanup() / KillTasks() takes out of the roster is owned by nobody
         Soft("SelectUnowned", Get(mown, T, None) = None \/ T \in mlost, <<T, Line.who, Get(mown, T, None)>>)
    [] a = "Hook" /\ Line.point = "task.lock" ->
         Soft("LockUnowned", Get(mown, T, None) \in {E, None}, <<T, E, Get(mown, T, None)>>)
    [] a = "Hook" /\ Line.point = "task.unlock" /\ Line.why = "release" ->
         Soft("ReleaseOwn", Get(mown, T, None) \in {E, None}, <<T, E, Get(mown, T, None)>>)
    [] a = "MMessage" ->
         Soft("CommandOwn", Get(mown, T, None) = E, <<Line.event, T, E, Get(mown, T, None)>>)
    [] a = "HookStart" /\ Line.trig \in {"DESTROY", "after_DESTROY"} ->
         Soft("DestroyHooksLast", \A t \in DOMAIN mown : mown[t] = E => Get(mrole, t, None) \in HookRolesOf(E),
              <<Line.hook, E, {t \in DOMAIN mown : mown[t] = E /\ Get(mrole, t, None) \notin HookRolesOf(E)}>>)
    [] a = "MTriggerHook" ->
         Soft("DestroyHooksLast", \A t \in DOMAIN mown : mown[t] = E => Get(mrole, t, None) \in HookRolesOf(E),
              <<T, E, {t \in DOMAIN mown : mown[t] = E /\ Get(mrole, t, None) \notin HookRolesOf(E)}>>)
    [] a = "ApiReply" /\ Line.timeout -> Soft("Returns", mode = "assume", <<Line.call, E>>)   \* (the lost report makes the creation wait)
    [] a = "ApiReply" /\ Line.call = "create" /\ Line.code = "OK" ->
         \* a create that needed a detector held by an environment that stayed live during the whole call must fail
         Soft("ConflictFails",
              \A h \in DOMAIN Get(mhold, E, EmptyF) : h \in DOMAIN mlive => mhold[E][h] \cap SeqSet(CEnv(E).dets) = {},
              <<E, CEnv(E).dets, Get(mhold, E, EmptyF)>>)
    [] a = "Pending" -> Soft("PendingCalls", Line.n <= Cardinality({e \in DOMAIN mlive : CEnv(e).pend}), Line.n)
    [] a = "Snapshot" -> MonSnapshot
    [] OTHER -> 0

MonUpdate ==
  LET a == Line.ev IN
  /\ mown' = IF a = "Hook" /\ Line.point = "task.lock" THEN Put(mown, T, E)
             ELSE IF a = "Hook" /\ Line.point = "task.unlock" /\ Get(mown, T, None) \in {E, None} THEN Put(mown, T, None)
             ELSE mown
  /\ mlast' = IF a = "Hook" /\ Line.point = "task.lock" THEN Put(mlast, T, E) ELSE mlast
  /\ mfor' = IF a = "MAccept" THEN [t \in DOMAIN mfor \cup {m[2] : m \in LaunchM} |->
                                      IF t \in DOMAIN mfor THEN mfor[t] ELSE Line.tasks[1].env]
             ELSE mfor
  /\ mrole' = IF a = "MAccept" THEN [t \in DOMAIN mrole \cup {m[2] : m \in LaunchM} |->
                                      IF t \in DOMAIN mrole THEN mrole[t] ELSE (CHOOSE m \in LaunchM : m[2] = t)[1]]
              ELSE mrole
  /\ mlost' = IF a = "Fault" THEN mlost \cup SeqSet(Line.tasks) ELSE mlost
  /\ mrost' = IF a = "Hook" /\ Line.point = "task.roster.appended" THEN mrost \cup {T} ELSE mrost
  /\ mkill' = IF a = "MKill" \/ (a = "Hook" /\ Line.point = "task.kill.send") THEN mkill \cup {T} ELSE mkill
  /\ mret' = IF a = "ApiReply" /\ Line.call = "destroy" /\ Line.code = "OK" THEN Put(mret, E, "destroy_ok")
             ELSE IF a = "ApiReply" /\ Line.call = "create" /\ Line.code # "OK" /\ ~Line.timeout THEN Put(mret, E, "create_err")
             ELSE mret
  /\ mkeep' = IF a = "ApiReply" /\ Line.call = "destroy" /\ Line.code = "OK" /\ Line.keep THEN mkeep \cup {E}
              ELSE mkeep
  /\ minfl' = IF a = "Api" THEN minfl + 1 ELSE IF a = "ApiReply" THEN minfl - 1 ELSE minfl
  /\ mtrig' = IF a = "MTriggerHook" THEN Put(mtrig, E, Get(mtrig, E, {}) \cup {T})
              ELSE IF a = "Hook" /\ Line.point = "env.teardown.phase" /\ Line.phase = "left" THEN Put(mtrig, E, {})
              ELSE mtrig
  /\ mgone' = IF a = "Api" /\ Line.call = "destroy" THEN mgone \cup {E} ELSE mgone
  /\ mlive' = IF a = "ApiReply" /\ Line.call = "create" /\ Line.code = "OK" /\ E \notin mgone THEN Put(mlive, E, SeqSet(CEnv(E).dets))
              ELSE IF a = "Api" /\ Line.call = "destroy" THEN [e \in DOMAIN mlive \ {E} |-> mlive[e]]
              ELSE mlive
  /\ mhold' = IF a = "Api" /\ Line.call = "create" THEN Put(mhold, E, mlive)
              ELSE IF a = "Api" /\ Line.call = "destroy"
                     THEN [c \in DOMAIN mhold |-> [h \in DOMAIN mhold[c] \ {E} |-> mhold[c][h]]]
              ELSE mhold
  /\ msnap' = IF a = "Snapshot" /\ minfl = 0 THEN [ok |-> TRUE, envs |-> Line.envs]
              ELSE IF a = "Api" /\ ~(Line.call = "create" /\ minfl = 0) THEN [ok |-> FALSE, envs |-> <<>>]
              ELSE IF a = "Snapshot" THEN [ok |-> FALSE, envs |-> <<>>] ELSE msnap
  /\ msame' = IF a = "ApiReply" /\ Line.call = "create" /\ Line.inuse /\ minfl = 1 THEN TRUE
              ELSE IF a \in {"Snapshot", "Api"} THEN FALSE ELSE msame
  /\ mclean' = IF a = "Api" THEN (IF Line.call = "cleanup" /\ minfl = 0 THEN "run" ELSE "no")
               ELSE IF a = "ApiReply" THEN (IF Line.call = "cleanup" /\ mclean = "run" /\ Line.code = "OK" THEN "done" ELSE "no")
               ELSE IF a = "Snapshot" THEN "no" ELSE mclean

(* ============================== the run ================================== *)
ModelInit ==
  /\ cpc' = [e \in Envs |-> "none"] /\ dpc' = [e \in Envs |-> "idle"] /\ xpc' = [e \in Envs |-> "idle"] /\ kpc' = "idle"
  /\ wf' = [e \in Envs |-> NoWf] /\ script' = [e \in Envs |-> "ok"] /\ dets' = [e \in Envs |-> {}]
  /\ dfl' = [e \in Envs |-> {}] /\ xop' = [e \in Envs |-> None]
  /\ snap' = [e \in Envs |-> {}] /\ listed' = {} /\ est' = [e \in Envs |-> "STANDBY"] /\ elock' = [e \in Envs |-> "free"]
  /\ pend' = [e \in Envs |-> FALSE]
  /\ apc' = [e \in Envs |-> "idle"] /\ att' = [e \in Envs |-> 1] /\ cur' = [e \in Envs |-> {}] /\ claimed' = [e \in Envs |-> {}]
  /\ roleTask' = [e \in Envs |-> NoRoles]
  /\ tdp' = [e \in Envs |-> "idle"] /\ tdwho' = [e \in Envs |-> None] /\ tdforce' = [e \in Envs |-> FALSE]
  /\ relq' = [e \in Envs |-> {}] /\ msg2' = [e \in Envs |-> {}] /\ relerr' = [e \in Envs |-> FALSE]
  /\ dforced' = [e \in Envs |-> FALSE] /\ dkeepEff' = [e \in Envs |-> FALSE] /\ dplan' = [e \in Envs |-> None]
  /\ ktargets' = [e \in Envs |-> {}]
  /\ kq' = [k \in Killers |-> {}] /\ ksent' = [k \in Killers |-> {}] /\ ksel' = [k \in Killers |-> {}]
  /\ kpre' = [k \in Killers |-> {}] /\ kact' = [k \in Killers |-> {}] /\ kdrop' = [k \in Killers |-> {}]
  /\ kst' = [k \in Killers |-> "idle"]
  /\ tenv' = [t \in TaskIds |-> None] /\ trole' = [t \in TaskIds |-> None] /\ owner' = [t \in TaskIds |-> None]
  /\ inRoster' = [t \in TaskIds |-> FALSE] /\ appended' = [t \in TaskIds |-> FALSE] /\ running' = [t \in TaskIds |-> FALSE] /\ standby' = [t \in TaskIds |-> TRUE]
  /\ blank' = [t \in TaskIds |-> FALSE] /\ werr' = [e \in Envs |-> FALSE]
  /\ alive' = [t \in TaskIds |-> FALSE] /\ triggered' = [t \in TaskIds |-> FALSE] /\ killSent' = [t \in TaskIds |-> FALSE]
  /\ lastOwner' = [t \in TaskIds |-> None] /\ killedOwned' = FALSE /\ cmdForeign' = FALSE
  /\ conflictIn' = FALSE /\ hooksEarly' = FALSE /\ crashed' = FALSE
  /\ cret' = [e \in Envs |-> "none"] /\ dret' = [e \in Envs |-> "none"] /\ dkeep' = [e \in Envs |-> FALSE]
  /\ ncalls' = 0

TReset ==
  /\ Line.ev = "Reset"
  /\ ModelInit
  \* (strict = FALSE: a hand-scheduled scenario outside the schedules LifecycleGen produces: monitor only)
  /\ scn' = Line.scn /\ case' = Line.model /\ mode' = (IF Line.model.strict THEN "ok" ELSE "lost") /\ nviol' = nviol /\ l' = l + 1
  /\ mown' = EmptyF /\ mlast' = EmptyF /\ mfor' = EmptyF /\ mrole' = EmptyF /\ mkill' = {} /\ mlost' = {} /\ mrost' = {} /\ mret' = EmptyF /\ mkeep' = {}
  /\ minfl' = 0 /\ mtrig' = EmptyF /\ mgone' = {} /\ mlive' = EmptyF /\ mhold' = EmptyF /\ msnap' = [ok |-> FALSE, envs |-> <<>>] /\ msame' = FALSE /\ mclean' = "no"

\* a silent step of the code: the line is not consumed
\* The simulated agents report TASK_RUNNING once the task is in the roster, or after 3 s: on a loaded machine a
\* creation parked at a gate can exceed that.  The core then loses the report (real executors take far longer to
\* start, the model leaves this out): the scenario is not followed any further, the monitor goes on.
EarlyReport == Line.ev = "MUpdate" /\ Line.state = "TASK_RUNNING" /\ T \notin mrost

TSilent ==
  /\ Line.ev # "Reset" /\ mode = "ok" /\ ~IsTimeout /\ ~EarlyReport
  /\ \/ Eager
     \/ EagerCands = {} /\ IsModelLine /\ ~ENABLED Direct /\ LazyFor
  /\ UNCHANGED tvars2

NoSilent == EagerCands = {} /\ ~(IsModelLine /\ (LazyCands # {} \/ SkipCands # {}) /\ ~ENABLED Direct)

\* the line is the model action it names
TMatch ==
  /\ Line.ev # "Reset" /\ mode = "ok" /\ NoSilent /\ ~IsTimeout /\ ~EarlyReport
  /\ IF IsModelLine THEN Direct
     ELSE IF Line.ev = "Snapshot" THEN SnapConforms /\ UNCHANGED vars
     ELSE UNCHANGED vars
  /\ nviol' = nviol + MonStep /\ MonUpdate
  /\ l' = l + 1 /\ UNCHANGED <<mode, scn, case>>

\* a call that did not return within the deadline of the harness: the monitor reports it (Returns); what the
\* core does from here on is not followed
TTimeout ==
  /\ Line.ev # "Reset" /\ mode = "ok" /\ IsTimeout
  /\ mode' = "lost" /\ nviol' = nviol + MonStep /\ MonUpdate
  /\ l' = l + 1 /\ UNCHANGED <<vars, scn, case>>

TAssume ==
  /\ Line.ev # "Reset" /\ mode \in {"ok", "lost"} /\ EarlyReport
  /\ PrintT(<<"ASSUME", scn, l, "report-before-roster">>)
  /\ mode' = "assume" /\ nviol' = nviol + MonStep /\ MonUpdate
  /\ l' = l + 1 /\ UNCHANGED <<vars, scn, case>>

\* ... or it is not: report and skip to the next scenario (the monitor goes on)
TDrift ==
  /\ Line.ev # "Reset" /\ mode = "ok" /\ NoSilent /\ ~IsTimeout /\ ~EarlyReport
  /\ IF IsModelLine THEN ~ENABLED Direct ELSE (Line.ev = "Snapshot" /\ ~SnapConforms)
  /\ PrintT(<<"DRIFT", scn, l, IF Line.ev = "Hook" THEN <<Line.point, Line.env, Line.task, Line.what, Line.phase>>
                                ELSE IF Line.ev \in {"Api", "ApiReply"} THEN <<Line.ev, Line.call, Line.env>> ELSE Line.ev>>)
  /\ mode' = "lost" /\ nviol' = nviol + MonStep /\ MonUpdate
  /\ l' = l + 1 /\ UNCHANGED <<vars, scn, case>>

TLost ==
  /\ Line.ev # "Reset" /\ (mode = "assume" \/ (mode = "lost" /\ ~EarlyReport))
  /\ nviol' = nviol + MonStep /\ MonUpdate
  /\ l' = l + 1 /\ UNCHANGED <<vars, mode, scn, case>>

TraceInit ==
  /\ Init
  /\ l = 1 /\ mode = "lost" /\ scn = -1 /\ case = NoCase /\ nviol = 0
  /\ mown = EmptyF /\ mlast = EmptyF /\ mfor = EmptyF /\ mrole = EmptyF /\ mkill = {} /\ mlost = {} /\ mrost = {} /\ mret = EmptyF /\ mkeep = {}
  /\ minfl = 0 /\ mtrig = EmptyF /\ mgone = {} /\ mlive = EmptyF /\ mhold = EmptyF /\ msnap = [ok |-> FALSE, envs |-> <<>>] /\ msame = FALSE /\ mclean = "no"

TraceNext ==
  /\ l <= Len(Trace)
  /\ TReset \/ TSilent \/ TMatch \/ TTimeout \/ TAssume \/ TDrift \/ TLost

TraceSpec == TraceInit /\ [][TraceNext]_<<vars, tvars2>>
PrintEnd == (l = Len(Trace) + 1) => PrintT(<<"END", Len(Trace), nviol>>)
=============================================================================
