----------------------------- MODULE RestartGen -----------------------------
(***************************************************************************)
(* Scenario generator for Restart: the same actions, restricted to the     *)
(* schedules the whole-core simulation can impose on the real core:        *)
(*  - the driver issues its next request (create / START / destroy) only   *)
(*    when the previous one is over and recovery has settled;              *)
(*  - the core is killed / the event stream is dropped only at points      *)
(*    where the driver can hold the system: between requests, at the       *)
(*    ACCEPT call (kill only), while the launched tasks are still staging  *)
(*    (before / after the roster is written), while the CONFIGURE or START *)
(*    command is on its way, while the KILL calls of a teardown or of a    *)
(*    reconciliation are on their way (kill), while the answer to a         *)
(*    RECONCILE call is on its way (drop: the answer is lost);              *)
(*  - one KILL call of a reconciliation round may be refused by the master *)
(*    or accepted and lost; the disconnection that is then due comes once  *)
(*    the round is over - after a lost one possibly only after further     *)
(*    requests of the driver (an environment deployed in between);         *)
(*  - the RECONCILE call of a subscription may be held at the master while *)
(*    the driver asks for an environment: the answer is delivered while    *)
(*    that deployment waits for its offers (REVIVE held);                  *)
(*  - ERROR events from the master, cleanup requests naming the tasks of a  *)
(*    live environment: between requests, recovery settled;                *)
(*  - while a teardown is held at its KILL calls (or parked between the    *)
(*    read and the write-back of the roster) the driver may create another *)
(*    environment; the teardown goes on when that request is over.         *)
(* Each action is wrapped in G_<Action> so that TLC labels the steps.      *)
(***************************************************************************)
EXTENDS Restart

\* The generator's own clock: the first fault comes at a depth drawn at the start, the following ones
\* after a drawn gap, so that the simulated behaviours reach the late phases of an environment's life.
CONSTANTS FaultStarts, FaultGaps,
          CoreOpts   \* core option sets the property must be indifferent to (--mesosCheckpoint, --mesosFailoverTimeout > 0, ...):
                     \* drawn at the start, the core of every life of the scenario is started with them
VARIABLES tick, fstart, whole,  \* whole: no update of the last RECONCILE answer has been delivered yet
          flav,                 \* how the last lost KILL call was lost: "" | "lost" | "refused" | "refusedmany" (others alive)
          ovl,                  \* 0 | 1: a deployment wrote the roster while a teardown was held | 2: ... and the stream
                                \* was dropped after that teardown was over
          owdep,                \* the stream was dropped while a KILL was lost AND an environment had been deployed since
          dda,                  \* an environment was requested while the whole answer to a RECONCILE call was still pending
          opt,                  \* the core options of this scenario (an element of CoreOpts); nothing in Restart depends on it
          ee,                   \* the master has sent an ERROR event on the stream in this life
          cln                   \* 0 | 1: a cleanup request named the tasks of a live environment | 2: ... and the stream ended since
gvars == <<vars, tick, fstart, whole, flav, ovl, owdep, dda, opt, ee, cln>>
HK == ee' = ee /\ cln' = cln
Keep == flav' = flav /\ ovl' = ovl /\ owdep' = owdep /\ dda' = dda
Tk == tick' = tick + 1 /\ opt' = opt /\ HK /\ fstart' = fstart /\ whole' = whole /\ Keep
TkW(b) == tick' = tick + 1 /\ opt' = opt /\ HK /\ fstart' = fstart /\ whole' = b /\ Keep
TkF == tick' = tick + 1 /\ opt' = opt /\ fstart' \in {tick + g : g \in FaultGaps} /\ whole' = whole /\ dda' = dda

Settled == rq = {} /\ rcv = {}
Quiet == up /\ conn = "up" /\ rq = {} /\ rcv = {} /\ kq = {}
NoneTransient == \A e \in Envs : env[e] \notin Transient
\* (a KILL accepted and lost is noticed by nobody: the driver goes on, the disconnection that is due comes when it likes;
\* after a refused one the core's HTTP client re-subscribes by itself within a second: the driver waits for that)
DriverFree == Quiet /\ NoneTransient /\ (~owed \/ flav = "lost")
\* a teardown held by the driver, nothing else going on
TeardownHeld == \E e \in Envs : env[e] \in {"rewriting", "killing"} /\ \A o \in Envs \ {e} : env[o] \notin Transient
OthersDone(e) == \A o \in Envs \ {e} : env[o] \notin Transient
AllStaging(e) == \A t \in etasks[e] : mt[t].st = "staging"

FaultEnvOK(kind) ==
  /\ Cardinality({e \in Envs : env[e] \in Transient}) <= 1
  /\ \A e \in Envs :
       \/ env[e] \notin Transient
       \/ env[e] = "deploying" /\ kind = "crash"
       \/ env[e] \in {"locked", "deployed"} /\ AllStaging(e)
       \/ env[e] = "launched" /\ AllStaging(e) /\ kind = "crash"
       \/ env[e] \in {"configuring", "starting", "killing"}
Something == (\E e \in Envs : env[e] # "none") \/ (\E t \in Tasks : Alive(t))

G_CoreStart == CoreStart /\ Tk
G_Subscribe == Subscribe /\ Tk
G_Resubscribe == Resubscribe /\ Tk
G_Subscribed(id) == Subscribed(id) /\ Tk
G_StoreFid == StoreFid /\ Tk
G_Reconcile == Reconcile /\ TkW(TRUE)
G_ReconcileUpdate(t) == ReconcileUpdate(t) /\ TkW(FALSE)
G_KillOnReconcile(t) == KillOnReconcile(t) /\ Tk
G_KillArrives(t) == KillArrives(t) /\ Tk
TkL(f) == tick' = tick + 1 /\ opt' = opt /\ HK /\ fstart' = fstart /\ whole' = whole /\ flav' = f /\ ovl' = ovl /\ owdep' = owdep /\ dda' = dda
G_KillLost(t) == NoneTransient /\ ~owed /\ KillLost(t) /\ TkL("lost")
G_KillRefused(t) ==
  /\ NoneTransient /\ ~owed /\ KillRefused(t)
  /\ TkL(IF Cardinality({x \in Tasks : Alive(x)}) >= 2 THEN "refusedmany" ELSE "refused")
G_RefreshOnReconcile(t) == RefreshOnReconcile(t) /\ Tk

\* (the RECONCILE call of a subscription held at the master: the driver may ask for an environment before the answer comes;
\* the answer is then delivered while that deployment waits for its offers, before anything is launched)
AnswerHeld == up /\ conn = "up" /\ whole /\ rq # {} /\ rcv = {} /\ kq = {} /\ NoneTransient /\ ~owed
G_NewEnv(e) ==
  /\ (DriverFree \/ (Quiet /\ ~owed /\ TeardownHeld) \/ AnswerHeld) /\ NewEnv(e)
  /\ tick' = tick + 1 /\ opt' = opt /\ HK /\ fstart' = fstart /\ whole' = whole /\ flav' = flav /\ ovl' = ovl /\ owdep' = owdep
  /\ dda' = (dda \/ AnswerHeld)
G_Launch(e, S) == Settled /\ Launch(e, S) /\ Tk
G_Lock(e) == Lock(e) /\ Tk
\* (a deployment parked by the driver, like a report held back by it, is let go only once recovery has settled)
G_RosterAppend(e) ==
  /\ (conn # "up" \/ Settled) /\ RosterAppend(e)
  /\ tick' = tick + 1 /\ opt' = opt /\ HK /\ fstart' = fstart /\ whole' = whole /\ flav' = flav /\ owdep' = owdep /\ dda' = dda
  /\ ovl' = IF \E o \in Envs \ {e} : env[o] \in {"rewriting", "killing"} THEN 1 ELSE ovl
\* the agent's report is held back until the roster is written and the event stream can carry it (a report
\* sent while the stream is down is lost; Restart does not model what the core has learned), or the core is gone
G_TaskRunning(t) == (~up \/ (t \in roster /\ conn = "up" /\ Settled)) /\ TaskRunning(t) /\ Tk
G_ConfigureSend(e) == ConfigureSend(e) /\ Tk
G_ConfigureDone(e) == Quiet /\ ConfigureDone(e) /\ Tk
G_StartSend(e) == DriverFree /\ StartSend(e) /\ Tk
G_StartDone(e) == Quiet /\ StartDone(e) /\ Tk
G_Release(e) == DriverFree /\ Release(e) /\ Tk
G_RosterRemove(e) == RosterRemove(e) /\ Tk
G_RosterRead(e) == RosterRead(e) /\ Tk
G_RosterWrite(e) == Quiet /\ OthersDone(e) /\ RosterWrite(e) /\ Tk
G_KillSend(e) == Quiet /\ OthersDone(e) /\ KillSend(e) /\ Tk
G_EnvError(e) == EnvError(e) /\ Tk

\* kill: recovery settled, or while the KILL calls of a reconciliation are being sent
G_Crash ==
  /\ tick >= fstart /\ up /\ conn = "up" /\ rq = {} /\ FaultEnvOK("crash") /\ ((rcv = {} /\ kq = {}) \/ NoneTransient) /\ Something
  /\ ~(\E e \in Envs : env[e] = "deploying" /\ (rq # {} \/ rcv # {} \/ kq # {}))
  /\ Crash /\ TkF /\ flav' = flav /\ ovl' = 0 /\ owdep' = FALSE /\ ee' = FALSE /\ cln' = 0
\* drop: recovery settled, or while the whole answer to a RECONCILE call is still on its way (it is lost)
AnswerPending == rq # {} /\ whole /\ NoneTransient
G_DropConnection ==
  /\ (tick >= fstart \/ owed) /\ up /\ conn = "up" /\ rcv = {} /\ kq = {} /\ (rq = {} \/ (AnswerPending /\ ~owed))
  /\ FaultEnvOK("drop") /\ Something
  /\ DropConnection /\ TkF /\ flav' = flav /\ ovl' = (IF ovl = 1 /\ NoneTransient THEN 2 ELSE ovl)
  /\ owdep' = (owdep \/ (owed /\ \E e \in Envs : env[e] \in {"configured", "running"}))
  /\ ee' = ee /\ cln' = (IF cln = 1 THEN 2 ELSE cln)
\* an ERROR event: recovery settled, nothing in progress
G_StreamError ==
  /\ tick >= fstart /\ Quiet /\ ~owed /\ NoneTransient /\ Something
  /\ StreamError /\ TkF /\ flav' = flav /\ ovl' = ovl /\ owdep' = owdep /\ ee' = TRUE /\ cln' = (IF cln = 1 THEN 2 ELSE cln)
G_CleanupNamed(e) ==
  /\ DriverFree /\ cln = 0 /\ CleanupNamed(e)
  /\ tick' = tick + 1 /\ opt' = opt /\ fstart' = fstart /\ whole' = whole /\ Keep /\ ee' = ee /\ cln' = 1

GenNext ==
  \/ G_CoreStart \/ G_Subscribe \/ G_Resubscribe \/ (\E id \in 1..(MaxCrash + 2) : G_Subscribed(id)) \/ G_StoreFid \/ G_Reconcile
  \/ \E t \in Tasks : G_ReconcileUpdate(t) \/ G_KillOnReconcile(t) \/ G_RefreshOnReconcile(t) \/ G_TaskRunning(t)
                     \/ G_KillArrives(t) \/ G_KillLost(t) \/ G_KillRefused(t)
  \/ \E e \in Envs : \/ G_NewEnv(e) \/ (\E S \in SUBSET Tasks : G_Launch(e, S)) \/ G_Lock(e) \/ G_RosterAppend(e)
                     \/ G_ConfigureSend(e) \/ G_ConfigureDone(e) \/ G_StartSend(e) \/ G_StartDone(e)
                     \/ G_Release(e) \/ G_RosterRemove(e) \/ G_RosterRead(e) \/ G_RosterWrite(e) \/ G_KillSend(e) \/ G_EnvError(e)
                     \/ G_CleanupNamed(e)
  \/ G_Crash \/ G_DropConnection \/ G_StreamError

GenInit == Init /\ tick = 0 /\ fstart \in FaultStarts /\ whole = FALSE /\ flav = "" /\ ovl = 0 /\ owdep = FALSE /\ dda = FALSE /\ opt \in CoreOpts /\ ee = FALSE /\ cln = 0
GenSpec == GenInit /\ [][GenNext]_gvars
TickBound == tick < 48

\* Probes: "invariants" whose shortest counterexamples are the scenario shapes every run must contain.
AllDead == \A t \in Tasks : ~Alive(t)
Recovered == Quiet /\ ~owed /\ nsubl >= 2 /\ NoneTransient
\* leftovers of a previous life, a KILL accepted and lost, the round that is due, everything dead
ProbeLostKill == ~(flav = "lost" /\ life >= 2 /\ Recovered /\ AllDead)
\* the same with a KILL refused while other leftovers keep the core talking to the master
ProbeRefusedKill == ~(flav = "refusedmany" /\ life >= 2 /\ Recovered /\ AllDead)
\* leftovers, a KILL accepted and lost, an environment deployed by the new life, only then the reconnection: the
\* leftover is reported again (the reconciliation is about all the tasks of the framework, not about the roster) and killed
ProbeLostKillDeployed == ~(owdep /\ life >= 2 /\ Recovered /\ \A t \in Tasks : Alive(t) => Owned(t))
\* leftovers, the new life asked for an environment before the reconciliation answer comes: the answer is handled while
\* the deployment waits for its offers - the leftovers are killed all the same, the environment comes up
ProbeDeployDuringAnswer ==
  ~(dda /\ life >= 2 /\ Quiet /\ NoneTransient /\ (\E e \in Envs : env[e] = "configured") /\ \A t \in Tasks : Alive(t) => Owned(t))
\* an ERROR event from the master while an environment is up: same identity afterwards, the environment unharmed
\* (in the first life of an installation - the id was assigned, not loaded - and in a later one)
ProbeErrorEvent == ~(ee /\ life = 1 /\ Recovered /\ \E e \in Envs : env[e] = "configured")
ProbeErrorEventLater == ~(ee /\ life >= 2 /\ Recovered /\ \E e \in Envs : env[e] = "configured")
\* a cleanup request naming the tasks of a live environment, then a reconnection: they are still its tasks
ProbeCleanupNamed == ~(cln = 2 /\ Recovered /\ \E e \in Envs : env[e] = "configured")
\* a deployment completed while a teardown was held, that teardown over, then a reconnection
ProbeOverlap == ~(ovl = 2 /\ Recovered /\ \E e \in Envs : env[e] = "configured")
=============================================================================
