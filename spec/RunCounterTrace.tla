-------------------------- MODULE RunCounterTrace --------------------------
(***************************************************************************)
(* Trace specification binding spec/RunCounter.tla to recorded executions   *)
(* of the real GetNextUInt32 / NewRunNumber against the simulated Consul     *)
(* (harness/cmd/runcounter).  One TLC run validates many recorded runs       *)
(* (separated by "Reset" lines) and does two things at once:                 *)
(*  - conformance (strict): every recorded step must be the RunCounter       *)
(*    action it names: the call issues exactly one consistent GET, then one  *)
(*    PUT ?cas=<the ModifyIndex it read> with <the value it read>+1, and      *)
(*    returns the number iff the CAS was accepted; the key and Consul's       *)
(*    index after the step must equal the model's.  A mismatch prints a      *)
(*    DRIFT record; the run continues in "lost" mode until the next Reset.   *)
(*  - the monitor: independent of the model state, the property formulas are *)
(*    evaluated on the recorded facts (what the server did for each request, *)
(*    what each call returned, in which order calls started and returned);   *)
(*    a failure prints a VIOL record (soft invariant).                        *)
(* Numbers are recorded through the order-preserving map described in the    *)
(* driver (2^32-1 is MaxU = 1999999999).                                     *)
(***************************************************************************)
EXTENDS RunCounter, Json, IOUtils

Trace == ndJsonDeserialize(IOEnv.TRACE_FILE)

VARIABLES l,       \* next line of Trace
          mode,    \* "ok" | "lost"
          scn,     \* current scenario id
          mnums,   \* monitor: numbers returned to callers so far
          mfloor,  \* monitor: per call, the largest number returned before the call started
          mrd,     \* monitor: per call, its last served GET: [ver, val]
          mw,      \* monitor: per call, the effect of its last write request: [ok, val, dist]
          mver,    \* monitor: number of successful writes of the key so far
          mflt,    \* monitor: calls hit by an injected fault
          nviol    \* number of soft violations so far

tvars == <<l, mode, scn, mnums, mfloor, mrd, mw, mver, mflt, nviol>>
allvars == <<vars, tvars>>

Line == Trace[l]
Has(f) == f \in DOMAIN Line
Req == Line.req
Nxt == Line.nxt
C == Line.c
ToSet(s) == {s[i] : i \in 1..Len(s)}
RecKV == [present |-> Line.kv.present, val |-> Line.kv.val, idx |-> Line.kv.idx]

Soft(name, cond, detail) ==
  IF cond THEN 0
  ELSE IF PrintT(<<"VIOL", name, scn, l, detail>>) THEN 1 ELSE 1

(* ---------------- conformance ---------------- *)
ModelAct ==
  LET a == Line.ev IN
  CASE a = "Start" ->
         /\ Start(C) /\ Line.gen = gen
         /\ ~Line.ret /\ Nxt.m = "GET" /\ Nxt.cons /\ Nxt.keyok
    [] a = "Read" ->
         /\ Read(C)
         /\ Req.m = "GET" /\ Req.cons /\ Req.found = kv.present
         /\ (kv.present => Req.rv = kv.val /\ Req.ri = kv.idx)
         /\ IF pc'[C] = "cas"
              THEN ~Line.ret /\ Nxt.m = "PUT" /\ Nxt.keyok /\ Nxt.cas = loc'[C].idx /\ Nxt.val = loc'[C].n
              ELSE Line.ret /\ ~Line.rok /\ Nxt.m = "none"
    [] a = "Cas" ->
         /\ Cas(C) /\ Req.m = "PUT" /\ Req.ok = loc'[C].ok /\ ~Line.ret
    [] a = "Return" ->
         /\ Return(C) /\ Line.ret /\ Nxt.m = "none"
         /\ Line.rok = (pc'[C] = "done") /\ (Line.rok => Line.n = got'[C])
    [] a = "Crash" -> Crash(C) /\ ~Line.ret
    [] a = "NetFail" -> NetFail(C) /\ Line.ret /\ ~Line.rok /\ Nxt.m = "none"
    [] a = "ForeignWrite" -> ForeignWrite(Line.v)
    [] a = "Restart" ->
         /\ Restart /\ gen' = Line.gen
         /\ ToSet(Line.dead) = {c \in Clients : InFlight(c)}
    [] OTHER -> FALSE

ObsMatchNext == kv' = RecKV /\ gidx' = Line.gidx

Matched == ModelAct /\ ObsMatchNext

(* ---------------- monitor ---------------- *)
MaxOf(S) == IF S = {} THEN -1 ELSE CHOOSE x \in S : \A y \in S : y <= x

MonitorStep ==
  LET a    == Line.ev
      get  == a \in {"Read", "Extra"} /\ Req.m = "GET"
      put  == a \in {"Cas", "Extra"} /\ Req.m = "PUT"
      rd2  == IF get THEN (C :> [ver |-> mver, val |-> IF Req.found THEN Req.rv ELSE 0]) @@ mrd ELSE mrd
      w2   == IF put THEN (C :> [ok |-> Req.ok, val |-> Req.val,
                                 dist |-> (C \notin DOMAIN mrd \/ mrd[C].ver # mver)]) @@ mw
                     ELSE mw
      ver2 == mver + (IF (put /\ Req.ok) \/ a = "ForeignWrite" THEN 1 ELSE 0)
      flt2 == IF a \in {"NetFail", "Crash"} THEN mflt \cup {C}
              ELSE IF a = "Restart" THEN mflt \cup ToSet(Line.dead) ELSE mflt
      ret  == Line.ret
      num  == ret /\ Line.rok
      n    == Line.n
      flo  == IF C \in DOMAIN mfloor THEN mfloor[C] ELSE -1
  IN
  /\ mrd' = rd2 /\ mw' = w2 /\ mver' = ver2 /\ mflt' = flt2
  /\ mfloor' = IF a = "Start" THEN (C :> MaxOf(mnums)) @@ mfloor ELSE mfloor
  /\ mnums' = IF num THEN mnums \cup {n} ELSE mnums
  /\ nviol' = nviol
       + Soft("Unique", num => n \notin mnums, <<C, n>>)
       + Soft("Increasing", num => n > flo, <<C, n, flo>>)
       + Soft("FailNotReuse", (ret /\ C \in DOMAIN w2 /\ ~w2[C].ok) => ~Line.rok, <<C, n>>)
       + Soft("NoNumberWithoutCas", num => (C \in DOMAIN w2 /\ w2[C].ok /\ w2[C].val = n), <<C, n>>)
       + Soft("UndisturbedSucceeds",
              (ret /\ ~Line.rok) => \/ C \in flt2
                                    \/ (C \in DOMAIN w2 /\ ~w2[C].ok /\ w2[C].dist)
                                    \/ (C \in DOMAIN rd2 /\ rd2[C].val = MaxU /\ C \notin DOMAIN w2),
              <<C, IF Has("err") THEN Line.err ELSE "">>)

IsStep == Line.ev \notin {"Reset", "End", "HarnessError", "Stress"}

\* a free-running run (no schedule imposed, callers of one core racing): judged on the numbers handed out
RECURSIVE FlatNums(_)
FlatNums(ns) == IF Len(ns) = 0 THEN <<>> ELSE ns[1] \o FlatNums(Tail(ns))
TStress ==
  /\ l <= Len(Trace) /\ Line.ev = "Stress"
  /\ LET all == FlatNums(Line.nums)
         set == {all[i] : i \in 1..Len(all)}
         lo == IF Line.before.present THEN Line.before.val ELSE 0
     IN nviol' = nviol
          + Soft("Unique", Cardinality(set) = Len(all), <<"stress", Len(all), Cardinality(set)>>)
          + Soft("Increasing", \A c \in 1..Len(Line.nums) : \A i \in 1..(Len(Line.nums[c]) - 1) : Line.nums[c][i] < Line.nums[c][i + 1],
                 <<"stress: a caller's own numbers">>)
          \* every number handed out lies above the counter at the start and was written: not above the counter at the end
          + Soft("NoNumberWithoutCas", \A n \in set : n > lo /\ n <= Line.after.val, <<"stress", lo, Line.after.val>>)
  /\ l' = l + 1 /\ UNCHANGED <<vars, mode, scn, mnums, mfloor, mrd, mw, mver, mflt>>

TStepOk ==
  /\ l <= Len(Trace) /\ IsStep /\ mode = "ok"
  /\ Matched
  /\ MonitorStep
  /\ l' = l + 1 /\ UNCHANGED <<mode, scn>>

TStepDrift ==
  /\ l <= Len(Trace) /\ IsStep /\ mode = "ok"
  /\ ~ENABLED Matched
  /\ PrintT(<<"DRIFT", scn, l, Line.ev>>)
  /\ MonitorStep
  /\ mode' = "lost" /\ l' = l + 1 /\ UNCHANGED <<vars, scn>>

TStepLost ==
  /\ l <= Len(Trace) /\ IsStep /\ mode = "lost"
  /\ MonitorStep
  /\ l' = l + 1 /\ UNCHANGED <<vars, mode, scn>>

TReset ==
  /\ l <= Len(Trace) /\ Line.ev = "Reset"
  /\ kv' = RecKV /\ gidx' = Line.gidx          \* RunCounter!InitWith on the primed variables
  /\ pc' = [c \in Clients |-> "idle"]
  /\ loc' = [c \in Clients |-> NoLoc]
  /\ issued' = <<>>
  /\ got' = [c \in Clients |-> NoNum]
  /\ pred' = [c \in Clients |-> {}]
  /\ nforeign' = 0 /\ nfault' = 0 /\ gen' = 0 /\ hist' = {}
  /\ mode' = "ok" /\ scn' = Line.scn
  /\ mnums' = {} /\ mfloor' = <<>> /\ mrd' = <<>> /\ mw' = <<>> /\ mver' = 0 /\ mflt' = {}
  /\ l' = l + 1 /\ UNCHANGED nviol

\* end of a run: a caller that was declared dead can not have delivered a number
TEnd ==
  /\ l <= Len(Trace) /\ Line.ev \in {"End", "HarnessError"}
  /\ nviol' = nviol + (IF Line.ev = "End" THEN Soft("NoNumberWithoutCas", Line.deadnumbers = 0, <<"dead", Line.deadnumbers>>) ELSE 0)
  /\ l' = l + 1 /\ UNCHANGED <<vars, mode, scn, mnums, mfloor, mrd, mw, mver, mflt>>

TraceInit ==
  /\ InitWith(Absent, 0)
  /\ l = 1 /\ mode = "lost" /\ scn = -1
  /\ mnums = {} /\ mfloor = <<>> /\ mrd = <<>> /\ mw = <<>> /\ mver = 0 /\ mflt = {} /\ nviol = 0

TraceNext == TStepOk \/ TStepDrift \/ TStepLost \/ TReset \/ TEnd \/ TStress

TraceSpec == TraceInit /\ [][TraceNext]_allvars

Done == l = Len(Trace) + 1
PrintEnd == Done => PrintT(<<"END", Len(Trace), nviol>>)
=============================================================================
