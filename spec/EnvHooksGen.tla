----------------------------- MODULE EnvHooksGen -----------------------------
(* Case generator / predictor for EnvHooks: calls return at once (deterministic),  *)
(* every configuration of the catalogue is run to its end and printed with the     *)
(* results the model predicts (per request: event, ok, state after).               *)
EXTENDS EnvHooksMC, Json
GenNext == IF live # {} THEN \E c \in live : c = (CHOOSE x \in live : TRUE) /\ CallReturns(c)
           ELSE Request \/ PassBegin \/ StartCalls \/ AwaitCalls \/ PassEnd \/ Builtin \/ Body \/ Flip \/ End \/ Followup \/ TeardownStep
GenSpec == Init /\ [][GenNext]_vars
Pred == [i \in 1..Len(results) |-> [ev |-> results[i].ev, ok |-> results[i].ok, st |-> results[i].st]]
HookRecs == {[id |-> h, tm |-> Trig[h][1], tw |-> Trig[h][2], am |-> Await[h][1], aw |-> Await[h][2], crit |-> Crit[h], fails |-> h \in Fails, once |-> h \in Once] : h \in Hooks}
PrintCase == Finished => PrintT(<<"CASE", ToJson([hooks |-> HookRecs, plan |-> Plan, bodyfails |-> BodyFails, pred |-> Pred, quiet |-> Quiet])>>)
=============================================================================
