---------------------------- MODULE ConfigQuerySvc ----------------------------
(***************************************************************************)
(* C20, the HISTORY part: one long-lived apricot/local.Service answering a  *)
(* SEQUENCE of requests.  The property says the payload returned for an     *)
(* entry is that entry's content templated with exactly the variables       *)
(* supplied WITH THIS REQUEST - so it may depend on nothing an earlier       *)
(* request supplied, and the service's template cache must be invisible.     *)
(*                                                                         *)
(* One action per exported call (apricot/local/service.go):                  *)
(*   Process    GetAndProcessComponentConfiguration(query, varStack)         *)
(*   Raw        GetComponentConfiguration(query)                             *)
(*   Invalidate InvalidateComponentTemplateCache()                           *)
(*   Update     ImportComponentConfiguration(query, payload, false)          *)
(* PROPERTY-level state: content (what the backend holds now).               *)
(* CODE-level state: compiled - service.go keeps one pongo2.TemplateSet per  *)
(* base path (templateSetForBasePath) and the set caches every template it   *)
(* compiled (FromCache); a constant `{% include %}` is resolved when the     *)
(* including template is compiled, so a cached template is a snapshot of its *)
(* own and its sibling's content.  The bindings (supplied variables + the    *)
(* utility functions of template.MakeUtilFuncMap(varStack), of which         *)
(* util.PrefixedOverride reads the variable stack) are built per request.    *)
(* Nothing in the service drops a cached template when an entry is updated:  *)
(* the documented protocol is to call InvalidateComponentTemplateCache after *)
(* changing entries; RequireInvalidate = TRUE makes the model follow it      *)
(* (with FALSE TLC shows the stale payload as a CacheTransparent             *)
(* counterexample).                                                          *)
(***************************************************************************)
EXTENDS ConfigQuery

CONSTANTS MaxSteps,            \* requests per behaviour
          VarIds, UpdIds,      \* which members of the catalogues VarCat / UpdCat are used
          RequireInvalidate    \* Process is only asked for when no update is pending invalidation

VARIABLES content,   \* [Entries -> parts]                                   (property level)
          compiled,  \* [Entries -> snapshot | NoSnap]: the template cache   (code level)
          dirty,     \* an entry was updated since the cache was last dropped
          req,       \* the last request
          out,       \* what the code-level service answered: [ok, out]
          n

svars == <<content, compiled, dirty, req, out, n>>

(* two base paths; D2f is asked for but never exists *)
Entries == {"D1e", "D1f", "D1s", "D2e", "D2s"}
Askable == Entries \cup {"D2f"}
DirOf(e) == IF e \in {"D1e", "D1f", "D1s"} THEN "D1" ELSE "D2"        \* D1 = c/PHYSICS/r, D2 = c/ANY/any
SibOf(e) == IF DirOf(e) = "D1" THEN "D1s" ELSE "D2s"                  \* the entry `{% include "sib" %}` means there

P(k, x) == [k |-> k, x |-> x]
IncPart == P("inc", SiblingName)

InitContent ==
  [e \in Entries |->
     CASE e = "D1e" -> <<P("lit", "L"), P("ovr", "v")>>
       [] e = "D1f" -> <<P("var", "v"), IncPart>>
       [] e = "D1s" -> <<P("ovl", "w")>>
       [] e = "D2e" -> <<P("up", "v"), IncPart, P("ovr", "w")>>
       [] OTHER     -> <<P("var", "v")>>]

\* catalogues (a TLC configuration file cannot hold sequences; the cfg picks members by index)
VarCat == << <<>>,
             << <<"v", "V">> >>,
             << <<"v", "V">>, <<"p_v", "W">> >>,
             << <<"v", "Z">> >>,
             << <<"v", "Z">>, <<"p_v", "O">> >>,
             << <<"p_v", "W">> >>,
             << <<"w", "W">> >>,
             << <<"v", "W">>, <<"w", "V">>, <<"p_w", "Z">> >>,
             << <<"v", "V">>, <<"p_v", "S">>, <<"w", "Z">> >> >>
UpdCat == << <<P("lit", "J")>>,
             <<P("ovl", "v"), P("lit", "L")>>,
             <<P("var", "w")>>,
             <<P("ovr", "w"), P("var", "v")>> >>
UpdEntries == {"D1e", "D1s", "D2e"}

NoSnap == [none |-> TRUE]
NoReq == [op |-> "none", e |-> "", vars |-> <<>>, parts |-> <<>>]
Nothing == Rendered("")

Init == /\ content = InitContent
        /\ compiled = [e \in Entries |-> NoSnap]
        /\ dirty = FALSE /\ req = NoReq /\ out = Nothing /\ n = 0

Fresh(c, e) == [parts |-> c[e], sib |-> c[SibOf(e)]]      \* compiling e now: its content and the included sibling's

Process(e, vs) ==
  /\ n < MaxSteps /\ (RequireInvalidate => ~dirty)
  /\ req' = [op |-> "Process", e |-> e, vars |-> vs, parts |-> <<>>]
  /\ IF e \notin Entries
       THEN out' = RenderError /\ UNCHANGED compiled                  \* FromCache fails: nothing is cached
       ELSE LET snap == IF compiled[e] # NoSnap THEN compiled[e] ELSE Fresh(content, e)
            IN /\ out' = RenderWith(snap.parts, snap.sib, TRUE, vs, AutoEscape)      \* bindings built from THIS request's vs
               /\ compiled' = [compiled EXCEPT ![e] = snap]
  /\ n' = n + 1 /\ UNCHANGED <<content, dirty>>

Raw(e) ==
  /\ n < MaxSteps
  /\ req' = [op |-> "Raw", e |-> e, vars |-> <<>>, parts |-> <<>>]
  /\ out' = IF e \in Entries THEN Rendered(Source(content[e])) ELSE RenderError      \* src.Get: never cached
  /\ n' = n + 1 /\ UNCHANGED <<content, compiled, dirty>>

Invalidate ==
  /\ n < MaxSteps
  /\ req' = [op |-> "Invalidate", e |-> "", vars |-> <<>>, parts |-> <<>>]
  /\ compiled' = [e \in Entries |-> NoSnap] /\ dirty' = FALSE /\ out' = Nothing
  /\ n' = n + 1 /\ UNCHANGED content

Update(e, parts) ==
  /\ n < MaxSteps /\ e \in UpdEntries /\ content[e] # parts
  /\ req' = [op |-> "Update", e |-> e, vars |-> <<>>, parts |-> parts]
  /\ content' = [content EXCEPT ![e] = parts] /\ dirty' = TRUE /\ out' = Nothing     \* src.Put only: the cache is kept
  /\ n' = n + 1 /\ UNCHANGED compiled

Next == \/ \E e \in Askable, i \in VarIds : Process(e, VarCat[i])
        \/ \E e \in Askable : Raw(e)
        \/ Invalidate
        \/ \E e \in UpdEntries, i \in UpdIds : Update(e, UpdCat[i])

Spec == Init /\ [][Next]_svars

(* ---- the property: the answer is a function of THIS request and the CURRENT content ---- *)
Expected(c, r, esc) ==
  CASE r.op = "Process" -> IF r.e \in Entries THEN RenderWith(c[r.e], c[SibOf(r.e)], TRUE, r.vars, esc) ELSE RenderError
    [] r.op = "Raw"     -> IF r.e \in Entries THEN Rendered(Source(c[r.e])) ELSE RenderError
    [] OTHER            -> Nothing

CacheTransparent == out = Expected(content, req, AutoEscape)      \* whatever was asked before, whatever is cached
RequestExact     == out = Expected(content, req, FALSE)           \* ... and with the values verbatim (RenderExact over time)
TypeOK == /\ n \in 0..MaxSteps /\ dirty \in BOOLEAN /\ out.ok \in BOOLEAN
          /\ \A e \in Entries : compiled[e] = NoSnap \/ compiled[e].parts \in Range(UpdCat) \cup Range(InitContent)
=============================================================================
