---------------------------- MODULE ConfigQuerySvc ----------------------------
(***************************************************************************)
(* C20, the HISTORY part: one long-lived apricot/local.Service answering a  *)
(* SEQUENCE of requests.  The property says the payload returned for an     *)
(* entry is that entry's content templated with exactly the variables       *)
(* supplied WITH THIS REQUEST - so it may depend on nothing an earlier       *)
(* request supplied, and the service's template cache must be invisible.     *)
(*                                                                         *)
(* One action per exported call (apricot/local/service.go):                  *)
(*   Process    GetAndProcessComponentConfiguration(query, varStack)         *)
(*   Raw        GetComponentConfiguration(query)                             *)
(*   Invalidate InvalidateComponentTemplateCache()                           *)
(*   Update     ImportComponentConfiguration(query, payload, false)          *)
(* PROPERTY-level state: content (what the backend holds now).               *)
(* CODE-level state: compiled - service.go keeps one pongo2.TemplateSet per  *)
(* base path (templateSetForBasePath) and the set caches every template it   *)
(* compiled (FromCache); a constant `{% include %}` is resolved when the     *)
(* including template is compiled, so a cached template is a snapshot of its *)
(* own and its sibling's content.  The bindings (supplied variables + the    *)
(* utility functions of template.MakeUtilFuncMap(varStack), of which         *)
(* util.PrefixedOverride reads the variable stack) are built per request.    *)
(* Nothing in the service drops a cached template when an entry is updated:  *)
(* the documented protocol is to call InvalidateComponentTemplateCache after *)
(* changing entries; RequireInvalidate = TRUE makes the model follow it      *)
(* (with FALSE TLC shows the stale payload as a CacheTransparent             *)
(* counterexample).                                                          *)
(*                                                                         *)
(* The backing store may also change UNDER the long-lived service, written   *)
(* by somebody else (an operator editing the file, another process):         *)
(*   ExternalEdit  add / replace / remove one of the four candidate entries  *)
(*                 c/{PHYSICS,ANY}/{r,any}/x directly in the store           *)
(*   Resolve       ResolveComponentQuery(c/RT/role/x)                        *)
(*   GetX          GetComponentConfiguration(c/RT/role/x)                    *)
(* PROPERTY-level state: store (what the backing store holds NOW); "resolves  *)
(* to the first EXISTING entry ..., fails when none exists, so a resolved     *)
(* path always exists" is about NOW (ResolvedExistsNow, MostSpecificNow).     *)
(* CODE-level state: tree, the file backend's in-memory copy                 *)
(* (cfgbackend.YamlSource.data), re-read from the file by every accessor      *)
(* (refresh() at the top of Exists / Get / GetRecursive / Put);               *)
(* ExistsRefreshes = TRUE is the tree as it is (with FALSE TLC shows the      *)
(* stale resolution as a counterexample).                                    *)
(*                                                                         *)
(* NEIGHBOURS: other keys of the store whose names merely START with the     *)
(* queried entry's name (c/RT/role/x-full, c/RT/role/x/sub) are not the      *)
(* entry: ConsulSource.Exists is a read of the exact key, YamlSource.Exists   *)
(* walks the exact path segments.  nbrs says at which candidate levels such    *)
(* neighbours sit; no definition below looks at it - "the first EXISTING       *)
(* entry" is about x itself, whatever else the store holds.                   *)
(*                                                                         *)
(* CONCURRENT requests: every request is one atomic step of this model (the   *)
(* trace of a free-running stress run is the order in which the answers were  *)
(* recorded).  As long as nobody writes the store, the answer of a request is  *)
(* a function of that request, content and store alone, so any order gives the *)
(* same answers: every recorded answer is judged exactly like a sequential one.*)
(*                                                                         *)
(* BACKEND FAULTS: an existence check of a request may FAIL (file backend:   *)
(* the file is momentarily unparseable, so every check of that request       *)
(* fails; Consul backend: the KV GET of the i-th candidate is answered with   *)
(* HTTP 500).  Resolve(k, F) / GetX(k, F): F = the positions (1..4, in the    *)
(* documented order) whose check cannot be answered.  serviceutil.go:         *)
(* queryToAbsPath ignores the error of src.Exists and reads "does not exist", *)
(* so the code-level resolution skips such a candidate.  PROPERTY: a          *)
(* resolution during which a check could not be answered either FAILS or      *)
(* names an entry that EXISTS - never a path whose existence it could not      *)
(* establish (FaultNeverInventsEntry); the most-specific clause is claimed     *)
(* for undisturbed requests only.                                            *)
(***************************************************************************)
EXTENDS ConfigQuery

CONSTANTS MaxSteps,            \* requests per behaviour
          VarIds, UpdIds,      \* which members of the catalogues VarCat / UpdCat are used
          RequireInvalidate,   \* Process is only asked for when no update is pending invalidation
          ExistsRefreshes,     \* YamlSource.Exists re-reads the file before looking (TRUE: the tree as it is)
          StoreInit, EditVals, \* initial values of the candidate entries ({0, 1}: the 16 patterns); values an external edit writes
          Backends,            \* {"file", "consul"}: which backing stores a service may sit on
          NbrInit,             \* the neighbour patterns a store may start with (subsets of Keys)
          FaultSets            \* the fault patterns F tried on the Consul backend (subsets of 1..4); {{}} = no faults

VARIABLES content,   \* [Entries -> parts]                                   (property level)
          compiled,  \* [Entries -> snapshot | NoSnap]: the template cache   (code level)
          dirty,     \* an entry was updated since the cache was last dropped
          backend,   \* "file" | "consul": fixed for the life of the service
          nbrs,      \* the candidate levels that hold LONGER-NAMED NEIGHBOURS of x: the entry x-full and (Consul) the key x/sub
          store,     \* [Keys -> 0 absent | 1 | 2 payload version]: the candidate entries c/RT/role/x NOW   (property level)
          tree,      \* the same, as last read by the backend (YamlSource.data)                              (code level)
          req,       \* the last request
          out,       \* what the code-level service answered: [ok, out]
          n

svars == <<content, compiled, dirty, backend, nbrs, store, tree, req, out, n>>

(* two base paths; D2f is asked for but never exists *)
\* Entries in SUBFOLDERS: S1 = c/PHYSICS/r/sub (main, sib; its parent D1 has a namesake "sib" with other content) and
\* S3 = c/TECHNICAL/r/sub (main, sib; no "sib" one level up).  A relative include means the including entry's own folder
\* (service.go splits the printed path at its LAST '/').
Entries == {"D1e", "D1f", "D1s", "D2e", "D2s", "S1m", "S1s", "S3m", "S3s"}
Askable == Entries \cup {"D2f"}
Dirs == {"D1", "D2", "S1", "S3"}
DirOf(e) == CASE e \in {"D1e", "D1f", "D1s"} -> "D1"                   \* D1 = c/PHYSICS/r, D2 = c/ANY/any
              [] e \in {"S1m", "S1s"} -> "S1" [] e \in {"S3m", "S3s"} -> "S3" [] OTHER -> "D2"
SibOf(e) == CASE DirOf(e) = "D1" -> "D1s" [] DirOf(e) = "S1" -> "S1s" [] DirOf(e) = "S3" -> "S3s"
              [] OTHER -> "D2s"                                        \* the entry `{% include "sib" %}` means there

(* the four candidates of a lookup of entry x of component c; the same ids name the queries c/RT/role/x *)
Keys == {"Pr", "Ar", "Pa", "Aa"}
RtOf(k) == IF k \in {"Pr", "Pa"} THEN "PHYSICS" ELSE "ANY"
RoleOf(k) == IF k \in {"Pr", "Ar"} THEN "r" ELSE "any"
XQ(k) == [comp |-> "c", rt |-> RtOf(k), role |-> RoleOf(k), entry |-> "x"]
Existing(st) == {<<RtOf(k), RoleOf(k)>> : k \in {j \in Keys : st[j] # 0}}     \* the B of ConfigQuery!Resolve
PayloadX(k, ver) == (IF ver = 2 THEN "new:" ELSE "cfg:") \o PathStr(XQ(k))
Resolution(r) == IF r = NotFound THEN RenderError ELSE Rendered(PathStr(r))

P(k, x) == [k |-> k, x |-> x]
IncPart == P("inc", SiblingName)

InitContent ==
  [e \in Entries |->
     CASE e = "D1e" -> <<P("lit", "L"), P("ovr", "v")>>
       [] e = "D1f" -> <<P("var", "v"), IncPart>>
       [] e = "D1s" -> <<P("ovl", "w")>>
       [] e = "D2e" -> <<P("up", "v"), IncPart, P("ovr", "w")>>
       [] e = "S1m" -> <<P("lit", "L"), IncPart, P("var", "v")>>
       [] e = "S1s" -> <<P("ovr", "v"), P("lit", "J")>>
       [] e = "S3m" -> <<IncPart, P("lit", "J")>>
       [] e = "S3s" -> <<P("var", "w")>>
       [] OTHER     -> <<P("var", "v")>>]

\* catalogues (a TLC configuration file cannot hold sequences; the cfg picks members by index)
VarCat == << <<>>,
             << <<"v", "V">> >>,
             << <<"v", "V">>, <<"p_v", "W">> >>,
             << <<"v", "Z">> >>,
             << <<"v", "Z">>, <<"p_v", "O">> >>,
             << <<"p_v", "W">> >>,
             << <<"w", "W">> >>,
             << <<"v", "W">>, <<"w", "V">>, <<"p_w", "Z">> >>,
             << <<"v", "V">>, <<"p_v", "S">>, <<"w", "Z">> >> >>
UpdCat == << <<P("lit", "J")>>,
             <<P("ovl", "v"), P("lit", "L")>>,
             <<P("var", "w")>>,
             <<P("ovr", "w"), P("var", "v")>> >>
UpdEntries == {"D1e", "D1s", "D2e"}

NoSnap == [none |-> TRUE]
NoReq == [op |-> "none", e |-> "", vars |-> <<>>, parts |-> <<>>, f |-> {}]
Nothing == Rendered("")

Init == /\ content = InitContent
        /\ compiled = [e \in Entries |-> NoSnap]
        /\ backend \in Backends /\ nbrs \in NbrInit
        /\ store \in [Keys -> StoreInit] /\ tree = store           \* NewService reads the file: any of the 16 patterns
        /\ dirty = FALSE /\ req = NoReq /\ out = Nothing /\ n = 0

Fresh(c, e) == [parts |-> c[e], sib |-> c[SibOf(e)]]      \* compiling e now: its content and the included sibling's

Process(e, vs) ==
  /\ n < MaxSteps /\ (RequireInvalidate => ~dirty)
  /\ req' = [op |-> "Process", e |-> e, vars |-> vs, parts |-> <<>>, f |-> {}]
  /\ IF e \notin Entries
       THEN /\ out' = RenderError /\ UNCHANGED compiled              \* FromCache fails: nothing is cached
            /\ tree' = IF ExistsRefreshes THEN store ELSE tree        \* the loader asked Exists only
       ELSE LET snap == IF compiled[e] # NoSnap THEN compiled[e] ELSE Fresh(content, e)
            IN /\ out' = RenderWith(snap.parts, snap.sib, TRUE, vs, AutoEscape)      \* bindings built from THIS request's vs
               /\ compiled' = [compiled EXCEPT ![e] = snap]
               /\ tree' = IF compiled[e] # NoSnap THEN tree ELSE store               \* a cache hit does not touch the backend
  /\ n' = n + 1 /\ UNCHANGED <<content, dirty, store, backend, nbrs>>

Raw(e) ==
  /\ n < MaxSteps
  /\ req' = [op |-> "Raw", e |-> e, vars |-> <<>>, parts |-> <<>>, f |-> {}]
  /\ out' = IF e \in Entries THEN Rendered(Source(content[e])) ELSE RenderError      \* src.Get: never cached
  /\ tree' = IF e \in Entries \/ ExistsRefreshes THEN store ELSE tree               \* Exists, then Get (which re-reads)
  /\ n' = n + 1 /\ UNCHANGED <<content, compiled, dirty, store, backend, nbrs>>

Invalidate ==
  /\ n < MaxSteps
  /\ req' = [op |-> "Invalidate", e |-> "", vars |-> <<>>, parts |-> <<>>, f |-> {}]
  /\ compiled' = [e \in Entries |-> NoSnap] /\ dirty' = FALSE /\ out' = Nothing
  /\ n' = n + 1 /\ UNCHANGED <<content, store, tree, backend, nbrs>>

Update(e, parts) ==
  /\ n < MaxSteps /\ e \in UpdEntries /\ content[e] # parts
  /\ req' = [op |-> "Update", e |-> e, vars |-> <<>>, parts |-> parts, f |-> {}]
  /\ content' = [content EXCEPT ![e] = parts] /\ dirty' = TRUE /\ out' = Nothing     \* src.Put only: the cache is kept
  /\ tree' = store                                                                  \* Put re-reads, writes, flushes
  /\ n' = n + 1 /\ UNCHANGED <<compiled, store, backend, nbrs>>

(* ---- the store changing under the service ---- *)
ExternalEdit(k, v) ==          \* somebody else writes the backing store; the service is not told
  /\ n < MaxSteps /\ store[k] # v
  /\ req' = [op |-> "ExternalEdit", e |-> k, vars |-> <<>>, parts |-> <<>>, f |-> {}]
  /\ store' = [store EXCEPT ![k] = v] /\ out' = Nothing
  /\ n' = n + 1 /\ UNCHANGED <<content, compiled, dirty, tree, backend, nbrs>>

Seen == IF ExistsRefreshes \/ backend = "consul" THEN store ELSE tree       \* what Exists looks at (Consul: always a KV read)

\* fault patterns: the broken file fails every check of the request; a scripted Consul fails chosen ones
AllFour == {1, 2, 3, 4}        \* (written out: TLC would print 1..4 as an interval)
Faults == IF backend = "file" THEN {{}, AllFour} ELSE FaultSets

\* serviceutil.go:resolveComponentQuery with queryToAbsPath's `exists, _ := s.src.Exists(path)`: an unanswered check reads "absent"
CodeResolveF(q, B, F) ==
  LET r1 == q
      r2 == WithFallbackRunType(q)
      r3 == WithFallbackRoleName(q)
      r4 == WithFallbackRunType(r3)
  IN IF 1 \notin F /\ ExistsIn(B, r1) THEN r1
     ELSE IF 2 \notin F /\ ExistsIn(B, r2) THEN r2
     ELSE IF 3 \notin F /\ ExistsIn(B, r3) THEN r3
     ELSE IF 4 \notin F /\ ExistsIn(B, r4) THEN r4
     ELSE NotFound

Resolve(k, F) ==               \* up to four Exists, nothing else
  /\ n < MaxSteps /\ F \in Faults
  /\ req' = [op |-> "Resolve", e |-> k, vars |-> <<>>, parts |-> <<>>, f |-> F]
  /\ out' = Resolution(CodeResolveF(XQ(k), Existing(Seen), F))
  /\ tree' = IF F = {} THEN Seen ELSE tree
  /\ n' = n + 1 /\ UNCHANGED <<content, compiled, dirty, store, backend, nbrs>>

GetX(k, F) ==                  \* GetComponentConfiguration: queryToAbsPath (Exists), then src.Get (re-reads)
  /\ n < MaxSteps /\ F \in Faults
  /\ req' = [op |-> "GetX", e |-> k, vars |-> <<>>, parts |-> <<>>, f |-> F]
  /\ out' = IF 1 \notin F /\ Seen[k] # 0 /\ store[k] # 0 THEN Rendered(PayloadX(k, store[k])) ELSE RenderError
  /\ tree' = IF 1 \notin F /\ Seen[k] # 0 THEN store ELSE IF F = {} THEN Seen ELSE tree
  /\ n' = n + 1 /\ UNCHANGED <<content, compiled, dirty, store, backend, nbrs>>

Next == \/ \E e \in Askable, i \in VarIds : Process(e, VarCat[i])
        \/ \E e \in Askable : Raw(e)
        \/ Invalidate
        \/ \E e \in UpdEntries, i \in UpdIds : Update(e, UpdCat[i])
        \/ \E k \in Keys, v \in EditVals : ExternalEdit(k, v)
        \/ \E k \in Keys, F \in SUBSET (1..4) : Resolve(k, F) \/ GetX(k, F)

Spec == Init /\ [][Next]_svars

(* ---- the property: the answer is a function of THIS request and the CURRENT content ---- *)
Expected(c, st, r, esc) ==
  CASE r.op = "Process" -> IF r.e \in Entries THEN RenderWith(c[r.e], c[SibOf(r.e)], TRUE, r.vars, esc) ELSE RenderError
    [] r.op = "Raw"     -> IF r.e \in Entries THEN Rendered(Source(c[r.e])) ELSE RenderError
    [] r.op = "Resolve" -> Resolution(SpecResolve(XQ(r.e), Existing(st)))               \* the documented order on the store NOW
    [] r.op = "GetX"    -> IF st[r.e] # 0 THEN Rendered(PayloadX(r.e, st[r.e])) ELSE RenderError
    [] OTHER            -> Nothing

\* what a request may answer: undisturbed, exactly Expected; with unanswered existence checks, failure or the truth
Acceptable(c, st, r, esc, o) ==
  IF r.op = "Resolve" /\ r.f # {}
    THEN o = RenderError \/ \E i \in 1..4 : LET q == Candidates(XQ(r.e))[i] IN Key(q) \in Existing(st) /\ o = Resolution(q)
  ELSE IF r.op = "GetX" /\ r.f # {}
    THEN o = RenderError \/ o = Expected(c, st, r, esc)
  ELSE o = Expected(c, st, r, esc)

CacheTransparent == Acceptable(content, store, req, AutoEscape, out)   \* whatever was asked before, whatever is cached
RequestExact     == Acceptable(content, store, req, FALSE, out)        \* ... and with the values verbatim (RenderExact over time)

\* the resolution clauses of the property, on the store as it is NOW
Resolved == IF out.ok THEN [comp |-> "c", rt |-> RtOf(CHOOSE k \in Keys : PathStr(XQ(k)) = out.out),
                             role |-> RoleOf(CHOOSE k \in Keys : PathStr(XQ(k)) = out.out), entry |-> "x"]
            ELSE NotFound
ResolvedExistsNow == req.op = "Resolve" => ResolvedExists(XQ(req.e), Existing(store), Resolved)
MostSpecificNow   == req.op = "Resolve" /\ req.f = {} => MostSpecific(XQ(req.e), Existing(store), Resolved)
FaultNeverInventsEntry == req.op = "Resolve" /\ req.f # {} => ResolvedExists(XQ(req.e), Existing(store), Resolved)
PayloadNow        == req.op = "GetX" => Acceptable(content, store, req, FALSE, out)

TypeOK == /\ n \in 0..MaxSteps /\ dirty \in BOOLEAN /\ out.ok \in BOOLEAN
          /\ store \in [Keys -> 0..2] /\ tree \in [Keys -> 0..2] /\ backend \in {"file", "consul"} /\ nbrs \subseteq Keys
          /\ \A e \in Entries : compiled[e] = NoSnap \/ compiled[e].parts \in Range(UpdCat) \cup Range(InitContent)
=============================================================================
