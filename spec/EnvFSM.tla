------------------------------- MODULE EnvFSM -------------------------------
(***************************************************************************)
(* C01 - environment state changes only along the documented graph, one at  *)
(* a time.                                                                 *)
(*                                                                         *)
(* Model of the paths that write an environment's state:                    *)
(*  - RpcServer.ControlEnvironment (core/server.go): lookup, TryTransition, *)
(*    on error TryTransition(GO_ERROR), on error of that an UNLOCKED        *)
(*    Sm.SetState("ERROR");                                                 *)
(*  - Environment.TryTransition (core/environment/environment.go):          *)
(*    transitionMutex, looplab Sm.Event with the four callbacks             *)
(*    (before_event, leave_state incl. the transition body, state flip,     *)
(*    enter_state, after_event);                                            *)
(*  - RpcServer.DestroyEnvironment + Manager.TeardownEnvironment            *)
(*    (core/environment/manager.go): optional STOP / RESET, teardown under  *)
(*    the same mutex, forced DONE, removal from the listing;                *)
(*  - the workflow-state watcher (subscribeToWfState): after its timer      *)
(*    TryTransition(GO_ERROR), else an UNLOCKED setState("ERROR").          *)
(* One action per critical section; hook/body outcomes are nondeterministic *)
(* (the hook structure itself is refined in EnvHooks.tla).                  *)
(*                                                                         *)
(* Deviation constants (TRUE = the tree deviates like this):                *)
(*  Code_ForceErrorUnlocked  : the forced ERROR writes do not take the      *)
(*                             transition mutex and do not look at the      *)
(*                             current state (DONE -> ERROR, ERROR landing  *)
(*                             in the middle of someone else's transition)  *)
(***************************************************************************)
EXTENDS Naturals, Sequences, FiniteSets, TLC

CONSTANTS Callers,            \* API callers (each issues one request)
          Watchers,           \* watcher timers that may fire (0 or 1 element)
          Requests,           \* set of requests a caller may issue
          Code_ForceErrorUnlocked

None == "none"
NoReply == [st |-> "", code |-> ""]
Procs == Callers \cup Watchers

States == {"STANDBY", "DEPLOYED", "CONFIGURED", "RUNNING", "ERROR", "DONE"}
\* looplab event table of newEnvironment
Table == [DEPLOY |-> [src |-> {"STANDBY"}, dst |-> "DEPLOYED"],
          CONFIGURE |-> [src |-> {"DEPLOYED"}, dst |-> "CONFIGURED"],
          RESET |-> [src |-> {"CONFIGURED"}, dst |-> "DEPLOYED"],
          START_ACTIVITY |-> [src |-> {"CONFIGURED"}, dst |-> "RUNNING"],
          STOP_ACTIVITY |-> [src |-> {"RUNNING"}, dst |-> "CONFIGURED"],
          GO_ERROR |-> [src |-> {"STANDBY", "CONFIGURED", "DEPLOYED", "RUNNING"}, dst |-> "ERROR"]]
Events == DOMAIN Table

\* the documented graph: the API edges, GO_ERROR from any live state, teardown to DONE
Documented ==
  {<<se[1], Table[se[2]].dst>> : se \in {x \in States \X Events : x[1] \in Table[x[2]].src}}
  \cup ((States \ {"DONE"}) \X {"DONE"})

VARIABLES
  st,        \* reported state of the environment
  listed,    \* the environment is in the manager's map
  lock,      \* holder of transitionMutex or None
  pc,        \* program counter per process
  req,       \* request of each caller: [kind |-> "ctl", ev] | [kind |-> "destroy", force, air] | [kind |-> "watch"]
  cur,       \* event the process is currently running through TryTransition
  origin,    \* "req" (the requested event) | "followup" (GO_ERROR after a failure) | "pre" (STOP/RESET before teardown) | "watch"
  seen,      \* state seen by the looplab lookup of the current event
  err,       \* the current TryTransition has an error
  failed,    \* the caller's requested transition failed (API level)
  tdforce,   \* teardown: force flag in effect
  reply,     \* API reply: [st, code] or None
  txn,       \* number of TryTransition/teardown attempts started by each process (instance id)
  eff,       \* history: set of effects <<proc, what, instance>> with what in hook/taskcmd/flip/force/teardown
  illegal    \* history: set of <<proc, origin>> whose event was not legal at lookup

vars == <<st, listed, lock, pc, req, cur, origin, seen, err, failed, tdforce, reply, txn, eff, illegal>>

Init ==
  /\ st \in {"CONFIGURED", "RUNNING"}
  /\ listed = TRUE /\ lock = None
  /\ pc = [p \in Procs |-> "idle"]
  /\ req = [p \in Procs |-> [kind |-> IF p \in Watchers THEN "watch" ELSE "none", ev |-> "", force |-> FALSE, air |-> FALSE]]
  /\ cur = [p \in Procs |-> None] /\ origin = [p \in Procs |-> None]
  /\ seen = [p \in Procs |-> None] /\ err = [p \in Procs |-> FALSE] /\ failed = [p \in Procs |-> FALSE]
  /\ tdforce = [p \in Procs |-> FALSE]
  /\ reply = [p \in Procs |-> NoReply]
  /\ txn = [p \in Procs |-> 0] /\ eff = {} /\ illegal = {}

Eff(p, what) == eff' = eff \cup {<<p, what, txn[p]>>}

(* ------------------------------ API entry ------------------------------ *)
\* ControlEnvironment / DestroyEnvironment: find the environment in the manager's map
Submit(c, r) ==
  /\ c \in Callers /\ pc[c] = "idle" /\ req[c].kind = "none"
  /\ req' = [req EXCEPT ![c] = r]
  /\ IF ~listed
       THEN /\ pc' = [pc EXCEPT ![c] = "end"] /\ reply' = [reply EXCEPT ![c] = [st |-> "", code |-> "NotFound"]]
            /\ UNCHANGED <<cur, origin, tdforce>>
       ELSE /\ UNCHANGED reply
            /\ IF r.kind = "ctl"
                 THEN /\ cur' = [cur EXCEPT ![c] = r.ev] /\ origin' = [origin EXCEPT ![c] = "req"]
                      /\ pc' = [pc EXCEPT ![c] = "lock"] /\ UNCHANGED tdforce
                 ELSE /\ pc' = [pc EXCEPT ![c] = "dplan"] /\ tdforce' = [tdforce EXCEPT ![c] = r.force]
                      /\ UNCHANGED <<cur, origin>>
  /\ UNCHANGED <<st, listed, lock, seen, err, failed, eff, illegal, txn>>

\* the watcher's timer fires (subscribeToWfState, time.AfterFunc)
WatchFire(w) ==
  /\ w \in Watchers /\ pc[w] = "idle"
  /\ cur' = [cur EXCEPT ![w] = "GO_ERROR"] /\ origin' = [origin EXCEPT ![w] = "watch"]
  /\ pc' = [pc EXCEPT ![w] = "lock"]
  /\ UNCHANGED <<st, listed, lock, req, seen, err, failed, tdforce, reply, eff, illegal, txn>>

(* --------------------------- TryTransition ----------------------------- *)
Lock(p) ==
  /\ pc[p] = "lock" /\ lock = None
  /\ lock' = p /\ pc' = [pc EXCEPT ![p] = "lookup"] /\ err' = [err EXCEPT ![p] = FALSE]
  /\ txn' = [txn EXCEPT ![p] = @ + 1]
  /\ UNCHANGED <<st, listed, req, cur, origin, seen, failed, tdforce, reply, eff, illegal>>

\* looplab: an event with no entry for the current state is refused before any callback
Lookup(p) ==
  /\ pc[p] = "lookup"
  /\ seen' = [seen EXCEPT ![p] = st]
  /\ IF st \in Table[cur[p]].src
       THEN /\ pc' = [pc EXCEPT ![p] = "before"] /\ UNCHANGED <<err, illegal>>
       ELSE /\ pc' = [pc EXCEPT ![p] = "unlock"] /\ err' = [err EXCEPT ![p] = TRUE]
            /\ illegal' = illegal \cup {<<p, txn[p]>>}
  /\ UNCHANGED <<st, listed, lock, req, cur, origin, failed, tdforce, reply, eff, txn>>

\* before_event / leave_state: a critical hook failure cancels, the state is unchanged
Phase(p, from, to, what) ==
  /\ pc[p] = from
  /\ Eff(p, what)
  /\ \/ /\ pc' = [pc EXCEPT ![p] = to] /\ UNCHANGED err
     \/ /\ pc' = [pc EXCEPT ![p] = "unlock"] /\ err' = [err EXCEPT ![p] = TRUE]
  /\ UNCHANGED <<st, listed, lock, req, cur, origin, seen, failed, tdforce, reply, illegal, txn>>

Before(p) == Phase(p, "before", "leave", "hook")
Leave(p) == Phase(p, "leave", "body", "hook")
Body(p) == Phase(p, "body", "flip", "taskcmd")

\* looplab sets the destination state after leave_state, whatever the state is by now
Flip(p) ==
  /\ pc[p] = "flip"
  /\ st' = Table[cur[p]].dst
  /\ Eff(p, "flip")
  /\ pc' = [pc EXCEPT ![p] = "enter"]
  /\ UNCHANGED <<listed, lock, req, cur, origin, seen, err, failed, tdforce, reply, illegal, txn>>

\* enter_state / after_event: failures only add an error
PostPhase(p, from, to) ==
  /\ pc[p] = from
  /\ Eff(p, "hook")
  /\ pc' = [pc EXCEPT ![p] = to]
  /\ \/ UNCHANGED err
     \/ err' = [err EXCEPT ![p] = TRUE]
  /\ UNCHANGED <<st, listed, lock, req, cur, origin, seen, failed, tdforce, reply, illegal, txn>>

Enter(p) == PostPhase(p, "enter", "after")
After(p) == PostPhase(p, "after", "unlock")

\* defer Unlock; then the caller decides what to do with the result
Unlock(p) ==
  /\ pc[p] = "unlock" /\ lock = p
  /\ lock' = None
  /\ pc' = [pc EXCEPT ![p] = "result"]
  /\ UNCHANGED <<st, listed, req, cur, origin, seen, err, failed, tdforce, reply, eff, illegal, txn>>

(* --------------------- what callers do with the result ----------------- *)
Result(p) ==
  /\ pc[p] = "result"
  /\ CASE origin[p] = "req" ->
            IF err[p]
              THEN \* ControlEnvironment: transition failed => GO_ERROR
                   /\ failed' = [failed EXCEPT ![p] = TRUE]
                   /\ cur' = [cur EXCEPT ![p] = "GO_ERROR"] /\ origin' = [origin EXCEPT ![p] = "followup"]
                   /\ pc' = [pc EXCEPT ![p] = "lock"] /\ UNCHANGED <<reply, tdforce>>
              ELSE /\ pc' = [pc EXCEPT ![p] = "reply"] /\ UNCHANGED <<failed, cur, origin, reply, tdforce>>
       [] origin[p] = "followup" ->
            /\ pc' = [pc EXCEPT ![p] = IF err[p] THEN "force" ELSE "reply"]
            /\ UNCHANGED <<failed, cur, origin, reply, tdforce>>
       [] origin[p] = "watch" ->
            \* watcher: GO_ERROR refused and not already ERROR => forced write
            /\ pc' = [pc EXCEPT ![p] = IF err[p] /\ st # "ERROR" THEN "force" ELSE "end"]
            /\ UNCHANGED <<failed, cur, origin, reply, tdforce>>
       [] origin[p] = "pre" ->
            \* DestroyEnvironment: STOP / RESET before the teardown failed => forced teardown
            /\ tdforce' = [tdforce EXCEPT ![p] = tdforce[p] \/ err[p]]
            /\ pc' = [pc EXCEPT ![p] = IF err[p] THEN "tdlock" ELSE "dplan"]
            /\ UNCHANGED <<failed, cur, origin, reply>>
       [] OTHER -> FALSE
  /\ UNCHANGED <<st, listed, lock, req, seen, err, eff, illegal, txn>>

\* env.Sm.SetState("ERROR") (API) / env.setState("ERROR") (watcher): no transition mutex
Force(p) ==
  /\ pc[p] = "force"
  /\ IF Code_ForceErrorUnlocked
       THEN \* looplab: Sm.Event holds the FSM's state read-lock from its lookup until the leave callbacks
            \* are done, so SetState waits for that part of somebody else's transition (not for the flip,
            \* nor for the enter/after callbacks)
            /\ ~\E q \in Procs \ {p} : pc[q] \in {"before", "leave", "body"}
            /\ st' = "ERROR"
       ELSE /\ lock = None /\ st' = IF st = "DONE" THEN st ELSE "ERROR"
  /\ Eff(p, "force")
  /\ pc' = [pc EXCEPT ![p] = IF p \in Watchers THEN "end" ELSE "reply"]
  /\ UNCHANGED <<listed, lock, req, cur, origin, seen, err, failed, tdforce, reply, illegal, txn>>

Reply(p) ==
  /\ pc[p] = "reply"
  /\ reply' = [reply EXCEPT ![p] = [st |-> st, code |-> IF err[p] THEN "Aborted" ELSE "OK"]]
  /\ pc' = [pc EXCEPT ![p] = "end"]
  /\ UNCHANGED <<st, listed, lock, req, cur, origin, seen, err, failed, tdforce, eff, illegal, txn>>

(* ------------------------------ destroy -------------------------------- *)
\* DestroyEnvironment reads CurrentState() (unlocked) and plans STOP / RESET / teardown
DPlan(c) ==
  /\ pc[c] = "dplan"
  /\ LET pre(ev) == /\ cur' = [cur EXCEPT ![c] = ev] /\ origin' = [origin EXCEPT ![c] = "pre"]
                    /\ pc' = [pc EXCEPT ![c] = "lock"] /\ UNCHANGED tdforce
         td(f) == /\ tdforce' = [tdforce EXCEPT ![c] = f] /\ pc' = [pc EXCEPT ![c] = "tdlock"]
                  /\ UNCHANGED <<cur, origin>>
     IN IF tdforce[c] THEN td(TRUE)
        ELSE IF req[c].air /\ st = "RUNNING" THEN pre("STOP_ACTIVITY")
        ELSE IF st \notin {"CONFIGURED", "DEPLOYED", "STANDBY"} THEN td(TRUE)
        ELSE IF st = "CONFIGURED" THEN pre("RESET")
        ELSE td(FALSE)
  /\ UNCHANGED <<st, listed, lock, req, seen, err, failed, reply, eff, illegal, txn>>

TdLock(c) ==
  /\ pc[c] = "tdlock" /\ lock = None
  /\ lock' = c /\ pc' = [pc EXCEPT ![c] = "tdcheck"] /\ origin' = [origin EXCEPT ![c] = "teardown"]
  /\ txn' = [txn EXCEPT ![c] = @ + 1]
  /\ UNCHANGED <<st, listed, req, cur, seen, err, failed, tdforce, reply, eff, illegal>>

\* TeardownEnvironment: refuses DONE, refuses live states unless forced
TdCheck(c) ==
  /\ pc[c] = "tdcheck"
  /\ seen' = [seen EXCEPT ![c] = st]
  /\ IF st = "DONE" \/ (st \notin {"STANDBY", "DEPLOYED"} /\ ~tdforce[c])
       THEN /\ err' = [err EXCEPT ![c] = TRUE] /\ pc' = [pc EXCEPT ![c] = "tdunlock"]
       ELSE /\ err' = [err EXCEPT ![c] = FALSE] /\ pc' = [pc EXCEPT ![c] = "tdwork"]
  /\ UNCHANGED <<st, listed, lock, req, cur, origin, failed, tdforce, reply, eff, illegal, txn>>

\* leave hooks, release of the tasks, DESTROY hooks (refined in Lifecycle / EnvHooks)
TdWork(c) ==
  /\ pc[c] = "tdwork"
  /\ Eff(c, "teardown")
  /\ pc' = [pc EXCEPT ![c] = "tddone"]
  /\ UNCHANGED <<st, listed, lock, req, cur, origin, seen, err, failed, tdforce, reply, illegal, txn>>

\* env.setState("DONE"); delete(envs.m, id)
TdDone(c) ==
  /\ pc[c] = "tddone"
  /\ st' = "DONE" /\ listed' = FALSE
  /\ Eff(c, "flip")
  /\ pc' = [pc EXCEPT ![c] = "tdunlock"]
  /\ UNCHANGED <<lock, req, cur, origin, seen, err, failed, tdforce, reply, illegal, txn>>

TdUnlock(c) ==
  /\ pc[c] = "tdunlock" /\ lock = c
  /\ lock' = None
  \* doTeardownAndCleanup: a failed non-forced teardown is retried with force
  /\ IF err[c] /\ ~tdforce[c]
       THEN /\ tdforce' = [tdforce EXCEPT ![c] = TRUE] /\ pc' = [pc EXCEPT ![c] = "tdlock"] /\ UNCHANGED reply
       ELSE /\ reply' = [reply EXCEPT ![c] = [st |-> st, code |-> IF err[c] THEN "Internal" ELSE "OK"]]
            /\ pc' = [pc EXCEPT ![c] = "end"] /\ UNCHANGED tdforce
  /\ UNCHANGED <<st, listed, req, cur, origin, seen, err, failed, eff, illegal, txn>>

Next ==
  \/ \E c \in Callers, r \in Requests : Submit(c, r)
  \/ \E w \in Watchers : WatchFire(w)
  \/ \E p \in Procs : Lock(p) \/ Lookup(p) \/ Before(p) \/ Leave(p) \/ Body(p) \/ Flip(p) \/ Enter(p) \/ After(p)
                      \/ Unlock(p) \/ Result(p) \/ Force(p) \/ Reply(p)
  \/ \E c \in Callers : DPlan(c) \/ TdLock(c) \/ TdCheck(c) \/ TdWork(c) \/ TdDone(c) \/ TdUnlock(c)

Spec == Init /\ [][Next]_vars

(* ----------------------------- properties ------------------------------ *)
InsideLock == {"lookup", "before", "leave", "body", "flip", "enter", "after", "unlock", "tdcheck", "tdwork", "tddone", "tdunlock"}

TypeOK == st \in States /\ lock \in Procs \cup {None}

\* the state changes only along the documented graph; DONE is terminal
Graph == [][st' # st => <<st, st'>> \in Documented]_vars
DoneTerminal == [][st = "DONE" => st' = "DONE"]_vars

\* at most one transition or teardown in progress
OneAtATime == Cardinality({p \in Procs : pc[p] \in InsideLock}) <= 1
LockHeldInside == \A p \in Procs : pc[p] \in InsideLock => lock = p

\* a request that is not legal in the current state is never executed: no hook, no task command, no flip
IllegalHasNoEffect ==
  \A e \in eff : e[2] \in {"hook", "taskcmd", "flip"} => <<e[1], e[3]>> \notin illegal

\* a failed transition requested through the API leaves the environment in ERROR (as seen by its reply)
ApiFailureEndsInError ==
  \A c \in Callers : (reply[c].code # "" /\ failed[c]) => reply[c].st \in {"ERROR", "DONE"}   \* DONE: a teardown came after

\* each transition sees the state left by the previous one: nobody else writes the state while it is in progress
\* (history check: between a process' lookup and its flip/unlock the state equals what it saw, unless it flipped itself)
SerialView ==
  \A p \in Procs : pc[p] \in {"before", "leave", "body", "flip"} => st = seen[p]
=============================================================================
