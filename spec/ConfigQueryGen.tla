--------------------------- MODULE ConfigQueryGen ---------------------------
(***************************************************************************)
(* Case enumeration for C20: the STATES of this specification ARE the      *)
(* input cases of spec/ConfigQuery.tla (one initial state per case, no      *)
(* steps), so that TLC                                                      *)
(*   - checks the property formulas on the code-level functions for every   *)
(*     case within the bounds (INVARIANTs below), and                       *)
(*   - prints the very same cases as JSON (DumpInv, one line per state) for *)
(*     the driver harness/cmd/configquery, which feeds them to the real     *)
(*     code.                                                                *)
(* Kinds: "str" query string (NewQuery, NewEntriesQuery, Path/Raw/          *)
(* AbsoluteRaw; "near" = the single-token edits of well-formed strings,     *)
(* "sweep" = every token of the alphabet at every position of a few),        *)
(* "par" parameter string (NewQueryParameters), "res" resolution against a  *)
(* backend ("fld" = entry keys with a folder part over stores in which the   *)
(* folder / leaf names occur as plain entries, folders, beside, inside),      *)
(* "rnd" payload rendering.                                                 *)
(***************************************************************************)
EXTENDS ConfigQuery, Json

CONSTANTS
  Kinds,        \* which kinds of cases to enumerate
  Alphabet, MaxLen,                 \* "str": every token string over Alphabet up to MaxLen
  QWord, QFirst, QSegMax, QEntryTok, QEntryMax,
                                    \* "str": pad . comp/rt/role/entry . pad from catalogues (longer strings);
                                    \*        QFirst = first tokens of the component (to split the enumeration over TLC runs)
  PAlphabet, PMaxLen,               \* "par": every token string over PAlphabet up to PMaxLen
  PMaxPairs,                        \* "par": k=v&k=v... from the catalogues PKeys, PVals
  ResRT, ResRoles, ResQRT, ResQRoles, ResEntries,     \* "res": backend universe and queries
  FldShapes, FldQueries,            \* "fld": entry key with a folder part; shapes a level may have, queries (level ids)
  ResBackends,                      \* "res": on which backing stores ("file", "consul"); the answers do not depend on it
  RndMaxParts                       \* "rnd": length of the entry content in parts

VARIABLE case

Seqs(S, lo, hi) == UNION {[1..n -> S] : n \in lo..hi}

\* fixed catalogues (sequences cannot be written in a TLC configuration file)
Pads  == {<<>>, <<" ">>, <<"N", "T">>}                                \* surrounding blanks
QRts  == {<<"P">>, <<"A">>, <<"X">>, <<"P", "7">>, <<"a">>, <<>>}      \* run type segment: two enum names, four non-names
PKeys == {<<"a">>, <<"b">>, <<"p">>, <<"a", "-">>}
PVals == {<<"a">>, <<"t">>, <<"0">>, <<",">>, <<"Q", "a", "Q">>}

(* --- "str" --- *)
StrExhaustive == Seqs(Alphabet, 0, MaxLen)
StrCatalogue ==
  { pre \o c \o <<"/">> \o t \o <<"/">> \o r \o <<"/">> \o e \o post :
      pre \in Pads, post \in Pads, c \in {x \in Seqs(QWord, 1, QSegMax) : x[1] \in QFirst}, t \in QRts,
      r \in Seqs(QWord, 1, QSegMax), e \in Seqs(QEntryTok, 1, QEntryMax) }
StrCases == {[k |-> "str", s |-> s] : s \in StrExhaustive \cup StrCatalogue}

(* --- "near": every single-token edit of a catalogue of well-formed strings (which are longer than MaxLen) --- *)
NMSeg   == {<<"a">>, <<"X", "7">>, <<"-">>}
NMEntry == {<<"a">>, <<"a", "/", "a">>, <<"/">>, <<"_", "/">>}
NMTok   == {"a", "X", "7", "-", "_", "P", "A", "/", " ", "N", "@", "."}
NMBase  == { c \o <<"/">> \o t \o <<"/">> \o r \o <<"/">> \o e : c \in NMSeg, t \in {<<"P">>, <<"A">>}, r \in NMSeg, e \in NMEntry }
           \cup { c \o <<"/">> \o t \o <<"/">> \o r : c \in NMSeg, t \in {<<"P">>, <<"A">>}, r \in NMSeg }
Edits1(b) == { SubSeq(b, 1, i) \o <<x>> \o SubSeq(b, i + 1, Len(b)) : i \in 0..Len(b), x \in NMTok }        \* insert
             \cup { SubSeq(b, 1, i - 1) \o <<x>> \o SubSeq(b, i + 1, Len(b)) : i \in 1..Len(b), x \in NMTok } \* replace
             \cup { SubSeq(b, 1, i - 1) \o SubSeq(b, i + 1, Len(b)) : i \in 1..Len(b) }                       \* delete
NearCases == {[k |-> "str", s |-> s] : s \in NMBase \cup UNION {Edits1(b) : b \in NMBase}}

(* --- "sweep": EVERY token (all of printable ASCII, the non-ASCII ones, the words) inserted at / put in place of every
       position of a few well-formed strings: the grammar of the model decides which of them are still well formed --- *)
SweepBase == { <<"a", "/", "P", "/", "a", "/", "a">>, <<"X", "7", "/", "A", "/", "r", "_", "/", "e", "/", "0">>,
               <<"-", "/", "P", "/", "~A", "/", "/">>, <<"q", "c", "/", "A", "/", "a", "n", "y">>, <<"a", "/", "P", "/", "a">> }
EditsWith(b, T) == { SubSeq(b, 1, i) \o <<x>> \o SubSeq(b, i + 1, Len(b)) : i \in 0..Len(b), x \in T }
                   \cup { SubSeq(b, 1, i - 1) \o <<x>> \o SubSeq(b, i + 1, Len(b)) : i \in 1..Len(b), x \in T }
SweepCases == {[k |-> "str", s |-> s] : s \in UNION {EditsWith(b, Tok) : b \in SweepBase}}
ParSweepBase == { <<"a", "=", "a">>, <<"a", "-", "=", "Q", "x", "Q", "&", "p", "=", "t">>, <<"b", "=", "[", "0", ",", "1", "]">> }
ParSweepCases == {[k |-> "par", s |-> s] : s \in UNION {EditsWith(b, Tok) : b \in ParSweepBase}}

(* --- "par" --- *)
RECURSIVE JoinPairs(_)
JoinPairs(ps) == IF ps = <<>> THEN <<>>
                 ELSE ps[1][1] \o <<"=">> \o ps[1][2] \o (IF Len(ps) = 1 THEN <<>> ELSE <<"&">> \o JoinPairs(Tail(ps)))
ParCatalogue == { pre \o JoinPairs(ps) \o post : pre \in Pads, post \in Pads, ps \in Seqs(PKeys \X PVals, 1, PMaxPairs) }
ParCases == {[k |-> "par", s |-> s] : s \in Seqs(PAlphabet, 0, PMaxLen) \cup ParCatalogue}

(* --- "res" --- *)
\* Wherever the queried entry is ABSENT the driver stores longer-named neighbours (<entry>-full; on Consul also the key
\* <entry>/sub): keys that merely start with the entry's name are not the entry.
ResCases == {[k |-> "res", q |-> [comp |-> "c", rt |-> rt, role |-> ro, entry |-> e], B |-> B, be |-> b] :
               rt \in ResQRT, ro \in ResQRoles, e \in ResEntries, B \in SUBSET (ResRT \X ResRoles), b \in ResBackends}

(* --- "fld": the query c/RT/role/x/y over stores whose four candidate levels each have one of the shapes --- *)
FldCases == {[k |-> "fld", q |-> FldQ(qk), L |-> L, be |-> b] :
               qk \in FldQueries, L \in [FldLevels -> FldShapes], b \in ResBackends}

(* --- "rnd" --- *)
Lit(x) == [k |-> "lit", x |-> x]
Var(x) == [k |-> "var", x |-> x]
Inc == [k |-> "inc", x |-> SiblingName]
RndAtoms == {Lit("L"), Lit("J"), Var("v"), Var("w"), Var("u"), Inc}
RndSibs == { <<Lit("L")>>, <<Var("v")>>, <<Lit("J"), Var("w")>> }
RndVars == { vv \o ww : vv \in {<<>>} \cup {<< <<"v", x>> >> : x \in {"V", "E", "B", "Q", "H"}},
                        ww \in {<<>>, << <<"w", "W">> >>} }
RndCases ==
  {[k |-> "rnd", parts |-> p, sib |-> sb[2], hasSib |-> sb[1], vars |-> vs] :
     p \in Seqs(RndAtoms, 1, RndMaxParts), sb \in ({<<FALSE, <<>> >>} \cup {<<TRUE, x>> : x \in RndSibs}), vs \in RndVars}

AllCases == (IF "str" \in Kinds THEN StrCases ELSE {}) \cup (IF "near" \in Kinds THEN NearCases ELSE {}) \cup (IF "sweep" \in Kinds THEN SweepCases \cup ParSweepCases ELSE {}) \cup (IF "par" \in Kinds THEN ParCases ELSE {})
            \cup (IF "res" \in Kinds THEN ResCases ELSE {}) \cup (IF "fld" \in Kinds THEN FldCases ELSE {}) \cup (IF "rnd" \in Kinds THEN RndCases ELSE {})

Init == case \in AllCases
Next == UNCHANGED case
Spec == Init /\ [][Next]_case

(* --- the property formulas, case by case --- *)
IsStr == case.k = "str"
UnambiguousInv       == IsStr => Unambiguous(case.s)
ParseExactInv        == IsStr => ParseExact(case.s)
MalformedRejectedInv == IsStr => MalformedRejected(case.s)
RoundTripInv         == IsStr => RoundTrip(case.s)
EntriesExactInv      == IsStr => EntriesExact(case.s)
ParamsExactInv       == case.k = "par" => ParamsExact(case.s)
CaseB == IF case.k = "fld" THEN FldB(case.L) ELSE case.B
IsRes == case.k \in {"res", "fld"}
ResolvedExistsInv    == IsRes => ResolvedExists(case.q, CaseB, CodeResolve(case.q, CaseB))
MostSpecificInv      == IsRes => MostSpecific(case.q, CaseB, CodeResolve(case.q, CaseB))
ResolveIsSpecInv     == IsRes => CodeResolve(case.q, CaseB) = SpecResolve(case.q, CaseB)
RenderExactInv       == case.k = "rnd" => RenderExact(case.parts, case.sib, case.hasSib, case.vars)

(* --- the same cases for the driver: listed FIRST among the invariants, it prints every state --- *)
DumpInv == PrintT(ToJson(case))
=============================================================================
