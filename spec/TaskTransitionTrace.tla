------------------------ MODULE TaskTransitionTrace ------------------------
(***************************************************************************)
(* Trace specification for C02 over runs of the real core recorded by the  *)
(* whole-core simulation (harness/cmd/coresim). Lines used:                 *)
(*   Reset{scn, model:{tasks:[{id,class,crit,outcome,dead}], event, call,   *)
(*         op}}                                                             *)
(*   Api{call, op} / ApiReply{call, op, code, st, timeout}                  *)
(*   MMessage{event, class, outcome}   (a command reached a task)           *)
(*   Snapshot{envs:[{env,st}]}          End                                 *)
(* Monitor (soft invariants, independent of the model's deviations):        *)
(*   Iff, FailureIsError, NothingToCommand, OnlyPresentCommanded,           *)
(*   EndsInError.  Strict: the observed verdict is the one TaskTransition   *)
(*   predicts for the tree as configured (deviation constants).             *)
(***************************************************************************)
EXTENDS TaskTransition, Integers, Json, IOUtils

Trace == ndJsonDeserialize(IOEnv.TRACE_FILE)

VARIABLES l, scn, case, phase, cmded, verdictObs, nviol
tvars == <<l, scn, case, phase, cmded, verdictObs, nviol>>

Line == Trace[l]
Soft(name, cond, detail) == IF cond THEN 0 ELSE IF PrintT(<<"VIOL", name, scn, l, detail>>) THEN 1 ELSE 1

NoCase == [tasks |-> <<>>, event |-> "START", call |-> "control", op |-> "START_ACTIVITY"]
CTasks == {case.tasks[i].id : i \in 1..Len(case.tasks)}
CRec(t) == CHOOSE r \in {case.tasks[i] : i \in 1..Len(case.tasks)} : r.id = t
CCrit == [t \in CTasks |-> CRec(t).crit]
COut == [t \in CTasks |-> CRec(t).outcome]
\* tasks that were no longer active when the request under test arrived (non-critical tasks that had died): not targets
CLive == {t \in CTasks : ~CRec(t).dead}
CClasses == {case.tasks[i].class : i \in {j \in 1..Len(case.tasks) : ~case.tasks[j].dead}}
\* (a critical task that had died before the request did not get there either)
CAllCritOk == \A t \in CTasks : CCrit[t] => (COut[t] = "ok" /\ ~CRec(t).dead)
IsTestCall == Line.call = case.call /\ (case.call = "create" \/ Line.op = case.op)

TReset ==
  /\ Line.ev = "Reset"
  /\ scn' = Line.scn /\ case' = Line.model /\ phase' = "pre" /\ cmded' = {} /\ verdictObs' = "none"
  /\ UNCHANGED nviol

TApi ==
  /\ Line.ev = "Api"
  /\ phase' = IF phase = "pre" /\ IsTestCall THEN "test" ELSE phase
  /\ UNCHANGED <<scn, case, cmded, verdictObs, nviol>>

TMessage ==
  /\ Line.ev = "MMessage"
  /\ cmded' = IF phase = "test" /\ Line.event = case.event THEN cmded \cup {Line.class} ELSE cmded
  /\ UNCHANGED <<scn, case, phase, verdictObs, nviol>>

TReply ==
  /\ Line.ev = "ApiReply"
  /\ IF phase = "test" /\ IsTestCall
       THEN LET \* (a create that gets past DEPLOY goes on to CONFIGURE: its reply reports CONFIGURED)
                dstObs == IF case.event = "DEPLOY" THEN "CONFIGURED" ELSE Dst(case.event)
                obs == IF Line.timeout THEN "hung" ELSE IF Line.st = dstObs THEN "ok" ELSE "fail"
                pred == Verdict(CLive, CCrit, case.event, COut)
            IN /\ verdictObs' = obs
               /\ phase' = "post"
               /\ (IF obs = pred THEN TRUE ELSE PrintT(<<"DRIFT", scn, l, <<obs, pred>>>>))
               /\ nviol' = nviol
                    + Soft("Iff", (obs = "ok") <=> CAllCritOk, <<obs, CAllCritOk>>)
                    + Soft("FailureIsError",
                           \* (the request returns an error, or reports ERROR: when the environment's own reaction to the loss of
                           \*  the task has taken it to ERROR first, the API's follow-up GO_ERROR is refused and the caller gets
                           \*  the error without a state; that the environment ends in ERROR is judged on the snapshot)
                           ~CAllCritOk => (IF case.call = "create" THEN Line.code # "OK" ELSE (Line.st = "ERROR" \/ Line.code # "OK")),
                           <<Line.code, Line.st>>)
                    + Soft("NothingToCommand", CLive = {} => obs = "ok", obs)
                    \* DEPLOY: success or failure is known "in time" (the client's deadline is several deploy timeouts)
                    + Soft("DeployInTime", case.event = "DEPLOY" => ~Line.timeout, obs)
                    + Soft("OnlyPresentCommanded", cmded \subseteq CClasses, cmded)
       ELSE UNCHANGED <<verdictObs, phase, nviol>>
  /\ UNCHANGED <<scn, case, cmded>>

\* after the transition under test: a failed one must have left the environment in ERROR (control)
\* or removed it (create)
TSnapshot ==
  /\ Line.ev = "Snapshot"
  /\ LET es == {Line.envs[i] : i \in 1..Len(Line.envs)}
     IN nviol' = nviol +
          (IF phase = "post" /\ verdictObs = "fail"
             THEN Soft("EndsInError",
                       IF case.call = "create" THEN es = {} ELSE \A e \in es : e.st = "ERROR", es)
             ELSE 0)
  /\ UNCHANGED <<scn, case, phase, cmded, verdictObs>>

TOther ==
  /\ Line.ev \notin {"Reset", "Api", "MMessage", "ApiReply", "Snapshot"}
  /\ UNCHANGED <<scn, case, phase, cmded, verdictObs, nviol>>

TraceInit ==
  \* the model's own variables are not used by the trace specification (only its operators): pin them
  /\ crit = [t \in Tasks |-> FALSE] /\ present = {} /\ event = "START" /\ outcome = [t \in Tasks |-> "ok"]
  /\ pc = "done" /\ tstate = [t \in Tasks |-> "todo"] /\ resp = "none" /\ bodyErr = FALSE
  /\ envSt = "CONFIGURED" /\ reply = "none"
  /\ l = 1 /\ scn = -1 /\ case = NoCase /\ phase = "pre" /\ cmded = {} /\ verdictObs = "none" /\ nviol = 0

TraceNext ==
  /\ l <= Len(Trace)
  /\ (TReset \/ TApi \/ TMessage \/ TReply \/ TSnapshot \/ TOther)
  /\ l' = l + 1
  /\ UNCHANGED vars

TraceSpec == TraceInit /\ [][TraceNext]_<<vars, tvars>>
PrintEnd == (l = Len(Trace) + 1) => PrintT(<<"END", Len(Trace), nviol>>)
=============================================================================
