-------------------------- MODULE CmdServentTrace --------------------------
(***************************************************************************)
(* Trace specification binding spec/CmdServent.tla to recorded executions   *)
(* of the real core/controlcommands (CommandQueue + Servent), produced by   *)
(* harness/cmd/cmdq.  One TLC run validates many recorded runs (separated   *)
(* by "Reset" lines) and does two things at once:                           *)
(*                                                                         *)
(*  - conformance (strict, scheduled runs only): every recorded line must   *)
(*    be the CmdServent action it names.  The steps of the implementation   *)
(*    that cannot be observed without hooks (BeginCommit, Register,         *)
(*    DoneRecv, Timeout, Unreg) are taken as hidden steps, in a             *)
(*    deterministic way, right before the line that needs them; the one     *)
(*    genuine race of the code (reply vs. response timer) is resolved by    *)
(*    the value the callback later delivered (carried by the Reset line as  *)
(*    `proph`, recorded facts only) and must be justified by the recorded   *)
(*    clock: a timer may fire only when now >= time of SendEnd + TO.  The   *)
(*    value handed to the callback must equal the model's Value(c).         *)
(*    A mismatch prints DRIFT and the run continues in mode "lost".         *)
(*                                                                         *)
(*  - the monitor: independent of the model state, the property formulas    *)
(*    are evaluated on the recorded facts (Send calls, ProcessResponse      *)
(*    calls and returns, callback values, monotonic-clock readings) as      *)
(*    soft invariants; a failure prints VIOL and validation goes on.        *)
(***************************************************************************)
EXTENDS CmdServent, Integers, Json, IOUtils

CONSTANTS Slack,     \* ms granted on top of the response timeout for "completes within its timeout"
          LoopSlack, \* ms: time the event loop + ProcessResponse are granted to take a reply off the event stream
          PromptMin  \* ms: least slack for "every target is handed the command promptly"

Trace == ndJsonDeserialize(IOEnv.TRACE_FILE)

VARIABLES l,      \* next line of Trace
          mode,   \* "ok" | "lost"
          scn,    \* current scenario id
          proph,  \* first callback value per command as recorded (from the Reset line)
          stuck,  \* tokens of the ProcessResponse calls that never returned (from the Reset line)
          mto,    \* monitor: response timeout (ms) given to the commands of this run (from the Reset line)
          msb,    \* monitor: <<c,t>> -> [l, t]: line and time at which SendFunc was entered
          mse,    \* monitor: <<c,t>> -> [t, ok] SendFunc about to return
          mpr,    \* monitor: sequence of ProcessResponse calls [id, snd, tok, lc, lr, tr, dead] (lines, time)
          mcb,    \* monitor: c -> number of callback values so far
          menq,   \* monitor: set of enqueued commands
          mtg,    \* monitor: targets per command of this run (from the Reset line)
          nviol   \* number of soft violations so far

tvars == <<l, mode, scn, proph, stuck, mto, msb, mse, mpr, mcb, menq, mtg, nviol>>
monvars == <<msb, mse, mpr, mcb, menq, mtg>>
allvars == <<vars, tvars>>

Line == Trace[l]
Has(f) == f \in DOMAIN Line
Now == Line.t

Range(s) == {s[i] : i \in DOMAIN s}
MRec(m) == [id |-> m.id, snd |-> m.snd, tok |-> m.tok, err |-> m.err]
LineMsg == MRec(Line.m)

Soft(name, cond, detail) ==
  IF cond THEN 0
  ELSE IF PrintT(<<"VIOL", name, scn, l, detail>>) THEN 1 ELSE 1

(* ======================= conformance ======================= *)
\* recorded result of call o in the first callback value of its command (NoRes if none)
Prophesied(o) ==
  LET cs == {i \in DOMAIN proph : proph[i].c = o[1]} IN
  IF cs = {} THEN NoRes
  ELSE LET v == proph[CHOOSE i \in cs : TRUE]
           es == {j \in DOMAIN v.res : v.res[j].t = o[2]} IN
       IF es = {} THEN NoRes
       ELSE LET e == v.res[CHOOSE j \in es : TRUE] IN R(e.k, MRec(e.m))

\* a recorded callback value (kind, res) equals the model's Value(c)
ValueIs(c, kind, res, errs) ==
  LET v == Value(c) IN
  /\ kind = v.kind
  /\ Len(res) = Cardinality(tg[c])
  /\ {res[j].t : j \in DOMAIN res} = tg[c]
  /\ \A j \in DOMAIN res : R(res[j].k, MRec(res[j].m)) = v.res[res[j].t]
  \* the consumers' view: errors by target
  /\ Len(errs) = Cardinality(DOMAIN v.errs)
  /\ {errs[j].t : j \in DOMAIN errs} = DOMAIN v.errs
  /\ \A j \in DOMAIN errs : [k |-> errs[j].k, tok |-> errs[j].tok] = v.errs[errs[j].t]
HasProph(c) == \E i \in DOMAIN proph : proph[i].c = c
ProphOf(c) == proph[CHOOSE i \in DOMAIN proph : proph[i].c = c]

\* ---- hidden steps needed before the current line can be taken ----
NeedBegin(c) == c \in enq /\ delivered[c] = 0 /\ commit[qof[c]] # c
               /\ \A t \in tg[c] : pc[<<c, t>>] = "none"

\* a ProcessResponse that returned has handed its reply over (if it had found the call): the
\* rendezvous on call.Done precedes the return
CanHandOver == {o \in Active : pc[o] = "waiting" /\ held[o] # NoMsg /\ held[o].tok \notin stuck}

\* The lookup of a ProcessResponse call happens somewhere between its PRCall and PRRet lines; it
\* is taken at the PRRet line (at the PRCall line for calls that never returned, `stuck`).
PRKey == Key(Line.m.id, Line.m.snd)
PRPend == PRKey \in DOMAIN pending
PROwner == pending[PRKey]
PRMatchedLater == PRPend /\ Prophesied(PROwner) = R("reply", LineMsg)
\* the reply found nothing because the timer had fired: justified only by the recorded clock
PRNeedTimeout == /\ PRPend /\ ~PRMatchedLater
                 /\ pc[PROwner] = "waiting" /\ held[PROwner] = NoMsg
                 /\ clock >= deadline[PROwner] /\ Prophesied(PROwner).k = "timeout"
PRNeedUnreg == PRPend /\ ~PRMatchedLater /\ pc[PROwner] \in {"tofired", "sffired"}

Called(tok) == \E i \in DOMAIN mpr : mpr[i].tok = tok
AnsweredBy(o) ==
  LET r == Prophesied(o) IN
  IF held[o] = NoMsg /\ r.k = "reply" /\ r.m \in net /\ Called(r.m.tok) /\ r.m.tok \notin stuck
    THEN r.m ELSE NoMsg

Unfinished(c) == {t \in tg[c] : pc[<<c, t>>] # "ret"}

\* steps of command c's commit that are still to be taken before its value can be delivered
FinishStep(c) ==
  /\ Unfinished(c) # {}
  /\ LET t == CHOOSE x \in Unfinished(c) : TRUE
         o == <<c, t>> IN
     \* the reply the callback value carries was handed over, but the line of its ProcessResponse
     \* return is still to come (it is recorded by another goroutine)
     CASE pc[o] = "waiting" /\ AnsweredBy(o) # NoMsg -> PRecv(AnsweredBy(o))
       [] pc[o] = "waiting" -> Timeout(o[1], o[2])   \* nothing to hand over (see CanHandOver)
       [] pc[o] \in {"tofired", "sffired"} -> Unreg(o[1], o[2])
       [] OTHER -> FALSE

\* The line of a callback value is recorded by the goroutine that receives it: it can appear AFTER
\* lines of the next command of the same queue.  When command c must begin and its queue is still
\* occupied, the occupying command is completed first; its value is checked against its (later)
\* Callback line, which the Reset line carries as `proph`.
MakeRoom(c) ==
  LET q == qof[c]
      b == commit[q] IN
  IF b # NoCmd
    THEN IF Unfinished(b) # {} THEN FinishStep(b)
         ELSE /\ HasProph(b) /\ ValueIs(b, ProphOf(b).kind, ProphOf(b).res, ProphOf(b).errs)
              /\ Deliver(b)
    ELSE queue[q] # <<>> /\ BeginCommit(Head(queue[q]))

Hidden ==
  LET a == Line.ev IN
  IF CanHandOver # {} THEN LET o == CHOOSE x \in CanHandOver : TRUE IN DoneRecv(o[1], o[2])
  ELSE
  CASE a = "SendBegin" ->
         IF NeedBegin(Line.c) THEN MakeRoom(Line.c)
         ELSE pc[<<Line.c, Line.tgt>>] = "idle" /\ Register(Line.c, Line.tgt)
    [] a = "PRRet" ->
         /\ LineMsg \in net
         /\ IF PRNeedTimeout THEN Timeout(PROwner[1], PROwner[2])
            ELSE PRNeedUnreg /\ Unreg(PROwner[1], PROwner[2])
    [] a = "Callback" ->
         IF NeedBegin(Line.c) THEN MakeRoom(Line.c)
         ELSE delivered[Line.c] = 0 /\ FinishStep(Line.c)
    [] OTHER -> FALSE

Visible ==
  LET a == Line.ev IN
  CASE a = "Enqueue" -> Line.ok /\ Enqueue(Line.c)
    [] a = "SendBegin" ->
         /\ pc[<<Line.c, Line.tgt>>] = "registered"
         /\ Line.single       \* SendFunc got a single-target copy of the command for this target
         /\ IF TwoStep(Line.b) THEN SendBegin(Line.c, Line.tgt, Line.b) ELSE UNCHANGED vars
    [] a = "SendEnd" ->
         /\ Line.ok = ~SendFails(Line.b)
         /\ IF TwoStep(Line.b) THEN SendEnd(Line.c, Line.tgt)
                              ELSE SendBegin(Line.c, Line.tgt, Line.b)
    [] a = "PRCall" -> IF Line.m.tok \in stuck THEN PRecv(LineMsg) ELSE UNCHANGED vars
    [] a = "PRRet" -> /\ Line.m.tok \notin stuck
                      /\ IF LineMsg \in net THEN PRecv(LineMsg) ELSE UNCHANGED vars  \* (else: taken above)
    [] a = "Callback" ->
         IF Line.n = 1 /\ delivered[Line.c] = 1 /\ Line.c \in enq
           THEN UNCHANGED vars      \* taken (and its value checked) by MakeRoom
           ELSE /\ DeliverEnabled(Line.c) /\ ValueIs(Line.c, Line.kind, Line.res, Line.errs)
                /\ Deliver(Line.c)
    [] a = "End" -> UNCHANGED vars
    [] OTHER -> FALSE

(* ======================= monitor ======================= *)
P(c, t) == <<c, t>>
PutF(f, k, v) == [x \in DOMAIN f \cup {k} |-> IF x = k THEN v ELSE f[x]]
Tg(c) == IF c \in DOMAIN mtg THEN mtg[c] ELSE {}
Cb(c) == IF c \in DOMAIN mcb THEN mcb[c] ELSE 0

\* ProcessResponse calls addressed to (c,t), as indices into mpr
PRsFor(c, t) == {i \in DOMAIN mpr : mpr[i].id = c /\ mpr[i].snd = t}

\* per-target entry of a callback value (recorded) is acceptable for (c,t)
EntryOwn(c, e) ==
  LET t == e.t IN
  \/ /\ e.k = "reply"          \* the target's own reply: handed to ProcessResponse with this id, this sender
     /\ e.m.id = c /\ e.m.snd = t
     /\ \E i \in PRsFor(c, t) : mpr[i].tok = e.m.tok
  \/ /\ e.k = "senderr"        \* could not be sent: SendFunc did return an error for (c,t)
     /\ e.who = <<c, t>>
     /\ P(c, t) \in DOMAIN mse /\ ~mse[P(c, t)].ok
  \/ /\ e.k = "timeout"        \* did not answer: sent, and the error names this target
     /\ e.who = <<c, t>>
     /\ P(c, t) \in DOMAIN mse /\ mse[P(c, t)].ok

\* The result as its consumers read it (Errors() of a multi-response keyed by target, Err() of a
\* single response; targets named by Err() of a multi-response): exactly the targets whose entry is
\* a failure (error reply, could not be sent, did not answer), each with that target's own error
FailingEntry(e) == e.k \in {"timeout", "senderr"} \/ (e.k = "reply" /\ e.m.err)
ErrMatches(x, e) ==
  \/ x.k = "timeout" /\ e.k = "timeout" /\ x.who = e.who
  \/ x.k = "senderr" /\ e.k = "senderr" /\ x.who = e.who
  \/ x.k = "replyerr" /\ e.k = "reply" /\ e.m.err /\ x.tok = e.m.tok
ErrorsOwn(c) ==
  LET F == {Line.res[j].t : j \in {i \in DOMAIN Line.res : FailingEntry(Line.res[i])}} IN
  /\ Len(Line.errs) = Cardinality(F)
  /\ {Line.errs[j].t : j \in DOMAIN Line.errs} = F
  /\ \A j \in DOMAIN Line.errs :
       \E i \in DOMAIN Line.res : Line.res[i].t = Line.errs[j].t /\ ErrMatches(Line.errs[j], Line.res[i])
  /\ Line.kind = "multi" => (Len(Line.errtasks) = Cardinality(F) /\ {Line.errtasks[j] : j \in DOMAIN Line.errtasks} = F)

OwnAnswerRec(c) ==
  LET T == Tg(c) IN
  /\ Line.kind = (IF T = {} THEN "nil" ELSE IF Cardinality(T) = 1 THEN "single" ELSE "multi")
  /\ Line.idok
  /\ Len(Line.res) = Cardinality(T)
  /\ {Line.res[j].t : j \in DOMAIN Line.res} = T
  /\ \A j \in DOMAIN Line.res : EntryOwn(c, Line.res[j])
  /\ ErrorsOwn(c)

Entry(t) == Line.res[CHOOSE j \in DOMAIN Line.res : Line.res[j].t = t]
HasEntry(t) == \E j \in DOMAIN Line.res : Line.res[j].t = t

\* a reply handed to ProcessResponse for (c,t) which RETURNED before the response timer of (c,t)
\* could possibly have fired, with no other reply for the same call around, is the answer of (c,t):
\* nothing else (another command, another target, a duplicate, a foreign reply) took or failed it
InTimeReplyWins(c) ==
  \A t \in Tg(c) :
    LET S == PRsFor(c, t) IN
    (S # {} /\ P(c, t) \in DOMAIN mse /\ mse[P(c, t)].ok /\ P(c, t) \in DOMAIN msb) =>
      LET f == CHOOSE i \in S : \A j \in S : i <= j IN
      ( /\ mpr[f].lc > msb[P(c, t)].l            \* handed in after SendFunc was entered (call registered)
        /\ mpr[f].lr > 0 /\ mpr[f].tr < mse[P(c, t)].t + mto
        /\ \A j \in S \ {f} : mpr[j].lc > mpr[f].lr )
      => (HasEntry(t) /\ Entry(t).k = "reply" /\ Entry(t).m.tok = mpr[f].tok)

\* (loop runs) a target that answered at once is not reported as failed, whatever happened to OTHER
\* commands before - e.g. a reply to a command that had already been abandoned: the only reply of
\* (c,t), put on the event stream after SendFunc was entered for (c,t) and at least LoopSlack ms
\* before the response timer of (c,t) can fire, is the answer of (c,t)
AnsweredWins(c) ==
  \A t \in Tg(c) :
    LET S == PRsFor(c, t) IN
    (S # {} /\ P(c, t) \in DOMAIN mse /\ mse[P(c, t)].ok /\ P(c, t) \in DOMAIN msb) =>
      LET f == CHOOSE i \in S : \A j \in S : i <= j IN
      ( /\ mpr[f].emit /\ S = {f}
        /\ mpr[f].lc > msb[P(c, t)].l
        /\ mpr[f].tc + LoopSlack <= mse[P(c, t)].t + mto )
      => (HasEntry(t) /\ Entry(t).k = "reply" /\ Entry(t).m.tok = mpr[f].tok)

AllSent(c) == \A t \in Tg(c) : P(c, t) \in DOMAIN mse
LastSend(c) == LET S == {mse[P(c, t)].t : t \in Tg(c)} IN CHOOSE x \in S : \A y \in S : x >= y
\* sends of command c recorded so far
SentOf(c) == {p \in DOMAIN msb : p[1] = c}
FirstBegin(c) == LET S == {msb[p].t : p \in SentOf(c)} IN CHOOSE x \in S : \A y \in S : x <= y
\* longest time the environment kept a SendFunc of c from returning
MaxHold(c) == LET S == {mse[p].t - msb[p].t : p \in {q \in SentOf(c) : q \in DOMAIN mse}} \cup {0} IN
              CHOOSE x \in S : \A y \in S : x >= y
\* the command completes within its response timeout: counted from the latest return of a SendFunc,
\* and from the moment the first target was handed the command (plus what the transport took)
BoundedRec(c) ==
  (Tg(c) # {} /\ AllSent(c)) =>
     /\ Now <= LastSend(c) + mto + Slack
     /\ Now <= FirstBegin(c) + MaxHold(c) + mto + Slack
\* every target is handed the command promptly, however many targets there are: nothing in the
\* implementation may make a target wait for another target's answer or timeout.  Judged with a
\* slack of a whole response timeout (and at least PromptMin ms): SendFunc is entered for every
\* target less than that after it was entered for the first one.
PromptLimit == IF mto >= PromptMin THEN mto ELSE PromptMin
PromptSendRec(c) == SentOf(c) # {} => Now - FirstBegin(c) < PromptLimit
TimeoutNotEarlyRec(c) ==
  \A j \in DOMAIN Line.res :
    (Line.res[j].k = "timeout" /\ P(c, Line.res[j].t) \in DOMAIN mse)
       => Now >= mse[P(c, Line.res[j].t)].t + mto

MonitorStep ==
  LET a == Line.ev IN
  CASE a = "Enqueue" ->
         /\ menq' = IF Line.ok THEN menq \cup {Line.c} ELSE menq
         /\ UNCHANGED <<msb, mse, mpr, mcb, mtg, nviol>>
    [] a = "SendBegin" ->
         /\ msb' = PutF(msb, P(Line.c, Line.tgt), [l |-> l, t |-> Now])
         /\ nviol' = nviol + Soft("PromptSend", PromptSendRec(Line.c), <<Line.c, Line.tgt, Now>>)
         /\ UNCHANGED <<mse, mpr, mcb, menq, mtg>>
    [] a = "SendEnd" ->
         /\ mse' = PutF(mse, P(Line.c, Line.tgt), [t |-> Now, ok |-> Line.ok])
         /\ UNCHANGED <<msb, mpr, mcb, menq, mtg, nviol>>
    [] a \in {"PRCall", "EvEmit"} ->
         \* PRCall: the reply is about to be handed to ProcessResponse; EvEmit (loop runs): the reply is put
         \* on the Mesos event stream, from which the scheduler's own handler feeds ProcessResponse
         /\ mpr' = Append(mpr, [id |-> Line.m.id, snd |-> Line.m.snd, tok |-> Line.m.tok, lc |-> l, lr |-> 0, tc |-> Now, tr |-> -1,
                                emit |-> (a = "EvEmit"),
                                dead |-> (Line.m.id \notin DOMAIN mtg \/ Line.m.snd \notin Tg(Line.m.id)
                                          \/ Cb(Line.m.id) >= 1)])
         /\ UNCHANGED <<msb, mse, mcb, menq, mtg, nviol>>
    [] a = "PRRet" ->
         /\ mpr' = [i \in DOMAIN mpr |-> IF mpr[i].tok = Line.m.tok THEN [mpr[i] EXCEPT !.tr = Now, !.lr = l] ELSE mpr[i]]
         /\ UNCHANGED <<msb, mse, mcb, menq, mtg, nviol>>
    [] a = "Callback" ->
         /\ mcb' = PutF(mcb, Line.c, Cb(Line.c) + 1)
         /\ nviol' = nviol
              + Soft("ExactlyOnce", Cb(Line.c) = 0 /\ Line.c \in menq, <<Line.c, Cb(Line.c) + 1>>)
              + Soft("OwnAnswer", OwnAnswerRec(Line.c), <<Line.c, Line.kind, Line.res, Line.errs>>)
              + Soft("NoCrossTalk", Cb(Line.c) = 0 => (InTimeReplyWins(Line.c) /\ AnsweredWins(Line.c)), <<Line.c, Line.res>>)
              + Soft("Bounded", Cb(Line.c) = 0 => BoundedRec(Line.c), <<Line.c, Now>>)
              + Soft("TimeoutNotEarly", TimeoutNotEarlyRec(Line.c), <<Line.c, Now>>)
         /\ UNCHANGED <<msb, mse, mpr, menq, mtg>>
    [] a = "End" ->
         \* facts about the whole run, taken after the grace period
         /\ nviol' = nviol
              + Soft("ExactlyOnce", \A c \in menq : Cb(c) = 1, [c \in menq |-> Cb(c)])
              + Soft("UnknownDropped", \A i \in DOMAIN mpr : (mpr[i].dead /\ ~mpr[i].emit) => mpr[i].tr >= 0,
                     {mpr[i].tok : i \in {j \in DOMAIN mpr : mpr[j].dead /\ ~mpr[j].emit /\ mpr[j].tr < 0}})
         /\ UNCHANGED monvars
    [] OTHER -> UNCHANGED <<monvars, nviol>>

(* ======================= trace steps ======================= *)
IsStep == Line.ev # "Reset"

TAdvance ==
  /\ l <= Len(Trace) /\ IsStep /\ mode = "ok" /\ clock < Now
  /\ clock' = Now
  /\ UNCHANGED <<tg, qof, enq, queue, commit, pc, beh, net, pending, held, result, deadline, began, delivered>>
  /\ UNCHANGED tvars

THidden ==
  /\ l <= Len(Trace) /\ IsStep /\ mode = "ok" /\ clock >= Now
  /\ Hidden
  /\ UNCHANGED tvars

TVisible ==
  /\ l <= Len(Trace) /\ IsStep /\ mode = "ok" /\ clock >= Now
  /\ ~ENABLED Hidden
  /\ Visible
  /\ MonitorStep
  /\ l' = l + 1 /\ UNCHANGED <<mode, scn, proph, stuck, mto>>

OkStep == TAdvance \/ THidden \/ TVisible

TStepDrift ==
  /\ l <= Len(Trace) /\ IsStep /\ mode = "ok"
  /\ ~ENABLED OkStep
  /\ PrintT(<<"DRIFT", scn, l, Line.ev>>)
  /\ MonitorStep
  /\ mode' = "lost" /\ l' = l + 1 /\ UNCHANGED <<vars, scn, proph, stuck, mto>>

TStepLost ==
  /\ l <= Len(Trace) /\ IsStep /\ mode = "lost"
  /\ MonitorStep
  /\ l' = l + 1 /\ UNCHANGED <<vars, mode, scn, proph, stuck, mto>>

TgOf(c) == IF c \in DOMAIN Line.tg THEN Range(Line.tg[c]) ELSE {}

TReset ==
  /\ l <= Len(Trace) /\ Line.ev = "Reset"
  /\ tg' = [c \in Cmds |-> TgOf(c)]
  /\ qof' = [c \in Cmds |-> IF c \in DOMAIN Line.qof THEN Line.qof[c] ELSE CHOOSE q \in Queues : TRUE]
  /\ enq' = {} /\ queue' = [q \in Queues |-> <<>>] /\ commit' = [q \in Queues |-> NoCmd]
  /\ pc' = [p \in Pairs |-> "none"] /\ beh' = [p \in Pairs |-> None]
  /\ net' = {} /\ pending' = <<>> /\ held' = [p \in Pairs |-> NoMsg]
  /\ result' = [p \in Pairs |-> NoRes] /\ deadline' = [p \in Pairs |-> 0]
  /\ began' = [c \in Cmds |-> 0] /\ clock' = 0
  /\ delivered' = [c \in Cmds |-> 0]
  /\ mode' = (IF Line.mode = "sched" THEN "ok" ELSE "lost")
  /\ scn' = Line.scn /\ proph' = Line.proph /\ stuck' = Range(Line.stuck)
  /\ mto' = Line.to /\ msb' = <<>> /\ mse' = <<>> /\ mpr' = <<>> /\ mcb' = <<>> /\ menq' = {}
  /\ mtg' = [c \in DOMAIN Line.tg |-> Range(Line.tg[c])]
  /\ l' = l + 1 /\ UNCHANGED nviol

TraceInit ==
  /\ tg = [c \in Cmds |-> {}] /\ qof = [c \in Cmds |-> CHOOSE q \in Queues : TRUE]
  /\ enq = {} /\ queue = [q \in Queues |-> <<>>] /\ commit = [q \in Queues |-> NoCmd]
  /\ pc = [p \in Pairs |-> "none"] /\ beh = [p \in Pairs |-> None]
  /\ net = {} /\ pending = <<>> /\ held = [p \in Pairs |-> NoMsg]
  /\ result = [p \in Pairs |-> NoRes] /\ deadline = [p \in Pairs |-> 0]
  /\ began = [c \in Cmds |-> 0] /\ clock = 0
  /\ delivered = [c \in Cmds |-> 0]
  /\ l = 1 /\ mode = "lost" /\ scn = -1 /\ proph = <<>> /\ stuck = {}
  /\ mto = TO /\ msb = <<>> /\ mse = <<>> /\ mpr = <<>> /\ mcb = <<>> /\ menq = {} /\ mtg = <<>>
  /\ nviol = 0

TraceNext == TAdvance \/ THidden \/ TVisible \/ TStepDrift \/ TStepLost \/ TReset

TraceSpec == TraceInit /\ [][TraceNext]_allvars

Done == l = Len(Trace) + 1
PrintEnd == Done => PrintT(<<"END", Len(Trace), nviol>>)
=============================================================================
