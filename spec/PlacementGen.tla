---------------------------- MODULE PlacementGen ----------------------------
(***************************************************************************)
(* Scenario generation for C05 by TLC.                                      *)
(*  - GenPureSpec: the states of Placement!PureSpec ARE the pure cases; the  *)
(*    invariant EmitCase prints each of them once as <<"CASE", case>>.      *)
(*  - GenRoundSpec: the initial states of Placement!RoundSpec are the       *)
(*    rounds of the catalogue; EmitRound prints <<"ROUND", offers, descs,   *)
(*    exec>> (scenarios for the whole-core simulation), and, for every      *)
(*    finished behaviour of the implementation-shaped model under the Code_ *)
(*    constants of the cfg, <<"OUTCOME", offers, descs, exec, obs, panic,   *)
(*    verdict, PlacementOK>>; and <<"HISTORY", offers, versions, exec>> for *)
(*    the histories of the catalogue (template edited between deployments). *)
(*  - GenRandSpec (tlc -simulate num=1 -depth N -seed S): N seeded random     *)
(*    pure cases beyond the catalogues (longer constraint lists, deeper     *)
(*    chains, wider resource grid, longer expressions), printed likewise.   *)
(***************************************************************************)
EXTENDS Placement

VARIABLE n    \* GenRandSpec: number of the random case

EmitCase == PrintT(<<"CASE", c>>)
GenPureSpec == (PureInit /\ n = 0) /\ [][PureNext /\ UNCHANGED n]_<<c, rd, n>>

EmitRound ==
  /\ (rd.pc = "offers" /\ rd.processed = {} /\ rd.accepts = <<>>) => PrintT(<<"ROUND", rd.offers, rd.descs, rd.exec>>)
  /\ (rd.pc \in {"done", "panic"}) =>
       PrintT(<<"OUTCOME", rd.offers, rd.descs, rd.exec, ObsOf(rd), rd.pc = "panic",
                [deployed |-> Deployed(rd), undeployed |-> Range(rd.todo), undeployable |-> Range(rd.undep)],
                PlacementOK(rd.offers, rd.descs, ObsOf(rd))>>)
  \* the histories (deployments in one core between which a task template changes), once each
  /\ (rd.pc = "history") => PrintT(<<"HISTORY", rd.h.offers, rd.h.versions, rd.h.exec>>)
HistInit == c = NoCase /\ \E h \in HistoryCat : rd = [pc |-> "history", h |-> h]
GenRoundSpec == ((RoundInit \/ HistInit) /\ n = 0) /\ [][rd.pc # "history" /\ RoundNext /\ UNCHANGED n]_<<c, rd, n>>

\* ---- seeded random cases (operators take the step number so that TLC re-evaluates them at every step)
Rnd(S, k) == RandomElement(S)
RndSeq(S, lo, hi, k) == [i \in 1..Rnd(lo..hi, k) |-> Rnd(S, k + i)]
BigAttrLists ==
  {MkAttrs(m, r) \o z : m \in {"", "hA", "hB", "hC"}, r \in {"", "r1", "r2", "r3", "r1,r2", "r3,r1,r2", "r1,r1"},
                        z \in {<<>>, <<<<"zone", "z1">>>>, <<<<"zone", "z2,z1">>>>, <<<<"RACK", "r9">>>>}}
BigCts == CtAlphabet \cup {<<"machine_id", "hC">>, <<"zone", "z2">>, <<"rack", "r1,r2">>, <<"Machine_id", "hA">>, <<"rack", "R1">>, <<"rack", "">>}
BigPorts == PortOffers \cup {<<<<9001, 9002>>>>, <<<<9000, 9002>>, <<30000, 30001>>>>, <<<<9000, 9000>>, <<9002, 9002>>>>,
                            <<<<9000, 9001>>, <<9002, 9002>>>>, <<<<8998, 9001>>>>, <<<<30000, 30003>>>>, <<<<9002, 9004>>, <<9000, 9000>>>>}
BigStatic == StaticWants \cup {<<<<9001, 9002>>>>, <<<<9002, 9002>>, <<9000, 9000>>>>, <<<<9000, 9001>>, <<9001, 9002>>>>,
                              <<<<30000, 30000>>>>, <<<<8998, 8999>>>>, <<<<9000, 9000>>, <<9000, 9000>>>>, <<<<9001, 9001>>, <<30001, 30001>>>>}
RandCase(k) ==
  CASE k % 4 = 0 -> [fn |-> "Satisfy", attrs |-> Rnd(BigAttrLists, k), cts |-> RndSeq(BigCts, 2, 6, k)]
    [] k % 4 = 1 -> LET o == Rnd(ClassOpts, k) IN
                    [fn |-> "RoleChain", levels |-> RndSeq(L3, 2, 5, k), hasclass |-> o.has, class |-> o.cts, agents |-> ChainAgents]
    [] k % 4 = 2 -> [fn |-> "ResSatisfy",
                     res |-> [hascpu |-> Rnd({TRUE, TRUE, TRUE, FALSE}, k), cpu |-> 250 * Rnd(0..12, k),
                              hasmem |-> Rnd({TRUE, TRUE, TRUE, FALSE}, k + 1), mem |-> 32 * Rnd(0..8, k), ports |-> Rnd(BigPorts, k)],
                     want |-> [cpu |-> 250 * Rnd(0..12, k + 1), mem |-> 32 * Rnd(0..8, k + 1), static |-> Rnd(BigStatic, k),
                               tcp |-> Rnd(0..3, k), ipc |-> Rnd(0..2, k)]]
    [] OTHER -> [fn |-> "ParseRanges", expr |-> JoinR(RndSeq(Items1, 1, 4, k), Rnd({",", ",", ", "}, k))]
GenRandInit == c = RandCase(0) /\ rd = NoRound /\ n = 0
GenRandNext == c' = RandCase(n + 1) /\ n' = n + 1 /\ UNCHANGED rd
GenRandSpec == GenRandInit /\ [][GenRandNext]_<<c, rd, n>>
=============================================================================
