--------------------------- MODULE ConfigQueryEdit ---------------------------
(***************************************************************************)
(* Seeded case generation for C20 beyond the exhaustive bounds of           *)
(* spec/ConfigQueryGen.tla: a behaviour assembles a query string            *)
(* comp/RT/role/entry (or an entries query comp/RT/role, or a parameter      *)
(* string k=v&k=v) token by token and then applies a few edits (insert /     *)
(* delete / replace one token, pad with blanks).  Run with `tlc -simulate`   *)
(* (seeded); EVERY state of a behaviour is a case for the driver: prefixes   *)
(* of well-formed strings, well-formed strings, and their near misses.  The  *)
(* property formulas are invariants here too, so the simulation also checks   *)
(* the code-level functions on strings longer than the exhaustive bound.     *)
(***************************************************************************)
EXTENDS ConfigQuery

CONSTANTS MaxEdits,   \* edits applied to an assembled string
          MaxSeg      \* tokens per segment / key / value

VARIABLES kind,   \* "none" | "str" | "par"
          phase,  \* "none" | "build" | "edit"
          left,   \* separators ("/" resp. "&") still to be placed
          s,      \* the token string
          n       \* edits so far

evars == <<kind, phase, left, s, n>>

StrTok == {"a", "X", "7", "-", "_", "P", "A", "/", " ", "N", "@", "."}
ParTok == {"a", "b", "p", "t", "0", "-", "=", "&", ",", "Q", "[", " ", "@"}
\* the first edit draws from every character that is in no word class (all ASCII punctuation, blanks, non-ASCII) and
\* the focused ones; later edits from the characters the grammars care most about (every letter and digit at every
\* position is the business of the "sweep" cases of ConfigQueryGen)
Focused == IF kind = "str" THEN StrTok ELSE ParTok
EditTok == IF n = 0 THEN Focused \cup (Tok \ Word) ELSE Focused
SegTok == {"a", "X", "7", "-", "_", "P"}
KeyTok == {"a", "b", "p", "-", "7"}
ValTok == {"a", "t", "0", ",", "Q", "[", "]", "_"}

LastAt(c) == LET I == {i \in 1..Len(s) : s[i] = c} IN IF I = {} THEN 0 ELSE Max(I)
SegLen == Len(s) - LastAt("/")                                       \* tokens since the last separator
InVal == \E i \in (LastAt("&") + 1)..Len(s) : s[i] = "="             \* inside the value of the current pair
PieceLen == Len(s) - Max({LastAt("&"), LastAt("=")})

Init == kind = "none" /\ phase = "none" /\ left = 0 /\ s = <<>> /\ n = 0

\* --- assembling a query string ---
G_StartQuery(c) ==   /\ phase = "none" /\ kind' = "str" /\ phase' = "build" /\ left' = 2 /\ s' = <<c>> /\ n' = 0
G_StartEntries(c) == /\ phase = "none" /\ kind' = "str" /\ phase' = "build" /\ left' = 1 /\ s' = <<c>> /\ n' = 0
G_Grow(c) ==         /\ kind = "str" /\ phase = "build" /\ SegLen < MaxSeg
                     /\ c = "/" => (left = 0 /\ Cardinality(Slashes(s)) >= 3 /\ Len(s) < 5 * MaxSeg)   \* only the entry may contain '/'
                     /\ s' = Append(s, c) /\ UNCHANGED <<kind, phase, left, n>>
G_Sep(rt) ==         /\ kind = "str" /\ phase = "build" /\ left > 0 /\ SegLen > 0
                     /\ s' = (IF Slashes(s) = {} THEN s \o <<"/", rt, "/">> ELSE Append(s, "/"))   \* comp "/RT/" role, then "/" entry
                     /\ left' = left - 1 /\ UNCHANGED <<kind, phase, n>>

\* --- assembling a parameter string ---
G_StartParams(k) ==  /\ phase = "none" /\ kind' = "par" /\ phase' = "build" /\ left' = 2 /\ s' = <<k>> /\ n' = 0
G_PGrow(c) ==        /\ kind = "par" /\ phase = "build" /\ PieceLen < MaxSeg
                     /\ IF InVal THEN c \in ValTok ELSE c \in KeyTok
                     /\ s' = Append(s, c) /\ UNCHANGED <<kind, phase, left, n>>
G_PEq(v) ==          /\ kind = "par" /\ phase = "build" /\ ~InVal
                     /\ s' = s \o <<"=", v>> /\ UNCHANGED <<kind, phase, left, n>>
G_PAmp(k) ==         /\ kind = "par" /\ phase = "build" /\ InVal /\ left > 0
                     /\ s' = s \o <<"&", k>> /\ left' = left - 1 /\ UNCHANGED <<kind, phase, n>>

\* --- edits ---
G_Done ==            /\ phase = "build" /\ phase' = "edit" /\ UNCHANGED <<kind, left, s, n>>
G_Insert(i, c) ==    /\ phase = "edit" /\ n < MaxEdits
                     /\ s' = SubSeq(s, 1, i) \o <<c>> \o SubSeq(s, i + 1, Len(s))
                     /\ n' = n + 1 /\ UNCHANGED <<kind, phase, left>>
G_Delete(i) ==       /\ phase = "edit" /\ n < MaxEdits
                     /\ s' = SubSeq(s, 1, i - 1) \o SubSeq(s, i + 1, Len(s))
                     /\ n' = n + 1 /\ UNCHANGED <<kind, phase, left>>
G_Replace(i, c) ==   /\ phase = "edit" /\ n < MaxEdits /\ s[i] # c
                     /\ s' = [s EXCEPT ![i] = c]
                     /\ n' = n + 1 /\ UNCHANGED <<kind, phase, left>>
G_Pad(b) ==          /\ phase = "edit" /\ n < MaxEdits
                     /\ s' = <<b>> \o s \o <<b>>
                     /\ n' = n + 1 /\ UNCHANGED <<kind, phase, left>>

Next ==
  \/ \E c \in SegTok : G_StartQuery(c) \/ G_StartEntries(c)
  \/ \E c \in SegTok \cup {"/"} : G_Grow(c)
  \/ \E rt \in {"P", "A", "X"} : G_Sep(rt)
  \/ \E k \in KeyTok : G_StartParams(k) \/ G_PAmp(k)
  \/ \E c \in KeyTok \cup ValTok : G_PGrow(c)
  \/ \E v \in ValTok : G_PEq(v)
  \/ G_Done
  \/ \E i \in 0..Len(s), c \in EditTok : G_Insert(i, c)
  \/ \E i \in 1..Len(s) : G_Delete(i)
  \/ \E i \in 1..Len(s), c \in EditTok : G_Replace(i, c)
  \/ \E b \in {" ", "N"} : G_Pad(b)

GenSpec == Init /\ [][Next]_evars

IsStr == kind = "str"
UnambiguousInv       == IsStr => Unambiguous(s)
ParseExactInv        == IsStr => ParseExact(s)
MalformedRejectedInv == IsStr => MalformedRejected(s)
RoundTripInv         == IsStr => RoundTrip(s)
EntriesExactInv      == IsStr => EntriesExact(s)
ParamsExactInv       == kind = "par" => ParamsExact(s)
=============================================================================
