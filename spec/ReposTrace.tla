------------------------------ MODULE ReposTrace -----------------------------
(***************************************************************************)
(* Trace specification for Repos (X10) over runs of the real                *)
(* repos.RepoManager (harness/cmd/reposrun).  Lines:                         *)
(*   Reset{scn, cfg}                                                         *)
(*   Start{res, repos, kdef, haskdef, krevs, haskrevs, disk}                  *)
(*   Op{op, n, i, r, f, res, s1, b1, repos, kdef, haskdef, krevs, haskrevs,   *)
(*      disk, wfrev, wfrepo, wfpath}                                          *)
(*        repos: GetOrderedRepolistKeys + GetAllRepos: {id, drev, def}        *)
(*        kdef / krevs: the runtime KV read back from the fake Consul          *)
(*        disk: the clone directories; wfrev: the revision whose commit         *)
(*        GetWorkflow's repo reports as hash (and HEAD of the clone is on)      *)
(*   Fin                                                                     *)
(* Conformance (strict): DRIFT.  Monitor on the recorded facts only: VIOL;    *)
(* a failure a Code_* constant explains is printed as OBS.                    *)
(***************************************************************************)
EXTENDS Repos, Json, IOUtils

Trace == ndJsonDeserialize(IOEnv.TRACE_FILE)
VARIABLES l, scn, drifted, nviol, ndrift, mon
tvars == <<l, scn, drifted, nviol, ndrift, mon>>
Line == Trace[l]
Chk(name, cond, exempt, detail) ==
  IF cond THEN 0 ELSE IF exempt THEN (IF PrintT(<<"OBS", name, scn, l, detail>>) THEN 0 ELSE 0)
  ELSE IF PrintT(<<"VIOL", name, scn, l, detail>>) THEN 1 ELSE 1
Drift(detail) == PrintT(<<"DRIFT", scn, l, detail>>)
SeqSet(s) == {s[k] : k \in 1..Len(s)}
Ids(rs) == {rs[k].id : k \in 1..Len(rs)}
DefsOf(rs) == {rs[k].id : k \in {j \in 1..Len(rs) : rs[j].def}}
DrevOf(rs, n) == IF \E k \in 1..Len(rs) : rs[k].id = n THEN rs[CHOOSE k \in 1..Len(rs) : rs[k].id = n].drev ELSE "none"
KrevOf(ks, n) == IF \E k \in 1..Len(ks) : ks[k].id = n THEN ks[CHOOSE k \in 1..Len(ks) : ks[k].id = n].rev ELSE "none"
KDef == IF Line.haskdef THEN Line.kdef ELSE "none"

(* ------------------------------ conformance ------------------------------ *)
StateMatch ==
  /\ list' = Ids(Line.repos) /\ Len(Line.repos) = Cardinality(list')
  /\ DefsOf(Line.repos) = (IF def' = "none" THEN {} ELSE {def'})
  /\ drev' = [n \in Names |-> DrevOf(Line.repos, n)]
  /\ kdef' = KDef
  /\ Line.haskrevs /\ Ids(Line.krevs) \subseteq Names /\ krevs' = [n \in Names |-> KrevOf(Line.krevs, n)]
  /\ disk' = SeqSet(Line.disk)
ResMatch ==
  /\ last'.res = Line.res
  /\ (Line.op \in {"add", "remove"} => last'.s1 = Line.s1)
  /\ (Line.op = "add" => last'.b1 = Line.b1)
  /\ (Line.op = "getwf" => last'.s1 = Line.wfrev /\ (Line.res = "ok" => Line.wfrepo = last'.t))
OpStep ==
  CASE Line.op = "add" -> Add(Line.n, Line.r, Line.f)
    [] Line.op = "remove" -> Remove(Line.i, Line.f)
    [] Line.op = "defidx" -> DefIdx(Line.i, Line.f)
    [] Line.op = "defname" -> DefName(Line.n, Line.f)
    [] Line.op = "revidx" -> RevIdx(Line.i, Line.r, Line.f)
    [] Line.op = "refresh" -> Refresh
    [] Line.op = "refreshidx" -> RefreshIdx(Line.i)
    [] Line.op = "getwf" -> GetWf(Line.n, Line.r)
    [] Line.op = "restart" -> Restart
    [] OTHER -> FALSE
Explained ==
  CASE Line.ev = "Op" -> OpStep /\ ResMatch /\ StateMatch
    [] Line.ev = "Start" -> Line.res = "ok" /\ UNCHANGED vars /\ StateMatch
    [] Line.ev = "Fin" -> UNCHANGED vars
    [] OTHER -> FALSE

(* ------------------------------ monitor (recorded facts only) ------------------------------ *)
NoProj == [repos |-> <<>>, kdef |-> "none", krevs |-> <<>>, disk |-> <<>>]
MonInit == [prev |-> NoProj, faulted |-> FALSE, looked |-> {}, moved |-> {}, cfg |-> "r1"]
Proj == [repos |-> Line.repos, kdef |-> KDef, krevs |-> Line.krevs, disk |-> Line.disk]
WfPath(t) == "repos/127.0.0.1/o/" \o t \o "/workflows/wf.yaml"
MonState(faulted2) ==
  LET rs == Line.repos
  IN Chk("UniqueIds", Cardinality(Ids(rs)) = Len(rs), FALSE, rs)
   + Chk("OneDefault", Cardinality(DefsOf(rs)) = (IF Len(rs) = 0 THEN 0 ELSE 1), FALSE, rs)
   + Chk("RevisionsValid", \A k \in 1..Len(rs) : rs[k].drev \in Has(rs[k].id), FALSE, rs)
   + Chk("DiskIsList", SeqSet(Line.disk) = Ids(rs), FALSE, <<Line.disk, Ids(rs)>>)
   + Chk("PersistedDefaultMatches", Line.res = "ok" => (IF Len(rs) = 0 THEN KDef = mon.cfg ELSE DefsOf(rs) = {KDef}),
         Code_PersistFailureIgnored /\ faulted2, <<KDef, DefsOf(rs)>>)
   + Chk("PersistedRevsMatch", Line.res = "ok" => \A k \in 1..Len(rs) : KrevOf(Line.krevs, rs[k].id) = rs[k].drev,
         Code_NotAtomic /\ faulted2, <<Line.krevs, rs>>)
MonOp ==
  LET rs == Line.repos
      P == mon.prev
      prevIds == Ids(P.repos)
      prevDef == DefsOf(P.repos)
      target == IF Line.n = "" THEN (IF prevDef # {} THEN CHOOSE x \in prevDef : TRUE ELSE "") ELSE Line.n
      known == target \in prevIds
      faulted2 == mon.faulted \/ Line.f
      v == MonState(faulted2)
         + Chk("NoPanic", Line.res # "panic", Code_NegIndexPanics /\ Line.i < 0, <<Line.op, Line.i, Line.err>>)
         + Chk("FailedChangesNothing", Line.res # "ok" => Proj = P, Code_NotAtomic /\ Line.f, <<Line.op, Line.n, Line.i, Line.err, P, Proj>>)
         + Chk("RestartRestores", Line.op = "restart" /\ Len(P.repos) > 0 => rs = P.repos,
               (Code_PersistFailureIgnored \/ Code_NotAtomic) /\ mon.faulted, <<P.repos, rs>>)
         + Chk("RemoveElects", Line.op = "remove" /\ Line.res = "ok" /\ prevDef \cap Ids(rs) = {} /\ Len(rs) > 0
                                 => DefsOf(rs) = {rs[1].id} /\ Line.s1 = rs[1].id /\ KDef = rs[1].id, FALSE, <<Line.s1, rs, KDef>>)
         + Chk("AddReports", Line.op = "add" /\ Line.res = "ok"
                                 => Line.n \in Ids(rs) /\ Line.s1 = DrevOf(rs, Line.n) /\ Line.b1 = (Line.s1 = G), FALSE, <<Line.n, Line.s1, Line.b1, rs>>)
         + Chk("WorkflowUsesDefault", Line.op = "getwf" /\ Line.r = "" /\ known
                                 => Line.res = "ok" /\ Line.wfrev = DrevOf(rs, target) /\ Line.wfrepo = target,
               Code_StickyRevision /\ target \in mon.looked \cup mon.moved, <<target, Line.res, Line.wfrev, DrevOf(rs, target)>>)
         + Chk("WorkflowRevisionRight", Line.op = "getwf" /\ Line.res = "ok"
                                 => (Line.r # "" => Line.wfrev = Line.r) /\ Line.wfrepo = target /\ Line.wfpath = WfPath(target),
               FALSE, <<target, Line.r, Line.wfrev, Line.wfrepo, Line.wfpath>>)
      looked2 == IF Line.op = "restart" THEN {}
                 ELSE (IF Line.op = "getwf" /\ Line.r # "" /\ known THEN mon.looked \cup {target} ELSE mon.looked) \cap Ids(rs)
      \* repos whose default revision was moved by UpdateDefaultRevisionByIndex (Repo.Revision stays behind)
      moved2 == IF Line.op = "restart" THEN {}
                ELSE (mon.moved \cup {x \in prevIds \cap Ids(rs) : Line.op = "revidx" /\ DrevOf(rs, x) # DrevOf(P.repos, x)}) \cap Ids(rs)
  IN /\ nviol' = nviol + v
     /\ mon' = [mon EXCEPT !.prev = Proj, !.faulted = faulted2, !.looked = looked2, !.moved = moved2]
Mon ==
  CASE Line.ev = "Op" /\ Line.res \in {"ok", "err", "panic"} -> MonOp
    [] Line.ev = "Start" /\ Line.res = "ok" -> /\ nviol' = nviol + MonState(FALSE) /\ mon' = [mon EXCEPT !.prev = Proj]
    [] OTHER -> UNCHANGED <<mon, nviol>>

TReset ==
  /\ Line.ev = "Reset" /\ scn' = Line.scn /\ drifted' = FALSE /\ mon' = [MonInit EXCEPT !.cfg = Line.cfg]
  /\ list' = {Cfg} /\ def' = Cfg /\ disk' = {Cfg} /\ kdef' = Cfg
  /\ drev' = [NoRevs EXCEPT ![Cfg] = G] /\ cur' = [NoRevs EXCEPT ![Cfg] = G]
  /\ mrevs' = [NoRevs EXCEPT ![Cfg] = G] /\ krevs' = [NoRevs EXCEPT ![Cfg] = G]
  /\ last' = [op |-> "start", n |-> "", i |-> 0, r |-> "", f |-> FALSE, res |-> "ok", s1 |-> "", b1 |-> FALSE, t |-> "",
              pre |-> [list |-> {}, def |-> "none", drev |-> NoRevs, kdef |-> "none", krevs |-> NoRevs, disk |-> {}], precur |-> NoRevs]
  /\ UNCHANGED <<nviol, ndrift>>
TOk == /\ Line.ev # "Reset" /\ ~drifted /\ Explained /\ Mon /\ UNCHANGED <<scn, drifted, ndrift>>
TDrift == /\ Line.ev # "Reset" /\ ~drifted /\ ~ENABLED Explained
          /\ Drift(<<Line, list, def, drev, cur, kdef, krevs, disk>>)
          /\ drifted' = TRUE /\ ndrift' = ndrift + 1 /\ Mon /\ UNCHANGED <<vars, scn>>
TLost == /\ Line.ev # "Reset" /\ drifted /\ Mon /\ UNCHANGED <<vars, scn, drifted, ndrift>>
TraceInit == Init /\ l = 1 /\ scn = -1 /\ drifted = FALSE /\ nviol = 0 /\ ndrift = 0 /\ mon = MonInit
TraceNext == l <= Len(Trace) /\ (TReset \/ TOk \/ TDrift \/ TLost) /\ l' = l + 1
TraceSpec == TraceInit /\ [][TraceNext]_<<vars, tvars>>
PrintEnd == (l = Len(Trace) + 1) => PrintT(<<"END", Len(Trace), nviol>>)
=============================================================================
