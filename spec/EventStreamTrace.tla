-------------------------- MODULE EventStreamTrace --------------------------
(* Trace specification for EventStream over runs of the real eventSub/eventStream       *)
(* (harness/cmd/evstream).  Lines: Reset | Invoke{t, op} | Done{t} | Recv{s, n} | Eof |  *)
(* Leave | StillBlocked{t} | End{blocked}.  Invoke and Leave are the model's call        *)
(* actions; everything else the implementation does on its own is a silent step.  The    *)
(* reader's log (Recv, Eof) may lag behind: the k-th Recv line must be the k-th          *)
(* delivery of the model.  A file is accepted when some behaviour explains every line.   *)
EXTENDS EventStream, Integers, Json, IOUtils

Trace == ndJsonDeserialize(IOEnv.TRACE_FILE)
VARIABLES l, scn, busy, nrecv
Line == Trace[l]
tv == <<l, scn, busy, nrecv>>

Silent == l <= Len(Trace) /\ Line.ev # "Reset" /\ Internal /\ UNCHANGED tv

TReset ==
  /\ l <= Len(Trace) /\ Line.ev = "Reset"
  /\ mu' = "none" /\ open' = TRUE /\ once' = "fresh"
  /\ pc' = [t \in Threads |-> "idle"] /\ nsent' = [s \in Senders |-> 0]
  /\ delivered' = <<>> /\ reader' = "reading" /\ panicked' = FALSE
  /\ scn' = Line.scn /\ busy' = {} /\ nrecv' = 0 /\ l' = l + 1

TInvoke ==
  /\ l <= Len(Trace) /\ Line.ev = "Invoke" /\ Line.t \notin busy
  /\ IF Line.op = "send" THEN SendCall(Line.t) ELSE UnsubCall(Line.t)
  /\ busy' = busy \cup {Line.t} /\ l' = l + 1 /\ UNCHANGED <<scn, nrecv>>

TDone ==
  /\ l <= Len(Trace) /\ Line.ev = "Done" /\ Line.t \in busy
  /\ pc[Line.t] \in {"idle", "done"}
  /\ (Line.res = "panic") = panicked
  \* a closer may call again later (sync.Once makes it a no-op)
  /\ pc' = [pc EXCEPT ![Line.t] = "idle"]
  /\ busy' = busy \ {Line.t} /\ l' = l + 1
  /\ UNCHANGED <<mu, open, once, nsent, delivered, reader, panicked, scn, nrecv>>

TRecv ==
  /\ l <= Len(Trace) /\ Line.ev = "Recv"
  /\ Len(delivered) > nrecv /\ delivered[nrecv + 1] = <<Line.s, Line.n>>
  /\ nrecv' = nrecv + 1 /\ l' = l + 1 /\ UNCHANGED <<vars, scn, busy>>

TEof ==
  /\ l <= Len(Trace) /\ Line.ev = "Eof" /\ reader = "eof" /\ nrecv = Len(delivered)
  /\ l' = l + 1 /\ UNCHANGED <<vars, scn, busy, nrecv>>

TLeave ==
  /\ l <= Len(Trace) /\ Line.ev = "Leave" /\ nrecv = Len(delivered)
  /\ IF reader = "reading" THEN ReaderLeaves ELSE UNCHANGED vars
  /\ l' = l + 1 /\ UNCHANGED <<scn, busy, nrecv>>

TStill ==
  /\ l <= Len(Trace) /\ Line.ev = "StillBlocked" /\ Line.t \in busy /\ pc[Line.t] \notin {"idle", "done"}
  /\ l' = l + 1 /\ UNCHANGED <<vars, scn, busy, nrecv>>

TEnd ==
  /\ l <= Len(Trace) /\ Line.ev = "End"
  /\ {Line.blocked[i] : i \in 1..Len(Line.blocked)} = {t \in busy : pc[t] \notin {"idle", "done"}}
  /\ \A t \in busy : pc[t] \notin {"idle", "done"}
  /\ nrecv = Len(delivered) /\ ~ENABLED Internal
  /\ l' = l + 1 /\ UNCHANGED <<vars, scn, busy, nrecv>>

TraceInit == Init /\ l = 1 /\ scn = -1 /\ busy = {} /\ nrecv = 0 /\ TLCSet(1, 0)
TraceNext == Silent \/ TReset \/ TInvoke \/ TDone \/ TRecv \/ TEof \/ TLeave \/ TStill \/ TEnd
TraceSpec == TraceInit /\ [][TraceNext]_<<vars, tv>>
PrintEnd == (l = Len(Trace) + 1) => PrintT(<<"END", Len(Trace), 0>>)
Furthest == TLCSet(1, IF TLCGet(1) < l THEN l ELSE TLCGet(1))
Post == PrintT(<<"FURTHEST", TLCGet(1)>>)
=============================================================================
