----------------------------- MODULE DdRunTrace -----------------------------
(***************************************************************************)
(* Trace specification for DdRun (X06) over runs of the real DD scheduler   *)
(* plugin against the fake scheduler (harness/cmd/ddrun).  Lines (lib/props/ *)
(* X06.py joins a request line with the Ret line that follows it):           *)
(*   Reset{scn, envs, leaves, ddvars}                                        *)
(*   Req{src, e, fn, m, p, envid, f, t, reply, before, after,                *)
(*       [stfb, stfs, params], ret, [failed, named, c]}                      *)
(*                       a request at the moment it takes effect (src hook |  *)
(*                       gd); ret: the hook returned on this reply            *)
(*   Tmo{e, fn, failed, named, c}  the hook ran into its deadline while its   *)
(*                       status request was parked, and returned              *)
(*   Own{e, a} / Ecs{a, e} / Gd{fs, out}                                      *)
(*   Obs{part, hp, stray}   after every step: the scheduler's table, the      *)
(*                       request each hook in progress is parked at, requests *)
(*                       that belong to nobody                                *)
(*   Skip / Foreign / Mismatch / Fin                                         *)
(* Conformance (strict): DRIFT.  Monitor on the recorded facts only: VIOL;    *)
(* a failure a Code_* constant explains is printed as OBS.                    *)
(***************************************************************************)
EXTENDS DdRun, Integers, Json, IOUtils

Trace == ndJsonDeserialize(IOEnv.TRACE_FILE)

VARIABLES l, scn, drifted, nviol, ndrift, mon
tvars == <<l, scn, drifted, nviol, ndrift, mon>>
Line == Trace[l]

Chk(name, cond, exempt, detail) ==
  IF cond THEN 0 ELSE IF exempt THEN (IF PrintT(<<"OBS", name, scn, l, detail>>) THEN 0 ELSE 0)
  ELSE IF PrintT(<<"VIOL", name, scn, l, detail>>) THEN 1 ELSE 1
Drift(detail) == PrintT(<<"DRIFT", scn, l, detail>>)
SeqSet(s) == {s[i] : i \in 1..Len(s)}
Pairs(s) == {<<s[i][1], s[i][2]>> : i \in 1..Len(s)}

(* ------------------------------ conformance ------------------------------ *)
Cont == IF Line.c = "err" THEN "err" ELSE "go"
T == IF Line.t = "sleep" THEN "sleep" ELSE "no"
HookReq(e) ==
  CASE Line.m = "Initialize" -> InitCall(e, Line.f, Cont)
    [] Line.m = "Terminate" -> IF Line.fn = "EnsureTermination" THEN EnsureTerm(e, Line.f, Cont) ELSE TermCall(e, Line.f, Cont)
    [] Line.m = "Status" -> IF Idle(e) THEN Line.fn = "EnsureTermination" /\ EnsureStatus(e, Line.f, Cont) ELSE Poll(e, Line.f, T, Cont)
    [] OTHER -> FALSE
ReqMatch(e) ==
  /\ last'.fn = Line.fn /\ last'.m = Line.m /\ last'.reply = Line.reply /\ last'.before = Line.before /\ part'[e] = Line.after
  /\ Line.p = e /\ Line.envid = last'.envid
  /\ (last'.kind = "ret") = Line.ret
  /\ Line.ret => (last'.ok = ~Line.failed /\ last'.named = Line.named)
ExpectedPark(e) == IF Idle(e) THEN "none" ELSE IF hook[e].pc = "term" THEN "Terminate" ELSE "Status"

Explained ==
  CASE Line.ev = "Req" /\ Line.src = "hook" -> HookReq(Line.e) /\ ReqMatch(Line.e)
    [] Line.ev = "Req" /\ Line.src = "gd" -> UNCHANGED vars /\ Line.reply = (IF Line.f = "none" THEN part[Line.e] ELSE "err")   \* judged with the Gd line
    [] Line.ev = "Tmo" -> PollTimeout(Line.e, Cont) /\ last'.fn = Line.fn /\ last'.ok = ~Line.failed /\ last'.named = Line.named
    [] Line.ev = "Own" -> IF Line.a = "Progress" THEN Progress(Line.e) ELSE Fail(Line.e)
    [] Line.ev = "Ecs" -> IF Line.a = "Destroy" THEN Destroy(Line.e) ELSE GoError(Line.e)
    [] Line.ev = "Gd" -> GetData([e \in Envs |-> Line.fs[e]]) /\ \A e \in Envs : last'.out[e] = Line.out[e]
    [] Line.ev = "Obs" -> /\ \A e \in Envs : Line.part[e] = part[e] /\ Line.hp[e] = ExpectedPark(e)
                          /\ Line.stray = 0 /\ UNCHANGED vars
    [] Line.ev = "Fin" -> UNCHANGED vars
    [] OTHER -> FALSE      \* Skip, Foreign, Mismatch, Stuck

(* ------------------------------ monitor (recorded facts only) ------------------------------ *)
MonInit == [leaves |-> <<>>, ddvars |-> <<>>, part |-> [e \in Envs |-> "UNKNOWN"],
            saw |-> [e \in Envs |-> FALSE],        \* the invocation in progress has seen the state it waits for
            gd |-> [e \in Envs |-> "-"]]           \* answers to the GetData in progress
Want(fn) == IF fn = "PartitionInitialize" THEN "CONFIGURED" ELSE "TERMINATED"

MonReturn(e, fn, ok, named, timedout, after) ==
  (IF fn \in Waits
     THEN Chk("OkImpliesReached", ok => mon'.saw[e], Code_PollTimeoutSilent /\ timedout, <<e, fn, "deadline while polling">>)
          + Chk("ReachedImpliesOk", mon'.saw[e] => ok, FALSE, <<e, fn>>)
     ELSE 0)
  + (IF fn = "EnsureTermination" THEN Chk("EnsureLeavesNothing", ok => after \notin Alive, FALSE, <<e, after>>) ELSE 0)

MonReq ==
  LET e == Line.e
      hk == Line.src = "hook"
      first == Line.m \in {"Initialize", "Terminate"} \/ (Line.m = "Status" /\ Line.t = "")      \* first request of an invocation
      sawNow == (IF first THEN FALSE ELSE mon.saw[e]) \/ (Line.m = "Status" /\ Line.reply = Want(Line.fn))
      bad == Line.reply \in (States \cup {"REQUEST_INVALID"}) /\ Line.reply # Want(Line.fn) /\ Line.reply # InProgress(Want(Line.fn))
      v == Chk("RequestNamesEnvironment", Line.p = e /\ Line.envid = e, FALSE, <<Line.src, e, Line.m, Line.p, Line.envid>>)
         + (IF Line.m = "Terminate"
              THEN Chk("NoForeignTerminate", Line.p = e, FALSE, <<e, Line.p>>)
                   + Chk("TerminateOnlyAlive", Line.before \in Alive, Code_TerminateHookUnconditional /\ Line.fn = "PartitionTerminate",
                         <<e, Line.fn, Line.before>>)
              ELSE 0)
         + (IF Line.m = "Initialize"
              THEN Chk("StfMapsFaithful",
                       /\ Pairs(Line.stfs) = {<<x[3], x[1]>> : x \in {y \in SeqSet(mon.leaves) : y[1] # "" /\ y[3] # ""}}
                       /\ Pairs(Line.stfb) = {<<x[2], x[1]>> : x \in {y \in SeqSet(mon.leaves) : y[1] # "" /\ y[3] = "" /\ y[2] # ""}}
                       /\ Pairs(Line.params) = {<<x[1], x[2]>> : x \in {y \in SeqSet(mon.ddvars) : y[1] # "enabled"}},
                       FALSE, <<Line.stfb, Line.stfs, Line.params>>)
              ELSE 0)
         + (IF hk /\ Line.fn \in Waits /\ bad
              THEN Chk("BadStateNamed", Line.ret /\ Line.failed /\ Line.named = Line.reply, FALSE, <<e, Line.fn, Line.reply>>) ELSE 0)
      mon1 == [mon EXCEPT !.saw = IF hk THEN [@ EXCEPT ![e] = sawNow] ELSE @,
                          !.part = [@ EXCEPT ![e] = Line.after],
                          !.gd = IF hk THEN @ ELSE [@ EXCEPT ![e] = IF Line.f = "none" THEN Line.reply ELSE "-"]]
  IN /\ mon' = mon1
     /\ nviol' = nviol + v + (IF hk /\ Line.ret THEN MonReturn(e, Line.fn, ~Line.failed, Line.named, FALSE, Line.after) ELSE 0)

Mon ==
  CASE Line.ev = "Req" -> MonReq
    [] Line.ev = "Tmo" -> mon' = mon /\ nviol' = nviol + MonReturn(Line.e, Line.fn, ~Line.failed, Line.named, TRUE, mon.part[Line.e])
    [] Line.ev = "Gd" -> /\ nviol' = nviol + Chk("GetDataFaithful", \A e \in Envs : Line.out[e] = mon.gd[e], FALSE, <<Line.out, mon.gd>>)
                         /\ mon' = [mon EXCEPT !.gd = [e \in Envs |-> "-"]]
    [] Line.ev = "Obs" -> /\ nviol' = nviol + Chk("PollingStopsAfterReturn", Line.stray = 0, FALSE, <<Line.stray>>)
                          /\ mon' = [mon EXCEPT !.part = [e \in Envs |-> Line.part[e]]]
    [] Line.ev = "Foreign" -> mon' = mon /\ nviol' = nviol + Chk("NoForeignTerminate", FALSE, FALSE, <<Line.e, Line.p>>)
    [] OTHER -> UNCHANGED <<mon, nviol>>

(* ------------------------------ the trace behaviour ------------------------------ *)
TReset ==
  /\ Line.ev = "Reset"
  /\ scn' = Line.scn /\ drifted' = FALSE /\ mon' = [MonInit EXCEPT !.leaves = Line.leaves, !.ddvars = Line.ddvars]
  /\ part' = [e \in Envs |-> "UNKNOWN"] /\ ph' = [e \in Envs |-> "new"] /\ ninit' = [e \in Envs |-> 0]
  /\ hook' = [e \in Envs |-> NoHook] /\ nf' = 0 /\ nown' = 0 /\ ngd' = 0 /\ last' = NoStep
  /\ UNCHANGED <<nviol, ndrift>>
TOk == /\ Line.ev # "Reset" /\ ~drifted /\ Explained /\ Mon /\ UNCHANGED <<scn, drifted, ndrift>>
TDrift == /\ Line.ev # "Reset" /\ ~drifted /\ ~ENABLED Explained
          /\ Drift(<<Line.ev, part, ph, [e \in Envs |-> ExpectedPark(e)], IF Line.ev = "Mismatch" THEN Line.why ELSE "">>)
          /\ drifted' = TRUE /\ ndrift' = ndrift + 1 /\ Mon /\ UNCHANGED <<vars, scn>>
TLost == /\ Line.ev # "Reset" /\ drifted /\ Mon /\ UNCHANGED <<vars, scn, drifted, ndrift>>

TraceInit == Init /\ l = 1 /\ scn = -1 /\ drifted = FALSE /\ nviol = 0 /\ ndrift = 0 /\ mon = MonInit
TraceNext == l <= Len(Trace) /\ (TReset \/ TOk \/ TDrift \/ TLost) /\ l' = l + 1
TraceSpec == TraceInit /\ [][TraceNext]_<<vars, tvars>>
PrintEnd == (l = Len(Trace) + 1) => PrintT(<<"END", Len(Trace), nviol>>)
=============================================================================
