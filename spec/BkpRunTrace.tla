----------------------------- MODULE BkpRunTrace ----------------------------
(***************************************************************************)
(* Trace specification for BkpRun (X08) over runs of the real Bookkeeping   *)
(* plugin against the fake service (harness/cmd/bkprun).  Lines (lib/props/ *)
(* X08.py joins a request / Skip line with the Ret line that follows it):    *)
(*   Reset{scn, envs, trg, hosts}                                            *)
(*   Ecs{a, e, r, w, s}      NewRun | SetTime | EndRun | State               *)
(*   Req{e, fn, trig, first, m, run, envid, times, runs, flps, fruns,        *)
(*       status, f, res, ret, [failed, panic]}                               *)
(*   Skip{e, fn, trig, failed, panic}   a hook that sent nothing             *)
(*   Obs{pl, hp, runs, bkenv, stray}    after every step                     *)
(*   Mismatch / Fin                                                          *)
(* Conformance (strict): DRIFT.  Monitor on the recorded facts only: VIOL;    *)
(* a failure a Code_* constant explains is printed as OBS.                    *)
(***************************************************************************)
EXTENDS BkpRun, Integers, Json, IOUtils

Trace == ndJsonDeserialize(IOEnv.TRACE_FILE)
VARIABLES l, scn, drifted, nviol, ndrift, mon
tvars == <<l, scn, drifted, nviol, ndrift, mon>>
Line == Trace[l]
Chk(name, cond, exempt, detail) ==
  IF cond THEN 0 ELSE IF exempt THEN (IF PrintT(<<"OBS", name, scn, l, detail>>) THEN 0 ELSE 0)
  ELSE IF PrintT(<<"VIOL", name, scn, l, detail>>) THEN 1 ELSE 1
Drift(detail) == PrintT(<<"DRIFT", scn, l, detail>>)
SeqSet(s) == {s[i] : i \in 1..Len(s)}

Idx(e) == IF e = "e1" THEN 1 ELSE 2
KindNo(k) == CASE k = "o2s" -> 1 [] k = "ts" -> 2 [] k = "o2e" -> 3 [] OTHER -> 4
\* what a recorded value is: unset, the own variable of some kind of environment e in run r, time.Now(), or something else
Tag(v, e, r) == IF v = -1 THEN "-" ELSE IF v = -2 THEN "now"     \* (-2: the driver's mark for a wall-clock time)
                ELSE IF \E k \in Kinds : v = 100000 * Idx(e) + 1000 * r + KindNo(k) THEN CHOOSE k \in Kinds : v = 100000 * Idx(e) + 1000 * r + KindNo(k)
                ELSE "other"
Tags(e, r) == [k \in Kinds |-> Tag(Line.times[k], e, r)]

(* ------------------------------ conformance ------------------------------ *)
Act(e) ==
  CASE Line.fn = "StartOfRun" -> (CASE Line.m = "Run.Create" -> SorCreate(e, Line.f) [] Line.m = "Log.Create" -> SorLog(e, Line.f)
                                    [] Line.m = "Flp.CreateMany" -> SorFlp(e, Line.f) [] OTHER -> FALSE)
    [] Line.fn = "UpdateRunStart" -> IF Idle(e) THEN UrsFirst(e, Line.f) ELSE UrsSecond(e, Line.f)
    [] Line.fn = "UpdateRunStop" -> IF Idle(e) THEN UrstFirst(e, Line.trig, Line.f) ELSE UrstSecond(e, Line.f)
    [] Line.fn \in {"CreateEnv", "UpdateEnv"} -> EnvCall(e, Line.fn, Line.trig, Line.f)
    [] OTHER -> FALSE
ReqMatch(e) ==
  /\ last_'.m = Line.m /\ last_'.res = Line.res
  /\ (Line.m \in {"Run.Create", "Run.Update", "Flp.CreateMany"} => last_'.run = Line.run)
  /\ (Line.m = "Run.Update" => last_'.t = Tags(e, Line.run))
  /\ (Line.m = "Flp.CreateMany" => last_'.nflp = Len(Line.flps))
  /\ (Line.m = "Log.Create" => last_'.logruns = SeqSet(Line.runs))
  /\ (Line.m \in {"Env.Create", "Env.Update"} => (last_'.status = Line.status /\ Line.envid = e))
  /\ (last_'.kind = "ret") = Line.ret
  /\ Line.ret => (last_'.ok = ~Line.failed /\ last_'.panic = Line.panic)
SkipAct(e) ==
  CASE Line.fn = "UpdateRunStart" -> UrsFirst(e, "none")
    [] Line.fn = "UpdateRunStop" -> UrstFirst(e, Line.trig, "none")
    [] Line.fn = "UpdateEnv" -> EnvCall(e, "UpdateEnv", Line.trig, "none")
    [] OTHER -> FALSE
RunsTable == {<<r, rec[r]["o2s"], rec[r]["o2e"], rec[r]["ts"], rec[r]["te"], nflp[r]>> : r \in created}
Explained ==
  CASE Line.ev = "Req" -> Act(Line.e) /\ ReqMatch(Line.e)
    [] Line.ev = "Skip" -> SkipAct(Line.e) /\ last_'.kind = "ret" /\ last_'.m = "none" /\ last_'.ok = ~Line.failed /\ last_'.panic = Line.panic
    [] Line.ev = "Ecs" -> (CASE Line.a = "NewRun" -> NewRun(Line.e) /\ rn'[Line.e] = Line.r
                             [] Line.a = "SetTime" -> SetTime(Line.e, Line.w)
                             [] Line.a = "EndRun" -> EndRun(Line.e)
                             [] Line.a = "State" -> SetState(Line.e, Line.s)
                             [] OTHER -> FALSE)
    [] Line.ev = "Obs" -> /\ \A e \in Envs : /\ Line.pl[e].miss = miss[e] /\ Line.pl[e].stop = stop[e]
                                             /\ \A k \in Kinds : Line.pl[e][k] = fl[e][k]
                                             /\ Line.hp[e] = (IF Idle(e) THEN "none" ELSE
                                                              IF hook[e].fn = "StartOfRun" THEN (IF hook[e].pc = "flp" THEN "Flp.CreateMany" ELSE "Log.Create")
                                                              ELSE "Run.Update")
                                             /\ Line.bkenv[e] = bkenv[e]
                          /\ {<<x[1], x[2], x[3], x[4], x[5], x[6]>> : x \in SeqSet(Line.runs)} = RunsTable
                          /\ Line.stray = 0 /\ UNCHANGED vars
    [] Line.ev = "Fin" -> UNCHANGED vars
    [] OTHER -> FALSE

(* ------------------------------ monitor (recorded facts only) ------------------------------ *)
MonInit == [created |-> {}, o2e |-> {}, est |-> [e \in Envs |-> "STANDBY"], cur |-> [e \in Envs |-> 0], hosts |-> <<>>,
            createok |-> [e \in Envs |-> TRUE], forgot |-> {}, pending2 |-> [e \in Envs |-> FALSE]]
MonReq ==
  LET e == Line.e
      tg == Tags(e, Line.run)
      v == (IF Line.m = "Run.Create" THEN Chk("CreatedOnce", Line.run \notin mon.created, FALSE, <<e, Line.run>>) ELSE 0)
         + (IF Line.m = "Run.Update"
              THEN Chk("UpdateOnlyCreated", Line.run \in mon.created, Code_UpdateRunStartUnconditional \/ Code_PendingStopKeyedByEnv, <<e, Line.fn, Line.run>>)
                   + Chk("TimesAreOwn", \A k \in Kinds : tg[k] \in {"-", k}, Code_MissingTimesFilledIn /\ \A k \in Kinds : tg[k] \in {"-", k, "now"} \/ (k = "ts" /\ tg[k] = "o2s") \/ (k = "te" /\ tg[k] = "o2e"),
                        <<e, Line.fn, tg>>)
              ELSE 0)
         + (IF Line.m \in {"Run.Create", "Run.Update", "Flp.CreateMany"} THEN Chk("NoRunZero", Line.run # 0, FALSE, <<e, Line.m>>) ELSE 0)
         + (IF Line.m = "Flp.CreateMany"
              THEN Chk("FlpsOncePerHost", Line.flps = mon.hosts,
                       Code_FlpListPadded /\ Len(Line.flps) = 2 * Len(mon.hosts) /\ \A i \in 1..Len(mon.hosts) : Line.flps[i] = "" /\ Line.flps[Len(mon.hosts) + i] = mon.hosts[i],
                       <<Line.flps, mon.hosts>>)
              ELSE 0)
         + (IF Line.m \in {"Env.Create", "Env.Update"}
              THEN Chk("EnvStatusFaithful", Line.envid = e /\ Line.status \in {mon.est[e], "DESTROYED"}, FALSE, <<e, Line.envid, Line.status, mon.est[e]>>)
              ELSE 0)
         + (IF Line.ret /\ Line.fn = "StartOfRun" /\ ~Line.failed
              THEN Chk("StartOkImpliesRunCreated", IF Line.m = "Run.Create" THEN Line.res = "ok" ELSE mon.createok[e], Code_RunCreateFailureMasked, <<e, Line.run>>)
              ELSE 0)
         + (IF Line.ret THEN Chk("NoPanic", ~Line.panic, Code_UpdateEnvUnknownTriggerPanics, <<e, Line.fn, Line.trig>>) ELSE 0)
  IN /\ nviol' = nviol + v
     /\ mon' = [mon EXCEPT !.created = IF Line.m = "Run.Create" /\ Line.res = "ok" THEN @ \cup {Line.run} ELSE @,
                           !.createok = IF Line.m = "Run.Create" THEN [@ EXCEPT ![e] = Line.res = "ok"] ELSE @,
                           !.forgot = IF Line.fn = "UpdateRunStop" /\ ~Line.first /\ Line.res # "ok" THEN @ \cup {Line.run} ELSE @]
MonObs ==
  LET done == {x[1] : x \in {y \in SeqSet(Line.runs) : y[3] > 0}}      \* runs whose O2 end is recorded
      v == Chk("EndNeverForgotten",
               \A e \in Envs : (Line.hp[e] = "none" /\ mon.cur[e] \in mon.created /\ mon.cur[e] \notin done) => Line.pl[e].stop = mon.cur[e],
               Code_IncompleteStopForgotten /\ \A e \in Envs : (Line.hp[e] = "none" /\ mon.cur[e] \in mon.created /\ mon.cur[e] \notin done /\ Line.pl[e].stop # mon.cur[e])
                                                                  => mon.cur[e] \in mon.forgot,
               <<Line.pl, mon.cur, mon.forgot>>)
  IN nviol' = nviol + v /\ mon' = mon
Mon ==
  CASE Line.ev = "Req" -> MonReq
    [] Line.ev = "Skip" -> /\ nviol' = nviol + Chk("NoPanic", ~Line.panic, Code_UpdateEnvUnknownTriggerPanics, <<Line.e, Line.fn, Line.trig>>) /\ mon' = mon
    [] Line.ev = "Obs" -> MonObs
    [] Line.ev = "Ecs" -> /\ mon' = [mon EXCEPT !.est = IF Line.a = "State" THEN [@ EXCEPT ![Line.e] = Line.s] ELSE @,
                                                !.cur = IF Line.a = "NewRun" THEN [@ EXCEPT ![Line.e] = Line.r] ELSE @]
                          /\ UNCHANGED nviol
    [] OTHER -> UNCHANGED <<mon, nviol>>

TReset ==
  /\ Line.ev = "Reset" /\ scn' = Line.scn /\ drifted' = FALSE /\ mon' = [MonInit EXCEPT !.hosts = Line.hosts]
  /\ rn' = [e \in Envs |-> 0] /\ last' = [e \in Envs |-> 0] /\ rph' = [e \in Envs |-> "none"] /\ have' = [e \in Envs |-> {}]
  /\ est' = [e \in Envs |-> "STANDBY"] /\ nextrun' = 1
  /\ miss' = [e \in Envs |-> "-"] /\ stop' = [e \in Envs |-> 0] /\ fl' = [e \in Envs |-> NoT] /\ hook' = [e \in Envs |-> NoHook]
  /\ created' = {} /\ rec' = [r \in Runs |-> [k \in Kinds |-> 0]] /\ nflp' = [r \in Runs |-> 0] /\ bkenv' = [e \in Envs |-> <<>>]
  /\ nf' = 0 /\ nenv' = 0 /\ last_' = NoStep /\ UNCHANGED <<nviol, ndrift>>
TOk == /\ Line.ev # "Reset" /\ ~drifted /\ Explained /\ Mon /\ UNCHANGED <<scn, drifted, ndrift>>
TDrift == /\ Line.ev # "Reset" /\ ~drifted /\ ~ENABLED Explained
          /\ Drift(<<Line.ev, rph, miss, stop, fl, [e \in Envs |-> hook[e].fn], RunsTable, bkenv>>)
          /\ drifted' = TRUE /\ ndrift' = ndrift + 1 /\ Mon /\ UNCHANGED <<vars, scn>>
TLost == /\ Line.ev # "Reset" /\ drifted /\ Mon /\ UNCHANGED <<vars, scn, drifted, ndrift>>
TraceInit == Init /\ l = 1 /\ scn = -1 /\ drifted = FALSE /\ nviol = 0 /\ ndrift = 0 /\ mon = MonInit
TraceNext == l <= Len(Trace) /\ (TReset \/ TOk \/ TDrift \/ TLost) /\ l' = l + 1
TraceSpec == TraceInit /\ [][TraceNext]_<<vars, tvars>>
PrintEnd == (l = Len(Trace) + 1) => PrintT(<<"END", Len(Trace), nviol>>)
=============================================================================
