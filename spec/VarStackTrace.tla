---------------------------- MODULE VarStackTrace ----------------------------
(***************************************************************************)
(* Trace specification binding spec/VarStack.tla to recorded executions of *)
(* the real variable stack (harness/cmd/varstack).                          *)
(*                                                                         *)
(* Every line of the trace is one case: the input (depth, cells, second    *)
(* key, references, iterator level, class cells) and what the real code    *)
(* produced for every role on the path:                                    *)
(*   r[i] = <<level, variant, cs, h0..h5, ...>>                             *)
(*   variant "A" aggregator role: ..., cm_d, cm_v, cm_u, s1..s5             *)
(*   variant "T" task role:       ..., command value, argument, env, prop   *)
(*   variant "C" call role:       ..., value returned by the call           *)
(*   variant "I" include role as itself: <<level, "I", h0..h5, name>>        *)
(*   variant "S" the root of the sub-workflow it loaded (same object, next  *)
(*               level): as "A" without the user-var probe and the name      *)
(*   variant "B" aggregator inside the sub-workflow: as "A" without the      *)
(*               user-var probe                                             *)
(*   "R" after a runtime write (two-instance iterator cases): <<level, "R",  *)
(*               variant, instance, cs, cm_u, ret>> for every role at or      *)
(*               below the iterator level in both instances                  *)
(*   variant "E" the environment (level 0), built by the real              *)
(*               newEnvironment from a configuration store holding the      *)
(*               level-0 defaults / vars cells and a request holding the    *)
(*               level-0 user vars: <<0, "E", GlobalDefaults[k],             *)
(*               GlobalVars[k], UserVars[k], BaseConfigStack[k],             *)
(*               Environment.GetKV("", k) with the loaded workflow attached>> *)
(* cs = ConsolidatedVarStack()[k]; h = k in the stack of template stage     *)
(* 0..5 (hook point vs.stage); cm = ConsolidatedVarMaps(); s = a field of   *)
(* the role rendered at stage 1..5 whose template is a reference to k.      *)
(*                                                                         *)
(* The expected values are computed here, by TLC, from the definitions of  *)
(* VarStack.tla:                                                           *)
(*  - the monitor (soft invariants, VIOL): the property formulas - every    *)
(*    recorded value equals Resolve / Visible / KindMap, the class cells    *)
(*    rank below the workflow, loading fails exactly when a referenced key  *)
(*    is not visible;                                                      *)
(*  - strict conformance (DRIFT): the model's description of what the       *)
(*    property leaves open (order among the class's own defaults and vars)  *)
(*    and the shape of the record.                                         *)
(***************************************************************************)
EXTENDS VarStack, Json, IOUtils

Trace == ndJsonDeserialize(IOEnv.TRACE_FILE)

CONSTANT NChunks    \* the lines are independent cases: the trace is validated as NChunks chains of consecutive
                    \* lines (one initial state per chain), which TLC's workers walk side by side

VARIABLES l,      \* next line of Trace
          first,  \* first and
          last,   \* last line of this chain
          nviol   \* number of soft violations so far in this chain

tvars == <<l, first, last, nviol>>
allvars == <<cs, tvars>>

Line == Trace[l]

CaseOf(ln) == [d |-> ln.d, c |-> ln.c, o |-> ln.o, ref |-> ln.ref, it |-> ln.it, inc |-> ln.inc, cc |-> ln.cc]

Soft(name, scn, cond, detail) ==
  IF cond THEN 0
  ELSE IF PrintT(<<"VIOL", name, scn, l, detail>>) THEN 1 ELSE 1

RECURSIVE SumSeq(_)
SumSeq(s) == IF Len(s) = 0 THEN 0 ELSE Head(s) + SumSeq(Tail(s))

\* expected values of one level, computed once per line:
\* <<Resolve, Visible at stages 0..5, KindMap of defaults, vars, user vars>>
Expected(c) ==
  LET P == Post(c) IN
  Eager([lv \in 1..c.d |->
           <<ResolveP(P, lv),
             VisibleP(c, P, 0, lv), VisibleP(c, P, 1, lv), VisibleP(c, P, 2, lv),
             VisibleP(c, P, 3, lv), VisibleP(c, P, 4, lv), VisibleP(c, P, 5, lv),
             KindMapP(P, 0, lv), KindMapP(P, 1, lv), KindMapP(P, 2, lv)>>])

\* --- the monitor: property formulas on one recorded role e, ex = Expected(c)[level] ---
\* the record the property expects (class fields of a task role apart)
ExpectedRecord(lv, variant, ex) ==
  CASE variant = "A" -> <<lv, variant>> \o ex \o <<Show(ex[3]), Show(ex[4]), Show(ex[5]), Show(ex[6]), Show(ex[7])>>
    [] variant = "T" -> <<lv, variant>> \o SubSeq(ex, 1, 7)
    [] variant = "C" -> <<lv, variant>> \o SubSeq(ex, 1, 7) \o <<Show(ex[1])>>
    \* an include role before the sub-workflow replaces its aggregator part: the stacks of its own
    \* six template stages and its name (stage 4)
    [] variant = "I" -> <<lv, variant>> \o SubSeq(ex, 2, 7) \o <<Show(ex[6])>>
    \* the root of the included sub-workflow (the same role object afterwards): as an aggregator,
    \* without user vars of its own and with the include role's name
    [] variant = "S" -> <<lv, variant>> \o ex \o <<Show(ex[3]), Show(ex[4]), Show(ex[7])>>
    \* an aggregator inside the included sub-workflow: no user vars of its own when it is loaded
    [] variant = "B" -> <<lv, variant>> \o ex \o <<Show(ex[3]), Show(ex[4]), Show(ex[6]), Show(ex[7])>>
    [] OTHER -> <<>>

\* which property formula position j of a record of this variant belongs to
FieldName(variant, j) ==
  CASE variant = "I" -> (IF j <= 8 THEN "StageVisible" ELSE "Rendered")
    [] j = 3 -> "Resolve"
    [] j \in 4..9 -> "StageVisible"
    [] variant = "C" -> "CallSees"
    [] j \in 10..12 -> "KindMaps"
    [] OTHER -> "Rendered"

\* field by field, to name what differs
RoleViolDetail(c, scn, e, exp) ==
  IF Len(e) # Len(exp) THEN Soft("Shape", scn, FALSE, <<e[1], e[2], Len(e), Len(exp)>>)
  ELSE SumSeq([j \in 1..Len(e) |->
                 IF j <= 2 THEN 0
                 ELSE Soft(FieldName(e[2], j), scn, e[j] = exp[j], <<e[1], e[2], j, e[j], exp[j]>>)])

ClassViol(c, scn, e, res, i) ==
  Soft("ClassBelowWorkflow", scn,
       \E g \in {Absent, "", "kcd", "kcv", res} : Show(g) = e[9 + i] /\ ClassBelowR(c, res, g),
       <<e[1], e[2], i, e[9 + i], Show(res)>>)

RoleViol(c, scn, e, ex) ==
    (LET got == IF e[2] = "T" THEN SubSeq(e, 1, 9) ELSE e
         exp == ExpectedRecord(e[1], e[2], ex)
     IN IF got = exp THEN 0 ELSE RoleViolDetail(c, scn, got, exp))
  + (IF e[2] = "T"
       THEN ClassViol(c, scn, e, ex[1], 1) + ClassViol(c, scn, e, ex[1], 2)
          + ClassViol(c, scn, e, ex[1], 3) + ClassViol(c, scn, e, ex[1], 4)
       ELSE 0)

\* --- the environment level itself (record <<0, "E", defaults, vars, user vars, base config stack>>):
\* what the environment's own three maps answer for k - each kind on its own: the configuration
\* store's defaults are not vars - and the base config stack (store vars over store defaults)
\* and the environment-level lookup Environment.GetKV("", k): what the workflow's root role resolves
\* (res1), the empty string when nothing defines k - an empty winning definition stays empty
EnvViol(c, scn, e, res1) ==
  LET exp == <<0, "E", Raw(c, "k", 0, 0), Raw(c, "k", 0, 1), Raw(c, "k", 0, 2),
               Over(Raw(c, "k", 0, 1), Raw(c, "k", 0, 0)), LookupOf(res1)>>
  IN IF e = exp THEN 0
     ELSE IF Len(e) # Len(exp) THEN Soft("Shape", scn, FALSE, <<0, "E", Len(e), Len(exp)>>)
     ELSE SumSeq([j \in 1..Len(e) |->
                    IF j <= 2 THEN 0
                    ELSE Soft(IF j = 7 THEN "EnvLookup" ELSE "EnvLevel", scn, e[j] = exp[j], <<0, "E", j, e[j], exp[j]>>)])

\* --- after a runtime write (record <<level, "R", variant, instance, ConsolidatedVarStack[k],
\* ConsolidatedVarMaps user vars [k], "ret" of an instance-2 call role>>): the written role and what
\* is below it see the write, every other role - the sibling instance in particular - resolves as
\* before; the `return` variable a call stored on its own role is not on its sibling's
RtViol(c, rt, scn, e) ==
  LET PW == PostRt(c, rt, e[1], e[3], e[4])
      exp == <<e[1], "R", e[3], e[4], ResolveP(PW, e[1]), KindMapP(PW, 2, e[1]),
               IF e[3] = "C" /\ e[4] = 2 THEN Absent ELSE "-">>
  IN IF e = exp THEN 0
     ELSE IF Len(e) # Len(exp) THEN Soft("Shape", scn, FALSE, <<e[1], "R", Len(e), Len(exp)>>)
     ELSE SumSeq([j \in 1..Len(e) |->
                    IF j <= 4 THEN 0
                    ELSE Soft(IF j = 7 THEN "CallReturnLocal" ELSE "RuntimeWriteLocal", scn, e[j] = exp[j],
                              <<e[1], e[3] \o ToString(e[4]), j, e[j], exp[j]>>)])

\* --- strict conformance: what the property leaves open, as the code does it ---
\* one record per level (the aggregator on the path; at an include: the include role, then the
\* sub-workflow root) plus - unless the case was run without them (notc) - a task role and a call
\* role variant at every level >= 2 except the sub-workflow root's
RtRecords(c, rt) == IF rt.w = 0 THEN 0 ELSE 6 * (c.d - c.it + 1)   \* T, C, A at every level it..d of both instances
ExpectedRoles(c, notc) ==
  1 + IF notc THEN c.d ELSE c.d + 2 * Cardinality({lv \in 2..c.d : c.inc = 0 \/ lv # c.inc + 1})
VariantAt(c, lv) ==
  CASE c.inc = 0 \/ lv < c.inc -> {"A", "T", "C"}
    [] lv = c.inc -> {"I", "T", "C"}
    [] lv = c.inc + 1 -> {"S"}
    [] OTHER -> {"B", "T", "C"}
RoleConforms(c, e, ex) ==
  CASE e[2] = "T" -> /\ e[10] = Show(CmdLineR(c, ex[1])) /\ e[11] = e[10] /\ e[12] = e[10]
                     /\ e[13] = Show(PropMapR(c, ex[1]))
    [] OTHER -> TRUE
Conforms(c, ln, Ex) ==
  IF Fails(c) THEN ln.err = "unknown-name" /\ Len(ln.r) = 0
  ELSE /\ ln.err = ""
       /\ Len(ln.r) = ExpectedRoles(c, ln.notc) + RtRecords(c, ln.rt)
       /\ Cardinality({i \in 1..Len(ln.r) : ln.r[i][2] = "E"}) = 1
       /\ \A i \in 1..Len(ln.r) :
            \/ ln.r[i][2] = "E" /\ ln.r[i][1] = 0
            \/ /\ ln.r[i][2] = "R" /\ ln.rt.w \in 1..2 /\ ln.r[i][1] \in c.it..c.d
               /\ ln.r[i][3] \in {"T", "C", "A"} /\ ln.r[i][4] \in 1..2
            \/ /\ ln.r[i][1] \in 1..c.d /\ ln.r[i][2] \in VariantAt(c, ln.r[i][1])
               /\ RoleConforms(c, ln.r[i], Ex[ln.r[i][1]])

TCase ==
  /\ l <= last /\ Line.ev = "Case"
  /\ LET c == CaseOf(Line)
         Ex == Expected(c)
     IN
       /\ cs' = c
       /\ (IF Conforms(c, Line, Ex) THEN TRUE ELSE PrintT(<<"DRIFT", Line.scn, l, Line.ev>>))
       /\ nviol' = nviol
            + Soft("FailsIffInvisible", Line.scn, (Line.err # "") <=> Fails(c), <<Line.err, Fails(c)>>)
            + SumSeq([i \in 1..Len(Line.r) |->
                        IF Line.r[i][2] = "E" THEN EnvViol(c, Line.scn, Line.r[i], Ex[1][1])
                        ELSE IF Line.r[i][2] = "R" THEN RtViol(c, Line.rt, Line.scn, Line.r[i])
                        ELSE RoleViol(c, Line.scn, Line.r[i], Ex[Line.r[i][1]])])
  /\ l' = l + 1 /\ UNCHANGED <<first, last>>

ChunkSize == (Len(Trace) + NChunks - 1) \div NChunks
TraceInit ==
  /\ cs = [d |-> 0, c |-> <<0, 0, 0>>, o |-> <<>>, ref |-> <<>>, it |-> 0, inc |-> 0, cc |-> <<0, 0>>]
  /\ \E k \in 0..(NChunks - 1) :
       /\ 1 + k * ChunkSize <= Len(Trace)
       /\ first = 1 + k * ChunkSize
       /\ last = IF (k + 1) * ChunkSize < Len(Trace) THEN (k + 1) * ChunkSize ELSE Len(Trace)
  /\ l = first /\ nviol = 0

TraceNext == TCase

TraceSpec == TraceInit /\ [][TraceNext]_allvars

\* acceptance: every chain reached the end of its chunk; the chunks partition the file
Done == l = last + 1
PrintEnd == Done => PrintT(<<"END", last - first + 1, nviol, first, Len(Trace)>>)
=============================================================================
