--------------------------- MODULE ExecTaskTrace ---------------------------
(***************************************************************************)
(* Trace specification binding spec/ExecTask.tla to recorded executions of  *)
(* the real executor code (harness/cmd/exectask): the unmodified handlers   *)
(* of executor/handlers.go driving executor/executable tasks with real      *)
(* child processes.                                                         *)
(*                                                                         *)
(* One TLC run validates many recorded runs (separated by "Reset" lines):   *)
(*  - conformance (strict): the recorded lines are the OBSERVABLE actions   *)
(*    of the model (requests and their lookup verdict, status updates,      *)
(*    answers, device events, signals seen by the device, the executor's    *)
(*    death, what is alive at the end).  Steps nobody can observe from      *)
(*    outside (the gRPC dial, the steps of ControllableTask.Kill between    *)
(*    signals, a transition dropped for lack of a client) are followed by   *)
(*    keeping the SET of model states compatible with the lines so far      *)
(*    (cands).  A line no candidate can take prints a DRIFT record and the  *)
(*    rest of that run is only monitored;                                   *)
(*  - the monitor: independent of the model state, the property formulas    *)
(*    are evaluated on the recorded facts; a failure prints a VIOL record   *)
(*    (soft invariant) carrying the request and instant to blame.           *)
(***************************************************************************)
EXTENDS ExecTask, Integers, Json, IOUtils, TLC

Trace == ndJsonDeserialize(IOEnv.TRACE_FILE)

VARIABLES l,        \* next line of Trace
          mode,     \* "ok" | "lost"
          scn,      \* current scenario id
          cands,    \* model states compatible with the run so far
          mk,       \* monitor: [kind, beh] of the run
          msent,    \* monitor: statuses sent, in order
          mlast,    \* monitor: last delivered Kill
          mlastSK,  \* monitor: last delivered STOP / Kill
          mkillAt,  \* monitor: index in msent from which FAILED contradicts a delivered Kill (0: none)
          mown,     \* monitor: the child went away on its own (released / crashes at start)
          mdone,    \* monitor: a STOP of a basic task was answered or a Kill was delivered
          mgone,    \* monitor: the event loop has processed a terminal status of the task
          mdev,     \* monitor: the device's state as last reported by the device itself ("?": not yet)
          minfl,    \* monitor: delivered transition requests of a controllable task not answered yet
          mlastT,   \* monitor: last delivered transition request
          mlastAny, \* monitor: last request issued, delivered or not
          m2,       \* monitor: the second task of the same executor: [launch, running, terminal] seen
          mkseen,   \* monitor: a Kill was delivered (its teardown talks to the device on its own)
          nviol

tvars == <<l, mode, scn, cands, mk, msent, mlast, mlastSK, mkillAt, mown, mdone, mgone, mdev, minfl, mlastT, mlastAny, m2, mkseen, nviol>>
allvars == <<vars, tvars>>

Line == Trace[l]
HasF(f) == f \in DOMAIN Line

Short(x) == CASE x = "TASK_RUNNING" -> "RUNNING" [] x = "TASK_FINISHED" -> "FINISHED"
              [] x = "TASK_FAILED" -> "FAILED" [] x = "TASK_KILLED" -> "KILLED" [] OTHER -> x

Soft(name, cond, detail) ==
  IF cond THEN 0
  ELSE IF PrintT(<<"VIOL", name, scn, l, detail>>) THEN 1 ELSE 1

(* ----- steps nobody observes from outside ----- *)
Hidden(s) ==
  DoLDial(s) \cup DoDoneExit(s) \cup DoWaitRet(s) \cup DoLWaitRet(s) \cup {t \in DoReaperStart(s) : t.exec = s.exec}
  \cup UNION {{t \in DoKBody(s, i) : t.exec = s.exec} \cup DoKClose(s, i) \cup DoKKill9(s, i) \cup DoKEnd(s, i)
              \cup (IF s.child # "running" THEN DoKTerm(s, i) \cup DoKInt(s, i) ELSE {})
              \cup DoTransBody(s, i) \cup DoTransCommit(s, i) \cup DoKillBodyBasic(s, i)
              \cup DoNoopBody(s, i) \cup DoStartBody(s, i) \cup {t \in DoStopBody(s, i) : t.exec = s.exec} \cup DoStopPush(s, i) \cup DoStopKill(s, i) \cup DoKPush(s, i) \cup DoKGrace(s, i) : i \in HIdx(s)}
(* a panic is recorded when the process has died, which is later than the panic itself *)
ObsPanic(s) ==
  {t \in DoLPoll(s) \cup DoReaperStart(s) \cup UNION {DoStopBody(s, i) \cup DoKBody(s, i) : i \in HIdx(s)} : t.exec = "panicked"}
HiddenAll(s) == Hidden(s) \cup (IF s.exec = "ok" THEN {[t EXCEPT !.exec = "dying"] : t \in ObsPanic(s)} ELSE {})
RECURSIVE Clo(_, _, _)
Clo(seen, front, n) ==       \* breadth-first, only the new states are expanded
  IF n = 0 \/ front = {} THEN seen
  ELSE LET new == (UNION {HiddenAll(s) : s \in front}) \ seen IN Clo(seen \cup new, new, n - 1)
Closure(X) == Clo(X, X, 16)

(* ----- the observable step named by a line, from one candidate ----- *)
ObsResp(s) ==
  UNION {IF s.hs[i].r = Line.r /\ s.hs[i].err = Line.err THEN DoRespond(s, i) ELSE {} : i \in HIdx(s)}

ObsStatus(s) ==
  LET st == Short(Line.state)
      acts == DoTimer(s) \cup DoLPoll(s) \cup DoLWait(s) \cup DoLDialTimeout(s) \cup DoLPollTimeout(s)
              \cup UNION {DoKillSend(s, i) : i \in HIdx(s)}
  IN {t \in acts : t.exec = s.exec /\ t.sent = Append(s.sent, st)}

Obs(s) ==
  LET e == Line.ev IN
  CASE e = "Launch" -> {t \in DoLaunch(s) : t.active = Line.active /\ Line.ok}
    [] e = "Req" -> IF Inst(s) = Line.inst /\ s.cnt[Line.r] + 1 = Line.nth /\ s.active = Line.delivered
                         /\ Line.late = HasTerminal(s.sent)
                      THEN DoReq(s, Line.r) ELSE {}
    [] e = "Release" -> DoRelease(s)
    [] e = "Status" -> ObsStatus(s)
    [] e = "Proc" -> IF s.procd < Len(s.sent) /\ s.sent[s.procd + 1] = Short(Line.state) THEN DoProc(s) ELSE {}
    [] e = "Resp" -> ObsResp(s)
    [] e = "DevEvent" -> {t \in DoReap(s) : t.btt[Len(t.btt)] = [final |-> Short(Line.final), vol |-> Line.vol]}
    [] e = "Sig" -> IF s.child \in {"running", "exiting"} /\ (Line.obeyed <=> Obeys(s))
                      THEN UNION {IF Line.sig = "TERM" THEN DoKTerm(s, i) ELSE DoKInt(s, i) : i \in HIdx(s)}
                      ELSE {}
    [] e = "ExecutorExit" -> IF s.exec = "dying" THEN {[s EXCEPT !.exec = "panicked"]} ELSE {}
    [] e = "End" -> IF s.exec = "ok" /\ ((Line.alive > 0) <=> (s.child = "running" \/ s.grand)) THEN {s} ELSE {}
    [] OTHER -> {}

Skipped == Line.ev \in {"Note", "ChildExit", "Fin", "HarnessError"}
(* the O2 state a device state stands for (FairMQ names; DIRECT devices use the O2 names; "" for an intermediate state) *)
O2Of(d) == CASE d = "IDLE" -> "STANDBY" [] d = "READY" -> "CONFIGURED" [] d = "EXITING" -> "DONE"
             [] d \in {"STANDBY", "CONFIGURED", "RUNNING", "ERROR", "DONE"} -> d [] OTHER -> ""
IsTrans(r) == r \in {"CONFIGURE", "START"}
NextCands == UNION {Obs(s) : s \in Closure(cands)}

(* ----- the monitor: property formulas on recorded facts ----- *)
IsDeliveredReq == Line.ev = "Req" /\ Line.delivered
ReqRec == [r |-> Line.r, inst |-> Line.inst, nth |-> Line.nth, late |-> Line.late]
Blame(q, site) == <<q.r, q.inst, q.nth, site, q.late>>

MonitorStep ==
  LET sent2 == IF Line.ev = "Status" THEN Append(msent, Short(Line.state)) ELSE msent
      last2 == IF IsDeliveredReq /\ Line.r = "Kill" THEN ReqRec ELSE mlast
      lastAny2 == IF Line.ev = "Req" THEN ReqRec ELSE mlastAny
      lastSK2 == IF IsDeliveredReq /\ Line.r \in {"STOP", "Kill"} THEN ReqRec ELSE mlastSK
      own2 == mown \/ Line.ev = "Release"
              \/ (Line.ev = "Resp" /\ Line.r \in {"START", "Trigger"} /\ ~Line.err /\ mk.beh = "crash")
      killAt2 == IF IsDeliveredReq /\ Line.r = "Kill" /\ mkillAt = 0 /\ ~mown THEN Len(msent) + 1 ELSE mkillAt
      done2 == CASE IsDeliveredReq /\ Line.r = "Kill" -> TRUE
                 [] Line.ev = "Resp" /\ Line.r = "STOP" /\ mk.kind = "basic" -> TRUE
                 [] Line.ev = "Resp" /\ Line.r \in {"START", "Trigger"} /\ ~Line.err -> FALSE
                 [] OTHER -> mdone
  IN /\ msent' = sent2 /\ mlast' = last2 /\ mlastSK' = lastSK2 /\ mown' = own2 /\ mkillAt' = killAt2 /\ mdone' = done2
     /\ mgone' = (mgone \/ (Line.ev = "Proc" /\ Terminal(Short(Line.state))))
     /\ mkseen' = (mkseen \/ (IsDeliveredReq /\ Line.r = "Kill"))
     /\ mlastT' = IF IsDeliveredReq /\ IsTrans(Line.r) THEN ReqRec ELSE mlastT
     /\ minfl' = IF mk.kind # "ctl" THEN 0
                  ELSE IF IsDeliveredReq /\ IsTrans(Line.r) THEN minfl + 1
                  ELSE IF Line.ev = "Resp" /\ minfl > 0 THEN minfl - 1 ELSE minfl
     /\ mdev' = mdev /\ m2' = m2 /\ mlastAny' = lastAny2
     /\ nviol' = nviol
          + Soft("OneTerminal", OneTerminalOf(sent2), Blame(last2, ""))
          + Soft("KilledNotFailed", KilledNotFailedOf(sent2, killAt2, own2), Blame(last2, ""))
          + Soft("ExecutorSurvives", ~(Line.ev = "ExecutorExit" \/ Line.ev = "LoopHung"),
                 Blame(lastSK2, IF HasF("site") THEN Line.site ELSE "event loop"))
          + Soft("NoSurvivors", (Line.ev = "End" /\ done2) => Line.alive = 0, Blame(lastSK2, ""))
          + Soft("GoneIsGone", IsDeliveredReq => ~mgone, Blame(ReqRec, ""))
          \* the executor goes on: other work handed to it after this task's requests is carried out within its bound
          + Soft("ExecutorGoesOn", (Line.ev \in {"End", "LoopHung"} /\ m2.launch) => (m2.running /\ m2.terminal),
                 Blame(lastAny2, IF Line.ev = "LoopHung" THEN "event loop blocked in " \o Line.step ELSE "second task not served"))
          \* (clause of C16) the state carried by the answer to a transition is the device's state at that moment
          + Soft("TransitionTruthful",
                 (Line.ev = "Resp" /\ mk.kind = "ctl" /\ IsTrans(Line.r) /\ mdev # "?" /\ Line.state # "") => Line.state \in {mdev, O2Of(mdev)},
                 Blame(mlastT, "answer " \o Line.state \o " / device " \o mdev))

IsStep == Line.ev \notin {"Reset", "Occ", "Second", "Status2", "Proc2"} /\ ~Skipped

TStep ==
  /\ l <= Len(Trace) /\ IsStep /\ mode = "ok"
  /\ LET nc == NextCands IN
       IF nc # {}
         THEN cands' = nc /\ mode' = "ok"
         ELSE PrintT(<<"DRIFT", scn, l, Line.ev>>) /\ mode' = "lost" /\ cands' = cands
  /\ MonitorStep
  /\ l' = l + 1 /\ UNCHANGED <<vars, scn, mk>>

TStepLost ==
  /\ l <= Len(Trace) /\ IsStep /\ mode = "lost"
  /\ MonitorStep
  /\ l' = l + 1 /\ UNCHANGED <<vars, mode, scn, cands, mk>>

TSkip ==
  /\ l <= Len(Trace) /\ Line.ev # "Reset" /\ Skipped
  /\ l' = l + 1 /\ UNCHANGED <<vars, mode, scn, cands, mk, msent, mlast, mlastSK, mkillAt, mown, mdone, mgone, mdev, minfl, mlastT,
                               mlastAny, m2, mkseen, nviol>>

(* the second task of the same executor: facts for the monitor *)
TSecond ==
  /\ l <= Len(Trace) /\ Line.ev \in {"Second", "Status2", "Proc2"}
  /\ m2' = [launch |-> m2.launch \/ (Line.ev = "Second" /\ Line.step = "launch"),
            running |-> m2.running \/ (Line.ev = "Status2" /\ Line.state = "TASK_RUNNING"),
            terminal |-> m2.terminal \/ (Line.ev = "Status2" /\ Terminal(Short(Line.state)))]
  /\ l' = l + 1 /\ UNCHANGED <<vars, mode, scn, cands, mk, msent, mlast, mlastSK, mkillAt, mown, mdone, mgone, mdev, minfl, mlastT,
                               mlastAny, mkseen, nviol>>

(* what the device process wrote itself: not a step of the model, but facts for the monitor - the device's state, and
   (clause of C16) no device request of a transition is issued once that transition has been answered *)
TOcc ==
  /\ l <= Len(Trace) /\ Line.ev = "Occ"
  /\ mdev' = IF HasF("st") THEN Line.st ELSE mdev
  /\ nviol' = nviol + Soft("TransitionTruthful", ~(Line.rpc = "Transition" /\ minfl = 0 /\ ~mkseen /\ mlastT.r # "none"),
                            Blame(mlastT, "device request after the answer"))
  /\ l' = l + 1 /\ UNCHANGED <<vars, mode, scn, cands, mk, msent, mlast, mlastSK, mkillAt, mown, mdone, mgone, minfl, mlastT, mlastAny, m2, mkseen>>

TReset ==
  /\ l <= Len(Trace) /\ Line.ev = "Reset"
  /\ cands' = {InitState(Line.kind, Line.beh, Line.hold)}
  /\ mode' = "ok" /\ scn' = Line.scn /\ mk' = [kind |-> Line.kind, beh |-> Line.beh]
  /\ msent' = <<>> /\ mlast' = NoReq /\ mlastSK' = NoReq /\ mkillAt' = 0 /\ mown' = FALSE /\ mdone' = FALSE /\ mgone' = FALSE
  /\ mdev' = "?" /\ minfl' = 0 /\ mlastT' = NoReq /\ mlastAny' = NoReq /\ mkseen' = FALSE
  /\ m2' = [launch |-> FALSE, running |-> FALSE, terminal |-> FALSE]
  /\ l' = l + 1 /\ UNCHANGED <<vars, nviol>>

TraceInit ==
  /\ Is(InitState("basic", "sleep", FALSE))
  /\ l = 1 /\ mode = "lost" /\ scn = -1 /\ cands = {} /\ mk = [kind |-> "basic", beh |-> "sleep"]
  /\ msent = <<>> /\ mlast = NoReq /\ mlastSK = NoReq /\ mkillAt = 0 /\ mown = FALSE /\ mdone = FALSE /\ mgone = FALSE /\ nviol = 0
  /\ mdev = "?" /\ minfl = 0 /\ mlastT = NoReq /\ mlastAny = NoReq /\ mkseen = FALSE
  /\ m2 = [launch |-> FALSE, running |-> FALSE, terminal |-> FALSE]

TraceNext == TStep \/ TStepLost \/ TSkip \/ TOcc \/ TSecond \/ TReset

TraceSpec == TraceInit /\ [][TraceNext]_allvars

Done == l = Len(Trace) + 1
PrintEnd == Done => PrintT(<<"END", Len(Trace), nviol>>)
=============================================================================
