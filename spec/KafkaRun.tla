------------------------------- MODULE KafkaRun ------------------------------
(* X09: what the Kafka integration plugin (core/integration/kafka/plugin.go) publishes about environments and runs.            *)
(* Environments walk through the documented transition points (docs/handbook/operation_order.md): start = before_START_ACTIVITY *)
(* (run number set), leave_CONFIGURED, enter_RUNNING; stop = leave_RUNNING, enter_CONFIGURED (run number cleared afterwards);   *)
(* error = leave_<state>, enter_ERROR; exit = leave_<state>, enter_DONE.  At each point the documented hook of the plugin       *)
(* (PublishStartActivityUpdate / PublishLeaveStateUpdate / PublishEnterStateUpdate) may be called once - or skipped - with a     *)
(* scripted outcome of its broker writes (ok | w1 | w2 | w12: which of its writes fail) and possibly a missing variable.         *)
(* The plugin's memory is the map envsInRunning (here: environment -> run number it holds, -1 = absent); the broker is a log,    *)
(* of which the model keeps the messages appended by the step (last.msgs, in order) and the last list published (blist).         *)
(* Code_* constants: TRUE = the code as it is, FALSE = the repaired design (under which the property it refutes holds).          *)
EXTENDS Naturals, Integers, Sequences, FiniteSets, TLC

CONSTANTS Envs, MaxRun,
          Code_WriteErrorSwallowed,  \* produceMessage only logs a failed write: the hook never fails, the memory is updated regardless
          Code_LeaveNotTracked,      \* PublishLeaveStateUpdate(leave_RUNNING) does not touch envsInRunning nor publish the list
          Code_ListOnlyFromHooks,    \* an environment leaves the list only through its own enter hook (a skipped hook: it stays)
          Code_RunOnlyInRunning,     \* run number only with state RUNNING or a START_ACTIVITY trigger, though the run is current
          Code_NilDeref              \* a missing variable: newEnvStateObject returns nil and the hook dereferences it (panic)

ASSUME \A k \in 1..8 : TLCSet(k, 0)
Once(k, P) == P \/ TLCGet(k) = 1 \/ (TLCSet(k, 1) /\ FALSE)

VARIABLES st, run, pt, tr, called, nrun, mem, blist, seen, last
vars == <<st, run, pt, tr, called, nrun, mem, blist, seen, last>>

States == {"CONFIGURED", "RUNNING", "ERROR", "DONE"}
Gone == {"ERROR", "DONE"}
Faults == {"ok", "w1", "w2", "w12"}
NoList == [x \in Envs |-> -1]

FnOf(p) == IF p = "before_START_ACTIVITY" THEN "PublishStartActivityUpdate"
           ELSE IF p \in {"leave_CONFIGURED", "leave_RUNNING", "leave_ERROR"} THEN "PublishLeaveStateUpdate"
           ELSE "PublishEnterStateUpdate"
StateOf(p) == CASE p = "before_START_ACTIVITY" -> "CONFIGURED"
                [] p \in {"leave_CONFIGURED", "enter_CONFIGURED"} -> "CONFIGURED"
                [] p \in {"leave_RUNNING", "enter_RUNNING"} -> "RUNNING"
                [] p \in {"leave_ERROR", "enter_ERROR"} -> "ERROR"
                [] p = "enter_DONE" -> "DONE"
                [] OTHER -> "UNKNOWN"
NoStep == [k |-> "init", e |-> "", fn |-> "", trig |-> "", f |-> "ok", miss |-> FALSE, res |-> "ok", msgs |-> <<>>, nfail |-> 0,
           memB |-> NoList, st |-> "", run |-> 0]

Init == /\ st = [e \in Envs |-> "CONFIGURED"] /\ run = [e \in Envs |-> 0] /\ pt = [e \in Envs |-> "none"]
        /\ tr = [e \in Envs |-> "none"] /\ called = [e \in Envs |-> FALSE] /\ nrun = 0
        /\ mem = NoList /\ blist = NoList /\ seen = {} /\ last = NoStep

\* ---------- the environment ----------
Move(e, p, s, r, t) ==
   /\ pt' = [pt EXCEPT ![e] = p] /\ st' = [st EXCEPT ![e] = s] /\ run' = [run EXCEPT ![e] = r] /\ tr' = [tr EXCEPT ![e] = t]
   /\ called' = [called EXCEPT ![e] = FALSE]
   /\ last' = [NoStep EXCEPT !.k = "ecs", !.e = e, !.trig = p, !.st = s, !.run = r, !.memB = mem]
   /\ UNCHANGED <<mem, blist, seen>>

Begin(e, t) ==
   /\ pt[e] = "none"
   /\ \/ t = "start" /\ st[e] = "CONFIGURED" /\ nrun < MaxRun /\ nrun' = nrun + 1
         /\ Move(e, "before_START_ACTIVITY", st[e], nrun + 1, t)
      \/ t = "stop" /\ st[e] = "RUNNING" /\ nrun' = nrun /\ Move(e, "leave_RUNNING", st[e], run[e], t)
      \/ t = "err" /\ st[e] \in {"CONFIGURED", "RUNNING"} /\ nrun' = nrun /\ Move(e, "leave_" \o st[e], st[e], run[e], t)
      \/ t = "exit" /\ st[e] \in {"CONFIGURED", "ERROR"} /\ nrun' = nrun /\ Move(e, "leave_" \o st[e], st[e], run[e], t)

Adv(e) ==
   /\ pt[e] # "none" /\ nrun' = nrun
   /\ \/ pt[e] = "before_START_ACTIVITY" /\ Move(e, "leave_CONFIGURED", st[e], run[e], tr[e])
      \/ pt[e] = "leave_CONFIGURED" /\ tr[e] = "start" /\ Move(e, "enter_RUNNING", "RUNNING", run[e], tr[e])
      \/ pt[e] = "leave_RUNNING" /\ tr[e] = "stop" /\ Move(e, "enter_CONFIGURED", "CONFIGURED", run[e], tr[e])
      \/ pt[e] \in {"leave_CONFIGURED", "leave_RUNNING"} /\ tr[e] = "err" /\ Move(e, "enter_ERROR", "ERROR", run[e], tr[e])
      \/ pt[e] \in {"leave_CONFIGURED", "leave_ERROR"} /\ tr[e] = "exit" /\ Move(e, "enter_DONE", "DONE", run[e], tr[e])
      \/ pt[e] \in {"enter_RUNNING"} /\ Move(e, "none", st[e], run[e], "none")
      \/ pt[e] \in {"enter_CONFIGURED", "enter_ERROR", "enter_DONE"} /\ Move(e, "none", st[e], 0, "none")

\* ---------- the plugin ----------
PubRun(e, p) == IF Code_RunOnlyInRunning
                THEN (IF StateOf(p) = "RUNNING" \/ p = "before_START_ACTIVITY" THEN run[e] ELSE 0)
                ELSE run[e]
\* gone: destroyed, or in ERROR with the transition point enter_ERROR behind it
IsGone(s, p) == s = "DONE" \/ (s = "ERROR" /\ p # "enter_ERROR")
Purge(m) == IF Code_ListOnlyFromHooks THEN m ELSE [x \in Envs |-> IF IsGone(st[x], pt[x]) THEN -1 ELSE m[x]]
StateMsg(e, p) == [kind |-> "state", e |-> e, s |-> StateOf(p), rn |-> PubRun(e, p), l |-> NoList]
ListMsg(e, m) == [kind |-> "list", e |-> e, s |-> "", rn |-> 0, l |-> m]
Fail1(f) == f \in {"w1", "w12"}
Fail2(f) == f \in {"w2", "w12"}

\* the hook updates the memory to m2 and publishes the state message, then the list
TwoWrites(e, p, f, m2) ==
   IF Code_WriteErrorSwallowed
   THEN [res |-> "ok", mem |-> m2, blist |-> IF Fail2(f) THEN blist ELSE m2,
         msgs |-> (IF Fail1(f) THEN <<>> ELSE <<StateMsg(e, p)>>) \o (IF Fail2(f) THEN <<>> ELSE <<ListMsg(e, m2)>>),
         nfail |-> (IF Fail1(f) THEN 1 ELSE 0) + (IF Fail2(f) THEN 1 ELSE 0)]
   ELSE IF Fail1(f) THEN [res |-> "err", mem |-> mem, blist |-> blist, msgs |-> <<>>, nfail |-> 1]
   ELSE IF Fail2(f) THEN [res |-> "err", mem |-> mem, blist |-> blist, msgs |-> <<StateMsg(e, p)>>, nfail |-> 1]
   ELSE [res |-> "ok", mem |-> m2, blist |-> m2, msgs |-> <<StateMsg(e, p), ListMsg(e, m2)>>, nfail |-> 0]
OneWrite(e, p, f) ==
   IF Fail1(f) THEN [res |-> IF Code_WriteErrorSwallowed THEN "ok" ELSE "err", mem |-> mem, blist |-> blist, msgs |-> <<>>, nfail |-> 1]
   ELSE [res |-> "ok", mem |-> mem, blist |-> blist, msgs |-> <<StateMsg(e, p)>>, nfail |-> 0]

NW(p) == IF FnOf(p) = "PublishEnterStateUpdate" \/ (p = "leave_RUNNING" /\ ~Code_LeaveNotTracked) THEN 2 ELSE 1
Effect(e, p, f, miss) ==
   IF miss THEN [res |-> IF Code_NilDeref THEN "panic" ELSE "err", mem |-> mem, blist |-> blist, msgs |-> <<>>, nfail |-> 0]
   ELSE IF FnOf(p) = "PublishEnterStateUpdate"
        THEN TwoWrites(e, p, f, Purge([mem EXCEPT ![e] = IF StateOf(p) = "RUNNING" THEN PubRun(e, p) ELSE -1]))
   ELSE IF NW(p) = 2 THEN TwoWrites(e, p, f, Purge([mem EXCEPT ![e] = -1]))
   ELSE OneWrite(e, p, f)

Hook(e, f, miss) ==
   /\ pt[e] # "none" /\ ~called[e]
   /\ (NW(pt[e]) = 1 => f \in {"ok", "w1"})
   /\ LET p == pt[e]
          x == Effect(e, p, f, miss)
      IN /\ mem' = x.mem /\ blist' = x.blist
         /\ seen' = IF x.res # "ok" THEN seen
                    ELSE IF p = "enter_RUNNING" THEN seen \cup {e}
                    ELSE IF p = "leave_RUNNING" \/ (FnOf(p) = "PublishEnterStateUpdate") THEN seen \ {e}
                    ELSE seen
         /\ last' = [k |-> "hook", e |-> e, fn |-> FnOf(p), trig |-> p, f |-> f, miss |-> miss, res |-> x.res, msgs |-> x.msgs,
                     nfail |-> x.nfail, memB |-> mem, st |-> st[e], run |-> run[e]]
   /\ called' = [called EXCEPT ![e] = TRUE]
   /\ UNCHANGED <<st, run, pt, tr, nrun>>

Next == \E e \in Envs : \/ \E t \in {"start", "stop", "err", "exit"} : Begin(e, t)
                        \/ Adv(e)
                        \/ \E f \in Faults, miss \in BOOLEAN : Hook(e, f, miss)
Spec == Init /\ [][Next]_vars

\* ---------- properties (over the step just taken) ----------
IsHook == last.k = "hook"
StateMsgs == {last.msgs[i] : i \in {j \in 1..Len(last.msgs) : last.msgs[j].kind = "state"}}
ListMsgs == {last.msgs[i] : i \in {j \in 1..Len(last.msgs) : last.msgs[j].kind = "list"}}
Listed(l) == {x \in Envs : l[x] # -1}
Live == {x \in Envs : ~IsGone(st[x], pt[x])}

TypeOK == /\ st \in [Envs -> States] /\ run \in [Envs -> 0..MaxRun] /\ mem \in [Envs -> -1..MaxRun] /\ blist \in [Envs -> -1..MaxRun]
          /\ seen \subseteq Envs /\ nrun \in 0..MaxRun

\* the state published is the environment's state at the call, with ITS id
StateIsEnvState == IsHook => \A m \in StateMsgs : m.e = last.e /\ m.s = last.st
\* ... and its current run number (0 outside a run)
RunNumberIsCurrent == IsHook => \A m \in StateMsgs : m.rn = last.run
\* every list published is exactly what the plugin has seen entering RUNNING and not leaving it (among the environments still there)
ListIsSeenRunning == IsHook => \A m \in ListMsgs : Listed(m.l) \cap Live = seen \cap Live
\* an environment that went to ERROR / was destroyed is in no list published afterwards
GoneDisappears == IsHook => \A m \in ListMsgs : Listed(m.l) \subseteq Live
\* nothing of another environment changes
OthersUntouched == IsHook => \A x \in Envs \ {last.e} : x \in Live => mem[x] = last.memB[x]
\* within a call: the state message first, then the list
StateBeforeList == IsHook /\ Len(last.msgs) = 2 => last.msgs[1].kind = "state" /\ last.msgs[2].kind = "list"
\* a failing broker write is reported as the call's error
FailureReported == IsHook /\ last.nfail > 0 => last.res = "err"
\* ... and leaves the memory consistent with what was published
MemoryIsPublished == IsHook /\ last.res # "panic" => mem = blist
\* a missing variable is a failed call, not a crash
NoPanic == IsHook => last.res # "panic"
\* the list holds the run number the environment entered RUNNING with
ListRunNumbers == IsHook /\ last.res = "ok" /\ last.trig = "enter_RUNNING" => mem[last.e] = last.run

W_RunNumberIsCurrent == Once(1, RunNumberIsCurrent)
W_ListIsSeenRunning == Once(2, ListIsSeenRunning)
W_GoneDisappears == Once(3, GoneDisappears)
W_FailureReported == Once(4, FailureReported)
W_MemoryIsPublished == Once(5, MemoryIsPublished)
W_NoPanic == Once(6, NoPanic)
=============================================================================
