---------------------------- MODULE KafkaRunTrace ----------------------------
(***************************************************************************)
(* Trace specification for KafkaRun (X09) over runs of the real Kafka       *)
(* plugin against the fake broker (harness/cmd/kafkarun).  Lines:            *)
(*   Reset{scn, envs}                                                        *)
(*   Ecs{e, s, r, pt, t, est} the environment reaches a transition point     *)
(*   Hook{e, fn, trig, f, miss, res, msgs, tried, s, r, pt, est, det}        *)
(*        msgs: what the broker appended, in order: {t, kind, info, list}    *)
(*   Obs{mem, nlog, nlist}    the plugin's envsInRunning after every step    *)
(*   Fin                                                                     *)
(* Conformance (strict): DRIFT.  Monitor on the recorded facts only: VIOL;    *)
(* a failure a Code_* constant explains is printed as OBS.                    *)
(***************************************************************************)
EXTENDS KafkaRun, Json, IOUtils

Trace == ndJsonDeserialize(IOEnv.TRACE_FILE)
VARIABLES l, scn, drifted, nviol, ndrift, mon
tvars == <<l, scn, drifted, nviol, ndrift, mon>>
Line == Trace[l]
Chk(name, cond, exempt, detail) ==
  IF cond THEN 0 ELSE IF exempt THEN (IF PrintT(<<"OBS", name, scn, l, detail>>) THEN 0 ELSE 0)
  ELSE IF PrintT(<<"VIOL", name, scn, l, detail>>) THEN 1 ELSE 1
Drift(detail) == PrintT(<<"DRIFT", scn, l, detail>>)
SeqSet(s) == {s[i] : i \in 1..Len(s)}
Sum(f, n) == LET RECURSIVE S(_)
                 S(i) == IF i = 0 THEN 0 ELSE f[i] + S(i - 1)
             IN S(n)
\* a recorded list of EnvInfo as environment -> run number (-1 = not listed)
LFn(s) == [x \in Envs |-> IF \E i \in 1..Len(s) : s[i].e = x THEN s[CHOOSE i \in 1..Len(s) : s[i].e = x].rn ELSE -1]
Strange(s) == \E i \in 1..Len(s) : s[i].e \notin Envs \/ s[i].s # "RUNNING" \/ \E j \in 1..Len(s) : j # i /\ s[j].e = s[i].e

(* ------------------------------ conformance ------------------------------ *)
MsgMatch(m, r) == /\ m.kind = r.kind
                  /\ (m.kind = "state" => m.e = r.info.e /\ m.s = r.info.s /\ m.rn = r.info.rn)
                  /\ (m.kind = "list" => ~Strange(r.list) /\ m.l = LFn(r.list))
Explained ==
  CASE Line.ev = "Ecs" -> /\ \/ \E t \in {"start", "stop", "err", "exit"} : Begin(Line.e, t)
                             \/ Adv(Line.e)
                          /\ pt'[Line.e] = Line.pt /\ st'[Line.e] = Line.s /\ run'[Line.e] = Line.r /\ tr'[Line.e] = Line.t
    [] Line.ev = "Hook" -> /\ Hook(Line.e, Line.f, Line.miss)
                           /\ last'.fn = Line.fn /\ last'.trig = Line.trig /\ last'.res = Line.res
                           /\ Len(last'.msgs) = Len(Line.msgs)
                           /\ \A i \in 1..Len(Line.msgs) : MsgMatch(last'.msgs[i], Line.msgs[i])
    [] Line.ev = "Obs" -> ~Strange(Line.mem) /\ LFn(Line.mem) = mem /\ UNCHANGED vars
    [] Line.ev = "Fin" -> UNCHANGED vars
    [] OTHER -> FALSE

(* ------------------------------ monitor (recorded facts only) ------------------------------ *)
MonInit == [est |-> [e \in Envs |-> "CONFIGURED"], run |-> [e \in Envs |-> 0], pt |-> [e \in Envs |-> "none"],
            seen |-> {}, left |-> {}, mem |-> NoList, blist |-> NoList, failed |-> FALSE, he |-> "", hres |-> "ok", htrig |-> ""]
MLive == {x \in Envs : ~IsGone(mon.est[x], mon.pt[x])}
TopicOf(fn, trig, m) == IF m.kind = "list" THEN "aliecs.env_list.RUNNING"
                        ELSE IF fn = "PublishEnterStateUpdate" THEN "aliecs.env_state." \o m.info.s
                        ELSE IF fn = "PublishLeaveStateUpdate" THEN "aliecs.env_leave_state." \o m.info.s
                        ELSE IF trig = "before_START_ACTIVITY" THEN "aliecs.before_start_activity"
                        ELSE IF trig = "after_START_ACTIVITY" THEN "aliecs.after_start_activity" ELSE "aliecs.start_activity"
MonHook ==
  LET e == Line.e
      ms == Line.msgs
      n == Len(ms)
      seen2 == IF Line.res # "ok" THEN mon.seen
               ELSE IF Line.trig = "enter_RUNNING" THEN mon.seen \cup {e}
               ELSE IF Line.trig = "leave_RUNNING" \/ Line.fn = "PublishEnterStateUpdate" THEN mon.seen \ {e} ELSE mon.seen
      left2 == IF Line.res = "ok" /\ Line.trig = "leave_RUNNING" THEN mon.left \cup {e}
               ELSE IF Line.res = "ok" /\ Line.fn = "PublishEnterStateUpdate" THEN mon.left \ {e} ELSE mon.left
      anyfail == \E i \in 1..Len(Line.tried) : Line.tried[i].failed
      perMsg == [i \in 1..n |->
         IF ms[i].kind = "state"
         THEN Chk("StateIsEnvState", ms[i].info.e = e /\ ms[i].info.s = Line.s, FALSE, <<e, Line.trig, Line.s, ms[i].info.e, ms[i].info.s>>)
            + Chk("RunNumberIsCurrent", ms[i].info.rn = Line.r,
                  Code_RunOnlyInRunning /\ ms[i].info.rn = 0 /\ ~(ms[i].info.s = "RUNNING" \/ Line.trig = "before_START_ACTIVITY"),
                  <<e, Line.trig, Line.r, ms[i].info.rn>>)
            + Chk("DetailsFaithful", ms[i].info.det = Line.det /\ ms[i].info.est = Line.est /\ ms[i].tsok
                                     /\ (ms[i].info.has => ms[i].info.rt = "PHYSICS"), FALSE, <<e, Line.trig, ms[i].info>>)
            + Chk("TopicRight", ms[i].t = TopicOf(Line.fn, Line.trig, ms[i]), FALSE, <<e, Line.fn, Line.trig, ms[i].t>>)
         ELSE IF ms[i].kind = "list"
         THEN LET L == {x \in Envs : LFn(ms[i].list)[x] # -1}
              IN Chk("ListIsSeenRunning", ~Strange(ms[i].list) /\ L \cap MLive = seen2 \cap MLive,
                     Code_LeaveNotTracked /\ ~Strange(ms[i].list) /\ seen2 \cap MLive \subseteq L /\ (L \cap MLive) \ seen2 \subseteq left2,
                     <<e, Line.trig, L, seen2, left2>>)
                 + Chk("GoneDisappears", L \subseteq MLive,
                       Code_ListOnlyFromHooks /\ (L \ MLive) \subseteq {x \in Envs : mon.mem[x] # -1}, <<e, Line.trig, L, MLive>>)
                 + Chk("TopicRight", ms[i].t = "aliecs.env_list.RUNNING" /\ ms[i].tsok, FALSE, <<e, ms[i].t>>)
         ELSE Chk("DetailsFaithful", FALSE, FALSE, <<"undecodable message", ms[i].t>>)]
      v == Sum(perMsg, n)
         + Chk("StateBeforeList", n <= 2 /\ (n = 2 => ms[1].kind = "state" /\ ms[2].kind = "list"), FALSE, <<e, Line.trig, n>>)
         + Chk("FailureReported", anyfail => Line.res = "err", Code_WriteErrorSwallowed /\ Line.res = "ok", <<e, Line.fn, Line.trig, Line.f>>)
         + Chk("NoPanic", Line.res # "panic", Code_NilDeref /\ Line.miss, <<e, Line.fn, Line.trig, Line.detail>>)
         + Chk("HookAtItsPoint", Line.trig = mon.pt[e], FALSE, <<e, Line.trig, mon.pt[e]>>)
      lists == {i \in 1..n : ms[i].kind = "list"}
  IN /\ nviol' = nviol + v
     /\ mon' = [mon EXCEPT !.seen = seen2, !.left = left2, !.failed = @ \/ anyfail, !.he = e, !.hres = Line.res, !.htrig = Line.trig,
                           !.blist = IF lists = {} THEN @ ELSE LFn(ms[CHOOSE i \in lists : \A j \in lists : j <= i].list)]
MonObs ==
  LET m == LFn(Line.mem)
      v == IF mon.he = "" THEN Chk("MemoryOnlyByHooks", m = mon.mem, FALSE, <<m, mon.mem>>)
           ELSE Chk("OthersUntouched", \A x \in Envs \ {mon.he} : m[x] = mon.mem[x], FALSE, <<mon.he, m, mon.mem>>)
              + Chk("MemoryIsPublished", mon.hres = "panic" \/ m = mon.blist, Code_WriteErrorSwallowed /\ mon.failed, <<mon.he, m, mon.blist>>)
              + Chk("ListRunNumbers", (mon.hres = "ok" /\ mon.htrig = "enter_RUNNING") => m[mon.he] = mon.run[mon.he], FALSE, <<mon.he, m, mon.run>>)
  IN nviol' = nviol + v /\ mon' = [mon EXCEPT !.mem = m, !.he = ""]
Mon ==
  CASE Line.ev = "Hook" -> MonHook
    [] Line.ev = "Obs" -> MonObs
    [] Line.ev = "Ecs" -> /\ mon' = [mon EXCEPT !.est[Line.e] = Line.s, !.run[Line.e] = Line.r, !.pt[Line.e] = Line.pt, !.he = ""]
                          /\ UNCHANGED nviol
    [] OTHER -> UNCHANGED <<mon, nviol>>

TReset ==
  /\ Line.ev = "Reset" /\ scn' = Line.scn /\ drifted' = FALSE /\ mon' = MonInit
  /\ st' = [e \in Envs |-> "CONFIGURED"] /\ run' = [e \in Envs |-> 0] /\ pt' = [e \in Envs |-> "none"]
  /\ tr' = [e \in Envs |-> "none"] /\ called' = [e \in Envs |-> FALSE] /\ nrun' = 0
  /\ mem' = NoList /\ blist' = NoList /\ seen' = {} /\ last' = NoStep /\ UNCHANGED <<nviol, ndrift>>
TOk == /\ Line.ev # "Reset" /\ ~drifted /\ Explained /\ Mon /\ UNCHANGED <<scn, drifted, ndrift>>
TDrift == /\ Line.ev # "Reset" /\ ~drifted /\ ~ENABLED Explained
          /\ Drift(<<Line.ev, st, run, pt, called, mem, blist>>)
          /\ drifted' = TRUE /\ ndrift' = ndrift + 1 /\ Mon /\ UNCHANGED <<vars, scn>>
TLost == /\ Line.ev # "Reset" /\ drifted /\ Mon /\ UNCHANGED <<vars, scn, drifted, ndrift>>
TraceInit == Init /\ l = 1 /\ scn = -1 /\ drifted = FALSE /\ nviol = 0 /\ ndrift = 0 /\ mon = MonInit
TraceNext == l <= Len(Trace) /\ (TReset \/ TOk \/ TDrift \/ TLost) /\ l' = l + 1
TraceSpec == TraceInit /\ [][TraceNext]_<<vars, tvars>>
PrintEnd == (l = Len(Trace) + 1) => PrintT(<<"END", Len(Trace), nviol>>)
=============================================================================
